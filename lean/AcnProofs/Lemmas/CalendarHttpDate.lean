/-
  Helper lemmas for the RFC-1123 model (`AcnModel/HttpDate.lean`): digits and names round-trip,
  broken-down time ↔ second count, and the fixed-width format is read back by the parser.
-/
import AcnModel.HttpDate
import AcnProofs.Lemmas.CalendarOrder

namespace Acn.HttpDate
open Acn.Calendar

theorem digitVal_digit {n : Int} (h0 : 0 ≤ n) (h9 : n ≤ 9) : digitVal (digit n) = some n := by
  have : n = 0 ∨ n = 1 ∨ n = 2 ∨ n = 3 ∨ n = 4 ∨ n = 5 ∨ n = 6 ∨ n = 7 ∨ n = 8 ∨ n = 9 := by omega
  rcases this with rfl | rfl | rfl | rfl | rfl | rfl | rfl | rfl | rfl | rfl <;> decide

theorem num2_digits {n : Int} (h0 : 0 ≤ n) (h : n < 100) :
    num2 (digit (n / 10)) (digit (n % 10)) = some n := by
  unfold num2
  rw [digitVal_digit (by omega) (by omega), digitVal_digit (by omega) (by omega)]
  simp only [Option.some.injEq]; omega

theorem num4_digits {n : Int} (h0 : 0 ≤ n) (h : n < 10000) :
    num4 (digit (n / 1000)) (digit (n / 100 % 10)) (digit (n / 10 % 10)) (digit (n % 10)) = some n := by
  have a := num2_digits (n := n / 100) (by omega) (by omega)
  have b := num2_digits (n := n % 100) (by omega) (by omega)
  rw [show n / 100 / 10 = n / 1000 by omega] at a
  rw [show n % 100 / 10 = n / 10 % 10 by omega, show n % 100 % 10 = n % 10 by omega] at b
  unfold num4
  rw [a, b]
  simp only [Option.some.injEq]; omega

theorem wdOfName_wdName {w : Int} (h0 : 0 ≤ w) (h : w < 7) :
    wdOfName (wdName w).1 (wdName w).2.1 (wdName w).2.2 = some w := by
  have : w = 0 ∨ w = 1 ∨ w = 2 ∨ w = 3 ∨ w = 4 ∨ w = 5 ∨ w = 6 := by omega
  rcases this with rfl | rfl | rfl | rfl | rfl | rfl | rfl <;> decide

theorem monOfName_monName {m : Int} (h0 : 1 ≤ m) (h : m ≤ 12) :
    monOfName (monName m).1 (monName m).2.1 (monName m).2.2 = some m := by
  have : m = 1 ∨ m = 2 ∨ m = 3 ∨ m = 4 ∨ m = 5 ∨ m = 6 ∨ m = 7 ∨ m = 8 ∨ m = 9 ∨ m = 10 ∨
      m = 11 ∨ m = 12 := by omega
  rcases this with rfl | rfl | rfl | rfl | rfl | rfl | rfl | rfl | rfl | rfl | rfl | rfl <;> decide

/-- the time-of-day fields are always in range; month and day are a real date -/
theorem fieldsOfSeconds_ranges (t : Int) :
    1 ≤ (fieldsOfSeconds t).mo ∧ (fieldsOfSeconds t).mo ≤ 12 ∧ 1 ≤ (fieldsOfSeconds t).d ∧
    (fieldsOfSeconds t).d ≤ daysInMonth (fieldsOfSeconds t).y (fieldsOfSeconds t).mo ∧
    0 ≤ (fieldsOfSeconds t).h ∧ (fieldsOfSeconds t).h < 24 ∧
    0 ≤ (fieldsOfSeconds t).mi ∧ (fieldsOfSeconds t).mi < 60 ∧
    0 ≤ (fieldsOfSeconds t).s ∧ (fieldsOfSeconds t).s < 60 := by
  obtain ⟨a, b, c, d⟩ := civil_valid (t / 86400)
  simp only [fieldsOfSeconds]
  refine ⟨a, b, c, d, ?_, ?_, ?_, ?_, ?_, ?_⟩ <;> omega

/-- broken-down time → seconds is a left inverse of seconds → broken-down time, for every instant -/
theorem seconds_of_fields_of_seconds (t : Int) : secondsOfFields (fieldsOfSeconds t) = t := by
  have h := days_roundtrip (t / 86400)
  simp only [secondsOfFields, fieldsOfSeconds]
  rw [h]; omega

/-- … and a right inverse on every valid broken-down time (any year) -/
theorem fields_of_seconds_of_fields (f : Fields) (hm : 1 ≤ f.mo) (hm' : f.mo ≤ 12) (hd : 1 ≤ f.d)
    (hd' : f.d ≤ daysInMonth f.y f.mo) (h0 : 0 ≤ f.h) (h1 : f.h < 24) (m0 : 0 ≤ f.mi)
    (m1 : f.mi < 60) (s0 : 0 ≤ f.s) (s1 : f.s < 60) :
    fieldsOfSeconds (secondsOfFields f) = f := by
  have h := civil_roundtrip' f.y f.mo f.d hm hm' hd hd'
  obtain ⟨y, mo, d, hh, mi, s⟩ := f
  simp only at *
  simp only [secondsOfFields, fieldsOfSeconds]
  have e1 : (daysFromCivil y mo d * 86400 + hh * 3600 + mi * 60 + s) / 86400 = daysFromCivil y mo d := by
    omega
  have e2 : (daysFromCivil y mo d * 86400 + hh * 3600 + mi * 60 + s) % 86400 = hh * 3600 + mi * 60 + s := by
    omega
  rw [e1, e2, h]
  simp only [Fields.mk.injEq, true_and]
  refine ⟨?_, ?_, ?_⟩ <;> omega

theorem punct_ok : punctOk ',' ' ' ' ' ' ' ' ' ':' ':' ' ' 'G' 'M' 'T' = true := by decide

theorem validFields_of_seconds (t : Int) (hy : 1 ≤ (fieldsOfSeconds t).y) (hy' : (fieldsOfSeconds t).y ≤ 9999) :
    validFields (fieldsOfSeconds t) = true := by
  obtain ⟨a, b, c, d, e, f, g, h, i, j⟩ := fieldsOfSeconds_ranges t
  simp only [validFields, validDate, Bool.and_eq_true, decide_eq_true_eq]
  exact ⟨⟨⟨⟨⟨⟨⟨⟨⟨⟨⟨hy, hy'⟩, a⟩, b⟩, c⟩, d⟩, e⟩, f⟩, g⟩, h⟩, i⟩, j⟩

/-- the parser reads back what the formatter writes (character level, canonical form) -/
theorem parseCanon_formatChars (t : Int) (hy : 1000 ≤ (fieldsOfSeconds t).y)
    (hy' : (fieldsOfSeconds t).y ≤ 9999) : parseCanon (formatChars t) = some t := by
  obtain ⟨a, b, c, d, e, f, g, h, i, j⟩ := fieldsOfSeconds_ranges t
  have hd31 : (fieldsOfSeconds t).d ≤ 31 := by
    have := (monthLen_le (isLeap (fieldsOfSeconds t).y) (fieldsOfSeconds t).mo)
    rw [daysInMonth_eq] at d; omega
  have hw := weekday_spec_aux (t / 86400)
  simp only [formatChars, parseCanon, punct_ok, ↓reduceIte]
  rw [wdOfName_wdName hw.1 hw.2.1, num2_digits (by omega) (by omega), monOfName_monName a b,
    num4_digits (by omega) (by omega), num2_digits e (by omega), num2_digits g (by omega),
    num2_digits i (by omega)]
  simp only []
  have hv := validFields_of_seconds t (by omega) hy'
  have hs := seconds_of_fields_of_seconds t
  show (if validFields (fieldsOfSeconds t) = true then some (secondsOfFields (fieldsOfSeconds t))
    else none) = some t
  rw [hv]
  simp only [↓reduceIte, hs]

theorem formatChars_length (t : Int) : (formatChars t).length = 29 := rfl

theorem parseChars_of_length {l : List Char} (h : l.length ≠ 28) : parseChars l = parseCanon l := by
  simp only [parseChars, h, ↓reduceIte]

/-- the parser reads back what the formatter writes (character level) -/
theorem parseChars_formatChars (t : Int) (hy : 1000 ≤ (fieldsOfSeconds t).y)
    (hy' : (fieldsOfSeconds t).y ≤ 9999) : parseChars (formatChars t) = some t := by
  rw [parseChars_of_length (by rw [formatChars_length]; decide)]
  exact parseCanon_formatChars t hy hy'

theorem padDay_length {l : List Char} (h : l.length = 28) : (padDay l).length = 29 := by
  simp only [padDay, List.length_append, List.length_take, List.length_cons, List.length_drop, h]
  decide

theorem padDay_get5 {l : List Char} (h : 5 ≤ l.length) : (padDay l)[5]? = some '0' := by
  unfold padDay
  rw [List.getElem?_append_right (by simp only [List.length_take]; omega)]
  simp only [List.length_take]
  rw [show 5 - min 5 l.length = 0 by omega]
  rfl

theorem eraseIdx_padDay {l : List Char} (h : 5 ≤ l.length) : (padDay l).eraseIdx 5 = l := by
  unfold padDay
  rw [List.eraseIdx_append_of_length_le (by simp only [List.length_take]; omega)]
  simp only [List.length_take]
  rw [show 5 - min 5 l.length = 0 by omega]
  simp only [List.eraseIdx_zero, List.tail_cons, List.take_append_drop]

/-- putting the zero back into the un-padded rendering of a day 1..9 gives the canonical rendering -/
theorem padDay_unpadChars (t : Int) (hd : (fieldsOfSeconds t).d < 10) (hd0 : 0 ≤ (fieldsOfSeconds t).d) :
    padDay (unpadChars t) = formatChars t := by
  have hz : digit ((fieldsOfSeconds t).d / 10) = '0' := by
    rw [show (fieldsOfSeconds t).d / 10 = 0 by omega]; rfl
  simp only [unpadChars, formatChars]
  rw [hz]
  rfl

/-- the parser reads the un-padded rendering of a day 1..9 as the same instant (character level) -/
theorem parseChars_unpadChars (t : Int) (hy : 1000 ≤ (fieldsOfSeconds t).y)
    (hy' : (fieldsOfSeconds t).y ≤ 9999) (hd : (fieldsOfSeconds t).d < 10) :
    parseChars (unpadChars t) = some t := by
  have hl : (unpadChars t).length = 28 := rfl
  have hd0 := (fieldsOfSeconds_ranges t).2.2.1
  simp only [parseChars, hl, ↓reduceIte]
  rw [padDay_unpadChars t hd (by omega)]
  exact parseCanon_formatChars t hy hy'

/-! ### the zone table -/

theorem foldl_later (t : Int) (post : List (Int × Int)) (acc : Int) (h : ∀ p ∈ post, t < p.1) :
    post.foldl (fun acc p => if p.1 ≤ t then p.2 else acc) acc = acc := by
  induction post generalizing acc with
  | nil => rfl
  | cons p ps ih =>
    have hp : ¬ p.1 ≤ t := by have := h p (List.mem_cons_self ..); omega
    simp only [List.foldl_cons, hp, ↓reduceIte]
    exact ih acc (fun q hq => h q (List.mem_cons_of_mem _ hq))

end Acn.HttpDate
