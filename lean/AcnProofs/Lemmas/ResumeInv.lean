/-
  Helper lemmas for C09 (2/3): what the events stage of one period does to the queue.

  `NoOverdue` — every pending plug-in event is not yet due and its session departs strictly after
  it (true initially for well-formed sessions, preserved by every period).  From it: after the
  events of period `t` have been applied, every pending event lies strictly in the future (`Fresh`),
  so a second `get_current_events(t)` returns nothing — the heart of crash/resume.
-/
import AcnProofs.Lemmas.ResumeGhost

namespace Acn.EventCore
open Acn

/-! ### one event -/

/-- what one event does: the period counter is untouched, a successfully processed event leaves
    `_resolve` set, and the queue is unchanged or (plug-in) gets the session's unplug event -/
theorem process_spec (cfg : Cfg) (e : Event) (c : Core) :
    (process cfg e c).1.iter = c.iter ∧
    ((process cfg e c).2 = none → (process cfg e c).1.resolve = true) ∧
    ((process cfg e c).1.pending = c.pending ∨
      (e.kind = .plugin ∧ ∃ x, findSession cfg e.sess = some x ∧
        (process cfg e c).1.pending = c.pending ++ [unplugEv x])) := by
  unfold process
  rcases hk : e.kind with _ | _ | _
  · rcases hf : findSession cfg e.sess with _ | x
    · simp
    · by_cases hs : x.station ∈ cfg.stations
      · simp [hs]
      · simp [hs]
  · rcases hf : findSession cfg e.sess with _ | x
    · simp
    · by_cases hs : x.station ∈ cfg.stations
      · rcases ho : c.occ x.station with _ | y
        · simp [hs, ho]
        · simp [hs, ho]
      · simp [hs]
  · simp

theorem step_iter (cfg : Cfg) (e : Event) (c : Core) : (step cfg e c).1.iter = c.iter :=
  (process_spec cfg e _).1

theorem step_resolve (cfg : Cfg) (e : Event) (c : Core) (h : (step cfg e c).2 = none) :
    (step cfg e c).1.resolve = true := (process_spec cfg e _).2.1 h

theorem step_pending (cfg : Cfg) (e : Event) (c : Core) :
    (step cfg e c).1.pending = c.pending ∨
      (e.kind = .plugin ∧ ∃ x, findSession cfg e.sess = some x ∧
        (step cfg e c).1.pending = c.pending ++ [unplugEv x]) := (process_spec cfg e _).2.2

/-! ### the events of one period -/

theorem processAll_iter (cfg : Cfg) : ∀ (es : List Event) (c : Core), (processAll cfg es c).1.iter = c.iter
  | [], _ => rfl
  | e :: es, c => by
    simp only [processAll]
    rcases h : step cfg e c with ⟨c2, _ | err⟩
    · simp only []; rw [processAll_iter cfg es c2]; have := step_iter cfg e c; rw [h] at this; exact this
    · simp only []; have := step_iter cfg e c; rw [h] at this; exact this

theorem processAll_resolve (cfg : Cfg) : ∀ (es : List Event) (c : Core), (processAll cfg es c).2 = none →
    (es ≠ [] ∨ c.resolve = true) → (processAll cfg es c).1.resolve = true
  | [], c, _, h => by rcases h with h | h; exact absurd rfl h; exact h
  | e :: es, c, hok, _ => by
    simp only [processAll] at hok ⊢
    rcases h : step cfg e c with ⟨c2, _ | err⟩
    · simp only [h] at hok ⊢
      have hr := step_resolve cfg e c (by rw [h])
      rw [h] at hr
      exact processAll_resolve cfg es c2 hok (Or.inr hr)
    · simp [h] at hok

/-- the queue after the events: the old queue plus the unplug events of the sessions plugged in -/
theorem processAll_pending (cfg : Cfg) : ∀ (es : List Event) (c : Core),
    ∃ us, (processAll cfg es c).1.pending = c.pending ++ us ∧
      ∀ u ∈ us, ∃ e ∈ es, e.kind = .plugin ∧ ∃ x, findSession cfg e.sess = some x ∧ u = unplugEv x
  | [], c => ⟨[], by simp [processAll], by simp⟩
  | e :: es, c => by
    simp only [processAll]
    have hp := step_pending cfg e c
    rcases h : step cfg e c with ⟨c2, _ | err⟩
    · simp only []
      rw [h] at hp
      obtain ⟨us, hus, hmem⟩ := processAll_pending cfg es c2
      rcases hp with hp | ⟨hk, x, hx, hp⟩
      · refine ⟨us, by rw [hus, hp], ?_⟩
        intro u hu
        obtain ⟨e', he', r⟩ := hmem u hu
        exact ⟨e', List.mem_cons_of_mem _ he', r⟩
      · refine ⟨unplugEv x :: us, by rw [hus, hp]; simp, ?_⟩
        intro u hu
        rcases List.mem_cons.1 hu with rfl | hu
        · exact ⟨e, List.mem_cons_self, hk, x, hx, rfl⟩
        · obtain ⟨e', he', r⟩ := hmem u hu
          exact ⟨e', List.mem_cons_of_mem _ he', r⟩
    · simp only []
      rw [h] at hp
      rcases hp with hp | ⟨hk, x, hx, hp⟩
      · exact ⟨[], by simpa using hp, by simp⟩
      · exact ⟨[unplugEv x], hp, by
          intro u hu
          rw [List.mem_singleton] at hu
          exact ⟨e, List.mem_cons_self, hk, x, hx, hu⟩⟩

/-! ### the invariant -/

/-- every pending plug-in is not overdue, and its session leaves strictly after it -/
def NoOverdue (cfg : Cfg) (c : Core) : Prop :=
  ∀ e ∈ c.pending, e.kind = .plugin →
    (c.iter : Int) ≤ e.ts ∧ ∀ x, findSession cfg e.sess = some x → e.ts < x.departure

/-- every pending event lies strictly after the current period -/
def Fresh (c : Core) : Prop := ∀ e ∈ c.pending, (c.iter : Int) < e.ts

theorem mem_insertByKey' (a e : Event) : ∀ l : List Event, e ∈ insertByKey a l ↔ e = a ∨ e ∈ l
  | [] => by simp [insertByKey]
  | d :: ds => by
    simp only [insertByKey]
    split
    · simp
    · simp only [List.mem_cons, mem_insertByKey' a e ds]; tauto

/-- the stable sort keeps the members (own copy: no dependency on the C01 lemma files) -/
theorem mem_sortByKey' {e : Event} : ∀ l : List Event, e ∈ sortByKey l ↔ e ∈ l
  | [] => by simp [sortByKey]
  | a :: as => by
    show e ∈ insertByKey a (sortByKey as) ↔ _
    rw [mem_insertByKey', mem_sortByKey' as, List.mem_cons]

theorem mem_popCurrent_fst {t : Nat} {p : List Event} {e : Event} :
    e ∈ (popCurrent t p).1 ↔ e ∈ p ∧ e.ts ≤ (t : Int) := by
  unfold popCurrent
  simp only [mem_sortByKey']
  simp

theorem mem_popCurrent_snd {t : Nat} {p : List Event} {e : Event} :
    e ∈ (popCurrent t p).2 ↔ e ∈ p ∧ (t : Int) < e.ts := by
  unfold popCurrent
  simp

/-- nothing is due ⇒ `get_current_events` returns `[]` and leaves the queue alone -/
theorem popCurrent_fresh {c : Core} (h : Fresh c) : popCurrent c.iter c.pending = ([], c.pending) := by
  unfold popCurrent
  have h1 : (c.pending.filter fun e => decide (e.ts ≤ (c.iter : Int))) = [] := by
    rw [List.filter_eq_nil_iff]
    intro e he
    have := h e he
    simp; omega
  have h2 : (c.pending.filter fun e => !decide (e.ts ≤ (c.iter : Int))) = c.pending := by
    rw [List.filter_eq_self]
    intro e he
    have := h e he
    simp; omega
  rw [h1, h2]
  rfl

theorem eventsStage_iter (cfg : Cfg) (c : Core) : (eventsStage cfg c).1.iter = c.iter := by
  unfold eventsStage
  rw [processAll_iter]

/-- the queue after the events stage -/
theorem eventsStage_pending (cfg : Cfg) (c : Core) :
    ∃ us, (eventsStage cfg c).1.pending = (popCurrent c.iter c.pending).2 ++ us ∧
      ∀ u ∈ us, ∃ e ∈ c.pending, e.ts ≤ (c.iter : Int) ∧ e.kind = .plugin ∧
        ∃ x, findSession cfg e.sess = some x ∧ u = unplugEv x := by
  unfold eventsStage
  obtain ⟨us, h1, h2⟩ := processAll_pending cfg (popCurrent c.iter c.pending).1
    { c with pending := (popCurrent c.iter c.pending).2 }
  refine ⟨us, h1, ?_⟩
  intro u hu
  obtain ⟨e, he, hk, x, hx, rfl⟩ := h2 u hu
  rw [mem_popCurrent_fst] at he
  exact ⟨e, he.1, he.2, hk, x, hx, rfl⟩

/-- after the events of a period, everything still pending lies in the future -/
theorem eventsStage_fresh {cfg : Cfg} {c : Core} (h : NoOverdue cfg c) : Fresh (eventsStage cfg c).1 := by
  obtain ⟨us, h1, h2⟩ := eventsStage_pending cfg c
  intro e he
  rw [eventsStage_iter]
  rw [h1, List.mem_append] at he
  rcases he with he | he
  · exact (mem_popCurrent_snd.1 he).2
  · obtain ⟨p, hp, hts, hk, x, hx, rfl⟩ := h2 e he
    have := h p hp hk
    have h3 := this.2 x hx
    show (c.iter : Int) < x.departure
    omega

/-- … and the plug-ins among it keep the invariant for the next period -/
theorem eventsStage_noOverdue {cfg : Cfg} {c : Core} (h : NoOverdue cfg c) :
    ∀ e ∈ (eventsStage cfg c).1.pending, e.kind = .plugin →
      ((c.iter + 1 : Nat) : Int) ≤ e.ts ∧ ∀ x, findSession cfg e.sess = some x → e.ts < x.departure := by
  obtain ⟨us, h1, h2⟩ := eventsStage_pending cfg c
  intro e he hk
  rw [h1, List.mem_append] at he
  rcases he with he | he
  · have hm := mem_popCurrent_snd.1 he
    refine ⟨by push_cast; omega, (h e hm.1 hk).2⟩
  · obtain ⟨p, _, _, _, x, _, rfl⟩ := h2 e he
    simp [unplugEv] at hk

/-- the loop guard survives a successful events stage -/
theorem eventsStage_guard {cfg : Cfg} {c : Core} (hg : guard c = true) (hok : (eventsStage cfg c).2 = none) :
    guard (eventsStage cfg c).1 = true := by
  by_cases hpop : (popCurrent c.iter c.pending).1 = []
  · -- nothing was due: queue and flag untouched
    have hnone : ∀ e ∈ c.pending, (c.iter : Int) < e.ts := by
      intro e he
      by_contra hlt
      have : e ∈ (popCurrent c.iter c.pending).1 := mem_popCurrent_fst.2 ⟨he, by omega⟩
      rw [hpop] at this
      simp at this
    have hf : Fresh c := hnone
    have : eventsStage cfg c = (c, none) := by
      unfold eventsStage
      rw [popCurrent_fresh hf]
      rfl
    rw [this]
    exact hg
  · have : (eventsStage cfg c).1.resolve = true := by
      unfold eventsStage at hok ⊢
      exact processAll_resolve cfg _ _ hok (Or.inl hpop)
    simp [guard, this]

end Acn.EventCore
