/-
  C19: a run depends on the stream of random choices only through the draws actually made.
  `draws` counts the calls of random.choice; it never decreases, only `plugin` reads the stream,
  and only at index `draws`.
-/
import AcnModel.Stochastic
import Mathlib.Tactic

namespace Acn.Stoch

theorem attach_draws {s s1 : Net} {x : Sess} (hs : s.attach x = .ok s1) : s1.draws = s.draws := by
  unfold Net.attach at hs
  split at hs
  · cases hs
  · split at hs
    · split at hs
      · cases hs; rfl
      · cases hs
    · cases hs

theorem admitNext_draws {s s1 : Net} {st : Station} (hs : s.admitNext st = .ok s1) :
    s1.draws = s.draws := by
  unfold Net.admitNext at hs
  split at hs
  · cases hs; rfl
  · simp only [bind, Except.bind] at hs
    split at hs
    · cases hs
    · rename_i s3 h3
      cases hs
      have := attach_draws h3
      simpa [Net.modEv] using this

theorem unplug_draws {s s1 : Net} {st? : Option Station} {x : Sess}
    (hs : s.unplug st? x = .ok s1) : s1.draws = s.draws := by
  unfold Net.unplug at hs
  split at hs
  · cases hs; rfl
  · split at hs
    · cases hs
    · split at hs
      · split at hs
        · cases hs; rfl
        · split at hs
          · simpa [Net.setOcc] using admitNext_draws hs
          · cases hs; rfl
      · cases hs

theorem earlyStep_draws {s s1 : Net} {x : Sess} (hs : s.earlyStep x = .ok s1) :
    s1.draws = s.draws := by
  unfold Net.earlyStep at hs
  split at hs
  · cases hs; rfl
  · simp only [bind, Except.bind] at hs
    split at hs
    · cases hs
    · rename_i s2 h2
      cases hs
      simpa [Net.modEv] using unplug_draws h2

theorem foldEarly_draws : ∀ (L : List Sess) (s s1 : Net), L.foldlM Net.earlyStep s = .ok s1 →
    s1.draws = s.draws := by
  intro L
  induction L with
  | nil => intro s s1 h; cases h; rfl
  | cons x L ih =>
    intro s s1 h
    rw [List.foldlM_cons] at h
    cases h2 : s.earlyStep x with
    | error e => rw [h2] at h; cases h
    | ok s2 =>
      rw [h2] at h
      exact (ih s2 s1 h).trans (earlyStep_draws h2)

theorem post_draws {s s1 : Net} {full : Sess → Bool} (hs : s.post full = .ok s1) :
    s1.draws = s.draws := by
  unfold Net.post at hs
  split at hs
  · exact foldEarly_draws _ _ _ hs
  · cases hs; rfl

/-- `plugin` reads the stream only at index `draws`, and then advances `draws` -/
theorem plugin_det {cs cs' : Nat → Nat} {s s1 : Net} {x : Sess} (hs : s.plugin cs x = .ok s1)
    (hk : ∀ k, s.draws ≤ k → k < s1.draws → cs k = cs' k) :
    s.draws ≤ s1.draws ∧ s.plugin cs' x = .ok s1 := by
  unfold Net.plugin at hs ⊢
  split at hs
  · rename_i hf
    cases hs
    simp [Net.modEv, hf]
  · rename_i f fs hf
    have hd := attach_draws hs
    simp only [Net.modEv] at hd
    have hlt : s.draws < s1.draws := by omega
    simp only
    rw [← hk s.draws (le_refl _) hlt]
    exact ⟨by omega, hs⟩

theorem step_det {cs cs' : Nat → Nat} {s s1 : Net} {st : Step} (hs : s.step cs st = .ok s1)
    (hk : ∀ k, s.draws ≤ k → k < s1.draws → cs k = cs' k) :
    s.draws ≤ s1.draws ∧ s.step cs' st = .ok s1 := by
  cases st with
  | post full =>
    simp only [Net.step] at hs ⊢
    exact ⟨by rw [post_draws hs], hs⟩
  | ev e =>
    simp only [Net.step, Net.processEvent] at hs ⊢
    cases hkind : e.kind with
    | recompute =>
      simp only [hkind, pure, Except.pure] at hs ⊢
      cases hs; exact ⟨le_refl _, rfl⟩
    | unplug =>
      simp only [hkind, bind, Except.bind, pure, Except.pure] at hs ⊢
      cases h2 : s.unplug (s.ev e.sess).station e.sess with
      | error er => rw [h2] at hs; cases hs
      | ok s2 =>
        rw [h2] at hs; cases hs
        have := unplug_draws h2
        exact ⟨by simp [Net.modEv, this], rfl⟩
    | plugin =>
      simp only [hkind, bind, Except.bind, pure, Except.pure] at hs ⊢
      cases h2 : s.plugin cs e.sess with
      | error er => rw [h2] at hs; cases hs
      | ok s2 =>
        rw [h2] at hs; cases hs
        obtain ⟨hle, h3⟩ := plugin_det h2 (cs' := cs') (by
          intro k h1 h2'; exact hk k h1 (by simpa [Net.modEv] using h2'))
        rw [h3]
        exact ⟨by simpa [Net.modEv] using hle, rfl⟩

theorem run_draws_mono (cs : Nat → Nat) : ∀ (steps : List Step) (s s' : Net),
    s.run cs steps = .ok s' → s.draws ≤ s'.draws := by
  intro steps
  induction steps with
  | nil => intro s s' h; cases h; exact le_refl _
  | cons st r ih =>
    intro s s' h
    simp only [Net.run, List.foldlM_cons, bind, Except.bind] at h
    cases h1 : s.step cs st with
    | error e => rw [h1] at h; cases h
    | ok s1 =>
      rw [h1] at h
      exact le_trans (step_det h1 (cs' := cs) (fun _ _ _ => rfl)).1 (ih s1 s' h)

/-- two streams that agree on the draws made give the same run -/
theorem run_det (cs cs' : Nat → Nat) : ∀ (steps : List Step) (s s' : Net),
    s.run cs steps = .ok s' → (∀ k, s.draws ≤ k → k < s'.draws → cs k = cs' k) →
    s.run cs' steps = .ok s' := by
  intro steps
  induction steps with
  | nil => intro s s' h _; cases h; rfl
  | cons st r ih =>
    intro s s' h hk
    simp only [Net.run, List.foldlM_cons, bind, Except.bind] at h ⊢
    cases h1 : s.step cs st with
    | error e => rw [h1] at h; cases h
    | ok s1 =>
      rw [h1] at h
      have hmono : s1.draws ≤ s'.draws := run_draws_mono cs r s1 s' h
      obtain ⟨hle, h2⟩ := step_det h1 (cs' := cs') (fun k a b => hk k a (lt_of_lt_of_le b hmono))
      rw [h2]
      exact ih s1 s' h (fun k a b => hk k (le_trans hle a) b)

end Acn.Stoch
