/-
  Where a run of `runGM` ends: every state a run ends in — normally or by a raise — is the start
  state or the result of ONE loop body executed from a loop head that an error-free shorter run
  reaches (`runGM_last`); and what one body does, stage by stage (`bodyGM_ok_cases`,
  `bodyGM_err_cases`: plain unfoldings of `bodyGM` / `finishGM`).
-/
import AcnProofs.Lemmas.EventCoreGM

namespace Acn.EventCore
open Acn

section
variable {σ : Type} {cfg : Cfg} {ops : QOps} {good : List Event → Prop} {net : NetOps σ}
  {post : Nat → σ → σ × Option Err} {P : List Event → σ → Prop}

/-- the state `gB` in which the apply stage starts, given the state `g1` after the events: `g1`
    itself if no scheduler call was due, else the scheduler stage's result with both flags set -/
def SchedOut (cfg : Cfg) (sched : CoreG σ → σ × Option Err) (g1 gB : CoreG σ) : Prop :=
  (needsSched cfg.maxRecompute g1.core = false ∧ gB = g1) ∨
  (∃ ns, needsSched cfg.maxRecompute g1.core = true ∧
    sched { g1 with core := markInvoked g1.core } = (ns, none) ∧
    gB = { core := markScheduled (markInvoked g1.core), net := ns })

theorem finishGM_ok_cases {apply : CoreG σ → σ × Option Err} {g g' : CoreG σ}
    (h : finishGM apply post g = (g', none)) :
    ∃ n1 n2, apply g = (n1, none) ∧ post g.core.iter n1 = (n2, none) ∧
      g' = { core := advance g.core, net := n2 } := by
  unfold finishGM at h
  rcases hap : apply g with ⟨n1, _ | e⟩
  · rw [hap] at h
    simp only at h
    rcases hpo : post g.core.iter n1 with ⟨n2, _ | e⟩
    · rw [hpo] at h
      simp only [Prod.mk.injEq] at h
      exact ⟨n1, n2, rfl, hpo, h.1.symm⟩
    · rw [hpo] at h
      simp only [Prod.mk.injEq] at h
      exact absurd h.2 (by simp)
  · rw [hap] at h
    simp only [Prod.mk.injEq] at h
    exact absurd h.2 (by simp)

theorem finishGM_err_cases {apply : CoreG σ → σ × Option Err} {g g' : CoreG σ} {e : Err}
    (h : finishGM apply post g = (g', some e)) :
    (∃ n1, apply g = (n1, some e) ∧ g' = { g with net := n1 }) ∨
    (∃ n1 n2, apply g = (n1, none) ∧ post g.core.iter n1 = (n2, some e) ∧ g' = { g with net := n2 }) := by
  unfold finishGM at h
  rcases hap : apply g with ⟨n1, _ | e1⟩
  · rw [hap] at h
    simp only at h
    rcases hpo : post g.core.iter n1 with ⟨n2, _ | e2⟩
    · rw [hpo] at h
      simp only [Prod.mk.injEq] at h
      exact absurd h.2 (by simp)
    · rw [hpo] at h
      simp only [Prod.mk.injEq, Option.some.injEq] at h
      right
      exact ⟨n1, n2, rfl, h.2 ▸ hpo, h.1.symm⟩
  · rw [hap] at h
    simp only [Prod.mk.injEq, Option.some.injEq] at h
    left
    exact ⟨n1, by rw [h.2], h.1.symm⟩

/-- a body that does not raise: events, (scheduler), apply, hook, `iteration += 1` -/
theorem bodyGM_ok_cases {sched apply : CoreG σ → σ × Option Err} {g g1 g' : CoreG σ}
    (h1 : eventsStageG ops net cfg g = (g1, none))
    (h : bodyGM ops net post cfg sched apply g = (g', none)) :
    ∃ gB n1 n2, SchedOut cfg sched g1 gB ∧ apply gB = (n1, none) ∧
      post gB.core.iter n1 = (n2, none) ∧ g' = { core := advance gB.core, net := n2 } := by
  unfold bodyGM at h
  rw [h1] at h
  simp only at h
  by_cases hns : needsSched cfg.maxRecompute g1.core = true
  · simp only [hns, if_true] at h
    rcases hsc : sched { g1 with core := markInvoked g1.core } with ⟨ns, _ | e⟩
    · rw [hsc] at h
      simp only at h
      obtain ⟨n1, n2, ha, hp, hg⟩ := finishGM_ok_cases h
      exact ⟨_, n1, n2, Or.inr ⟨ns, hns, hsc, rfl⟩, ha, hp, hg⟩
    · rw [hsc] at h
      simp only [Prod.mk.injEq] at h
      exact absurd h.2 (by simp)
  · have hns' : needsSched cfg.maxRecompute g1.core = false := by simpa using hns
    simp only [hns', Bool.false_eq_true, if_false] at h
    obtain ⟨n1, n2, ha, hp, hg⟩ := finishGM_ok_cases h
    exact ⟨g1, n1, n2, Or.inl ⟨hns', rfl⟩, ha, hp, hg⟩

/-- a body that raises after the events went through: (A) the scheduler stage raised, (B) the apply
    stage raised, (C) the hook raised -/
theorem bodyGM_err_cases {sched apply : CoreG σ → σ × Option Err} {g g1 g' : CoreG σ} {e : Err}
    (h1 : eventsStageG ops net cfg g = (g1, none))
    (h : bodyGM ops net post cfg sched apply g = (g', some e)) :
    (needsSched cfg.maxRecompute g1.core = true ∧
      ∃ n1, sched { g1 with core := markInvoked g1.core } = (n1, some e) ∧
        g' = { core := markInvoked g1.core, net := n1 }) ∨
    (∃ gB n1, SchedOut cfg sched g1 gB ∧ apply gB = (n1, some e) ∧ g' = { gB with net := n1 }) ∨
    (∃ gB n1 n2, SchedOut cfg sched g1 gB ∧ apply gB = (n1, none) ∧
      post gB.core.iter n1 = (n2, some e) ∧ g' = { gB with net := n2 }) := by
  unfold bodyGM at h
  rw [h1] at h
  simp only at h
  by_cases hns : needsSched cfg.maxRecompute g1.core = true
  · simp only [hns, if_true] at h
    rcases hsc : sched { g1 with core := markInvoked g1.core } with ⟨ns, _ | e1⟩
    · rw [hsc] at h
      simp only at h
      right
      rcases finishGM_err_cases h with ⟨n1, ha, hg⟩ | ⟨n1, n2, ha, hp, hg⟩
      · exact Or.inl ⟨_, n1, Or.inr ⟨ns, hns, hsc, rfl⟩, ha, hg⟩
      · exact Or.inr ⟨_, n1, n2, Or.inr ⟨ns, hns, hsc, rfl⟩, ha, hp, hg⟩
    · rw [hsc] at h
      simp only [Prod.mk.injEq, Option.some.injEq] at h
      left
      exact ⟨hns, ns, by rw [h.2], h.1.symm⟩
  · have hns' : needsSched cfg.maxRecompute g1.core = false := by simpa using hns
    simp only [hns', Bool.false_eq_true, if_false] at h
    right
    rcases finishGM_err_cases h with ⟨n1, ha, hg⟩ | ⟨n1, n2, ha, hp, hg⟩
    · exact Or.inl ⟨g1, n1, Or.inl ⟨hns', rfl⟩, ha, hg⟩
    · exact Or.inr ⟨g1, n1, n2, Or.inl ⟨hns', rfl⟩, ha, hp, hg⟩

/-- `SchedOut` leaves iteration counter, event history and pending queue alone -/
theorem SchedOut.core {sched : CoreG σ → σ × Option Err} {g1 gB : CoreG σ} (h : SchedOut cfg sched g1 gB) :
    gB.core.iter = g1.core.iter ∧ gB.core.eventHist = g1.core.eventHist ∧
      gB.core.pending = g1.core.pending := by
  rcases h with ⟨_, rfl⟩ | ⟨ns, _, _, rfl⟩
  · exact ⟨rfl, rfl, rfl⟩
  · exact ⟨rfl, rfl, rfl⟩

/-- the last body of a run -/
theorem runGM_last (hq : ValidQ cfg) (hops : ops.Ok good) (hnet : NoFailH net post cfg P)
    {sched apply : CoreG σ → σ × Option Err} (hs : KeepsP P sched) (ha : KeepsP P apply) :
    ∀ (n t : Nat) (g : CoreG σ), InvG cfg t g.core → good g.core.pending → P g.core.eventHist g.net →
    t ≤ horizon cfg →
    ∀ g' r, runGM ops net post cfg sched apply n g = (g', r) →
      (g' = g ∧ r = none) ∨
      ∃ k gm t', k < n ∧ runGM ops net post cfg sched apply k g = (gm, none) ∧
        InvG cfg t' gm.core ∧ good gm.core.pending ∧ P gm.core.eventHist gm.net ∧
        guard gm.core = true ∧ bodyGM ops net post cfg sched apply gm = (g', r) := by
  intro n
  induction n with
  | zero =>
    intro t g _ _ _ _ g' r h
    simp only [runGM, Prod.mk.injEq] at h
    exact Or.inl ⟨h.1.symm, h.2.symm⟩
  | succ n ih =>
    intro t g hI hG hN ht g' r h
    by_cases hg : guard g.core = true
    · have hlt : t < horizon cfg := by
        apply (pendingG_ne_nil_iff hq hI).1
        intro hp
        simp [guard, hp, hI.resolve] at hg
      simp only [runGM, hg, if_true] at h
      rcases bodyGM_ok hq hops hnet hs ha (KeepsJ.trivial ops net post cfg sched apply P) hI hG hN
          True.intro with ⟨g1, hb, hI1, hG1, hN1, _⟩ | ⟨g1, e, hb, _, _, _⟩
      · rw [hb] at h
        simp only at h
        rcases ih (t + 1) g1 hI1 hG1 hN1 hlt g' r h with ⟨e1, e2⟩ | ⟨k, gm, t', hk, hr, hIm, hGm, hNm, hgm, hbm⟩
        · subst e1; subst e2
          exact Or.inr ⟨0, g, t, Nat.succ_pos n, rfl, hI, hG, hN, hg, hb⟩
        · refine Or.inr ⟨k + 1, gm, t', Nat.succ_lt_succ hk, ?_, hIm, hGm, hNm, hgm, hbm⟩
          simp only [runGM, hg, if_true, hb]
          exact hr
      · rw [hb] at h
        simp only [Prod.mk.injEq] at h
        obtain ⟨e1, e2⟩ := h
        subst e1; subst e2
        exact Or.inr ⟨0, g, t, Nat.succ_pos n, rfl, hI, hG, hN, hg, hb⟩
    · have hg' : guard g.core = false := by simpa using hg
      simp only [runGM, hg', Bool.false_eq_true, if_false, Prod.mk.injEq] at h
      exact Or.inl ⟨h.1.symm, h.2.symm⟩

end
end Acn.EventCore
