/-
  Helper lemmas for C17 (any period): `timedelta` rounding, floor of a microsecond instant.
-/
import AcnModel.TariffPeriod
import Mathlib.Tactic
import Mathlib.Data.Rat.Floor

namespace Acn.C17
open Acn Acn.Tariff

/-- a rational with denominator 1 is its numerator -/
theorem rat_eq_num_of_den_one (q : ℚ) (h : q.den = 1) : (q.num : ℚ) = q :=
  Rat.coe_int_num_of_den_eq_one h

/-- rounding an integer-valued rational is the identity -/
theorem roundHalfEvenQ_of_den_one (q : ℚ) (h : q.den = 1) : (roundHalfEvenQ q : ℚ) = q := by
  unfold roundHalfEvenQ
  simp only [h, Nat.cast_one, Int.ediv_one, Int.emod_one, mul_zero, zero_lt_one, if_true]
  exact rat_eq_num_of_den_one q h

/-- `roundHalfEvenQ q` is within half a unit of `q` -/
theorem roundHalfEvenQ_err (q : ℚ) : |(roundHalfEvenQ q : ℚ) - q| ≤ 1 / 2 := by
  have hd : (0 : ℤ) < (q.den : ℤ) := by exact_mod_cast q.den_pos
  have hdq : (0 : ℚ) < (q.den : ℚ) := by exact_mod_cast q.den_pos
  have hq : q = (q.num : ℚ) / (q.den : ℚ) := (Rat.num_div_den q).symm
  have hdiv := Int.emod_add_mul_ediv q.num (q.den : ℤ)
  have hr0 := Int.emod_nonneg q.num (ne_of_gt hd)
  have hr1 := Int.emod_lt_of_pos q.num hd
  obtain ⟨f, hf⟩ : ∃ f : ℤ, f = q.num / (q.den : ℤ) := ⟨_, rfl⟩
  obtain ⟨r, hr⟩ : ∃ r : ℤ, r = q.num % (q.den : ℤ) := ⟨_, rfl⟩
  rw [← hf, ← hr] at hdiv
  rw [← hr] at hr0 hr1
  have hnum : (q.num : ℚ) = r + (q.den : ℚ) * f := by exact_mod_cast hdiv.symm
  have hqf : q = f + (r : ℚ) / (q.den : ℚ) := by
    have h : (q.num : ℚ) / (q.den : ℚ) = f + (r : ℚ) / (q.den : ℚ) := by
      rw [hnum]; field_simp; ring
    rw [← h]; exact hq
  have hrq0 : (0 : ℚ) ≤ r := by exact_mod_cast hr0
  have hrq1 : (r : ℚ) < q.den := by exact_mod_cast hr1
  have hfr0 : 0 ≤ (r : ℚ) / (q.den : ℚ) := div_nonneg hrq0 hdq.le
  have hfr1 : (r : ℚ) / (q.den : ℚ) < 1 := (div_lt_one hdq).mpr hrq1
  unfold roundHalfEvenQ
  simp only [← hf, ← hr]
  split_ifs with h1 h2 h3
  · -- 2r < d
    have : (2 : ℚ) * r < q.den := by exact_mod_cast h1
    have hh : (r : ℚ) / (q.den : ℚ) < 1 / 2 := by rw [div_lt_iff₀ hdq]; linarith
    rw [abs_le]; constructor <;> [skip; skip] <;> (rw [hqf]; linarith)
  · have : (q.den : ℚ) < 2 * r := by exact_mod_cast h2
    have hh : 1 / 2 < (r : ℚ) / (q.den : ℚ) := by rw [lt_div_iff₀ hdq]; linarith
    rw [abs_le]; push_cast; constructor <;> (rw [hqf]; linarith)
  · have h2r : (2 : ℚ) * r = q.den := by
      have : 2 * r = (q.den : ℤ) := by omega
      exact_mod_cast this
    have hh : (r : ℚ) / (q.den : ℚ) = 1 / 2 := by rw [div_eq_iff (ne_of_gt hdq)]; linarith
    rw [abs_le]; constructor <;> (rw [hqf]; linarith)
  · have h2r : (2 : ℚ) * r = q.den := by
      have : 2 * r = (q.den : ℤ) := by omega
      exact_mod_cast this
    have hh : (r : ℚ) / (q.den : ℚ) = 1 / 2 := by rw [div_eq_iff (ne_of_gt hdq)]; linarith
    rw [abs_le]; push_cast; constructor <;> (rw [hqf]; linarith)

/-- integer floor division by 10⁶ is the floor of the rational quotient -/
theorem ediv_million_eq_floor (a : ℤ) : a / 1000000 = ⌊(a : ℚ) / 1000000⌋ := by
  have := Rat.floor_intCast_div_natCast a 1000000
  simpa using this.symm

/-- `mapM` in `Except` succeeds when every element does -/
theorem mapM_total {α β ε : Type} (f : α → Except ε β) (l : List α) (h : ∀ a ∈ l, ∃ b, f a = .ok b) :
    ∃ v, l.mapM f = .ok v := by
  induction l with
  | nil => exact ⟨[], rfl⟩
  | cons a l ih =>
    obtain ⟨b, hb⟩ := h a List.mem_cons_self
    obtain ⟨v, hv⟩ := ih (fun x hx => h x (List.mem_cons_of_mem _ hx))
    refine ⟨b :: v, ?_⟩
    rw [List.mapM_cons, hb, hv]; rfl

end Acn.C17
