/-
  Helper lemmas for C11: CPython's array heap (`Acn.Heap`) keeps the heap invariant and the
  multiset, for every strict weak order `lt`.
-/
import AcnModel.Queue
import Mathlib.Tactic

namespace Acn.Heap

variable {α : Type}

/-- strict weak order on a Boolean `<` -/
structure SWO (lt : α → α → Bool) : Prop where
  irrefl : ∀ a, lt a a = false
  trans : ∀ a b c, lt a b = true → lt b c = true → lt a c = true
  incomp_trans : ∀ a b c, lt a b = false → lt b a = false → lt b c = false → lt c b = false →
    lt a c = false ∧ lt c a = false

variable {lt : α → α → Bool}

theorem SWO.asymm (h : SWO lt) {a b : α} (hab : lt a b = true) : lt b a = false := by
  by_contra hc
  have := h.trans a b a hab (by simpa using hc)
  simp [h.irrefl] at this

/-- `≤` (= not `>`) is transitive -/
theorem SWO.le_trans (h : SWO lt) {a b c : α} (h1 : lt b a = false) (h2 : lt c b = false) :
    lt c a = false := by
  by_contra hc
  have hca : lt c a = true := by simpa using hc
  -- b and c incomparable, a and b incomparable
  have hbc : lt b c = false := by
    by_contra h'
    have := h.trans b c a (by simpa using h') hca
    simp [h1] at this
  have hab : lt a b = false := by
    by_contra h'
    have := h.trans c a b hca (by simpa using h')
    simp [h2] at this
  have := (h.incomp_trans a b c hab h1 hbc h2).2
  simp [hca] at this

theorem SWO.le_of_lt (h : SWO lt) {a b : α} (hab : lt a b = true) : lt b a = false := h.asymm hab

/-- heap invariant: no entry is `<` its parent -/
def Inv (lt : α → α → Bool) (a : Array α) : Prop :=
  ∀ i x y, 0 < i → a[i]? = some x → a[(i - 1) / 2]? = some y → lt x y = false

/-- heap invariant everywhere except around the hole `pos` (whose content is irrelevant):
    every edge that does not touch `pos` is in order, and the children of `pos` are not below
    the parent of `pos`. -/
def Except (lt : α → α → Bool) (a : Array α) (pos : Nat) : Prop :=
  (∀ i x y, 0 < i → i ≠ pos → (i - 1) / 2 ≠ pos → a[i]? = some x → a[(i - 1) / 2]? = some y →
      lt x y = false) ∧
  (∀ i x y, 0 < pos → 0 < i → (i - 1) / 2 = pos → a[i]? = some x → a[(pos - 1) / 2]? = some y →
      lt x y = false)

theorem swap_values_perm (a : Array α) (i j : Nat) (x y : α) (hij : i ≠ j) (hi : i < a.size)
    (hj : j < a.size) :
    ((a.setIfInBounds i y).setIfInBounds j x).Perm ((a.setIfInBounds i x).setIfInBounds j y) := by
  have h1 : i < ((a.setIfInBounds i x).setIfInBounds j y).size := by simpa using hi
  have h2 : j < ((a.setIfInBounds i x).setIfInBounds j y).size := by simpa using hj
  have := Array.swap_perm (xs := (a.setIfInBounds i x).setIfInBounds j y) h1 h2
  convert this using 1
  apply Array.ext_getElem?
  intro k
  simp [Array.getElem?_swap, Array.getElem?_setIfInBounds]
  grind

/-- the hole's content does not matter -/
theorem Except.set_self {a : Array α} {pos : Nat} (h : Except lt a pos) (x : α) :
    Except lt (a.setIfInBounds pos x) pos := by
  obtain ⟨h1, h2⟩ := h
  constructor
  · intro i u v hi hne hpne hu hv
    rw [Array.getElem?_setIfInBounds] at hu hv
    rw [if_neg (Ne.symm hne)] at hu
    rw [if_neg (Ne.symm hpne)] at hv
    exact h1 i u v hi hne hpne hu hv
  · intro i u v hp hi hpar hu hv
    rw [Array.getElem?_setIfInBounds] at hu hv
    rw [if_neg (by omega)] at hu
    rw [if_neg (by omega)] at hv
    exact h2 i u v hp hi hpar hu hv

/-- closing the hole: if `x` is not below the hole's parent and not above its children,
    writing it into the hole gives a heap -/
theorem Except.fill {a : Array α} {pos : Nat} (hex : Except lt a pos) (hp : pos < a.size) (x : α)
    (hch : ∀ i u, 0 < i → (i - 1) / 2 = pos → a[i]? = some u → lt u x = false)
    (hpar : ∀ y, 0 < pos → a[(pos - 1) / 2]? = some y → lt x y = false) :
    Inv lt (a.setIfInBounds pos x) := by
  intro i u v hi hu hv
  rw [Array.getElem?_setIfInBounds] at hu hv
  by_cases h1 : pos = i
  · subst h1
    rw [if_neg (by omega)] at hv
    simp [hp] at hu; subst hu
    exact hpar v hi hv
  · rw [if_neg h1] at hu
    by_cases h2 : pos = (i - 1) / 2
    · rw [if_pos h2, if_pos hp] at hv
      simp at hv; subst hv
      exact hch i u hi h2.symm hu
    · rw [if_neg h2] at hv
      exact hex.1 i u v hi (Ne.symm h1) (Ne.symm h2) hu hv

/-- `_siftdown`'s loop (towards the root, `startpos = 0`): from a heap-except-at-`pos` whose
    hole's children are not below `newitem`, the loop ends at a position where writing
    `newitem` gives a heap; the multiset is that of the array with `newitem` in the hole. -/
theorem siftdownLoop_spec (h : SWO lt) (newitem : α) :
    ∀ (fuel : Nat) (a : Array α) (pos : Nat), pos ≤ fuel → pos < a.size → Except lt a pos →
      (∀ i x, 0 < i → (i - 1) / 2 = pos → a[i]? = some x → lt x newitem = false) →
      Inv lt ((siftdownLoop lt newitem 0 fuel a pos).1.setIfInBounds
                (siftdownLoop lt newitem 0 fuel a pos).2 newitem) ∧
      ((siftdownLoop lt newitem 0 fuel a pos).1.setIfInBounds
                (siftdownLoop lt newitem 0 fuel a pos).2 newitem).Perm
        (a.setIfInBounds pos newitem) := by
  intro fuel
  induction fuel with
  | zero =>
    intro a pos hf hp hex hch
    have : pos = 0 := by omega
    subst this
    simp only [siftdownLoop]
    exact ⟨hex.fill hp newitem hch (by intro y h0; omega), Array.Perm.refl _⟩
  | succ fuel ih =>
    intro a pos hf hp hex hch
    unfold siftdownLoop
    by_cases hpos : pos > 0
    · rw [if_pos hpos]
      have hpp : (pos - 1) / 2 < a.size := by omega
      simp only [Array.getElem?_eq_getElem hpp]
      by_cases hlt : lt newitem a[(pos - 1) / 2] = true
      · rw [if_pos hlt]
        have hne : pos ≠ (pos - 1) / 2 := by omega
        have hex' : Except lt (a.setIfInBounds pos a[(pos - 1) / 2]) ((pos - 1) / 2) := by
          constructor
          · intro i u v hi hine hpne hu hv
            rw [Array.getElem?_setIfInBounds] at hu hv
            by_cases h1 : pos = i
            · subst h1; omega
            · rw [if_neg h1] at hu
              by_cases h2 : pos = (i - 1) / 2
              · rw [if_pos h2, if_pos hp] at hv
                simp at hv; subst hv
                -- a child of the old hole against the old hole's parent
                exact hex.2 i u _ hpos hi h2.symm hu (Array.getElem?_eq_getElem hpp)
              · rw [if_neg h2] at hv
                exact hex.1 i u v hi (Ne.symm h1) (Ne.symm h2) hu hv
          · intro i u v hpp0 hi hipar hu hv
            rw [Array.getElem?_setIfInBounds] at hu hv
            rw [if_neg (by omega)] at hv
            -- grandparent ≤ parent
            have hgp : lt a[(pos - 1) / 2] v = false :=
              hex.1 ((pos - 1) / 2) _ v hpp0 (by omega) (by omega)
                (Array.getElem?_eq_getElem hpp) hv
            by_cases h1 : pos = i
            · rw [if_pos h1, if_pos hp] at hu
              simp at hu; subst hu; exact hgp
            · rw [if_neg h1] at hu
              -- the sibling: parent ≤ sibling
              have hsib : lt u a[(pos - 1) / 2] = false :=
                hex.1 i u _ hi (Ne.symm h1) (by omega) hu (by rw [hipar]; exact Array.getElem?_eq_getElem hpp)
              exact h.le_trans hgp hsib
        have hch' : ∀ i x, 0 < i → (i - 1) / 2 = (pos - 1) / 2 →
            (a.setIfInBounds pos a[(pos - 1) / 2])[i]? = some x → lt x newitem = false := by
          intro i u hi hipar hu
          rw [Array.getElem?_setIfInBounds] at hu
          by_cases h1 : pos = i
          · rw [if_pos h1, if_pos hp] at hu
            simp at hu; subst hu; exact h.asymm hlt
          · rw [if_neg h1] at hu
            have hsib : lt u a[(pos - 1) / 2] = false :=
              hex.1 i u _ hi (Ne.symm h1) (by omega) hu (by rw [hipar]; exact Array.getElem?_eq_getElem hpp)
            exact h.le_trans (h.asymm hlt) hsib
        have := ih (a.setIfInBounds pos a[(pos - 1) / 2]) ((pos - 1) / 2) (by omega)
          (by simpa using hpp) hex' hch'
        refine ⟨this.1, this.2.trans ?_⟩
        have hsw := swap_values_perm a pos ((pos - 1) / 2) newitem a[(pos - 1) / 2] hne hp hpp
        have e : (a.setIfInBounds pos newitem).setIfInBounds ((pos - 1) / 2) a[(pos - 1) / 2]
            = a.setIfInBounds pos newitem := by
          apply Array.ext_getElem?; intro k
          simp only [Array.getElem?_setIfInBounds]
          by_cases hk : (pos - 1) / 2 = k
          · subst hk; simp [hne, hpp]
          · simp [hk]
        rw [e] at hsw
        exact hsw
      · rw [if_neg hlt]
        refine ⟨hex.fill hp newitem hch ?_, Array.Perm.refl _⟩
        intro y _ hy
        rw [Array.getElem?_eq_getElem hpp] at hy
        simp at hy; subst hy; simpa using hlt
    · rw [if_neg hpos]
      have : pos = 0 := by omega
      subst this
      exact ⟨hex.fill hp newitem hch (by intro y h0; omega), Array.Perm.refl _⟩

theorem set_set_same (a : Array α) (i j : Nat) (x : α) (hij : i ≠ j) (hj : j < a.size) :
    (a.setIfInBounds i x).setIfInBounds j a[j] = a.setIfInBounds i x := by
  apply Array.ext_getElem?; intro k
  simp only [Array.getElem?_setIfInBounds]
  by_cases hk : j = k
  · subst hk; simp [hij, hj]
  · simp [hk]

/-- one step of `_siftup`'s loop: moving a smallest child `c` of the hole up moves the hole
    to `c` -/
theorem Except.moveUp {a : Array α} {pos c : Nat} (hex : Except lt a pos)
    (hp : pos < a.size) (hc : c < a.size) (hcpar : (c - 1) / 2 = pos) (hc0 : 0 < c)
    (hmin : ∀ i u, 0 < i → (i - 1) / 2 = pos → a[i]? = some u → lt u a[c] = false) :
    Except lt (a.setIfInBounds pos a[c]) c := by
  constructor
  · intro i u v hi hine hpne hu hv
    rw [Array.getElem?_setIfInBounds] at hu hv
    by_cases h1 : pos = i
    · rw [if_pos h1, if_pos hp] at hu
      simp at hu; subst hu
      rw [if_neg (by omega)] at hv
      subst h1
      exact hex.2 c _ v hi hc0 hcpar (Array.getElem?_eq_getElem hc) hv
    · rw [if_neg h1] at hu
      by_cases h2 : pos = (i - 1) / 2
      · rw [if_pos h2, if_pos hp] at hv
        simp at hv; subst hv
        exact hmin i u hi h2.symm hu
      · rw [if_neg h2] at hv
        exact hex.1 i u v hi (Ne.symm h1) (Ne.symm h2) hu hv
  · intro i u v _ hi hipar hu hv
    rw [Array.getElem?_setIfInBounds] at hu hv
    rw [if_neg (by omega)] at hu
    rw [hcpar, if_pos rfl, if_pos hp] at hv
    simp at hv; subst hv
    exact hex.1 i u _ hi (by omega) (by omega) hu (by rw [hipar]; exact Array.getElem?_eq_getElem hc)

/-- `_siftup`'s loop (towards the leaves): the hole travels to a leaf, the invariant around
    the hole is kept, and the multiset (hole filled with any `x`) is unchanged. -/
theorem siftupLoop_spec (h : SWO lt) :
    ∀ (fuel : Nat) (a : Array α) (pos : Nat), a.size - pos ≤ fuel → pos < a.size →
      Except lt a pos →
      Except lt (siftupLoop lt a.size fuel a pos).1 (siftupLoop lt a.size fuel a pos).2 ∧
      (siftupLoop lt a.size fuel a pos).1.size = a.size ∧
      (siftupLoop lt a.size fuel a pos).2 < a.size ∧
      a.size ≤ 2 * (siftupLoop lt a.size fuel a pos).2 + 1 ∧
      ∀ x, ((siftupLoop lt a.size fuel a pos).1.setIfInBounds
              (siftupLoop lt a.size fuel a pos).2 x).Perm (a.setIfInBounds pos x) := by
  intro fuel
  induction fuel with
  | zero => intro a pos hf hp; omega
  | succ fuel ih =>
    intro a pos hf hp hex
    unfold siftupLoop
    by_cases hc0 : 2 * pos + 1 < a.size
    · simp only [if_pos hc0]
      -- the chosen child
      obtain ⟨c, hcdef, hc, hcpar, hcpos, hmin'⟩ : ∃ c,
          smallerChild lt a a.size (2 * pos + 1) = c ∧ c < a.size ∧ (c - 1) / 2 = pos ∧ 0 < c ∧
          ∀ i u w, 0 < i → (i - 1) / 2 = pos → a[i]? = some u → a[c]? = some w → lt u w = false := by
        unfold smallerChild
        simp only [Array.getElem?_eq_getElem hc0]
        by_cases hr : 2 * pos + 1 + 1 < a.size
        · simp only [Array.getElem?_eq_getElem hr, hr, decide_true, Bool.true_and]
          by_cases hl : lt a[2 * pos + 1] a[2 * pos + 1 + 1] = true
          · refine ⟨2 * pos + 1, by simp [hl], hc0, by omega, by omega, ?_⟩
            intro i u w hi hipar hu hw
            rw [Array.getElem?_eq_getElem hc0] at hw; simp at hw; subst hw
            have : i = 2 * pos + 1 ∨ i = 2 * pos + 1 + 1 := by omega
            rcases this with rfl | rfl
            · rw [Array.getElem?_eq_getElem hc0] at hu; simp at hu; subst hu; exact h.irrefl _
            · rw [Array.getElem?_eq_getElem hr] at hu; simp at hu; subst hu; exact h.asymm hl
          · refine ⟨2 * pos + 1 + 1, by simp [hl], hr, by omega, by omega, ?_⟩
            intro i u w hi hipar hu hw
            rw [Array.getElem?_eq_getElem hr] at hw; simp at hw; subst hw
            have : i = 2 * pos + 1 ∨ i = 2 * pos + 1 + 1 := by omega
            rcases this with rfl | rfl
            · rw [Array.getElem?_eq_getElem hc0] at hu; simp at hu; subst hu; simpa using hl
            · rw [Array.getElem?_eq_getElem hr] at hu; simp at hu; subst hu; exact h.irrefl _
        · have hnone : a[2 * pos + 1 + 1]? = none := by simp; omega
          refine ⟨2 * pos + 1, by simp [hnone], hc0, by omega, by omega, ?_⟩
          intro i u w hi hipar hu hw
          rw [Array.getElem?_eq_getElem hc0] at hw; simp at hw; subst hw
          have : i = 2 * pos + 1 ∨ i = 2 * pos + 1 + 1 := by omega
          rcases this with rfl | rfl
          · rw [Array.getElem?_eq_getElem hc0] at hu; simp at hu; subst hu; exact h.irrefl _
          · rw [hnone] at hu; simp at hu
      have hmin : ∀ i u, 0 < i → (i - 1) / 2 = pos → a[i]? = some u → lt u a[c] = false :=
        fun i u hi hipar hu => hmin' i u _ hi hipar hu (Array.getElem?_eq_getElem hc)
      rw [hcdef]
      simp only [Array.getElem?_eq_getElem hc]
      have hsz : (a.setIfInBounds pos a[c]).size = a.size := by simp
      have := ih (a.setIfInBounds pos a[c]) c (by rw [hsz]; omega) (by rw [hsz]; exact hc)
        (hex.moveUp hp hc hcpar hcpos hmin)
      rw [hsz] at this
      obtain ⟨i1, i2, i3, i4, i5⟩ := this
      refine ⟨i1, i2, i3, i4, fun x => (i5 x).trans ?_⟩
      have hsw := swap_values_perm a pos c x a[c] (by omega) hp hc
      rw [set_set_same a pos c x (by omega) hc] at hsw
      exact hsw
    · simp only [if_neg hc0]
      exact ⟨hex, trivial, hp, by omega, fun x => Array.Perm.refl _⟩

theorem Inv.empty : Inv lt (#[] : Array α) := by
  intro i x y _ hx; simp at hx

/-- the root of a heap is a minimum -/
theorem Inv.root_min (h : SWO lt) {a : Array α} (hinv : Inv lt a) :
    ∀ (i : Nat) x y, a[i]? = some x → a[0]? = some y → lt x y = false := by
  intro i
  induction i using Nat.strong_induction_on with
  | _ i ih =>
    intro x y hx hy
    by_cases hi : i = 0
    · subst hi; rw [hx] at hy; simp at hy; subst hy; exact h.irrefl _
    · have hlt : i < a.size := by
        by_contra hc; rw [Array.getElem?_eq_none (by omega)] at hx; simp at hx
      have hp : (i - 1) / 2 < a.size := by omega
      have h1 := ih ((i - 1) / 2) (by omega) _ y (Array.getElem?_eq_getElem hp) hy
      have h2 := hinv i x _ (by omega) hx (Array.getElem?_eq_getElem hp)
      exact h.le_trans h1 h2

/-- `_siftdown(heap, 0, pos)` on an array that is a heap except at `pos`, whose hole's
    children are not below the hole's content -/
theorem siftdown_spec (h : SWO lt) (a : Array α) (pos : Nat) (hp : pos < a.size)
    (hex : Except lt a pos)
    (hch : ∀ i x, 0 < i → (i - 1) / 2 = pos → a[i]? = some x → lt x a[pos] = false) :
    Inv lt (siftdown lt a 0 pos) ∧ (siftdown lt a 0 pos).Perm a := by
  unfold siftdown
  simp only [Array.getElem?_eq_getElem hp]
  have := siftdownLoop_spec h a[pos] pos a pos le_rfl hp hex hch
  refine ⟨this.1, this.2.trans ?_⟩
  have : a.setIfInBounds pos a[pos] = a := by
    apply Array.ext_getElem?; intro k
    simp only [Array.getElem?_setIfInBounds]
    by_cases hk : pos = k
    · subst hk; simp [hp]
    · simp [hk]
  rw [this]

/-- `heappush` keeps the heap invariant and adds exactly the pushed item -/
theorem heappush_spec (h : SWO lt) (a : Array α) (x : α) (hinv : Inv lt a) :
    Inv lt (heappush lt a x) ∧ (heappush lt a x).Perm (a.push x) := by
  unfold heappush
  have hp : a.size < (a.push x).size := by simp
  apply siftdown_spec h (a.push x) a.size hp
  · constructor
    · intro i u v hi hne hpne hu hv
      by_cases hlt : i < a.size
      · rw [Array.getElem?_push_lt hlt] at hu
        rw [Array.getElem?_push_lt (by omega)] at hv
        exact hinv i u v hi (by rw [Array.getElem?_eq_getElem hlt]; exact hu)
          (by rw [Array.getElem?_eq_getElem (show (i - 1) / 2 < a.size by omega)]; exact hv)
      · rw [Array.getElem?_eq_none (by simp; omega)] at hu; simp at hu
    · intro i u v _ hi hipar hu
      rw [Array.getElem?_eq_none (by simp; omega)] at hu; simp at hu
  · intro i u hi hipar hu
    rw [Array.getElem?_eq_none (by simp; omega)] at hu; simp at hu

/-- `_siftup(heap, 0)` after the root has been overwritten -/
theorem siftup_root_spec (h : SWO lt) (a : Array α) (hp : 0 < a.size) (hex : Except lt a 0) :
    Inv lt (siftup lt a 0) ∧ (siftup lt a 0).Perm a := by
  unfold siftup
  simp only [Array.getElem?_eq_getElem hp]
  obtain ⟨i1, i2, i3, i4, i5⟩ := siftupLoop_spec h a.size a 0 (by omega) hp hex
  generalize siftupLoop lt a.size a.size a 0 = r at *
  have hp' : r.2 < (r.1.setIfInBounds r.2 a[0]).size := by simp; omega
  have := siftdown_spec h (r.1.setIfInBounds r.2 a[0]) r.2 hp' (i1.set_self _) (by
    intro i u hi hipar hu
    rw [Array.getElem?_eq_none (by simp; omega)] at hu; simp at hu)
  refine ⟨this.1, this.2.trans ((i5 a[0]).trans ?_)⟩
  have : a.setIfInBounds 0 a[0] = a := by
    apply Array.ext_getElem?; intro k
    simp only [Array.getElem?_setIfInBounds]
    by_cases hk : 0 = k
    · subst hk; simp [hp]
    · simp [hk]
  rw [this]

theorem heappop_empty (a : Array α) (h0 : a.size = 0) : heappop lt a = .error .indexError := by
  have : a = #[] := Array.eq_empty_of_size_eq_zero h0
  subst this; rfl

/-- `heappop` on a non-empty heap returns a minimum, keeps the heap invariant, and removes
    exactly the returned item -/
theorem heappop_spec (h : SWO lt) (a : Array α) (hinv : Inv lt a) (hne : 0 < a.size) :
    ∃ e a', heappop lt a = .ok (e, a') ∧ Inv lt a' ∧ a.toList.Perm (e :: a'.toList) ∧
      a[0]? = some e ∧ ∀ x ∈ a.toList, lt x e = false := by
  have hmin : ∀ x ∈ a.toList, lt x a[0] = false := by
    intro x hx
    obtain ⟨i, hi, rfl⟩ := List.getElem_of_mem hx
    simp at hi
    exact hinv.root_min h i _ _ (by simp [hi]) (Array.getElem?_eq_getElem hne)
  unfold heappop
  have hb : a.back? = some a[a.size - 1] := by
    simp [Array.back?, Array.getElem?_eq_getElem (show a.size - 1 < a.size by omega)]
  simp only [hb]
  by_cases h1 : a.size = 1
  · -- the popped array is empty
    have hz : a.pop[0]? = none := by simp [h1]
    simp only [hz]
    refine ⟨_, _, rfl, ?_, ?_, ?_, ?_⟩
    · intro i x y _ hx; simp [h1] at hx
    · have : a.toList = [a[0]] := by
        apply List.ext_getElem
        · simp [h1]
        · intro i h1' h2'; simp at h2'; subst h2'; simp
      have h2 : a.pop.toList = [] := by rw [Array.toList_pop, this]; rfl
      rw [h2, this]; simp [h1]
    · simp [h1]
    · simpa [h1] using hmin
  · have hpop : 0 < a.pop.size := by simp; omega
    simp only [Array.getElem?_eq_getElem hpop]
    have hex : Except lt (a.pop.setIfInBounds 0 a[a.size - 1]) 0 := by
      constructor
      · intro i u v hi hne0 hpne hu hv
        rw [Array.getElem?_setIfInBounds] at hu hv
        rw [if_neg (by omega)] at hu
        rw [if_neg (by omega)] at hv
        rw [Array.getElem?_pop] at hu hv
        split at hu
        · split at hv
          · exact hinv i u v hi hu hv
          · simp at hv
        · simp at hu
      · intro i u v h0; omega
    have := siftup_root_spec h (a.pop.setIfInBounds 0 a[a.size - 1]) (by simpa using hpop) hex
    refine ⟨_, _, rfl, this.1, ?_, ?_, ?_⟩
    · have hp2 := (Array.perm_iff_toList_perm.mp this.2)
      refine List.Perm.trans ?_ (List.Perm.cons _ hp2.symm)
      -- a = pop ++ [last];  pop = root :: tail;  set 0 last = last :: tail
      have ha : a.toList = a.pop.toList ++ [a[a.size - 1]] := by
        have := Array.toList_pop (xs := a)
        rw [this]
        have hne' : a.toList ≠ [] := by
          intro hh; have : a.size = 0 := by rw [← Array.length_toList, hh]; rfl
          omega
        rw [← List.dropLast_append_getLast hne']
        simp [List.getLast_eq_getElem]
      rw [ha]
      simp only [Array.toList_setIfInBounds]
      cases hl : a.pop.toList with
      | nil => have : a.pop.size = 0 := by rw [← Array.length_toList, hl]; rfl
               omega
      | cons r tl =>
        have hr : a.pop[0] = r := by
          have := List.getElem_of_eq hl (i := 0) (by simpa using hpop)
          simpa using this
        rw [hr]
        simp only [List.set_cons_zero, List.cons_append]
        refine List.Perm.cons _ ?_
        exact List.perm_append_singleton _ _
    · simp [Array.getElem?_eq_getElem hne]
    · have : a.pop[0] = a[0] := by simp
      rw [this]; exact hmin

end Acn.Heap
