/-
  Helper lemmas for C07 / C08: list updates, the stable insertion sort, the bisection and the
  discrete walk for an ARBITRARY feasibility predicate.
-/
import AcnModel.Sorted
import AcnProofs.Lemmas.Basic
import Mathlib.Tactic

namespace Acn.Sorted
open Acn

/-! ### `List.set` facts used as "assigning the value that is already there is a no-op" -/

theorem set_idem {α : Type} (l : List α) (i : Nat) (a : α) : (l.set i a).set i a = l.set i a := by
  simp

theorem set_noop_of_comm {α : Type} (l : List α) (i j : Nat) (a b : α) (hij : i ≠ j)
    (h : l.set j b = l) : (l.set i a).set j b = l.set i a := by
  rw [List.set_comm _ _ hij, h]

theorem getElem?_of_set_noop {α : Type} (l : List α) (i : Nat) (a : α) (h : l.set i a = l)
    (hi : i < l.length) : l[i]? = some a := by
  have : (l.set i a)[i]? = some a := by simp [hi]
  rwa [h] at this

/-! ### the stable insertion sort is a permutation -/

theorem insertBy_perm {α : Type} (lt : α → α → Bool) (x : α) (l : List α) :
    (insertBy lt x l).Perm (x :: l) := by
  induction l with
  | nil => simp [insertBy]
  | cons y ys ih =>
    unfold insertBy
    split
    · exact (List.Perm.cons y ih).trans (List.Perm.swap x y ys)
    · exact List.Perm.refl _

theorem sortBy_perm {α : Type} (lt : α → α → Bool) (l : List α) : (sortBy lt l).Perm l := by
  induction l with
  | nil => simp [sortBy]
  | cons x xs ih =>
    have : sortBy lt (x :: xs) = insertBy lt x (sortBy lt xs) := by simp [sortBy]
    rw [this]
    exact (insertBy_perm lt x _).trans (List.Perm.cons x ih)

theorem mem_sortBy {α : Type} (lt : α → α → Bool) (l : List α) (a : α) :
    a ∈ sortBy lt l ↔ a ∈ l := (sortBy_perm lt l).mem_iff

/-! ### bisection and discrete walk, arbitrary predicate -/

section
variable {K : Type} [Field K] [LinearOrder K] [IsStrictOrderedRing K]

/-- the bisection returns its incoming lower end or a midpoint that passed the test -/
theorem bisect_cases (feas : List K → Bool) (sched : List K) (i : Nat) (eps : K) :
    ∀ (fuel : Nat) (lb ub : K),
      bisect feas sched i eps fuel lb ub = lb ∨
      feas (sched.set i (bisect feas sched i eps fuel lb ub)) = true := by
  intro fuel
  induction fuel with
  | zero => intro lb ub; left; rfl
  | succ n ih =>
    intro lb ub
    unfold bisect
    simp only
    split
    · left; rfl
    · split
      · rename_i hmid
        rcases ih ((ub + lb) / ((2 : Nat) : K)) ub with h | h
        · right; rw [h]; exact hmid
        · right; exact h
      · exact ih lb ((ub + lb) / ((2 : Nat) : K))

/-- … and stays inside `[lb, max lb ub]` (for `eps ≥ 0`) -/
theorem bisect_range (feas : List K → Bool) (sched : List K) (i : Nat) (eps : K) (heps : 0 ≤ eps) :
    ∀ (fuel : Nat) (lb ub : K),
      lb ≤ bisect feas sched i eps fuel lb ub ∧ bisect feas sched i eps fuel lb ub ≤ max lb ub := by
  intro fuel
  induction fuel with
  | zero => intro lb ub; exact ⟨le_refl _, le_max_left _ _⟩
  | succ n ih =>
    intro lb ub
    unfold bisect
    simp only
    split
    · exact ⟨le_refl _, le_max_left _ _⟩
    · rename_i hgap
      have hlt : lb < ub := by
        have := not_le.mp hgap
        linarith
      have h2 : (((2 : Nat) : K)) = 2 := by norm_num
      have hm1 : lb < (ub + lb) / ((2 : Nat) : K) := by rw [h2]; linarith
      have hm2 : (ub + lb) / ((2 : Nat) : K) < ub := by rw [h2]; linarith
      split
      · obtain ⟨h1, h3⟩ := ih ((ub + lb) / ((2 : Nat) : K)) ub
        refine ⟨le_trans (le_of_lt hm1) h1, le_trans h3 ?_⟩
        exact max_le (le_trans (le_of_lt hm2) (le_max_right _ _)) (le_max_right _ _)
      · obtain ⟨h1, h3⟩ := ih lb ((ub + lb) / ((2 : Nat) : K))
        refine ⟨h1, le_trans h3 ?_⟩
        exact max_le (le_max_left _ _) (le_trans (le_of_lt hm2) (le_max_right _ _))

/-- the discrete walk stops at a tested level, or every level failed and it returns 0 -/
theorem walkDown_cases (feas : List K → Bool) (sched : List K) (i : Nat) (l : List K) :
    (walkDown feas sched i l ∈ l ∧ feas (sched.set i (walkDown feas sched i l)) = true) ∨
    (walkDown feas sched i l = 0 ∧ ∀ a ∈ l, feas (sched.set i a) = false) := by
  induction l with
  | nil => right; simp [walkDown]
  | cons a rest ih =>
    unfold walkDown
    split
    · left; rename_i h; exact ⟨List.mem_cons_self, h⟩
    · rename_i h
      rcases ih with ⟨h1, h2⟩ | ⟨h1, h2⟩
      · left; exact ⟨List.mem_cons_of_mem _ h1, h2⟩
      · right
        refine ⟨h1, ?_⟩
        intro b hb
        rcases List.mem_cons.mp hb with rfl | hb
        · simpa using h
        · exact h2 b hb

end
end Acn.Sorted
