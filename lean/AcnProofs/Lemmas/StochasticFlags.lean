/-
  Which ghost flags an operation of the StochasticNetwork model can change (C19):
  the network operations never touch `arrived` / `departed`; `unplug` never touches `early`.
-/
import AcnModel.Stochastic
import Mathlib.Tactic

namespace Acn.Stoch

/-- the part of an EV record the network operations leave alone -/
def SameFlags (s s1 : Net) : Prop :=
  ∀ u, (s1.ev u).arrived = (s.ev u).arrived ∧ (s1.ev u).departed = (s.ev u).departed ∧
    (s1.ev u).early = (s.ev u).early

theorem SameFlags.refl (s : Net) : SameFlags s s := fun _ => ⟨rfl, rfl, rfl⟩

theorem SameFlags.trans {a b c : Net} (h1 : SameFlags a b) (h2 : SameFlags b c) : SameFlags a c :=
  fun u => ⟨(h2 u).1.trans (h1 u).1, (h2 u).2.1.trans (h1 u).2.1, (h2 u).2.2.trans (h1 u).2.2⟩

theorem attach_flags {s s1 : Net} {x : Sess} (hs : s.attach x = .ok s1) : SameFlags s s1 := by
  unfold Net.attach at hs
  split at hs
  · cases hs
  · split at hs
    · split at hs
      · cases hs
        intro u
        by_cases h : u = x <;> simp [Net.modEv, Net.setOcc, h]
      · cases hs
    · cases hs

theorem admitNext_flags {s s1 : Net} {st : Station} (hs : s.admitNext st = .ok s1) :
    SameFlags s s1 := by
  unfold Net.admitNext at hs
  split at hs
  · cases hs; exact SameFlags.refl _
  · rename_i y w _
    simp only [bind, Except.bind] at hs
    split at hs
    · cases hs
    · rename_i s3 h3
      cases hs
      have := attach_flags h3
      intro u
      have hu := this u
      by_cases h : u = y <;> simp_all [Net.modEv]

theorem unplug_flags {s s1 : Net} {st? : Option Station} {x : Sess}
    (hs : s.unplug st? x = .ok s1) : SameFlags s s1 := by
  unfold Net.unplug at hs
  split at hs
  · cases hs; exact SameFlags.refl _
  · split at hs
    · cases hs
    · split at hs
      · split at hs
        · cases hs; exact SameFlags.refl _
        · split at hs
          · have := admitNext_flags hs
            intro u; simpa [Net.setOcc] using this u
          · cases hs; exact SameFlags.refl _
      · cases hs

theorem plugin_flags {cs : Nat → Nat} {s s1 : Net} {x : Sess} (hs : s.plugin cs x = .ok s1) :
    SameFlags s s1 := by
  unfold Net.plugin at hs
  split at hs
  · cases hs
    intro u
    by_cases h : u = x <;> simp [Net.modEv, h]
  · have := attach_flags hs
    intro u
    have hu := this u
    by_cases h : u = x <;> simp_all [Net.modEv]

end Acn.Stoch
