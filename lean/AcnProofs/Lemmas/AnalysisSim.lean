/-
  Helper lemmas for C18Sim (1/2): pure facts about lists of `(requested, delivered)` pairs and about phasor sums —
  no simulator here.
    * `proportion_spec`      Σ delivered / Σ requested ≤ 1 when nobody got more than requested, = 1 iff all met
    * `demandsMet_mono`      the fraction of sessions below the threshold is monotone in the threshold, within [0, 1]
    * `phasor_sq_le`         |Σ x_j e^{iφ_j}|² ≤ (Σ |x_j|)²   (triangle inequality without square roots)
-/
import AcnProofs.C18

set_option linter.unusedSectionVars false
set_option linter.unusedVariables false

namespace Acn.AnalysisSim
open Acn Acn.Analysis Finset

variable {K : Type} [Field K] [LinearOrder K] [IsStrictOrderedRing K]

/-! ### energy proportions -/

theorem sum_delivered_le (evs : List (Analysis.Ev K)) (h : ∀ e ∈ evs, e.delivered ≤ e.requested) :
    (evs.map (·.delivered)).sum ≤ (evs.map (·.requested)).sum := by
  induction evs with
  | nil => simp
  | cons e es ih =>
    simp only [List.map_cons, List.sum_cons]
    exact add_le_add (h e (List.mem_cons_self ..)) (ih fun x hx => h x (List.mem_cons_of_mem _ hx))

theorem sum_delivered_eq_iff (evs : List (Analysis.Ev K)) (h : ∀ e ∈ evs, e.delivered ≤ e.requested) :
    (evs.map (·.delivered)).sum = (evs.map (·.requested)).sum ↔ ∀ e ∈ evs, e.delivered = e.requested := by
  induction evs with
  | nil => simp
  | cons e es ih =>
    have he := h e (List.mem_cons_self ..)
    have hes : ∀ x ∈ es, x.delivered ≤ x.requested := fun x hx => h x (List.mem_cons_of_mem _ hx)
    have hle := sum_delivered_le es hes
    simp only [List.map_cons, List.sum_cons, List.mem_cons, forall_eq_or_imp]
    constructor
    · intro heq
      have h1 : e.delivered = e.requested := by linarith
      have h2 : (es.map (·.delivered)).sum = (es.map (·.requested)).sum := by linarith
      exact ⟨h1, (ih hes).1 h2⟩
    · rintro ⟨h1, h2⟩
      rw [h1, (ih hes).2 h2]

/-- `proportion_of_energy_delivered` on any EV history in which nobody received more than requested and
    something was requested: defined, at most 1, and 1 exactly when EVERY request was met in full;
    non-negative when no counter is negative -/
theorem proportion_spec (evs : List (Analysis.Ev K)) (h : ∀ e ∈ evs, e.delivered ≤ e.requested)
    (hpos : 0 < (evs.map (·.requested)).sum) :
    ∃ p, proportionDelivered evs = .ok p ∧ p = (evs.map (·.delivered)).sum / (evs.map (·.requested)).sum ∧
      p ≤ 1 ∧ (p = 1 ↔ ∀ e ∈ evs, e.delivered = e.requested) ∧
      ((∀ e ∈ evs, 0 ≤ e.delivered) → 0 ≤ p) := by
  refine ⟨_, (C18.energy_metrics_def evs 0).2.2.1 (ne_of_gt hpos), rfl, ?_, ?_, ?_⟩
  · exact (div_le_one hpos).2 (sum_delivered_le evs h)
  · rw [div_eq_one_iff_eq (ne_of_gt hpos)]
    exact sum_delivered_eq_iff evs h
  · intro h0
    apply div_nonneg _ (le_of_lt hpos)
    apply List.sum_nonneg
    intro x hx
    obtain ⟨e, he, rfl⟩ := List.mem_map.1 hx
    exact h0 e he

/-- `proportion_of_demands_met` is monotone in the threshold and lies in [0, 1] -/
theorem demandsMet_mono (evs : List (Analysis.Ev K)) (hne : evs ≠ []) (thr thr' : K) (hle : thr ≤ thr') :
    ∃ a b, demandsMet evs thr = .ok a ∧ demandsMet evs thr' = .ok b ∧ 0 ≤ a ∧ a ≤ b ∧ b ≤ 1 := by
  have hlen : (0 : K) < (evs.length : K) := by
    have : 0 < evs.length := List.length_pos_iff.2 hne
    exact_mod_cast this
  refine ⟨_, _, (C18.energy_metrics_def evs thr).2.2.2.2.1 hne, (C18.energy_metrics_def evs thr').2.2.2.2.1 hne,
    ?_, ?_, ?_⟩
  · exact div_nonneg (Nat.cast_nonneg _) (le_of_lt hlen)
  · apply div_le_div_of_nonneg_right _ (le_of_lt hlen)
    have : evs.countP (fun e => decide (e.requested - e.delivered < thr)) ≤
        evs.countP (fun e => decide (e.requested - e.delivered < thr')) := by
      apply List.countP_mono_left
      intro e _ he
      simp only [decide_eq_true_eq] at he ⊢
      exact lt_of_lt_of_le he hle
    exact_mod_cast this
  · rw [div_le_one hlen]
    exact_mod_cast List.countP_le_length

/-- every session whose remaining demand is below the threshold ⇒ the proportion is exactly 1 -/
theorem demandsMet_all (evs : List (Analysis.Ev K)) (hne : evs ≠ []) (thr : K)
    (h : ∀ e ∈ evs, e.requested - e.delivered < thr) : demandsMet evs thr = .ok 1 := by
  have hlen : (evs.length : K) ≠ 0 := by
    have : 0 < evs.length := List.length_pos_iff.2 hne
    exact_mod_cast (ne_of_gt this)
  rw [(C18.energy_metrics_def evs thr).2.2.2.2.1 hne]
  have : evs.countP (fun e => decide (e.requested - e.delivered < thr)) = evs.length := by
    rw [List.countP_eq_length]
    intro e he
    simpa using h e he
  rw [this, div_self hlen]

/-! ### phasor sums -/

/-- the triangle inequality for a sum of vectors `x_j · (c_j, s_j)` with `c_j² + s_j² ≤ 1`, squared:
    `(Σ x_j c_j)² + (Σ x_j s_j)² ≤ (Σ |x_j|)²` -/
theorem phasor_sq_le (x c s : Nat → K) (hcs : ∀ j, c j * c j + s j * s j ≤ 1) (n : Nat) :
    (∑ j ∈ range n, x j * c j) ^ 2 + (∑ j ∈ range n, x j * s j) ^ 2 ≤ (∑ j ∈ range n, |x j|) ^ 2 ∧
    0 ≤ ∑ j ∈ range n, |x j| := by
  induction n with
  | zero => simp
  | succ n ih =>
    obtain ⟨ih1, ih2⟩ := ih
    rw [Finset.sum_range_succ, Finset.sum_range_succ, Finset.sum_range_succ]
    set A := ∑ j ∈ range n, x j * c j
    set B := ∑ j ∈ range n, x j * s j
    set N := ∑ j ∈ range n, |x j|
    have hc := hcs n
    have hAB : 0 ≤ A ^ 2 + B ^ 2 := by positivity
    have h1 : (A * c n + B * s n) ^ 2 ≤ N ^ 2 := by
      have e1 : (A * c n + B * s n) ^ 2 ≤ (A ^ 2 + B ^ 2) * (c n * c n + s n * s n) := by
        nlinarith [sq_nonneg (A * s n - B * c n)]
      have e2 : (A ^ 2 + B ^ 2) * (c n * c n + s n * s n) ≤ (A ^ 2 + B ^ 2) * 1 :=
        mul_le_mul_of_nonneg_left hc hAB
      linarith
    have h2 : |A * c n + B * s n| ≤ N := abs_le_of_sq_le_sq h1 ih2
    have h3 : x n * (A * c n + B * s n) ≤ |x n| * N := by
      calc x n * (A * c n + B * s n) ≤ |x n * (A * c n + B * s n)| := le_abs_self _
        _ = |x n| * |A * c n + B * s n| := abs_mul _ _
        _ ≤ |x n| * N := mul_le_mul_of_nonneg_left h2 (abs_nonneg _)
    have h4 : x n ^ 2 * (c n * c n + s n * s n) ≤ |x n| ^ 2 := by
      rw [sq_abs]
      calc x n ^ 2 * (c n * c n + s n * s n) ≤ x n ^ 2 * 1 := mul_le_mul_of_nonneg_left hc (sq_nonneg _)
        _ = x n ^ 2 := mul_one _
    refine ⟨?_, add_nonneg ih2 (abs_nonneg _)⟩
    have expand : (A + x n * c n) ^ 2 + (B + x n * s n) ^ 2 =
        (A ^ 2 + B ^ 2) + 2 * (x n * (A * c n + B * s n)) + x n ^ 2 * (c n * c n + s n * s n) := by ring
    rw [expand]
    have : (N + |x n|) ^ 2 = N ^ 2 + 2 * (|x n| * N) + |x n| ^ 2 := by ring
    rw [this]
    linarith

end Acn.AnalysisSim
