/-
  Helper lemmas for C05 (infrastructure view): what the constraint containers of the network model
  of C12 (`Network.Net`) hold after "register every station, then add the constraints" — the history
  by which every simulator of the harness (and of the tutorials) builds its network.
-/
import AcnModel.SchedView
import Mathlib.Tactic

namespace Acn.Sim
open Acn Acn.Network

variable {K : Type}

theorem run_nil [OfNat K 0] (n : Net K) : Net.run n [] = n := rfl

theorem run_cons [OfNat K 0] (n : Net K) (o : Op K) (os : List (Op K)) :
    Net.run n (o :: os) = Net.run (n.step o).1 os := rfl

/-- registering fresh, distinct ids on a network without constraints appends them in order -/
theorem run_registers [OfNat K 0] : ∀ (ids : List String) (n : Net K), n.matrix = none →
    (∀ s ∈ ids, s ∉ n.stations) → ids.Nodup →
    Net.run n (ids.map Op.register) = { n with stations := n.stations ++ ids } := by
  intro ids
  induction ids with
  | nil => intro n _ _ _; simp [run_nil]
  | cons s rest ih =>
    intro n hm hfresh hnd
    rw [List.map_cons, run_cons]
    have hs : s ∉ n.stations := hfresh s (by simp)
    have hstep : (n.step (Op.register s)).1 = { n with stations := n.stations ++ [s] } := by
      simp [Net.step, Net.register, hm, hs]
    have hfresh' : ∀ t ∈ rest, t ∉ ({ n with stations := n.stations ++ [s] } : Net K).stations := by
      intro t ht
      simp only [List.mem_append, List.mem_singleton, not_or]
      exact ⟨hfresh t (by simp [ht]), fun h => (List.nodup_cons.1 hnd).1 (h ▸ ht)⟩
    rw [hstep, ih { n with stations := n.stations ++ [s] } hm hfresh' (List.nodup_cons.1 hnd).2]
    simp

/-- one accepted `add_constraint` -/
theorem addConstraint_ok [OfNat K 0] (n : Net K) (c : Current K) (l : K) (nm : Option String)
    (hlen : (n.matrix.getD []).length = n.index.length) (hk : ∀ k ∈ c.keys, k ∈ n.stations) :
    (n.addConstraint c l nm).1.stations = n.stations ∧
    (n.addConstraint c l nm).1.matrix = some (n.matrix.getD [] ++ [Net.row n.stations c]) ∧
    (n.addConstraint c l nm).1.magnitudes = n.magnitudes ++ [l] ∧
    (n.addConstraint c l nm).1.index = n.index ++ [Net.resolveName n.index nm] := by
  have hall : (c.keys.all fun k => decide (k ∈ n.stations)) = true := by
    simp only [List.all_eq_true, decide_eq_true_eq]; exact hk
  unfold Net.addConstraint
  simp only [hall, if_true, hlen, ne_eq, not_true_eq_false, if_false]
  by_cases h0 : n.index.length = 0
  · have hi : n.index = [] := List.length_eq_zero_iff.1 h0
    have hr : n.matrix.getD [] = [] := List.length_eq_zero_iff.1 (hlen.trans h0)
    simp [hi, hr]
  · simp [h0]

/-- the `add_constraint` calls, all over registered stations -/
theorem run_adds [OfNat K 0] : ∀ (cs : List (Current K × K × Option String)) (n : Net K),
    (n.matrix.getD []).length = n.index.length →
    (∀ c ∈ cs, ∀ k ∈ c.1.keys, k ∈ n.stations) →
    (Net.run n (cs.map fun c => Op.add c.1 c.2.1 c.2.2)).stations = n.stations ∧
    (Net.run n (cs.map fun c => Op.add c.1 c.2.1 c.2.2)).matrix.getD [] =
      n.matrix.getD [] ++ cs.map (fun c => Net.row n.stations c.1) ∧
    (Net.run n (cs.map fun c => Op.add c.1 c.2.1 c.2.2)).magnitudes = n.magnitudes ++ cs.map (·.2.1) ∧
    (Net.run n (cs.map fun c => Op.add c.1 c.2.1 c.2.2)).index.length = n.index.length + cs.length := by
  intro cs
  induction cs with
  | nil => intro n _ _; simp [run_nil]
  | cons c rest ih =>
    intro n hlen hk
    rw [List.map_cons, run_cons]
    obtain ⟨a1, a2, a3, a4⟩ := addConstraint_ok n c.1 c.2.1 c.2.2 hlen (hk c (by simp))
    have hstep : (n.step (Op.add c.1 c.2.1 c.2.2)).1 = (n.addConstraint c.1 c.2.1 c.2.2).1 := rfl
    rw [hstep]
    obtain ⟨i1, i2, i3, i4⟩ := ih (n.addConstraint c.1 c.2.1 c.2.2).1
      (by rw [a2, a4]; simp [hlen])
      (fun d hd k hkk => by rw [a1]; exact hk d (by simp [hd]) k hkk)
    refine ⟨i1.trans a1, ?_, ?_, ?_⟩
    · rw [i2, a2, a1]; simp
    · rw [i3, a3]; simp
    · rw [i4, a4]; simp; omega

/-- explicitly and distinctly named constraints keep their names, in order -/
theorem run_adds_index [OfNat K 0] : ∀ (cs : List (Current K × K × Option String)) (n : Net K),
    (n.matrix.getD []).length = n.index.length →
    (∀ c ∈ cs, ∀ k ∈ c.1.keys, k ∈ n.stations) →
    (∀ c ∈ cs, c.2.2.isSome) → (n.index ++ cs.filterMap (·.2.2)).Nodup →
    (Net.run n (cs.map fun c => Op.add c.1 c.2.1 c.2.2)).index = n.index ++ cs.filterMap (·.2.2) := by
  intro cs
  induction cs with
  | nil => intro n _ _ _ _; simp [run_nil]
  | cons c rest ih =>
    intro n hlen hk hsome hnd
    rw [List.map_cons, run_cons]
    obtain ⟨a1, a2, _, a4⟩ := addConstraint_ok n c.1 c.2.1 c.2.2 hlen (hk c (by simp))
    have hstep : (n.step (Op.add c.1 c.2.1 c.2.2)).1 = (n.addConstraint c.1 c.2.1 c.2.2).1 := rfl
    obtain ⟨s, hs⟩ := Option.isSome_iff_exists.1 (hsome c (by simp))
    have hfm : (c :: rest).filterMap (·.2.2) = s :: rest.filterMap (·.2.2) := by
      simp [hs]
    rw [hfm] at hnd ⊢
    have hnotin : s ∉ n.index := by
      intro h
      have := (List.nodup_append.1 hnd).2.2 s h s (by simp)
      exact this rfl
    have hres : Net.resolveName n.index c.2.2 = s := by
      simp [Net.resolveName, hs, hnotin]
    rw [hstep, ih (n.addConstraint c.1 c.2.1 c.2.2).1 (by rw [a2, a4]; simp [hlen])
      (fun d hd k hkk => by rw [a1]; exact hk d (by simp [hd]) k hkk)
      (fun d hd => hsome d (by simp [hd]))
      (by rw [a4, hres]; simpa using hnd)]
    rw [a4, hres]
    simp

end Acn.Sim
