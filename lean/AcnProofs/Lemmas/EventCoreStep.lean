/-
  `Simulator.step()` (model: `AcnModel/SimStep.lean`).

  (A) The REPAIRED code (F17 fix): what is true of `step()` now.
      * `step_runs_first_pass`      — when events are left, the loop body runs for the current
                                      period whatever `_resolve` / `max_recompute` say;
      * `stepPass_applies_schedule` — the schedule handed in is applied to the CURRENT period: the
                                      pilot column of period `t` (which `update_pilots` hands to the
                                      EVSEs) is the schedule's entry for `t` (0 for omitted stations),
                                      and the period counter advances by one;
      * `stepPass_core`             — relation to `run()`: a pass is the SAME stages as a period of
                                      `run()`, rotated: `run`: events(t) · schedule · apply(t) · t+1;
                                      `step`: schedule · apply(t) · t+1 · events(t+1).
      NOT true (and not repaired; C01 is about `run()`): "a `step()`-driven simulation visits the
      states of `run()`" — the events with timestamp t are processed after the trip of period t−1, so
      timestamp-0 events are processed at iteration 1, and the same schedule is re-submitted in
      every pass of one call.
  (B) The code BEFORE the fix (`…Unfixed`), kept as documentation of finding F17:
      `stepUnfixed_noop_of_resolve`, `stepPass_sets_resolve`, `stepsUnfixed_stall`,
      `stepUnfixed_typeError`.
-/
import AcnModel.SimStep
import AcnProofs.Lemmas.EventCoreSim
import AcnProofs.Lemmas.EventCorePilots
import AcnProofs.Lemmas.ResumeInv

set_option linter.unusedSectionVars false
set_option linter.unusedSimpArgs false

namespace Acn.Sim
open Acn Acn.EventCore

variable {K : Type} [Add K] [Sub K] [Mul K] [Div K] [Neg K] [LT K] [LE K]
  [DecidableLT K] [DecidableLE K] [OfNat K 0] [OfNat K 1] [NatCast K] [HasExp K]

/-! ### (A) the repaired `step()` -/

/-- events left ⇒ the first pass of the loop is executed, whatever `_resolve`, `max_recompute`
    and `_last_schedule_update` are (no `TypeError`, no dropped schedule) -/
theorem step_runs_first_pass (cfg : Cfg K) (sch : Schedule K) (n : Nat) (s s' : State K)
    (hp : s.core.pending ≠ []) (hpass : stepPass cfg sch s = (s', none)) :
    stepLoop cfg sch (n + 1) true s = stepLoop cfg sch n false s' := by
  have : s.core.pending.isEmpty = false := by
    cases hpe : s.core.pending with
    | nil => exact absurd hpe hp
    | cons a l => rfl
  simp [stepLoop, stepCond, this, hpass]

/-- … and if that pass raises, `step()` raises the same error (never the `TypeError` of the
    unrepaired loop condition) -/
theorem step_first_pass_error (cfg : Cfg K) (sch : Schedule K) (n : Nat) (s s' : State K) (e : Err)
    (hp : s.core.pending ≠ []) (hpass : stepPass cfg sch s = (s', some e)) :
    stepLoop cfg sch (n + 1) true s = (s', some (.base e)) := by
  have : s.core.pending.isEmpty = false := by
    cases hpe : s.core.pending with
    | nil => exact absurd hpe hp
    | cons a l => rfl
  simp [stepLoop, stepCond, this, hpass]

theorem applyStageW_spec (cfg : Cfg K) (w : Nat) (s : State K) (h : (applyStageW cfg w s).2 = none) :
    (applyStageW cfg w s).1.pilots = Pilots.increaseWidth s.pilots w ∧
    (applyStageW cfg w s).1.core = advance s.core := by
  unfold applyStageW at h ⊢
  have hc1 : (widenW w s).core = s.core := rfl
  have hp1 : (widenW w s).pilots = Pilots.increaseWidth s.pilots w := rfl
  generalize widenW w s = s1 at h hc1 hp1 ⊢
  by_cases hcond : s1.pilots.width ≤ s.core.iter
  · simp [hcond] at h
  · simp only [hcond, if_false] at h ⊢
    have hu := updatePilotsFrom_core cfg cfg.stations 0 s1
    have hup' := updatePilotsFrom_pilots cfg cfg.stations 0 s1
    rcases hup : updatePilots cfg s1 with ⟨s2, _ | e⟩
    · simp only [hup] at h ⊢
      have hr := storeRates_core cfg w s2
      have hr' := storeRates_pilots cfg w s2
      unfold updatePilots at hup
      rw [hup] at hu hup'
      rcases hst : storeRates cfg w s2 with ⟨s3, _ | e⟩
      · rw [hst] at hr hr'
        simp only at hr hr' hu hup' ⊢
        exact ⟨by rw [hr', hup', hp1], by rw [hr, hu, hc1]⟩
      · simp [hst] at h
    · simp [hup] at h

/-- RELATION TO `run()`: a pass of `step()` that raises nothing is, on the event core,
    `markScheduled` · `advance` · `eventsStage` — the stages of a `run()` period, rotated -/
theorem stepPass_core (cfg : Cfg K) (sch : Schedule K) (s : State K) (h : (stepPass cfg sch s).2 = none) :
    ((stepPass cfg sch s).1.core, (none : Option Err)) =
      EventCore.eventsStage cfg.core (advance (markScheduled s.core)) := by
  unfold stepPass at h ⊢
  rcases hu : Pilots.updateSchedules (cfg.stations.map (·.id)) s.pilots s.core.iter
      ((lastTs s.core.pending).map Int.toNat) sch with e | m
  · simp [hu] at h
  · simp only [hu] at h ⊢
    rcases ha : applyStageW cfg (stepWidthInc { s with pilots := m, core := markScheduled s.core })
        { s with pilots := m, core := markScheduled s.core } with ⟨s2, _ | e⟩
    · simp only [ha] at h ⊢
      have hsp := (applyStageW_spec cfg _ _ (by rw [ha])).2
      rw [ha] at hsp
      simp only at hsp
      have hp := eventsStage_core cfg s2
      rw [h, hsp] at hp
      exact hp
    · simp [ha] at h

/-- THE SCHEDULE HANDED IN IS APPLIED TO THE CURRENT PERIOD: after a pass that raises nothing, with
    a schedule `_update_schedules` accepts and that has at least one column, the pilot of every
    station in period `t = iteration` is the schedule's entry for it (0 if omitted), and the
    iteration has advanced by one -/
theorem stepPass_applies_schedule (cfg : Cfg K) (sch : Schedule K) (s : State K)
    (hwf : s.pilots.WF (cfg.stations.map (·.id)).length) (h : (stepPass cfg sch s).2 = none)
    (hcov : Pilots.covers (cfg.stations.map (·.id))
      ⟨s.core.iter, (lastTs s.core.pending).map Int.toNat, sch⟩ s.core.iter = true) (st : String) :
    (stepPass cfg sch s).1.pilots.get ((cfg.stations.map (·.id)).idxOf st) s.core.iter =
      Pilots.valueOf ⟨s.core.iter, (lastTs s.core.pending).map Int.toNat, sch⟩ st s.core.iter ∧
    (stepPass cfg sch s).1.core.iter = s.core.iter + 1 := by
  have hcore := stepPass_core cfg sch s h
  have hsub := Pilots.submit_get hwf ⟨s.core.iter, (lastTs s.core.pending).map Int.toNat, sch⟩ st s.core.iter
  rw [hcov] at hsub
  simp only [if_true] at hsub
  unfold stepPass at h ⊢
  rcases hu : Pilots.updateSchedules (cfg.stations.map (·.id)) s.pilots s.core.iter
      ((lastTs s.core.pending).map Int.toNat) sch with e | m
  · simp [hu] at h
  · simp only [Pilots.submit, hu] at hsub
    simp only [hu] at h ⊢
    rcases ha : applyStageW cfg (stepWidthInc { s with pilots := m, core := markScheduled s.core })
        { s with pilots := m, core := markScheduled s.core } with ⟨s2, _ | e⟩
    · simp only [ha] at h ⊢
      have hsp := applyStageW_spec cfg _ _ (by rw [ha])
      rw [ha] at hsp
      simp only at hsp
      refine ⟨?_, ?_⟩
      · rw [eventsStage_pilots, hsp.1, Acn.C04.increaseWidth_get, hsub]
      · rw [eventsStage_iter, hsp.2]; rfl
    · simp [ha] at h

/-! ### (B) before the fix: finding F17 -/

theorem stepCondUnfixed_of_resolve (mr : Option Nat) (c : Core) (h : c.resolve = true) :
    stepCondUnfixed mr c = .ok false := by
  unfold stepCondUnfixed
  split
  · rfl
  · simp [h]

/-- F17: a `step()` call made while `_resolve` is set did nothing -/
theorem stepUnfixed_noop_of_resolve (cfg : Cfg K) (sch : Schedule K) (fuel : Nat) (s : State K)
    (h : s.core.resolve = true) : stepUnfixed cfg sch fuel s = (s, .ok s.core.pending.isEmpty) := by
  unfold stepUnfixed
  cases fuel with
  | zero => rfl
  | succ n => simp [stepLoopUnfixed, stepCondUnfixed_of_resolve _ _ h]

/-- F17: `TypeError` in the loop condition (`max_recompute` set, nothing scheduled yet) -/
theorem stepUnfixed_typeError (cfg : Cfg K) (sch : Schedule K) (fuel : Nat) (s : State K) (m : Nat)
    (hm : cfg.maxRecompute = some m) (hp : s.core.pending ≠ []) (hr : s.core.resolve = false)
    (hl : s.core.lastUpd = none) : stepUnfixed cfg sch (fuel + 1) s = (s, .error .typeError) := by
  have hc : stepCondUnfixed cfg.maxRecompute s.core = .error .typeError := by
    unfold stepCondUnfixed
    have : s.core.pending.isEmpty = false := by
      cases hpe : s.core.pending with
      | nil => exact absurd hpe hp
      | cons a l => rfl
    simp [this, hr, hm, hl]
  simp [stepUnfixed, stepLoopUnfixed, hc]

/-- a pass of the loop that processes at least one event leaves `_resolve` set -/
theorem eventsStage_sets_resolve (cfg : Cfg K) (s : State K) (h : (eventsStage cfg s).2 = none)
    (hne : (popCurrent s.core.iter s.core.pending).1 ≠ []) :
    (eventsStage cfg s).1.core.resolve = true := by
  have hp := eventsStage_core cfg s
  have h1 : (eventsStage cfg s).1.core = (EventCore.eventsStage cfg.core s.core).1 := congrArg Prod.fst hp
  have h2 : (eventsStage cfg s).2 = (EventCore.eventsStage cfg.core s.core).2 := congrArg Prod.snd hp
  rw [h1]
  rw [h2] at h
  exact processAll_resolve cfg.core _ _ h (Or.inl hne)

theorem stepPass_sets_resolve (cfg : Cfg K) (sch : Schedule K) (s : State K) (m : Pilots.Mat K)
    (s2 : State K)
    (hu : Pilots.updateSchedules (cfg.stations.map (·.id)) s.pilots s.core.iter
      ((lastTs s.core.pending).map Int.toNat) sch = .ok m)
    (ha : applyStageW cfg (stepWidthInc { s with pilots := m, core := markScheduled s.core })
      { s with pilots := m, core := markScheduled s.core } = (s2, none))
    (hok : (stepPass cfg sch s).2 = none)
    (hne : (popCurrent s2.core.iter s2.core.pending).1 ≠ []) :
    (stepPass cfg sch s).1.core.resolve = true := by
  unfold stepPass at hok ⊢
  simp only [hu, ha] at hok ⊢
  exact eventsStage_sets_resolve cfg s2 hok hne

/-- F17: once `_resolve` was set, a whole sequence of `step()` calls left the simulator where it was -/
theorem stepsUnfixed_stall (cfg : Cfg K) (fuel : Nat) : ∀ (scheds : List (Schedule K)) (s : State K),
    s.core.resolve = true →
    stepsUnfixed cfg fuel scheds s = (s, scheds.map fun _ => (.ok s.core.pending.isEmpty, s.core.iter)) := by
  intro scheds
  induction scheds with
  | nil => intro s _; rfl
  | cons sch rest ih =>
    intro s h
    simp only [stepsUnfixed, stepUnfixed_noop_of_resolve cfg sch fuel s h, ih s h, List.map_cons]

end Acn.Sim
