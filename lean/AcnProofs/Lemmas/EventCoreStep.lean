/-
  `Simulator.step()` (model: `AcnModel/SimStep.lean`), the code AS IT IS.

  FULL STATEMENT one would like (kept here, NOT provable — it is false for the code as it is):
    "a simulation driven by `step(σ_k)`, where `σ_k` is the schedule the scheduler would have
     returned, visits the same states as `run()`".
  What is true, and proved below for every configuration, schedule and state:
  * `step_noop_of_resolve`   — a call made while `_resolve` is set changes nothing and returns
                               `event_queue.empty()`; `_resolve` is cleared only INSIDE the loop;
  * `stepPass_sets_resolve`  — a pass of the loop that processes at least one event leaves
                               `_resolve` set;
  * `steps_stall`            — hence after the first call in which an event was processed, every
                               later `step()` call, with any schedules, is a no-op: a `step()`-driven
                               simulation cannot get past its first event;
  * `step_typeError`         — with `max_recompute` set and `_last_schedule_update is None` (no
                               schedule update or EV event yet) the loop condition raises
                               `TypeError` (`int - None`).
  (Both behaviours are reproduced on the real `Simulator` by the correspondence, C01 stream
  `driven_by=step`.)
-/
import AcnModel.SimStep
import AcnProofs.Lemmas.EventCoreSim
import AcnProofs.Lemmas.ResumeInv

set_option linter.unusedSectionVars false

namespace Acn.Sim
open Acn Acn.EventCore

variable {K : Type} [Add K] [Sub K] [Mul K] [Div K] [Neg K] [LT K] [LE K]
  [DecidableLT K] [DecidableLE K] [OfNat K 0] [OfNat K 1] [NatCast K] [HasExp K]

theorem stepCond_of_resolve (mr : Option Nat) (c : Core) (h : c.resolve = true) :
    stepCond mr c = .ok false := by
  unfold stepCond
  split
  · rfl
  · simp [h]

/-- a `step()` call made while `_resolve` is set does nothing -/
theorem step_noop_of_resolve (cfg : Cfg K) (sch : Schedule K) (fuel : Nat) (s : State K)
    (h : s.core.resolve = true) : step cfg sch fuel s = (s, .ok s.core.pending.isEmpty) := by
  unfold step
  cases fuel with
  | zero => rfl
  | succ n => simp [stepLoop, stepCond_of_resolve _ _ h]

/-- `TypeError` in the loop condition: `max_recompute` set, nothing scheduled yet -/
theorem step_typeError (cfg : Cfg K) (sch : Schedule K) (fuel : Nat) (s : State K) (m : Nat)
    (hm : cfg.maxRecompute = some m) (hp : s.core.pending ≠ []) (hr : s.core.resolve = false)
    (hl : s.core.lastUpd = none) : step cfg sch (fuel + 1) s = (s, .error .typeError) := by
  have hc : stepCond cfg.maxRecompute s.core = .error .typeError := by
    unfold stepCond
    have : s.core.pending.isEmpty = false := by
      cases hpe : s.core.pending with
      | nil => exact absurd hpe hp
      | cons a l => rfl
    simp [this, hr, hm, hl]
  simp [step, stepLoop, hc]

/-- a pass of the loop that processes at least one event leaves `_resolve` set -/
theorem eventsStage_sets_resolve (cfg : Cfg K) (s : State K) (h : (eventsStage cfg s).2 = none)
    (hne : (popCurrent s.core.iter s.core.pending).1 ≠ []) :
    (eventsStage cfg s).1.core.resolve = true := by
  have hp := eventsStage_core cfg s
  have h1 : (eventsStage cfg s).1.core = (EventCore.eventsStage cfg.core s.core).1 := congrArg Prod.fst hp
  have h2 : (eventsStage cfg s).2 = (EventCore.eventsStage cfg.core s.core).2 := congrArg Prod.snd hp
  rw [h1]
  rw [h2] at h
  exact processAll_resolve cfg.core _ _ h (Or.inl hne)

theorem stepPass_sets_resolve (cfg : Cfg K) (sch : Schedule K) (s : State K) (m : Pilots.Mat K)
    (s2 : State K)
    (hu : Pilots.updateSchedules (cfg.stations.map (·.id)) s.pilots s.core.iter
      ((lastTs s.core.pending).map Int.toNat) sch = .ok m)
    (ha : applyStageW cfg (stepWidthInc { s with pilots := m, core := markScheduled s.core })
      { s with pilots := m, core := markScheduled s.core } = (s2, none))
    (hok : (stepPass cfg sch s).2 = none)
    (hne : (popCurrent s2.core.iter s2.core.pending).1 ≠ []) :
    (stepPass cfg sch s).1.core.resolve = true := by
  unfold stepPass at hok ⊢
  simp only [hu, ha] at hok ⊢
  exact eventsStage_sets_resolve cfg s2 hok hne

/-- once `_resolve` is set, a whole sequence of `step()` calls — any schedules — leaves the
    simulator where it is: every call returns `event_queue.empty()` and nothing advances -/
theorem steps_stall (cfg : Cfg K) (fuel : Nat) : ∀ (scheds : List (Schedule K)) (s : State K),
    s.core.resolve = true →
    steps cfg fuel scheds s = (s, scheds.map fun _ => (.ok s.core.pending.isEmpty, s.core.iter)) := by
  intro scheds
  induction scheds with
  | nil => intro s _; rfl
  | cons sch rest ih =>
    intro s h
    simp only [steps, step_noop_of_resolve cfg sch fuel s h, ih s h, List.map_cons]

end Acn.Sim
