/-
  The event core IN THE MIDDLE OF A PERIOD (for crash / resume reasoning: C02 resumed runs, JSON round trip of any
  reachable state).  A period aborted after its events stage — by the scheduler, by `_update_schedules`, by
  `update_pilots` — leaves the core in a state `Mid cfg t c`: the events of period `t` have been applied (C01's inner
  invariants `HistOK / PendOK / OccOK` with nothing left to do), `_iteration` is still `t`.  Re-entering the loop from
  such a state pops nothing (every pending event lies in the future, `mid_eventsStage`), and the rest of the period
  carries `Mid` to C01's loop invariant at `t + 1` exactly as in an uninterrupted period (`mid_finish`).
  Imports `EventCoreRun` only, so that it can be used next to `Lemmas/EventCoreSim` and next to `Lemmas/ResumeRun`.
-/
import AcnProofs.Lemmas.EventCoreRun

namespace Acn.EventCore

/-- the core in the middle of period `t`: events applied, pilots not yet -/
structure Mid (cfg : Cfg) (t : Nat) (c : Core) : Prop where
  iter : c.iter = t
  hist : HistOK cfg t [] c.eventHist
  pend : PendOK cfg t [] c.pending
  occ : OccOK cfg t [] c.occ
  evh : EvhOK c

variable {cfg : Cfg}

theorem mid_of_inv (hv : Valid cfg) {t : Nat} {c : Core} (hI : Inv cfg t c) :
    ∃ c1, eventsStage cfg c = (c1, none) ∧ Mid cfg t c1 := by
  obtain ⟨c1, h1, hit, _, hH, hP, hO, hE⟩ := eventsStage_ok hv hI
  exact ⟨c1, h1, hit, hH, hP, hO, hE⟩

theorem Mid.markInvoked {t : Nat} {c : Core} (h : Mid cfg t c) : Mid cfg t (markInvoked c) :=
  ⟨h.iter, h.hist, h.pend, h.occ, h.evh⟩

/-- every pending event of a mid-period state lies in the future -/
theorem Mid.pending_future (hv : Valid cfg) {t : Nat} {c : Core} (h : Mid cfg t c) :
    ∀ e ∈ c.pending, (t : Int) < e.ts := by
  intro e he
  rcases (h.pend.2 e).1 he with ⟨_, hlt⟩ | ⟨x, hx, rfl, hxa, _⟩
  · exact hlt
  · have := hv.arr_lt_dep x hx
    show (t : Int) < x.departure
    omega

/-- re-entering the loop in a mid-period state: nothing is due, nothing changes -/
theorem mid_eventsStage (hv : Valid cfg) {t : Nat} {c : Core} (h : Mid cfg t c) :
    eventsStage cfg c = (c, none) := by
  have hf := h.pending_future hv
  have hit := h.iter
  unfold eventsStage popCurrent
  have h1 : (c.pending.filter fun e => decide (e.ts ≤ (c.iter : Int))) = [] := by
    rw [List.filter_eq_nil_iff]
    intro e he
    have := hf e he
    simp only [decide_eq_true_eq, not_le]
    rw [hit]; exact this
  have h2 : (c.pending.filter fun e => !decide (e.ts ≤ (c.iter : Int))) = c.pending := by
    rw [List.filter_eq_self]
    intro e he
    have := hf e he
    simp only [Bool.not_eq_true', decide_eq_false_iff_not, not_le]
    rw [hit]; exact this
  simp only [h1, h2]
  rfl

/-- the rest of the period: any state that differs from the mid-period state only by `_iteration = t + 1`, a cleared
    `_resolve`, `_last_schedule_update` and the call log satisfies C01's loop invariant at `t + 1` -/
theorem mid_finish (hv : Valid cfg) {t : Nat} {c1 : Core} (h : Mid cfg t c1) (c2 : Core)
    (e1 : c2.iter = t + 1) (e2 : c2.pending = c1.pending) (e3 : c2.occ = c1.occ) (e4 : c2.resolve = false)
    (e5 : c2.eventHist = c1.eventHist) (e6 : c2.evHist = c1.evHist) : Inv cfg (t + 1) c2 := by
  obtain ⟨_, hH, hP, hO, hE⟩ := h
  have hc : ((t + 1 : Nat) : Int) = (t : Int) + 1 := by push_cast; rfl
  refine ⟨e1, e2 ▸ hP.1, ?_, ?_, e4, e5 ▸ hH.1, ?_, e5 ▸ hH.2.2.1, ?_⟩
  · intro e
    rw [e2, hP.2 e, hc, expected_succ hv]
    simp
  · intro st x
    rw [e3, occ_after_events hv hO, hc]
    constructor
    · rintro ⟨a, b, c', d⟩; exact ⟨a, b, by omega, by omega⟩
    · rintro ⟨a, b, c', d⟩; exact ⟨a, b, by omega, by omega⟩
  · intro e
    rw [e5, hH.2.1 e, hc, done_succ hv]
    simp
  · unfold EvhOK at hE ⊢
    rw [e6, e5, hE]

end Acn.EventCore
