/-
  Link lemmas for the run-level `sim_consequences_rampdown`: what preprocessing does to a session for
  ANY option combination — in particular WITH the rampdown estimator, whatever its state is.
  The estimator only lowers `max_rates` (`np.minimum`, preprocessing.py:97-99) and
  `reconcile_max_and_min` lifts it back to `min_rates` (preprocessing.py:100), so the bounds of
  `Derived` (`SortedLink.lean`, equalities, no estimator) weaken to the inequalities of `DerivedW`,
  which is all `grant_to_station` needs.
-/
import AcnProofs.Lemmas.SortedSchedSafe

set_option linter.unusedSectionVars false

namespace Acn.Sorted
open Acn

section
variable {K : Type} [Field K] [LinearOrder K] [IsStrictOrderedRing K]

theorem reconcile_station (s : Session K) : (reconcile s).station = s.station := by
  unfold reconcile; split <;> rfl

/-- what `apply_upper_bound_estimate` (or skipping it) does to one session, for ANY dict of bounds -/
def UbRel (s1 s2 : Session K) : Prop :=
  s2.idx = s1.idx ∧ s2.station = s1.station ∧ s2.requested = s1.requested ∧
  s2.delivered = s1.delivered ∧ s2.minRate = s1.minRate ∧
  s2.maxRate ≤ max s1.maxRate s1.minRate ∧ (s1.maxRate ≤ s2.maxRate ∨ s2.minRate ≤ s2.maxRate)

theorem applyUpperBound_ubRel (bounds : List (String × K)) (l : List (Session K)) :
    ∀ s ∈ applyUpperBound bounds l, ∃ s1 ∈ l, UbRel s1 s := by
  intro s hs
  unfold applyUpperBound at hs
  obtain ⟨s1, h1, rfl⟩ := List.mem_map.mp hs
  refine ⟨s1, h1, ?_⟩
  split
  · rename_i b _
    obtain ⟨g1, _, g3, g4, g5, g6⟩ := reconcile_fields ({ s1 with maxRate := pyMin s1.maxRate b } : Session K)
    refine ⟨g1, reconcile_station _, g4, g5, g3, ?_, Or.inr ?_⟩
    · rw [g6]
      simp only [pyMin_eq_min]
      exact max_le_max (min_le_left _ _) (le_refl _)
    · rw [g6, g3]; exact le_max_right _ _
  · obtain ⟨g1, _, g3, g4, g5, g6⟩ := reconcile_fields s1
    refine ⟨g1, reconcile_station _, g4, g5, g3, ?_, Or.inr ?_⟩
    · rw [g6]
    · rw [g6, g3]; exact le_max_right _ _

theorem ubRel_refl (s : Session K) : UbRel s s :=
  ⟨rfl, rfl, rfl, rfl, rfl, le_max_left _ _, Or.inl (le_refl _)⟩

/-- what preprocessing (ANY options, ANY estimator state) does to a session: identity fields kept,
    bounds within those of the estimator-free preprocessing -/
def DerivedW (infra : Infra K) (period : K) (s0 s : Session K) : Prop :=
  s.idx = s0.idx ∧ s.station = s0.station ∧ s.requested = s0.requested ∧ s.delivered = s0.delivered ∧
  ((s.minRate = s0.minRate ∧
      s.maxRate ≤ max (min s0.maxRate (infra.maxPilot.getD s0.idx 0)) s0.minRate ∧
      (min s0.maxRate (infra.maxPilot.getD s0.idx 0) ≤ s.maxRate ∨ s.minRate ≤ s.maxRate)) ∨
   (s.minRate = 0 ∧ s.maxRate = 0) ∨
   (infra.minPilot.getD s0.idx 0 ≤ rap infra period s0 ∧
    s.minRate = max (infra.minPilot.getD s0.idx 0) s0.minRate ∧ s.minRate ≤ s.maxRate ∧
    s.maxRate ≤ max (min s0.maxRate (infra.maxPilot.getD s0.idx 0)) s.minRate))

theorem derivedW_of_ubRel (infra : Infra K) (period : K) (s0 s2 : Session K)
    (h : UbRel ({ s0 with maxRate := pyMin s0.maxRate (infra.maxPilot.getD s0.idx 0) } : Session K) s2) :
    DerivedW infra period s0 s2 := by
  obtain ⟨u1, u2, u3, u4, u5, u6, u7⟩ := h
  simp only [pyMin_eq_min] at u6 u7
  exact ⟨u1, u2, u3, u4, Or.inl ⟨u5, u6, u7⟩⟩

theorem derivedW_of_minRel (infra : Infra K) (period : K) (s0 s2 s : Session K)
    (h : UbRel ({ s0 with maxRate := pyMin s0.maxRate (infra.maxPilot.getD s0.idx 0) } : Session K) s2)
    (hrel : MinRel infra period s2 s) : DerivedW infra period s0 s := by
  obtain ⟨u1, u2, u3, u4, u5, u6, _⟩ := h
  simp only [pyMin_eq_min] at u6
  simp only at u1 u2 u3 u4 u5
  rcases hrel with rfl | ⟨hrap, rfl⟩
  · exact ⟨u1, u2, u3, u4, Or.inr (Or.inl ⟨rfl, rfl⟩)⟩
  · obtain ⟨g1, _, g3, g4, g5, g6⟩ := reconcile_fields
      ({ s2 with minRate := pyMax (infra.minPilot.getD s2.idx 0) s2.minRate } : Session K)
    simp only [pyMax_eq_max] at g1 g3 g4 g5 g6 ⊢
    refine ⟨g1.trans u1, (reconcile_station _).trans u2, g4.trans u3, g5.trans u4,
      Or.inr (Or.inr ⟨?_, ?_, ?_, ?_⟩)⟩
    · rw [← rap_congr infra period s0 s2 u1 u3 u4, ← u1]; exact hrap
    · rw [g3, u1, u5]
    · rw [g6, g3]; exact le_max_right _ _
    · rw [g6, g3]
      refine max_le (le_trans u6 (max_le (le_max_left _ _) ?_)) (le_max_right _ _)
      rw [u5]
      exact le_trans (le_max_right _ _) (le_max_right _ _)

theorem preprocess_derivedW (feas : List K → Bool) (cfg : Config K) (infra : Infra K) (period : K)
    (prev : String → Option (K × K)) (rd : Rampdown K) (l : List (Session K)) :
    ∀ s ∈ (preprocess feas cfg infra period prev rd l).1, ∃ s0 ∈ l, DerivedW infra period s0 s := by
  have h1 : ∀ s ∈ enforcePilotLimit infra (removeFinished infra period l), ∃ s0 ∈ l,
      s = { s0 with maxRate := pyMin s0.maxRate (infra.maxPilot.getD s0.idx 0) } := by
    intro s hs
    unfold enforcePilotLimit at hs
    obtain ⟨s0, h0, rfl⟩ := List.mem_map.mp hs
    unfold removeFinished at h0
    exact ⟨s0, (List.mem_filter.mp h0).1, rfl⟩
  unfold preprocess
  simp only
  intro s hs
  by_cases hest : cfg.estimate = true <;> by_cases hun : cfg.uninterrupted = true <;>
    simp only [hest, hun, if_true, if_false, Bool.false_eq_true] at hs
  · obtain ⟨s2, hs2, hrel⟩ := forall₂_mem_right (applyMinimumRate_rel feas infra period _) s hs
    rw [mem_sortBy] at hs2
    obtain ⟨s1, hs1, hub⟩ := applyUpperBound_ubRel _ _ s2 hs2
    obtain ⟨s0, h0, rfl⟩ := h1 s1 hs1
    exact ⟨s0, h0, derivedW_of_minRel infra period s0 s2 s hub hrel⟩
  · obtain ⟨s1, hs1, hub⟩ := applyUpperBound_ubRel _ _ s hs
    obtain ⟨s0, h0, rfl⟩ := h1 s1 hs1
    exact ⟨s0, h0, derivedW_of_ubRel infra period s0 s hub⟩
  · obtain ⟨s1, hs1, hrel⟩ := forall₂_mem_right (applyMinimumRate_rel feas infra period _) s hs
    rw [mem_sortBy] at hs1
    obtain ⟨s0, h0, rfl⟩ := h1 s1 hs1
    exact ⟨s0, h0, derivedW_of_minRel infra period s0 _ s (ubRel_refl _) hrel⟩
  · obtain ⟨s0, h0, rfl⟩ := h1 s hs
    exact ⟨s0, h0, derivedW_of_ubRel infra period s0 _ (ubRel_refl _)⟩

theorem applyUpperBound_map_idx (bounds : List (String × K)) (l : List (Session K)) :
    (applyUpperBound bounds l).map (·.idx) = l.map (·.idx) := by
  unfold applyUpperBound
  rw [List.map_map]
  apply List.map_congr_left
  intro s _
  simp only [Function.comp]
  split
  · exact (reconcile_fields _).1
  · exact (reconcile_fields _).1

/-- station indices stay pairwise distinct through preprocessing (ANY options) and the sort -/
theorem order_idx_nodup_any (feas : List K → Bool) (cfg : Config K) (infra : Infra K) (period : K)
    (time : Int) (prev : String → Option (K × K)) (rd : Rampdown K) (l : List (Session K))
    (hnd : (l.map (·.idx)).Nodup) :
    ((sortSessions cfg.sort infra period time
      (preprocess feas cfg infra period prev rd l).1).map (·.idx)).Nodup := by
  have hperm := (sortBy_perm (sortLt cfg.sort infra period time)
    (preprocess feas cfg infra period prev rd l).1).map (·.idx)
  unfold sortSessions
  rw [hperm.nodup_iff]
  have h1 : ((enforcePilotLimit infra (removeFinished infra period l)).map (·.idx)).Nodup := by
    unfold enforcePilotLimit
    rw [List.map_map]
    have : ((fun s : Session K => s.idx) ∘ fun s : Session K =>
        ({ s with maxRate := pyMin s.maxRate (infra.maxPilot.getD s.idx 0) } : Session K)) =
        fun s => s.idx := rfl
    rw [this]
    unfold removeFinished
    exact hnd.sublist (List.filter_sublist.map _)
  have hmin : ∀ l2 : List (Session K), (l2.map (·.idx)).Nodup →
      ((applyMinimumRate feas infra period l2).map (·.idx)).Nodup := by
    intro l2 h2
    rw [minRel_map_idx infra period _ _ (applyMinimumRate_rel feas infra period _)]
    have hp2 := (sortBy_perm (fun a b : Session K => decide (a.remainingTime < b.remainingTime))
      l2).map (fun s : Session K => s.idx)
    rw [hp2.nodup_iff]
    exact h2
  unfold preprocess
  simp only
  by_cases hest : cfg.estimate = true <;> by_cases hun : cfg.uninterrupted = true <;>
    simp only [hest, hun, if_true, if_false, Bool.false_eq_true]
  · exact hmin _ (by rw [applyUpperBound_map_idx]; exact h1)
  · rw [applyUpperBound_map_idx]; exact h1
  · exact hmin _ h1
  · exact h1

end
end Acn.Sorted

namespace Acn.Sorted
open Acn Acn.Evse Acn.EventCore

/-- `grant_to_station` for the weaker `DerivedW`: a grant obeying `GrantOk` for a session that
    preprocessing — with or without estimator — derived from the adapter's session
    (`min_rates = 0`, `max_rates = inf`) has the accepted shape and lies within `[0, remaining demand]` -/
theorem grant_to_station_w (inf : ℝ) (infra : Infra ℝ) (period : ℝ) (kind : Evse.Kind ℝ)
    (hko : KindOk inf kind) (s0 s : Session ℝ) (r : ℝ)
    (hmp : infra.maxPilot.getD s0.idx 0 = SimSorted.boundOr inf (Evse.maxRate kind))
    (hmn : infra.minPilot.getD s0.idx 0 = Evse.minRate kind)
    (hct : infra.cont.getD s0.idx true = Evse.isContinuous kind)
    (hal : infra.allow.getD s0.idx [] = (Evse.allowable kind).map (SimSorted.boundOr inf))
    (hmin0 : s0.minRate = 0) (hmax0 : s0.maxRate = inf)
    (hrap : 0 ≤ rap infra period s0)
    (hd : DerivedW infra period s0 s) (hg : GrantOk infra period s r) :
    Accepts kind r ∧ 0 ≤ r ∧ r ≤ rap infra period s0 := by
  obtain ⟨hidx, _, hreq, hdel, hcases⟩ := hd
  have hraps : rap infra period s = rap infra period s0 := rap_congr infra period s0 s hidx hreq hdel
  obtain ⟨g1, g2, g3⟩ := hg
  rw [hidx] at g1 g2
  rw [hraps] at g1 g3
  cases kind with
  | deadband db m => exact absurd hko (by simp [KindOk])
  | cont mn mx =>
    cases mx with
    | none => exact absurd hko (by simp [KindOk])
    | some m =>
      obtain ⟨hmn0, hm0, hminf⟩ := hko
      simp only [Evse.maxRate, SimSorted.boundOr] at hmp
      simp only [Evse.minRate] at hmn
      simp only [Evse.isContinuous] at hct
      rw [hmn0] at hmn
      -- bounds of the derived session
      have hb : 0 ≤ s.maxRate ∧ s.minRate ≤ s.maxRate ∧ s.maxRate ≤ m ∧ lbOf s = 0 := by
        rcases hcases with ⟨h1, h2, h3⟩ | ⟨h1, h2⟩ | ⟨_, h1, h2, h3⟩
        · rw [hmin0] at h1
          rw [hmax0, hmp, min_eq_right hminf] at h2 h3
          rw [hmin0, max_eq_left hm0] at h2
          rw [h1] at h3
          have h0 : 0 ≤ s.maxRate := by
            rcases h3 with h3 | h3
            · exact le_trans hm0 h3
            · exact h3
          refine ⟨h0, by rw [h1]; exact h0, h2, ?_⟩
          unfold lbOf; rw [h1]; simp
        · refine ⟨by rw [h2], by rw [h1, h2], by rw [h2]; exact hm0, ?_⟩
          unfold lbOf; rw [h1]; simp
        · rw [hmn, hmin0, max_self] at h1
          rw [hmax0, hmp, min_eq_right hminf, h1, max_eq_left hm0] at h3
          rw [h1] at h2
          refine ⟨h2, by rw [h1]; exact h2, h3, ?_⟩
          unfold lbOf; rw [h1]; simp
      obtain ⟨b1, b2, b3, b4⟩ := hb
      obtain ⟨r0, rm⟩ := g1 hct b1 b2 (by rw [hmp]; exact b3) hrap
      rw [hmp] at rm
      refine ⟨⟨le_of_eq hmn0, r0, rm⟩, r0, ?_⟩
      rw [b4] at g3
      exact le_trans g3 (max_le hrap (min_le_right _ _))
  | finite rates =>
    obtain ⟨h0mem, hnn⟩ := hko
    simp only [Evse.isContinuous] at hct
    rw [allowable_finite_map] at hal
    simp only [Evse.minRate] at hmn
    have hr : r ∈ rates := by
      rcases g2 hct with rfl | h
      · exact h0mem
      · rw [hal] at h; exact h
    refine ⟨hr, hnn r hr, ?_⟩
    have hlb : lbOf s ≤ rap infra period s0 := by
      unfold lbOf
      simp only [pyMax_eq_max]
      rcases hcases with ⟨h1, _⟩ | ⟨h1, _⟩ | ⟨hc1, h1, _⟩
      · rw [h1, hmin0]; simpa using hrap
      · rw [h1]; simpa using hrap
      · rw [h1, hmin0]
        exact max_le hrap (max_le hc1 hrap)
    exact le_trans g3 (max_le hlb (min_le_right _ _))

end Acn.Sorted
