/-
  Helper lemmas for C15, the capacity fit (`batt_cap_fn`):
  * `binsearch` — what an answer satisfies (any fuel) and fuel adequacy (any ordered field);
  * structure of `getInitCap` / `battCapFn`;
  * over ℝ: `delta_soc_from_init_soc` is the two-stage flow of `Lemmas/BatteryCont.lean` below the
    transition SoC and a lower bound of it above; the closed-form candidate.
-/
import AcnModel.Sessions
import AcnProofs.Lemmas.Basic
import AcnProofs.Lemmas.BatteryCont
import Mathlib.Tactic

set_option linter.unusedSectionVars false

namespace Acn.SessionsFit
open Acn Acn.Sessions Acn.Battery

/-! ### bisection, any ordered field -/
section bis
variable {K : Type} [Field K] [LinearOrder K] [IsStrictOrderedRing K]

/-- whatever the fuel: an answer lies in the bracket and meets the tolerance -/
theorem binsearch_spec (f : K → K) (target tol : K) :
    ∀ (fuel : Nat) (lb ub s : K), lb ≤ ub → binsearch f target tol fuel lb ub = .ok s →
      lb ≤ s ∧ s ≤ ub ∧ |f s - target| < tol := by
  intro fuel
  induction fuel with
  | zero => intro lb ub s _ h; simp [binsearch] at h
  | succ n ih =>
    intro lb ub s hlu h
    have hmid1 : lb ≤ (lb + ub) / 2 := by linarith
    have hmid2 : (lb + ub) / 2 ≤ ub := by linarith
    simp only [binsearch, Nat.cast_ofNat, absK_eq_abs] at h
    split at h
    · injection h with h; subst h
      exact ⟨hmid1, hmid2, ‹_›⟩
    · split at h
      · obtain ⟨h1, h2, h3⟩ := ih _ _ _ hmid2 h
        exact ⟨le_trans hmid1 h1, h2, h3⟩
      · obtain ⟨h1, h2, h3⟩ := ih _ _ _ hmid1 h
        exact ⟨h1, le_trans h2 hmid2, h3⟩

/-- Fuel adequacy: for a decreasing `f` that loses at most one unit per unit (as
    `delta_soc_from_init_soc` does), bracketing the target, `n+1` levels of recursion suffice once
    `ub − lb < tol·2^(n+1)`. -/
theorem binsearch_terminates (f : K → K) (target tol A B : K)
    (hf : ∀ x y, A ≤ x → x ≤ y → y ≤ B → f y ≤ f x ∧ f x - f y ≤ y - x) :
    ∀ (n : Nat) (lb ub : K), A ≤ lb → lb ≤ ub → ub ≤ B → ub - lb < tol * 2 ^ (n + 1) →
      f ub ≤ target → target ≤ f lb → ∃ s, binsearch f target tol (n + 1) lb ub = .ok s := by
  intro n
  induction n with
  | zero =>
    intro lb ub hA hlu hB hw h1 h2
    have hw' : ub - lb < 2 * tol := by
      have : tol * 2 ^ (0 + 1) = 2 * tol := by ring
      linarith
    have hm1 : lb ≤ (lb + ub) / 2 := by linarith
    have hm2 : (lb + ub) / 2 ≤ ub := by linarith
    have ha := hf lb ((lb + ub) / 2) hA hm1 (le_trans hm2 hB)
    have hb := hf ((lb + ub) / 2) ub (le_trans hA hm1) hm2 hB
    simp only [binsearch, Nat.cast_ofNat, absK_eq_abs]
    have : |f ((lb + ub) / 2) - target| < tol := by
      rw [abs_lt]; constructor <;> linarith [ha.1, ha.2, hb.1, hb.2]
    rw [if_pos this]; exact ⟨_, rfl⟩
  | succ n ih =>
    intro lb ub hA hlu hB hw h1 h2
    have hm1 : lb ≤ (lb + ub) / 2 := by linarith
    have hm2 : (lb + ub) / 2 ≤ ub := by linarith
    have hpow : tol * 2 ^ (n + 1 + 1) = 2 * (tol * 2 ^ (n + 1)) := by ring
    rw [binsearch]
    simp only [Nat.cast_ofNat, absK_eq_abs]
    split
    · exact ⟨_, rfl⟩
    · split
      · rename_i hpos
        exact ih _ _ (le_trans hA hm1) hm2 hB (by linarith) h1 (by linarith)
      · rename_i hpos
        exact ih _ _ hA hm1 (le_trans hm2 hB) (by linarith) (by linarith) h2

end bis

/-! ### structure of `getInitCap` and of the ladder -/
section struct
variable {K : Type} [Field K] [LinearOrder K] [IsStrictOrderedRing K] [HasExp K]

/-- the two ways `_get_init_cap` can produce a non-negative initial charge -/
inductive InitSpec (maxRate ts tol E T V P cap init : K) : Prop
  | closed (h : ts ≤ (closedInitSoc maxRate ts E T V P cap).2.2)
      (hi : init = (closedInitSoc maxRate ts E T V P cap).2.2 * cap)
  | bisect (s : K) (h : ¬ ts ≤ (closedInitSoc maxRate ts E T V P cap).2.2)
      (hfeas : ¬ deltaSocFrom (closedInitSoc maxRate ts E T V P cap).2.1 T ts 0 <
                (closedInitSoc maxRate ts E T V P cap).1)
      (hs1 : s ≤ 1)
      (hlb : ts - (closedInitSoc maxRate ts E T V P cap).2.1 * T ≤ s)
      (htol : |deltaSocFrom (closedInitSoc maxRate ts E T V P cap).2.1 T ts s -
                (closedInitSoc maxRate ts E T V P cap).1| < tol)
      (hi : init = s * cap)

theorem getInitCap_spec {maxRate ts tol E T V P cap init : K} {fuel : Nat}
    (hT : 0 ≤ (closedInitSoc maxRate ts E T V P cap).2.1 * T) (hts : ts ≤ 1)
    (h : getInitCap maxRate ts tol fuel E T V P cap = .ok init) (h0 : 0 ≤ init) :
    InitSpec maxRate ts tol E T V P cap init := by
  unfold getInitCap at h
  simp only at h
  split at h
  · injection h with h
    exact .closed ‹_› h.symm
  · split at h
    · injection h with h
      rw [← h] at h0
      exact absurd h0 (by norm_num)
    · split at h
      · exact absurd h (by simp)
      · rename_i s hs
        injection h with h
        have hle : ts - (closedInitSoc maxRate ts E T V P cap).2.1 * T ≤ 1 := by linarith
        obtain ⟨h1, h2, h3⟩ := binsearch_spec _ _ _ _ _ _ _ hle hs
        exact .bisect s ‹_› ‹_› h2 h1 h3 h.symm

/-- what the ladder loop of `batt_cap_fn` returns -/
theorem battCapFn_spec {maxRate ts tol E T V P cap init : K} {fuel : Nat} :
    ∀ (caps : List K), battCapFn caps maxRate ts tol fuel E T V P = .ok (cap, init) →
      cap ∈ caps ∧ E ≤ cap ∧ getInitCap maxRate ts tol fuel E T V P cap = .ok init ∧ 0 ≤ init := by
  intro caps
  induction caps with
  | nil => intro h; simp [battCapFn] at h
  | cons c cs ih =>
    intro h
    rw [battCapFn] at h
    split at h
    · obtain ⟨h1, h2⟩ := ih h
      exact ⟨List.mem_cons_of_mem _ h1, h2⟩
    · rename_i hc
      split at h
      · exact absurd h (by simp)
      · rename_i i hi
        split at h
        · rename_i h0
          injection h with h
          injection h with h1 h2
          subst h1; subst h2
          exact ⟨List.mem_cons_self, not_lt.mp hc, hi, h0⟩
        · obtain ⟨h1, h2⟩ := ih h
          exact ⟨List.mem_cons_of_mem _ h1, h2⟩

end struct

/-! ### over ℝ: the fit's formulas and the two-stage flow -/
section real
open Acn.BattFlow Real

/-- `max_dsoc`: SoC per period at the fit's maximum rate -/
noncomputable def fitM (mr V P cap : ℝ) : ℝ := mr * V / 1000 / cap / (60 / P)

theorem fitM_pos {mr V P cap : ℝ} (hmr : 0 < mr) (hV : 0 < V) (hP : 0 < P) (hc : 0 < cap) :
    0 < fitM mr V P cap := by unfold fitM; positivity

theorem closed_eq (mr ts E T V P cap : ℝ) :
    closedInitSoc mr ts E T V P cap =
      (E / cap, fitM mr V P cap,
        1 + E / cap / (Real.exp (fitM mr V P cap * T / (ts - 1)) - 1)) := by
  simp [closedInitSoc, fitM, HasExp.exp]

variable {m T ts s δ : ℝ}

theorem expQ_lt_one (hm : 0 < m) (hT : 0 < T) (hts : ts < 1) : Real.exp (m * T / (ts - 1)) < 1 := by
  rw [Real.exp_lt_one_iff]
  exact div_neg_of_pos_of_neg (mul_pos hm hT) (by linarith)

theorem expQ_eq (hts : ts < 1) : Real.exp (-(m / (1 - ts) * T)) = Real.exp (m * T / (ts - 1)) := by
  congr 1
  have h1 : (1 - ts) ≠ 0 := by linarith
  have h2 : (ts - 1) ≠ 0 := by linarith
  field_simp
  ring

/-- above the transition SoC the flow is the pure exponential approach to 1 -/
theorem flow_ramp (hm : 0 < m) (hts : ts < 1) (h1 : ts ≤ s) (_h2 : s ≤ 1) (t : ℝ) :
    flowSoc m (m / (1 - ts)) s t = 1 - (1 - s) * Real.exp (-(m / (1 - ts) * t)) := by
  have h1ts : 0 < 1 - ts := by linarith
  have hw : m / (1 - ts) * (1 - s) / m = (1 - s) / (1 - ts) := by field_simp
  have hw1 : (1 - s) / (1 - ts) ≤ 1 := by rw [div_le_one h1ts]; linarith
  unfold flowSoc
  rw [hw, W_ramp hw1]
  field_simp

/-- below the transition SoC `delta_soc_from_init_soc` is exactly what the battery model takes -/
theorem delta_eq_flow (hm : 0 < m) (hT : 0 < T) (hts : ts < 1) (hs : s < ts) :
    deltaSocFrom m T ts s = flowSoc m (m / (1 - ts)) s T - s := by
  have h := contSoc_eq_flow_t (s := s) (ts := ts) (p0 := m) (m := m) (t := T) hm hm hts hT
  rw [min_self] at h
  rw [← h]
  have hmT : 0 < m * T := mul_pos hm hT
  unfold deltaSocFrom contSoc
  simp only [lt_irrefl, if_false, sub_self, zero_div, zero_mul, add_zero, if_pos hs, HasExp.exp]
  have hiff : T ≤ (ts - s) / m ↔ 1 ≤ (ts - s) / (m * T) := by
    rw [le_div_iff₀ hm, le_div_iff₀ hmT]
    constructor <;> intro h' <;> nlinarith
  by_cases hc : T ≤ (ts - s) / m
  · rw [if_pos hc, if_pos (hiff.mp hc)]; ring
  · rw [if_neg hc, if_neg (fun h' => hc (hiff.mpr h'))]

/-- at and above it, it underestimates what the battery takes -/
theorem delta_le_flow (hm : 0 < m) (hT : 0 < T) (hts : ts < 1) (h1 : ts ≤ s) (h2 : s ≤ 1) :
    deltaSocFrom m T ts s ≤ flowSoc m (m / (1 - ts)) s T - s := by
  have h1ts : 0 < 1 - ts := by linarith
  have hmT : 0 < m * T := mul_pos hm hT
  rw [flow_ramp hm hts h1 h2, expQ_eq hts]
  unfold deltaSocFrom
  have hnot : ¬ T ≤ (ts - s) / m := by
    rw [le_div_iff₀ hm]; nlinarith
  rw [if_neg hnot]
  simp only [HasExp.exp]
  have hsplit : (m * T + s - ts) / (ts - 1) = m * T / (ts - 1) + -((s - ts) / (1 - ts)) := by
    have : (ts - 1) ≠ 0 := by linarith
    field_simp
    ring
  rw [hsplit, Real.exp_add]
  have hv := BattFlow.one_sub_le_exp_neg ((s - ts) / (1 - ts))
  have hQ : 0 < Real.exp (m * T / (ts - 1)) := Real.exp_pos _
  have hv' : (1 - ts) * (1 - (s - ts) / (1 - ts)) = 1 - s := by field_simp; ring
  nlinarith [mul_le_mul_of_nonneg_left hv h1ts.le]

theorem delta_le_free (hm : 0 < m) (hT : 0 < T) (hts : ts < 1) (h2 : s ≤ 1) :
    deltaSocFrom m T ts s ≤ flowSoc m (m / (1 - ts)) s T - s ∧
      flowSoc m (m / (1 - ts)) s T - s ≤ 1 - s := by
  have hκ : 0 < m / (1 - ts) := div_pos hm (by linarith)
  have hb := (flowSoc_bounds (p := m) (κ := m / (1 - ts)) (s := s) (t := T) hm hκ h2 hT.le).2.2
  refine ⟨?_, by linarith⟩
  rcases lt_or_ge s ts with h | h
  · exact le_of_eq (delta_eq_flow hm hT hts h)
  · exact delta_le_flow hm hT hts h h2

/-- the closed-form candidate: at most 1, and exact when it lies in the exponential stage -/
theorem closed_le_one (hm : 0 < m) (hT : 0 < T) (hts : ts < 1) (hδ : 0 ≤ δ) :
    1 + δ / (Real.exp (m * T / (ts - 1)) - 1) ≤ 1 := by
  have := expQ_lt_one hm hT hts
  have : δ / (Real.exp (m * T / (ts - 1)) - 1) ≤ 0 :=
    div_nonpos_of_nonneg_of_nonpos hδ (by linarith)
  linarith

theorem closed_free (hm : 0 < m) (hT : 0 < T) (hts : ts < 1) (hδ : 0 ≤ δ) :
    δ ≤ 1 - (1 + δ / (Real.exp (m * T / (ts - 1)) - 1)) := by
  have hQ1 := expQ_lt_one hm hT hts
  have hQ0 : 0 < Real.exp (m * T / (ts - 1)) := Real.exp_pos _
  have e : 1 - (1 + δ / (Real.exp (m * T / (ts - 1)) - 1)) = δ / (1 - Real.exp (m * T / (ts - 1))) := by
    have : (Real.exp (m * T / (ts - 1)) - 1) ≠ 0 := by linarith
    have : (1 - Real.exp (m * T / (ts - 1))) ≠ 0 := by linarith
    field_simp
    ring
  rw [e, le_div_iff₀ (by linarith)]
  nlinarith

theorem closed_flow (hm : 0 < m) (hT : 0 < T) (hts : ts < 1) (hδ : 0 ≤ δ)
    (h : ts ≤ 1 + δ / (Real.exp (m * T / (ts - 1)) - 1)) :
    flowSoc m (m / (1 - ts)) (1 + δ / (Real.exp (m * T / (ts - 1)) - 1)) T
      - (1 + δ / (Real.exp (m * T / (ts - 1)) - 1)) = δ := by
  have hQ1 := expQ_lt_one hm hT hts
  rw [flow_ramp hm hts h (closed_le_one hm hT hts hδ), expQ_eq hts]
  have : (Real.exp (m * T / (ts - 1)) - 1) ≠ 0 := by linarith
  field_simp
  ring

/-- when the closed-form candidate is below the transition SoC, starting AT the transition SoC
    (or above) cannot take the request -/
theorem flow_lt_target (hm : 0 < m) (hT : 0 < T) (hts : ts < 1)
    (h : ¬ ts ≤ 1 + δ / (Real.exp (m * T / (ts - 1)) - 1)) (h1 : ts ≤ s) (h2 : s ≤ 1) :
    flowSoc m (m / (1 - ts)) s T - s < δ := by
  have hQ1 := expQ_lt_one hm hT hts
  have hQ0 : 0 < Real.exp (m * T / (ts - 1)) := Real.exp_pos _
  rw [flow_ramp hm hts h1 h2, expQ_eq hts]
  have h' : 1 + δ / (Real.exp (m * T / (ts - 1)) - 1) < ts := not_le.mp h
  have hneg : Real.exp (m * T / (ts - 1)) - 1 < 0 := by linarith
  have h3 : δ / (Real.exp (m * T / (ts - 1)) - 1) < ts - 1 := by linarith
  rw [div_lt_iff_of_neg hneg] at h3
  nlinarith

end real

end Acn.SessionsFit
