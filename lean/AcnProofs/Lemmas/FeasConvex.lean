/-
  C06 extra (used by C07/C08): the feasible set of the phase-aware check is convex, hence the
  feasible values of one station's rate form an interval (`IntervalFeasible` for the phasor check).
-/
import AcnModel.Feas
import AcnProofs.Lemmas.FeasSums
import AcnProofs.Lemmas.FeasAgree
import Mathlib.Tactic

namespace Acn.Feas
open Acn
set_option linter.unusedSectionVars false
variable {K : Type} [Field K] [LinearOrder K] [IsStrictOrderedRing K]

/-- the disc `re² + im² ≤ b²` is convex -/
theorem disc_convex {r1 i1 r2 i2 b lam : K} (h1 : r1 ^ 2 + i1 ^ 2 ≤ b ^ 2) (h2 : r2 ^ 2 + i2 ^ 2 ≤ b ^ 2)
    (h0 : 0 ≤ lam) (h1' : lam ≤ 1) :
    (lam * r1 + (1 - lam) * r2) ^ 2 + (lam * i1 + (1 - lam) * i2) ^ 2 ≤ b ^ 2 := by
  have hmu : 0 ≤ 1 - lam := by linarith
  have hx : r1 * r2 + i1 * i2 ≤ b ^ 2 := by nlinarith [sq_nonneg (r1 - r2), sq_nonneg (i1 - i2)]
  have e : (lam * r1 + (1 - lam) * r2) ^ 2 + (lam * i1 + (1 - lam) * i2) ^ 2
      = lam ^ 2 * (r1 ^ 2 + i1 ^ 2) + (1 - lam) ^ 2 * (r2 ^ 2 + i2 ^ 2)
        + 2 * (lam * (1 - lam)) * (r1 * r2 + i1 * i2) := by ring
  rw [e]
  have e2 : b ^ 2 = lam ^ 2 * b ^ 2 + (1 - lam) ^ 2 * b ^ 2 + 2 * (lam * (1 - lam)) * b ^ 2 := by ring
  rw [e2]
  have := mul_le_mul_of_nonneg_left h1 (sq_nonneg lam)
  have := mul_le_mul_of_nonneg_left h2 (sq_nonneg (1 - lam))
  have := mul_le_mul_of_nonneg_left hx (mul_nonneg (by norm_num : (0:K) ≤ 2) (mul_nonneg h0 hmu))
  linarith

/-- pointwise convex combination of two rate vectors -/
def mix (lam : K) (x y : List K) : List K := List.zipWith (fun a b => lam * a + (1 - lam) * b) x y

theorem wsum_mix (lam : K) (row x y z : List K) (h : x.length = y.length) :
    wsum row (mix lam x y) z = lam * wsum row x z + (1 - lam) * wsum row y z := by
  induction row generalizing x y z with
  | nil => simp
  | cons a row ih =>
    cases x with
    | nil =>
      have : y = [] := List.length_eq_zero_iff.mp (by simpa using h.symm)
      subst this; simp [mix]
    | cons p x =>
      cases y with
      | nil => simp at h
      | cons q y =>
        cases z with
        | nil => simp
        | cons w z =>
          have hl : x.length = y.length := by simpa using h
          have := ih x y z hl
          simp only [mix, List.zipWith_cons_cons, wsum_cons] at this ⊢
          rw [this]; ring

/-- **the feasible set of the phase-aware check is convex** (one period): any convex combination
    of two feasible rate vectors is feasible. -/
theorem algFeasible_convex (M : List (List K)) (lims c s : List K) (vt rt : K) (x y : List K)
    (h : x.length = y.length) (lam : K) (h0 : 0 ≤ lam) (h1 : lam ≤ 1)
    (hx : algFeasible M lims c s vt rt x = true) (hy : algFeasible M lims c s vt rt y = true) :
    algFeasible M lims c s vt rt (mix lam x y) = true := by
  rw [algFeasible_eq_rows, List.all_eq_true] at *
  intro p hp
  have a := hx p hp
  have b := hy p hp
  simp only [rowOk, magLe_iff, aggRe_eq, aggIm_eq] at a b ⊢
  refine ⟨a.1, ?_⟩
  rw [wsum_mix lam _ _ _ _ h, wsum_mix lam _ _ _ _ h]
  exact disc_convex a.2 b.2 h0 h1

theorem mix_self (lam : K) (x : List K) : mix lam x x = x := by
  induction x with
  | nil => rfl
  | cons p x ih =>
    simp only [mix, List.zipWith_cons_cons] at ih ⊢
    rw [ih]; congr 1; ring

theorem mix_set (lam : K) (x : List K) (j : Nat) (a b : K) :
    mix lam (x.set j a) (x.set j b) = x.set j (lam * a + (1 - lam) * b) := by
  induction x generalizing j with
  | nil => rfl
  | cons p x ih =>
    cases j with
    | zero =>
      have := mix_self lam x
      simp only [mix, List.set_cons_zero, List.zipWith_cons_cons] at this ⊢
      rw [this]
    | succ j =>
      have := ih j
      simp only [mix, List.set_cons_succ, List.zipWith_cons_cons] at this ⊢
      rw [this]; congr 1; ring

/-- **the feasible values of one coordinate form an interval**: if the rate vector `x` is feasible
    with station `j` at `a` and at `b`, it is feasible with station `j` at every `v ∈ [a, b]`
    (what bisection / the greedy maximum of the sorting algorithms rely on, C08). -/
theorem algFeasible_interval (M : List (List K)) (lims c s : List K) (vt rt : K) (x : List K)
    (j : Nat) (a b v : K) (hav : a ≤ v) (hvb : v ≤ b)
    (ha : algFeasible M lims c s vt rt (x.set j a) = true)
    (hb : algFeasible M lims c s vt rt (x.set j b) = true) :
    algFeasible M lims c s vt rt (x.set j v) = true := by
  rcases eq_or_lt_of_le (le_trans hav hvb) with hab | hab
  · have : v = a := le_antisymm (hab ▸ hvb) hav
    rw [this]; exact ha
  · have hd : 0 < b - a := by linarith
    have key := algFeasible_convex M lims c s vt rt (x.set j a) (x.set j b) (by simp)
      ((b - v) / (b - a)) (div_nonneg (by linarith) hd.le)
      ((div_le_one hd).mpr (by linarith)) ha hb
    rw [mix_set] at key
    have e : (b - v) / (b - a) * a + (1 - (b - v) / (b - a)) * b = v := by
      field_simp; ring
    rwa [e] at key

/-- the hypotheses are satisfiable: station 0 at 0 A and at 10 A are both feasible -/
example : algFeasible [[(1 : ℚ), -1, 0]] [20] [1, 0, 3/5] [0, 1, 4/5] (1/100) 0 ([5, 12, 3].set 0 0) = true ∧
    algFeasible [[(1 : ℚ), -1, 0]] [20] [1, 0, 3/5] [0, 1, 4/5] (1/100) 0 ([5, 12, 3].set 0 10) = true := by
  decide +kernel

end Acn.Feas
