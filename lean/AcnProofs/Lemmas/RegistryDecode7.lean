/-
  Helper lemmas for C09 (registry, decoder 7): `AllRef` is NECESSARY for the JSON round trip — an EV object that is
  reachable from the Simulator is reached through `ev_history`, an EV event or a station, so if the decoder finds all
  `cfg.evs.length` EV objects in the dumped context, every EV object is referenced.
-/
import AcnProofs.Lemmas.RegistryDecode6
import AcnProofs.Lemmas.RegistryDecode5

namespace Acn.RegistrySim
open Acn Acn.EventCore Acn.Sim Acn.Registry
variable {K : Type}

/-- the last edge of a non-trivial path -/
theorem Reach.last {st : Store} {a b : Nat} (h : Reach st a b) :
    a = b ∨ ∃ (i : Nat) (o : Obj), Reach st a i ∧ st.get i = some o ∧ b ∈ o.refs := by
  induction h with
  | refl _ => exact Or.inl rfl
  | @step i j k o hg hj hjk ih =>
    right
    rcases ih with rfl | ⟨i', o', h1, h2, h3⟩
    · exact ⟨i, o, Reach.refl i, hg, hj⟩
    · exact ⟨i', o', Reach.step hg hj h1, h2, h3⟩

theorem evRefVal_refs' (l : Layout) (s : State K) (sid : String) {j : Nat} (h : j ∈ (evRefVal l s sid).refs) :
    ∃ k, evIdx s sid = some k ∧ j = l.evId k := by
  unfold evRefVal at h
  cases hk : evIdx s sid with
  | none => rw [hk] at h; simp at h
  | some k => rw [hk] at h; simp at h; exact ⟨k, rfl, h⟩

theorem evRefItem_refs' (l : Layout) (s : State K) (sid : String) {j : Nat} (h : j ∈ (evRefItem l s sid).refs) :
    ∃ k, evIdx s sid = some k ∧ j = l.evId k := by
  unfold evRefItem at h
  cases hk : evIdx s sid with
  | none => rw [hk] at h; simp [Item.refs] at h
  | some k => rw [hk] at h; simp [Item.refs] at h; exact ⟨k, rfl, h⟩

theorem simObj_refs' (sh : Show K) (cfg : Cfg K) (s : State K) {j : Nat} (h : j ∈ (simObj sh cfg s).refs) :
    j = 1 ∨ j = 2 ∨ (∃ sid ∈ s.core.evHist, ∃ k, evIdx s sid = some k ∧ j = (layout cfg s).evId k) ∨
      (∃ hh, hh < (layout cfg s).nH ∧ j = (layout cfg s).bH + hh) := by
  obtain ⟨a, ha, hj⟩ := (mem_refs_iff _ _).1 h
  simp only [simObj, List.mem_cons, List.not_mem_nil, or_false] at ha
  rcases ha with rfl | rfl | rfl | rfl | rfl | rfl | rfl | rfl | rfl | rfl | rfl | rfl | rfl | rfl | rfl | rfl | rfl <;>
    first | (simp at hj; done) | skip
  · left; simpa using hj
  · right; left; simpa using hj
  · right; right; left
    simp only [refs_list, List.mem_flatMap] at hj
    obtain ⟨it, ⟨sid, hsid, hit⟩, hj⟩ := hj
    simp only [List.mem_cons, List.not_mem_nil, or_false] at hit
    rcases hit with rfl | rfl
    · simp [Item.refs] at hj
    · exact ⟨sid, hsid, evRefItem_refs' _ s sid hj⟩
  · right; right; right
    simp only [refs_list, List.mem_flatMap, List.mem_map, List.mem_range] at hj
    obtain ⟨it, ⟨hh, hlt, rfl⟩, hj⟩ := hj
    simp [Item.refs] at hj
    exact ⟨hh, hlt, hj⟩

theorem evseObj_refs' (sh : Show K) (cfg : Cfg K) (s : State K) (i : Nat) {j : Nat} (h : j ∈ (evseObj sh cfg s i).refs) :
    ∃ x, s.core.occ (cfg.stations.getD i ⟨"", .finite [], cfg.period⟩).id = some x ∧
      ∃ k, evIdx s x.id = some k ∧ j = (layout cfg s).evId k := by
  obtain ⟨a, ha, hj⟩ := (mem_refs_iff _ _).1 h
  have key : ∀ (_ : Nat), j ∈ (match s.core.occ (cfg.stations.getD i ⟨"", .finite [], cfg.period⟩).id with
      | some x => evRefVal (layout cfg s) s x.id | none => sNull).refs →
      ∃ x, s.core.occ (cfg.stations.getD i ⟨"", .finite [], cfg.period⟩).id = some x ∧
        ∃ k, evIdx s x.id = some k ∧ j = (layout cfg s).evId k := by
    intro _ hv
    cases ho : s.core.occ (cfg.stations.getD i ⟨"", .finite [], cfg.period⟩).id with
    | none => rw [ho] at hv; simp at hv
    | some x => rw [ho] at hv; exact ⟨x, rfl, evRefVal_refs' _ s x.id hv⟩
  unfold evseObj at ha
  simp only [] at ha
  split at ha <;> simp only [List.cons_append, List.nil_append, List.mem_cons, List.not_mem_nil, or_false] at ha <;>
    (rcases ha with rfl | rfl | rfl | rfl | ha <;> first | (simp at hj; done) | skip) <;>
    first | exact key 0 hj | (rcases ha with rfl | rfl <;> simp at hj)

theorem eventObj_refs' (l : Layout) (s : State K) (e : Event) {j : Nat} (h : j ∈ (eventObj l s e).refs) :
    e.kind ≠ .recompute ∧ ∃ k, evIdx s e.sess = some k ∧ j = l.evId k := by
  obtain ⟨a, ha, hj⟩ := (mem_refs_iff _ _).1 h
  unfold eventObj at ha
  cases hk : e.kind <;> simp only [hk, List.mem_cons, List.not_mem_nil, or_false] at ha <;>
    rcases ha with rfl | rfl | rfl | rfl <;> first | (simp at hj; done) | skip
  · exact ⟨by simp, evRefVal_refs' l s e.sess hj⟩
  · exact ⟨by simp, evRefVal_refs' l s e.sess hj⟩

/-- a reachable EV object is referenced through one of the sessions of `refSessions` -/
theorem ref_of_reach (sh : Show K) (cfg : Cfg K) (s : State K) {j : Nat} (hj : j < s.evs.length)
    (h : Reach (encode sh cfg s) root ((layout cfg s).evId j)) : ∃ sid ∈ refSessions cfg s, evIdx s sid = some j := by
  have hsz := size_eq cfg s
  have hbE : (layout cfg s).bE = 3 + cfg.stations.length := rfl
  have hbP : (layout cfg s).bP = 3 + cfg.stations.length + 2 * s.evs.length := rfl
  have hbH : (layout cfg s).bH = 3 + cfg.stations.length + 2 * s.evs.length + s.core.pending.length := rfl
  have hnH : (layout cfg s).nH = s.core.eventHist.length := rfl
  have hev : ∀ k, (layout cfg s).evId k = 3 + cfg.stations.length + 2 * k := fun _ => rfl
  have hbt : ∀ k, (layout cfg s).battId k = 3 + cfg.stations.length + 2 * k + 1 := fun _ => rfl
  rcases Reach.last h with h0 | ⟨i, o, hri, hgi, hmem⟩
  · exfalso
    have hr0 : (root : Nat) = 0 := rfl
    rw [hev] at h0; omega
  · have hi : i < (layout cfg s).size := reach_lt sh cfg s (root_lt cfg s) hri
    rw [get_encode, if_pos hi] at hgi
    cases hgi
    unfold objAt at hmem
    simp only [] at hmem
    unfold refSessions
    split_ifs at hmem with c0 c1 c2 c3 c4 c5 c6
    · rcases simObj_refs' sh cfg s hmem with h1 | h1 | ⟨sid, hsid, k, hk, hjk⟩ | ⟨hh, hlt, h1⟩
      · rw [hev] at h1; omega
      · rw [hev] at h1; omega
      · rw [hev, hev] at hjk
        have : k = j := by omega
        exact ⟨sid, List.mem_append_left _ (List.mem_append_left _ hsid), this ▸ hk⟩
      · rw [hev] at h1; omega
    · obtain ⟨k, hk, h1⟩ := netObj_refs cfg hmem
      rw [hev] at h1; omega
    · obtain ⟨p, hp, h1⟩ := queueObj_refs cfg s hmem
      rw [hev] at h1; omega
    · obtain ⟨x, hx, k, hk, hjk⟩ := evseObj_refs' sh cfg s _ hmem
      rw [hev, hev] at hjk
      have hkj : k = j := by omega
      have hil : i - 3 < cfg.stations.length := by omega
      refine ⟨x.id, List.mem_append_right _ (List.mem_filterMap.2 ⟨cfg.stations[i - 3], List.getElem_mem hil, ?_⟩),
        hkj ▸ hk⟩
      have hd : cfg.stations.getD (i - 3) ⟨"", .finite [], cfg.period⟩ = cfg.stations[i - 3] := by
        simp [List.getD, List.getElem?_eq_getElem hil]
      rw [hd] at hx
      rw [hx]; rfl
    · have := evObj_refs sh cfg s _ hmem
      rw [hev, hbt] at this; omega
    · exact absurd hmem (fun h => battObj_refs sh cfg s _ h)
    · obtain ⟨hkind, k, hk, hjk⟩ := eventObj_refs' _ s _ hmem
      rw [hev, hev] at hjk
      have hkj : k = j := by omega
      have hpl : i - (layout cfg s).bP < s.core.pending.length := by omega
      have hd : s.core.pending.getD (i - (layout cfg s).bP) default = s.core.pending[i - (layout cfg s).bP] := by
        simp [List.getD, List.getElem?_eq_getElem hpl]
      rw [hd] at hkind hk
      refine ⟨_, List.mem_append_left _ (List.mem_append_right _ (List.mem_map.2 ⟨_, List.mem_filter.2
        ⟨List.mem_append_left _ (List.getElem_mem hpl), by simpa using hkind⟩, rfl⟩)), hkj ▸ hk⟩
    · obtain ⟨hkind, k, hk, hjk⟩ := eventObj_refs' _ s _ hmem
      rw [hev, hev] at hjk
      have hkj : k = j := by omega
      have hpl : i - (layout cfg s).bH < s.core.eventHist.length := by omega
      have hd : s.core.eventHist.getD (i - (layout cfg s).bH) default = s.core.eventHist[i - (layout cfg s).bH] := by
        simp [List.getD, List.getElem?_eq_getElem hpl]
      rw [hd] at hkind hk
      refine ⟨_, List.mem_append_left _ (List.mem_append_right _ (List.mem_map.2 ⟨_, List.mem_filter.2
        ⟨List.mem_append_right _ (List.getElem_mem hpl), by simpa using hkind⟩, rfl⟩)), hkj ▸ hk⟩

/-- what a successful `decode` has looked up: one EV object per configured EV, and the list of EVs it returns -/
theorem decode_reads_evs {rd : Read K} {cfg : Cfg K} {amb : Ambient} {g : Nat → Option Obj} {s' : State K}
    (h : decode rd cfg amb g = some s') :
    s'.evs.length = cfg.evs.length ∧ ∀ j, j < cfg.evs.length → (g (3 + cfg.stations.length + 2 * j)).isSome = true := by
  unfold decode at h
  obtain ⟨_, _, h⟩ := bind_eq_some' h
  obtain ⟨_, _, h⟩ := bind_eq_some' h
  obtain ⟨_, _, h⟩ := bind_eq_some' h
  obtain ⟨_, _, h⟩ := bind_eq_some' h
  obtain ⟨_, _, h⟩ := bind_eq_some' h
  obtain ⟨_, _, h⟩ := bind_eq_some' h
  obtain ⟨_, _, h⟩ := bind_eq_some' h
  obtain ⟨_, _, h⟩ := bind_eq_some' h
  obtain ⟨_, _, h⟩ := bind_eq_some' h
  obtain ⟨_, _, h⟩ := bind_eq_some' h
  obtain ⟨_, _, h⟩ := bind_eq_some' h
  obtain ⟨_, _, h⟩ := bind_eq_some' h
  obtain ⟨_, _, h⟩ := bind_eq_some' h
  obtain ⟨_, _, h⟩ := bind_eq_some' h
  simp only [] at h
  obtain ⟨evs, hE, h⟩ := bind_eq_some' h
  simp only [Option.pure_def, Option.some.injEq] at h
  have e5 : evs = s'.evs := congrArg (fun x : State K => x.evs) h
  subst e5
  obtain ⟨h1, h2⟩ := sequence_some hE
  refine ⟨by simpa using h1, fun j hj => ?_⟩
  have := h2 j (by simpa using hj)
  simp only [List.getElem?_map, List.getElem?_range hj, Option.map_some] at this
  have hl : j < s'.evs.length := by rw [h1]; simpa using hj
  rw [List.getElem?_eq_getElem hl] at this
  simp only [Option.some.injEq] at this
  unfold decodeEv at this
  cases hg : g (3 + cfg.stations.length + 2 * j) with
  | some o => rfl
  | none => rw [hg] at this; cases this

/-- NECESSITY of `AllRef`: if the dumped context decodes to a state with as many EVs as `s` has, every EV object of
    `s` is referenced -/
theorem allRef_of_roundtrip {sh : Show K} {rd : Read K} {cfg : Cfg K} {s s' : State K} {amb : Ambient} {ctx : Store}
    (hd : dump (encode sh cfg s) root = .ok ctx) (h : decode rd cfg amb ctx.get = some s')
    (hlen : s'.evs.length = s.evs.length) : AllRef cfg s := by
  obtain ⟨ctx', hd', hs⟩ := dump_spec (encode_acyclic sh cfg s) (encode_closed sh cfg s)
  rw [hd] at hd'
  cases hd'
  obtain ⟨h1, h2⟩ := decode_reads_evs h
  intro j hj
  have hsome := h2 j (by omega)
  obtain ⟨o, ho⟩ := Option.isSome_iff_exists.1 hsome
  have hr : Reach (encode sh cfg s) root ((layout cfg s).evId j) := (hs.reach _).1 (key_of_get ho)
  exact ref_of_reach sh cfg s hj hr

end Acn.RegistrySim
