/-
  Helper lemma for C11: along any run of the specification in which every inserted key is
  ≥ the last retrieved key, the retrieved events are non-decreasing.
-/
import AcnModel.Queue
import AcnProofs.Lemmas.QueueSpec
import Mathlib.Tactic

namespace Acn
open QSpec

theorem pairwise_le_getLast {es : List Event} (h : es.Pairwise KeyLe) {l : Event}
    (hl : es.getLast? = some l) : ∀ a ∈ es, KeyLe a l := by
  intro a ha
  induction es with
  | nil => simp at ha
  | cons x xs ih =>
    rw [List.pairwise_cons] at h
    cases xs with
    | nil =>
      simp at hl ha; subst hl; subst ha; exact keyLt_irrefl _
    | cons y ys =>
      have hl' : (y :: ys).getLast? = some l := by simpa [List.getLast?_cons_cons] using hl
      rcases List.mem_cons.mp ha with rfl | ha
      · exact h.1 l (List.mem_of_getLast? hl')
      · exact ih h.2 hl' ha

/-- generalised over the most recent retrieval `last` before the trace: all pending events
    are ≥ `last`; then the retrievals are sorted and all ≥ `last`. -/
theorem run_sorted {s s' : State} {tr : List (QOp × QOut)} (h : Run s tr s') :
    ∀ last : Option Event, (∀ l, last = some l → ∀ x ∈ s.pending, KeyLe l x) →
      wellTimed last tr →
      (retrieved tr).Pairwise KeyLe ∧ ∀ l, last = some l → ∀ r ∈ retrieved tr, KeyLe l r := by
  induction h with
  | nil s => intro last _ _; simp [retrieved]
  | @cons s op out s1 tr s2 hstep _ ih =>
    intro last hb hwt
    cases hstep with
    | add e =>
      simp only [wellTimed] at hwt
      simp only [retrieved]
      apply ih last _ hwt.2
      intro l hl x hx
      rcases List.mem_append.mp hx with hx | hx
      · exact hb l hl x hx
      · simp at hx; subst hx; exact hwt.1 l hl
    | addAll es =>
      simp only [wellTimed] at hwt
      simp only [retrieved]
      apply ih last _ hwt.2
      intro l hl x hx
      rcases List.mem_append.mp hx with hx | hx
      · exact hb l hl x hx
      · exact hwt.1 l hl x hx
    | getEmpty hs =>
      simp only [wellTimed] at hwt
      simp only [retrieved]
      exact ih last hb hwt
    | get e hmin =>
      simp only [wellTimed] at hwt
      simp only [retrieved]
      have := ih (some e) (by
        intro l hl x hx; simp at hl; subst hl
        exact hmin.2 x (List.mem_of_mem_erase hx)) hwt
      refine ⟨List.pairwise_cons.mpr ⟨fun r hr => this.2 e rfl r hr, this.1⟩, ?_⟩
      intro l hl r hr
      have hle : KeyLe l e := hb l hl e hmin.1
      rcases List.mem_cons.mp hr with rfl | hr
      · exact hle
      · exact keyLe_trans l e r hle (this.2 e rfl r hr)
    | cur t es q' hcur =>
      simp only [wellTimed] at hwt
      simp only [retrieved]
      obtain ⟨hperm, hsorted, _⟩ := hcur.spec
      cases hgl : es.getLast? with
      | none =>
        have hes : es = [] := List.getLast?_eq_none_iff.mp hgl
        subst hes
        rw [hgl] at hwt
        simp only [List.nil_append]
        apply ih last _ hwt
        intro l hl x hx
        exact hb l hl x (hcur.rest x hx).1
      | some g =>
        rw [hgl] at hwt
        have hg : g ∈ es := List.mem_of_getLast? hgl
        have := ih (some g) (by
          intro l hl x hx; simp at hl; subst hl
          have hx' := hcur.rest x hx
          have hgt := hcur.ts_le g hg
          show x.keyLt g = false
          rw [keyLt_false_iff]; left; omega) hwt
        refine ⟨?_, ?_⟩
        · rw [List.pairwise_append]
          refine ⟨hsorted, this.1, ?_⟩
          intro a ha b hb'
          exact keyLe_trans a g b (pairwise_le_getLast hsorted hgl a ha) (this.2 g rfl b hb')
        · intro l hl r hr
          rcases List.mem_append.mp hr with hr | hr
          · exact hb l hl r (hcur.subset_left r hr)
          · exact keyLe_trans l g r (hb l hl g (hcur.subset_left g hg)) (this.2 g rfl r hr)
    | len => simp only [wellTimed] at hwt; simp only [retrieved]; exact ih last hb hwt
    | empty => simp only [wellTimed] at hwt; simp only [retrieved]; exact ih last hb hwt
    | last => simp only [wellTimed] at hwt; simp only [retrieved]; exact ih last hb hwt
    | roundtrip w h1 h2 => simp only [wellTimed] at hwt; simp only [retrieved]; exact ih last hb hwt

end Acn
