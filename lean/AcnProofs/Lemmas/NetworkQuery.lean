/-
  Helper lemmas for C12: row selection of `constraint_current`, and small invariants of the
  operations that do not need the specification.
-/
import AcnProofs.Lemmas.NetworkAlign

set_option linter.unusedSectionVars false
set_option linter.unusedSimpArgs false

namespace Acn.Network

section select
variable {α : Type}

/-- `matrix[list(range(len))]` is the matrix -/
theorem mapM_range' (pre rows : List α) :
    (List.range' pre.length rows.length).mapM (fun i => (pre ++ rows)[i]?) = some rows := by
  induction rows generalizing pre with
  | nil => simp
  | cons r rs ih =>
    have h := ih (pre ++ [r])
    simp only [List.length_append, List.length_singleton, List.append_assoc, List.singleton_append]
      at h
    simp [List.range'_succ, List.mapM_cons, h]

theorem mapM_range (rows : List α) :
    (List.range rows.length).mapM (fun i => rows[i]?) = some rows := by
  have := mapM_range' ([] : List α) rows
  simpa [List.range_eq_range'] using this

end select

section
variable {K : Type} [Zero K]

/-- which constraints a name list selects (`None` selects all) -/
def selName (names : Option (List String)) (t : Constraint K) : Bool :=
  match names with
  | none => true
  | some ns => decide (t.name ∈ ns)

/-- fancy row indexing by the positions of the requested names returns the requested
    constraints' rows in network order -/
theorem mapM_zipIdx_filter {β : Type} (f : Constraint K → β) (names : List String)
    (pre : List β) (cons : List (Constraint K)) :
    ((((cons.map (·.name)).zipIdx pre.length).filter (fun p => decide (p.1 ∈ names))).map
        (·.2)).mapM (fun i => (pre ++ cons.map f)[i]?) =
      some ((cons.filter (fun t => decide (t.name ∈ names))).map f) := by
  induction cons generalizing pre with
  | nil => simp
  | cons t ts ih =>
    have h := ih (pre ++ [f t])
    simp only [List.length_append, List.length_singleton, List.append_assoc, List.singleton_append]
      at h
    by_cases hn : t.name ∈ names
    · simp [List.zipIdx_cons, List.filter_cons, hn, List.mapM_cons, h]
    · simp [List.zipIdx_cons, List.filter_cons, hn, h]

theorem select_rows {β : Type} (f : Constraint K → β) (names : Option (List String))
    (cons : List (Constraint K)) :
    (Net.constraintIndices (cons.map (·.name)) names).mapM (fun i => (cons.map f)[i]?) =
      some ((cons.filter (selName names)).map f) := by
  cases names with
  | none =>
    have := mapM_range (cons.map f)
    simp only [List.length_map] at this
    have hf : cons.filter (selName none) = cons := List.filter_eq_self.mpr (fun _ _ => rfl)
    simp only [Net.constraintIndices, List.length_map, this, hf]
  | some ns =>
    have := mapM_zipIdx_filter f ns [] cons
    have hs : (selName (some ns) : Constraint K → Bool) = fun t => decide (t.name ∈ ns) := rfl
    rw [hs]
    simpa [Net.constraintIndices] using this

end

/-! ### invariants of the code's operations alone -/
section
variable {K : Type} [Zero K]

theorem addConstraint_isSome (n : Net K) (c : Current K) (l : K) (nm : Option String)
    (h : (n.addConstraint c l nm).2 = none) : (n.addConstraint c l nm).1.matrix.isSome = true := by
  unfold Net.addConstraint at h ⊢
  by_cases hk : c.keys.all (fun k => decide (k ∈ n.stations)) = true
  · rw [if_pos hk] at h ⊢
    by_cases hl : (n.matrix.getD []).length ≠ n.index.length
    · rw [if_pos hl] at h; cases h
    · rw [if_neg hl]
      split <;> rfl
  · rw [if_neg hk] at h; cases h

theorem step_isSome (n : Net K) (o : Op K) (h : n.matrix.isSome = true) :
    (n.step o).1.matrix.isSome = true := by
  have hadd : ∀ (m : Net K) c l nm, m.matrix.isSome = true →
      (m.addConstraint c l nm).1.matrix.isSome = true := by
    intro m c l nm hm
    unfold Net.addConstraint
    by_cases hk : c.keys.all (fun k => decide (k ∈ m.stations)) = true
    · rw [if_pos hk]
      by_cases hl : (m.matrix.getD []).length ≠ m.index.length
      · rw [if_pos hl]; exact hm
      · rw [if_neg hl]; split <;> rfl
    · rw [if_neg hk]; exact hm
  have hrem : ∀ (m : Net K) nm, m.matrix.isSome = true →
      (m.removeConstraint nm).1.matrix.isSome = true := by
    intro m nm hm
    unfold Net.removeConstraint
    by_cases hin : nm ∈ m.index
    · rw [if_pos hin]
      cases hmm : m.matrix with
      | none => rw [hmm] at hm; cases hm
      | some rows => rfl
    · rw [if_neg hin]; exact hm
  cases o with
  | register s =>
    simp only [Net.step, Net.register, h, if_true]
  | add c l nm => exact hadd n c l nm h
  | remove nm => exact hrem n nm h
  | update nm c l nn =>
    simp only [Net.step, Net.updateConstraint]
    by_cases hin : nm ∈ n.index
    · rw [if_pos hin]
      have h1 := hrem n nm h
      rcases hr : n.removeConstraint nm with ⟨n1, e1⟩
      rw [hr] at h1
      cases e1 with
      | some e => exact h1
      | none => exact hadd n1 c l _ h1
    · rw [if_neg hin]; exact h

theorem run_isSome (n : Net K) (ops : List (Op K)) (h : n.matrix.isSome = true) :
    (n.run ops).matrix.isSome = true := by
  induction ops generalizing n with
  | nil => exact h
  | cons o os ih => exact ih _ (step_isSome n o h)

end
end Acn.Network
