/-
  Capstone helper (3/3):
    * `RunAccounts` — everything C01, C02 and C18 say about the state a COMPLETE simulation leaves behind, as one
      record, and `complete_run_accounts`: it holds for every `Valid` scenario, every scheduler, every run that
      raised nothing (composition of `C01.sim_run_C01`, `Ledger.run_iinv`, `C02.*`, `C18Sim.*`);
    * `site_column_within_ratings` / `simple_column_within_cap` — a pilot column that passes the algorithm-side
      feasibility check (`SimSorted.feasOf`, the predicate of C07's `ColOk`) of a site network / a `simple_acn`
      network keeps every transformer within its rating (C06 `alg1_eq_net` + C16).
-/
import AcnProofs.C18Sim
import AcnProofs.C16
import AcnProofs.C16Simple
import AcnProofs.Lemmas.FeasAgree

set_option linter.unusedSectionVars false
set_option linter.unusedVariables false

namespace Acn.Capstone
open Acn Acn.Analysis Acn.AnalysisSim Acn.Sim Acn.Ledger Acn.EventCore Finset

section accounts
variable {K : Type} [Field K] [LinearOrder K] [IsStrictOrderedRing K] [HasExp K]

/-- what a complete run leaves behind: termination and event discipline (C01), connection intervals (C01/C02),
    energy ledger (C02), analysis = ledger (C18).  `start` is the simulation's start instant on the time axis of
    `datetimes_array` (minutes). -/
structure RunAccounts (cfg : Cfg K) (s : State K) (start : K) : Prop where
  /-- C01: the event queue is empty … -/
  queue_empty : s.core.pending = []
  /-- … after exactly `horizon` = (last event time + 1) periods … -/
  iter_eq : s.core.iter = horizon cfg.core
  /-- … with every station vacated; -/
  vacant : ∀ st, s.core.occ st = none
  /-- one plug-in (at the arrival) and one unplug (at the departure) per session in `event_history`, key-sorted -/
  once : ∀ x ∈ cfg.core.sessions,
    s.core.eventHist.filter (fun e => e.kind == .plugin && e.sess == x.id) = [plugEv x] ∧
    s.core.eventHist.filter (fun e => e.kind == .unplug && e.sess == x.id) = [unplugEv x]
  sorted : s.core.eventHist.Pairwise (fun a b => a.keyLe b = true)
  /-- the occupancy snapshot every period takes at `post_charging_update`: station number `i` holds session `id`
      in period `τ` iff `τ` is a simulated period and `id` is a session of that station with
      `arrival ≤ τ < departure` — every session is connected in exactly `[arrival, departure)` -/
  connected : ∀ τ i id, occAt s.occLog τ i = some id ↔
    τ < horizon cfg.core ∧ ∃ st e, cfg.stations[i]? = some st ∧ e ∈ cfg.evs ∧ e.session = id ∧
      e.station = st.id ∧ e.arrival ≤ (τ : Int) ∧ (τ : Int) < e.departure
  /-- C02: each session's energy counter = Σ over its connection interval of its station's recorded rate
      · V / 1000 · period / 60, = the charge its battery gained -/
  session_energy : ∀ id e0 e, evIn cfg.evs id = some e0 → evIn s.evs id = some e →
    e.delivered - e0.delivered =
      ∑ τ ∈ Finset.Ico e0.arrival.toNat e0.departure.toNat,
        s.rates.get (stationIndex cfg e0.station) τ * volt cfg (stationIndex cfg e0.station) / 1000
          * (cfg.period / 60) ∧
    e.delivered - e0.delivered = e.batt.charge - e0.batt.charge
  /-- C18: `ev_history` holds every EV of the scenario; `total_energy_delivered(sim)` = Σ of the session counters
      = the integral of `aggregate_power(sim)` over the horizon -/
  history : (histEvs s).Perm (allEvs s)
  total_eq_counters : totalDeliveredSim s = (s.evs.map (·.delivered)).sum
  total_eq_integral : totalDeliveredSim s =
    ∑ τ ∈ range (horizon cfg.core), (aggregatePowerSim cfg s).getD τ 0 * (cfg.period / 60)
  /-- `Simulator.peak` bounds `aggregate_current(sim)`; `datetimes_array(sim)` has one entry per period, no warning -/
  peak : 0 ≤ s.peak ∧ ∀ t, (aggregateCurrentSim s).getD t 0 ≤ s.peak
  datetimes : (datetimesSim start cfg s).length = horizon cfg.core ∧ warnsUnfinished s = false

/-- C01 ∘ C02 ∘ C18 on one complete run -/
theorem complete_run_accounts (cfg : Cfg K) (hn : StationsNodup cfg) (hv : Valid cfg.core)
    (hfresh : ∀ e ∈ cfg.evs, e.delivered = 0) (start : K)
    (sched : View K → Except EventCore.Err (Schedule K)) (n : Nat) (hN : horizon cfg.core ≤ n)
    (s : State K) (h : Sim.run cfg sched n (Sim.init cfg) = (s, none)) : RunAccounts cfg s start := by
  have hid : (cfg.evs.map (·.session)).Nodup := by
    have := hv.ids_nodup
    simpa [Cfg.core, sessionOf, List.map_map, Function.comp_def] using this
  have c01 := C01.sim_run_C01 cfg sched hv n hN (by rw [h])
  rw [h] at c01
  obtain ⟨k1, k2, k3, k4, k5⟩ := c01
  have hI := run_iinv hn hv sched n _ s (init_iinv cfg hv) h
  obtain ⟨t1, t2⟩ := C18Sim.sim_total_energy_complete cfg hn hid hfresh hv sched n hN s h
  obtain ⟨p0, p1, _⟩ := C18Sim.sim_peak_is_max_aggregate_current cfg hn sched n s h
  refine ⟨k1, k2, k3, k4, k5, ?_, ?_, t1, ?_, t2, ⟨p0, p1⟩, C18Sim.sim_datetimes_complete start cfg hv sched n hN s h⟩
  · intro τ i id
    rw [hI.log τ i id, k2]
    constructor
    · rintro ⟨hτ, st, x, hst, hx, hxi, hxs, ha, hd⟩
      obtain ⟨e, he, rfl⟩ := List.mem_map.1 hx
      exact ⟨hτ, st, e, hst, he, hxi, hxs, ha, hd⟩
    · rintro ⟨hτ, st, e, hst, he, hxi, hxs, ha, hd⟩
      exact ⟨hτ, st, sessionOf e, hst, List.mem_map.2 ⟨e, he, rfl⟩, hxi, hxs, ha, hd⟩
  · intro id e0 e h0 he
    exact ⟨C02.session_energy_interval_complete cfg hn hv sched n hN s h id e0 e h0 he,
      C02.sim_energy_eq_battery_gain cfg hn sched n s h id e0 e h0 he⟩
  · unfold totalDeliveredSim
    rw [totalDelivered_perm t1]
    exact (C18Sim.sim_total_energy_eq_integral cfg hn hid hfresh sched n s h).1

end accounts

/-! ### feasible column ⇒ transformer within its rating -/

section ratings
open Acn.Feas Acn.Sites Acn.Gen.Sites

variable {K : Type} [Field K] [LinearOrder K] [IsStrictOrderedRing K]

/-- what the sorted algorithms see of a site network `T` (constraint matrix, limits, phasors of `netOf`) -/
def siteNetInfo (T : Topo) (r vt rt : K) (caps : List K) : SimSorted.NetInfo K :=
  { M := (netOf T r caps).M, lims := (netOf T r caps).lims, cos := (netOf T r caps).c, sin := (netOf T r caps).s,
    vt := vt, rt := rt }

theorem groupSum_zero (E : List Nat) (x : List K) (hx : ∀ j, x.getD j 0 = 0) : groupSum E x = 0 := by
  unfold groupSum
  rw [Analysis.sumK_eq_sum]
  apply List.sum_eq_zero
  intro v hv
  obtain ⟨j, _, rfl⟩ := List.mem_map.1 hv
  exact hx j

/-- a NON-EMPTY rate vector `x` (one entry per station of `T`) that passes the algorithm-side check of the site
    network, or is all zero: every transformer's summed current, at 120·r volts (r·r = 3), is at most the
    transformer's capacity parameter [kW → W] plus the declared tolerance -/
theorem site_column_within_ratings (T : Topo) (hT : topoOk T = true) (r vt rt : K) (hr : r * r = 3)
    (hvt : 0 ≤ vt) (caps : List K) (hcaps : ∀ c ∈ caps, 0 ≤ c) (x : List K) (hlen : x.length = nStations T)
    (hne : x ≠ [])
    (hx : SimSorted.feasOf (siteNetInfo T r vt rt caps) x = true ∨ ∀ j, x.getD j 0 = 0)
    (xf : Xfmr) (hxf : xf ∈ T.xfmrs) :
    ∃ k ops, xfmrCap T xf = some (k, ops) ∧
      120 * r * groupSum xf.sec.evses x
        ≤ caps.getD k 0 * 1000 + 360 * tolOf vt rt (caps.getD k 0 * 1000 / 360) := by
  have hS : (x.map fun v => [v]).length = nStations T := by rw [List.length_map, hlen]
  have hp : periods (x.map fun v => [v]) = 1 := by
    cases x with
    | nil => exact absurd rfl hne
    | cons y x => simp [periods]
  have hc : Sites.period (x.map fun v => [v]) 0 = x := by
    simp [Sites.period, col, List.map_map, Function.comp_def]
  rcases hx with hx | hx
  · have hfe : feasible T r vt rt caps (x.map fun v => [v]) = true := by
      unfold feasible
      simp only
      rw [← alg1_eq_net _ _ _ _ _ _ x hne]
      exact hx
    obtain ⟨k, ops, h1, h2⟩ := C16.site_power_bound T hT xf hxf r vt rt hr caps _ hS hfe 0 (by rw [hp]; exact Nat.one_pos)
    rw [hc] at h2
    exact ⟨k, ops, h1, h2⟩
  · have G := SitesMain.topoFacts_of T hT
    obtain ⟨_, k, ops, N, D, hcap, _⟩ := SitesXfmr.xfmrFacts_of T xf (G.xf xf hxf)
    refine ⟨k, ops, hcap, ?_⟩
    rw [groupSum_zero _ _ hx, mul_zero]
    have hc0 : 0 ≤ caps.getD k 0 := by
      by_cases hk : k < caps.length
      · rw [List.getD_eq_getElem?_getD, List.getElem?_eq_getElem hk]; exact hcaps _ (List.getElem_mem hk)
      · rw [List.getD_eq_getElem?_getD, List.getElem?_eq_none (by omega)]; exact le_refl _
    have ht : 0 ≤ tolOf vt rt (caps.getD k 0 * 1000 / 360) := by
      unfold tolOf; rw [pyMax_eq_max]; exact le_trans hvt (le_max_left _ _)
    positivity

end ratings

section simple
open Acn.Feas Acn.SimpleAcn Acn.Gen.SimpleAcn Acn.SimpleAcnLemmas

variable {K : Type} [Field K] [LinearOrder K] [IsStrictOrderedRing K]

/-- what the sorted algorithms see of `simple_acn(ids, voltage, cap)`: one row of ones, limit `cap/voltage·1000` A -/
def simpleNetInfo (n : Nat) (voltage cap vt rt : K) : SimSorted.NetInfo K :=
  { M := [List.replicate n 1], lims := [cap / voltage * 1000], cos := List.replicate n 1,
    sin := List.replicate n 0, vt := vt, rt := rt }

/-- the network-side check of `simple_acn` IS `netFeasible` on these arrays -/
theorem simpleFeasible_eq (ids : List String) (voltage cap vt rt : K) (hv : voltage ≠ 0) (S : List (List K)) :
    simpleFeasible ids voltage cap vt rt S = .ok (netFeasible [List.replicate ids.length 1] [cap / voltage * 1000]
      (List.replicate ids.length 1) (List.replicate ids.length 0) vt rt S) := by
  simp only [simpleFeasible, C16.simple_acn_structure ids voltage cap hv, bind, Except.bind, netFeasible0]
  rw [if_pos (by simp [isZero_zero])]
  simp only [map_const_eq, List.length_replicate]

/-- a non-empty rate vector that passes the algorithm-side check of a `simple_acn` network, or is all zero, draws at
    most the aggregate capacity [kW] plus the declared tolerance -/
theorem simple_column_within_cap (ids : List String) (voltage cap vt rt : K) (hv : 0 < voltage) (hcap : 0 ≤ cap)
    (hvt : 0 ≤ vt) (x : List K) (hlen : x.length = ids.length) (hne : x ≠ [])
    (hx : SimSorted.feasOf (simpleNetInfo ids.length voltage cap vt rt) x = true ∨ ∀ j, x.getD j 0 = 0) :
    voltage * (x.sum) / 1000 ≤ cap + voltage * max vt (rt * (cap / voltage * 1000)) / 1000 := by
  have hS : (x.map fun v => [v]).length = ids.length := by rw [List.length_map, hlen]
  have hp : periods (x.map fun v => [v]) = 1 := by
    cases x with
    | nil => exact absurd rfl hne
    | cons y x => simp [periods]
  have hc : col (x.map fun v => [v]) 0 = x := by
    simp [col, List.map_map, Function.comp_def]
  have hpow : powerKW voltage (x.map fun v => [v]) 0 = voltage * x.sum / 1000 := by
    unfold powerKW total
    rw [hc, Analysis.sumK_eq_sum]
    norm_num
  rcases hx with hx | hx
  · have hfe : simpleFeasible ids voltage cap vt rt (x.map fun v => [v]) = .ok true := by
      rw [simpleFeasible_eq ids voltage cap vt rt hv.ne', ← alg1_eq_net _ _ _ _ _ _ x hne]
      exact congrArg Except.ok hx
    have := C16.simple_acn_power_le_cap ids voltage cap vt rt hv _ hS hfe 0 (by rw [hp]; exact Nat.one_pos)
    rw [hpow] at this
    exact this
  · have h0 : x.sum = 0 := by
      apply List.sum_eq_zero
      intro v hvm
      obtain ⟨j, hj, rfl⟩ := List.getElem_of_mem hvm
      have := hx j
      rw [List.getD_eq_getElem?_getD, List.getElem?_eq_getElem hj] at this
      exact this
    rw [h0, mul_zero, zero_div]
    have : 0 ≤ max vt (rt * (cap / voltage * 1000)) := le_trans hvt (le_max_left _ _)
    positivity

end simple

end Acn.Capstone
