/-
  Helper lemmas for C02 (1/4): the ledger law of one `charge` call, for each battery model, and
  of `EV.charge`; sequences of calls.

  Pure algebra: the two-stage laws are never looked into — only that the code computes the
  returned rate and the stored charge from the SAME power / dsoc value.  `HasExp K` is an
  arbitrary function here.
-/
import AcnModel.Battery
import AcnModel.Evse
import AcnProofs.Lemmas.Basic
import Mathlib.Tactic

set_option linter.unusedSectionVars false

namespace Acn.Ledger
open Acn Acn.Battery Acn.Evse

variable {K : Type} [Field K] [LinearOrder K] [IsStrictOrderedRing K]

/-- energy [kWh] carried by current `r` [A] at voltage `V` [V] during one period of `T` minutes,
    with the operation order of ev.py:142 -/
def energy (r V T : K) : K := (r * V) / (1000 : K) * (T / (60 : K))

theorem energy_zero (V T : K) : energy 0 V T = 0 := by simp [energy]

/-- the guards of every `charge`: a successful call had `V > 0` and `T > 0` -/
theorem ideal_guards {b b' : Batt K} {pilot V T r : K} (h : idealCharge b pilot V T = .ok (b', r)) :
    0 < V ∧ 0 < T := by
  unfold idealCharge at h
  split at h
  · simp at h
  · split at h
    · simp at h
    · exact ⟨not_le.mp ‹_›, not_le.mp ‹_›⟩

theorem ideal_ledger {b b' : Batt K} {pilot V T r : K} (h : idealCharge b pilot V T = .ok (b', r)) :
    b'.charge - b.charge = energy r V T := by
  have hg := ideal_guards h
  unfold idealCharge at h
  rw [if_neg (not_le.mpr hg.1), if_neg (not_le.mpr hg.2)] at h
  simp only [Except.ok.injEq, Prod.mk.injEq] at h
  obtain ⟨rfl, rfl⟩ := h
  have hV : V ≠ 0 := ne_of_gt hg.1
  simp only [energy]
  push_cast
  field_simp
  ring

theorem step_guards {b b' : Batt K} {pilot V T ν r : K} (h : stepCharge b pilot V T ν = .ok (b', r)) :
    0 < V ∧ 0 < T := by
  unfold stepCharge at h
  split at h
  · simp at h
  · split at h
    · simp at h
    · exact ⟨not_le.mp ‹_›, not_le.mp ‹_›⟩

theorem step_ledger {b b' : Batt K} {pilot V T ν r : K} (h : stepCharge b pilot V T ν = .ok (b', r)) :
    b'.charge - b.charge = energy r V T := by
  have hg := step_guards h
  unfold stepCharge at h
  rw [if_neg (not_le.mpr hg.1), if_neg (not_le.mpr hg.2)] at h
  split at h
  · simp at h
  · simp only [Except.ok.injEq, Prod.mk.injEq] at h
    obtain ⟨rfl, rfl⟩ := h
    have hV : V ≠ 0 := ne_of_gt hg.1
    simp only [energy]
    push_cast
    field_simp
    ring

section
variable [HasExp K]

theorem cont_guards {b b' : Batt K} {pilot V T ν r : K} (h : contCharge b pilot V T ν = .ok (b', r)) :
    0 < V ∧ 0 < T := by
  unfold contCharge at h
  split at h
  · simp at h
  · split at h
    · simp at h
    · exact ⟨not_le.mp ‹_›, not_le.mp ‹_›⟩

theorem isZero_iff (x : K) : isZero x = true ↔ x = 0 := by
  simp only [isZero, Bool.and_eq_true, decide_eq_true_eq]
  constructor
  · rintro ⟨h1, h2⟩; exact le_antisymm h2 h1
  · rintro rfl; exact ⟨le_refl _, le_refl _⟩

theorem cont_ledger {b b' : Batt K} {pilot V T ν r : K} (h : contCharge b pilot V T ν = .ok (b', r)) :
    b'.charge - b.charge = energy r V T := by
  have hg := cont_guards h
  unfold contCharge at h
  rw [if_neg (not_le.mpr hg.1), if_neg (not_le.mpr hg.2)] at h
  by_cases hp : isZero pilot = true
  · -- zero pilot: early return, nothing is written but the power
    rw [if_pos hp] at h
    simp only [Except.ok.injEq, Prod.mk.injEq] at h
    obtain ⟨rfl, rfl⟩ := h
    simp [energy]
  · rw [if_neg hp] at h
    by_cases hcap : isZero b.capacity = true
    · rw [if_pos hcap] at h; simp at h
    · rw [if_neg hcap] at h
      have hV : V ≠ 0 := ne_of_gt hg.1
      have hT : T ≠ 0 := ne_of_gt hg.2
      have hc : b.capacity ≠ 0 := fun h0 => hcap ((isZero_iff _).2 h0)
      by_cases hfull : 1 ≤ soc b
      · -- full battery (fix F18): early return, nothing is written but the power
        rw [if_pos hfull] at h
        simp only [Except.ok.injEq, Prod.mk.injEq] at h
        obtain ⟨rfl, rfl⟩ := h
        simp [energy]
      rw [if_neg hfull] at h
      by_cases hmd : isZero (b.maxPower / b.capacity / (((60 : Nat) : K) / T)) = true
      · rw [if_pos hmd] at h; simp at h
      rw [if_neg hmd] at h
      by_cases hn : 0 < b.noiseLevel
      all_goals
        simp only [hn, if_true, if_false, Except.ok.injEq, Prod.mk.injEq] at h
        obtain ⟨rfl, rfl⟩ := h
        simp only [energy, soc]
        push_cast
        field_simp

/-- the zero-pilot early return of the closed-form model changes neither side of the ledger -/
theorem cont_zero_pilot {b b' : Batt K} {V T ν r : K} (h : contCharge b 0 V T ν = .ok (b', r)) :
    b'.charge = b.charge ∧ r = 0 := by
  have hg := cont_guards h
  unfold contCharge at h
  rw [if_neg (not_le.mpr hg.1), if_neg (not_le.mpr hg.2), if_pos ((isZero_iff _).2 rfl)] at h
  simp only [Except.ok.injEq, Prod.mk.injEq] at h
  obtain ⟨rfl, rfl⟩ := h
  exact ⟨rfl, rfl⟩

/-- every battery class: one successful `charge` moves the stored charge by exactly the energy
    of the returned rate -/
theorem charge_ledger {b b' : Batt K} {pilot V T ν r : K} (h : Battery.charge b pilot V T ν = .ok (b', r)) :
    b'.charge - b.charge = energy r V T := by
  unfold Battery.charge at h
  split at h
  · split at h
    · exact cont_ledger h
    · exact step_ledger h
  · exact ideal_ledger h

theorem charge_guards {b b' : Batt K} {pilot V T ν r : K} (h : Battery.charge b pilot V T ν = .ok (b', r)) :
    0 < V ∧ 0 < T := by
  unfold Battery.charge at h
  split at h
  · split at h
    · exact cont_guards h
    · exact step_guards h
  · exact ideal_guards h

/-- `EV.charge` (ev.py:130-144): the delivered-energy counter and the battery move together, by the
    energy of the rate that is reported back; identity data are untouched -/
theorem ev_charge_ledger {e e' : Ev K} {pilot V T ν : K} (h : e.charge pilot V T ν = .ok e') :
    e'.delivered - e.delivered = energy e'.rate V T ∧
    e'.batt.charge - e.batt.charge = energy e'.rate V T ∧
    e'.session = e.session ∧ e'.station = e.station ∧ e'.arrival = e.arrival ∧
    e'.departure = e.departure ∧ e'.requested = e.requested := by
  unfold Ev.charge at h
  split at h
  · simp at h
  · rename_i b r hb
    simp only [Except.ok.injEq] at h
    subst h
    refine ⟨?_, charge_ledger hb, rfl, rfl, rfl, rfl, rfl⟩
    simp only [energy]
    push_cast
    ring

/-! ### any sequence of calls -/

/-- one call `ev.charge(pilot, V, T)` together with the normal draw `ν` it may consume -/
structure Call (K : Type) where
  pilot : K
  V : K
  T : K
  ν : K

/-- a whole history of `charge` calls on one EV; a call that raises (the `ValueError` guards,
    a zero division) has written nothing (every raise precedes the first write), the history goes on -/
def chargeSeq (e : Ev K) : List (Call K) → Ev K
  | [] => e
  | c :: cs =>
    match e.charge c.pilot c.V c.T c.ν with
    | .ok e' => chargeSeq e' cs
    | .error _ => chargeSeq e cs

/-- the energies of the successful calls of a history, computed from the rates they returned -/
def energyLog (e : Ev K) : List (Call K) → List K
  | [] => []
  | c :: cs =>
    match e.charge c.pilot c.V c.T c.ν with
    | .ok e' => energy e'.rate c.V c.T :: energyLog e' cs
    | .error _ => energyLog e cs

theorem chargeSeq_ledger (cs : List (Call K)) : ∀ e : Ev K,
    (chargeSeq e cs).delivered - e.delivered = (energyLog e cs).sum ∧
    (chargeSeq e cs).batt.charge - e.batt.charge = (energyLog e cs).sum := by
  induction cs with
  | nil => intro e; simp [chargeSeq, energyLog]
  | cons c cs ih =>
    intro e
    unfold chargeSeq energyLog
    cases hc : e.charge c.pilot c.V c.T c.ν with
    | error x => simpa using ih e
    | ok e' =>
      obtain ⟨h1, h2, _⟩ := ev_charge_ledger hc
      obtain ⟨i1, i2⟩ := ih e'
      simp only [List.sum_cons]
      constructor
      · linear_combination i1 + h1
      · linear_combination i2 + h2

end
end Acn.Ledger
