/-
  T1c — the hand-written numeric kernels ARE the code, by proof (Fit group, property C15).

  `AcnModel/Gen/CodeFit.lean` is regenerated on every run from the Python ASTs of /repo's working tree
  (harness/translate_code.py: a mechanical statement-by-statement translation of
  `acnportal/acnsim/models/battery.py: batt_cap_fn._get_init_cap` and of its two inner functions; an
  inner function is its own definition whose closure variables are parameters, Python's recursion in
  `binsearch` is recursion on a `fuel : Nat` that reports `.recursion` at 0).  This file proves, for
  EVERY input and at every carrier `K`, that each translated function equals the function of
  `AcnModel/Sessions.lean` that the C15 fit theorems (`init_le_capacity`, `fit_exact`,
  `fit_capacity_minimal`, `fit_init_maximal`, `bisection_terminates`, …) are about.  A change of a
  comparison, an operand, a constant, the bracket handed to the bisection or the branch taken after a
  comparison in one of these Python functions changes `Gen.Code.*`, and the theorem below stops
  compiling — whether or not a generated test input happens to hit the affected edge.

  Not translated (trusted base): Python's `ZeroDivisionError` on float division (`battery_cap = 0`,
  `period = 0`, `max_dsoc = 0`, `transition_soc = 1`): neither the model nor the translation reports it,
  both compute with the carrier's `/`; the C15 theorems are stated on `FitDomain`, which excludes these.
-/
import AcnModel.Gen.CodeFit
import AcnModel.Sessions

set_option linter.unusedSectionVars false

namespace Acn.CodeTie
open Acn Acn.Sessions

section
variable {K : Type} [Add K] [Sub K] [Mul K] [Div K] [Neg K] [LT K] [LE K]
  [DecidableLT K] [DecidableLE K] [OfNat K 0] [OfNat K 1] [NatCast K] [HasExp K]

/-- the inner `delta_soc_from_init_soc(init_soc_guess)` with its closure variables
    (`stay_dur`, `transition_soc`, `max_dsoc`) is `Sessions.deltaSocFrom`. -/
theorem fit_delta_soc_tie (m T ts g : K) :
    Gen.Code.fit_delta_soc T ts m g = deltaSocFrom m T ts g := rfl

/-- the same as functions of the guess (what `binsearch` is handed) -/
theorem fit_delta_soc_fun_tie (m T ts : K) :
    Gen.Code.fit_delta_soc T ts m = deltaSocFrom m T ts := rfl

/-- the inner `binsearch(f, lb, ub, target, tol)` is `Sessions.binsearch`, for every function `f`,
    bracket, target, tolerance and recursion budget. -/
theorem fit_binsearch_tie (f : K → K) (target tol : K) (fuel : Nat) (lb ub : K) :
    Gen.Code.fit_binsearch fuel f lb ub target tol = binsearch f target tol fuel lb ub := by
  induction fuel generalizing lb ub with
  | zero => rfl
  | succ n ih =>
    unfold Gen.Code.fit_binsearch binsearch
    simp only [ih]

/-- the closed-form prefix of `_get_init_cap` is `Sessions.closedInitSoc`: the translation returns the
    three locals in the order in which the rest of the function reads them (`init_soc`, `max_dsoc`,
    `delta_soc`), `closedInitSoc` returns `(δ, m, init_soc)`. -/
theorem fit_closed_init_soc_tie (maxRate ts E T V P cap : K) :
    Gen.Code.fit_closed_init_soc E T V P cap maxRate ts
      = ((closedInitSoc maxRate ts E T V P cap).2.2, (closedInitSoc maxRate ts E T V P cap).2.1,
         (closedInitSoc maxRate ts E T V P cap).1) := rfl

/-- `_get_init_cap(battery_cap, max_rate, transition_soc)` inside `batt_cap_fn(requested_energy,
    stay_dur, voltage, period)` is `Sessions.getInitCap` at the literal tolerance of `binsearch`'s
    default argument (`tol=1e-9`), including which of the three exits is taken and the bracket
    `[transition_soc - max_dsoc * stay_dur, 1]` handed to the bisection. -/
theorem fit_get_init_cap_tie (maxRate ts : K) (fuel : Nat) (E T V P cap : K) :
    Gen.Code.fit_get_init_cap fuel E T V P cap maxRate ts
      = getInitCap maxRate ts (((1 : Nat) : K) / ((1000000000 : Nat) : K)) fuel E T V P cap := by
  unfold Gen.Code.fit_get_init_cap getInitCap closedInitSoc
  simp only [fit_binsearch_tie, fit_delta_soc_fun_tie, fit_delta_soc_tie]
  rfl

end

/-- the tolerance literal of the source (`tol=1e-9`) is the regenerated constant `Gen.fitTol` … -/
theorem fit_tol_is_gen : Gen.fitTol.num = 1 ∧ Gen.fitTol.den = 1000000000 := by decide +kernel

section
variable {K : Type} [Add K] [Sub K] [Mul K] [Div K] [Neg K] [LT K] [LE K]
  [DecidableLT K] [DecidableLE K] [OfNat K 0] [OfNat K 1] [NatCast K] [HasExp K]

/-- … so `_get_init_cap` is `Sessions.getInitCap` at the tolerance `Sessions.battCapFnGen` uses -/
theorem fit_get_init_cap_gen_tie (maxRate ts : K) (fuel : Nat) (E T V P cap : K) :
    Gen.Code.fit_get_init_cap fuel E T V P cap maxRate ts
      = getInitCap maxRate ts (ratK Gen.fitTol) fuel E T V P cap := by
  rw [fit_get_init_cap_tie]
  unfold ratK
  rw [fit_tol_is_gen.1, fit_tol_is_gen.2]
  rfl

end

section
variable {K : Type} [Add K] [Sub K] [Mul K] [Div K] [Neg K] [LT K] [LE K]
  [DecidableLT K] [DecidableLE K] [OfNat K 0] [OfNat K 1] [NatCast K] [HasExp K]

/-- the `for cap in potential_caps` loop of `batt_cap_fn` (skip a capacity below the request, fit the
    initial charge, accept the first non-negative one, "No feasible battery size found." at the end) is
    `Sessions.battCapFn` on every list of candidates, with the defaults `max_rate=32`,
    `transition_soc=0.8`, `tol=1e-9` that `_get_init_cap(cap)` is called with -/
theorem fit_batt_cap_fn_loop_tie (fuel : Nat) (E T V P : K) (caps : List K) :
    Gen.Code.fit_batt_cap_fn_loop fuel E T V P caps
      = battCapFn caps ((32 : Nat) : K) (((4 : Nat) : K) / ((5 : Nat) : K))
          (((1 : Nat) : K) / ((1000000000 : Nat) : K)) fuel E T V P := by
  induction caps with
  | nil => rfl
  | cons cap rest ih =>
    unfold Gen.Code.fit_batt_cap_fn_loop battCapFn
    simp only [ih, fit_get_init_cap_tie]
    rfl

/-- `batt_cap_fn(requested_energy, stay_dur, voltage, period)` is `Sessions.battCapFn` on the ladder of
    capacities written in the source -/
theorem fit_batt_cap_fn_tie (fuel : Nat) (E T V P : K) :
    Gen.Code.fit_batt_cap_fn fuel E T V P
      = battCapFn [((8 : Nat) : K), ((24 : Nat) : K), ((40 : Nat) : K), ((60 : Nat) : K), ((85 : Nat) : K),
                   ((100 : Nat) : K)]
          ((32 : Nat) : K) (((4 : Nat) : K) / ((5 : Nat) : K))
          (((1 : Nat) : K) / ((1000000000 : Nat) : K)) fuel E T V P := by
  unfold Gen.Code.fit_batt_cap_fn
  exact fit_batt_cap_fn_loop_tie ..

end

/-- the ladder, `max_rate` and `transition_soc` of the source are the regenerated constants that
    `Sessions.battCapFnGen` instantiates the model with (`C15.gen_fit_consts` states their values) -/
theorem fit_consts_are_gen :
    Gen.fitCaps = [8, 24, 40, 60, 85, 100] ∧ Gen.fitMaxRate = 32 ∧ Gen.fitTransitionSoc = 4 / 5 := by
  decide +kernel

/-- every target of this group was translated in this run -/
theorem all_translated_fit : Gen.Code.translatedFit
    = ["fit_delta_soc", "fit_binsearch", "fit_closed_init_soc", "fit_get_init_cap", "fit_batt_cap_fn"] := by decide

end Acn.CodeTie
