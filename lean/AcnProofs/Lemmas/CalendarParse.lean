/-
  The parser of the RFC-1123 model is sound: a string is accepted only if — up to letter case and
  the (unchecked, as in `strptime`) weekday name — it is exactly the rendering `formatChars t` of
  the instant `t` returned, or that rendering without the leading zero of a day of month 01..09.
  Helper lemmas for C20.
-/
import AcnProofs.Lemmas.CalendarHttpDate
namespace Acn.HttpDate
open Acn.Calendar

theorem digitVal_some {c : Char} {k : Int} (h : digitVal c = some k) :
    0 ≤ k ∧ k ≤ 9 ∧ c = digit k := by
  unfold digitVal at h
  repeat' split at h
  all_goals first
    | (injection h with h; subst h; rename_i hc; have hc' := eq_of_beq hc; subst hc'; decide)
    | (simp at h)

theorem num2_some {a b : Char} {n : Int} (h : num2 a b = some n) :
    0 ≤ n ∧ n < 100 ∧ a = digit (n / 10) ∧ b = digit (n % 10) := by
  unfold num2 at h
  split at h
  · rename_i x y hx hy
    obtain ⟨x0, x9, rfl⟩ := digitVal_some hx
    obtain ⟨y0, y9, rfl⟩ := digitVal_some hy
    simp only [Option.some.injEq] at h
    subst h
    refine ⟨by omega, by omega, ?_, ?_⟩
    · congr 1; omega
    · congr 1; omega
  · simp at h

theorem num4_some {a b c d : Char} {n : Int} (h : num4 a b c d = some n) :
    0 ≤ n ∧ n < 10000 ∧ a = digit (n / 1000) ∧ b = digit (n / 100 % 10) ∧
    c = digit (n / 10 % 10) ∧ d = digit (n % 10) := by
  unfold num4 at h
  split at h
  · rename_i x y hx hy
    obtain ⟨x0, x9, rfl, rfl⟩ := num2_some hx
    obtain ⟨y0, y9, rfl, rfl⟩ := num2_some hy
    simp only [Option.some.injEq] at h
    subst h
    refine ⟨by omega, by omega, ?_, ?_, ?_, ?_⟩ <;> (congr 1; omega)
  · simp at h


/-! ### the parser accepts nothing but the RFC-1123 rendering of the instant it returns -/

theorem ite_some {p : Prop} [Decidable p] {x m : Int} {r : Option Int}
    (h : (if p then some x else r) = some m) : (p ∧ x = m) ∨ (¬ p ∧ r = some m) := by
  by_cases hp : p
  · left; rw [if_pos hp] at h; exact ⟨hp, Option.some.inj h⟩
  · right; rw [if_neg hp] at h; exact ⟨hp, h⟩

theorem list3_eq {a b c x y z : Char} (h : ([a, b, c] == [x, y, z]) = true) :
    a = x ∧ b = y ∧ c = z := by
  have := eq_of_beq h
  injection this with h1 t
  injection t with h2 t
  injection t with h3 _
  exact ⟨h1, h2, h3⟩

theorem monOfName_some {a b c : Char} {m : Int} (h : monOfName a b c = some m) :
    1 ≤ m ∧ m ≤ 12 ∧ a.toLower = (monName m).1.toLower ∧ b.toLower = (monName m).2.1.toLower ∧
    c.toLower = (monName m).2.2.toLower := by
  unfold monOfName at h
  simp only at h
  rcases ite_some h with ⟨hc, rfl⟩ | ⟨_, h'⟩
  · obtain ⟨h1, h2, h3⟩ := list3_eq hc
    rw [h1, h2, h3]; decide
  clear h; rename _ => h
  rcases ite_some h with ⟨hc, rfl⟩ | ⟨_, h'⟩
  · obtain ⟨h1, h2, h3⟩ := list3_eq hc
    rw [h1, h2, h3]; decide
  clear h; rename _ => h
  rcases ite_some h with ⟨hc, rfl⟩ | ⟨_, h'⟩
  · obtain ⟨h1, h2, h3⟩ := list3_eq hc
    rw [h1, h2, h3]; decide
  clear h; rename _ => h
  rcases ite_some h with ⟨hc, rfl⟩ | ⟨_, h'⟩
  · obtain ⟨h1, h2, h3⟩ := list3_eq hc
    rw [h1, h2, h3]; decide
  clear h; rename _ => h
  rcases ite_some h with ⟨hc, rfl⟩ | ⟨_, h'⟩
  · obtain ⟨h1, h2, h3⟩ := list3_eq hc
    rw [h1, h2, h3]; decide
  clear h; rename _ => h
  rcases ite_some h with ⟨hc, rfl⟩ | ⟨_, h'⟩
  · obtain ⟨h1, h2, h3⟩ := list3_eq hc
    rw [h1, h2, h3]; decide
  clear h; rename _ => h
  rcases ite_some h with ⟨hc, rfl⟩ | ⟨_, h'⟩
  · obtain ⟨h1, h2, h3⟩ := list3_eq hc
    rw [h1, h2, h3]; decide
  clear h; rename _ => h
  rcases ite_some h with ⟨hc, rfl⟩ | ⟨_, h'⟩
  · obtain ⟨h1, h2, h3⟩ := list3_eq hc
    rw [h1, h2, h3]; decide
  clear h; rename _ => h
  rcases ite_some h with ⟨hc, rfl⟩ | ⟨_, h'⟩
  · obtain ⟨h1, h2, h3⟩ := list3_eq hc
    rw [h1, h2, h3]; decide
  clear h; rename _ => h
  rcases ite_some h with ⟨hc, rfl⟩ | ⟨_, h'⟩
  · obtain ⟨h1, h2, h3⟩ := list3_eq hc
    rw [h1, h2, h3]; decide
  clear h; rename _ => h
  rcases ite_some h with ⟨hc, rfl⟩ | ⟨_, h'⟩
  · obtain ⟨h1, h2, h3⟩ := list3_eq hc
    rw [h1, h2, h3]; decide
  clear h; rename _ => h
  rcases ite_some h with ⟨hc, rfl⟩ | ⟨_, h'⟩
  · obtain ⟨h1, h2, h3⟩ := list3_eq hc
    rw [h1, h2, h3]; decide
  clear h; rename _ => h
  simp at h

theorem wdOfName_some {a b c : Char} {w : Int} (h : wdOfName a b c = some w) :
    0 ≤ w ∧ w < 7 ∧ a.toLower = (wdName w).1.toLower ∧ b.toLower = (wdName w).2.1.toLower ∧
    c.toLower = (wdName w).2.2.toLower := by
  unfold wdOfName at h
  simp only at h
  rcases ite_some h with ⟨hc, rfl⟩ | ⟨_, h'⟩
  · obtain ⟨h1, h2, h3⟩ := list3_eq hc
    rw [h1, h2, h3]; decide
  clear h; rename _ => h
  rcases ite_some h with ⟨hc, rfl⟩ | ⟨_, h'⟩
  · obtain ⟨h1, h2, h3⟩ := list3_eq hc
    rw [h1, h2, h3]; decide
  clear h; rename _ => h
  rcases ite_some h with ⟨hc, rfl⟩ | ⟨_, h'⟩
  · obtain ⟨h1, h2, h3⟩ := list3_eq hc
    rw [h1, h2, h3]; decide
  clear h; rename _ => h
  rcases ite_some h with ⟨hc, rfl⟩ | ⟨_, h'⟩
  · obtain ⟨h1, h2, h3⟩ := list3_eq hc
    rw [h1, h2, h3]; decide
  clear h; rename _ => h
  rcases ite_some h with ⟨hc, rfl⟩ | ⟨_, h'⟩
  · obtain ⟨h1, h2, h3⟩ := list3_eq hc
    rw [h1, h2, h3]; decide
  clear h; rename _ => h
  rcases ite_some h with ⟨hc, rfl⟩ | ⟨_, h'⟩
  · obtain ⟨h1, h2, h3⟩ := list3_eq hc
    rw [h1, h2, h3]; decide
  clear h; rename _ => h
  rcases ite_some h with ⟨hc, rfl⟩ | ⟨_, h'⟩
  · obtain ⟨h1, h2, h3⟩ := list3_eq hc
    rw [h1, h2, h3]; decide
  clear h; rename _ => h
  simp at h

theorem punctOk_true {c1 p1 p2 p3 p4 k1 k2 p5 g1 g2 g3 : Char}
    (h : punctOk c1 p1 p2 p3 p4 k1 k2 p5 g1 g2 g3 = true) :
    c1 = ',' ∧ p1 = ' ' ∧ p2 = ' ' ∧ p3 = ' ' ∧ p4 = ' ' ∧ k1 = ':' ∧ k2 = ':' ∧ p5 = ' ' ∧
    g1.toLower = 'g' ∧ g2.toLower = 'm' ∧ g3.toLower = 't' := by
  simp only [punctOk, Bool.and_eq_true, beq_iff_eq] at h
  obtain ⟨⟨⟨⟨⟨⟨⟨⟨⟨⟨a, b⟩, c⟩, d⟩, e⟩, f⟩, g⟩, i⟩, j⟩, k⟩, l⟩ := h
  exact ⟨a, b, c, d, e, f, g, i, j, k, l⟩

theorem digit_lower {n : Int} : (digit n).toLower = digit n := by
  unfold digit
  repeat' split
  all_goals decide

theorem parseCanon_sound {l : List Char} {t : Int} (h : parseCanon l = some t) :
    l.length = 29 ∧
    (∃ w, 0 ≤ w ∧ w < 7 ∧ (l.take 3).map Char.toLower =
      [(wdName w).1.toLower, (wdName w).2.1.toLower, (wdName w).2.2.toLower]) ∧
    (l.drop 3).map Char.toLower = ((formatChars t).drop 3).map Char.toLower ∧
    1 ≤ (fieldsOfSeconds t).y ∧ (fieldsOfSeconds t).y ≤ 9999 := by
  unfold parseCanon at h
  split at h
  · split at h
    · rename_i hp
      obtain ⟨q1, q2, q3, q4, q5, q6, q7, q8, q9, q10, q11⟩ := punctOk_true hp
      split at h
      · rename_i _w d mo y hh mi s hw hd hmo hy hhh hmi hs
        simp only at h
        split at h
        · rename_i hv
          simp only [Option.some.injEq] at h
          obtain ⟨w0, w6, wa, wb, wc⟩ := wdOfName_some hw
          obtain ⟨d0, d1, rfl, rfl⟩ := num2_some hd
          obtain ⟨m0, m1, ma, mb, mc⟩ := monOfName_some hmo
          obtain ⟨y0, y1, rfl, rfl, rfl, rfl⟩ := num4_some hy
          obtain ⟨h0, h1, rfl, rfl⟩ := num2_some hhh
          obtain ⟨i0, i1, rfl, rfl⟩ := num2_some hmi
          obtain ⟨s0, s1, rfl, rfl⟩ := num2_some hs
          simp only [validFields, validDate, Bool.and_eq_true, decide_eq_true_eq] at hv
          obtain ⟨⟨⟨⟨⟨⟨⟨⟨⟨⟨⟨v1, v2⟩, v3⟩, v4⟩, v5⟩, v6⟩, v7⟩, v8⟩, v9⟩, v10⟩, v11⟩, v12⟩ := hv
          have hf := fields_of_seconds_of_fields ⟨y, mo, d, hh, mi, s⟩ v3 v4 v5 v6 v7 v8 v9 v10 v11 v12
          rw [h] at hf
          subst q1 q2 q3 q4 q5 q6 q7 q8
          refine ⟨rfl, ⟨_, w0, w6, ?_⟩, ?_, ?_, ?_⟩
          · simp only [List.take, List.map, wa, wb, wc]
          · have e1 : 'G'.toLower = 'g' := by decide
            have e2 : 'M'.toLower = 'm' := by decide
            have e3 : 'T'.toLower = 't' := by decide
            simp only [formatChars, hf, List.drop, List.map, digit_lower, ma, mb, mc, q9, q10, q11, e1, e2, e3]
          · rw [hf]; exact v1
          · rw [hf]; exact v2
        · simp at h
      · simp at h
    · simp at h
  · simp at h

/-- what `parseCanon_sound` says: `c` is — up to letter case and the unchecked weekday name — the
    canonical 29-character rendering of `t`, and `t` lies in the years 1–9999 -/
def CanonOf (t : Int) (c : List Char) : Prop :=
  c.length = 29 ∧
  (∃ w, 0 ≤ w ∧ w < 7 ∧ (c.take 3).map Char.toLower =
    [(wdName w).1.toLower, (wdName w).2.1.toLower, (wdName w).2.2.toLower]) ∧
  (c.drop 3).map Char.toLower = ((formatChars t).drop 3).map Char.toLower ∧
  1 ≤ (fieldsOfSeconds t).y ∧ (fieldsOfSeconds t).y ≤ 9999

/-- soundness for both shapes: an accepted string is a canonical rendering `c` of the instant
    returned, or such a `c` whose day of month starts with `0`, with that zero left out -/
theorem parseChars_sound {l : List Char} {t : Int} (h : parseChars l = some t) :
    ∃ c, CanonOf t c ∧ (l = c ∨ (c[5]? = some '0' ∧ l = c.eraseIdx 5)) := by
  by_cases h28 : l.length = 28
  · simp only [parseChars, h28, ↓reduceIte] at h
    exact ⟨padDay l, parseCanon_sound h, Or.inr ⟨padDay_get5 (by omega), (eraseIdx_padDay (by omega)).symm⟩⟩
  · rw [parseChars_of_length h28] at h
    exact ⟨l, parseCanon_sound h, Or.inl rfl⟩

/-- only strings of 28 or 29 characters parse -/
theorem parseChars_length {l : List Char} {t : Int} (h : parseChars l = some t) :
    l.length = 28 ∨ l.length = 29 := by
  by_cases h28 : l.length = 28
  · exact Or.inl h28
  · rw [parseChars_of_length h28] at h
    exact Or.inr (parseCanon_sound h).1

theorem digit_eq_zero {n : Int} (h0 : 0 ≤ n) (h9 : n ≤ 9) (h : digit n = '0') : n = 0 := by
  have : n = 0 ∨ n = 1 ∨ n = 2 ∨ n = 3 ∨ n = 4 ∨ n = 5 ∨ n = 6 ∨ n = 7 ∨ n = 8 ∨ n = 9 := by omega
  rcases this with rfl | rfl | rfl | rfl | rfl | rfl | rfl | rfl | rfl | rfl <;>
    first | rfl | (exact absurd h (by decide))

/-- a canonical string whose day of month starts with `0` denotes a day 1..9 -/
theorem canon_day_lt_ten {t : Int} {c : List Char} (hc : CanonOf t c) (h5 : c[5]? = some '0') :
    (fieldsOfSeconds t).d < 10 := by
  obtain ⟨_, _, hd, _, _⟩ := hc
  obtain ⟨_, _, d1, d31, _⟩ := fieldsOfSeconds_ranges t
  have hd31 : (fieldsOfSeconds t).d ≤ 31 := by
    have := (monthLen_le (isLeap (fieldsOfSeconds t).y) (fieldsOfSeconds t).mo)
    rw [daysInMonth_eq] at d31; omega
  have e : ((c.drop 3).map Char.toLower)[2]? = some '0' := by
    rw [List.getElem?_map, List.getElem?_drop, h5]; rfl
  rw [hd] at e
  simp only [formatChars, List.drop, List.map, digit_lower] at e
  have : digit ((fieldsOfSeconds t).d / 10) = '0' := by simpa using e
  have := digit_eq_zero (by omega) (by omega) this
  omega

end Acn.HttpDate
