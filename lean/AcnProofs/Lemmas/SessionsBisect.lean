/-
  Helper lemmas for C15: `delta_soc_from_init_soc` is decreasing and loses at most one unit per
  unit of initial SoC, hence `binsearch` as `_get_init_cap` calls it never runs out of recursion
  depth once the fuel exceeds log₂((1 − ts + m·T)/tol).
-/
import AcnModel.Sessions
import AcnProofs.Lemmas.SessionsFit

set_option linter.unusedSectionVars false

namespace Acn.SessionsFit
open Acn Acn.Sessions Real

/-- the exponential-stage expression of `delta_soc_from_init_soc`, in terms of the kink `c = ts − m·T` -/
noncomputable def hExp (c κ s : ℝ) : ℝ := 1 - κ * Real.exp (-((s - c) / κ)) - s

theorem hExp_lip {c κ x y : ℝ} (hκ : 0 < κ) (hcx : c ≤ x) (hxy : x ≤ y) :
    hExp c κ y ≤ hExp c κ x ∧ hExp c κ x - hExp c κ y ≤ y - x := by
  unfold hExp
  set a := Real.exp (-((x - c) / κ)) with ha
  set b := Real.exp (-((y - c) / κ)) with hb
  set t := (y - x) / κ with ht
  have ht0 : 0 ≤ t := div_nonneg (by linarith) hκ.le
  have hba : b = a * Real.exp (-t) := by
    rw [ha, hb, ← Real.exp_add]; congr 1; rw [ht]; field_simp; ring
  have ha1 : a ≤ 1 := by
    rw [ha, Real.exp_le_one_iff]
    have : 0 ≤ (x - c) / κ := div_nonneg (by linarith) hκ.le
    linarith
  have ha0 : 0 < a := Real.exp_pos _
  have he1 : Real.exp (-t) ≤ 1 := by rw [Real.exp_le_one_iff]; linarith
  have he2 : 1 - t ≤ Real.exp (-t) := by
    have := Real.add_one_le_exp (-t); linarith
  have hb1 : b ≤ a := by rw [hba]; nlinarith
  have hb2 : a - b ≤ t := by rw [hba]; nlinarith
  have hκt : κ * t = y - x := by rw [ht]; field_simp
  constructor
  · nlinarith
  · nlinarith

variable {m T ts : ℝ}

theorem delta_linear (hm : 0 < m) {s : ℝ} (h : s ≤ ts - m * T) : deltaSocFrom m T ts s = m * T := by
  unfold deltaSocFrom
  rw [if_pos]
  rw [le_div_iff₀ hm]; linarith

theorem delta_exp (hm : 0 < m) (hts : ts < 1) {s : ℝ} (h : ts - m * T < s) :
    deltaSocFrom m T ts s = hExp (ts - m * T) (1 - ts) s := by
  unfold deltaSocFrom hExp
  rw [if_neg]
  · simp only [HasExp.exp]
    have e : (m * T + s - ts) / (ts - 1) = -((s - (ts - m * T)) / (1 - ts)) := by
      have h1 : (ts - 1) ≠ 0 := by linarith
      have h2 : (1 - ts) ≠ 0 := by linarith
      field_simp; ring
    rw [e]; ring
  · rw [le_div_iff₀ hm]; linarith

theorem hExp_kink (_hts : ts < 1) : hExp (ts - m * T) (1 - ts) (ts - m * T) = m * T := by
  unfold hExp; simp

/-- `delta_soc_from_init_soc` is decreasing in the initial SoC and 1-Lipschitz -/
theorem delta_lip (hm : 0 < m) (hts : ts < 1) {x y : ℝ} (hxy : x ≤ y) :
    deltaSocFrom m T ts y ≤ deltaSocFrom m T ts x ∧
      deltaSocFrom m T ts x - deltaSocFrom m T ts y ≤ y - x := by
  have hκ : 0 < 1 - ts := by linarith
  rcases le_or_gt y (ts - m * T) with hy | hy
  · rw [delta_linear hm hy, delta_linear hm (le_trans hxy hy)]
    constructor <;> linarith
  · rcases le_or_gt x (ts - m * T) with hx | hx
    · rw [delta_linear hm hx, delta_exp hm hts hy]
      have hk := hExp_kink (m := m) (T := T) hts
      have := hExp_lip (c := ts - m * T) hκ (le_refl _) hy.le
      constructor <;> linarith [this.1, this.2]
    · rw [delta_exp hm hts hx, delta_exp hm hts hy]
      exact hExp_lip hκ hx.le hxy

/-- `_get_init_cap` never exhausts `n+1` levels of recursion once
    `1 − ts + m·T < tol·2^(n+1)` -/
theorem getInitCap_no_recursion {mr tol E V P cap : ℝ} (hmr : 0 < mr) (hV : 0 < V) (hP : 0 < P)
    (hc : 0 < cap) (hts : ts < 1) (hT : 0 < T) (hE : 0 ≤ E) (n : Nat)
    (hw : 1 - ts + fitM mr V P cap * T < tol * 2 ^ (n + 1)) :
    getInitCap mr ts tol (n + 1) E T V P cap ≠ .error .recursion := by
  have hm := fitM_pos hmr hV hP hc
  unfold getInitCap
  rw [closed_eq]
  simp only
  split
  · simp
  · split
    · simp
    · rename_i hncl hfeas
      have hf : ∀ x y, ts - fitM mr V P cap * T ≤ x → x ≤ y → y ≤ 1 →
          deltaSocFrom (fitM mr V P cap) T ts y ≤ deltaSocFrom (fitM mr V P cap) T ts x ∧
          deltaSocFrom (fitM mr V P cap) T ts x - deltaSocFrom (fitM mr V P cap) T ts y ≤ y - x :=
        fun x y _ hxy _ => delta_lip hm hts hxy
      have hmT : 0 < fitM mr V P cap * T := mul_pos hm hT
      have hub : deltaSocFrom (fitM mr V P cap) T ts 1 ≤ E / cap := by
        rw [delta_exp hm hts (by linarith)]
        unfold hExp
        have := Real.exp_pos (-((1 - (ts - fitM mr V P cap * T)) / (1 - ts)))
        have hδ : 0 ≤ E / cap := div_nonneg hE hc.le
        nlinarith
      have hlb : E / cap ≤ deltaSocFrom (fitM mr V P cap) T ts (ts - fitM mr V P cap * T) := by
        have h0 := not_lt.mp hfeas
        rcases le_or_gt (ts - fitM mr V P cap * T) 0 with hneg | hpos
        · exact le_trans h0 (delta_lip hm hts hneg).1
        · rw [delta_linear hm (le_refl _)]
          rw [delta_linear hm hpos.le] at h0
          exact h0
      obtain ⟨s, hs⟩ := binsearch_terminates (deltaSocFrom (fitM mr V P cap) T ts) (E / cap) tol
        (ts - fitM mr V P cap * T) 1 hf n (ts - fitM mr V P cap * T) 1 (le_refl _) (by linarith)
        (le_refl _) (by linarith) hub hlb
      rw [hs]
      simp

/-- … and therefore neither does `batt_cap_fn` (the smallest capacity has the largest rate) -/
theorem battCapFn_no_recursion {mr tol E V P : ℝ} (hmr : 0 < mr) (hV : 0 < V) (hP : 0 < P)
    (hts : ts < 1) (hT : 0 < T) (hE : 0 ≤ E) (n : Nat) :
    ∀ caps : List ℝ, (∀ c ∈ caps, 0 < c ∧ 1 - ts + fitM mr V P c * T < tol * 2 ^ (n + 1)) →
      battCapFn caps mr ts tol (n + 1) E T V P ≠ .error .recursion := by
  intro caps
  induction caps with
  | nil => intro _; simp [battCapFn]
  | cons c cs ih =>
    intro hall
    have hc := hall c List.mem_cons_self
    have ih' := ih (fun c' hc' => hall c' (List.mem_cons_of_mem _ hc'))
    rw [battCapFn]
    split
    · exact ih'
    · have hg := getInitCap_no_recursion (E := E) hmr hV hP hc.1 hts hT hE n hc.2
      split
      · rename_i e he
        intro h
        injection h with h
        subst h
        exact hg he
      · split
        · simp
        · exact ih'

end Acn.SessionsFit
