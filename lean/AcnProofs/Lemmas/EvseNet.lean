/-
  Helper lemmas for the network part of C13 (`AcnModel/EvseNet.lean`): the OrderedDict update
  `setStation`, the id → index dict `stationIndex`, and networks built by `register_evse` calls.
  No numeric structure is used here.
-/
import AcnModel.EvseNet
import Mathlib.Tactic

namespace Acn.EvseNet
open Acn Acn.Evse

variable {K : Type}

/-! ### the id → index dict -/

theorem stationIndex_eq_none {ids : List String} {sid : String} :
    stationIndex ids sid = none ↔ sid ∉ ids := by
  induction ids with
  | nil => simp [stationIndex]
  | cons x r ih =>
    simp only [stationIndex]
    cases h : stationIndex r sid with
    | some i =>
      have : sid ∈ r := by
        by_contra hc
        rw [ih.mpr hc] at h
        exact absurd h (by simp)
      simp [this]
    | none =>
      have hr : sid ∉ r := ih.mp h
      by_cases hx : x = sid
      · subst hx; simp
      · have : ¬ sid = x := fun e => hx e.symm
        simp [hx, hr, this]

/-- with distinct keys the dict maps the id stored at position `i` to `i` -/
theorem stationIndex_of_nodup {ids : List String} (hn : ids.Nodup) {i : Nat} {sid : String}
    (h : ids[i]? = some sid) : stationIndex ids sid = some i := by
  induction ids generalizing i with
  | nil => simp at h
  | cons x r ih =>
    rw [List.nodup_cons] at hn
    cases i with
    | zero =>
      simp at h
      subst h
      simp [stationIndex, stationIndex_eq_none.mpr hn.1]
    | succ j =>
      simp at h
      simp [stationIndex, ih hn.2 h]

/-- the dict never answers with an index outside the containers -/
theorem stationIndex_lt {ids : List String} {sid : String} {i : Nat}
    (h : stationIndex ids sid = some i) : i < ids.length := by
  induction ids generalizing i with
  | nil => simp [stationIndex] at h
  | cons x r ih =>
    simp only [stationIndex] at h
    cases hr : stationIndex r sid with
    | some j =>
      rw [hr] at h
      simp at h
      subst h
      have := ih hr
      simp; omega
    | none =>
      rw [hr] at h
      by_cases hx : x = sid
      · simp [hx] at h; subst h; simp
      · simp [hx] at h

/-! ### `OrderedDict.__setitem__` -/

theorem ids_setStation (s : Station K) (l : List (Station K)) :
    (setStation s l).map (·.id) =
      if s.id ∈ l.map (·.id) then l.map (·.id) else l.map (·.id) ++ [s.id] := by
  induction l with
  | nil => simp [setStation]
  | cons t r ih =>
    unfold setStation
    by_cases h : t.id = s.id
    · simp [h]
    · have h' : ¬ s.id = t.id := fun e => h e.symm
      simp only [h, if_false, List.map_cons, ih, List.mem_cons, h', false_or]
      split <;> simp

theorem nodup_setStation (s : Station K) (l : List (Station K))
    (hn : (l.map (·.id)).Nodup) : ((setStation s l).map (·.id)).Nodup := by
  rw [ids_setStation]
  split
  · exact hn
  · rename_i h
    rw [List.nodup_append]
    refine ⟨hn, by simp, ?_⟩
    intro a ha b hb
    simp at hb
    subst hb
    intro e
    subst e
    exact h ha

theorem length_setStation (s : Station K) (l : List (Station K)) :
    (setStation s l).length = if s.id ∈ l.map (·.id) then l.length else l.length + 1 := by
  have := congrArg List.length (ids_setStation s l)
  simp only [List.length_map] at this
  rw [this]
  split <;> simp

/-- with distinct keys: the new value is in, everything stored under another key stays, nothing else -/
theorem mem_setStation (s t : Station K) (l : List (Station K)) (hn : (l.map (·.id)).Nodup) :
    t ∈ setStation s l ↔ t = s ∨ (t ∈ l ∧ t.id ≠ s.id) := by
  induction l with
  | nil => simp [setStation]
  | cons u r ih =>
    simp only [List.map_cons, List.nodup_cons] at hn
    unfold setStation
    by_cases h : u.id = s.id
    · simp only [h, if_true, List.mem_cons]
      constructor
      · rintro (rfl | ht)
        · exact Or.inl rfl
        · right
          refine ⟨Or.inr ht, fun e => hn.1 ?_⟩
          rw [h, ← e]
          exact List.mem_map_of_mem ht
      · rintro (rfl | ⟨rfl | ht, hne⟩)
        · exact Or.inl rfl
        · exact absurd h hne
        · exact Or.inr ht
    · simp only [h, if_false, List.mem_cons, ih hn.2]
      constructor
      · rintro (rfl | rfl | ⟨ht, hne⟩)
        · exact Or.inr ⟨Or.inl rfl, h⟩
        · exact Or.inl rfl
        · exact Or.inr ⟨Or.inr ht, hne⟩
      · rintro (rfl | ⟨rfl | ht, hne⟩)
        · exact Or.inr (Or.inl rfl)
        · exact Or.inl rfl
        · exact Or.inr (Or.inr ⟨ht, hne⟩)

/-! ### networks built by `register_evse` calls -/

theorem run_snoc (regs : List (Station K)) (r : Station K) :
    Net.run (regs ++ [r]) = (Net.run regs).register r := by
  simp [Net.run, List.foldl_append]

theorem run_ids_nodup (regs : List (Station K)) :
    ((Net.run regs).stations.map (·.id)).Nodup := by
  induction regs using List.reverseRecOn with
  | nil => simp [Net.run, Net.init]
  | append_singleton l r ih =>
    rw [run_snoc]
    exact nodup_setStation r _ ih

theorem run_nVolt (regs : List (Station K)) : (Net.run regs).nVolt = regs.length := by
  induction regs using List.reverseRecOn with
  | nil => simp [Net.run, Net.init]
  | append_singleton l r ih => rw [run_snoc]; simp [Net.register, ih]

/-- the registered ids are exactly the ids that were passed to `register_evse` -/
theorem run_ids_mem (regs : List (Station K)) (x : String) :
    x ∈ (Net.run regs).stations.map (·.id) ↔ x ∈ regs.map (·.id) := by
  induction regs using List.reverseRecOn with
  | nil => simp [Net.run, Net.init]
  | append_singleton l r ih =>
    rw [run_snoc]
    simp only [Net.register, ids_setStation]
    split
    · rename_i h
      rw [ih]
      simp only [List.map_append, List.mem_append, List.map_cons, List.map_nil, List.mem_singleton]
      constructor
      · exact Or.inl
      · rintro (h' | rfl)
        · exact h'
        · exact ih.mp h
    · simp only [List.mem_append, ih, List.map_append, List.map_cons, List.map_nil]

theorem run_length_le (regs : List (Station K)) : (Net.run regs).stations.length ≤ regs.length := by
  induction regs using List.reverseRecOn with
  | nil => simp [Net.run, Net.init]
  | append_singleton l r ih =>
    rw [run_snoc]
    simp only [Net.register, length_setStation, List.length_append, List.length_singleton]
    split <;> omega

/-- distinct ids: the network is the registration list itself -/
theorem run_of_nodup (regs : List (Station K)) (h : (regs.map (·.id)).Nodup) :
    (Net.run regs).stations = regs := by
  induction regs using List.reverseRecOn with
  | nil => simp [Net.run, Net.init]
  | append_singleton l r ih =>
    rw [run_snoc]
    simp only [List.map_append, List.map_cons, List.map_nil] at h
    rw [List.nodup_append] at h
    have hl := ih h.1
    have hr : r.id ∉ l.map (·.id) := fun hm => h.2.2 _ hm _ (by simp) rfl
    simp only [Net.register, hl]
    clear ih hl h
    induction l with
    | nil => simp [setStation]
    | cons t u ihu =>
      simp only [List.map_cons, List.mem_cons, not_or] at hr
      have : ¬ t.id = r.id := fun e => hr.1 e.symm
      simp [setStation, this, ihu hr.2]

/-- `InfrastructureInfo` can be built for the network iff no id was registered twice -/
theorem run_length_eq_iff (regs : List (Station K)) :
    (Net.run regs).stations.length = regs.length ↔ (regs.map (·.id)).Nodup := by
  constructor
  · induction regs using List.reverseRecOn with
    | nil => simp
    | append_singleton l r ih =>
      rw [run_snoc]
      simp only [Net.register, length_setStation, List.length_append, List.length_singleton]
      have hle := run_length_le l
      split
      · intro h; omega
      · rename_i hnot
        intro h
        have hl := ih (by omega)
        simp only [List.map_append, List.map_cons, List.map_nil]
        rw [List.nodup_append]
        refine ⟨hl, by simp, ?_⟩
        intro a ha b hb
        simp at hb
        subst hb
        intro e
        subst e
        exact hnot ((run_ids_mem l _).mpr ha)
  · intro h
    rw [run_of_nodup regs h]

/-- a station is in the built network iff it is the LAST registration under its id -/
theorem mem_run_iff (regs : List (Station K)) (s : Station K) :
    s ∈ (Net.run regs).stations ↔
      ∃ pre post, regs = pre ++ s :: post ∧ ∀ t ∈ post, t.id ≠ s.id := by
  induction regs using List.reverseRecOn with
  | nil => simp [Net.run, Net.init]
  | append_singleton l r ih =>
    rw [run_snoc]
    simp only [Net.register]
    rw [mem_setStation r s _ (run_ids_nodup l), ih]
    constructor
    · rintro (rfl | ⟨⟨pre, post, rfl, hp⟩, hne⟩)
      · exact ⟨l, [], rfl, by simp⟩
      · refine ⟨pre, post ++ [r], by simp, ?_⟩
        intro t ht
        rcases List.mem_append.mp ht with ht | ht
        · exact hp t ht
        · simp at ht; subst ht; exact fun e => hne e.symm
    · rintro ⟨pre, post, he, hp⟩
      rcases List.eq_nil_or_concat post with rfl | ⟨post', r', rfl⟩
      · have : l ++ [r] = pre ++ [s] := by simpa using he
        have := List.append_inj' this rfl
        left
        simpa using this.2.symm
      · have he' : l ++ [r] = (pre ++ s :: post') ++ [r'] := by simpa using he
        have := List.append_inj' he' rfl
        obtain ⟨h1, h2⟩ := this
        simp at h2
        subst h2
        right
        refine ⟨⟨pre, post', h1, fun t ht => hp t (by simp [ht])⟩, ?_⟩
        exact fun e => hp r (by simp) e.symm

/-! ### save / resume inside a history (`CNet`) -/

theorem foldl_register_stations (l : List (Station K)) (n : Net K) :
    (l.foldl Net.register n).stations = l.foldl (fun acc e => setStation e acc) n.stations := by
  induction l generalizing n with
  | nil => rfl
  | cons s r ih => simp [List.foldl_cons, ih, Net.register]

/-- iterating a dict with distinct keys into a fresh dict gives the same entries in the same order -/
theorem foldl_setStation_of_nodup (l : List (Station K)) (h : (l.map (·.id)).Nodup) :
    l.foldl (fun acc e => setStation e acc) [] = l := by
  have := foldl_register_stations l (Net.init : Net K)
  simp only [Net.init] at this
  rw [← this]
  exact run_of_nodup l h

section
variable [LT K] [DecidableLT K] [OfNat K 0]

/-- the stored cache is the description of the stations the network holds -/
def Coherent (c : CNet K) : Prop := c.cache = infoStore c.net

theorem infraOkC_of_coherent (c : CNet K) (hc : Coherent c) : infraOkC c = infraOk c.net := by
  have hcache : c.cache = infoStore c.net := hc
  simp [infraOkC, infraOk, hcache, infoStore]

theorem iface_of_coherent (c : CNet K) (hc : Coherent c) (sid : String) :
    ifaceAllowableC c sid = ifaceAllowable c.net sid ∧ ifaceMaxC c sid = ifaceMax c.net sid ∧
    ifaceMinC c sid = ifaceMin c.net sid := by
  have hk := infraOkC_of_coherent c hc
  have hcache : c.cache = infoStore c.net := hc
  refine ⟨?_, ?_, ?_⟩
  · simp only [ifaceAllowableC, ifaceAllowable, lookupC, lookup, hk, hcache]; rfl
  · simp only [ifaceMaxC, ifaceMax, lookupC, lookup, hk, hcache]; rfl
  · simp only [ifaceMinC, ifaceMin, lookupC, lookup, hk, hcache]; rfl

omit [LT K] [DecidableLT K] [OfNat K 0] in
/-- a save / resume step of a network with distinct ids gives the same network (stations, order, cache) -/
theorem restore_eq (c : CNet K) (hn : (c.net.stations.map (·.id)).Nodup) : c.restore = c := by
  cases c with
  | mk net cache =>
    cases net with
    | mk stations nVolt =>
      simp only [CNet.restore, CNet.save, Saved.load]
      rw [foldl_setStation_of_nodup stations hn]

theorem cnet_run_snoc (h : List (NetEv K)) (e : NetEv K) : CNet.run (h ++ [e]) = (CNet.run h).step e := by
  simp [CNet.run, List.foldl_append]

omit [LT K] [DecidableLT K] [OfNat K 0] in
theorem regsOf_append (h g : List (NetEv K)) : regsOf (h ++ g) = regsOf h ++ regsOf g := by
  induction h with
  | nil => rfl
  | cons e r ih => cases e <;> simp [regsOf, ih]

/-- every history of registrations and save / resume steps ends in the network of its registrations,
    with the cache that `_update_info_store` computes for it -/
theorem cnet_run_eq (h : List (NetEv K)) :
    (CNet.run h).net = Net.run (regsOf h) ∧ Coherent (CNet.run h) := by
  induction h using List.reverseRecOn with
  | nil => exact ⟨rfl, rfl⟩
  | append_singleton l e ih =>
    rw [cnet_run_snoc, regsOf_append]
    cases e with
    | reg s =>
      simp only [CNet.step, CNet.register, regsOf, run_snoc, ih.1]
      exact ⟨trivial, rfl⟩
    | restore =>
      have hn : (((CNet.run l).net).stations.map (·.id)).Nodup := by
        rw [ih.1]; exact run_ids_nodup _
      simp only [CNet.step, regsOf, List.append_nil, restore_eq _ hn]
      exact ih

end

/-! ### well-formed descriptions -/

/-- the parameter ranges the constructors are meant for: a non-empty interval, a non-empty level list
    (`FiniteRatesEVSE.__init__` always yields one: it adds 0) -/
def WellFormed [LE K] : Kind K → Prop
  | .cont mn (some mx) => mn ≤ mx
  | .cont _ none => True
  | .deadband db (some mx) => db ≤ mx
  | .deadband _ none => True
  | .finite rates => rates ≠ []

end Acn.EvseNet
