/-
  Order facts about `daysFromCivil` (closed form, a date lies within its year, the year of a
  day number), the successor relation of the calendar, and the weekday law.  Helper lemmas for C20.
-/
import AcnProofs.Lemmas.CalendarCivil
namespace Acn.Calendar

/-- closed form of `daysFromCivil`: Gregorian leap-year count plus the March-based day of the year -/
theorem daysFromCivil_closed (y m d : Int) :
    daysFromCivil y m d =
      365 * (if m ≤ 2 then y - 1 else y) + (if m ≤ 2 then y - 1 else y) / 4
        - (if m ≤ 2 then y - 1 else y) / 100 + (if m ≤ 2 then y - 1 else y) / 400
        + doyOfMd m d - 719468 := by
  rw [daysFromCivil_eq]
  obtain ⟨y', hy'⟩ : ∃ y', y' = if m ≤ 2 then y - 1 else y := ⟨_, rfl⟩
  rw [← hy']
  unfold yearStart
  omega

theorem jan1_closed (y : Int) :
    daysFromCivil y 1 1 = 365 * (y - 1) + (y - 1) / 4 - (y - 1) / 100 + (y - 1) / 400 + 306 - 719468 := by
  rw [daysFromCivil_closed]; simp [doyOfMd]

theorem jan1_mono {a b : Int} (h : a ≤ b) : daysFromCivil a 1 1 ≤ daysFromCivil b 1 1 := by
  rw [jan1_closed, jan1_closed]; omega

/-- a valid date lies between 1 January of its year and 1 January of the next year -/
theorem within_year (y m d : Int) (hm : 1 ≤ m) (hm' : m ≤ 12) (hd : 1 ≤ d)
    (hd' : d ≤ daysInMonth y m) :
    daysFromCivil y 1 1 ≤ daysFromCivil y m d ∧ daysFromCivil y m d < daysFromCivil (y + 1) 1 1 := by
  rw [daysInMonth_eq] at hd'
  have hl := monthLen_le (isLeap y) m
  obtain ⟨_, s2, s3, s4, s5⟩ := md_spec hm hm' hd (by omega)
  rw [jan1_closed, jan1_closed, daysFromCivil_closed]
  by_cases h : m ≤ 2
  · simp only [h, ↓reduceIte]
    have h306 := s5.mp h
    have e : y + 1 - 1 = y := by omega
    rw [e]
    by_cases hleap : isLeap y = true
    · have := (isLeap_iff y).mp hleap
      omega
    · have hb : isLeap y = false := by simpa using hleap
      rw [hb] at hd'
      have := s4 hd'
      have hn : ¬ ((y % 4 = 0 ∧ y % 100 ≠ 0) ∨ y % 400 = 0) := fun c => hleap ((isLeap_iff y).mpr c)
      omega
  · simp only [h, ↓reduceIte]
    have h306 : ¬ 306 ≤ doyOfMd m d := fun c => h (s5.mpr c)
    have e : y + 1 - 1 = y := by omega
    rw [e]
    omega

/-- the year returned by `civilFromDays` is the year whose 1 January … 31 December span
    contains the day (so year ranges translate into day-number ranges) -/
theorem year_of_days (z Y : Int) :
    (daysFromCivil Y 1 1 ≤ z → Y ≤ (civilFromDays z).1) ∧
    (z < daysFromCivil (Y + 1) 1 1 → (civilFromDays z).1 ≤ Y) := by
  obtain ⟨v1, v2, v3, v4⟩ := civil_valid z
  have hr := days_roundtrip z
  obtain ⟨w1, w2⟩ := within_year _ _ _ v1 v2 v3 v4
  rw [hr] at w1 w2
  constructor
  · intro h
    by_cases c : Y ≤ (civilFromDays z).1
    · exact c
    · have := jan1_mono (a := (civilFromDays z).1 + 1) (b := Y) (by omega)
      omega
  · intro h
    by_cases c : (civilFromDays z).1 ≤ Y
    · exact c
    · have := jan1_mono (a := Y + 1) (b := (civilFromDays z).1) (by omega)
      omega

/-! ### the successor relation of the proleptic Gregorian calendar -/

/-- the day after `y-m-d` -/
def nextDay (y m d : Int) : Int × Int × Int :=
  if d < daysInMonth y m then (y, m, d + 1)
  else if m < 12 then (y, m + 1, 1)
  else (y + 1, 1, 1)

/-- `daysFromCivil` counts days: it is 0 on 1970-01-01 and grows by exactly one from each valid
    date to the next one (month ends, leap and non-leap Februaries, year ends).  Together with
    the round trips this characterises it as *the* day number of the proleptic Gregorian calendar. -/
theorem daysFromCivil_nextDay (y m d : Int) (hm : 1 ≤ m) (hm' : m ≤ 12) (hd : 1 ≤ d)
    (hd' : d ≤ daysInMonth y m) :
    daysFromCivil (nextDay y m d).1 (nextDay y m d).2.1 (nextDay y m d).2.2
      = daysFromCivil y m d + 1 := by
  unfold nextDay
  by_cases h1 : d < daysInMonth y m
  · simp only [h1, ↓reduceIte]
    simp only [daysFromCivil]; omega
  · simp only [h1, ↓reduceIte]
    have hdm : d = daysInMonth y m := by omega
    by_cases h2 : m < 12
    · simp only [h2, ↓reduceIte]
      rw [daysFromCivil_closed, daysFromCivil_closed]
      have hcases : m = 1 ∨ m = 2 ∨ m = 3 ∨ m = 4 ∨ m = 5 ∨ m = 6 ∨ m = 7 ∨ m = 8 ∨ m = 9 ∨
          m = 10 ∨ m = 11 := by omega
      rcases hcases with rfl | rfl | rfl | rfl | rfl | rfl | rfl | rfl | rfl | rfl | rfl
      · subst hdm; simp [doyOfMd, daysInMonth]; omega
      · subst hdm
        by_cases hleap : isLeap y = true
        · have := (isLeap_iff y).mp hleap
          simp [doyOfMd, daysInMonth, hleap]; omega
        · have hn : ¬ ((y % 4 = 0 ∧ y % 100 ≠ 0) ∨ y % 400 = 0) :=
            fun c => hleap ((isLeap_iff y).mpr c)
          have hb : isLeap y = false := by simpa using hleap
          simp [doyOfMd, daysInMonth, hb]; omega
      all_goals (subst hdm; simp [doyOfMd, daysInMonth]; omega)
    · simp only [h2, ↓reduceIte]
      have : m = 12 := by omega
      subst this
      rw [daysFromCivil_closed, daysFromCivil_closed]
      subst hdm
      simp [doyOfMd, daysInMonth]
      omega

theorem daysFromCivil_epoch : daysFromCivil 1970 1 1 = 0 := by decide +kernel

/-! ### weekday -/

/-- Python's `weekday()` (Monday = 0): Thursday on day 0, advances cyclically by one per day,
    always in `0..6`, period 7. -/
theorem weekday_spec_aux (z : Int) :
    0 ≤ weekday z ∧ weekday z < 7 ∧ weekday (z + 1) = (weekday z + 1) % 7 ∧
    weekday (z + 7) = weekday z := by
  unfold weekday; omega

end Acn.Calendar
