/-
  T1c — the hand-written numeric kernels ARE the code, by proof (Analysis group, property C18).

  `AcnModel/Gen/CodeAnalysis.lean` is regenerated on every run from the Python ASTs of /repo's working
  tree (harness/translate_code.py).  Translated: the four energy metrics of
  `acnportal/acnsim/analysis/__init__.py` — `total_energy_delivered`, `total_energy_requested`,
  `proportion_of_energy_delivered`, `proportion_of_demands_met` — with `sim.ev_history.values()` read as
  the list `evs` of (requested, delivered) pairs of `AcnModel/Analysis.lean`: `sum(e for ev in …)` is
  `sumK` of the mapped list, `sum(1 for ev in … if c)` and `len(…)` are the `Nat` lengths (cast exactly
  into the carrier where Python converts the `int`), `ev.remaining_demand` is inlined from the property
  in `models/ev.py`, a call of another translated function of the module is a call of its translation.

  Each equals the function `C18.energy_metrics_def` is about.  Python raises `ZeroDivisionError` where
  the two proportions divide by a zero total / an empty history; the model reports `.zeroDivision` there,
  so those two ties carry the model's own non-error condition as a hypothesis.
-/
import AcnModel.Gen.CodeAnalysis
import AcnModel.Analysis

set_option linter.unusedSectionVars false

namespace Acn.CodeTie
open Acn Acn.Analysis

section
variable {K : Type} [Add K] [Sub K] [Mul K] [Div K] [Neg K] [LT K] [LE K]
  [DecidableLT K] [DecidableLE K] [OfNat K 0] [OfNat K 1] [NatCast K] [HasExp K]

/-- `total_energy_delivered(sim)` is `Analysis.totalDelivered` -/
theorem an_total_delivered_tie (evs : List (Ev K)) :
    Gen.Code.an_total_delivered evs = totalDelivered evs := rfl

/-- `total_energy_requested(sim)` is `Analysis.totalRequested` -/
theorem an_total_requested_tie (evs : List (Ev K)) :
    Gen.Code.an_total_requested evs = totalRequested evs := rfl

/-- `proportion_of_energy_delivered(sim)` is `Analysis.proportionDelivered` wherever the model does not
    report the division by a zero total -/
theorem an_proportion_delivered_tie (evs : List (Ev K)) (h : isZero (totalRequested evs) = false) :
    proportionDelivered evs = .ok (Gen.Code.an_proportion_delivered evs) := by
  unfold proportionDelivered
  rw [h]
  rfl

/-- … and the model reports `.zeroDivision` exactly when the translated divisor is zero -/
theorem an_proportion_delivered_error (evs : List (Ev K)) (h : isZero (Gen.Code.an_total_requested evs) = true) :
    proportionDelivered evs = .error .zeroDivision := by
  unfold proportionDelivered
  rw [← an_total_requested_tie, h]
  rfl

/-- `proportion_of_demands_met(sim, threshold)` is `Analysis.demandsMet` for a non-empty history
    (strict `<` on `requested − delivered`, counted, over the number of sessions) -/
theorem an_demands_met_tie (evs : List (Ev K)) (thr : K) (h : evs.isEmpty = false) :
    demandsMet evs thr = .ok (Gen.Code.an_demands_met evs thr) := by
  unfold demandsMet
  rw [h]
  rfl

end

/-- every target of this group was translated in this run -/
theorem all_translated_analysis : Gen.Code.translatedAnalysis
    = ["an_total_delivered", "an_total_requested", "an_proportion_delivered", "an_demands_met"] := by decide

end Acn.CodeTie
