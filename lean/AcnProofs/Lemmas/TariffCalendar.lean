/-
  Calendar facts used by C17: every day number maps to a (month, day) of the 366-entry table
  and to a weekday in 0..6, so the finite table of `total_unambiguous_<file>` covers every
  real date (all 14 calendar types).
-/
import AcnModel.Tariff
import Mathlib.Tactic

namespace Acn.C17
open Acn.Calendar Acn.Tariff

/-- day-of-era → day-of-year (March based) stays in 0..365 -/
theorem doy_bounds (doe : Int) (h0 : 0 ≤ doe) (h1 : doe ≤ 146096) :
    0 ≤ doe - (365 * ((doe - doe / 1460 + doe / 36524 - doe / 146096) / 365) +
          ((doe - doe / 1460 + doe / 36524 - doe / 146096) / 365) / 4 -
          ((doe - doe / 1460 + doe / 36524 - doe / 146096) / 365) / 100) ∧
    doe - (365 * ((doe - doe / 1460 + doe / 36524 - doe / 146096) / 365) +
          ((doe - doe / 1460 + doe / 36524 - doe / 146096) / 365) / 4 -
          ((doe - doe / 1460 + doe / 36524 - doe / 146096) / 365) / 100) ≤ 365 := by
  obtain ⟨e, he⟩ : ∃ e : Int, e = doe / 1460 := ⟨_, rfl⟩
  have hb : 0 ≤ e ∧ e ≤ 100 := by omega
  have hr : 1460 * e ≤ doe ∧ doe < 1460 * e + 1460 := by omega
  rw [← he]
  clear he
  obtain ⟨hb0, hb1⟩ := hb
  interval_cases e <;> first
    | omega
    | (rcases (by omega : doe / 36524 = 0 ∨ doe / 36524 = 1 ∨ doe / 36524 = 2 ∨ doe / 36524 = 3 ∨
          doe / 36524 = 4) with hf | hf | hf | hf | hf <;> rw [hf] <;> omega)

/-- month and day computed from a day-of-year in 0..365 -/
theorem month_day_of_doy (doy mp : Int) (h0 : 0 ≤ doy) (h1 : doy ≤ 365) (hmp : mp = (5 * doy + 2) / 153) :
    1 ≤ (if mp < 10 then mp + 3 else mp - 9) ∧ (if mp < 10 then mp + 3 else mp - 9) ≤ 12 ∧
    1 ≤ doy - (153 * mp + 2) / 5 + 1 ∧
    doy - (153 * mp + 2) / 5 + 1 ≤ (monthLen366 (if mp < 10 then mp + 3 else mp - 9).toNat : Int) := by
  have hb : 0 ≤ mp ∧ mp ≤ 11 := by omega
  obtain ⟨hb0, hb1⟩ := hb
  interval_cases mp <;> simp only [monthLen366] <;> norm_num <;> omega

/-- `civilFromDays` yields a month in 1..12 and a day in 1..(length of that month in a leap year) -/
theorem civil_month_day_bounds (z : Int) :
    1 ≤ (civilFromDays z).2.1 ∧ (civilFromDays z).2.1 ≤ 12 ∧ 1 ≤ (civilFromDays z).2.2 ∧
    (civilFromDays z).2.2 ≤ (monthLen366 (civilFromDays z).2.1.toNat : Int) := by
  have hdoe : 0 ≤ z + 719468 - (z + 719468) / 146097 * 146097 ∧
      z + 719468 - (z + 719468) / 146097 * 146097 ≤ 146096 := by omega
  have h := doy_bounds _ hdoe.1 hdoe.2
  have := month_day_of_doy _ _ h.1 h.2 rfl
  simpa [civilFromDays] using this

theorem mem_days366 (m d : Nat) (h1 : 1 ≤ m) (h2 : m ≤ 12) (h3 : 1 ≤ d) (h4 : d ≤ monthLen366 m) :
    (m, d) ∈ days366 := by
  simp only [days366, List.mem_flatMap, List.mem_range, List.mem_map, Prod.mk.injEq]
  exact ⟨m - 1, by omega, d - 1, by rw [show m - 1 + 1 = m by omega]; omega, by omega, by omega⟩

/-- every day number lands in the 366-entry (month, day) table -/
theorem civil_in_table (z : Int) :
    ((civilFromDays z).2.1.toNat, (civilFromDays z).2.2.toNat) ∈ days366 := by
  obtain ⟨h1, h2, h3, h4⟩ := civil_month_day_bounds z
  apply mem_days366 <;> omega

/-- Python's `weekday()` is in 0..6 -/
theorem weekday_lt (z : Int) : (weekday z).toNat < 7 := by
  simp only [weekday]; omega

/-- the fields of every instant are inside the finite table the per-file theorems range over -/
theorem fields_in_table (t : Int) :
    (fieldsOf t).md ∈ days366 ∧ (fieldsOf t).wd < 7 ∧
    (fieldsOf t).h < 24 ∧ (fieldsOf t).m < 60 ∧ (fieldsOf t).s < 60 := by
  refine ⟨civil_in_table _, weekday_lt _, ?_, ?_, ?_⟩ <;> simp only [fieldsOf] <;> omega

end Acn.C17
