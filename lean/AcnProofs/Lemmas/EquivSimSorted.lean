/-
  Helper lemmas for C10 (Sim level, the modelled sorting-based algorithms as scheduler parameter):
  * the constraint rows reach `Acn.Sim` ONLY through the scheduler parameter (`SimSorted.feasOf net`,
    the algorithm-side feasibility check); permuting the (row, limit) pairs leaves that check, hence the
    scheduler, hence the whole run, literally unchanged;
  * `sortedSched` / `uncontrolledSched` read `View.active` and `View.iter` only — in particular not
    `EVSE.current_pilot`, so the session-permutation capstone applies to them as they are (no
    distinct-keys hypothesis: `network.active_evs` is in STATION order, whatever the listing order).
-/
import AcnModel.SimSorted
import AcnProofs.Lemmas.EquivPerm
import AcnProofs.Lemmas.EquivSimSessions

set_option linter.unusedSectionVars false

namespace Acn.SimSorted
open Acn Acn.Sim Acn.Sorted Acn.Feas Acn.SimPerm

variable {K : Type} [Field K] [LinearOrder K] [IsStrictOrderedRing K] [HasExp K] [HasCeilNat K]

/-- `infrastructure_constraints_feasible` does not depend on the order of the constraints -/
theorem algFeasible_perm_constraints (M M' : List (List K)) (lims lims' c s : List K) (vt rt : K) (x : List K)
    (h : (List.zip M' lims').Perm (List.zip M lims)) :
    algFeasible M' lims' c s vt rt x = algFeasible M lims c s vt rt x := by
  unfold algFeasible
  exact all_perm h _

/-- two descriptions of the same network whose constraints were added in a different order -/
structure RowsPerm (net net' : NetInfo K) : Prop where
  rows : (List.zip net'.M net'.lims).Perm (List.zip net.M net.lims)
  cos : net'.cos = net.cos
  sin : net'.sin = net.sin
  vt : net'.vt = net.vt
  rt : net'.rt = net.rt

theorem feasOf_rowsPerm {net net' : NetInfo K} (h : RowsPerm net net') : feasOf net' = feasOf net := by
  funext x
  unfold feasOf
  rw [h.cos, h.sin, h.vt, h.rt]
  exact algFeasible_perm_constraints _ _ _ _ _ _ _ _ x h.rows

theorem sortedSched_rowsPerm {net net' : NetInfo K} (h : RowsPerm net net') (inf : K) (cfg : Sim.Cfg K)
    (scfg : Config K) : sortedSched net' inf cfg scfg = sortedSched net inf cfg scfg := by
  unfold sortedSched
  rw [feasOf_rowsPerm h]

/-- neither scheduler reads `EVSE.current_pilot` -/
theorem sortedSched_ignoresEvsePilot (net : NetInfo K) (inf : K) (cfg : Sim.Cfg K) (scfg : Config K) :
    SchedIgnoresEvsePilot (sortedSched net inf cfg scfg) := fun _ _ => rfl

theorem uncontrolledSched_ignoresEvsePilot (inf : K) (cfg : Sim.Cfg K) :
    SchedIgnoresEvsePilot (uncontrolledSched inf cfg) := fun _ _ => rfl

/-- the adapters read the station table and the period of the configuration only: listing the
    sessions / recompute events differently gives the same scheduler -/
theorem sortedSched_cfg_evs (net : NetInfo K) (inf : K) (cfg : Sim.Cfg K) (scfg : Config K)
    (evs' : List (Evse.Ev K)) (recs' : List (Int × String)) :
    sortedSched net inf { cfg with evs := evs', recomputes := recs' } scfg = sortedSched net inf cfg scfg ∧
    uncontrolledSched inf { cfg with evs := evs', recomputes := recs' } = uncontrolledSched inf cfg :=
  ⟨rfl, rfl⟩

end Acn.SimSorted
