/-
  Helper lemmas for C10 (Sim level, stations, RAISING runs — 1/2: `update_pilots` and the pilot
  application stage, two-sided).
  When the station loop of `network.update_pilots` raises, the stations BEFORE the offender have
  already charged — and "before" is the registration order.  What is nevertheless order-independent:
    * the loop raises in one registration order iff it raises in every other (`updList_perm`, read
      backwards: a loop that succeeds in one order succeeds in all);
    * it raises an error of `EVSE.set_pilot` (`InvalidRateError`, or the `ValueError` of a charge) —
      WHICH of the two can depend on the order when two stations offend differently;
    * it writes nothing but `EVSE.current_pilot`, EV records and the draw counter: the core, the pilot
      and rate matrices, the peak and the occupancy log at the abort are related as ever (`AbortEquiv`).
  Every other raise of the pilot application stage (`IndexError`s) is deterministic and leaves fully
  related states (`StEquiv`).
-/
import AcnProofs.Lemmas.EquivSimDict
import AcnProofs.Lemmas.EventCoreSimFail

set_option linter.unusedSectionVars false
set_option linter.unusedSimpArgs false
set_option linter.unusedVariables false

namespace Acn.SimEquiv
open Acn Acn.Sim Acn.EventCore Acn.Evse Acn.Ledger

variable {K : Type} [Field K] [LinearOrder K] [IsStrictOrderedRing K] [HasExp K]

/-- what stays related when `update_pilots` has raised: everything it does not write -/
structure AbortEquiv (σ : List Nat) (s s' : State K) : Prop where
  core : s'.core = s.core
  pilots : s'.pilots = s.pilots.reidx σ
  rates : s'.rates = s.rates.reidx σ
  peak : s'.peak = s.peak
  occLog : s'.occLog = s.occLog.map (fun row => reidx σ row none)

theorem StEquiv.toAbort {σ : List Nat} {s s' : State K} (h : StEquiv σ s s') : AbortEquiv σ s s' :=
  ⟨h.core, h.pilots, h.rates, h.peak, h.occLog⟩

/-- the errors `EVSE.set_pilot` can raise -/
def IsPilotErr (e : EventCore.Err) : Prop := e = .invalidRate ∨ e = .valueError

theorem plan_err {cfg : Cfg K} {st : Station K} {p ν : K} {o : Option (Ev K)} {e : EventCore.Err}
    (h : plan cfg st p o ν = .error e) : IsPilotErr e := by
  unfold plan at h
  split at h
  · cases o with
    | none => simp at h
    | some x =>
      simp only at h
      split at h
      · simp only [Except.error.injEq] at h; exact Or.inr h.symm
      · simp at h
  · simp only [Except.error.injEq] at h; exact Or.inl h.symm

theorem setPilotAt_frame (cfg : Cfg K) (s : State K) (i : Nat) (st : Station K) :
    (setPilotAt cfg s i st).1.core = s.core ∧ (setPilotAt cfg s i st).1.pilots = s.pilots ∧
    (setPilotAt cfg s i st).1.rates = s.rates ∧ (setPilotAt cfg s i st).1.peak = s.peak ∧
    (setPilotAt cfg s i st).1.occLog = s.occLog := by
  rw [setPilotAt_plan]
  split <;> exact ⟨rfl, rfl, rfl, rfl, rfl⟩

theorem setPilotAt_err {cfg : Cfg K} {s r : State K} {i : Nat} {st : Station K} {e : EventCore.Err}
    (h : setPilotAt cfg s i st = (r, some e)) : IsPilotErr e := by
  rw [setPilotAt_plan] at h
  cases hp : plan cfg st (s.pilots.get i s.core.iter) (occupantEv s st.id) (noiseAt cfg s.noiseIdx) with
  | ok u => rw [hp] at h; simp at h
  | error e' =>
    rw [hp] at h
    simp only [Prod.mk.injEq, Option.some.injEq] at h
    rw [← h.2]
    exact plan_err hp

theorem updList_frame (cfg : Cfg K) : ∀ (l : List (Nat × Station K)) (s : State K),
    (updList cfg l s).1.core = s.core ∧ (updList cfg l s).1.pilots = s.pilots ∧
    (updList cfg l s).1.rates = s.rates ∧ (updList cfg l s).1.peak = s.peak ∧
    (updList cfg l s).1.occLog = s.occLog := by
  intro l
  induction l with
  | nil => intro s; exact ⟨rfl, rfl, rfl, rfl, rfl⟩
  | cons a rest ih =>
    intro s
    obtain ⟨i, st⟩ := a
    simp only [updList]
    have hf := setPilotAt_frame cfg s i st
    rcases hs : setPilotAt cfg s i st with ⟨s1, _ | e⟩
    · rw [hs] at hf
      simp only at hf ⊢
      obtain ⟨a1, a2, a3, a4, a5⟩ := ih s1
      exact ⟨a1.trans hf.1, a2.trans hf.2.1, a3.trans hf.2.2.1, a4.trans hf.2.2.2.1, a5.trans hf.2.2.2.2⟩
    · rw [hs] at hf
      exact hf

theorem updList_err (cfg : Cfg K) : ∀ (l : List (Nat × Station K)) (s r : State K) (e : EventCore.Err),
    updList cfg l s = (r, some e) → IsPilotErr e := by
  intro l
  induction l with
  | nil => intro s r e h; simp [updList] at h
  | cons a rest ih =>
    intro s r e h
    obtain ⟨i, st⟩ := a
    simp only [updList] at h
    rcases hs : setPilotAt cfg s i st with ⟨s1, _ | e1⟩
    · rw [hs] at h; exact ih s1 r e h
    · rw [hs] at h
      simp only [Prod.mk.injEq, Option.some.injEq] at h
      rw [← h.2]
      exact setPilotAt_err hs

section
variable {σ : List Nat} {d : Station K} {cfg : Cfg K}

/-- `update_pilots` raises in the original registration order ⇒ it raises in the permuted one; the
    states at the two aborts agree on everything the loop does not write -/
theorem updatePilots_raise (h : PermOK σ cfg) {s s' r : State K} {e : EventCore.Err} (he : StEquiv σ s s')
    (hs : Shape cfg.stations.length s) (ho : OccSound cfg.core s.core.occ)
    (hr : updatePilots cfg s = (r, some e)) :
    ∃ r' e', updatePilots (permCfg σ d cfg) s' = (r', some e') ∧ IsPilotErr e ∧ IsPilotErr e' ∧
      AbortEquiv σ r r' := by
  have hn := perm_length h.perm
  unfold updatePilots at hr
  rw [updatePilotsFrom_eq cfg d] at hr
  simp only [Nat.zero_add] at hr
  have hperm : ((List.range cfg.stations.length).map fun k => (k, cfg.stations.getD k d)).Perm
      (σ.map fun k => (k, cfg.stations.getD k d)) := (h.perm.symm.map _)
  have hpw : ((List.range cfg.stations.length).map fun k => (k, cfg.stations.getD k d)).Pairwise
      (Apart s.core.occ) := by
    rw [List.pairwise_map]
    refine List.Pairwise.imp_of_mem ?_ (List.nodup_range (n := cfg.stations.length))
    intro a b ha hb hab
    exact apart_of_occSound (d := d) h ho (List.mem_range.1 ha) (List.mem_range.1 hb) hab
  have hpwσ : (σ.map fun k => (k, cfg.stations.getD k d)).Pairwise (Apart s.core.occ) :=
    (hperm.pairwise_iff (fun {a b} (hab : Apart s.core.occ a b) => hab.symm)).1 hpw
  -- the original loop in the order σ raises as well
  rcases hσr : updList cfg (σ.map fun k => (k, cfg.stations.getD k d)) s with ⟨r2, _ | e2⟩
  · have := updList_perm cfg h.noise hperm.symm s r2 hpwσ hσr
    rw [this] at hr
    simp at hr
  · have hσl : (σ.map fun k => (k, cfg.stations.getD k d)) =
        ((List.range σ.length).map fun j => (σ.getD j 0, cfg.stations.getD (σ.getD j 0) d)) := by
      conv_lhs => rw [← range_map_getD σ 0]
      rw [List.map_map]
      rfl
    rw [hσl] at hσr
    obtain ⟨h1, h2, _⟩ := updList_sim (d := d) h (List.range σ.length) (fun j hj => List.mem_range.1 hj) he hs
    rw [hσr] at h1 h2
    simp only at h1 h2
    have hlen : (permCfg σ d cfg).stations.length = σ.length := by simp [permCfg, reidx]
    have hl : ((List.range (permCfg σ d cfg).stations.length).map fun k => (0 + k, (permCfg σ d cfg).stations.getD k d)) =
        ((List.range σ.length).map fun j => (j, cfg.stations.getD (σ.getD j 0) d)) := by
      rw [hlen]
      apply List.map_congr_left
      intro j hj
      have hj' : j < σ.length := List.mem_range.1 hj
      simp only [Nat.zero_add, Prod.mk.injEq, true_and]
      exact getD_reidx σ cfg.stations d j hj'
    refine ⟨(updList (permCfg σ d cfg) ((List.range σ.length).map fun j => (j, cfg.stations.getD (σ.getD j 0) d)) s').1,
      e2, ?_, updList_err cfg _ _ _ _ hr, updList_err cfg _ _ _ _ hσr, ?_⟩
    · unfold updatePilots
      rw [updatePilotsFrom_eq (permCfg σ d cfg) d, hl]
      exact Prod.ext rfl h1
    · have f1 := updList_frame cfg ((List.range cfg.stations.length).map fun k => (k, cfg.stations.getD k d)) s
      rw [hr] at f1
      have f2 := updList_frame cfg ((List.range σ.length).map fun j => (σ.getD j 0, cfg.stations.getD (σ.getD j 0) d)) s
      rw [hσr] at f2
      simp only at f1 f2
      refine ⟨?_, ?_, ?_, ?_, ?_⟩
      · rw [h2.core, f2.1, f1.1]
      · rw [h2.pilots, f2.2.1, f1.2.1]
      · rw [h2.rates, f2.2.2.1, f1.2.2.1]
      · rw [h2.peak, f2.2.2.2.1, f1.2.2.2.1]
      · rw [h2.occLog, f2.2.2.2.2, f1.2.2.2.2]

theorem applyStage_occ (cfg : Cfg K) (s : State K) : (applyStage cfg s).1.core.occ = s.core.occ := by
  rw [applyStage_core_any]
  split <;> rfl

/-- the pilot application stage, two-sided: either the same outcome (error included) in fully related
    states, or `update_pilots` raised on both sides -/
theorem applyStage_equiv_E (h : PermOK σ cfg) {s s' : State K} (he : StEquiv σ s s')
    (hs : Shape cfg.stations.length s) (ho : OccSound cfg.core s.core.occ) :
    ((applyStage (permCfg σ d cfg) s').2 = (applyStage cfg s).2 ∧
      StEquiv σ (applyStage cfg s).1 (applyStage (permCfg σ d cfg) s').1 ∧
      Shape cfg.stations.length (applyStage cfg s).1) ∨
    (∃ e e', (applyStage cfg s).2 = some e ∧ (applyStage (permCfg σ d cfg) s').2 = some e' ∧
      IsPilotErr e ∧ IsPilotErr e' ∧ AbortEquiv σ (applyStage cfg s).1 (applyStage (permCfg σ d cfg) s').1) := by
  have hlt := perm_lt h.perm
  have hwi : widthInc s' = widthInc s := by simp only [widthInc, he.core]
  have he1 : StEquiv σ (widen s) (widen s') := by
    refine ⟨he.core, ?_, ?_, he.peak, he.evs, he.evsePilot, he.noiseIdx, he.occLog⟩
    · simp only [widen, hwi, he.pilots]
      exact Pilots.increaseWidth_reidx σ s.pilots _ (fun i hi => hs.pilots ▸ hlt i hi)
    · simp only [widen, hwi, he.rates]
      exact Pilots.increaseWidth_reidx σ s.rates _ (fun i hi => hs.rates ▸ hlt i hi)
  have hs1 : Shape cfg.stations.length (widen s) :=
    ⟨by simp only [widen, Pilots.increaseWidth_rows_length]; exact hs.pilots,
     by simp only [widen, Pilots.increaseWidth_rows_length]; exact hs.rates, hs.evsePilot⟩
  have hw : (widen s').pilots.width = (widen s).pilots.width := by rw [he1.pilots]; rfl
  unfold applyStage
  rw [hw, he.core, hwi]
  by_cases hwc : (widen s).pilots.width ≤ s.core.iter
  · simp only [hwc, if_true]
    exact Or.inl ⟨trivial, he1, hs1⟩
  · simp only [hwc, if_false]
    rcases hup : updatePilots cfg (widen s) with ⟨s2, _ | e2⟩
    · obtain ⟨s2', hup', he2, hs2⟩ := updatePilots_equiv (d := d) h he1 hs1 ho hup
      rw [hup']
      simp only
      obtain ⟨h1, he3, hs3⟩ := storeRates_equiv (d := d) h (widthInc s) he2 hs2
      rcases hst : storeRates cfg (widthInc s) s2 with ⟨s3, e3⟩
      rcases hst' : storeRates (permCfg σ d cfg) (widthInc s) s2' with ⟨s3', e3'⟩
      rw [hst] at h1 he3 hs3
      rw [hst'] at h1 he3
      simp only at h1 he3 hs3
      subst h1
      cases e3' with
      | some e => exact Or.inl ⟨rfl, he3, hs3⟩
      | none =>
        simp only
        refine Or.inl ⟨trivial, ⟨?_, he3.pilots, he3.rates, he3.peak, he3.evs, he3.evsePilot, he3.noiseIdx, ?_⟩,
          ⟨hs3.pilots, hs3.rates, hs3.evsePilot⟩⟩
        · simp only [he3.core]
        · simp only [he3.occLog, he3.core, List.map_append, List.map_cons, List.map_nil]
          congr 2
          exact (reidx_map _ σ cfg.stations d none hlt).symm
    · obtain ⟨r', e', hup', hp1, hp2, hab⟩ := updatePilots_raise (d := d) h he1 hs1 ho hup
      rw [hup']
      exact Or.inr ⟨e2, e', rfl, rfl, hp1, hp2, hab⟩

end
end Acn.SimEquiv
