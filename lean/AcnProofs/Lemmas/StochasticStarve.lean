/-
  C19, starvation freedom: the position of a waiting EV in the queue drops by (at least) one
  with every vacating event — the unplug of an EV that holds a station, or an early departure —
  so after `position + 1` of them it has been admitted (unless it departed first).
-/
import AcnProofs.Lemmas.StochasticRun

namespace Acn.Stoch

/-! ### list facts -/

theorem idxOf_erase_le {α : Type} [DecidableEq α] (x y : α) (hne : y ≠ x) :
    ∀ w : List α, (w.erase x).idxOf y ≤ w.idxOf y := by
  intro w
  induction w with
  | nil => simp
  | cons a t ih =>
    by_cases hax : a = x
    · subst hax
      rw [List.erase_cons_head, List.idxOf_cons_ne _ (Ne.symm hne)]
      exact Nat.le_succ _
    · rw [List.erase_cons_tail (by simpa using hax)]
      by_cases hay : a = y
      · subst hay; simp
      · rw [List.idxOf_cons_ne _ hay, List.idxOf_cons_ne _ hay]
        exact Nat.succ_le_succ ih

theorem idxOf_drop {α : Type} [DecidableEq α] (y : α) : ∀ (k : Nat) (w : List α), w.Nodup →
    y ∈ w.drop k → (w.drop k).idxOf y + k = w.idxOf y := by
  intro k
  induction k with
  | zero => intro w _ _; simp
  | succ k ih =>
    intro w hn hy
    cases w with
    | nil => simp at hy
    | cons a t =>
      rw [List.drop_succ_cons] at hy ⊢
      rw [List.nodup_cons] at hn
      have hay : a ≠ y := fun e => hn.1 (e ▸ (List.drop_sublist k t).subset hy)
      rw [List.idxOf_cons_ne _ hay, ← ih t hn.2 hy]
      omega

/-! ### what an operation does to the queue (no invariant needed) -/

theorem attach_waiting {s s1 : Net} {x : Sess} (hs : s.attach x = .ok s1) :
    s1.waiting = s.waiting := by
  unfold Net.attach at hs
  split at hs
  · cases hs
  · split at hs
    · split at hs
      · cases hs; rfl
      · cases hs
    · cases hs

theorem admitNext_waiting {s s1 : Net} {st : Station} (hs : s.admitNext st = .ok s1) :
    s1.waiting = s.waiting.tail := by
  unfold Net.admitNext at hs
  split at hs
  · rename_i hw; cases hs; rw [hw]; rfl
  · rename_i y w hw
    simp only [bind, Except.bind] at hs
    split at hs
    · cases hs
    · rename_i s3 h3
      cases hs
      have := attach_waiting h3
      simp only [Net.modEv] at this
      simp [this, hw]

/-- the unplug of `x` vacates a station: `x` is not queued and sits on the station named by its
    station id -/
def Net.vacates (s : Net) (x : Sess) : Bool :=
  !(s.waiting.contains x) &&
    (match (s.ev x).station with
     | some st => decide (st ∈ s.stations) && (s.occ st == some x)
     | none => false)

theorem unplug_waiting {s s1 : Net} {x : Sess} (hs : s.unplug (s.ev x).station x = .ok s1) :
    s1.waiting = if x ∈ s.waiting then s.waiting.erase x
      else if s.vacates x then s.waiting.tail else s.waiting := by
  unfold Net.unplug at hs
  split at hs
  · rename_i hx; cases hs; simp [hx]
  · rename_i hx
    rw [if_neg hx]
    split at hs
    · cases hs
    · rename_i st hst
      split at hs
      · rename_i hm
        split at hs
        · rename_i ho
          cases hs
          simp [Net.vacates, hst, ho]
        · rename_i z ho
          split at hs
          · rename_i hxz
            have := admitNext_waiting hs
            simp only [Net.setOcc] at this
            subst hxz
            simp [Net.vacates, hst, ho, hm, hx, this]
          · rename_i hxz
            cases hs
            have : ¬ (z = x) := fun e => hxz e.symm
            simp [Net.vacates, hst, ho, this]
      · cases hs

theorem plugin_waiting {cs : Nat → Nat} {s s1 : Net} {x : Sess} (hs : s.plugin cs x = .ok s1) :
    s1.waiting = s.waiting ∨ s1.waiting = s.waiting.erase x ++ [x] := by
  unfold Net.plugin at hs
  split at hs
  · cases hs; right; rfl
  · left
    have := attach_waiting hs
    simpa [Net.modEv] using this

/-! ### post_charging_update pops one queue head per early departure -/

theorem Inv.earlyStep_waiting {s s1 : Net} (h : Inv s) (x : Sess) (st : Station)
    (ho : s.occ st = some x) (hs : s.earlyStep x = .ok s1) : s1.waiting = s.waiting.tail := by
  cases hwq : s.waiting with
  | nil =>
    simp [Net.earlyStep, hwq, pure, Except.pure] at hs; cases hs; simp [hwq]
  | cons y w =>
    have hu := h.unplug_swap x y w st ho hwq
    simp only [Net.earlyStep, hwq, List.isEmpty_cons, hu, bind, Except.bind, pure, Except.pure,
      Bool.false_eq_true, ↓reduceIte] at hs
    cases hs
    simp [Net.modEv]

theorem fold_early_waiting : ∀ (L : List Sess) (s s1 : Net), Inv s → L.Nodup →
    (∀ z ∈ L, ∃ st, s.occ st = some z) → L.foldlM Net.earlyStep s = .ok s1 →
    s1.waiting = s.waiting.drop L.length := by
  intro L
  induction L with
  | nil => intro s s1 _ _ _ h; cases h; simp
  | cons x L ih =>
    intro s s1 h hn hocc hs
    obtain ⟨st, ho⟩ := hocc x (List.mem_cons_self)
    rw [List.foldlM_cons] at hs
    cases h2 : s.earlyStep x with
    | error e => rw [h2] at hs; cases hs
    | ok s2 =>
      rw [h2] at hs
      obtain ⟨hi2, _, hk2, _, _⟩ := h.earlyStep x st ho h2
      rw [List.nodup_cons] at hn
      have := ih s2 s1 hi2 hn.2 (by
        intro z hz
        obtain ⟨t, ht⟩ := hocc z (List.mem_cons_of_mem _ hz)
        exact ⟨t, hk2 t z (fun e => hn.1 (e ▸ hz)) ht⟩) hs
      rw [this, h.earlyStep_waiting x st ho h2, List.length_cons, ← List.drop_one, List.drop_drop]
      congr 1; omega

theorem Inv.post_waiting {s s1 : Net} (h : Inv s) (full : Sess → Bool) (hs : s.post full = .ok s1) :
    s1.waiting = if s.earlyDeparture then s.waiting.drop (s.fullyCharged full).length else s.waiting := by
  unfold Net.post at hs
  split at hs
  · rename_i he
    rw [if_pos he]
    exact fold_early_waiting _ s s1 h (h.fullyCharged_nodup full) (fun z hz => mem_fullyCharged hz) hs
  · rename_i he
    cases hs; simp [he]

/-! ### vacating events and the position in the queue -/

/-- number of stations a step hands on to the queue (at most the queue's length is used) -/
def vacOf (s : Net) : Step → Nat
  | .ev e => if e.kind = .unplug ∧ s.vacates e.sess = true then 1 else 0
  | .post full => if s.earlyDeparture then min (s.fullyCharged full).length s.waiting.length else 0

/-- vacating events along a run -/
def vacCount (cs : Nat → Nat) : Net → List Step → Nat
  | _, [] => 0
  | s, st :: r =>
    match s.step cs st with
    | .ok s1 => vacOf s st + vacCount cs s1 r
    | .error _ => 0

theorem step_position {cs : Nat → Nat} {s s1 : Net} {st : Step} (h : Inv s)
    (hadm : ∀ e, st = .ev e → e.kind = .plugin → (s.ev e.sess).arrived = false)
    (hs : s.step cs st = .ok s1) (y : Sess) (hy1 : y ∈ s1.waiting) :
    y ∈ s.waiting ∨ (∃ e, st = .ev e ∧ e.kind = .plugin ∧ e.sess = y) := by
  cases st with
  | post full =>
    left
    have := h.post_waiting full hs
    rw [this] at hy1
    split at hy1
    · exact (List.drop_sublist _ _).subset hy1
    · exact hy1
  | ev e =>
    simp only [Net.step, Net.processEvent] at hs
    cases hk : e.kind with
    | recompute => simp only [hk, pure, Except.pure] at hs; cases hs; exact Or.inl hy1
    | unplug =>
      simp only [hk, bind, Except.bind, pure, Except.pure] at hs
      cases h2 : s.unplug (s.ev e.sess).station e.sess with
      | error er => rw [h2] at hs; cases hs
      | ok s2 =>
        rw [h2] at hs; cases hs
        have hw := unplug_waiting h2
        simp only [Net.modEv] at hy1
        rw [hw] at hy1
        left
        split at hy1
        · exact List.mem_of_mem_erase hy1
        · split at hy1
          · exact List.mem_of_mem_tail hy1
          · exact hy1
    | plugin =>
      simp only [hk, bind, Except.bind, pure, Except.pure] at hs
      cases h2 : s.plugin cs e.sess with
      | error er => rw [h2] at hs; cases hs
      | ok s2 =>
        rw [h2] at hs; cases hs
        simp only [Net.modEv] at hy1
        rcases plugin_waiting h2 with hw | hw
        · rw [hw] at hy1; exact Or.inl hy1
        · rw [hw] at hy1
          rcases List.mem_append.1 hy1 with hy | hy
          · exact Or.inl (List.mem_of_mem_erase hy)
          · right; exact ⟨e, rfl, hk, (List.mem_singleton.1 hy).symm⟩

/-- while an EV keeps waiting, every vacating event moves it (at least) one place forward -/
theorem step_advance {cs : Nat → Nat} {s s1 : Net} {st : Step} (h : Inv s)
    (hadm : ∀ e, st = .ev e → e.kind = .plugin → (s.ev e.sess).arrived = false)
    (hs : s.step cs st = .ok s1) (y : Sess) (hy : y ∈ s.waiting) (hy1 : y ∈ s1.waiting) :
    s1.waiting.idxOf y + vacOf s st ≤ s.waiting.idxOf y := by
  have hnd := h.waiting_nodup
  cases st with
  | post full =>
    have hw := h.post_waiting full hs
    simp only [vacOf]
    split at hw
    · rename_i he
      rw [if_pos he]
      rw [hw] at hy1 ⊢
      have := idxOf_drop y _ _ hnd hy1
      omega
    · rename_i he
      rw [if_neg he, hw]; omega
  | ev e =>
    simp only [Net.step, Net.processEvent] at hs
    cases hk : e.kind with
    | recompute =>
      simp only [hk, pure, Except.pure] at hs; cases hs
      simp [vacOf, hk]
    | unplug =>
      simp only [hk, bind, Except.bind, pure, Except.pure] at hs
      cases h2 : s.unplug (s.ev e.sess).station e.sess with
      | error er => rw [h2] at hs; cases hs
      | ok s2 =>
        rw [h2] at hs; cases hs
        have hw := unplug_waiting h2
        simp only [Net.modEv] at hy1 ⊢
        simp only [vacOf, hk, true_and]
        by_cases hx : e.sess ∈ s.waiting
        · have hv : s.vacates e.sess = false := by simp [Net.vacates, hx]
          rw [if_pos hx] at hw
          rw [hw] at hy1 ⊢
          have hne : y ≠ e.sess := ((hnd.mem_erase_iff).1 hy1).1
          simp only [hv, Bool.false_eq_true, ↓reduceIte, Nat.add_zero]
          exact idxOf_erase_le _ _ hne _
        · rw [if_neg hx] at hw
          by_cases hv : s.vacates e.sess = true
          · rw [if_pos hv] at hw
            rw [hw] at hy1 ⊢
            simp only [hv, ↓reduceIte]
            have := idxOf_drop y 1 _ hnd (by simpa using hy1)
            simpa using this.le
          · rw [if_neg hv] at hw
            have hv' : s.vacates e.sess = false := by simpa using hv
            simp [hv', hw]
    | plugin =>
      simp only [hk, bind, Except.bind, pure, Except.pure] at hs
      cases h2 : s.plugin cs e.sess with
      | error er => rw [h2] at hs; cases hs
      | ok s2 =>
        rw [h2] at hs; cases hs
        simp only [Net.modEv]
        have hxw : e.sess ∉ s.waiting := by
          rw [h.mem_waiting]; simp [hadm e rfl hk]
        simp only [vacOf, hk]
        rcases plugin_waiting h2 with hw | hw
        · rw [hw]; simp
        · rw [hw, List.erase_of_not_mem hxw, List.idxOf_append_of_mem hy]; simp

/-! ### along a run -/

theorem step_good {cs : Nat → Nat} {s s1 : Net} {done : List Event} {st : Step} {r : List Step}
    (h : Inv s) (tr : Track done s) (hwf : WFHist (done ++ evProj (st :: r)))
    (hs : s.step cs st = .ok s1) :
    Inv s1 ∧ Track (done ++ evProj [st]) s1 ∧
      (∀ e, st = .ev e → e.kind = .plugin → (s.ev e.sess).arrived = false) := by
  cases st with
  | post full =>
    obtain ⟨s1', h1, hi, hf⟩ := h.post full
    simp only [Net.step] at hs
    rw [h1] at hs; cases hs
    refine ⟨hi, ?_, fun e he => by cases he⟩
    simp only [evProj, List.append_nil]
    exact ⟨fun x => by rw [(hf x).1]; exact tr.arrived_iff x,
           fun x => by rw [(hf x).2]; exact tr.departed_iff x⟩
  | ev e =>
    have hwf' : WFHist (done ++ e :: evProj r) := by simpa [evProj] using hwf
    obtain ⟨s1', h1, hi, tr1⟩ := step_ev (cs := cs) h tr hwf'
    simp only [Net.step] at hs
    rw [h1] at hs; cases hs
    refine ⟨hi, by simpa [evProj] using tr1, ?_⟩
    intro e' he hk
    cases he
    have hfresh := hwf'.fresh (by rw [hk]; simp)
    by_contra hc
    have : (s.ev e.sess).arrived = true := by simpa using hc
    obtain ⟨a, ha, hk', hs'⟩ := (tr.arrived_iff _).1 this
    exact hfresh ⟨a, ha, by rw [hk', hk], hs'⟩

/-- an EV that has arrived and is not in the queue never enters it again -/
theorem never_back (cs : Nat → Nat) (y : Sess) : ∀ (steps : List Step) (done : List Event) (s s' : Net),
    Inv s → Track done s → WFHist (done ++ evProj steps) → (s.ev y).arrived = true →
    y ∉ s.waiting → s.run cs steps = .ok s' → y ∉ s'.waiting := by
  intro steps
  induction steps with
  | nil => intro done s s' _ _ _ _ hy h; cases h; exact hy
  | cons st r ih =>
    intro done s s' h tr hwf ha hy hrun
    simp only [Net.run, List.foldlM_cons, bind, Except.bind] at hrun
    cases h1 : s.step cs st with
    | error e => rw [h1] at hrun; cases hrun
    | ok s1 =>
      rw [h1] at hrun
      obtain ⟨hi1, tr1, hadm⟩ := step_good h tr hwf h1
      have hwf1 : WFHist ((done ++ evProj [st]) ++ evProj r) := by
        cases st <;> simpa [evProj] using hwf
      have ha1 : (s1.ev y).arrived = true := by
        rw [tr1.arrived_iff]
        obtain ⟨a, ha', hk⟩ := (tr.arrived_iff y).1 ha
        exact ⟨a, List.mem_append_left _ ha', hk⟩
      refine ih _ s1 s' hi1 tr1 hwf1 ha1 ?_ hrun
      intro hy1
      rcases step_position h hadm h1 y hy1 with hw | ⟨e, he, hk, hs⟩
      · exact hy hw
      · have := hadm e he hk
        rw [hs, ha] at this; cases this

/-- while `y` keeps waiting, its position has dropped by the number of vacating events so far -/
theorem run_advance (cs : Nat → Nat) (y : Sess) : ∀ (steps : List Step) (done : List Event) (s s' : Net),
    Inv s → Track done s → WFHist (done ++ evProj steps) → y ∈ s.waiting →
    s.run cs steps = .ok s' → y ∈ s'.waiting →
    s'.waiting.idxOf y + vacCount cs s steps ≤ s.waiting.idxOf y := by
  intro steps
  induction steps with
  | nil => intro done s s' _ _ _ _ h _; cases h; simp [vacCount]
  | cons st r ih =>
    intro done s s' h tr hwf hy hrun hy'
    simp only [Net.run, List.foldlM_cons, bind, Except.bind] at hrun
    cases h1 : s.step cs st with
    | error e => rw [h1] at hrun; cases hrun
    | ok s1 =>
      rw [h1] at hrun
      obtain ⟨hi1, tr1, hadm⟩ := step_good h tr hwf h1
      have hwf1 : WFHist ((done ++ evProj [st]) ++ evProj r) := by
        cases st <;> simpa [evProj] using hwf
      have ha : (s.ev y).arrived = true := ((h.mem_waiting y).1 hy).1
      have ha1 : (s1.ev y).arrived = true := by
        rw [tr1.arrived_iff]
        obtain ⟨a, ha', hk⟩ := (tr.arrived_iff y).1 ha
        exact ⟨a, List.mem_append_left _ ha', hk⟩
      by_cases hy1 : y ∈ s1.waiting
      · have := ih _ s1 s' hi1 tr1 hwf1 hy1 hrun hy'
        have h2 := step_advance h hadm h1 y hy hy1
        simp only [vacCount, h1]
        omega
      · exact absurd hy' (never_back cs y r _ s1 s' hi1 tr1 hwf1 ha1 hy1 hrun)

end Acn.Stoch
