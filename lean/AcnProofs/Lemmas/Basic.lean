/-
  Bridges between the model's order-only primitives (`pyMin`, `pyMax`, `absK`) and the
  usual `min`, `max`, `|·|` of a linear ordered field.
-/
import AcnModel.Num
import Mathlib.Algebra.Order.Field.Basic
import Mathlib.Algebra.Order.AbsoluteValue.Basic
import Mathlib.Tactic.Linarith
import Mathlib.Tactic.Ring

namespace Acn
variable {K : Type} [Field K] [LinearOrder K] [IsStrictOrderedRing K]

@[simp] theorem pyMin_eq_min (a b : K) : pyMin a b = min a b := by
  unfold pyMin; split
  · rw [min_eq_right (le_of_lt ‹_›)]
  · rw [min_eq_left (not_lt.mp ‹_›)]

@[simp] theorem pyMax_eq_max (a b : K) : pyMax a b = max a b := by
  unfold pyMax; split
  · rw [max_eq_right (le_of_lt ‹_›)]
  · rw [max_eq_left (not_lt.mp ‹_›)]

@[simp] theorem pyMin3_eq (a b c : K) : pyMin3 a b c = min (min a b) c := by
  simp [pyMin3]

@[simp] theorem pyMin4_eq (a b c d : K) : pyMin4 a b c d = min (min (min a b) c) d := by
  simp [pyMin4]

@[simp] theorem absK_eq_abs (a : K) : absK a = |a| := by
  unfold absK; split
  · rw [abs_of_neg ‹_›]
  · rw [abs_of_nonneg (not_lt.mp ‹_›)]

end Acn
