/-
  Helper lemmas for C09 (registry, scalar codec): the CONCRETE codec `jsonShow d` / `jsonRead d`
  (`AcnModel/RegistryJson.lean`: every leaf is written and read as CPython's `json` module does) is `Lawful`,
  from the one assumption about doubles `d.RoundTrip`.  Integers (negative ones too), naturals, strings, `None`
  and the matrices (nested lists of floats inside a dict) need nothing beyond it.
-/
import AcnProofs.Lemmas.JsonTextRoundtrip
import AcnProofs.Lemmas.RegistryDecode
import AcnModel.RegistryJson
namespace Acn.RegistryJson
open Acn Acn.Registry Acn.RegistrySim Acn.JsonText

variable {K : Type}

theorem toList_tag (a b : Char) (s : String) : (String.ofList [a, b] ++ s).toList = a :: b :: s.toList := by
  simp [String.toList_append]

theorem tag_f : "f:" = String.ofList ['f', ':'] := by decide
theorem tag_m : "m:" = String.ofList ['m', ':'] := by decide
theorem tag_i : "i:" = String.ofList ['i', ':'] := by decide
theorem tag_s : "s:" = String.ofList ['s', ':'] := by decide
theorem tag_b : "b:" = String.ofList ['b', ':'] := by decide

theorem untag_tag (a b : Char) (s : String) : untag a b (String.ofList [a, b] ++ s) = some s.toList := by
  simp [untag]

theorem untag_null (a b : Char) (h : a ≠ 'n') : untag a b "null" = none := by
  have : "null".toList = ['n', 'u', 'l', 'l'] := by decide
  simp [untag, this, Ne.symm h]

/-- `int(repr(n)) = n` through the document parser: the text of an int is read back as an `int` -/
theorem parse_renderInt (n : Int) : parse (toString n).toList = some (.int n) :=
  parse_render (.int n) rfl

theorem sequence_map_some {α β : Type} (f : α → β) (g : β → Option α) (h : ∀ a, g (f a) = some a) (l : List α) :
    RegistrySim.sequence ((l.map f).map g) = some l := by
  induction l with
  | nil => rfl
  | cons a l ih => simp only [List.map_cons, RegistrySim.sequence, h, ih]

theorem matJ_wf (d : DoubleText K) (hd : d.RoundTrip) (m : Pilots.Mat K) : (matJ d m).wf = true := by
  have hrow : ∀ r : List K, wfList (r.map fun x => JVal.num (d.repr x)) = true := by
    intro r
    induction r with
    | nil => rfl
    | cons x r ih => simp [wfList, JVal.wf, hd.float_tok, ih]
  have hrows : ∀ rs : List (List K), wfList (rs.map fun r => JVal.arr (r.map fun x => JVal.num (d.repr x))) = true := by
    intro rs
    induction rs with
    | nil => rfl
    | cons r rs ih => simp [wfList, JVal.wf, hrow, ih]
  simp [matJ, JVal.wf, wfMembers, hrows]

theorem matOfJ_matJ (d : DoubleText K) (hd : d.RoundTrip) (m : Pilots.Mat K) : matOfJ d (matJ d m) = some m := by
  have hrow : ∀ r : List K, rowOfJ d (JVal.arr (r.map fun x => JVal.num (d.repr x))) = some r := by
    intro r
    simp only [rowOfJ]
    exact sequence_map_some (fun x => JVal.num (d.repr x)) (numOfJ d) (fun x => by simp [numOfJ, hd.read_repr]) r
  have hrows := sequence_map_some (fun r : List K => JVal.arr (r.map fun x => JVal.num (d.repr x))) (rowOfJ d) hrow m.rows
  simp only [matJ, matOfJ]
  simp only [true_and, Int.natCast_nonneg, if_true, hrows]
  cases m
  simp

/-- THE INSTANCE: the scalar codec that writes and reads what CPython's `json` writes and reads is lawful —
    for `int` (any sign), `str`, `None`, and the float matrices outright, for `float` by `d.RoundTrip` -/
theorem jsonLawful (d : DoubleText K) (hd : d.RoundTrip) : Lawful (jsonShow d) (jsonRead d) where
  num x := by
    simp only [jsonRead, jsonShow]
    rw [tag_f, untag_tag]
    simp [hd.read_repr]
  mat m := by
    simp only [jsonRead, jsonShow]
    rw [tag_m, untag_tag]
    simp [parse_render _ (matJ_wf d hd m), matOfJ_matJ d hd m]
  int n := by
    simp only [jsonRead]
    rw [tag_i, untag_tag, Option.bind_some, parse_renderInt]
    rfl
  nat n := by
    simp only [jsonRead]
    rw [tag_i, untag_tag]
    have : (toString n).toList = (toString (n : Int)).toList := by
      show n.repr.toList = (Int.repr (n : Int)).toList
      rw [Int.repr_eq_if]; simp
    rw [Option.bind_some, this, parse_renderInt]
    simp [intOfJ]
  str x := by
    simp only [jsonRead]
    rw [tag_s, untag_tag]
    simp
  int_null := by
    simp only [jsonRead]
    rw [untag_null _ _ (by decide)]
    rfl

end Acn.RegistryJson
