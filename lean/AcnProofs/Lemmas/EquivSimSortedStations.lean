/-
  Helper lemmas for C10 (Sim level, stations × the modelled algorithms): the adapters
  `SimSorted.sortedSched` (greedy `sorting_algorithm`, interruptible, no estimator) and
  `SimSorted.uncontrolledSched`, built from the PERMUTED configuration and network description, answer
  station-permuted views with the same dict — `SchedEquivariantD` — whenever the original call meets
  no tie in its sort key (resp. no two active sessions on one station).
-/
import AcnProofs.Lemmas.EquivSortedStations
import AcnProofs.Lemmas.SchedView

set_option linter.unusedSectionVars false
set_option linter.unusedSimpArgs false
set_option linter.unusedVariables false

namespace Acn.SimSorted
open Acn Acn.Sim Acn.Sorted Acn.Feas Acn.SimEquiv

variable {K : Type} [Field K] [LinearOrder K] [IsStrictOrderedRing K] [HasExp K]

/-! ### the network description with permuted columns -/

def reNet (σ : List Nat) (net : NetInfo K) : NetInfo K :=
  { net with M := net.M.map (fun row => reidx σ row 0), cos := reidx σ net.cos 0, sin := reidx σ net.sin 0 }

/-- one coefficient and one phasor per station -/
structure NetOK (n : Nat) (net : NetInfo K) : Prop where
  rows : ∀ row ∈ net.M, row.length = n
  cos : net.cos.length = n
  sin : net.sin.length = n

theorem feasOf_reNet {σ : List Nat} {n : Nat} (hσ : σ.Perm (List.range n)) {net : NetInfo K} (hnet : NetOK n net)
    (x : List K) (hx : x.length = n) : feasOf (reNet σ net) (reidx σ x 0) = feasOf net x := by
  unfold feasOf reNet
  simp only
  rw [algFeasible_eq_rows, algFeasible_eq_rows, List.zip_map_left, List.all_map]
  rw [Bool.eq_iff_iff, List.all_eq_true, List.all_eq_true]
  have key : ∀ p ∈ List.zip net.M net.lims,
      rowOk (reidx σ p.1 0) p.2 net.vt net.rt (reidx σ net.cos 0) (reidx σ net.sin 0) (reidx σ x 0)
        = rowOk p.1 p.2 net.vt net.rt net.cos net.sin x := by
    intro p hp
    have hr := hnet.rows p.1 (List.of_mem_zip (show (p.1, p.2) ∈ List.zip net.M net.lims from hp)).1
    exact rowOk_reidx σ n hσ p.1 p.2 net.vt net.rt net.cos net.sin x hr hnet.cos hnet.sin hx
  constructor
  · intro H p hp
    have h1 := H p hp
    have k := key p hp
    obtain ⟨row, lim⟩ := p
    simp only [Function.comp, Prod.map, id] at h1 k ⊢
    rw [← k]
    exact h1
  · intro H p hp
    have h1 := H p hp
    have k := key p hp
    obtain ⟨row, lim⟩ := p
    simp only [Function.comp, Prod.map, id] at h1 k ⊢
    rw [k]
    exact h1

/-! ### the infrastructure of the permuted configuration -/

theorem infraOf_perm {σ : List Nat} {d : Station K} {cfg : Cfg K} (h : PermOK σ cfg) (inf : K) :
    infraOf inf (permCfg σ d cfg) = reInfra σ (infraOf inf cfg) := by
  have hlt := perm_lt h.perm
  unfold infraOf reInfra permCfg
  simp only
  rw [← reidx_map (fun st : Station K => st.id) σ cfg.stations d "" hlt,
    ← reidx_map (fun st : Station K => boundOr inf (Evse.maxRate st.kind)) σ cfg.stations d 0 hlt,
    ← reidx_map (fun st : Station K => Evse.minRate st.kind) σ cfg.stations d 0 hlt,
    ← reidx_map (fun st : Station K => st.voltage) σ cfg.stations d 0 hlt,
    ← reidx_map (fun st : Station K => Evse.isContinuous st.kind) σ cfg.stations d true hlt,
    ← reidx_map (fun st : Station K => (Evse.allowable st.kind).map (boundOr inf)) σ cfg.stations d [] hlt]

/-! ### schedulers that refuse what the theorem does not cover -/

open Classical in
/-- the scheduler that raises on views outside `P` -/
noncomputable def guardView (P : View K → Prop) (sched : View K → Except EventCore.Err (Schedule K)) :
    View K → Except EventCore.Err (Schedule K) :=
  fun v => if P v then sched v else .error .schedulerFailed

theorem guardView_refines (P : View K → Prop) (sched : View K → Except EventCore.Err (Schedule K)) :
    Refines (guardView P sched) sched := by
  intro v a h
  unfold guardView at h
  split at h
  · exact h
  · cases h

/-- no two sessions the call works on share their sort key (the sessions are the active ones, after
    `remove_finished_sessions` and `enforce_pilot_limit`) -/
def TieFree (inf : K) (cfg : Cfg K) (kind : SortKind) (v : View K) : Prop :=
  ∀ a ∈ preOf (infraOf inf cfg) cfg.period (v.active.map (sessionOfEv inf v.iter)),
    ∀ b ∈ preOf (infraOf inf cfg) cfg.period (v.active.map (sessionOfEv inf v.iter)),
      Acn.C08.sameKey kind (infraOf inf cfg) cfg.period (v.iter : Int) a b = true → a = b

theorem pairwise_forall_ne {α : Type} {R : α → α → Prop} (hs : ∀ a b, R a b → R b a) :
    ∀ l : List α, l.Pairwise R → ∀ a ∈ l, ∀ b ∈ l, a ≠ b → R a b := by
  intro l
  induction l with
  | nil => intro _ a ha; cases ha
  | cons x xs ih =>
    intro hp a ha b hb hne
    rw [List.pairwise_cons] at hp
    rcases List.mem_cons.1 ha with rfl | ha'
    · rcases List.mem_cons.1 hb with rfl | hb'
      · exact absurd rfl hne
      · exact hp.1 b hb'
    · rcases List.mem_cons.1 hb with rfl | hb'
      · exact hs _ _ (hp.1 a ha')
      · exact ih hp.2 a ha' b hb' hne

/-- the decidable form: pairwise different keys -/
theorem tieFree_of_pairwise (inf : K) (cfg : Cfg K) (kind : SortKind) (v : View K)
    (h : (preOf (infraOf inf cfg) cfg.period (v.active.map (sessionOfEv inf v.iter))).Pairwise
      (fun a b => Acn.C08.sameKey kind (infraOf inf cfg) cfg.period (v.iter : Int) a b = false)) :
    TieFree inf cfg kind v := by
  intro a ha b hb hk
  by_contra hne
  have := pairwise_forall_ne (R := fun a b : Sorted.Session K =>
      Acn.C08.sameKey kind (infraOf inf cfg) cfg.period (v.iter : Int) a b = false)
    (by
      intro x y hxy
      simp only [Acn.C08.sameKey] at hxy ⊢
      rw [Bool.and_comm]; exact hxy) _ h a ha b hb hne
  rw [hk] at this
  exact Bool.noConfusion this

/-- a guard that holds on every view handed out changes nothing -/
theorem run_guardView (cfg : Cfg K) (P : View K → Prop) (sched : View K → Except EventCore.Err (Schedule K))
    (n : Nat) (s : State K) (h : ∀ v ∈ runViews cfg sched n s, P v) :
    Sim.run cfg (guardView P sched) n s = Sim.run cfg sched n s :=
  (Sim.run_congr cfg sched (guardView P sched) n s (fun v hv => by simp [guardView, h v hv])).1

/-- no two active sessions on one station (true of every view the simulator hands out) -/
def OnePerStation (v : View K) : Prop := (v.active.map (·.station)).Nodup

section
variable {σ : List Nat} {d : Station K} {cfg : Cfg K}

theorem sortedSched_equivariantD [HasCeilNat K] (h : PermOK σ cfg) {net : NetInfo K}
    (hnet : NetOK cfg.stations.length net) (inf : K) (scfg : Config K)
    (hu : scfg.uninterrupted = false) :
    SchedEquivariantD σ (guardView (TieFree inf cfg scfg.sort) (sortedSched net inf cfg scfg))
      (sortedSched (reNet σ net) inf (permCfg σ d cfg) scfg) := by
  intro v v' a hv hsa
  unfold guardView at hsa
  split at hsa
  swap
  · cases hsa
  rename_i htf
  unfold sortedSched at hsa ⊢
  simp only at hsa ⊢
  have hids : (infraOf inf cfg).ids.length = cfg.stations.length := by simp [infraOf]
  have hnd : (infraOf inf cfg).ids.Nodup := h.nodup
  have hp : (v'.active.map (sessionOfEv inf v'.iter)).Perm (v.active.map (sessionOfEv inf v.iter)) := by
    rw [hv.iter]; exact hv.active.map _
  have hper : (permCfg σ d cfg).period = cfg.period := rfl
  cases hres : (scheduleCall (feasOf net) { scfg with estimate := false } (infraOf inf cfg) cfg.period (v.iter : Int)
      (fun _ => none) { upTh := 0, downTh := 0, upInc := 0, bounds := [] }
      (v.active.map (sessionOfEv inf v.iter))).result with
  | error e => rw [hres] at hsa; cases hsa
  | ok out =>
    rw [hres] at hsa
    simp only [Except.ok.injEq] at hsa
    have hallow : (infraOf inf cfg).allow.length = cfg.stations.length := by simp [infraOf]
    obtain ⟨h1, h2⟩ : (scheduleCall (feasOf (reNet σ net)) { scfg with estimate := false }
          (reInfra σ (infraOf inf cfg)) cfg.period (v.iter : Int) (fun _ => none)
          { upTh := 0, downTh := 0, upInc := 0, bounds := [] } (v'.active.map (sessionOfEv inf v'.iter))).result
          = .ok (reidx σ out 0) ∧ out.length = cfg.stations.length := by
      by_cases ha : scfg.algo = .greedy
      · exact scheduleCall_greedy_mv h.perm (infraOf inf cfg) (feasOf net) (feasOf (reNet σ net))
          (feasOf_reNet h.perm hnet) hids hnd { scfg with estimate := false } rfl hu ha cfg.period (v.iter : Int)
          (fun _ => none) { upTh := 0, downTh := 0, upInc := 0, bounds := [] } hp htf hres
      · have ha : scfg.algo = .roundRobin := by
          cases hh : scfg.algo with
          | greedy => exact absurd hh ha
          | roundRobin => rfl
        exact scheduleCall_rr_mv h.perm (infraOf inf cfg) (feasOf net) (feasOf (reNet σ net))
          (feasOf_reNet h.perm hnet) hids hnd hallow { scfg with estimate := false } rfl hu ha cfg.period (v.iter : Int)
          (fun _ => none) { upTh := 0, downTh := 0, upInc := 0, bounds := [] } hp htf hres
    rw [hv.iter] at h1
    rw [infraOf_perm h, hper, hv.iter, h1]
    refine ⟨_, rfl, ?_⟩
    rw [← hsa]
    exact format_dictEq h.perm (infraOf inf cfg) hids hnd out h2

theorem uncontrolledSched_equivariantD (h : PermOK σ cfg) (inf : K) :
    SchedEquivariantD σ (guardView OnePerStation (uncontrolledSched inf cfg))
      (uncontrolledSched inf (permCfg σ d cfg)) := by
  intro v v' a hv hsa
  unfold guardView at hsa
  split at hsa
  swap
  · cases hsa
  rename_i hone
  unfold uncontrolledSched at hsa ⊢
  simp only at hsa ⊢
  have hids : (infraOf inf cfg).ids.length = cfg.stations.length := by simp [infraOf]
  have hnd : (infraOf inf cfg).ids.Nodup := h.nodup
  have hp : (v'.active.map (sessionOfEv inf v'.iter)).Perm (v.active.map (sessionOfEv inf v.iter)) := by
    rw [hv.iter]; exact hv.active.map _
  have hst : ((v.active.map (sessionOfEv inf v.iter)).map (·.station)).Nodup := by
    rw [List.map_map]; exact hone
  cases hres : resolve (infraOf inf cfg) (v.active.map (sessionOfEv inf v.iter)) with
  | error e => rw [hres] at hsa; cases hsa
  | ok l =>
    rw [hres] at hsa
    simp only [Except.ok.injEq] at hsa
    obtain ⟨l', hr', hde⟩ := uncontrolled_mv h.perm (infraOf inf cfg) hids hnd hp hst hres
    rw [infraOf_perm h, hr']
    refine ⟨_, rfl, ?_⟩
    rw [← hsa]
    exact hde

end
end Acn.SimSorted
