/-
  Helper lemmas for C08: the discrete walk returns the FIRST passing level, the bisection brackets
  the supremum under interval feasibility, sortedness of the stable insertion sort.
-/
import AcnProofs.Lemmas.SortedBasic

set_option linter.unusedSectionVars false

namespace Acn.Sorted
open Acn

/-- the insertion sort orders by `lt` whenever "not lt" is transitive and `lt` is asymmetric -/
theorem insertBy_pairwise {α : Type} (lt : α → α → Bool)
    (htrans : ∀ a b c, lt b a = false → lt c b = false → lt c a = false)
    (hasym : ∀ a b, lt a b = true → lt b a = false) (x : α) (l : List α)
    (h : l.Pairwise (fun a b => lt b a = false)) :
    (insertBy lt x l).Pairwise (fun a b => lt b a = false) := by
  induction l with
  | nil => simp [insertBy]
  | cons y ys ih =>
    rw [List.pairwise_cons] at h
    unfold insertBy
    split
    · rename_i hyx
      rw [List.pairwise_cons]
      refine ⟨?_, ih h.2⟩
      intro z hz
      rcases (List.mem_cons.mp ((insertBy_perm lt x ys).mem_iff.mp hz)) with rfl | hz
      · exact hasym _ _ hyx
      · exact h.1 z hz
    · rename_i hyx
      have hyx' : lt y x = false := by simpa using hyx
      rw [List.pairwise_cons]
      refine ⟨?_, List.pairwise_cons.mpr h⟩
      intro z hz
      rcases List.mem_cons.mp hz with rfl | hz
      · exact hyx'
      · exact htrans x y z hyx' (h.1 z hz)

theorem sortBy_pairwise {α : Type} (lt : α → α → Bool)
    (htrans : ∀ a b c, lt b a = false → lt c b = false → lt c a = false)
    (hasym : ∀ a b, lt a b = true → lt b a = false) (l : List α) :
    (sortBy lt l).Pairwise (fun a b => lt b a = false) := by
  induction l with
  | nil => simp [sortBy]
  | cons x xs ih =>
    have : sortBy lt (x :: xs) = insertBy lt x (sortBy lt xs) := by simp [sortBy]
    rw [this]
    exact insertBy_pairwise lt htrans hasym x _ ih

/-- stability of one insertion: if no two elements picked by `p` are strictly ordered (they all
    share one key), `x` is not moved behind any of them -/
theorem insertBy_filter {α : Type} (lt : α → α → Bool) (p : α → Bool) (x : α)
    (hp : ∀ y, p x = true → p y = true → lt y x = false) (l : List α) :
    (insertBy lt x l).filter p = (x :: l).filter p := by
  induction l with
  | nil => simp [insertBy]
  | cons y ys ih =>
    unfold insertBy
    split
    · rename_i hyx
      cases hpx : p x
      · simp only [List.filter_cons, hpx] at ih ⊢
        simp only [Bool.false_eq_true, if_false] at ih ⊢
        rw [ih]
      · have hpy : p y = false := by
          cases hpy : p y
          · rfl
          · have := hp y hpx hpy
            rw [hyx] at this; exact absurd this (by simp)
        simp only [List.filter_cons, hpx, hpy] at ih ⊢
        simp only [Bool.false_eq_true, if_false, if_true] at ih ⊢
        exact ih
    · rfl

/-- stability of the whole sort: the elements picked by `p` (one key class) come out in their
    input order -/
theorem sortBy_filter {α : Type} (lt : α → α → Bool) (p : α → Bool)
    (hp : ∀ x y, p x = true → p y = true → lt y x = false) (l : List α) :
    (sortBy lt l).filter p = l.filter p := by
  induction l with
  | nil => simp [sortBy]
  | cons x xs ih =>
    have : sortBy lt (x :: xs) = insertBy lt x (sortBy lt xs) := by simp [sortBy]
    rw [this, insertBy_filter lt p x (hp x)]
    simp only [List.filter_cons]
    rw [ih]

section
variable {K : Type} [Field K] [LinearOrder K] [IsStrictOrderedRing K]

/-- the walk returns the first passing element of the list it is given -/
theorem walkDown_split (feas : List K → Bool) (sched : List K) (i : Nat) (l : List K) :
    (∃ pre post, l = pre ++ walkDown feas sched i l :: post ∧
        (∀ a ∈ pre, feas (sched.set i a) = false) ∧
        feas (sched.set i (walkDown feas sched i l)) = true) ∨
    (walkDown feas sched i l = 0 ∧ ∀ a ∈ l, feas (sched.set i a) = false) := by
  induction l with
  | nil => right; simp [walkDown]
  | cons a rest ih =>
    unfold walkDown
    split
    · rename_i h
      left; exact ⟨[], rest, rfl, by simp, h⟩
    · rename_i h
      have ha : feas (sched.set i a) = false := by simpa using h
      rcases ih with ⟨pre, post, h1, h2, h3⟩ | ⟨h1, h2⟩
      · left
        refine ⟨a :: pre, post, by rw [List.cons_append, ← h1], ?_, h3⟩
        intro b hb
        rcases List.mem_cons.mp hb with rfl | hb
        · exact ha
        · exact h2 b hb
      · right
        refine ⟨h1, ?_⟩
        intro b hb
        rcases List.mem_cons.mp hb with rfl | hb
        · exact ha
        · exact h2 b hb

/-- the feasible values of coordinate `i` (others as in `sched`) form an interval -/
def IntervalFeasible (feas : List K → Bool) (sched : List K) (i : Nat) : Prop :=
  ∀ x y z : K, x ≤ y → y ≤ z → feas (sched.set i x) = true → feas (sched.set i z) = true →
    feas (sched.set i y) = true

theorem two_pow_cast (n : Nat) : (0 : K) < 2 ^ n := by positivity

/-- bracket invariant of the bisection: lower end feasible, upper end infeasible -/
theorem bisect_bracket (feas : List K → Bool) (sched : List K) (i : Nat) (eps : K) (heps : 0 < eps)
    (hint : IntervalFeasible feas sched i) :
    ∀ (fuel : Nat) (lb ub : K), lb ≤ ub → ub - lb ≤ eps * 2 ^ fuel →
      feas (sched.set i lb) = true → feas (sched.set i ub) = false →
      feas (sched.set i (bisect feas sched i eps fuel lb ub)) = true ∧
      ∀ x, lb ≤ x → feas (sched.set i x) = true → x < bisect feas sched i eps fuel lb ub + eps := by
  have hstop : ∀ lb ub : K, lb ≤ ub → ub - lb ≤ eps → feas (sched.set i lb) = true →
      feas (sched.set i ub) = false →
      ∀ x, lb ≤ x → feas (sched.set i x) = true → x < lb + eps := by
    intro lb ub hlu hgap hl hu x hx hfx
    by_contra hcon
    have hxu : ub ≤ x := by linarith [not_lt.mp hcon]
    have := hint lb ub x hlu hxu hl hfx
    rw [hu] at this; exact absurd this (by simp)
  intro fuel
  induction fuel with
  | zero =>
    intro lb ub hle hgap hl hu
    simp only [pow_zero, mul_one] at hgap
    exact ⟨by simpa [bisect] using hl, by simpa [bisect] using hstop lb ub hle hgap hl hu⟩
  | succ n ih =>
    intro lb ub hle hgap hl hu
    unfold bisect
    simp only
    split
    · rename_i hg
      exact ⟨hl, hstop lb ub hle hg hl hu⟩
    · rename_i hg
      have hlt : lb < ub := by linarith [not_le.mp hg]
      have h2 : (((2 : Nat) : K)) = 2 := by norm_num
      have hm1 : lb < (ub + lb) / ((2 : Nat) : K) := by rw [h2]; linarith
      have hm2 : (ub + lb) / ((2 : Nat) : K) < ub := by rw [h2]; linarith
      have hpow : eps * 2 ^ (n + 1) = 2 * (eps * 2 ^ n) := by ring
      split
      · rename_i hmid
        have hgap' : ub - (ub + lb) / ((2 : Nat) : K) ≤ eps * 2 ^ n := by
          rw [h2]; rw [hpow] at hgap; linarith
        obtain ⟨h3, h4⟩ := ih _ ub (le_of_lt hm2) hgap' hmid hu
        refine ⟨h3, ?_⟩
        intro x hx hfx
        by_cases hxm : (ub + lb) / ((2 : Nat) : K) ≤ x
        · exact h4 x hxm hfx
        · have := (bisect_range feas sched i eps (le_of_lt heps) n ((ub + lb) / ((2 : Nat) : K)) ub).1
          linarith [not_le.mp hxm]
      · rename_i hmid
        have hmid' : feas (sched.set i ((ub + lb) / ((2 : Nat) : K))) = false := by simpa using hmid
        have hgap' : (ub + lb) / ((2 : Nat) : K) - lb ≤ eps * 2 ^ n := by
          rw [h2]; rw [hpow] at hgap; linarith
        exact ih lb _ (le_of_lt hm1) hgap' hl hmid'

end
end Acn.Sorted
