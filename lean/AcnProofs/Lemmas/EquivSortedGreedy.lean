/-
  Helper lemmas for C10 (stations × the sorting-based algorithms, 2/3): the greedy allocation
  (`sorting_algorithm`: start at the lower bounds, then per session the bisection / the level scan)
  under a re-indexing of the stations, for ANY pair of feasibility oracles with
  `feas' (reidx σ x) = feas x`.
-/
import AcnProofs.Lemmas.EquivSortedReidx
import AcnProofs.Lemmas.EquivSimRun

set_option linter.unusedSectionVars false
set_option linter.unusedSimpArgs false
set_option linter.unusedVariables false

namespace Acn.Sorted
open Acn Acn.SimEquiv

variable {K : Type} [Field K] [LinearOrder K] [IsStrictOrderedRing K]

section
variable {σ : List Nat} {n : Nat} (hσ : σ.Perm (List.range n)) (infra : Infra K)
  (feas feas' : List K → Bool) (hf : ∀ x : List K, x.length = n → feas' (reidx σ x 0) = feas x)
include hσ

theorem reidx_zeros : reidx σ (List.replicate n (0 : K)) 0 = List.replicate n 0 := by
  rw [reidx_replicate σ n 0 0 (perm_lt hσ), perm_length hσ]

theorem fold_lb_mv (q : List (Session K)) (hq : ∀ s ∈ q, s.idx < n) :
    ∀ sch : List K, sch.length = n →
      (q.map (mv σ)).foldl (fun sch s => sch.set s.idx (lbOf s)) (reidx σ sch 0) =
        reidx σ (q.foldl (fun sch s => sch.set s.idx (lbOf s)) sch) 0 := by
  induction q with
  | nil => intro sch _; rfl
  | cons s rest ih =>
    intro sch hl
    simp only [List.map_cons, List.foldl_cons]
    have h1 : (reidx σ sch 0).set (mv σ s).idx (lbOf (mv σ s)) = reidx σ (sch.set s.idx (lbOf s)) 0 :=
      reidx_set_pos hσ sch 0 _ (hq s List.mem_cons_self) hl
    rw [h1]
    exact ih (fun x hx => hq x (List.mem_cons_of_mem _ hx)) _ (by simp [hl])

theorem initSchedule_mv (q : List (Session K)) (hq : ∀ s ∈ q, s.idx < n) :
    initSchedule n (q.map (mv σ)) = reidx σ (initSchedule n q) 0 := by
  unfold initSchedule
  rw [← fold_lb_mv hσ q hq _ (by simp), reidx_zeros hσ]

omit hσ in
theorem fold_lb_len (q : List (Session K)) : ∀ sch : List K,
    (q.foldl (fun sch s => sch.set s.idx (lbOf s)) sch).length = sch.length := by
  induction q with
  | nil => intro sch; rfl
  | cons s rest ih => intro sch; simp only [List.foldl_cons]; rw [ih]; simp

omit hσ in
theorem initSchedule_len (m : Nat) (q : List (Session K)) : (initSchedule m q).length = m := by
  unfold initSchedule
  rw [fold_lb_len]; simp

include hf

theorem feas_set_mv (sch : List K) (hl : sch.length = n) {i : Nat} (hi : i < n) (v : K) :
    feas' ((reidx σ sch 0).set (pos σ i) v) = feas (sch.set i v) := by
  rw [reidx_set_pos hσ sch 0 v hi hl, hf _ (by simp [hl])]

theorem bisect_mv (sch : List K) (hl : sch.length = n) {i : Nat} (hi : i < n) (eps : K) :
    ∀ (fuel : Nat) (lb ub : K),
      bisect feas' (reidx σ sch 0) (pos σ i) eps fuel lb ub = bisect feas sch i eps fuel lb ub := by
  intro fuel
  induction fuel with
  | zero => intro lb ub; rfl
  | succ fuel ih =>
    intro lb ub
    simp only [bisect, feas_set_mv hσ feas feas' hf sch hl hi, ih]

theorem maxFeasibleRate_mv (fuel : Nat) (sch : List K) (hl : sch.length = n) {i : Nat} (hi : i < n) (ub eps lb : K) :
    maxFeasibleRate feas' fuel (pos σ i) ub (reidx σ sch 0) eps lb = maxFeasibleRate feas fuel i ub sch eps lb := by
  simp only [maxFeasibleRate, hf sch hl, feas_set_mv hσ feas feas' hf sch hl hi,
    bisect_mv hσ feas feas' hf sch hl hi]

theorem walkDown_mv (sch : List K) (hl : sch.length = n) {i : Nat} (hi : i < n) :
    ∀ lv : List K, walkDown feas' (reidx σ sch 0) (pos σ i) lv = walkDown feas sch i lv := by
  intro lv
  induction lv with
  | nil => rfl
  | cons a rest ih => simp only [walkDown, feas_set_mv hσ feas feas' hf sch hl hi, ih]

theorem discreteMax_mv (sch : List K) (hl : sch.length = n) {i : Nat} (hi : i < n) (lv : List K) :
    discreteMax feas' (reidx σ sch 0) (pos σ i) lv = discreteMax feas sch i lv := by
  simp only [discreteMax, hf sch hl, walkDown_mv hσ feas feas' hf sch hl hi]

omit hf in
theorem levelsIn_mv {i : Nat} (hi : i < n) (lb ub : K) :
    levelsIn (reInfra σ infra) (pos σ i) lb ub = levelsIn infra i lb ub := by
  unfold levelsIn
  show ((reidx σ infra.allow []).getD (pos σ i) []).filter _ = _
  rw [getD_reidx_pos hσ _ _ hi]

theorem greedyRate_mv (fuel : Nat) (eps period : K) (sch : List K) (hl : sch.length = n) {s : Session K}
    (hs : s.idx < n) :
    greedyRate feas' fuel eps (reInfra σ infra) period (reidx σ sch 0) (mv σ s) =
      greedyRate feas fuel eps infra period sch s := by
  unfold greedyRate
  have hc : (reInfra σ infra).cont.getD (pos σ s.idx) true = infra.cont.getD s.idx true :=
    getD_reidx_pos hσ _ _ hs
  have hi : (mv σ s).idx = pos σ s.idx := rfl
  have hlb : lbOf (mv σ s) = lbOf s := rfl
  simp only [ubOf_mv hσ infra period hs, hlb, hi, hc, maxFeasibleRate_mv hσ feas feas' hf fuel sch hl hs,
    levelsIn_mv hσ infra hs, discreteMax_mv hσ feas feas' hf sch hl hs]

theorem greedyLoop_mv (fuel : Nat) (eps period : K) (q : List (Session K)) (hq : ∀ s ∈ q, s.idx < n) :
    ∀ sch : List K, sch.length = n →
      greedyLoop feas' fuel eps (reInfra σ infra) period (q.map (mv σ)) (reidx σ sch 0) =
        (greedyLoop feas fuel eps infra period q sch).map (fun x => reidx σ x 0) := by
  induction q with
  | nil => intro sch _; rfl
  | cons s rest ih =>
    intro sch hl
    have hs := hq s List.mem_cons_self
    simp only [List.map_cons, greedyLoop, greedyRate_mv hσ infra feas feas' hf fuel eps period sch hl hs]
    cases greedyRate feas fuel eps infra period sch s with
    | error e => rfl
    | ok r =>
      simp only
      have h1 : (reidx σ sch 0).set (mv σ s).idx r = reidx σ (sch.set s.idx r) 0 :=
        reidx_set_pos hσ sch 0 r hs hl
      rw [h1]
      exact ih (fun x hx => hq x (List.mem_cons_of_mem _ hx)) _ (by simp [hl])

omit hσ hf in
theorem greedyLoop_len (fuel : Nat) (eps period : K) (q : List (Session K)) :
    ∀ (sch out : List K), greedyLoop feas fuel eps infra period q sch = .ok out → out.length = sch.length := by
  induction q with
  | nil => intro sch out h; simp only [greedyLoop, Except.ok.injEq] at h; rw [← h]
  | cons s rest ih =>
    intro sch out h
    simp only [greedyLoop] at h
    split at h
    · cases h
    · rename_i r _
      have := ih _ _ h
      simpa using this

/-- `sorting_algorithm` after the sort -/
theorem sortingAlgorithm_mv (hn : infra.ids.length = n) (fuel : Nat) (eps period : K) (q : List (Session K))
    (hq : ∀ s ∈ q, s.idx < n) :
    sortingAlgorithm feas' fuel eps (reInfra σ infra) period (q.map (mv σ)) =
      (sortingAlgorithm feas fuel eps infra period q).map (fun x => reidx σ x 0) := by
  unfold sortingAlgorithm
  have hn' : (reInfra σ infra).ids.length = n := reidx_length' hσ _ _
  simp only [hn, hn', initSchedule_mv hσ q hq, hf _ (initSchedule_len n q)]
  by_cases h : feas (initSchedule n q) = true
  · simp only [h, Bool.not_true, Bool.false_eq_true, if_false]
    exact greedyLoop_mv hσ infra feas feas' hf fuel eps period q hq _ (initSchedule_len n q)
  · simp only [h, Bool.not_false, if_true]
    rfl

omit hσ hf in
theorem sortingAlgorithm_len (fuel : Nat) (eps period : K) (q : List (Session K)) (out : List K)
    (h : sortingAlgorithm feas fuel eps infra period q = .ok out) : out.length = infra.ids.length := by
  unfold sortingAlgorithm at h
  simp only at h
  split at h
  · cases h
  · rw [greedyLoop_len infra feas fuel eps period q _ _ h, initSchedule_len]

end
end Acn.Sorted
