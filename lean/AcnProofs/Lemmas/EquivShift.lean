/-
  Helper lemmas for C10 (3/3, part b): two simultaneous events on different stations commute, and
  the event core under a time shift of `k` periods.
-/
import AcnProofs.Lemmas.EquivEvents

namespace Acn.EventCore
open Acn

/-! ### commuting events -/

theorem plugins_commute' (cfg : Cfg) {x y : Session} (hx : findSession cfg x.id = some x)
    (hy : findSession cfg y.id = some y) (hst : x.station ≠ y.station) (hts : x.arrival = y.arrival)
    (c c1 : Core) (h : processAll cfg [plugEv x, plugEv y] c = (c1, none)) :
    ∃ c2, processAll cfg [plugEv y, plugEv x] c = (c2, none) ∧ CoreEquiv c1 c2 := by
  have hst' : y.station ≠ x.station := fun e => hst e.symm
  by_cases hmx : x.station ∈ cfg.stations
  · by_cases hmy : y.station ∈ cfg.stations
    · cases hox : c.occ x.station with
      | some z => simp [processAll, step, process, plugEv, hx, hy, hmx, hox] at h
      | none =>
        cases hoy : c.occ y.station with
        | some z => simp [processAll, step, process, plugEv, hx, hy, hmx, hmy, hox, hoy, setOcc, hst, hst'] at h
        | none =>
          simp [processAll, step, process, plugEv, hx, hy, hmx, hmy, hox, hoy, setOcc, hst, hst'] at h ⊢
          subst h
          refine ⟨rfl, ?_, ?_, rfl, by simp [hts], ?_, ?_, rfl⟩
          · exact List.Perm.append_left _ (List.Perm.swap _ _ _)
          · exact setOcc_comm c.occ hst (some x) (some y)
          · exact List.Perm.append_left _ (List.Perm.swap _ _ _)
          · exact List.Perm.append_left _ (List.Perm.swap _ _ _)
    · cases hox : c.occ x.station with
      | some z => simp [processAll, step, process, plugEv, hx, hy, hmx, hox] at h
      | none => simp [processAll, step, process, plugEv, hx, hy, hmx, hmy, hox] at h
  · simp [processAll, step, process, plugEv, hx, hy, hmx] at h

theorem unplugs_commute' (cfg : Cfg) {x y : Session} (hx : findSession cfg x.id = some x)
    (hy : findSession cfg y.id = some y) (hst : x.station ≠ y.station) (hts : x.departure = y.departure)
    (c c1 : Core) (h : processAll cfg [unplugEv x, unplugEv y] c = (c1, none)) :
    ∃ c2, processAll cfg [unplugEv y, unplugEv x] c = (c2, none) ∧ CoreEquiv c1 c2 := by
  have hst' : y.station ≠ x.station := fun e => hst e.symm
  by_cases hmx : x.station ∈ cfg.stations
  · by_cases hmy : y.station ∈ cfg.stations
    · simp [processAll, step, process, unplugEv, hx, hy, hmx, hmy] at h ⊢
      subst h
      refine ⟨rfl, List.Perm.refl _, ?_, rfl, by simp [hts], ?_, List.Perm.refl _, rfl⟩
      · funext s
        by_cases hux : unplugHits c x = true <;> by_cases huy : unplugHits c y = true <;>
          by_cases h1 : s = x.station <;> by_cases h2 : s = y.station <;>
          simp_all [unplugHits, setOcc]
      · exact List.Perm.append_left _ (List.Perm.swap _ _ _)
    · simp [processAll, step, process, unplugEv, hx, hy, hmx, hmy] at h
  · simp [processAll, step, process, unplugEv, hx, hy, hmx] at h

/-! ### time shift -/

def shiftEv (k : Nat) (e : Event) : Event := { e with ts := e.ts + k }

def shiftSession (k : Nat) (x : Session) : Session :=
  { x with arrival := x.arrival + k, departure := x.departure + k }

/-- every session and every recompute event `k` periods later -/
def shiftCfg (k : Nat) (cfg : Cfg) : Cfg :=
  { cfg with sessions := cfg.sessions.map (shiftSession k),
             recomputes := cfg.recomputes.map (fun r => (r.1 + (k : Int), r.2)) }

/-- the same state `k` periods later: every timestamp in it moved by `k` -/
def shiftCore (k : Nat) (c : Core) : Core :=
  { iter := c.iter + k, pending := c.pending.map (shiftEv k),
    occ := fun st => (c.occ st).map (shiftSession k), resolve := c.resolve,
    lastUpd := c.lastUpd.map (· + (k : Int)), eventHist := c.eventHist.map (shiftEv k),
    evHist := c.evHist, invoked := c.invoked.map (· + k) }

theorem keyLe_shift (k : Nat) (a b : Event) : (shiftEv k a).keyLe (shiftEv k b) = a.keyLe b := by
  rw [Bool.eq_iff_iff, keyLe_iff, keyLe_iff]
  simp [shiftEv]

theorem insertByKey_shift (k : Nat) (e : Event) (l : List Event) :
    insertByKey (shiftEv k e) (l.map (shiftEv k)) = (insertByKey e l).map (shiftEv k) := by
  induction l with
  | nil => rfl
  | cons d ds ih =>
    simp only [List.map_cons, insertByKey, keyLe_shift]
    split
    · simp
    · simp [ih]

theorem sortByKey_shift (k : Nat) (l : List Event) :
    sortByKey (l.map (shiftEv k)) = (sortByKey l).map (shiftEv k) := by
  induction l with
  | nil => rfl
  | cons d ds ih =>
    simp only [sortByKey, List.map_cons, List.foldr_cons] at ih ⊢
    rw [ih, insertByKey_shift]

theorem popCurrent_shift (k t : Nat) (p : List Event) :
    popCurrent (t + k) (p.map (shiftEv k)) =
      ((popCurrent t p).1.map (shiftEv k), (popCurrent t p).2.map (shiftEv k)) := by
  unfold popCurrent
  simp only [List.filter_map, Prod.mk.injEq]
  have h : ((fun e : Event => decide (e.ts ≤ ((t + k : Nat) : Int))) ∘ shiftEv k) =
      (fun e : Event => decide (e.ts ≤ (t : Int))) := by
    funext e; simp [shiftEv]
  have h' : ((fun e : Event => !decide (e.ts ≤ ((t + k : Nat) : Int))) ∘ shiftEv k) =
      (fun e : Event => !decide (e.ts ≤ (t : Int))) := by
    funext e; simp [shiftEv]
  rw [h, h', sortByKey_shift]
  exact ⟨rfl, rfl⟩

theorem findSession_shift (k : Nat) (cfg : Cfg) (id : String) :
    findSession (shiftCfg k cfg) id = (findSession cfg id).map (shiftSession k) := by
  unfold findSession shiftCfg
  simp only [List.find?_map]
  rfl

theorem setOcc_shift (k : Nat) (occ : String → Option Session) (s : String) (v : Option Session) :
    setOcc (fun st => (occ st).map (shiftSession k)) s (v.map (shiftSession k)) =
      fun st => (setOcc occ s v st).map (shiftSession k) := by
  funext st
  unfold setOcc
  split <;> rfl

theorem unplugHits_shift (k : Nat) (c : Core) (x : Session) :
    unplugHits (shiftCore k c) (shiftSession k x) = unplugHits c x := by
  unfold unplugHits shiftCore shiftSession
  simp only
  cases c.occ x.station <;> rfl

/-- one event: the shifted event in the shifted state does the shifted thing -/
theorem step_shift (k : Nat) (cfg : Cfg) (e : Event) (c : Core) :
    step (shiftCfg k cfg) (shiftEv k e) (shiftCore k c) = (shiftCore k (step cfg e c).1, (step cfg e c).2) := by
  unfold step process
  have hkind : (shiftEv k e).kind = e.kind := rfl
  have hsess : (shiftEv k e).sess = e.sess := rfl
  have hstn : (shiftCfg k cfg).stations = cfg.stations := rfl
  rw [hkind, hsess, findSession_shift, hstn]
  cases hk : e.kind with
  | recompute => simp [shiftCore, shiftEv]
  | plugin =>
    cases hf : findSession cfg e.sess with
    | none => simp [shiftCore, shiftEv]
    | some x =>
      simp only [Option.map_some]
      have hxs : (shiftSession k x).station = x.station := rfl
      have hxi : (shiftSession k x).id = x.id := rfl
      have hun : unplugEv (shiftSession k x) = shiftEv k (unplugEv x) := rfl
      rw [hxs, hxi, hun]
      by_cases hm : x.station ∈ cfg.stations
      · cases ho : c.occ x.station with
        | some z => simp [hm, ho, shiftCore, shiftEv]
        | none =>
          have := setOcc_shift k c.occ x.station (some x)
          simp only [Option.map_some] at this
          simp [hm, ho, shiftCore, this]
          rfl
      · simp [hm, shiftCore, shiftEv]
  | unplug =>
    cases hf : findSession cfg e.sess with
    | none => simp [shiftCore, shiftEv]
    | some x =>
      simp only [Option.map_some]
      have hxs : (shiftSession k x).station = x.station := rfl
      rw [hxs]
      by_cases hm : x.station ∈ cfg.stations
      · have hu : unplugHits ({ shiftCore k c with eventHist := (shiftCore k c).eventHist ++ [shiftEv k e] } : Core)
            (shiftSession k x) = unplugHits { c with eventHist := c.eventHist ++ [e] } x :=
          unplugHits_shift k { c with eventHist := c.eventHist ++ [e] } x
        rw [hu]
        have := setOcc_shift k c.occ x.station none
        simp only [Option.map_none] at this
        by_cases hh : unplugHits { c with eventHist := c.eventHist ++ [e] } x = true
        · simp [hm, hh, shiftCore, this]
          rfl
        · simp [hm, hh, shiftCore]
          rfl
      · simp [hm, shiftCore, shiftEv]

theorem processAll_shift (k : Nat) (cfg : Cfg) (es : List Event) (c : Core) :
    processAll (shiftCfg k cfg) (es.map (shiftEv k)) (shiftCore k c) =
      (shiftCore k (processAll cfg es c).1, (processAll cfg es c).2) := by
  induction es generalizing c with
  | nil => rfl
  | cons e es ih =>
    simp only [List.map_cons, processAll, step_shift]
    cases hs : step cfg e c with
    | mk c2 r =>
      cases r with
      | none => simp only [ih]
      | some err => rfl

theorem eventsStage_shift (k : Nat) (cfg : Cfg) (c : Core) :
    eventsStage (shiftCfg k cfg) (shiftCore k c) =
      (shiftCore k (eventsStage cfg c).1, (eventsStage cfg c).2) := by
  unfold eventsStage
  have h1 : (shiftCore k c).iter = c.iter + k := rfl
  have h2 : (shiftCore k c).pending = c.pending.map (shiftEv k) := rfl
  rw [h1, h2, popCurrent_shift]
  simp only
  exact processAll_shift k cfg _ { c with pending := (popCurrent c.iter c.pending).2 }

theorem needsSched_shift (k : Nat) (mr : Option Nat) (c : Core) :
    needsSched mr (shiftCore k c) = needsSched mr c := by
  unfold needsSched shiftCore
  cases mr with
  | none => rfl
  | some m =>
    simp only
    cases c.lastUpd with
    | none => rfl
    | some u =>
      simp only [Option.map_some]
      congr 1
      rw [Bool.eq_iff_iff]
      simp only [decide_eq_true_eq]
      push_cast
      constructor <;> intro h <;> omega

theorem markInvoked_shift (k : Nat) (c : Core) : markInvoked (shiftCore k c) = shiftCore k (markInvoked c) := by
  simp [markInvoked, shiftCore]

theorem markScheduled_shift (k : Nat) (c : Core) : markScheduled (shiftCore k c) = shiftCore k (markScheduled c) := by
  simp [markScheduled, shiftCore]

theorem advance_shift (k : Nat) (c : Core) : advance (shiftCore k c) = shiftCore k (advance c) := by
  simp [advance, shiftCore]; omega

/-- one trip round the loop commutes with the shift, for a scheduler / pilot application that
    cannot tell the shifted state from the original one -/
theorem body_shift' (k : Nat) (cfg : Cfg) {sched sched' apply apply' : Core → Option Err}
    (hs : ∀ c, sched' (shiftCore k c) = sched c) (ha : ∀ c, apply' (shiftCore k c) = apply c) (c : Core) :
    body (shiftCfg k cfg) sched' apply' (shiftCore k c) =
      (shiftCore k (body cfg sched apply c).1, (body cfg sched apply c).2) := by
  unfold body
  rw [eventsStage_shift]
  have hmr : (shiftCfg k cfg).maxRecompute = cfg.maxRecompute := rfl
  cases he : eventsStage cfg c with
  | mk c1 r =>
    cases r with
    | some err => rfl
    | none =>
      simp only [hmr, needsSched_shift, markInvoked_shift, hs]
      by_cases hn : needsSched cfg.maxRecompute c1 = true
      · simp only [hn, if_true]
        cases hsc : sched (markInvoked c1) with
        | some err => rfl
        | none =>
          simp only [finish, markScheduled_shift, ha]
          cases apply (markScheduled (markInvoked c1)) <;> simp [advance_shift]
      · simp only [hn, Bool.false_eq_true, if_false, finish, ha]
        cases apply c1 <;> simp [advance_shift]

theorem guard_shift (k : Nat) (c : Core) : guard (shiftCore k c) = guard c := by
  simp [guard, shiftCore]

/-- the run from ANY state commutes with the shift -/
theorem run_shift_from (k : Nat) (cfg : Cfg) {sched sched' apply apply' : Core → Option Err}
    (hs : ∀ c, sched' (shiftCore k c) = sched c) (ha : ∀ c, apply' (shiftCore k c) = apply c) :
    ∀ (n : Nat) (c : Core), run (shiftCfg k cfg) sched' apply' n (shiftCore k c) =
      (shiftCore k (run cfg sched apply n c).1, (run cfg sched apply n c).2) := by
  intro n
  induction n with
  | zero => intro c; rfl
  | succ n ih =>
    intro c
    simp only [run, guard_shift, body_shift' k cfg hs ha]
    by_cases hg : guard c = true
    · simp only [hg, if_true]
      cases hb : body cfg sched apply c with
      | mk c1 r =>
        cases r with
        | none => simp only [ih]
        | some err => rfl
    · simp [hg]

/-! ### the `k` idle periods in front of a shifted scenario -/

/-- a period in which nothing is due and nothing forces a recompute only advances the clock -/
theorem idle_body (cfg : Cfg) {sched apply : Core → Option Err} (c : Core)
    (hmr : cfg.maxRecompute = none) (hres : c.resolve = false) (hp : ∀ e ∈ c.pending, (c.iter : Int) < e.ts)
    (ha : apply c = none) : body cfg sched apply c = (advance c, none) := by
  have h1 : c.pending.filter (fun e => decide (e.ts ≤ (c.iter : Int))) = [] := by
    rw [List.filter_eq_nil_iff]
    intro e he
    have := hp e he
    simp; omega
  have h2 : c.pending.filter (fun e => !decide (e.ts ≤ (c.iter : Int))) = c.pending := by
    rw [List.filter_eq_self]
    intro e he
    have := hp e he
    simp; omega
  have hev : eventsStage cfg c = (c, none) := by
    simp only [eventsStage, popCurrent, h1, h2, sortByKey, List.foldr_nil, processAll]
  have hns : needsSched cfg.maxRecompute c = false := by simp [needsSched, hmr, hres]
  simp only [body, hev, hns, Bool.false_eq_true, if_false, finish, ha]

theorem idle_run (cfg : Cfg) {sched apply : Core → Option Err} (hmr : cfg.maxRecompute = none)
    (ha : ∀ c, c.resolve = false → (∀ e ∈ c.pending, (c.iter : Int) < e.ts) → apply c = none) :
    ∀ (j n : Nat) (c : Core), c.resolve = false → c.pending ≠ [] →
      (∀ e ∈ c.pending, ((c.iter + j : Nat) : Int) ≤ e.ts) →
      run cfg sched apply (j + n) c = run cfg sched apply n { c with iter := c.iter + j } := by
  intro j
  induction j with
  | zero => intro n c _ _ _; simp
  | succ j ih =>
    intro n c hres hne hp
    have hp' : ∀ e ∈ c.pending, (c.iter : Int) < e.ts := by
      intro e he; have := hp e he; push_cast at this; omega
    have hg : guard c = true := by
      unfold guard
      cases hpe : c.pending with
      | nil => exact absurd hpe hne
      | cons a l => simp
    rw [show j + 1 + n = (j + n) + 1 by omega]
    simp only [run, hg, if_true, idle_body cfg c hmr hres hp' (ha c hres hp')]
    rw [ih n (advance c) hres hne (by
      intro e he; have := hp e he; simp only [advance] at *; push_cast at this ⊢; omega)]
    simp only [advance]
    congr 2
    omega

end Acn.EventCore
