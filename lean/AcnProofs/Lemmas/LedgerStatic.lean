/-
  Helper lemmas for C02: a simulation changes only the DYNAMIC part of an EV (delivered energy, last rate,
  battery).  Session id, station, arrival and departure of every EV object are what they were when the run
  started — the frame condition that lets a second simulation over the same EV objects (`AcnModel/Rerun.lean`)
  inherit the validity of the scenario.  `Ev.charge` is the only writer of `s.evs` (`setPilotAt`).
-/
import AcnProofs.Lemmas.LedgerStep
import AcnProofs.Lemmas.EventCoreInv

set_option linter.unusedSectionVars false
set_option linter.unusedSimpArgs false
set_option linter.unusedVariables false

namespace Acn.Ledger
open Acn Acn.Sim Acn.EventCore Acn.Evse

variable {K : Type} [Field K] [LinearOrder K] [IsStrictOrderedRing K] [HasExp K]

theorem ev_charge_sessionOf {e e' : Ev K} {pilot V T ν : K} (h : e.charge pilot V T ν = .ok e') :
    sessionOf e' = sessionOf e := by
  obtain ⟨_, _, a, b, c, d, _⟩ := ev_charge_ledger h
  simp [sessionOf, a, b, c, d]

theorem map_session_eq (evs : List (Ev K)) : evs.map (·.session) = (evs.map sessionOf).map (·.id) := by
  simp [List.map_map, sessionOf, Function.comp_def]

theorem replaceEv_sessionOf (evs : List (Ev K)) (e1 : Ev K)
    (h : ∀ d ∈ evs, d.session = e1.session → sessionOf d = sessionOf e1) :
    (replaceEv evs e1).map sessionOf = evs.map sessionOf := by
  induction evs with
  | nil => simp [replaceEv]
  | cons d ds ih =>
    have ih' := ih (fun d' hd' => h d' (List.mem_cons_of_mem _ hd'))
    unfold replaceEv at *
    simp only [List.map_cons, List.cons.injEq]
    refine ⟨?_, ih'⟩
    by_cases hd : d.session = e1.session
    · have := h d (by simp) hd
      simp [hd, this]
    · have hd' : (d.session == e1.session) = false := by simpa using hd
      simp [hd']

/-- with distinct ids, the EV found under an id is the only one carrying it -/
theorem evIn_unique {evs : List (Ev K)} (hnd : (evs.map (·.session)).Nodup) {id : String} {e : Ev K}
    (he : evIn evs id = some e) : ∀ d ∈ evs, d.session = id → d = e := by
  intro d hd hs
  have hmem : e ∈ evs := List.mem_of_find?_eq_some he
  exact List.inj_on_of_nodup_map hnd hd hmem (hs.trans (evIn_session he).symm)

theorem setPilotAt_static {cfg : Cfg K} {s s' : State K} {i : Nat} {st : Station K}
    (h : setPilotAt cfg s i st = (s', none)) (hnd : (s.evs.map (·.session)).Nodup) :
    s'.evs.map sessionOf = s.evs.map sessionOf := by
  obtain ⟨_, _, _, _, _, hev⟩ := setPilotAt_ok h
  rcases hev with ⟨_, he⟩ | ⟨e, e', p, ν, ho, hc, he⟩
  · rw [he]
  · rw [he]
    apply replaceEv_sessionOf
    intro d hd hs
    rw [occupantEv_eq] at ho
    cases hx : s.core.occ st.id with
    | none => simp [hx] at ho
    | some x =>
      simp only [hx] at ho
      have hse : e'.session = x.id := by
        rw [(ev_charge_ledger hc).2.2.1]; exact evIn_session ho
      have : d = e := evIn_unique hnd ho d hd (hs.trans hse)
      rw [this, ev_charge_sessionOf hc]

theorem updatePilotsFrom_static (cfg : Cfg K) : ∀ (rest : List (Station K)) (i : Nat) (s s' : State K),
    updatePilotsFrom cfg i rest s = (s', none) → (s.evs.map (·.session)).Nodup →
    s'.evs.map sessionOf = s.evs.map sessionOf := by
  intro rest
  induction rest with
  | nil =>
    intro i s s' h _
    simp only [updatePilotsFrom, Prod.mk.injEq, and_true] at h
    subst h
    rfl
  | cons st rest ih =>
    intro i s s' h hnd
    unfold updatePilotsFrom at h
    cases h1 : setPilotAt cfg s i st with
    | mk s1 err =>
      cases err with
      | some e => simp [h1] at h
      | none =>
        simp only [h1] at h
        have m1 := setPilotAt_static h1 hnd
        have hnd1 : (s1.evs.map (·.session)).Nodup := by
          rw [map_session_eq, m1, ← map_session_eq]; exact hnd
        exact (ih (i + 1) s1 s' h hnd1).trans m1

theorem storeRates_evs {cfg : Cfg K} {w : Nat} {s s3 : State K} (h : storeRates cfg w s = (s3, none)) :
    s3.evs = s.evs := by
  unfold storeRates at h
  simp only at h
  generalize (if s.core.iter < s.rates.width then s.rates else Pilots.increaseWidth s.rates w) = m at h
  split at h
  · simp only [Prod.mk.injEq, and_true] at h
    rw [← h]
  · simp at h

theorem applyStage_static {cfg : Cfg K} {a s' : State K} (h : applyStage cfg a = (s', none))
    (hnd : (a.evs.map (·.session)).Nodup) :
    s'.evs.map sessionOf = a.evs.map sessionOf := by
  obtain ⟨w, s2, s3, h2, h3, rfl⟩ := applyStage_ok h
  have m2 := updatePilotsFrom_static cfg cfg.stations 0 _ s2 h2 hnd
  have m3 := storeRates_evs h3
  show s3.evs.map sessionOf = a.evs.map sessionOf
  rw [m3]
  exact m2

/-- one trip round the loop -/
theorem body_static {cfg : Cfg K} (sched : View K → Except EventCore.Err (Schedule K)) {s s' : State K}
    (hL : Inv cfg s) (hnd : (s.evs.map (·.session)).Nodup) (h : Sim.body cfg sched s = (s', none)) :
    s'.evs.map sessionOf = s.evs.map sessionOf := by
  obtain ⟨_, _, f3, _, _, _⟩ := eventsStage_frame cfg s hL.occ_sound
  unfold Sim.body at h
  cases hes : Sim.eventsStage cfg s with
  | mk s1 err =>
    rw [hes] at f3
    simp only at f3
    cases err with
    | some e => simp [hes] at h
    | none =>
      simp only [hes] at h
      split at h
      · split at h
        · simp at h
        · rename_i m hm
          have := applyStage_static h (by show (s1.evs.map (·.session)).Nodup; rw [f3]; exact hnd)
          exact this.trans (by show s1.evs.map sessionOf = _; rw [f3])
      · have := applyStage_static h (by rw [f3]; exact hnd)
        exact this.trans (by rw [f3])

/-- the whole run: identity, station and connection interval of every EV object are left alone -/
theorem run_static {cfg : Cfg K} (hn : StationsNodup cfg)
    (sched : View K → Except EventCore.Err (Schedule K)) : ∀ (n : Nat) (s s' : State K),
    Inv cfg s → (s.evs.map (·.session)).Nodup → Sim.run cfg sched n s = (s', none) →
    s'.evs.map sessionOf = s.evs.map sessionOf := by
  intro n
  induction n with
  | zero =>
    intro s s' _ _ h
    simp only [Sim.run, Prod.mk.injEq, and_true] at h
    rw [h]
  | succ n ih =>
    intro s s' hL hnd h
    unfold Sim.run at h
    split at h
    · cases hb : Sim.body cfg sched s with
      | mk s1 err =>
        cases err with
        | some e => simp [hb] at h
        | none =>
          simp only [hb] at h
          have m1 := body_static sched hL hnd hb
          have hnd1 : (s1.evs.map (·.session)).Nodup := by
            rw [map_session_eq, m1, ← map_session_eq]; exact hnd
          exact (ih s1 s' (body_ledger hn sched hL hb) hnd1 h).trans m1
    · simp only [Prod.mk.injEq, and_true] at h
      rw [h]

/-- ... from the initial state of a valid scenario -/
theorem run_sessions {cfg : Cfg K} (hn : StationsNodup cfg) (hv : EventCore.Valid cfg.core)
    (sched : View K → Except EventCore.Err (Schedule K)) (n : Nat) (s : State K)
    (h : Sim.run cfg sched n (Sim.init cfg) = (s, none)) :
    s.evs.map sessionOf = cfg.evs.map sessionOf := by
  refine run_static hn sched n (Sim.init cfg) s (init_ledger cfg) ?_ h
  show (cfg.evs.map (·.session)).Nodup
  rw [map_session_eq]
  exact hv.ids_nodup

end Acn.Ledger
