/-
  Helper lemmas for C02 (7/7): the executable specification sums that `drv_C02` evaluates
  (`LedgerExec.lean`) ARE the `Finset` sums of the theorems, over any linear ordered field.
-/
import AcnProofs.Lemmas.LedgerExec
import AcnProofs.Lemmas.LedgerInv

set_option linter.unusedSectionVars false

namespace Acn.LedgerX
open Acn Acn.Sim Acn.Ledger Finset

variable {K : Type} [Field K] [LinearOrder K] [IsStrictOrderedRing K] [HasExp K]

theorem sumRange_eq (n : Nat) (f : Nat → K) : sumRange n f = ∑ i ∈ range n, f i := by
  unfold sumRange
  induction n with
  | zero => simp
  | succ n ih => rw [List.range_succ, List.foldl_append, ih, Finset.sum_range_succ]; rfl

theorem energyX_eq (r V T : K) : energyX r V T = energy r V T := by
  simp [energyX, energy]

theorem sessionEnergyX_eq (cfg : Cfg K) (rates : Pilots.Mat K) (log : List (List (Option String)))
    (id : String) (t : Nat) : sessionEnergyX cfg rates log id t = sessionEnergy cfg rates log id t := by
  unfold sessionEnergyX sessionEnergy
  rw [sumRange_eq]
  apply Finset.sum_congr rfl
  intro τ _
  rw [sumRange_eq]
  apply Finset.sum_congr rfl
  intro i _
  simp only [term, energyX_eq]
  rfl

theorem aggCurrentX_eq (m : Pilots.Mat K) (n τ : Nat) : aggCurrentX m n τ = aggCurrent m n τ := by
  unfold aggCurrentX aggCurrent; exact sumRange_eq _ _

theorem peakX_eq (m : Pilots.Mat K) (n : Nat) : ∀ t, peakX m n t = peakUpTo m n t := by
  intro t
  unfold peakX
  induction t with
  | zero => rfl
  | succ t ih =>
    rw [List.range_succ, List.foldl_append, ih]
    simp [peakUpTo, aggCurrentX_eq]

theorem integralX_eq (cfg : Cfg K) (rates : Pilots.Mat K) (t : Nat) :
    integralX cfg rates t =
      ∑ τ ∈ range t, (∑ i ∈ range cfg.stations.length, volt cfg i * rates.get i τ / 1000) * (cfg.period / 60) := by
  unfold integralX
  rw [sumRange_eq]
  apply Finset.sum_congr rfl
  intro τ _
  rw [sumRange_eq]
  simp only [Nat.cast_ofNat]
  rfl

theorem intervalEnergyX_eq (cfg : Cfg K) (rates : Pilots.Mat K) (k : Nat) (a d : Int) (t : Nat) :
    intervalEnergyX cfg rates k a d t =
      ∑ τ ∈ range t, if a ≤ (τ : Int) ∧ (τ : Int) < d
        then rates.get k τ * volt cfg k / 1000 * (cfg.period / 60) else 0 := by
  unfold intervalEnergyX
  rw [sumRange_eq]
  apply Finset.sum_congr rfl
  intro τ _
  simp only [energyX_eq, energy]
  rfl

end Acn.LedgerX
