/-
  C19 end to end: the StochasticNetwork model never raises inside the run loop (`NoFailH` for
  `stochasticNet` / `stochasticPost`, with the C19 invariant as the history-indexed predicate),
  and what the loop's invariant says about the history at the horizon.
-/
import AcnModel.StochasticLoop
import AcnProofs.Lemmas.EventCoreNetH
import AcnProofs.Lemmas.StochasticRun

namespace Acn.Stoch
open Acn Acn.EventCore

/-- the loop's predicate on (event_history, network state) -/
structure LoopInv (cfg : Cfg) (hist : List Event) (s : Net) : Prop where
  inv : Inv s
  track : Track hist s
  evs : ∀ e ∈ hist, e.kind ≠ .recompute →
    ∃ y ∈ cfg.sessions, e = EventCore.plugEv y ∨ e = EventCore.unplugEv y

theorem session_eq_of_id {cfg : Cfg} (hq : ValidQ cfg) {x y : EventCore.Session}
    (hx : x ∈ cfg.sessions) (hy : y ∈ cfg.sessions) (h : y.id = x.id) : y = x :=
  List.inj_on_of_nodup_map hq.ids_nodup hy hx h

theorem Track.append_other {hist : List Event} {s s1 : Net} {e : Event} (tr : Track hist s)
    (hk : e.kind = .recompute)
    (hf : ∀ u, (s1.ev u).arrived = (s.ev u).arrived ∧ (s1.ev u).departed = (s.ev u).departed) :
    Track (hist ++ [e]) s1 := by
  constructor
  · intro x
    rw [(hf x).1, tr.arrived_iff x]
    simp only [List.mem_append, List.mem_singleton]
    constructor
    · rintro ⟨a, ha', hka, hsa⟩; exact ⟨a, Or.inl ha', hka, hsa⟩
    · rintro ⟨a, ha' | ha', hka, hsa⟩
      · exact ⟨a, ha', hka, hsa⟩
      · rw [ha', hk] at hka; cases hka
  · intro x
    rw [(hf x).2, tr.departed_iff x]
    simp only [List.mem_append, List.mem_singleton]
    constructor
    · rintro ⟨a, ha', hka, hsa⟩; exact ⟨a, Or.inl ha', hka, hsa⟩
    · rintro ⟨a, ha' | ha', hka, hsa⟩
      · exact ⟨a, ha', hka, hsa⟩
      · rw [ha', hk] at hka; cases hka

theorem evs_append {cfg : Cfg} {hist : List Event} {e : Event}
    (h : ∀ e ∈ hist, e.kind ≠ .recompute →
      ∃ y ∈ cfg.sessions, e = EventCore.plugEv y ∨ e = EventCore.unplugEv y)
    (he : e.kind ≠ .recompute → ∃ y ∈ cfg.sessions, e = EventCore.plugEv y ∨ e = EventCore.unplugEv y) :
    ∀ a ∈ hist ++ [e], a.kind ≠ .recompute →
      ∃ y ∈ cfg.sessions, a = EventCore.plugEv y ∨ a = EventCore.unplugEv y := by
  intro a ha hk
  rcases List.mem_append.1 ha with ha | ha
  · exact h a ha hk
  · rw [List.mem_singleton.1 ha] at hk ⊢; exact he hk

/-- the stochastic network never raises inside the run loop, and keeps its invariant -/
theorem stochastic_noFail (cfg : Cfg) (hq : ValidQ cfg) (cs : Nat → Nat) (full : Nat → Sess → Bool) :
    NoFailH (stochasticNet cs) (stochasticPost full) cfg (LoopInv cfg) where
  plugin := by
    intro hist s x hx hP hnew
    have ha : (s.ev x.id).arrived = false := by
      by_contra hc
      obtain ⟨a, ha, hk, hs⟩ := (hP.track.arrived_iff x.id).1 (by simpa using hc)
      obtain ⟨y, hy, hay⟩ := hP.evs a ha (by rw [hk]; simp)
      rcases hay with rfl | rfl
      · have := session_eq_of_id hq hx hy (by simpa [EventCore.plugEv] using hs)
        subst this; exact hnew ha
      · simp [EventCore.unplugEv] at hk
    obtain ⟨s1, h1, hi1, tr1⟩ := step_ev_plugin (cs := cs) (e := EventCore.plugEv x) hP.inv hP.track rfl ha
    refine ⟨by simp [stochasticNet, liftOp, h1], ?_⟩
    simp only [stochasticNet, liftOp, h1]
    exact ⟨hi1, tr1, evs_append hP.evs (fun _ => ⟨x, hx, Or.inl rfl⟩)⟩
  unplug := by
    intro hist s x hx hP hin hnew
    have ha : (s.ev x.id).arrived = true :=
      (hP.track.arrived_iff x.id).2 ⟨_, hin, rfl, rfl⟩
    have hd : (s.ev x.id).departed = false := by
      by_contra hc
      obtain ⟨a, ha', hk, hs⟩ := (hP.track.departed_iff x.id).1 (by simpa using hc)
      obtain ⟨y, hy, hay⟩ := hP.evs a ha' (by rw [hk]; simp)
      rcases hay with rfl | rfl
      · simp [EventCore.plugEv] at hk
      · have := session_eq_of_id hq hx hy (by simpa [EventCore.unplugEv] using hs)
        subst this; exact hnew ha'
    obtain ⟨s1, h1, hi1, tr1⟩ :=
      step_ev_unplug (cs := cs) (e := EventCore.unplugEv x) hP.inv hP.track rfl ha hd
    refine ⟨by simp [stochasticNet, liftOp, h1], ?_⟩
    simp only [stochasticNet, liftOp, h1]
    exact ⟨hi1, tr1, evs_append hP.evs (fun _ => ⟨x, hx, Or.inr rfl⟩)⟩
  recomp := by
    intro hist s r _ hP
    exact ⟨hP.inv, hP.track.append_other rfl (fun _ => ⟨rfl, rfl⟩),
      evs_append hP.evs (fun h => absurd rfl h)⟩
  post := by
    intro hist t s hP
    obtain ⟨s1, h1, hi1, hf⟩ := hP.inv.post (full t)
    refine ⟨by simp [stochasticPost, liftOp, h1], ?_⟩
    simp only [stochasticPost, liftOp, h1]
    exact ⟨hi1, ⟨fun x => by rw [(hf x).1]; exact hP.track.arrived_iff x,
                 fun x => by rw [(hf x).2]; exact hP.track.departed_iff x⟩, hP.evs⟩

/-- the same with any energy ledger threaded next to the network state (`fully_charged` computed
    in the run): the predicate ignores the ledger -/
theorem stochastic_noFailL {L : Type} (cfg : Cfg) (hq : ValidQ cfg) (cs : Nat → Nat) (led : Ledger L) :
    NoFailH (stochasticNetL (L := L) cs) (stochasticPostL led) cfg
      (fun hist s => LoopInv cfg hist s.1) where
  plugin := by
    intro hist s x hx hP hnew
    exact (stochastic_noFail cfg hq cs (fun _ _ => false)).plugin hist s.1 x hx hP hnew
  unplug := by
    intro hist s x hx hP hin hnew
    exact (stochastic_noFail cfg hq cs (fun _ _ => false)).unplug hist s.1 x hx hP hin hnew
  recomp := by
    intro hist s r hr hP
    exact (stochastic_noFail cfg hq cs (fun _ _ => false)).recomp hist s.1 r hr hP
  post := by
    intro hist t s hP
    exact (stochastic_noFail cfg hq cs (fun _ => led.full (led.charge t s.1 s.2))).post hist t s.1 hP

theorem loopInv_init (cfg : Cfg) (hst : cfg.stations.Nodup) (early : Bool) :
    LoopInv cfg [] (net0 cfg early) :=
  ⟨Inv.init _ _ _ hst, Track.init _ _ _, fun e he => by simp at he⟩

/-- at the horizon every plug-in event of the history has its unplug event in the history -/
theorem hist_complete_at_horizon {cfg : Cfg} (hq : ValidQ cfg) {c : Core}
    (hI : InvG cfg (EventCore.horizon cfg) c) :
    ∀ e ∈ c.eventHist, e.kind = .plugin → ∃ u ∈ c.eventHist, u.kind = .unplug ∧ u.sess = e.sess := by
  intro e he hk
  rcases (hI.hist_mem e).1 he with ⟨x, hx, rfl, _⟩ | ⟨x, _, rfl, _⟩ | ⟨r, _, rfl, _⟩
  · refine ⟨EventCore.unplugEv x, (hI.hist_mem _).2 (Or.inr (Or.inl ⟨x, hx, rfl, ?_⟩)), rfl, rfl⟩
    have := dep_le_maxTs hx
    have hm := neg_one_le_maxTs (relabel cfg)
    rw [← horizon_relabel]
    unfold EventCore.horizon
    omega
  · simp [EventCore.unplugEv] at hk
  · simp [recEv] at hk

end Acn.Stoch
