/-
  Helper lemmas for C09 (registry, well-formedness 2/2): the invariant `SInv` of the full simulator model (static EV
  data fixed, one pilot per EVSE, `CInv` on the core) is preserved by EVERY period whose events stage does not raise —
  whatever the scheduler and the pilot application do, raising or not — holds initially, and implies `WF` and
  `AllRef` when session ids are distinct.  Under C01's `Valid` the events stage never raises, so every state
  `Sim.run` can return (completed, out of fuel, or aborted by a scheduler / schedule / pilot error) is well-formed.
-/
import AcnProofs.Lemmas.RegistryWF1
import AcnProofs.Lemmas.RegistryDecode5
import AcnProofs.Lemmas.ResumeRun
import AcnProofs.Lemmas.EventCoreRun

set_option linter.unusedSectionVars false

namespace Acn.RegistrySim
open Acn Acn.EventCore Acn.Sim

variable {K : Type} [Add K] [Sub K] [Mul K] [Div K] [Neg K] [LT K] [LE K]
  [DecidableLT K] [DecidableLE K] [OfNat K 0] [OfNat K 1] [NatCast K] [HasExp K]

structure SInv (cfg : Cfg K) (s : State K) : Prop where
  statics : s.evs.map sessionOf = cfg.evs.map sessionOf
  pilotLen : s.evsePilot.length = cfg.stations.length
  core : CInv cfg.core [] s.core

/-- frame: the static data of every EV and the number of EVSE pilots -/
def Frame (s s' : State K) : Prop :=
  s'.evs.map sessionOf = s.evs.map sessionOf ∧ s'.evsePilot.length = s.evsePilot.length

theorem Frame.refl (s : State K) : Frame s s := ⟨rfl, rfl⟩
theorem Frame.trans {a b c : State K} (h : Frame a b) (h' : Frame b c) : Frame a c :=
  ⟨h'.1.trans h.1, h'.2.trans h.2⟩

theorem sessions_eq (evs : List (Evse.Ev K)) : evs.map (·.session) = (evs.map sessionOf).map (·.id) := by
  rw [List.map_map]; rfl

theorem Frame.sessions {s s' : State K} (h : Frame s s') : s'.evs.map (·.session) = s.evs.map (·.session) := by
  rw [sessions_eq, sessions_eq, h.1]

/-! ### events -/

theorem stepEv_frame (cfg : Cfg K) (e : Event) (s : State K) : Frame s (stepEv cfg e s).1 := by
  unfold stepEv
  refine ⟨rfl, ?_⟩
  simp only
  split <;> simp

theorem processAll_frame (cfg : Cfg K) : ∀ (es : List Event) (s : State K), Frame s (Sim.processAll cfg es s).1
  | [], s => Frame.refl s
  | e :: es, s => by
    simp only [Sim.processAll]
    have h := stepEv_frame cfg e s
    rcases hs : stepEv cfg e s with ⟨s2, _ | err⟩
    · rw [hs] at h
      exact h.trans (processAll_frame cfg es s2)
    · rw [hs] at h; exact h

theorem eventsStage_frame (cfg : Cfg K) (s : State K) : Frame s (Sim.eventsStage cfg s).1 :=
  processAll_frame cfg _ _

/-! ### pilots -/

theorem charge_statics {e e' : Evse.Ev K} {p V T ν : K} (h : e.charge p V T ν = .ok e') : sessionOf e' = sessionOf e := by
  unfold Evse.Ev.charge at h
  split at h
  · cases h
  · simp only [Except.ok.injEq] at h; subst h; rfl

theorem replaceEv_statics {evs : List (Evse.Ev K)} {e e' : Evse.Ev K} (hn : (evs.map (·.session)).Nodup) (he : e ∈ evs)
    (hs : sessionOf e' = sessionOf e) : (replaceEv evs e').map sessionOf = evs.map sessionOf := by
  unfold replaceEv
  rw [List.map_map]
  apply List.map_congr_left
  intro d hd
  simp only [Function.comp]
  split
  · rename_i hde
    have h1 : e'.session = e.session := congrArg Session.id hs
    have h2 : d.session = e.session := by rw [← h1]; simpa using hde
    have : d = e := List.inj_on_of_nodup_map hn hd he h2
    rw [hs, this]
  · rfl

theorem occupantEv_mem {s : State K} {st : String} {e : Evse.Ev K} (h : occupantEv s st = some e) : e ∈ s.evs := by
  unfold occupantEv at h
  split at h
  · exact List.mem_of_find?_eq_some h
  · cases h

theorem setPilotAt_frame (cfg : Cfg K) (s : State K) (i : Nat) (st : Station K) (hn : (s.evs.map (·.session)).Nodup) :
    Frame s (setPilotAt cfg s i st).1 := by
  unfold setPilotAt
  simp only
  cases hsp : Evse.setPilot (atolOf cfg st.kind) cfg.atolFinite
      ({ station := st.id, kind := st.kind, pilot := s.evsePilot.getD i 0, ev := occupantEv s st.id } : Evse.Evse K)
      (s.pilots.get i s.core.iter) st.voltage cfg.period (noiseAt cfg s.noiseIdx) with
  | error er => cases er <;> exact Frame.refl s
  | ok evse' =>
    refine ⟨?_, by simp⟩
    simp only
    unfold Evse.setPilot at hsp
    split at hsp
    · simp only at hsp
      cases hocc : occupantEv s st.id with
      | none =>
        rw [hocc] at hsp
        simp only [Except.ok.injEq] at hsp
        subst hsp
        rfl
      | some e =>
        rw [hocc] at hsp
        simp only at hsp
        split at hsp
        · cases hsp
        · rename_i e' hc
          simp only [Except.ok.injEq] at hsp
          subst hsp
          exact replaceEv_statics hn (occupantEv_mem hocc) (charge_statics hc)
    · cases hsp

theorem updatePilotsFrom_frame (cfg : Cfg K) : ∀ (sts : List (Station K)) (i : Nat) (s : State K),
    (s.evs.map (·.session)).Nodup → Frame s (updatePilotsFrom cfg i sts s).1
  | [], _, s, _ => Frame.refl s
  | st :: rest, i, s, hn => by
    simp only [updatePilotsFrom]
    have h := setPilotAt_frame cfg s i st hn
    rcases hs : setPilotAt cfg s i st with ⟨s', _ | e⟩
    · rw [hs] at h
      exact h.trans (updatePilotsFrom_frame cfg rest (i + 1) s' (by rw [h.sessions]; exact hn))
    · rw [hs] at h; exact h

theorem storeRates_frame (cfg : Cfg K) (w : Nat) (s : State K) : Frame s (storeRates cfg w s).1 := by
  unfold storeRates
  simp only
  split
  · exact ⟨rfl, rfl⟩
  · split <;> exact ⟨rfl, rfl⟩

theorem applyStage_frame (cfg : Cfg K) (s : State K) (hn : (s.evs.map (·.session)).Nodup) :
    Frame s (applyStage cfg s).1 := by
  unfold applyStage
  split
  · exact ⟨rfl, rfl⟩
  · have hu := updatePilotsFrom_frame cfg cfg.stations 0 (widen s) hn
    have hw : Frame s (widen s) := ⟨rfl, rfl⟩
    unfold updatePilots
    rcases hup : updatePilotsFrom cfg 0 cfg.stations (widen s) with ⟨s2, _ | e2⟩
    · rw [hup] at hu
      simp only
      have hr := storeRates_frame cfg (widthInc s) s2
      rcases hst : storeRates cfg (widthInc s) s2 with ⟨s3, _ | e3⟩
      · rw [hst] at hr
        exact (hw.trans hu).trans (hr.trans ⟨rfl, rfl⟩)
      · rw [hst] at hr
        exact (hw.trans hu).trans hr
    · rw [hup] at hu
      exact hw.trans hu

theorem body_frame (cfg : Cfg K) (sched : View K → Except Err (Schedule K)) (s : State K)
    (hn : (s.evs.map (·.session)).Nodup) : Frame s (body cfg sched s).1 := by
  have he := eventsStage_frame cfg s
  unfold Sim.body
  rcases hes : Sim.eventsStage cfg s with ⟨s1, _ | e⟩
  · rw [hes] at he
    have hn1 : (s1.evs.map (·.session)).Nodup := by rw [he.sessions]; exact hn
    simp only
    split
    · split
      · exact he.trans ⟨rfl, rfl⟩
      · rename_i m _
        exact he.trans (Frame.trans (b := { s1 with pilots := m, core := markScheduled (markInvoked s1.core) })
          ⟨rfl, rfl⟩ (applyStage_frame cfg _ hn1))
    · exact he.trans (applyStage_frame cfg s1 hn1)
  · rw [hes] at he; exact he

/-! ### the invariant -/

theorem SInv.nodup {cfg : Cfg K} {s : State K} (h : SInv cfg s) (hid : (cfg.core.sessions.map (·.id)).Nodup) :
    (s.evs.map (·.session)).Nodup := by
  rw [sessions_eq, h.statics]; exact hid

theorem init_sinv (cfg : Cfg K) : SInv cfg (Sim.init cfg) :=
  ⟨rfl, by simp [Sim.init], init_cinv cfg.core⟩

/-- the core after the scheduling / pilot half of a period differs from the core before it only in the period
    counter, `_resolve`, `_last_schedule_update` and the call log -/
theorem afterEvents_cinv (cfg : Cfg K) (sched : View K → Except Err (Schedule K)) {s1 : State K}
    (h : CInv cfg.core [] s1.core) : CInv cfg.core [] (afterEvents cfg sched s1).1.core := by
  unfold afterEvents
  split
  · split
    · exact h.congr rfl rfl rfl rfl
    · rename_i m _
      have ha := applyStage_core cfg ({ s1 with pilots := m, core := markScheduled (markInvoked s1.core) } : State K)
      rw [ha]
      split <;> exact h.congr rfl rfl rfl rfl
  · have ha := applyStage_core cfg s1
    rw [ha]
    split
    · exact h.congr rfl rfl rfl rfl
    · exact h

/-- ONE PERIOD, any outcome of the scheduler / of the pilot application (raising or not) -/
theorem body_sinv (cfg : Cfg K) (sched : View K → Except Err (Schedule K)) {s : State K} (h : SInv cfg s)
    (hid : (cfg.core.sessions.map (·.id)).Nodup) (hok : (EventCore.eventsStage cfg.core s.core).2 = none) :
    SInv cfg (Sim.body cfg sched s).1 := by
  have hf := body_frame cfg sched s (h.nodup hid)
  refine ⟨hf.1.trans h.statics, hf.2.trans h.pilotLen, ?_⟩
  rw [body_eq]
  have hc := Sim.eventsStage_core cfg s
  have h1 := eventsStage_cinv h.core hok
  rcases he : Sim.eventsStage cfg s with ⟨s1, _ | err⟩
  · rw [he] at hc
    simp only at hc ⊢
    rw [← hc.1] at h1
    exact afterEvents_cinv cfg sched h1
  · rw [he] at hc
    simp only at hc
    rw [← hc.2] at hok
    cases hok

/-- a period of the full model that raises nothing is a period of the event core -/
theorem body_core_noFail {cfg : Cfg K} {sched : View K → Except Err (Schedule K)} {s s' : State K}
    (h : Sim.body cfg sched s = (s', none)) : EventCore.body cfg.core noFail noFail s.core = (s'.core, none) := by
  rw [body_eq] at h
  have hc := Sim.eventsStage_core cfg s
  unfold EventCore.body
  rcases he : Sim.eventsStage cfg s with ⟨s1, _ | err⟩
  · rw [he] at h hc
    simp only at h hc
    rcases hce : EventCore.eventsStage cfg.core s.core with ⟨c1, eo⟩
    rw [hce] at hc
    simp only at hc
    obtain ⟨hc1, hc2⟩ := hc
    subst hc1
    subst hc2
    simp only
    unfold afterEvents at h
    by_cases hn : needsSched cfg.maxRecompute s1.core = true
    · have hn' : needsSched cfg.core.maxRecompute s1.core = true := hn
      rw [if_pos hn] at h
      rw [if_pos hn']
      rcases hs : schedStage cfg sched { s1 with core := markInvoked s1.core } with e | m
      · rw [hs] at h; cases h
      · rw [hs] at h
        simp only at h
        have ha := applyStage_core cfg ({ s1 with pilots := m, core := markScheduled (markInvoked s1.core) } : State K)
        rw [h] at ha
        simp only at ha
        simp only [noFail, finish]
        rw [ha]
    · have hn' : ¬ needsSched cfg.core.maxRecompute s1.core = true := hn
      rw [if_neg hn] at h
      rw [if_neg hn']
      have ha := applyStage_core cfg s1
      rw [h] at ha
      simp only at ha
      simp only [noFail, finish]
      rw [ha]
  · rw [he] at h; cases h

/-- EVERY state `Sim.run` returns from a loop-head state of a `Valid` scenario -/
theorem run_sinv (cfg : Cfg K) (sched : View K → Except Err (Schedule K)) (hv : Valid cfg.core) :
    ∀ (n t : Nat) (s : State K), Inv cfg.core t s.core → SInv cfg s → SInv cfg (run cfg sched n s).1
  | 0, _, _, _, h => h
  | n + 1, t, s, hI, h => by
    simp only [Sim.run]
    split
    · obtain ⟨c1, hes, _⟩ := eventsStage_ok hv hI
      have hb := body_sinv cfg sched h hv.ids_nodup (by rw [hes])
      rcases hbody : Sim.body cfg sched s with ⟨s', _ | e⟩
      · rw [hbody] at hb
        simp only
        have hcore := body_core_noFail hbody
        obtain ⟨c', hc', hI'⟩ := body_ok hv (sched := noFail) (apply := noFail) (fun _ => rfl) (fun _ => rfl) hI
        rw [hc'] at hcore
        have : c' = s'.core := congrArg Prod.fst hcore
        exact run_sinv cfg sched hv n (t + 1) s' (this ▸ hI') hb
      · rw [hbody] at hb; exact hb
    · exact h

/-! ### `SInv` ⇒ `WF`, `AllRef` -/

theorem SInv.wf {cfg : Cfg K} {s : State K} (h : SInv cfg s) (hid : (cfg.core.sessions.map (·.id)).Nodup) : WF cfg s := by
  have hn := h.nodup hid
  have hsess : ∀ x, x ∈ cfg.core.sessions ↔ ∃ e ∈ s.evs, sessionOf e = x := by
    intro x
    show x ∈ cfg.evs.map sessionOf ↔ _
    rw [← h.statics, List.mem_map]
  have hfind : ∀ e ∈ s.evs, evOf s e.session = some e := by
    intro e he
    unfold evOf
    cases hf : s.evs.find? (fun d => d.session == e.session) with
    | none =>
      have := List.find?_eq_none.1 hf e he
      simp at this
    | some d =>
      have h1 : d.session = e.session := by simpa using List.find?_some hf
      exact congrArg some (List.inj_on_of_nodup_map hn (List.mem_of_find?_eq_some hf) he h1)
  have hres : ∀ sid, sid ∈ cfg.core.sessions.map (·.id) → (evOf s sid).isSome = true := by
    intro sid hsid
    obtain ⟨x, hx, rfl⟩ := List.mem_map.1 hsid
    obtain ⟨e, he, rfl⟩ := (hsess x).1 hx
    have := hfind e he
    show (evOf s e.session).isSome = true
    rw [this]; rfl
  refine ⟨?_, h.pilotLen, ?_, ?_, ?_, ?_, ?_⟩
  · have := congrArg List.length h.statics
    simpa using this
  · intro st x ho
    have := (h.core.occ st x ho).1
    obtain ⟨stn, hm, hid'⟩ := List.mem_map.1 this
    exact ⟨stn, hm, hid'⟩
  · intro st x ho
    obtain ⟨e, he, rfl⟩ := (hsess x).1 (h.core.occ st x ho).2
    show (evOf s e.session).map sessionOf = _
    rw [hfind e he]; rfl
  · exact fun e he hk => hres _ (h.core.ev e (Or.inr (Or.inl he)) hk)
  · exact fun e he hk => hres _ (h.core.ev e (Or.inr (Or.inr he)) hk)
  · exact fun sid hsid => hres _ (h.core.evh sid hsid)

theorem SInv.allRef {cfg : Cfg K} {s : State K} (h : SInv cfg s) (hid : (cfg.core.sessions.map (·.id)).Nodup) :
    AllRef cfg s := by
  refine allRef_of_nodup (h.nodup hid) (fun e he => ?_)
  have hx : sessionOf e ∈ cfg.core.sessions := by
    show sessionOf e ∈ cfg.evs.map sessionOf
    rw [← h.statics]; exact List.mem_map.2 ⟨e, he, rfl⟩
  unfold refSessions
  rcases h.core.ref _ hx with hr | ⟨d, hd, hk, hds⟩
  · exact List.mem_append_left _ (List.mem_append_left _ hr)
  · refine List.mem_append_left _ (List.mem_append_right _ (List.mem_map.2 ⟨d, List.mem_filter.2 ⟨?_, by simpa using hk⟩, hds⟩))
    rcases hd with hd | hd | hd
    · cases hd
    · exact List.mem_append_left _ hd
    · exact List.mem_append_right _ hd

end Acn.RegistrySim
