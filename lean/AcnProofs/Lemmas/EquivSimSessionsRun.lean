/-
  Helper lemmas for C10 (Sim level, sessions 2/2): pilot application, one trip round the loop and the
  whole run from two states that differ by the listing order of the EV records / the queue.
-/
import AcnProofs.Lemmas.EquivSimSessions

set_option linter.unusedSectionVars false
set_option linter.unusedSimpArgs false

namespace Acn.SimPerm
open Acn Acn.Sim Acn.EventCore Acn.Evse Acn.SimEquiv Acn.Ledger Acn.Pilots

variable {K : Type} [Field K] [LinearOrder K] [IsStrictOrderedRing K] [HasExp K]

section
variable {cfg : Cfg K}

theorem currentRates_mid {s s' : State K} (h : Mid s s') : currentRates cfg s' = currentRates cfg s := by
  unfold currentRates
  apply List.map_congr_left
  intro st _
  rw [occupantEv_mid h]

theorem storeRates_evse (w : Nat) (s : State K) : (storeRates cfg w s).1.evsePilot = s.evsePilot := by
  unfold storeRates
  simp only
  by_cases h1 : s.core.iter < s.rates.width
  · simp only [h1, if_true]
  · simp only [h1, if_false]
    split <;> rfl

theorem storeRates_mid (w : Nat) {s s' : State K} (h : Mid s s') :
    (storeRates cfg w s').2 = (storeRates cfg w s).2 ∧ Mid (storeRates cfg w s).1 (storeRates cfg w s').1 := by
  unfold storeRates
  simp only
  rw [currentRates_mid h, h.iter, h.rates, h.peak]
  by_cases h1 : s.core.iter < s.rates.width
  · simp only [h1, if_true]
    exact ⟨trivial, ⟨h.occ, h.iter, h.pend, h.pilots, rfl, rfl, h.evs, h.evseLen, h.noiseIdx, h.occLog⟩⟩
  · simp only [h1, if_false]
    by_cases h2 : s.core.iter < (increaseWidth s.rates w).width
    · simp only [h2, if_true]
      exact ⟨trivial, ⟨h.occ, h.iter, h.pend, h.pilots, rfl, rfl, h.evs, h.evseLen, h.noiseIdx, h.occLog⟩⟩
    · simp only [h2, if_false]
      exact ⟨trivial, ⟨h.occ, h.iter, h.pend, h.pilots, rfl, rfl, h.evs, h.evseLen, h.noiseIdx, h.occLog⟩⟩

theorem widthInc_mid {s s' : State K} (h : Mid s s') : widthInc s' = widthInc s := by
  unfold widthInc
  rw [lastTs_perm h.pend, h.iter]

theorem applyStage_mid {s s' r : State K} (h : Mid s s') (hl : s.evsePilot.length = cfg.stations.length)
    (hr : applyStage cfg s = (r, none)) :
    ∃ r', applyStage cfg s' = (r', none) ∧ Mid r r' ∧ r'.evsePilot = r.evsePilot ∧
      r.evsePilot.length = cfg.stations.length := by
  have hwi := widthInc_mid h
  have hm : Mid (widen s) (widen s') := by
    refine ⟨h.occ, h.iter, h.pend, ?_, ?_, h.peak, h.evs, h.evseLen, h.noiseIdx, h.occLog⟩
    · simp only [widen, hwi, h.pilots]
    · simp only [widen, hwi, h.rates]
  unfold applyStage at hr ⊢
  rw [hm.pilots, h.iter, hwi]
  by_cases hwc : (widen s).pilots.width ≤ s.core.iter
  · simp [hwc] at hr
  · simp only [hwc, if_false] at hr ⊢
    obtain ⟨h1, h2⟩ := updatePilotsFrom_mid (cfg := cfg) cfg.stations 0 hm
    unfold updatePilots at hr ⊢
    obtain ⟨s2, e2, hup⟩ : ∃ s2 e2, updatePilotsFrom cfg 0 cfg.stations (widen s) = (s2, e2) := ⟨_, _, rfl⟩
    obtain ⟨s2', e2', hup'⟩ : ∃ s2' e2', updatePilotsFrom cfg 0 cfg.stations (widen s') = (s2', e2') := ⟨_, _, rfl⟩
    rw [hup, hup'] at h1 h2
    rw [hup] at hr
    rw [hup']
    simp only at h1 h2
    subst h1
    cases e2' with
    | some x => simp at hr
    | none =>
      simp only at hr ⊢
      -- `EVSE.current_pilot` is the pilot column on both sides
      have hev : s2.evsePilot = (List.range cfg.stations.length).map (fun j => (widen s).pilots.get j (widen s).core.iter) :=
        updatePilots_evse (cfg := cfg) hup hl
      have hev' : s2'.evsePilot = (List.range cfg.stations.length).map (fun j => (widen s').pilots.get j (widen s').core.iter) :=
        updatePilots_evse (cfg := cfg) hup' (by
          have : (widen s').evsePilot.length = (widen s).evsePilot.length := hm.evseLen
          rw [this]; exact hl)
      have heq : s2'.evsePilot = s2.evsePilot := by
        rw [hev, hev', hm.pilots]
        have : (widen s').core.iter = (widen s).core.iter := hm.iter
        rw [this]
      obtain ⟨h3, h4⟩ := storeRates_mid (cfg := cfg) (widthInc s) h2
      obtain ⟨s3, e3, hs3⟩ : ∃ s3 e3, storeRates cfg (widthInc s) s2 = (s3, e3) := ⟨_, _, rfl⟩
      obtain ⟨s3', e3', hs3'⟩ : ∃ s3' e3', storeRates cfg (widthInc s) s2' = (s3', e3') := ⟨_, _, rfl⟩
      have hv3 : s3.evsePilot = s2.evsePilot := by have := storeRates_evse (cfg := cfg) (widthInc s) s2; rw [hs3] at this; exact this
      have hv3' : s3'.evsePilot = s2'.evsePilot := by have := storeRates_evse (cfg := cfg) (widthInc s) s2'; rw [hs3'] at this; exact this
      rw [hs3, hs3'] at h3 h4
      rw [hs3] at hr
      rw [hs3']
      simp only at h3 h4
      subst h3
      cases e3' with
      | some x => simp at hr
      | none =>
        simp only [Prod.mk.injEq, and_true] at hr
        subst hr
        refine ⟨_, rfl, ⟨h4.occ, ?_, h4.pend, h4.pilots, h4.rates, h4.peak, h4.evs, h4.evseLen, h4.noiseIdx, ?_⟩, ?_, ?_⟩
        · simp only [advance, h4.iter]
        · simp only [h4.occLog, h4.occ]
        · show s3'.evsePilot = s3.evsePilot
          rw [hv3, hv3', heq]
        · show s3.evsePilot.length = _
          rw [hv3, hev]; simp

/-! ### events -/

theorem stepEv_frame (e : Event) (s : State K) :
    (stepEv cfg e s).1.pilots = s.pilots ∧ (stepEv cfg e s).1.rates = s.rates ∧ (stepEv cfg e s).1.peak = s.peak ∧
    (stepEv cfg e s).1.evs = s.evs ∧ (stepEv cfg e s).1.noiseIdx = s.noiseIdx ∧ (stepEv cfg e s).1.occLog = s.occLog ∧
    (stepEv cfg e s).1.evsePilot.length = s.evsePilot.length := by
  unfold stepEv
  refine ⟨rfl, rfl, rfl, rfl, rfl, rfl, ?_⟩
  simp only
  split <;> simp

theorem processAll_frame' : ∀ (es : List Event) (s : State K),
    (Sim.processAll cfg es s).1.pilots = s.pilots ∧ (Sim.processAll cfg es s).1.rates = s.rates ∧
    (Sim.processAll cfg es s).1.peak = s.peak ∧ (Sim.processAll cfg es s).1.evs = s.evs ∧
    (Sim.processAll cfg es s).1.noiseIdx = s.noiseIdx ∧ (Sim.processAll cfg es s).1.occLog = s.occLog ∧
    (Sim.processAll cfg es s).1.evsePilot.length = s.evsePilot.length := by
  intro es
  induction es with
  | nil => intro s; exact ⟨rfl, rfl, rfl, rfl, rfl, rfl, rfl⟩
  | cons e es ih =>
    intro s
    obtain ⟨a1, a2, a3, a4, a5, a6, a7⟩ := stepEv_frame (cfg := cfg) e s
    simp only [Sim.processAll]
    obtain ⟨s2, e2, hst⟩ : ∃ s2 e2, stepEv cfg e s = (s2, e2) := ⟨_, _, rfl⟩
    rw [hst] at a1 a2 a3 a4 a5 a6 a7 ⊢
    simp only at a1 a2 a3 a4 a5 a6 a7
    cases e2 with
    | some x => exact ⟨a1, a2, a3, a4, a5, a6, a7⟩
    | none =>
      obtain ⟨b1, b2, b3, b4, b5, b6, b7⟩ := ih s2
      exact ⟨b1.trans a1, b2.trans a2, b3.trans a3, b4.trans a4, b5.trans a5, b6.trans a6, b7.trans a7⟩

theorem eventsStage_frame' (s : State K) :
    (Sim.eventsStage cfg s).1.pilots = s.pilots ∧ (Sim.eventsStage cfg s).1.rates = s.rates ∧
    (Sim.eventsStage cfg s).1.peak = s.peak ∧ (Sim.eventsStage cfg s).1.evs = s.evs ∧
    (Sim.eventsStage cfg s).1.noiseIdx = s.noiseIdx ∧ (Sim.eventsStage cfg s).1.occLog = s.occLog ∧
    (Sim.eventsStage cfg s).1.evsePilot.length = s.evsePilot.length := by
  unfold Sim.eventsStage
  exact processAll_frame' _ _

/-! ### the loop -/

/-- everything outside the core at a loop head -/
structure NC (s s' : State K) : Prop where
  pilots : s'.pilots = s.pilots
  rates : s'.rates = s.rates
  peak : s'.peak = s.peak
  evs : EvsPerm s.evs s'.evs
  evsePilot : s'.evsePilot = s.evsePilot
  noiseIdx : s'.noiseIdx = s.noiseIdx
  occLog : s'.occLog = s.occLog

theorem body_perm_sim (hv : Valid cfg.core) {sched : View K → Except EventCore.Err (Schedule K)}
    (hsch : SchedIgnoresEvsePilot sched) {t : Nat} {s s' r : State K} (hrel : Rel cfg.core t s.core s'.core)
    (hnc : NC s s') (hl : s.evsePilot.length = cfg.stations.length) (hb : Sim.body cfg sched s = (r, none)) :
    ∃ r', Sim.body cfg sched s' = (r', none) ∧ Rel cfg.core (t + 1) r.core r'.core ∧ NC r r' ∧
      r.evsePilot.length = cfg.stations.length := by
  -- events
  obtain ⟨c1, c1', hc, hc', hce, _, _⟩ := eventsStage_equiv hv hrel
  have hcs := Sim.eventsStage_core cfg s
  have hcs' := Sim.eventsStage_core cfg s'
  rw [hc] at hcs
  rw [hc'] at hcs'
  obtain ⟨f1, f2, f3, f4, f5, f6, f7⟩ := eventsStage_frame' (cfg := cfg) s
  obtain ⟨g1, g2, g3, g4, g5, g6, g7⟩ := eventsStage_frame' (cfg := cfg) s'
  obtain ⟨s1, e1, hev⟩ : ∃ s1 e1, Sim.eventsStage cfg s = (s1, e1) := ⟨_, _, rfl⟩
  obtain ⟨s1', e1', hev'⟩ : ∃ s1' e1', Sim.eventsStage cfg s' = (s1', e1') := ⟨_, _, rfl⟩
  rw [hev] at hcs f1 f2 f3 f4 f5 f6 f7
  rw [hev'] at hcs' g1 g2 g3 g4 g5 g6 g7
  simp only [Prod.mk.injEq] at hcs hcs' f1 f2 f3 f4 f5 f6 f7 g1 g2 g3 g4 g5 g6 g7
  obtain ⟨hk1, hk2⟩ := hcs
  obtain ⟨hk1', hk2'⟩ := hcs'
  subst hk2 hk2'
  have hmid : Mid s1 s1' :=
    ⟨by rw [hk1, hk1', hce.occ], by rw [hk1, hk1', hce.iter], by rw [hk1, hk1']; exact hce.pending.symm,
     by rw [f1, g1, hnc.pilots], by rw [f2, g2, hnc.rates], by rw [f3, g3, hnc.peak],
     by rw [f4, g4]; exact hnc.evs, by rw [f7, g7, hnc.evsePilot], by rw [f5, g5, hnc.noiseIdx],
     by rw [f6, g6, hnc.occLog]⟩
  have hl1 : s1.evsePilot.length = cfg.stations.length := f7.trans hl
  have hns : needsSched cfg.maxRecompute s1'.core = needsSched cfg.maxRecompute s1.core := by
    rw [hk1, hk1']
    simp only [needsSched, hce.resolve, hce.lastUpd, hce.iter]
  -- the rest of the body
  have key : ∃ r', Sim.body cfg sched s' = (r', none) ∧ Mid r r' ∧ r'.evsePilot = r.evsePilot ∧
      r.evsePilot.length = cfg.stations.length := by
    unfold Sim.body at hb ⊢
    rw [hev] at hb
    rw [hev']
    simp only [hns] at hb ⊢
    by_cases hn : needsSched cfg.maxRecompute s1.core = true
    · simp only [hn, if_true] at hb ⊢
      have hm2 : Mid { s1 with core := markInvoked s1.core } { s1' with core := markInvoked s1'.core } :=
        ⟨hmid.occ, hmid.iter, hmid.pend, hmid.pilots, hmid.rates, hmid.peak, hmid.evs, hmid.evseLen, hmid.noiseIdx,
          hmid.occLog⟩
      rw [schedStage_mid (cfg := cfg) hsch hm2]
      cases hss : schedStage cfg sched { s1 with core := markInvoked s1.core } with
      | error e => rw [hss] at hb; simp at hb
      | ok m =>
        rw [hss] at hb
        simp only at hb ⊢
        exact applyStage_mid (cfg := cfg)
          (s := { s1 with core := markScheduled (markInvoked s1.core), pilots := m })
          (s' := { s1' with core := markScheduled (markInvoked s1'.core), pilots := m })
          ⟨hmid.occ, hmid.iter, hmid.pend, rfl, hmid.rates, hmid.peak, hmid.evs, hmid.evseLen, hmid.noiseIdx,
            hmid.occLog⟩ hl1 hb
    · simp only [hn, Bool.false_eq_true, if_false] at hb ⊢
      exact applyStage_mid (cfg := cfg) hmid hl1 hb
  obtain ⟨r', hb', hm, hev2, hlr⟩ := key
  refine ⟨r', hb', ?_, ⟨hm.pilots, hm.rates, hm.peak, hm.evs, hev2, hm.noiseIdx, hm.occLog⟩, hlr⟩
  -- the cores: through the event-core run
  obtain ⟨d, d', hd, hd', hR⟩ := body_equiv hv (sched := noFail) (apply := noFail) (fun _ => rfl) (fun _ => rfl) hrel
  have e1 := Sim.body_core cfg sched s (by rw [hb])
  have e2 := Sim.body_core cfg sched s' (by rw [hb'])
  rw [hd, hb] at e1
  rw [hd', hb'] at e2
  have a1 : d = r.core := congrArg Prod.fst e1
  have a2 : d' = r'.core := congrArg Prod.fst e2
  rw [← a1, ← a2]
  exact hR

theorem run_perm_sim (hv : Valid cfg.core) {sched : View K → Except EventCore.Err (Schedule K)}
    (hsch : SchedIgnoresEvsePilot sched) : ∀ (n t : Nat) {s s' r : State K}, Rel cfg.core t s.core s'.core →
    NC s s' → s.evsePilot.length = cfg.stations.length → Sim.run cfg sched n s = (r, none) →
    ∃ r', Sim.run cfg sched n s' = (r', none) ∧ CoreEquiv r.core r'.core ∧ NC r r' := by
  intro n
  induction n with
  | zero =>
    intro t s s' r hrel hnc _ hr
    simp only [Sim.run, Prod.mk.injEq, and_true] at hr
    subst hr
    exact ⟨s', rfl, hrel.equiv, hnc⟩
  | succ n ih =>
    intro t s s' r hrel hnc hl hr
    have hg := guard_equiv hrel.equiv
    simp only [Sim.run] at hr ⊢
    rw [← hg]
    by_cases hgc : guard s.core = true
    · simp only [hgc, if_true] at hr ⊢
      obtain ⟨s1, e1, hb⟩ : ∃ s1 e1, Sim.body cfg sched s = (s1, e1) := ⟨_, _, rfl⟩
      rw [hb] at hr
      cases e1 with
      | some e => simp at hr
      | none =>
        simp only at hr
        obtain ⟨s1', hb', hrel1, hnc1, hl1⟩ := body_perm_sim hv hsch hrel hnc hl hb
        rw [hb']
        exact ih (t + 1) hrel1 hnc1 hl1 hr
    · simp only [hgc, Bool.false_eq_true, if_false, Prod.mk.injEq, and_true] at hr ⊢
      subst hr
      exact ⟨s', rfl, hrel.equiv, hnc⟩

end
end Acn.SimPerm
