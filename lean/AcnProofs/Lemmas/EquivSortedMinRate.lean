/-
  Helper lemmas for C10 (stations × the sorting-based algorithms with `uninterrupted_charging = True`).
  `apply_minimum_charging_rate` (preprocessing.py:108-160) sorts the sessions by `remaining_time`
  (stable: a tie is broken by the order of `network.active_evs`, i.e. the station order) and then fills
  ONE rate vector session by session, asking the feasibility oracle each time.  With the stations
  re-indexed by `σ` and no two sessions sharing their remaining time, the queue is the same, the
  vector is the re-indexed one at every step, and the sessions come out IN THE SAME ORDER — so the
  main sort that follows starts from the same list whatever the registration order was: no hypothesis
  on ties of the main key is needed in this mode.
  Also here: `allocResult` — the part of `Sorted.scheduleCall` behind the queue — and its equivariance.
-/
import AcnProofs.Lemmas.EquivSortedStations
import AcnProofs.Lemmas.SortedOpt

set_option linter.unusedSectionVars false
set_option linter.unusedSimpArgs false
set_option linter.unusedVariables false

namespace Acn.Sorted
open Acn Acn.SimEquiv

variable {K : Type} [Field K] [LinearOrder K] [IsStrictOrderedRing K]

/-! ### a stable sort of a permuted, tie-free input -/

theorem sortBy_perm_of_distinct {α : Type} (lt : α → α → Bool)
    (htrans : ∀ a b c, lt b a = false → lt c b = false → lt c a = false)
    (hasym : ∀ a b, lt a b = true → lt b a = false) {l l' : List α} (hp : l'.Perm l)
    (hd : ∀ a ∈ l, ∀ b ∈ l, lt a b = false → lt b a = false → a = b) :
    sortBy lt l' = sortBy lt l := by
  have s1 := sortBy_pairwise lt htrans hasym l
  have s2 := sortBy_pairwise lt htrans hasym l'
  refine List.Perm.eq_of_pairwise ?_ s2 s1 ((sortBy_perm lt l').trans (hp.trans (sortBy_perm lt l).symm))
  intro a b ha hb h1 h2
  have ha' : a ∈ l := hp.mem_iff.1 ((sortBy_perm lt l').mem_iff.1 ha)
  have hb' : b ∈ l := (sortBy_perm lt l).mem_iff.1 hb
  exact hd a ha' b hb' h2 h1

/-- the comparison of `sorted(active_sessions, key=lambda x: x.remaining_time)` -/
def ltRT (a b : Session K) : Bool := decide (a.remainingTime < b.remainingTime)

theorem ltRT_trans (a b c : Session K) (h1 : ltRT b a = false) (h2 : ltRT c b = false) : ltRT c a = false := by
  simp only [ltRT, decide_eq_false_iff_not, Nat.not_lt] at h1 h2 ⊢
  omega

theorem ltRT_asym (a b : Session K) (h : ltRT a b = true) : ltRT b a = false := by
  simp only [ltRT, decide_eq_true_eq, decide_eq_false_iff_not, Nat.not_lt] at h ⊢
  omega

theorem applyMinimumRate_eq (feas : List K → Bool) (infra : Infra K) (period : K) (l : List (Session K)) :
    applyMinimumRate feas infra period l =
      ((sortBy ltRT l).foldl (minRateStep feas infra period) (List.replicate infra.ids.length 0, [])).2 := rfl

/-- no two sessions of the list have the same remaining time -/
def DistinctRT (l : List (Session K)) : Prop :=
  ∀ a ∈ l, ∀ b ∈ l, a.remainingTime = b.remainingTime → a = b

theorem reconcile_mv (σ : List Nat) (s : Session K) : reconcile (mv σ s) = mv σ (reconcile s) := by
  unfold reconcile
  have h1 : (mv σ s).maxRate = s.maxRate := rfl
  have h2 : (mv σ s).minRate = s.minRate := rfl
  rw [h1, h2]
  split <;> rfl

theorem reconcile_idx (s : Session K) : (reconcile s).idx = s.idx := by
  unfold reconcile
  split <;> rfl

section
variable {σ : List Nat} {n : Nat} (hσ : σ.Perm (List.range n)) (infra : Infra K)
  (feas feas' : List K → Bool) (hf : ∀ x : List K, x.length = n → feas' (reidx σ x 0) = feas x)
include hσ hf

theorem minRateStep_mv (period : K) (rates : List K) (hl : rates.length = n) (acc : List (Session K))
    {s : Session K} (hs : s.idx < n) :
    minRateStep feas' (reInfra σ infra) period (reidx σ rates 0, acc.map (mv σ)) (mv σ s) =
      (reidx σ (minRateStep feas infra period (rates, acc) s).1 0,
        (minRateStep feas infra period (rates, acc) s).2.map (mv σ)) := by
  unfold minRateStep
  have hmp : (reInfra σ infra).minPilot.getD (mv σ s).idx 0 = infra.minPilot.getD s.idx 0 :=
    getD_reidx_pos hσ _ _ hs
  have hi : (mv σ s).idx = pos σ s.idx := rfl
  have hmin : (mv σ s).minRate = s.minRate := rfl
  simp only [hmp, rap_mv hσ infra period hs]
  rw [hi, reidx_set_pos hσ rates 0 _ hs hl, reidx_set_pos hσ rates 0 0 hs hl, hf _ (by simp [hl])]
  by_cases hc : (decide (infra.minPilot.getD s.idx 0 ≤ rap infra period s) &&
      feas (rates.set s.idx (infra.minPilot.getD s.idx 0))) = true
  · simp only [hc, if_true, List.map_append, List.map_cons, List.map_nil, hmin]
    congr 2
    rw [← reconcile_mv]
    rfl
  · simp only [hc, Bool.false_eq_true, if_false, List.map_append, List.map_cons, List.map_nil]
    rfl

omit hσ hf in
theorem minRateStep_len (period : K) (acc : List K × List (Session K)) (s : Session K) :
    (minRateStep feas infra period acc s).1.length = acc.1.length := by
  unfold minRateStep
  simp only
  split <;> simp

theorem fold_minRate_mv (period : K) (q : List (Session K)) (hq : ∀ s ∈ q, s.idx < n) :
    ∀ (rates : List K) (acc : List (Session K)), rates.length = n →
      (q.map (mv σ)).foldl (minRateStep feas' (reInfra σ infra) period) (reidx σ rates 0, acc.map (mv σ)) =
        (reidx σ (q.foldl (minRateStep feas infra period) (rates, acc)).1 0,
          (q.foldl (minRateStep feas infra period) (rates, acc)).2.map (mv σ)) := by
  induction q with
  | nil => intro rates acc _; rfl
  | cons s rest ih =>
    intro rates acc hl
    simp only [List.map_cons, List.foldl_cons]
    rw [minRateStep_mv hσ infra feas feas' hf period rates hl acc (hq s List.mem_cons_self)]
    have hlen := minRateStep_len infra feas period (rates, acc) s
    rcases hst : minRateStep feas infra period (rates, acc) s with ⟨r1, a1⟩
    rw [hst] at hlen
    exact ih (fun x hx => hq x (List.mem_cons_of_mem _ hx)) r1 a1 (by simpa [hl] using hlen)

/-- `apply_minimum_charging_rate` under a re-indexing of the stations: the same sessions in the same
    order, for a permuted, tie-free (in `remaining_time`) input -/
theorem applyMinimumRate_mv (hn : infra.ids.length = n) (period : K) {l l' : List (Session K)}
    (hp : l'.Perm (l.map (mv σ))) (hl : ∀ s ∈ l, s.idx < n) (hd : DistinctRT l) :
    applyMinimumRate feas' (reInfra σ infra) period l' =
      (applyMinimumRate feas infra period l).map (mv σ) := by
  rw [applyMinimumRate_eq, applyMinimumRate_eq]
  have hq : sortBy ltRT l' = (sortBy ltRT l).map (mv σ) := by
    rw [sortBy_perm_of_distinct ltRT ltRT_trans ltRT_asym hp]
    · exact sortBy_map ltRT ltRT (mv σ) l (fun _ _ _ _ => rfl)
    · intro a' ha' b' hb' h1 h2
      obtain ⟨a, ha, rfl⟩ := List.mem_map.1 ha'
      obtain ⟨b, hb, rfl⟩ := List.mem_map.1 hb'
      have h1' : ltRT a b = false := h1
      have h2' : ltRT b a = false := h2
      have : a.remainingTime = b.remainingTime := by
        simp only [ltRT, decide_eq_false_iff_not, Nat.not_lt] at h1' h2'
        omega
      rw [hd a ha b hb this]
  have hn' : (reInfra σ infra).ids.length = n := reidx_length' hσ _ _
  have hqi : ∀ s ∈ sortBy ltRT l, s.idx < n := fun s hs => hl s ((sortBy_perm ltRT l).mem_iff.1 hs)
  rw [hq, hn, hn']
  have key := fold_minRate_mv hσ infra feas feas' hf period _ hqi (List.replicate n 0) [] (by simp)
  rw [reidx_zeros hσ] at key
  simp only [List.map_nil] at key
  rw [key]

omit hσ hf in
theorem fold_minRate_idx (period : K) (m : Nat) (q : List (Session K)) (hq : ∀ s ∈ q, s.idx < m) :
    ∀ (acc : List K × List (Session K)), (∀ s ∈ acc.2, s.idx < m) →
      ∀ s ∈ (q.foldl (minRateStep feas infra period) acc).2, s.idx < m := by
  induction q with
  | nil => intro acc h; exact h
  | cons x rest ih =>
    intro acc h
    simp only [List.foldl_cons]
    apply ih (fun y hy => hq y (List.mem_cons_of_mem _ hy))
    intro s hs
    unfold minRateStep at hs
    simp only at hs
    split at hs
    · simp only [List.mem_append, List.mem_singleton] at hs
      rcases hs with hs | rfl
      · exact h s hs
      · rw [reconcile_idx]; exact hq x List.mem_cons_self
    · simp only [List.mem_append, List.mem_singleton] at hs
      rcases hs with hs | rfl
      · exact h s hs
      · exact hq x List.mem_cons_self

omit hσ hf in
theorem applyMinimumRate_idx (period : K) (m : Nat) (l : List (Session K)) (hl : ∀ s ∈ l, s.idx < m) :
    ∀ s ∈ applyMinimumRate feas infra period l, s.idx < m := by
  rw [applyMinimumRate_eq]
  apply fold_minRate_idx infra feas period m _ (fun s hs => hl s ((sortBy_perm ltRT l).mem_iff.1 hs))
  intro s hs
  cases hs

end

/-! ### the part of `scheduleCall` behind the queue -/

/-- `sorting_algorithm` resp. `round_robin` on the sorted queue: the rate vector or the error -/
def allocResult [HasCeilNat K] (feas : List K → Bool) (cfgS : Config K) (infra : Infra K) (period : K)
    (queue : List (Session K)) : Except Err (List K) :=
  match cfgS.algo with
  | .greedy => sortingAlgorithm feas cfgS.fuel cfgS.eps infra period queue
  | .roundRobin => (roundRobin feas (rrLevels infra period cfgS.inc) infra queue).map (·.sched)

theorem scheduleCall_result [HasCeilNat K] (feas : List K → Bool) (cfgS : Config K) (infra : Infra K) (period : K)
    (time : Int) (prev : String → Option (K × K)) (rd : Rampdown K) (raw : List (Session K)) :
    (scheduleCall feas cfgS infra period time prev rd raw).result =
      match resolve infra raw with
      | .error e => .error e
      | .ok l => allocResult feas cfgS infra period
          (sortSessions cfgS.sort infra period time (preprocess feas cfgS infra period prev rd l).1) := by
  unfold scheduleCall allocResult
  cases resolve infra raw with
  | error e => rfl
  | ok l =>
    simp only
    cases cfgS.algo with
    | greedy => rfl
    | roundRobin =>
      simp only
      cases roundRobin feas (rrLevels infra period cfgS.inc) infra
          (sortSessions cfgS.sort infra period time (preprocess feas cfgS infra period prev rd l).1) with
      | error e => rfl
      | ok st => rfl

theorem scheduleCall_rd [HasCeilNat K] (feas : List K → Bool) (cfgS : Config K) (infra : Infra K) (period : K)
    (time : Int) (prev : String → Option (K × K)) (rd : Rampdown K) (raw : List (Session K)) :
    (scheduleCall feas cfgS infra period time prev rd raw).rd =
      match resolve infra raw with
      | .error _ => rd
      | .ok l => (preprocess feas cfgS infra period prev rd l).2 := by
  unfold scheduleCall
  cases resolve infra raw with
  | error e => rfl
  | ok l =>
    simp only
    cases cfgS.algo with
    | greedy => rfl
    | roundRobin =>
      simp only
      cases roundRobin feas (rrLevels infra period cfgS.inc) infra
          (sortSessions cfgS.sort infra period time (preprocess feas cfgS infra period prev rd l).1) with
      | error e => rfl
      | ok st => rfl

section
variable {σ : List Nat} {n : Nat} (hσ : σ.Perm (List.range n)) (infra : Infra K)
  (feas feas' : List K → Bool) (hf : ∀ x : List K, x.length = n → feas' (reidx σ x 0) = feas x)
include hσ hf

/-- the allocation on a re-indexed queue: the re-indexed rate vector, or the same error -/
theorem allocResult_mv [HasCeilNat K] (hn : infra.ids.length = n) (hallow : infra.allow.length = n) (cfgS : Config K)
    (period : K) (q : List (Session K)) (hq : ∀ s ∈ q, s.idx < n) :
    allocResult feas' cfgS (reInfra σ infra) period (q.map (mv σ)) =
      (allocResult feas cfgS infra period q).map (fun x => reidx σ x 0) ∧
    ∀ out, allocResult feas cfgS infra period q = .ok out → out.length = n := by
  unfold allocResult
  cases cfgS.algo with
  | greedy =>
    simp only
    refine ⟨sortingAlgorithm_mv hσ infra feas feas' hf hn cfgS.fuel cfgS.eps period q hq, ?_⟩
    intro out ho
    rw [sortingAlgorithm_len infra feas cfgS.fuel cfgS.eps period q out ho, hn]
  | roundRobin =>
    simp only
    obtain ⟨h1, h2⟩ := roundRobin_mv hσ infra feas feas' hf hn hallow (rrLevels infra period cfgS.inc)
      (rrLevels (reInfra σ infra) period cfgS.inc) q hq (fun s hs => rrLevels_mv hσ infra period cfgS.inc (hq s hs))
    refine ⟨?_, ?_⟩
    · rw [h1]
      cases roundRobin feas (rrLevels infra period cfgS.inc) infra q with
      | error e => rfl
      | ok st => rfl
    · intro out ho
      cases hrr : roundRobin feas (rrLevels infra period cfgS.inc) infra q with
      | error e => rw [hrr] at ho; cases ho
      | ok st =>
        rw [hrr] at ho
        simp only [Except.map, Except.ok.injEq] at ho
        rw [← ho]
        exact h2 st hrr

end
end Acn.Sorted
