/-
  From the decidable structural predicate `topoOk` to the line-current algebra:
  the aggregate phasor currents of a line triple are the 120° combinations of the three
  per-line-pair sums, and limit formulas are monomials of the capacity.
-/
import AcnProofs.Lemmas.SitesFeas
import AcnProofs.Lemmas.SitesAlg

namespace Acn.SitesTopo
open Acn Acn.Feas Acn.Sites Acn.Gen.Sites Acn.SitesFeas
variable {K : Type} [Field K] [LinearOrder K] [IsStrictOrderedRing K]
set_option linter.unusedSectionVars false
set_option linter.unnecessarySeqFocus false

/-- Σ of the currents of the EVSEs of `E` that hang on the line pair with angle `a` -/
noncomputable def gsum (T : Topo) (E : List Nat) (a : Int × Nat) (x : List K) : K :=
  ∑ j ∈ Finset.range (nStations T), if (E.contains j && (angleOf T j == a)) then x.getD j 0 else 0

theorem lineAngle_cases (a : Int × Nat) (h : lineAngle a = true) : a = angAB ∨ a = angBC ∨ a = angCA := by
  simpa [lineAngle, or_assoc] using h

/-! ### limit formulas -/

theorem evalOps_cons (r cap : K) (op : Op) (rest : List Op) :
    evalOps r cap (op :: rest) = evalOps r (evalOp r cap op) rest := by
  simp [evalOps]

theorem evalOps_norm (r : K) (hr : r * r = 3) (ops : List Op) :
    ∀ N D odd, normOps ops = some (N, D, odd) →
      (D : K) ≠ 0 ∧ ∀ cap : K, evalOps r cap ops = cap * (N : K) / (D : K) * (if odd then r else 1) := by
  have hr0 : r ≠ 0 := by
    intro h; rw [h] at hr; norm_num at hr
  induction ops with
  | nil =>
    intro N D odd h
    simp only [normOps, Option.some.injEq, Prod.mk.injEq] at h
    obtain ⟨rfl, rfl, rfl⟩ := h
    simp [evalOps]
  | cons op rest ih =>
    intro N D odd h
    simp only [normOps] at h
    cases hrest : normOps rest with
    | none => simp [hrest] at h
    | some v =>
      obtain ⟨N', D', odd'⟩ := v
      obtain ⟨hD', hev⟩ := ih N' D' odd' hrest
      simp only [hrest] at h
      cases op with
      | mul n d =>
        simp only at h
        split at h
        · simp at h
        · rename_i hd
          simp only [Option.some.injEq, Prod.mk.injEq] at h
          obtain ⟨rfl, rfl, rfl⟩ := h
          have hdK : ((d : Nat) : K) ≠ 0 := by exact_mod_cast hd
          refine ⟨by push_cast; exact mul_ne_zero hD' hdK, fun cap => ?_⟩
          rw [evalOps_cons, hev]; simp only [evalOp, ratK_eq]; push_cast; field_simp
      | div n d =>
        simp only at h
        split at h
        · simp at h
        · rename_i hnd
          rw [not_or] at hnd
          simp only [Option.some.injEq, Prod.mk.injEq] at h
          obtain ⟨rfl, rfl, rfl⟩ := h
          have hdK : ((d : Nat) : K) ≠ 0 := by exact_mod_cast hnd.2
          have hnK : ((n : Int) : K) ≠ 0 := by exact_mod_cast hnd.1
          refine ⟨by push_cast; exact mul_ne_zero hD' hnK, fun cap => ?_⟩
          rw [evalOps_cons, hev]; simp only [evalOp, ratK_eq]; push_cast; field_simp
      | mulSqrt3 =>
        simp only at h
        cases odd' with
        | true =>
          simp only [if_true, Option.some.injEq, Prod.mk.injEq] at h
          obtain ⟨rfl, rfl, rfl⟩ := h
          refine ⟨hD', fun cap => ?_⟩
          rw [evalOps_cons, hev]; simp only [evalOp, if_true]; push_cast
          field_simp
          linear_combination (cap * (N' : K)) * hr
        | false =>
          simp only [Bool.false_eq_true, if_false, Option.some.injEq, Prod.mk.injEq] at h
          obtain ⟨rfl, rfl, rfl⟩ := h
          refine ⟨hD', fun cap => ?_⟩
          rw [evalOps_cons, hev]; simp only [evalOp]; simp; ring
      | divSqrt3 =>
        simp only at h
        cases odd' with
        | true =>
          simp only [if_true, Option.some.injEq, Prod.mk.injEq] at h
          obtain ⟨rfl, rfl, rfl⟩ := h
          refine ⟨hD', fun cap => ?_⟩
          rw [evalOps_cons, hev]; simp only [evalOp, if_true]; simp
          field_simp
        | false =>
          simp only [Bool.false_eq_true, if_false, Option.some.injEq, Prod.mk.injEq] at h
          obtain ⟨rfl, rfl, rfl⟩ := h
          refine ⟨by push_cast; exact mul_ne_zero hD' (by norm_num), fun cap => ?_⟩
          rw [evalOps_cons, hev]; simp only [evalOp]; push_cast; simp
          field_simp
          linear_combination (-(cap * (N' : K))) * hr

/-! ### the pointwise 120° identities -/

theorem ptA_re (r v : K) (e : Bool) (a : Int × Nat) (ha : a = angAB ∨ a = angBC ∨ a = angCA) :
    (ratK ((if e then 1 else 0) * sgnA a) 1 : K) * (v * cosK r a)
      = r / 2 * ((if (e && (a == angAB)) then v else 0) + (if (e && (a == angCA)) then v else 0)) := by
  rcases ha with rfl | rfl | rfl <;> cases e <;>
    simp [sgnA, cosK, angAB, angBC, angCA, ratK_eq] <;> ring

theorem ptA_im (v : K) (e : Bool) (a : Int × Nat) (ha : a = angAB ∨ a = angBC ∨ a = angCA) :
    (ratK ((if e then 1 else 0) * sgnA a) 1 : K) * (v * sinK a)
      = ((if (e && (a == angAB)) then v else 0) - (if (e && (a == angCA)) then v else 0)) / 2 := by
  rcases ha with rfl | rfl | rfl <;> cases e <;>
    simp [sgnA, sinK, angAB, angBC, angCA, ratK_eq] <;> ring

theorem ptB_re (r v : K) (e : Bool) (a : Int × Nat) (ha : a = angAB ∨ a = angBC ∨ a = angCA) :
    (ratK ((if e then 1 else 0) * sgnB a) 1 : K) * (v * cosK r a)
      = -(r / 2 * (if (e && (a == angAB)) then v else 0)) := by
  rcases ha with rfl | rfl | rfl <;> cases e <;>
    simp [sgnB, cosK, angAB, angBC, angCA, ratK_eq] <;> ring

theorem ptB_im (v : K) (e : Bool) (a : Int × Nat) (ha : a = angAB ∨ a = angBC ∨ a = angCA) :
    (ratK ((if e then 1 else 0) * sgnB a) 1 : K) * (v * sinK a)
      = -((if (e && (a == angBC)) then v else 0) + (if (e && (a == angAB)) then v else 0) / 2) := by
  rcases ha with rfl | rfl | rfl <;> cases e <;>
    simp [sgnB, sinK, angAB, angBC, angCA, ratK_eq] <;> ring

theorem ptC_re (r v : K) (e : Bool) (a : Int × Nat) (ha : a = angAB ∨ a = angBC ∨ a = angCA) :
    (ratK ((if e then 1 else 0) * sgnC a) 1 : K) * (v * cosK r a)
      = -(r / 2 * (if (e && (a == angCA)) then v else 0)) := by
  rcases ha with rfl | rfl | rfl <;> cases e <;>
    simp [sgnC, cosK, angAB, angBC, angCA, ratK_eq] <;> ring

theorem ptC_im (v : K) (e : Bool) (a : Int × Nat) (ha : a = angAB ∨ a = angBC ∨ a = angCA) :
    (ratK ((if e then 1 else 0) * sgnC a) 1 : K) * (v * sinK a)
      = (if (e && (a == angCA)) then v else 0) / 2 + (if (e && (a == angBC)) then v else 0) := by
  rcases ha with rfl | rfl | rfl <;> cases e <;>
    simp [sgnC, sinK, angAB, angBC, angCA, ratK_eq] <;> ring

end Acn.SitesTopo
