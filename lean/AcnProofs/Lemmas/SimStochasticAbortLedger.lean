/-
  C19 × C02 at an abort: the ledger invariant `ledgerJ` (SimStochasticLedger.lean) survives the
  scheduler stage of a period (`SchedOut`, EventCoreGMLast.lean) — used by
  `C19.end_to_end_sim_abort_energy`.
-/
import AcnProofs.Lemmas.SimStochasticLedger
import AcnProofs.Lemmas.EventCoreGMLast

set_option linter.unusedSectionVars false

namespace Acn.SimSt
open Acn Acn.EventCore Acn.Stoch Acn.Ledger

variable {K : Type} [Field K] [LinearOrder K] [IsStrictOrderedRing K] [HasExp K]

/-- the ledger is exact in the state in which the apply stage starts, if it was after the events -/
theorem ledgerJ_schedOut (cfg : Sim.Cfg K) (hst : (cfg.stations.map (·.id)).Nodup) (cs : Nat → Nat)
    (sched : Sim.View K → Except EventCore.Err (Sim.Schedule K)) {g1 gB : CoreG (St K)}
    (h : SchedOut cfg.core (schedS cfg sched) g1 gB) (hJ : ledgerJ cfg g1) : ledgerJ cfg gB := by
  have hK := ledger_keepsJ cfg hst cs sched
  rcases h with ⟨_, rfl⟩ | ⟨ns, _, hsc, rfl⟩
  · exact hJ
  · have h1 : ledgerJ cfg { core := markInvoked g1.core, net := g1.net } := hK.flags g1 _ rfl hJ
    have h2 := hK.sched _ ns hsc h1
    exact hK.flags { core := markInvoked g1.core, net := ns } _ rfl h2

end Acn.SimSt
