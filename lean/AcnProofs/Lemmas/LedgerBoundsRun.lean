/-
  Simulator-level clause of C03, whole runs: with a scheduler that only submits non-negative pilots,
  0 ≤ charging_rates[st][t] ≤ pilot_signals[st][t] for every station and period.
-/
import AcnProofs.Lemmas.LedgerBounds
import AcnProofs.Lemmas.LedgerInterval
import AcnProofs.Lemmas.PilotsSched

set_option linter.unusedSectionVars false
set_option linter.unusedSimpArgs false
set_option linter.unusedVariables false

namespace Acn.Ledger
open Acn Acn.Sim Acn.EventCore Acn.Evse Acn.Pilots Finset

/-- the scheduler never submits a negative pilot -/
def SchedNonneg (sched : View ℝ → Except EventCore.Err (Schedule ℝ)) : Prop :=
  ∀ v sch, sched v = .ok sch → ∀ p ∈ sch, ∀ r ∈ p.2, 0 ≤ r

theorem densify_nonneg (stations : List String) (sch : Sched ℝ) (len : Nat)
    (hs : ∀ p ∈ sch, ∀ r ∈ p.2, 0 ≤ r) (i k : Nat) :
    0 ≤ ((densify stations sch len).getD i []).getD k 0 := by
  simp only [densify, List.getD_eq_getElem?_getD, List.getElem?_map]
  cases stations[i]? with
  | none => simp
  | some st =>
    simp only [Option.map_some, Option.getD_some]
    cases hl : sch.lookup st with
    | none =>
      simp only
      cases h : (List.replicate len (0 : ℝ))[k]? with
      | none => simp
      | some v =>
        have := List.mem_of_getElem? h
        simp only [List.mem_replicate] at this
        simp [this.2]
    | some row =>
      simp only
      cases h : row[k]? with
      | none => simp
      | some v => simpa using hs _ (lookup_mem hl) v (List.mem_of_getElem? h)

/-- `_update_schedules` with a non-negative schedule: shape kept, matrix stays non-negative, past
    columns untouched -/
theorem updateSchedules_nonneg {stations : List String} {m m' : Mat ℝ} {t : Nat} {lastTs : Option Nat}
    {sch : Sched ℝ} (h : updateSchedules stations m t lastTs sch = .ok m') (hwf : m.WF stations.length)
    (hs : ∀ p ∈ sch, ∀ r ∈ p.2, 0 ≤ r) (hm : ∀ i τ, 0 ≤ m.get i τ) :
    m'.WF stations.length ∧ (∀ i τ, 0 ≤ m'.get i τ) ∧ (∀ i τ, τ < t → m'.get i τ = m.get i τ) := by
  by_cases hne : sch = []
  · subst hne
    simp only [updateSchedules, Except.ok.injEq] at h
    subst h
    exact ⟨hwf, hm, fun _ _ _ => rfl⟩
  · rw [updateSchedules_cons _ _ _ _ _ hne] at h
    cases hu : unknownStation stations sch with
    | true => simp [hu] at h
    | false =>
      cases hr : ragged sch with
      | true => simp [hu, hr] at h
      | false =>
        simp only [hu, hr, Bool.false_eq_true, if_false, Except.ok.injEq] at h
        have hw : ∀ m1 : Mat ℝ, m1 = (if t + schedLen sch ≤ m.width then m
            else increaseWidth m (growTarget t lastTs (schedLen sch))) →
            m1.WF stations.length ∧ t + schedLen sch ≤ m1.width ∧ ∀ i τ, m1.get i τ = m.get i τ := by
          intro m1 hm1
          subst hm1
          split
          · exact ⟨hwf, by assumption, fun _ _ => rfl⟩
          · refine ⟨increaseWidth_wf hwf _, ?_, fun i τ => increaseWidth_get' _ _ _ _⟩
            rw [increaseWidth_width]
            exact le_trans (le_growTarget _ _ _) (le_max_right _ _)
        obtain ⟨hwf1, hwid, hget⟩ := hw _ rfl
        subst h
        have hg := writeBlock_get' hwf1 t (schedLen sch) _ (densify_length _ _ _)
          (densify_rows_len _ _ hr) hwid
        refine ⟨writeBlock_wf hwf1 t (schedLen sch) _ (densify_length _ _ _) (densify_rows_len _ _ hr) hwid,
          ?_, ?_⟩
        · intro i τ
          rw [hg]
          split
          · exact densify_nonneg _ _ _ hs _ _
          · rw [hget]; exact hm i τ
        · intro i τ hτ
          rw [hg, if_neg (by omega), hget]

/-- what the bound needs to go round the loop -/
structure BInv (cfg : Cfg ℝ) (s : State ℝ) : Prop where
  led : Inv cfg s
  batts : ∀ e ∈ s.evs, BattAlg.Inv e.batt
  pwf : s.pilots.WF cfg.stations.length
  pil : ∀ i τ, 0 ≤ s.pilots.get i τ
  bound : ∀ i τ, τ < s.core.iter → 0 ≤ s.rates.get i τ ∧ s.rates.get i τ ≤ s.pilots.get i τ

theorem processAll_pilots (cfg : Cfg ℝ) : ∀ (es : List Event) (s : State ℝ),
    (Sim.processAll cfg es s).1.pilots = s.pilots := by
  intro es
  induction es with
  | nil => intro s; rfl
  | cons e es ih =>
    intro s
    unfold Sim.processAll
    cases hst : stepEv cfg e s with
    | mk s2 err =>
      have hp : s2.pilots = s.pilots := by
        have := congrArg Prod.fst hst; simp only [stepEv] at this; rw [← this]
      cases err with
      | some x => exact hp
      | none => simp only; rw [ih s2, hp]

theorem body_binv {cfg : Cfg ℝ} (hn : StationsNodup cfg)
    (sched : View ℝ → Except EventCore.Err (Schedule ℝ)) (hs : SchedNonneg sched) {s s' : State ℝ}
    (hI : BInv cfg s) (h : Sim.body cfg sched s = (s', none)) : BInv cfg s' := by
  have hled := body_ledger hn sched hI.led h
  obtain ⟨f1, f2, f3, f4, f5, f6⟩ := eventsStage_frame cfg s hI.led.occ_sound
  have f7 : (Sim.eventsStage cfg s).1.pilots = s.pilots := by
    unfold Sim.eventsStage; exact processAll_pilots cfg _ _
  -- the common last step: `applyStage` from a state `a` that agrees with `s` except for a new pilot matrix
  have key : ∀ a : State ℝ, a.rates = s.rates → a.peak = s.peak → a.evs = s.evs → a.occLog = s.occLog →
      a.core.iter = s.core.iter → OccSound cfg.core a.core.occ →
      a.pilots.WF cfg.stations.length → (∀ i τ, 0 ≤ a.pilots.get i τ) →
      (∀ i τ, τ < s.core.iter → a.pilots.get i τ = s.pilots.get i τ) →
      applyStage cfg a = (s', none) → BInv cfg s' := by
    intro a e1 e2 e3 e4 e5 e6 hwf hnn hpast ha
    have hLa : Inv cfg a := hI.led.transfer e1 e2 e3 e4 e5 e6
    obtain ⟨b1, b2, b3, b4⟩ := applyStage_bounds hn hLa (by rw [e3]; exact hI.batts)
      (fun j => hnn j _) ha
    obtain ⟨_, g2, _⟩ := applyStage_log hn hLa ha
    have hwf' : s'.pilots.WF cfg.stations.length := by
      obtain ⟨w, s2, s3, h2, h3, rfl⟩ := applyStage_ok ha
      have hd : DistinctOcc a.core.occ cfg.stations := distinctOcc_of hn hLa.occ_sound
      obtain ⟨_, _, _, _, q2, _⟩ := updatePilotsFrom_ok cfg cfg.stations 0 _ s2 h2 hd
      have hp3 : s3.pilots = s2.pilots := by
        have := storeRates_pilots cfg w s2; rw [h3] at this; exact this
      simp only [hp3, q2]
      exact Pilots.increaseWidth_wf hwf w
    refine ⟨hled, b1, hwf', fun i τ => by rw [b2]; exact hnn i τ, ?_⟩
    intro i τ hτ
    rw [g2, e5] at hτ
    rw [b2]
    by_cases hτt : τ = a.core.iter
    · subst hτt; exact b3 i
    · have hlt : τ < s.core.iter := by omega
      rw [b4 i τ hτt, e1, hpast i τ hlt]
      exact hI.bound i τ hlt
  unfold Sim.body at h
  cases hes : Sim.eventsStage cfg s with
  | mk s1 err =>
    rw [hes] at f1 f2 f3 f4 f5 f6 f7
    simp only at f1 f2 f3 f4 f5 f6 f7
    cases err with
    | some e => simp [hes] at h
    | none =>
      simp only [hes] at h
      split at h
      · split at h
        · simp at h
        · rename_i m hm
          -- the scheduler was consulted: `m` is `_update_schedules` of a non-negative schedule
          unfold schedStage at hm
          split at hm
          · simp at hm
          · split at hm
            · simp at hm
            · rename_i sch hsch
              split at hm
              · simp at hm
              · rename_i m0 hu
                simp only [Except.ok.injEq] at hm
                subst hm
                have hlen : (cfg.stations.map (·.id)).length = cfg.stations.length := by simp
                obtain ⟨u1, u2, u3⟩ := updateSchedules_nonneg hu
                  (by rw [hlen]; simp only; rw [f7]; exact hI.pwf)
                  (hs _ _ hsch) (by intro i τ; simp only; rw [f7]; exact hI.pil i τ)
                rw [hlen] at u1
                refine key { s1 with core := markScheduled (markInvoked s1.core), pilots := m0 } f1 f2 f3 f4
                  (by simp [markScheduled, markInvoked, f5]) f6 u1 u2 ?_ h
                intro i τ hτ
                simp only at u3 ⊢
                rw [u3 i τ (by simp [markInvoked, f5]; exact hτ), f7]
      · exact key s1 f1 f2 f3 f4 f5 f6 (by rw [f7]; exact hI.pwf) (by rw [f7]; exact hI.pil)
          (fun i τ _ => by rw [f7]) h

theorem run_binv {cfg : Cfg ℝ} (hn : StationsNodup cfg)
    (sched : View ℝ → Except EventCore.Err (Schedule ℝ)) (hs : SchedNonneg sched) :
    ∀ (n : Nat) (s s' : State ℝ), BInv cfg s → Sim.run cfg sched n s = (s', none) → BInv cfg s' := by
  intro n
  induction n with
  | zero =>
    intro s s' hL h
    simp only [Sim.run, Prod.mk.injEq, and_true] at h
    exact h ▸ hL
  | succ n ih =>
    intro s s' hL h
    unfold Sim.run at h
    split at h
    · cases hb : Sim.body cfg sched s with
      | mk s1 err =>
        cases err with
        | some e => simp [hb] at h
        | none =>
          simp only [hb] at h
          exact ih s1 s' (body_binv hn sched hs hL hb) h
    · simp only [Prod.mk.injEq, and_true] at h
      exact h ▸ hL

theorem init_binv (cfg : Cfg ℝ) (hb : ∀ e ∈ cfg.evs, BattAlg.Inv e.batt) : BInv cfg (Sim.init cfg) := by
  refine ⟨init_ledger cfg, hb, Pilots.zeros_wf _ _, ?_, ?_⟩
  · intro i τ; simp only [Sim.init]; rw [Pilots.zeros_get]
  · intro i τ hτ; simp [Sim.init, EventCore.init] at hτ

end Acn.Ledger
