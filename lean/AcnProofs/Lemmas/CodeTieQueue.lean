/-
  T1c — the hand-written kernels ARE the code, by proof (Queue group, properties C11 and C01).

  `AcnModel/Gen/CodeQueue.lean` is regenerated on every run from the Python ASTs of /repo's working tree
  (harness/translate_code.py).  Translated:

  * `Event.__lt__` (events/event.py) — `self.precedence < other.precedence`, with `precedence` read as
    the regenerated `EvKind.prec` of the event's class.  Heap entries are the tuples
    `(event.timestamp, event)` (event_queue.py `add_event`); Python compares tuples lexicographically,
    so the entry order is "timestamp first, `__lt__` among equal timestamps" — which is `Event.keyLt`
    with the translated `__lt__` in its second half (`keyLt_is_code`).  `C11.keyLt_by_kind`,
    `keyLt_strict_weak_order`, `gets_sorted`, … and `C01.keyLt_strictWeakOrder`, `history_sorted` are
    about `Event.keyLt`.
  * the test of the `while` loop of `EventQueue.get_current_events` (events/event_queue.py), after
    `self._timestep = timestep` and with `self.empty()` inlined from its own body, as a Boolean over
    `(len(self._queue), self._queue[0][0], timestep)`: it is the decision `Queue.getCurrentLoop` takes in
    every pass (`getCurrentLoop_is_code`: heap non-empty and `top.ts ≤ t`).

  A flipped or weakened comparison (`<=` for `<` in `__lt__`, `<` for `<=` in the loop test), a different
  attribute, `or` for `and`, or a loop test that reads the old `_timestep` changes `Gen.Code.*` and the
  theorems below stop compiling.
-/
import AcnModel.Gen.CodeQueue
import AcnModel.Queue

namespace Acn.CodeTie
open Acn

/-- `Event.__lt__` is the strict comparison of the precedences -/
theorem event_lt_tie (a b : Event) : Gen.Code.event_lt a b = decide (a.kind.prec < b.kind.prec) := rfl

/-- the order of the heap entries `(timestamp, event)`: timestamps first, the translated `Event.__lt__`
    among equal timestamps — `Event.keyLt` -/
theorem keyLt_is_code (a b : Event) :
    Event.keyLt a b = (decide (a.ts < b.ts) || (decide (a.ts = b.ts) && Gen.Code.event_lt a b)) := rfl

/-- the loop test of `get_current_events`: the queue is not empty and its first entry is due -/
theorem queue_loop_cond_tie (n : Nat) (h t : Int) :
    Gen.Code.queue_loop_cond n h t = (!decide (n = 0) && decide (h ≤ t)) := rfl

/-- every pass of `Queue.getCurrentLoop` (the model of the `while` loop) continues exactly when the
    translated loop test holds of the heap's size, the timestamp of its first entry and `t` -/
theorem getCurrentLoop_is_code (t : Int) (fuel : Nat) (s : Queue.State) (acc : List Event) :
    Queue.getCurrentLoop t (fuel + 1) s acc =
      if Gen.Code.queue_loop_cond s.heap.size ((s.heap[0]?.map (·.ts)).getD 0) t then
        (match Queue.getEvent s with
         | .ok (e, s') => Queue.getCurrentLoop t fuel s' (acc ++ [e])
         | .error _ => (s, acc))
      else (s, acc) := by
  rw [Queue.getCurrentLoop, queue_loop_cond_tie]
  cases h : s.heap[0]? with
  | none =>
    have h0 : s.heap.size = 0 := by
      have := Array.getElem?_eq_none_iff.mp h
      omega
    simp [h0]
  | some top =>
    have h0 : ¬ s.heap.size = 0 := by
      intro hz
      have : s.heap[0]? = none := Array.getElem?_eq_none_iff.mpr (by omega)
      rw [this] at h
      cases h
    simp only [h0, decide_false, Bool.not_false, Bool.true_and, Option.map_some, Option.getD_some,
      decide_eq_true_eq]
    split
    · cases Queue.getEvent s with
      | error e => rfl
      | ok p => rfl
    · rfl

/-- every target of this group was translated in this run -/
theorem all_translated_queue : Gen.Code.translatedQueue = ["event_lt", "queue_loop_cond"] := by decide

end Acn.CodeTie
