/-
  Helper lemmas for C09 (registry, decoder 4/5): the occupancy function and the WHOLE state — `decode` applied to
  any lookup function that agrees with the encoded store on the ids of the layout returns the encoded state, for
  every well-formed state (`WF`) and every lawful scalar codec.
-/
import AcnProofs.Lemmas.RegistryDecode3

namespace Acn.RegistrySim
open Acn Acn.EventCore Acn.Sim Acn.Registry
variable {K : Type}

theorem stationIdxFrom_some (d : Station K) : ∀ (sts : List (Station K)) (id : String) (n i : Nat),
    stationIdxFrom sts id n = some i → n ≤ i ∧ i - n < sts.length ∧ (sts.getD (i - n) d).id = id
  | [], _, _, _, h => by simp [stationIdxFrom] at h
  | st :: rest, id, n, i, h => by
    simp only [stationIdxFrom] at h
    split at h
    · cases h
      simp [*]
    · obtain ⟨h1, h2, h3⟩ := stationIdxFrom_some d rest id (n + 1) i h
      have e : i - n = (i - (n + 1)) + 1 := by omega
      refine ⟨by omega, by simp only [List.length_cons]; omega, ?_⟩
      rw [e, List.getD_cons_succ]
      exact h3

theorem stationIdxFrom_none : ∀ (sts : List (Station K)) (id : String) (n : Nat),
    stationIdxFrom sts id n = none → ∀ st ∈ sts, st.id ≠ id
  | [], _, _, _ => by simp
  | st :: rest, id, n, h => by
    simp only [stationIdxFrom] at h
    split at h
    · cases h
    · intro x hx
      rcases List.mem_cons.1 hx with rfl | hx
      · assumption
      · exact stationIdxFrom_none rest id (n + 1) h x hx

section whole
variable {sh : Show K} {rd : Read K} {cfg : Cfg K} {s : State K}

/-- the EV object of a resolvable session, in a store that agrees with the encoding -/
theorem g_ev (g : Nat → Option Obj) (hg : ∀ i, i < (layout cfg s).size → g i = some (objAt sh cfg s i))
    {j : Nat} (hj : j < s.evs.length) :
    g ((layout cfg s).evId j) = some (evObjOf sh (layout cfg s) j (s.evs.getD j (defaultEv cfg))) := by
  rw [hg _ (evId_lt' cfg s hj), objAt_ev sh cfg s hj]; rfl

theorem decodeOcc_of (hl : Lawful sh rd) (hwf : WF cfg s) (g : Nat → Option Obj)
    (hg : ∀ i, i < (layout cfg s).size → g i = some (objAt sh cfg s i)) (st : String) :
    decodeOcc rd cfg g st = s.core.occ st := by
  unfold decodeOcc
  cases hidx : stationIdxFrom cfg.stations st 0 with
  | none =>
    have hno := stationIdxFrom_none cfg.stations st 0 hidx
    cases ho : s.core.occ st with
    | none => rfl
    | some x =>
      obtain ⟨stn, hm, hid⟩ := hwf.occReg st x ho
      exact absurd hid (hno stn hm)
  | some i =>
    obtain ⟨_, hi, hid⟩ := stationIdxFrom_some ⟨"", .finite [], cfg.period⟩ cfg.stations st 0 i hidx
    simp only [Nat.sub_zero] at hi hid
    have hgi : g (3 + i) = some (evseObj sh cfg s i) := by
      rw [hg _ (by rw [size_eq]; omega), objAt_evse sh cfg s hi]
    have hev := evse_ev (sh := sh) cfg s i
    rw [hid] at hev
    cases ho : s.core.occ st with
    | none =>
      simp only [ho] at hev
      simp [hgi, hev]
    | some x =>
      simp only [ho] at hev
      have hoe := hwf.occEv st x ho
      cases hE : evOf s x.id with
      | none => rw [hE] at hoe; simp at hoe
      | some e =>
        rw [hE] at hoe
        simp only [Option.map_some, Option.some.injEq] at hoe
        obtain ⟨j, hj, hjl, hje⟩ := evIdx_of_evOf hE (defaultEv cfg)
        have hgj := g_ev g hg hjl
        rw [hje] at hgj
        rw [hj] at hev
        simp only [Option.map_some] at hev
        subst hoe
        simp [hgi, hev, hgj, evObjOf, getS, attr, scalarOf, List.lookup_cons, sS, sI, hl.str, hl.int', sessionOf]

theorem decodeEvent_at (hl : Lawful sh rd) (g : Nat → Option Obj)
    (hg : ∀ i, i < (layout cfg s).size → g i = some (objAt sh cfg s i)) (e : Event) (i : Nat)
    (hi : g i = some (eventObj (layout cfg s) s e)) (hres : e.kind ≠ .recompute → (evOf s e.sess).isSome = true) :
    decodeEvent rd g i = some e := by
  refine decodeEvent_of hl (layout cfg s) s e g i hi (fun hk => ?_)
  obtain ⟨j, hj, hjl, hjs⟩ := evIdx_of_isSome (hres hk) (defaultEv cfg)
  exact ⟨j, _, hj, g_ev g hg hjl, hjs⟩

/-- THE CODEC LEMMA: any store that agrees with `encode` on the ids of the layout decodes to the state (with the
    process-level data `amb` the decoder is given) -/
theorem decode_of_amb (hl : Lawful sh rd) (hwf : WF cfg s) (amb : Ambient) (g : Nat → Option Obj)
    (hg : ∀ i, i < (layout cfg s).size → g i = some (objAt sh cfg s i)) :
    decode rd cfg amb g = some (setAmb amb s) := by
  have hsz := size_eq cfg s
  have h0 : g root = some (simObj sh cfg s) := by
    rw [hg _ (root_lt cfg s)]; exact congrArg some (objAt_0 sh cfg s)
  have h1 : g 1 = some (netObj cfg) := by rw [hg _ (by omega), objAt_1]
  have h2 : g 2 = some (queueObj cfg s) := by rw [hg _ (by omega), objAt_2]
  have hEvH : (getL (simObj sh cfg s) "ev_history").bind
      (fun l => sequence ((l.filterMap itemScalar).map rd.str)) = some s.core.evHist := by
    rw [sim_evHist, Option.bind_some, filterMap_scalar_pairs, List.map_map]
    · have : ∀ a ∈ s.core.evHist, (rd.str ∘ fun sid => "s:" ++ sid) a = some (id a) := fun a _ => hl.str a
      rw [sequence_map_of _ id _ this, List.map_id]
    · intro sid hsid
      obtain ⟨j, hj, _, _⟩ := evIdx_of_isSome (hwf.evh sid hsid) (defaultEv cfg)
      exact ⟨(layout cfg s).evId j, by simp [evRefItem, hj]⟩
  have hHist : (getL (simObj sh cfg s) "event_history").bind
      (fun l => sequence ((l.filterMap itemRef).map (decodeEvent rd g))) = some s.core.eventHist := by
    rw [sim_eventHist, Option.bind_some, filterMap_ref_refs, List.map_map]
    refine sequence_range default s.core.eventHist _ (fun p hp => ?_)
    have hm : s.core.eventHist.getD p default ∈ s.core.eventHist := by
      simp [List.getD, List.getElem?_eq_getElem hp]
    exact decodeEvent_at hl g hg _ _ (by rw [hg _ (by simp only [Layout.bH, Layout.bP, Layout.bE, layout] at *; omega),
      objAt_hist]) (hwf.hist _ hm)
  have hPend : (getL (queueObj cfg s) "_queue").bind
      (fun l => sequence ((l.filterMap itemRef).map (decodeEvent rd g))) = some s.core.pending := by
    rw [queue_queue, Option.bind_some, filterMap_ref_pairs, List.map_map]
    refine sequence_range default s.core.pending _ (fun p hp => ?_)
    have hm : s.core.pending.getD p default ∈ s.core.pending := by
      simp [List.getD, List.getElem?_eq_getElem hp]
    exact decodeEvent_at hl g hg _ _ (by rw [hg _ (by simp only [Layout.bP, Layout.bE, layout] at *; omega),
      objAt_pending sh cfg s hp]) (hwf.pend _ hm)
  have hIds : (getL (netObj cfg) "_EVSEs").map (fun l => l.filterMap itemRef) =
      some ((List.range cfg.stations.length).map fun i => 3 + i) := by
    rw [net_evses, Option.map_some, filterMap_ref_pairs]
  have hPil : sequence (((List.range cfg.stations.length).map fun i => 3 + i).map fun i =>
      (g i).bind fun o => (getS o "_current_pilot").bind rd.num) = some s.evsePilot := by
    rw [List.map_map, ← hwf.pilotLen]
    refine sequence_range cfg.period s.evsePilot _ (fun p hp => ?_)
    have hp' : p < cfg.stations.length := by rw [← hwf.pilotLen]; exact hp
    simp only [Function.comp]
    rw [hg _ (by omega), objAt_evse sh cfg s hp', Option.bind_some, evse_pilot cfg s hl]
  have hEvs := decode_evs hl cfg s g hg
  rw [hwf.evsLen] at hEvs
  have hOcc : decodeOcc rd cfg g = s.core.occ := funext (decodeOcc_of hl hwf g hg)
  unfold decode
  have obs : ∀ {α β : Type} (a : α) (f : α → Option β), (some a >>= f) = f a := fun _ _ => rfl
  rw [h0, obs, sim_network, Option.bind_some, h1, obs, sim_queue, Option.bind_some, h2, obs, sim_iter cfg s hl, obs,
    sim_resolve, obs, sim_lastUpd cfg s hl, obs, sim_peak cfg s hl, obs, sim_pilots cfg s hl, obs, sim_rates cfg s hl, obs,
    hEvH, obs, hHist, obs, hPend, obs, hIds, obs, hPil, obs]
  show (sequence (List.map (fun j => decodeEv rd g (3 + cfg.stations.length + 2 * j)) (List.range cfg.evs.length)) >>= _) = _
  rw [hEvs, obs, hOcc]
  rfl

theorem decode_of (hl : Lawful sh rd) (hwf : WF cfg s) (g : Nat → Option Obj)
    (hg : ∀ i, i < (layout cfg s).size → g i = some (objAt sh cfg s i)) :
    decode rd cfg (ambOf s) g = some s :=
  decode_of_amb hl hwf (ambOf s) g hg

end whole

end Acn.RegistrySim
