/-
  Helper lemmas for C10 (time shift, EVERY `max_recompute`, event core).
  With `max_recompute = m` the scheduler is consulted during the `k` idle periods in front of a
  shifted scenario (period 0 always, then every `max(m,1)` periods).  The state reached after the
  idle prefix is the shift of the original initial state up to (i) the record `V` of those idle
  invocations and (ii) `_last_schedule_update`.  (ii) is erased in the first period with an event —
  or at once when `m ∣ k`, because then both runs consult the scheduler in their (relative) period 0.
-/
import AcnProofs.Lemmas.EquivSimShift

set_option linter.unusedSectionVars false
set_option linter.unusedSimpArgs false

namespace Acn.SimShift
open Acn Acn.EventCore

/-- the same core with another `_last_schedule_update` -/
def setLUc (L : Option Int) (c : Core) : Core := { c with lastUpd := L }

theorem setLUc_self (c : Core) : setLUc c.lastUpd c = c := rfl

/-! ### one trip round the loop from `sh`-related states -/

theorem eventsStage_addInv (cfg : EventCore.Cfg) (V : List Nat) (c : Core) :
    EventCore.eventsStage cfg (addInv V c) =
      (addInv V (EventCore.eventsStage cfg c).1, (EventCore.eventsStage cfg c).2) := by
  unfold EventCore.eventsStage
  exact processAll_addInv cfg V _ { c with pending := (popCurrent c.iter c.pending).2 }

theorem eventsStage_sh (k : Nat) (V : List Nat) (cfg : EventCore.Cfg) (c : Core) :
    EventCore.eventsStage (shiftCfg k cfg) (sh k V c) =
      (sh k V (EventCore.eventsStage cfg c).1, (EventCore.eventsStage cfg c).2) := by
  unfold sh
  rw [eventsStage_addInv, eventsStage_shift]

/-- one trip round the loop, every `maxRecompute`, errors included, with an invocation prefix -/
theorem body_sh (k : Nat) (V : List Nat) (cfg : EventCore.Cfg) {sched sched' apply apply' : Core → Option Err}
    (hs : ∀ c, sched' (sh k V c) = sched c) (ha : ∀ c, apply' (sh k V c) = apply c) (c : Core) :
    EventCore.body (shiftCfg k cfg) sched' apply' (sh k V c) =
      (sh k V (EventCore.body cfg sched apply c).1, (EventCore.body cfg sched apply c).2) := by
  unfold EventCore.body
  rw [eventsStage_sh]
  have hmr : (shiftCfg k cfg).maxRecompute = cfg.maxRecompute := rfl
  cases he : EventCore.eventsStage cfg c with
  | mk c1 r =>
    cases r with
    | some err => rfl
    | none =>
      simp only [hmr, needsSched_sh, markInvoked_sh, hs]
      by_cases hn : needsSched cfg.maxRecompute c1 = true
      · simp only [hn, if_true]
        cases hsc : sched (markInvoked c1) with
        | some err => rfl
        | none =>
          simp only [finish, markScheduled_sh, ha]
          cases apply (markScheduled (markInvoked c1)) <;> simp [advance_sh]
      · simp only [hn, Bool.false_eq_true, if_false, finish, ha]
        cases apply c1 <;> simp [advance_sh]

theorem run_sh_from (k : Nat) (V : List Nat) (cfg : EventCore.Cfg) {sched sched' apply apply' : Core → Option Err}
    (hs : ∀ c, sched' (sh k V c) = sched c) (ha : ∀ c, apply' (sh k V c) = apply c) :
    ∀ (n : Nat) (c : Core), EventCore.run (shiftCfg k cfg) sched' apply' n (sh k V c) =
      (sh k V (EventCore.run cfg sched apply n c).1, (EventCore.run cfg sched apply n c).2) := by
  intro n
  induction n with
  | zero => intro c; rfl
  | succ n ih =>
    intro c
    simp only [EventCore.run, guard_sh, body_sh k V cfg hs ha]
    by_cases hg : guard c = true
    · simp only [hg, if_true]
      cases hb : EventCore.body cfg sched apply c with
      | mk c1 r =>
        cases r with
        | none => simp only [ih]
        | some err => rfl
    · simp [hg]

/-! ### `_last_schedule_update` is forgotten in a period in which the scheduler is consulted -/

theorem step_setLUc (cfg : EventCore.Cfg) (e : Event) (L : Option Int) (c : Core) :
    ∃ L', EventCore.step cfg e (setLUc L c) = (setLUc L' (EventCore.step cfg e c).1, (EventCore.step cfg e c).2) := by
  unfold EventCore.step process setLUc
  cases hk : e.kind with
  | recompute => exact ⟨L, rfl⟩
  | plugin =>
    simp only
    cases hf : findSession cfg e.sess with
    | none => exact ⟨L, rfl⟩
    | some x =>
      simp only
      by_cases hc : cfg.stations.contains x.station = true
      · simp only [hc, if_true]
        cases ho : c.occ x.station with
        | some y => exact ⟨L, rfl⟩
        | none => exact ⟨some e.ts, rfl⟩
      · simp only [hc, Bool.false_eq_true, if_false]
        exact ⟨L, rfl⟩
  | unplug =>
    simp only
    cases hf : findSession cfg e.sess with
    | none => exact ⟨L, rfl⟩
    | some x =>
      simp only
      by_cases hc : cfg.stations.contains x.station = true
      · simp only [hc, if_true]
        exact ⟨some e.ts, rfl⟩
      · simp only [hc, Bool.false_eq_true, if_false]
        exact ⟨L, rfl⟩

theorem processAll_setLUc (cfg : EventCore.Cfg) : ∀ (es : List Event) (L : Option Int) (c : Core),
    ∃ L', EventCore.processAll cfg es (setLUc L c) =
      (setLUc L' (EventCore.processAll cfg es c).1, (EventCore.processAll cfg es c).2) := by
  intro es
  induction es with
  | nil => intro L c; exact ⟨L, rfl⟩
  | cons e es ih =>
    intro L c
    obtain ⟨L1, h1⟩ := step_setLUc cfg e L c
    simp only [EventCore.processAll, h1]
    obtain ⟨c2, e2, hst⟩ : ∃ c2 e2, EventCore.step cfg e c = (c2, e2) := ⟨_, _, rfl⟩
    rw [hst]
    cases e2 with
    | some x => exact ⟨L1, rfl⟩
    | none => exact ih L1 c2

theorem eventsStage_setLUc (cfg : EventCore.Cfg) (L : Option Int) (c : Core) :
    ∃ L', EventCore.eventsStage cfg (setLUc L c) =
      (setLUc L' (EventCore.eventsStage cfg c).1, (EventCore.eventsStage cfg c).2) := by
  unfold EventCore.eventsStage
  exact processAll_setLUc cfg _ L { c with pending := (popCurrent c.iter c.pending).2 }

/-- processing at least one event without an error sets `_resolve` -/
theorem processAll_resolve (cfg : EventCore.Cfg) : ∀ (es : List Event) (c c1 : Core),
    EventCore.processAll cfg es c = (c1, none) → es ≠ [] → c1.resolve = true := by
  intro es
  induction es with
  | nil => intro c c1 _ h; exact absurd rfl h
  | cons e es ih =>
    intro c c1 h _
    simp only [EventCore.processAll] at h
    obtain ⟨c2, r, hs⟩ : ∃ c2 r, EventCore.step cfg e c = (c2, r) := ⟨_, _, rfl⟩
    rw [hs] at h
    cases r with
    | some err => simp at h
    | none =>
      simp only at h
      have h2 := (step_flags hs).1
      cases es with
      | nil => simp only [EventCore.processAll, Prod.mk.injEq, and_true] at h; rw [← h]; exact h2
      | cons d ds => exact ih c2 c1 h (by simp)

/-- if the scheduler would be consulted in this period even if nothing happened, it is consulted
    whatever happens (events only ever set `_resolve`) -/
theorem needsSched_after_events (cfg : EventCore.Cfg) (mr : Option Nat) {c c1 : Core}
    (hn : needsSched mr c = true) (he : EventCore.eventsStage cfg c = (c1, none)) : needsSched mr c1 = true := by
  unfold EventCore.eventsStage at he
  by_cases hpop : (popCurrent c.iter c.pending).1 = []
  · rw [hpop] at he
    simp only [EventCore.processAll, Prod.mk.injEq, and_true] at he
    rw [← he]
    exact hn
  · have := processAll_resolve cfg _ _ c1 he hpop
    simp [needsSched, this]

/-- a period in which the scheduler is consulted both with `_last_schedule_update = L` and with the
    real value (because an event is due, or because both values make `max_recompute` fire): same
    error, same state up to `_last_schedule_update`, and the SAME state when the period completes -/
theorem body_setLUc (cfg : EventCore.Cfg) {sched apply : Core → Option Err}
    (hsL : ∀ L c, sched (setLUc L c) = sched c) (L : Option Int) (c : Core)
    (hn : (popCurrent c.iter c.pending).1 ≠ [] ∨
      (needsSched cfg.maxRecompute c = true ∧ needsSched cfg.maxRecompute (setLUc L c) = true) ∨ L = c.lastUpd) :
    (∃ L', EventCore.body cfg sched apply (setLUc L c) =
      (setLUc L' (EventCore.body cfg sched apply c).1, (EventCore.body cfg sched apply c).2)) ∧
    ((EventCore.body cfg sched apply c).2 = none →
      EventCore.body cfg sched apply (setLUc L c) = EventCore.body cfg sched apply c) := by
  by_cases hL : L = c.lastUpd
  · subst hL
    exact ⟨⟨(EventCore.body cfg sched apply c).1.lastUpd, rfl⟩, fun _ => rfl⟩
  obtain ⟨L', he⟩ := eventsStage_setLUc cfg L c
  obtain ⟨c1, e1, hev⟩ : ∃ c1 e1, EventCore.eventsStage cfg c = (c1, e1) := ⟨_, _, rfl⟩
  rw [hev] at he
  unfold EventCore.body
  rw [he, hev]
  cases e1 with
  | some e => exact ⟨⟨L', rfl⟩, fun h => by simp at h⟩
  | none =>
    have hm : needsSched cfg.maxRecompute c1 = true ∧ needsSched cfg.maxRecompute (setLUc L' c1) = true := by
      rcases hn with hpop | ⟨hn1, hn2⟩ | h
      · have r1 : c1.resolve = true := by
          unfold EventCore.eventsStage at hev
          exact processAll_resolve cfg _ _ c1 hev hpop
        have r2 : (setLUc L' c1).resolve = true := r1
        exact ⟨by simp [needsSched, r1], by simp [needsSched, r2]⟩
      · exact ⟨needsSched_after_events cfg _ hn1 hev, needsSched_after_events cfg _ hn2 he⟩
      · exact absurd h hL
    obtain ⟨hm1, hm2⟩ := hm
    simp only [hm1, hm2, if_true]
    have hmi : markInvoked (setLUc L' c1) = setLUc L' (markInvoked c1) := rfl
    rw [hmi, hsL]
    cases hsc : sched (markInvoked c1) with
    | some err => exact ⟨⟨L', rfl⟩, fun h => by simp at h⟩
    | none =>
      refine ⟨⟨(finish apply (markScheduled (markInvoked c1))).1.lastUpd, ?_⟩, fun _ => ?_⟩
      · show finish apply (markScheduled (markInvoked c1)) = _
        rfl
      · rfl

/-! ### the idle prefix, every `maxRecompute` -/

/-- a period in which nothing is due and nobody raises: only the clock moves, and the scheduler is
    consulted when `max_recompute` says so -/
def idleStep (mr : Option Nat) (c : Core) : Core :=
  advance (if needsSched mr c then markScheduled (markInvoked c) else c)

def idleIter (mr : Option Nat) : Nat → Core → Core
  | 0, c => c
  | j + 1, c => idleIter mr j (idleStep mr c)

theorem eventsStage_nothing_due (cfg : EventCore.Cfg) (c : Core) (hp : ∀ e ∈ c.pending, (c.iter : Int) < e.ts) :
    EventCore.eventsStage cfg c = (c, none) := by
  have h1 : c.pending.filter (fun e => decide (e.ts ≤ (c.iter : Int))) = [] := by
    rw [List.filter_eq_nil_iff]
    intro e he
    have := hp e he
    simp; omega
  have h2 : c.pending.filter (fun e => !decide (e.ts ≤ (c.iter : Int))) = c.pending := by
    rw [List.filter_eq_self]
    intro e he
    have := hp e he
    simp; omega
  simp only [EventCore.eventsStage, popCurrent, h1, h2, sortByKey, List.foldr_nil, EventCore.processAll]

/-- what is left alone by an idle period -/
structure IdleFrame (c d : Core) : Prop where
  pending : d.pending = c.pending
  occ : d.occ = c.occ
  resolve : d.resolve = false
  eventHist : d.eventHist = c.eventHist
  evHist : d.evHist = c.evHist

theorem idleStep_frame (mr : Option Nat) (c : Core) (hres : c.resolve = false) :
    IdleFrame c (idleStep mr c) ∧ (idleStep mr c).iter = c.iter + 1 := by
  unfold idleStep
  by_cases hn : needsSched mr c = true
  · simp only [hn, if_true]
    exact ⟨⟨rfl, rfl, rfl, rfl, rfl⟩, rfl⟩
  · simp only [hn, Bool.false_eq_true, if_false]
    exact ⟨⟨rfl, rfl, hres, rfl, rfl⟩, rfl⟩

theorem idleIter_frame (mr : Option Nat) : ∀ (j : Nat) (c : Core), c.resolve = false →
    IdleFrame c (idleIter mr j c) ∧ (idleIter mr j c).iter = c.iter + j := by
  intro j
  induction j with
  | zero => intro c h; exact ⟨⟨rfl, rfl, h, rfl, rfl⟩, rfl⟩
  | succ j ih =>
    intro c h
    obtain ⟨f1, i1⟩ := idleStep_frame mr c h
    obtain ⟨f2, i2⟩ := ih (idleStep mr c) f1.resolve
    refine ⟨⟨f2.pending.trans f1.pending, f2.occ.trans f1.occ, f2.resolve, f2.eventHist.trans f1.eventHist,
      f2.evHist.trans f1.evHist⟩, ?_⟩
    show (idleIter mr j (idleStep mr c)).iter = _
    rw [i2, i1]; omega

/-- with `max_recompute = None` the idle prefix touches neither `_last_schedule_update` nor the
    record of invocations -/
theorem idleIter_none : ∀ (j : Nat) (c : Core), c.resolve = false →
    (idleIter none j c).lastUpd = c.lastUpd ∧ (idleIter none j c).invoked = c.invoked := by
  intro j
  induction j with
  | zero => intro c _; exact ⟨rfl, rfl⟩
  | succ j ih =>
    intro c h
    have hn : needsSched none c = false := by simp [needsSched, h]
    have hs : idleStep none c = advance c := by simp [idleStep, hn]
    show (idleIter none j (idleStep none c)).lastUpd = _ ∧ (idleIter none j (idleStep none c)).invoked = _
    rw [hs]
    exact ih (advance c) h

/-- one idle period of the loop body -/
theorem idle_body_gen (cfg : EventCore.Cfg) {sched apply : Core → Option Err} (c : Core)
    (hres : c.resolve = false) (hp : ∀ e ∈ c.pending, (c.iter : Int) < e.ts)
    (hq : ∀ d : Core, d.resolve = false → d.iter = c.iter → d.pending = c.pending → sched d = none ∧ apply d = none) :
    EventCore.body cfg sched apply c = (idleStep cfg.maxRecompute c, none) := by
  unfold EventCore.body idleStep
  rw [eventsStage_nothing_due cfg c hp]
  by_cases hn : needsSched cfg.maxRecompute c = true
  · simp only [hn, if_true]
    rw [(hq (markInvoked c) hres rfl rfl).1]
    simp only [finish]
    rw [(hq (markScheduled (markInvoked c)) rfl rfl rfl).2]
  · simp only [hn, Bool.false_eq_true, if_false, finish]
    rw [(hq c hres rfl rfl).2]

/-- `j` idle periods of the run -/
theorem idle_run_gen (cfg : EventCore.Cfg) {sched apply : Core → Option Err} (K : Nat)
    (hq : ∀ d : Core, d.resolve = false → d.iter < K → (∀ e ∈ d.pending, (d.iter : Int) < e.ts) →
      sched d = none ∧ apply d = none) :
    ∀ (j n : Nat) (c : Core), c.resolve = false → c.pending ≠ [] → c.iter + j ≤ K →
      (∀ e ∈ c.pending, ((c.iter + j : Nat) : Int) ≤ e.ts) →
      EventCore.run cfg sched apply (j + n) c = EventCore.run cfg sched apply n (idleIter cfg.maxRecompute j c) := by
  intro j
  induction j with
  | zero => intro n c _ _ _ _; simp [idleIter]
  | succ j ih =>
    intro n c hres hne hK hp
    have hp' : ∀ e ∈ c.pending, (c.iter : Int) < e.ts := by
      intro e he; have := hp e he; push_cast at this; omega
    have hg : guard c = true := by
      unfold EventCore.guard
      cases hpe : c.pending with
      | nil => exact absurd hpe hne
      | cons a l => simp
    have hb := idle_body_gen cfg (sched := sched) (apply := apply) c hres hp'
      (fun d hd hi hpd => hq d hd (by rw [hi]; omega) (by rw [hi, hpd]; exact hp'))
    rw [show j + 1 + n = (j + n) + 1 by omega]
    simp only [EventCore.run, hg, if_true, hb]
    obtain ⟨f1, i1⟩ := idleStep_frame cfg.maxRecompute c hres
    rw [ih n (idleStep cfg.maxRecompute c) f1.resolve (by rw [f1.pending]; exact hne) (by rw [i1]; omega)
      (by
        intro e he
        rw [f1.pending] at he
        have := hp e he
        rw [i1]
        push_cast at this ⊢
        omega)]
    rfl

/-! ### `_last_schedule_update` along the idle prefix when `max_recompute = m` -/

/-- the invariant: nothing yet in period 0; afterwards the last invocation `u` is a multiple of `m`
    (or `m = 0`) not more than `max m 1` periods back -/
def IdleLU (m : Nat) (c : Core) : Prop :=
  (c.iter = 0 ∧ c.lastUpd = none) ∨
    ∃ u : Nat, c.lastUpd = some (u : Int) ∧ u < c.iter ∧ c.iter ≤ u + max m 1 ∧ (m = 0 ∨ u % m = 0)

theorem idleStep_LU (m : Nat) (c : Core) (hres : c.resolve = false) (h : IdleLU m c) :
    IdleLU m (idleStep (some m) c) := by
  unfold idleStep
  rcases h with ⟨h0, hL⟩ | ⟨u, hL, h1, h2, h3⟩
  · have hn : needsSched (some m) c = true := by simp [needsSched, hL]
    simp only [hn, if_true]
    refine Or.inr ⟨c.iter, rfl, ?_, ?_, ?_⟩
    · show c.iter < c.iter + 1
      omega
    · show c.iter + 1 ≤ c.iter + max m 1
      omega
    · rw [h0]
      by_cases hm : m = 0
      · exact Or.inl hm
      · exact Or.inr (Nat.zero_mod m)
  · by_cases hn : needsSched (some m) c = true
    · simp only [hn, if_true]
      have hle : (m : Int) ≤ (c.iter : Int) - (u : Int) := by
        simpa [needsSched, hres, hL] using hn
      refine Or.inr ⟨c.iter, rfl, ?_, ?_, ?_⟩
      · show c.iter < c.iter + 1
        omega
      · show c.iter + 1 ≤ c.iter + max m 1
        omega
      · rcases h3 with h3 | h3
        · exact Or.inl h3
        · by_cases hm : m = 0
          · exact Or.inl hm
          · right
            have hcu : c.iter = u + m := by
                have : max m 1 = m := by omega
                omega
            rw [hcu, Nat.add_mod, h3]
            simp
    · simp only [hn, Bool.false_eq_true, if_false]
      have hlt : ¬ (m : Int) ≤ (c.iter : Int) - (u : Int) := by
        simpa [needsSched, hres, hL] using hn
      refine Or.inr ⟨u, hL, ?_, ?_, h3⟩
      · show u < c.iter + 1
        omega
      · show c.iter + 1 ≤ u + max m 1
        omega

theorem idleIter_LU (m : Nat) : ∀ (j : Nat) (c : Core), c.resolve = false → IdleLU m c →
    IdleLU m (idleIter (some m) j c) := by
  intro j
  induction j with
  | zero => intro c _ h; exact h
  | succ j ih =>
    intro c hres h
    exact ih (idleStep (some m) c) (idleStep_frame (some m) c hres).1.resolve (idleStep_LU m c hres h)

/-- aligned: when the clock shows a multiple of `m` (or `m = 0`), the scheduler is consulted -/
theorem needsSched_of_aligned (m : Nat) (c : Core) (h : IdleLU m c) (hal : m = 0 ∨ m ∣ c.iter) :
    needsSched (some m) c = true := by
  rcases h with ⟨_, hL⟩ | ⟨u, hL, h1, h2, h3⟩
  · simp [needsSched, hL]
  · have : (m : Int) ≤ (c.iter : Int) - (u : Int) := by
      rcases hal with hm | ⟨q, hq⟩
      · subst hm; omega
      · by_cases hm : m = 0
        · subst hm; simp at hq; omega
        · rcases h3 with h3 | h3
          · exact absurd h3 hm
          · -- u = m * p, c.iter = m * q, u < c.iter  ⇒  c.iter - u ≥ m
            obtain ⟨p, hp⟩ : m ∣ u := Nat.dvd_of_mod_eq_zero h3
            have hpq : p < q := by
              by_contra hge
              have : q ≤ p := by omega
              have := Nat.mul_le_mul_left m this
              omega
            have : m * (p + 1) ≤ m * q := Nat.mul_le_mul_left m (by omega)
            have hmm : m * (p + 1) = m * p + m := by ring
            omega
    simp [needsSched, hL, this]

/-! ### the state after the idle prefix of a shifted scenario -/

theorem core_ext' {c d : Core} (h1 : c.iter = d.iter) (h2 : c.pending = d.pending) (h3 : c.occ = d.occ)
    (h4 : c.resolve = d.resolve) (h5 : c.lastUpd = d.lastUpd) (h6 : c.eventHist = d.eventHist)
    (h7 : c.evHist = d.evHist) (h8 : c.invoked = d.invoked) : c = d := by
  cases c; cases d; simp_all

theorem initPending_shiftc (k : Nat) (cfg : EventCore.Cfg) :
    initPending (shiftCfg k cfg) = (initPending cfg).map (shiftEv k) := by
  simp only [initPending, shiftCfg, List.map_append, List.map_map]
  rfl

/-- after `k` idle periods the shifted scenario is in the shift of the original initial state, up to
    the idle invocations on record and `_last_schedule_update` -/
theorem idle_prefix_core (k : Nat) (cfg : EventCore.Cfg) :
    idleIter cfg.maxRecompute k (EventCore.init (shiftCfg k cfg)) =
      setLUc (idleIter cfg.maxRecompute k (EventCore.init (shiftCfg k cfg))).lastUpd
        (sh k (idleIter cfg.maxRecompute k (EventCore.init (shiftCfg k cfg))).invoked (EventCore.init cfg)) := by
  obtain ⟨f, hi⟩ := idleIter_frame cfg.maxRecompute k (EventCore.init (shiftCfg k cfg)) rfl
  apply core_ext'
  · rw [hi]; simp [setLUc, sh, addInv, shiftCore, EventCore.init]
  · rw [f.pending]
    show initPending (shiftCfg k cfg) = _
    rw [initPending_shiftc]
    rfl
  · rw [f.occ]; rfl
  · rw [f.resolve]; rfl
  · rfl
  · rw [f.eventHist]; rfl
  · rw [f.evHist]; rfl
  · simp [setLUc, sh, addInv, shiftCore, EventCore.init]

/-- what the idle prefix leaves in `_last_schedule_update` -/
def IdleLU' (k : Nat) (cfg : EventCore.Cfg) (ck : Core) : Prop :=
  (cfg.maxRecompute = none → ck.lastUpd = (sh k ck.invoked (EventCore.init cfg)).lastUpd) ∧
  (∀ m, cfg.maxRecompute = some m → (m = 0 ∨ m ∣ k) → needsSched (some m) ck = true)

theorem idleIter_LU' (k : Nat) (cfg : EventCore.Cfg) :
    IdleLU' k cfg (idleIter cfg.maxRecompute k (EventCore.init (shiftCfg k cfg))) := by
  constructor
  · intro hnone
    rw [hnone]
    rw [(idleIter_none k (EventCore.init (shiftCfg k cfg)) rfl).1]
    rfl
  · intro m hm hdiv
    rw [hm]
    have hI := idleIter_LU m k (EventCore.init (shiftCfg k cfg)) rfl (Or.inl ⟨rfl, rfl⟩)
    have hi := (idleIter_frame (some m) k (EventCore.init (shiftCfg k cfg)) rfl).2
    apply needsSched_of_aligned m _ hI
    rw [hi]
    simpa [EventCore.init] using hdiv

/-! ### the shifted run of the event core, every `max_recompute` -/

/-- when does the shifted run consult the scheduler in the same RELATIVE periods as the original one?
    `max_recompute = None`; or something is due in period 0 of the original scenario; or
    `max_recompute = m` with `m = 0` or `m ∣ k` -/
def Aligned (k : Nat) (cfg : EventCore.Cfg) : Prop :=
  cfg.maxRecompute = none ∨ (∃ e ∈ initPending cfg, e.ts ≤ 0) ∨
    ∃ m, cfg.maxRecompute = some m ∧ (m = 0 ∨ m ∣ k)

theorem run_shift_core' (k : Nat) (cfg : EventCore.Cfg) {sched sched' apply apply' : Core → Option Err}
    (hs : ∀ V c, sched' (sh k V c) = sched c) (ha : ∀ V c, apply' (sh k V c) = apply c)
    (hsL : ∀ L c, sched' (setLUc L c) = sched' c)
    (hidle : ∀ d : Core, d.resolve = false → d.iter < k → (∀ e ∈ d.pending, (d.iter : Int) < e.ts) →
      sched' d = none ∧ apply' d = none)
    (hne : initPending cfg ≠ []) (hnn : ∀ e ∈ initPending cfg, 0 ≤ e.ts) (hal : Aligned k cfg) (n : Nat) :
    ∃ V,
      (∃ L, EventCore.run (shiftCfg k cfg) sched' apply' (k + (n + 1)) (EventCore.init (shiftCfg k cfg)) =
        (setLUc L (sh k V (EventCore.run cfg sched apply (n + 1) (EventCore.init cfg)).1),
          (EventCore.run cfg sched apply (n + 1) (EventCore.init cfg)).2)) ∧
      ((EventCore.body cfg sched apply (EventCore.init cfg)).2 = none →
        EventCore.run (shiftCfg k cfg) sched' apply' (k + (n + 1)) (EventCore.init (shiftCfg k cfg)) =
          (sh k V (EventCore.run cfg sched apply (n + 1) (EventCore.init cfg)).1,
            (EventCore.run cfg sched apply (n + 1) (EventCore.init cfg)).2)) := by
  have hmr : (shiftCfg k cfg).maxRecompute = cfg.maxRecompute := rfl
  have hP : (EventCore.init (shiftCfg k cfg)).pending = (initPending cfg).map (shiftEv k) := initPending_shiftc k cfg
  have hne' : (EventCore.init (shiftCfg k cfg)).pending ≠ [] := by rw [hP]; simpa using hne
  -- the idle prefix
  have hrun := idle_run_gen (shiftCfg k cfg) (sched := sched') (apply := apply') k hidle k (n + 1)
    (EventCore.init (shiftCfg k cfg)) rfl hne' (by simp [EventCore.init])
    (by
      intro e he
      rw [hP] at he
      obtain ⟨d, hd, rfl⟩ := List.mem_map.1 he
      have := hnn d hd
      simp only [EventCore.init, shiftEv]
      push_cast
      omega)
  rw [hmr] at hrun
  have hck := idle_prefix_core k cfg
  generalize hckd : idleIter cfg.maxRecompute k (EventCore.init (shiftCfg k cfg)) = ck at hrun hck
  have hckI : IdleLU' k cfg ck := by
    rw [← hckd]; exact idleIter_LU' k cfg
  rw [hrun, hck]
  -- guards
  have hg0 : guard (EventCore.init cfg) = true := by
    unfold EventCore.guard
    show (!(initPending cfg).isEmpty || false) = true
    cases hI : initPending cfg with
    | nil => exact absurd hI hne
    | cons a l => simp
  have hgk : guard (setLUc ck.lastUpd (sh k ck.invoked (EventCore.init cfg))) = true := by
    have : guard (setLUc ck.lastUpd (sh k ck.invoked (EventCore.init cfg))) = guard (sh k ck.invoked (EventCore.init cfg)) := rfl
    rw [this, guard_sh]; exact hg0
  -- the first period
  have hn : (popCurrent (sh k ck.invoked (EventCore.init cfg)).iter (sh k ck.invoked (EventCore.init cfg)).pending).1 ≠ [] ∨
      (needsSched (shiftCfg k cfg).maxRecompute (sh k ck.invoked (EventCore.init cfg)) = true ∧
        needsSched (shiftCfg k cfg).maxRecompute (setLUc ck.lastUpd (sh k ck.invoked (EventCore.init cfg))) = true) ∨
      ck.lastUpd = (sh k ck.invoked (EventCore.init cfg)).lastUpd := by
    rcases hal with hnone | ⟨e, he, h0⟩ | ⟨m, hm, hdiv⟩
    · right; right
      exact (hckI.1 hnone)
    · left
      rw [sh_iter, sh_pending, popCurrent_shift]
      simp only [ne_eq, List.map_eq_nil_iff]
      intro hnil
      have hmem : e ∈ (popCurrent (EventCore.init cfg).iter (EventCore.init cfg).pending).1 := by
        simp only [popCurrent, mem_sortByKey, List.mem_filter, decide_eq_true_eq]
        exact ⟨he, by simpa [EventCore.init] using h0⟩
      rw [hnil] at hmem
      simp at hmem
    · right; left
      rw [hmr, hm]
      refine ⟨?_, ?_⟩
      · rw [needsSched_sh]; simp [needsSched, EventCore.init]
      · rw [← hck]
        exact hckI.2 m hm hdiv
  obtain ⟨⟨L', hb1⟩, hb2⟩ := body_setLUc (shiftCfg k cfg) (sched := sched') (apply := apply') hsL ck.lastUpd
    (sh k ck.invoked (EventCore.init cfg)) hn
  have hbsh := body_sh k ck.invoked cfg (hs ck.invoked) (ha ck.invoked) (EventCore.init cfg)
  rw [hbsh] at hb1 hb2
  refine ⟨ck.invoked, ?_, ?_⟩
  · simp only [EventCore.run, hgk, hg0, if_true]
    obtain ⟨b1, be, hb⟩ : ∃ b1 be, EventCore.body cfg sched apply (EventCore.init cfg) = (b1, be) := ⟨_, _, rfl⟩
    rw [hb] at hb1 hb2 ⊢
    cases be with
    | some err =>
      rw [hb1]
      exact ⟨L', rfl⟩
    | none =>
      rw [hb2 rfl]
      simp only
      rw [run_sh_from k ck.invoked cfg (hs ck.invoked) (ha ck.invoked) n b1]
      exact ⟨(sh k ck.invoked (EventCore.run cfg sched apply n b1).1).lastUpd, rfl⟩
  · intro hok
    simp only [EventCore.run, hgk, hg0, if_true]
    obtain ⟨b1, be, hb⟩ : ∃ b1 be, EventCore.body cfg sched apply (EventCore.init cfg) = (b1, be) := ⟨_, _, rfl⟩
    rw [hb] at hb2 hok ⊢
    simp only at hok
    subst hok
    rw [hb2 rfl]
    simp only
    rw [run_sh_from k ck.invoked cfg (hs ck.invoked) (ha ck.invoked) n b1]

end Acn.SimShift
