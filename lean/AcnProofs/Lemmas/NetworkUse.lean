/-
  Helper lemmas for the "network in use" layer of C12 (`AcnModel/NetworkUse.lean`): a use other
  than a resume leaves the object alone by construction; a resume rebuilds the same object; the
  run of a history with uses is the run of its edits.
-/
import AcnModel.Network
import AcnModel.NetworkUse
import AcnProofs.Lemmas.NetworkFeas
import Mathlib.Tactic

set_option linter.unusedSectionVars false
set_option linter.unusedSimpArgs false

namespace Acn.Network

theorem bcast_of_length {α : Type} {W : Nat} {l : List α} (h : l.length = W) : bcast W l = l := by
  match l, h with
  | [], _ => rfl
  | [x], h => subst h; rfl
  | _ :: _ :: _, _ => rfl

section plain
variable {K : Type}

theorem UNet.resume_eq' (ids : String → Nat) (u : UNet K) : u.resume ids = u := by
  obtain ⟨⟨⟨st, m, mg, ix⟩, c, s, v⟩, vt, rt⟩ := u
  simp [UNet.resume, UNet.fromDict, UNet.toDict, List.map_map, Function.comp_def]

end plain

section ordered
variable {K : Type} [Field K] [LinearOrder K] [IsStrictOrderedRing K]

theorem UNet.afterUse_eq (u : UNet K) (x : Use K) : u.afterUse x = u := by
  cases x <;> simp [UNet.afterUse, UNet.resume_eq']

theorem UNet.step_use (u : UNet K) (x : Use K) : (u.step (.use x)).1 = u := by
  simp [UNet.step, UNet.afterUse_eq]

theorem UNet.run_full (u : UNet K) (h : List (HOp K)) :
    (u.run h).full = u.full.run (edits h) ∧ (u.run h).vt = u.vt ∧ (u.run h).rt = u.rt := by
  induction h generalizing u with
  | nil => exact ⟨rfl, rfl, rfl⟩
  | cons o os ih =>
    cases o with
    | edit e =>
      have := ih (u.step (.edit e)).1
      simpa [UNet.run, UNet.step, edits, FullNet.run] using this
    | use x =>
      have := ih (u.step (.use x)).1
      rw [UNet.step_use] at this
      simpa [UNet.run, UNet.step_use, edits] using this

/-- the exceptions raised by the EDITS of a history with uses -/
def editErrs : List (Answer K) → List (Option Err)
  | [] => []
  | .edited e :: r => e :: editErrs r
  | _ :: r => editErrs r

theorem UNet.answer_not_edited (u : UNet K) (x : Use K) (e : Option Err) :
    u.answer x ≠ .edited e := by
  cases x <;> simp [UNet.answer]
  split <;> simp

theorem UNet.editErrs_answers (u : UNet K) (h : List (HOp K)) :
    editErrs (u.answers h) = u.full.trace (edits h) := by
  induction h generalizing u with
  | nil => rfl
  | cons o os ih =>
    cases o with
    | edit e =>
      simp only [UNet.answers, UNet.step, editErrs, edits, FullNet.trace]
      rw [ih]
    | use x =>
      simp only [UNet.answers, edits]
      have hne : ∀ e, (u.step (.use x)).2 ≠ .edited e := by
        intro e; simpa [UNet.step] using UNet.answer_not_edited u x e
      have hstep : editErrs ((u.step (.use x)).2 :: UNet.answers (u.step (.use x)).1 os) =
          editErrs (UNet.answers (u.step (.use x)).1 os) := by
        generalize (u.step (.use x)).2 = a at hne
        cases a <;> first | rfl | exact absurd rfl (hne _)
      rw [hstep, ih, UNet.step_use]

end ordered

end Acn.Network
