/-
  Helper lemmas for C17 (memo of the selected schedule): the cache invariant, and the one-day tariff
  that makes an unsound key visible.
-/
import AcnModel.TariffMemo
import Mathlib.Tactic

namespace Acn.C17
open Acn Acn.Tariff

/-- the key determines everything `_get_tariff_schedule` reads: (month, day) and the weekday -/
def KeySound {κ : Type} (key : Fields → κ) : Prop :=
  ∀ f g, key f = key g → f.md = g.md ∧ f.wd = g.wd

/-- every remembered schedule is what a fresh selection returns for EVERY datetime with that key -/
def CacheOk {K κ : Type} [DecidableEq κ] (key : Fields → κ) (l : List (Schedule K)) (c : Cache K κ) : Prop :=
  ∀ f s, c.lookup (key f) = some s → selectSchedule l f.md f.wd = .ok s

theorem cacheOk_nil {K κ : Type} [DecidableEq κ] (key : Fields → κ) (l : List (Schedule K)) :
    CacheOk key l ([] : Cache K κ) := by
  intro f s h; simp at h

theorem selectMemo_spec {K κ : Type} [DecidableEq κ] (key : Fields → κ) (hk : KeySound key)
    (l : List (Schedule K)) (c : Cache K κ) (hc : CacheOk key l c) (f : Fields) :
    (selectMemo key l c f).1 = selectSchedule l f.md f.wd ∧ CacheOk key l (selectMemo key l c f).2 := by
  unfold selectMemo
  cases hlk : c.lookup (key f) with
  | some s => exact ⟨(hc f s hlk).symm, hc⟩
  | none =>
    cases hsel : selectSchedule l f.md f.wd with
    | error e => exact ⟨rfl, hc⟩
    | ok s =>
      refine ⟨rfl, ?_⟩
      intro g s' hg
      simp only [List.lookup_cons] at hg
      by_cases hkg : key g = key f
      · obtain ⟨h1, h2⟩ := hk g f hkg
        simp only [hkg, beq_self_eq_true] at hg
        cases hg
        rw [h1, h2, hsel]
      · have hb : (key g == key f) = false := by simpa using hkg
        simp only [hb] at hg
        exact hc g s' hg

theorem runMemo_spec {K κ : Type} [DecidableEq κ] [LT K] [DecidableLT K] (key : Fields → κ)
    (hk : KeySound key) (l : List (Schedule K)) (qs : List Query) (c : Cache K κ) (hc : CacheOk key l c) :
    (runMemo key l c qs).1 = runPlain l qs ∧ CacheOk key l (runMemo key l c qs).2 := by
  induction qs generalizing c with
  | nil => exact ⟨rfl, hc⟩
  | cons q qs ih =>
    obtain ⟨h1, h2⟩ := selectMemo_spec key hk l c hc q.fields
    obtain ⟨h3, h4⟩ := ih _ h2
    refine ⟨?_, h4⟩
    simp only [runMemo, runPlain, List.map_cons, answerPlain]
    rw [h1, h3]; rfl

/-! ### a tariff that is valid on one (month, day, weekday) only -/

def onlyOn (f : Fields) : Schedule ℚ :=
  { id := "only", start := f.md, stop := f.md, mask := List.replicate f.wd false ++ [true],
    tariffs := [(0, 1)], demand := 1 }

theorem mdLe_refl (a : Nat × Nat) : mdLe a a = true := by simp [mdLe]

theorem mdLe_antisymm (a b : Nat × Nat) (h1 : mdLe a b = true) (h2 : mdLe b a = true) : a = b := by
  simp only [mdLe, Bool.or_eq_true, decide_eq_true_eq, Bool.and_eq_true, beq_iff_eq] at h1 h2
  ext <;> omega

theorem mask_getD (w w' : Nat) : (List.replicate w false ++ [true]).getD w' false = true ↔ w' = w := by
  rw [List.getD_eq_getElem?_getD, List.getElem?_append]
  simp only [List.length_replicate]
  split_ifs with h
  · rw [List.getElem?_replicate]; simp [h]; omega
  · rcases Nat.eq_or_lt_of_le (Nat.le_of_not_lt h) with h' | h'
    · subst h'; simp
    · have : w' - w = (w' - w - 1) + 1 := by omega
      rw [this]; simp; omega

theorem select_onlyOn (f g : Fields) :
    selectSchedule [onlyOn f] g.md g.wd =
      if g.md = f.md ∧ g.wd = f.wd then .ok (onlyOn f) else .error .noSchedule := by
  unfold selectSchedule validSchedules
  by_cases h : g.md = f.md ∧ g.wd = f.wd
  · have hm : (onlyOn f).mask.getD g.wd false = true := (mask_getD f.wd g.wd).mpr h.2
    simp only [List.filter_cons, List.filter_nil, hm, if_pos h]
    simp only [onlyOn, h.1, mdLe_refl, Bool.and_self, if_true]
  · rw [if_neg h]
    have : ((onlyOn f).mask.getD g.wd false && mdLe (onlyOn f).start g.md && mdLe g.md (onlyOn f).stop) = false := by
      by_contra hc
      simp only [Bool.not_eq_false, Bool.and_eq_true] at hc
      obtain ⟨⟨hm, h1⟩, h2⟩ := hc
      exact h ⟨mdLe_antisymm _ _ h2 h1, (mask_getD f.wd g.wd).mp hm⟩
    simp only [List.filter_cons, List.filter_nil, this]
    rfl

/-- an unsound key is visible: on the one-day tariff `onlyOn f`, asking the demand charge at `f` and
    then at a `g` with the same key answers `g` from the cache, while `get_demand_charge(g)` raises -/
theorem runMemo_visible {κ : Type} [DecidableEq κ] (key : Fields → κ) (f g : Fields)
    (hkey : key f = key g) (hne : ¬ (g.md = f.md ∧ g.wd = f.wd)) :
    (runMemo key [onlyOn f] ([] : Cache ℚ κ) [.demand f, .demand g]).1 ≠ runPlain [onlyOn f] [.demand f, .demand g] := by
  have hf : selectSchedule [onlyOn f] f.md f.wd = .ok (onlyOn f) := by rw [select_onlyOn]; simp
  have hg : selectSchedule [onlyOn f] g.md g.wd = .error .noSchedule := by rw [select_onlyOn, if_neg hne]
  simp only [runMemo, runPlain, List.map_cons, List.map_nil, answerPlain, Query.fields, selectMemo,
    List.lookup_nil, hf, hg, List.lookup_cons, ← hkey, beq_self_eq_true, answerOf]
  intro h
  simp [Except.map] at h

end Acn.C17
