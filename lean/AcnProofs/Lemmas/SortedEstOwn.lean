/-
  C08 for an ARBITRARY upper-bound estimator: a preprocessed session's OWN bound written from first
  principles (EVSE maximum, estimator answer, minimum pilot — `OwnBound`, an EQUALITY where
  `Lemmas/SortedEst.lean` has the inequalities the safety theorems need), and what one run of
  `max_feasible_rate` / one trip round the round-robin loop does relative to that bound.
-/
import AcnProofs.Lemmas.SortedEstCall
import AcnProofs.Lemmas.SortedOpt

set_option linter.unusedSectionVars false

namespace Acn.Sorted
open Acn

section
variable {K : Type} [Field K] [LinearOrder K] [IsStrictOrderedRing K]

/-- `np.minimum(max_rates, upper_bounds.get(session_id, inf))` (preprocessing.py:97-99) -/
def capBy (m : K) : Option K → K
  | some b => min m b
  | none => m

/-- The bounds of a session `s` that leaves `run_preprocessing`, from first principles: `s1` is the
    session the estimator was handed (the unfinished input session with `max_rates` already limited to
    the EVSE's maximum pilot), `b` the estimator's answer for it (`none`: no key, or no estimator).
      * no estimator, no uninterrupted charging: `s = s1`;
      * uninterrupted charging refused for this session: both bounds 0;
      * otherwise `min_rates` is the incoming one, or (uninterrupted charging granted, which needs the
        minimum pilot to fit into the remaining demand) `max(min_pilot, incoming)`, and
        `max_rates = max(min(max_rates of s1, b), min_rates)` — the estimator's bound, but never below
        the session's own minimum. -/
def OwnBound (cfg : Config K) (infra : Infra K) (period : K) (b : Option K) (s1 s : Session K) : Prop :=
  s.session = s1.session ∧ s.idx = s1.idx ∧ s.requested = s1.requested ∧ s.delivered = s1.delivered ∧
  ((cfg.estimate = false ∧ cfg.uninterrupted = false ∧ s = s1) ∨
   (cfg.uninterrupted = true ∧ s.minRate = 0 ∧ s.maxRate = 0) ∨
   (((cfg.uninterrupted = false ∧ s.minRate = s1.minRate) ∨
      (cfg.uninterrupted = true ∧ infra.minPilot.getD s1.idx 0 ≤ rap infra period s1 ∧
        s.minRate = max (infra.minPilot.getD s1.idx 0) s1.minRate)) ∧
    s.maxRate = max (capBy s1.maxRate b) s.minRate))

theorem applyUpperBoundFn_exact (est : Session K → Option K) (l : List (Session K)) :
    ∀ s ∈ applyUpperBoundFn est l, ∃ s1 ∈ l, s.session = s1.session ∧ s.idx = s1.idx ∧
      s.requested = s1.requested ∧ s.delivered = s1.delivered ∧ s.minRate = s1.minRate ∧
      s.maxRate = max (capBy s1.maxRate (est s1)) s1.minRate := by
  intro s hs
  unfold applyUpperBoundFn at hs
  obtain ⟨s1, h1, rfl⟩ := List.mem_map.mp hs
  refine ⟨s1, h1, ?_⟩
  split
  · rename_i b hb
    obtain ⟨g1, g2, g3, g4, g5, g6⟩ :=
      reconcile_fields ({ s1 with maxRate := pyMin s1.maxRate b } : Session K)
    refine ⟨g2, g1, g4, g5, g3, ?_⟩
    rw [g6, hb]
    simp [capBy, pyMin_eq_min]
  · rename_i hb
    obtain ⟨g1, g2, g3, g4, g5, g6⟩ := reconcile_fields s1
    refine ⟨g2, g1, g4, g5, g3, ?_⟩
    rw [g6, hb]
    simp [capBy]

theorem max_max_max (a b c : K) : max (max a b) (max c b) = max a (max c b) := by
  rw [max_assoc, max_eq_right (le_max_right c b)]

/-- `run_preprocessing` with ANY estimator, exactly: every surviving session carries its own bound -/
theorem preprocessEst_own (feas : List K → Bool) (cfg : Config K) (infra : Infra K) (period : K)
    (est : List (Session K) → Session K → Option K) (l : List (Session K)) :
    ∀ s ∈ preprocessEst feas cfg infra period est l, ∃ s1 ∈ estInput infra period l,
      OwnBound cfg infra period
        (if cfg.estimate = true then est (estInput infra period l) s1 else none) s1 s := by
  have hminrel : ∀ (b : Option K) (s1 s2 s : Session K), cfg.uninterrupted = true →
      s2.session = s1.session → s2.idx = s1.idx → s2.requested = s1.requested →
      s2.delivered = s1.delivered → s2.minRate = s1.minRate →
      s2.maxRate = max (capBy s1.maxRate b) s1.minRate → MinRel infra period s2 s →
      OwnBound cfg infra period b s1 s := by
    intro b s1 s2 s hun e1 e2 e3 e4 e5 e6 hrel
    rcases hrel with rfl | ⟨hrap, rfl⟩
    · exact ⟨e1, e2, e3, e4, Or.inr (Or.inl ⟨hun, rfl, rfl⟩)⟩
    · obtain ⟨g1, g2, g3, g4, g5, g6⟩ := reconcile_fields
        ({ s2 with minRate := pyMax (infra.minPilot.getD s2.idx 0) s2.minRate } : Session K)
      simp only [pyMax_eq_max] at g1 g2 g3 g4 g5 g6 ⊢
      refine ⟨g2.trans e1, g1.trans e2, g4.trans e3, g5.trans e4, Or.inr (Or.inr ⟨Or.inr ⟨hun, ?_, ?_⟩, ?_⟩)⟩
      · rw [← rap_congr infra period s1 s2 e2 e3 e4, ← e2]; exact hrap
      · rw [g3, e2, e5]
      · rw [g6, g3, e6, e2, e5]
        exact max_max_max _ _ _
  unfold preprocessEst
  simp only
  intro s hs
  by_cases hest : cfg.estimate = true <;> by_cases hun : cfg.uninterrupted = true <;>
    simp only [hest, hun, if_true, if_false, Bool.false_eq_true] at hs ⊢
  · obtain ⟨s2, hs2, hrel⟩ := forall₂_mem_right (applyMinimumRate_rel feas infra period _) s hs
    rw [mem_sortBy] at hs2
    obtain ⟨s1, hs1, e1, e2, e3, e4, e5, e6⟩ := applyUpperBoundFn_exact _ _ s2 hs2
    exact ⟨s1, hs1, hminrel _ s1 s2 s hun e1 e2 e3 e4 e5 e6 hrel⟩
  · obtain ⟨s1, hs1, e1, e2, e3, e4, e5, e6⟩ := applyUpperBoundFn_exact _ _ s hs
    have hun' : cfg.uninterrupted = false := by simpa using hun
    refine ⟨s1, hs1, e1, e2, e3, e4, Or.inr (Or.inr ⟨Or.inl ⟨hun', e5⟩, ?_⟩)⟩
    rw [e6, e5]
  · obtain ⟨s1, hs1, hrel⟩ := forall₂_mem_right (applyMinimumRate_rel feas infra period _) s hs
    rw [mem_sortBy] at hs1
    refine ⟨s1, hs1, ?_⟩
    rcases hrel with rfl | ⟨hrap, rfl⟩
    · exact ⟨rfl, rfl, rfl, rfl, Or.inr (Or.inl ⟨hun, rfl, rfl⟩)⟩
    · obtain ⟨g1, g2, g3, g4, g5, g6⟩ := reconcile_fields
        ({ s1 with minRate := pyMax (infra.minPilot.getD s1.idx 0) s1.minRate } : Session K)
      simp only [pyMax_eq_max] at g1 g2 g3 g4 g5 g6 ⊢
      refine ⟨g2, g1, g4, g5, Or.inr (Or.inr ⟨Or.inr ⟨hun, hrap, g3⟩, ?_⟩)⟩
      rw [g6, g3]; rfl
  · have he' : cfg.estimate = false := by simpa using hest
    have hun' : cfg.uninterrupted = false := by simpa using hun
    exact ⟨s, hs, rfl, rfl, rfl, rfl, Or.inl ⟨he', hun', rfl⟩⟩

/-! ### one call of `max_feasible_rate` relative to the session's bounds -/

theorem set_eq_of_getElem? {α : Type} (l : List α) (i : Nat) (a : α) (h : l[i]? = some a) :
    l.set i a = l := by
  obtain ⟨hi, rfl⟩ := List.getElem?_eq_some_iff.mp h
  exact List.set_getElem_self hi

/-- continuous EVSE: on a schedule that holds the session's lower bound at its station, the grant is
    feasible, lies in `[lb, ub]`, equals `ub` when `ub` is feasible, and no feasible value of that
    coordinate within the session's bounds is `eps` or more above it -/
theorem greedyRate_cont_max (feas : List K → Bool) (fuel : Nat) (eps : K) (heps : 0 < eps)
    (infra : Infra K) (period : K) (cur : List K) (s : Session K) (r : K)
    (hc : infra.cont.getD s.idx true = true) (hcur : cur[s.idx]? = some (lbOf s))
    (hint : IntervalFeasible feas cur s.idx)
    (hle : lbOf s ≤ ubOf infra period s) (hfuel : ubOf infra period s - lbOf s ≤ eps * 2 ^ fuel)
    (h : greedyRate feas fuel eps infra period cur s = .ok r) :
    feas cur = true ∧ feas (cur.set s.idx r) = true ∧ lbOf s ≤ r ∧ r ≤ ubOf infra period s ∧
    (feas (cur.set s.idx (ubOf infra period s)) = true → r = ubOf infra period s) ∧
    ∀ x, lbOf s ≤ x → x ≤ ubOf infra period s → feas (cur.set s.idx x) = true → x < r + eps := by
  have hset := set_eq_of_getElem? cur s.idx (lbOf s) hcur
  unfold greedyRate at h
  simp only [hc, if_true] at h
  unfold maxFeasibleRate at h
  cases h0 : feas cur with
  | false => simp [h0] at h
  | true =>
    cases hub : feas (cur.set s.idx (ubOf infra period s)) with
    | true =>
      simp only [h0, hub, Bool.not_true, Bool.false_eq_true, if_false, if_true] at h
      cases h
      refine ⟨rfl, hub, hle, le_refl _, fun _ => rfl, ?_⟩
      intro x _ hx _
      linarith
    | false =>
      simp only [h0, hub, Bool.not_true, Bool.false_eq_true, if_false] at h
      cases h
      have hl : feas (cur.set s.idx (lbOf s)) = true := by rw [hset]; exact h0
      obtain ⟨h1, h2⟩ := bisect_bracket feas cur s.idx eps heps hint fuel _ _ hle hfuel hl hub
      have hr := bisect_range feas cur s.idx eps (le_of_lt heps) fuel (lbOf s) (ubOf infra period s)
      refine ⟨rfl, h1, hr.1, by simpa [max_eq_right hle] using hr.2, ?_, fun x hx _ hfx => h2 x hx hfx⟩
      intro hcon
      simp at hcon

/-! ### one trip round the round-robin loop relative to the session's bounds -/

/-- the unfiltered level list of a session in `round_robin` (sorted_algorithms.py:386-397) -/
def rrBase [HasCeilNat K] (infra : Infra K) (inc : K) (s : Session K) : List K :=
  if infra.cont.getD s.idx true then arange s.minRate (s.maxRate + inc / ((2 : Nat) : K)) inc
  else infra.allow.getD s.idx []

theorem rrLevels_eq [HasCeilNat K] (infra : Infra K) (period inc : K) (s : Session K) :
    rrLevels infra period inc s =
      ((rrBase infra inc s).filter fun a => decide (lbOf s ≤ a)).filter
        fun a => decide (a ≤ rrUb infra period s) := rfl

/-- the head of the deque leaves it iff it has no next level or the next level fails the check -/
theorem rrStep_stops_iff (feas : List K → Bool) (levels : List (List K)) (st : RRState K)
    (s : Session K) (rest : List (Session K)) (hq : st.queue = s :: rest) :
    (rrStep feas levels st).queue = rest ↔
      (¬ (st.rateIdx.getD s.idx 0 + 1 < (levels.getD s.idx []).length) ∨
       feas (st.sched.set s.idx ((levels.getD s.idx []).getD (st.rateIdx.getD s.idx 0 + 1) 0)) = false) := by
  constructor
  · intro hleft
    by_cases hk : st.rateIdx.getD s.idx 0 + 1 < (levels.getD s.idx []).length
    · right
      cases hf : feas (st.sched.set s.idx ((levels.getD s.idx []).getD (st.rateIdx.getD s.idx 0 + 1) 0))
      · rfl
      · unfold rrStep at hleft
        rw [hq] at hleft
        simp only [hk, hf, if_true] at hleft
        have := congrArg List.length hleft
        simp at this
    · left; exact hk
  · intro h
    unfold rrStep
    rw [hq]
    simp only
    by_cases hk : st.rateIdx.getD s.idx 0 + 1 < (levels.getD s.idx []).length
    · rcases h with h | h
      · exact absurd hk h
      · simp only [hk, h, if_true, Bool.false_eq_true, if_false]
    · simp only [hk, if_false]

/-- when the filtered level list has no entry after position `k`, every level of the unfiltered list
    that lies within the session's bounds sits at a position `≤ k`: nothing within the session's own
    bound is left untried -/
theorem no_level_left (base : List K) (lb ub : K) (k : Nat)
    (hk : ¬ (k + 1 < ((base.filter fun a => decide (lb ≤ a)).filter fun a => decide (a ≤ ub)).length)) :
    ∀ a ∈ base, lb ≤ a → a ≤ ub → ∃ j, j ≤ k ∧
      ((base.filter fun a => decide (lb ≤ a)).filter fun a => decide (a ≤ ub))[j]? = some a := by
  intro a ha h1 h2
  have hmem : a ∈ (base.filter fun a => decide (lb ≤ a)).filter fun a => decide (a ≤ ub) := by
    simp only [List.mem_filter, decide_eq_true_eq]
    exact ⟨⟨ha, h1⟩, h2⟩
  obtain ⟨j, hj, hja⟩ := List.mem_iff_getElem.mp hmem
  refine ⟨j, by omega, ?_⟩
  rw [List.getElem?_eq_getElem hj, hja]

end
end Acn.Sorted
