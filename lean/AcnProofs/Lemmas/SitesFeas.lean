/-
  Bridges from the executable list code (`Feas.netFeasible`, `dotK`, `denseRow`, casts) to sums over
  `Finset.range n` in a linear ordered field.
-/
import AcnModel.Sites
import AcnProofs.Lemmas.Basic
import Mathlib.Algebra.BigOperators.Group.Finset.Basic
import Mathlib.Algebra.BigOperators.Ring.Finset
import Mathlib.Algebra.Order.BigOperators.Group.Finset
import Mathlib.Tactic

namespace Acn.SitesFeas
open Acn Acn.Feas Acn.Sites Acn.Gen.Sites
variable {K : Type} [Field K] [LinearOrder K] [IsStrictOrderedRing K]
set_option linter.unusedSectionVars false

theorem getD_of_lt {α : Type} (l : List α) (d : α) (j : Nat) (h : j < l.length) : l.getD j d = l[j] := by
  simp [List.getD_eq_getElem?_getD, h]

theorem getD_of_ge {α : Type} (l : List α) (d : α) (j : Nat) (h : l.length ≤ j) : l.getD j d = d := by
  simp [List.getD_eq_getElem?_getD, h]

theorem sumK_eq_sum (l : List K) : sumK l = l.sum := by
  unfold sumK; rw [List.sum_eq_foldl]

theorem zipWith_sum_eq (a b : List K) (n : Nat) (ha : a.length = n) (hb : b.length = n) :
    (List.zipWith (· * ·) a b).sum = ∑ j ∈ Finset.range n, a.getD j 0 * b.getD j 0 := by
  induction a generalizing b n with
  | nil => simp at ha; subst ha; simp
  | cons x xs ih =>
    cases b with
    | nil => simp at hb; subst hb; simp at ha
    | cons y ys =>
      cases n with
      | zero => simp at ha
      | succ m =>
        simp only [List.length_cons, Nat.add_right_cancel_iff] at ha hb
        rw [Finset.sum_range_succ']
        simp [ih ys m ha hb, add_comm]

theorem dotK_eq_sum (a b : List K) (n : Nat) (ha : a.length = n) (hb : b.length = n) :
    dotK a b = ∑ j ∈ Finset.range n, a.getD j 0 * b.getD j 0 := by
  unfold dotK; rw [sumK_eq_sum, zipWith_sum_eq a b n ha hb]

theorem getD_zipWith_mul (a b : List K) (j : Nat) :
    (List.zipWith (· * ·) a b).getD j 0 = a.getD j 0 * b.getD j 0 := by
  induction a generalizing b j with
  | nil => simp
  | cons x xs ih =>
    cases b with
    | nil => simp
    | cons y ys =>
      cases j with
      | zero => simp
      | succ k => simpa using ih ys k

theorem ofIntK_eq (z : Int) : (ofIntK z : K) = (z : K) := by
  unfold ofIntK
  obtain ⟨n, rfl | rfl⟩ := z.eq_nat_or_neg
  · simp
  · by_cases hn : n = 0
    · subst hn; simp
    · have : (0 : Int) < (n : Int) := by omega
      simp

theorem ratK_eq (n : Int) (d : Nat) : (ratK n d : K) = (n : K) / (d : K) := by
  unfold ratK; rw [ofIntK_eq]

theorem ratK_one (n : Int) : (ratK n 1 : K) = (n : K) := by
  rw [ratK_eq]; simp

theorem getD_denseRow (n : Nat) (row : List (Nat × Int × Nat)) (j : Nat) (hj : j < n) :
    (denseRow n row : List K).getD j 0 = ratK (coeff row j).1 (coeff row j).2 := by
  unfold denseRow
  rw [getD_of_lt _ _ _ (by simpa using hj)]
  simp

theorem length_denseRow (n : Nat) (row : List (Nat × Int × Nat)) :
    (denseRow n row : List K).length = n := by
  unfold denseRow; simp

/-- the aggregate phasor current of a dense row as a finite sum -/
theorem aggRe_eq (n : Nat) (row : List (Nat × Int × Nat)) (x c : List K)
    (hx : x.length = n) (hc : c.length = n) :
    aggRe (denseRow n row) x c
      = ∑ j ∈ Finset.range n, ratK (coeff row j).1 (coeff row j).2 * (x.getD j 0 * c.getD j 0) := by
  unfold aggRe
  rw [dotK_eq_sum _ _ n (length_denseRow n row) (by simp [hx, hc])]
  apply Finset.sum_congr rfl
  intro j hj
  rw [getD_denseRow n row j (Finset.mem_range.mp hj), getD_zipWith_mul]

theorem aggIm_eq (n : Nat) (row : List (Nat × Int × Nat)) (x s : List K)
    (hx : x.length = n) (hs : s.length = n) :
    aggIm (denseRow n row) x s
      = ∑ j ∈ Finset.range n, ratK (coeff row j).1 (coeff row j).2 * (x.getD j 0 * s.getD j 0) :=
  aggRe_eq n row x s hx hs

/-- `magLe` is the squared comparison -/
theorem magLe_iff (re im b : K) : magLe re im b = true ↔ 0 ≤ b ∧ re * re + im * im ≤ b * b := by
  simp [magLe]

/-- what `netFeasible = true` gives for one row and one period -/
theorem rowOk_of_netFeasible (M : List (List K)) (lims c s : List K) (vt rt : K) (S : List (List K))
    (h : netFeasible M lims c s vt rt S = true) (t : Nat) (ht : t < periods S)
    (i : Nat) (hi : i < M.length) (hi' : i < lims.length) :
    rowOk (M[i]) (lims[i]) vt rt c s (col S t) = true := by
  unfold netFeasible at h
  split at h
  · rename_i he
    simp at he; subst he; simp at hi'
  · rw [List.all_eq_true] at h
    have h1 := h t (List.mem_range.mpr ht)
    rw [List.all_eq_true] at h1
    have hmem : (M[i], lims[i]) ∈ List.zip M lims := by
      rw [List.mem_iff_getElem]
      exact ⟨i, by simp [hi, hi'], by simp⟩
    exact h1 _ hmem

/-- `netFeasible` is exactly "every row, every period" (the converse of `rowOk_of_netFeasible`) -/
theorem netFeasible_iff (M : List (List K)) (lims c s : List K) (vt rt : K) (S : List (List K))
    (hne : 0 < lims.length) (hlen : M.length = lims.length) :
    netFeasible M lims c s vt rt S = true ↔
      ∀ t, t < periods S → ∀ i (hi : i < M.length) (hi' : i < lims.length),
        rowOk (M[i]) (lims[i]) vt rt c s (col S t) = true := by
  constructor
  · intro h t ht i hi hi'
    exact rowOk_of_netFeasible M lims c s vt rt S h t ht i hi hi'
  · intro h
    unfold netFeasible
    split
    · rfl
    · rw [List.all_eq_true]
      intro t ht
      rw [List.all_eq_true]
      intro p hp
      obtain ⟨i, hi, rfl⟩ := List.mem_iff_getElem.mp hp
      have hi1 : i < M.length := by simp at hi; omega
      have hi2 : i < lims.length := by simp at hi; omega
      simpa using h t (List.mem_range.mp ht) i hi1 hi2

theorem length_col (S : List (List K)) (t : Nat) : (col S t).length = S.length := by
  unfold col; simp

theorem getD_col (S : List (List K)) (t j : Nat) :
    (col S t).getD j 0 = (S.getD j []).getD t 0 := by
  unfold col
  by_cases hj : j < S.length
  · rw [getD_of_lt _ _ _ (by simpa using hj), getD_of_lt _ _ _ hj]; simp
  · rw [getD_of_ge _ _ _ (by simpa using hj), getD_of_ge S _ _ (by omega)]; simp

/-- a non-negative schedule has non-negative columns -/
theorem col_nonneg (S : List (List K)) (hS : ∀ row ∈ S, ∀ v ∈ row, (0 : K) ≤ v) (t j : Nat) :
    0 ≤ (col S t).getD j 0 := by
  rw [getD_col]
  by_cases hj : j < S.length
  · rw [getD_of_lt _ _ _ hj]
    by_cases ht : t < (S[j]).length
    · rw [getD_of_lt _ _ _ ht]; exact hS _ (List.getElem_mem hj) _ (List.getElem_mem ht)
    · rw [getD_of_ge _ _ _ (by omega)]
  · rw [getD_of_ge S _ _ (by omega)]; simp

/-- Σ over a duplicate-free index list = Σ over the range with an indicator -/
theorem groupSum_eq (E : List Nat) (n : Nat) (x : List K) (hE : E.Nodup) (hlt : ∀ j ∈ E, j < n) :
    groupSum E x = ∑ j ∈ Finset.range n, if E.contains j then x.getD j 0 else 0 := by
  unfold groupSum
  rw [sumK_eq_sum, ← List.sum_toFinset _ hE]
  have : ∀ j, (if E.contains j = true then x.getD j 0 else 0) = if j ∈ E.toFinset then x.getD j 0 else 0 := by
    intro j; simp
  simp_rw [this]
  rw [Finset.sum_ite_mem]
  congr 1
  ext j
  simp only [Finset.mem_inter, Finset.mem_range, List.mem_toFinset]
  constructor
  · intro h; exact ⟨hlt j h, h⟩
  · intro h; exact h.2

end Acn.SitesFeas
