/-
  Helper lemmas for C09 (JSON text layer): the round trip `parse (render v) = some v` — `json.loads(json.dumps(v))
  = v` — by mutual structural induction over values, element lists and member lists.
-/
import AcnProofs.Lemmas.JsonTextDoc
namespace Acn.JsonText

theorem parseVal_atom (f : Nat) (c : Char) (r : List Char) (h1 : c ≠ '"') (h2 : c ≠ '[') (h3 : c ≠ '{') :
    parseVal (f + 1) (c :: r) = parseAtom (c :: r) := by
  rw [parseVal]; simp [h1, h2, h3]

theorem parseVal_str (f : Nat) (r r' s : List Char) (h : scanStr none r = some (s, r')) :
    parseVal (f + 1) ('"' :: r) = some (.str (String.ofList s), r') := by
  rw [parseVal]; simp [h]

theorem parseVal_arr_nil (f : Nat) (r r2 : List Char) (h : skipWs r = ']' :: r2) :
    parseVal (f + 1) ('[' :: r) = some (.arr [], r2) := by
  rw [parseVal]; simp [h]

theorem parseVal_arr_cons (f : Nat) (r r2 r3 r4 : List Char) (c2 : Char) (v : JVal) (l : List JVal)
    (h : skipWs r = c2 :: r2) (hc : c2 ≠ ']') (hv : parseVal f (c2 :: r2) = some (v, r3))
    (ht : parseTail f r3 = some (l, r4)) :
    parseVal (f + 1) ('[' :: r) = some (.arr (v :: l), r4) := by
  rw [parseVal]; simp [h, hc, hv, ht]

theorem parseVal_obj_nil (f : Nat) (r r2 : List Char) (h : skipWs r = '}' :: r2) :
    parseVal (f + 1) ('{' :: r) = some (.obj [], r2) := by
  rw [parseVal]; simp [h]

theorem parseVal_obj_cons (f : Nat) (r r2 r3 r4 : List Char) (c2 : Char) (kv : String × JVal)
    (l : List (String × JVal))
    (h : skipWs r = c2 :: r2) (hc : c2 ≠ '}') (hv : parseMember f (c2 :: r2) = some (kv, r3))
    (ht : parseMTail f r3 = some (l, r4)) :
    parseVal (f + 1) ('{' :: r) = some (.obj (kv :: l), r4) := by
  rw [parseVal]; simp [h, hc, hv, ht]

theorem parseTail_end (f : Nat) (cs r : List Char) (h : skipWs cs = ']' :: r) :
    parseTail (f + 1) cs = some ([], r) := by
  rw [parseTail]; simp [h]

theorem parseTail_more (f : Nat) (cs r r' r'' : List Char) (v : JVal) (l : List JVal)
    (h : skipWs cs = ',' :: r) (hv : parseVal f (skipWs r) = some (v, r')) (ht : parseTail f r' = some (l, r'')) :
    parseTail (f + 1) cs = some (v :: l, r'') := by
  rw [parseTail]; simp [h, hv, ht]

theorem parseMTail_end (f : Nat) (cs r : List Char) (h : skipWs cs = '}' :: r) :
    parseMTail (f + 1) cs = some ([], r) := by
  rw [parseMTail]; simp [h]

theorem parseMTail_more (f : Nat) (cs r r' r'' : List Char) (kv : String × JVal) (l : List (String × JVal))
    (h : skipWs cs = ',' :: r) (hv : parseMember f (skipWs r) = some (kv, r'))
    (ht : parseMTail f r' = some (l, r'')) :
    parseMTail (f + 1) cs = some (kv :: l, r'') := by
  rw [parseMTail]; simp [h, hv, ht]

theorem parseMember_ok (f : Nat) (r0 r1 r2 r3 k : List Char) (v : JVal)
    (hk : scanStr none r0 = some (k, r1)) (hc : skipWs r1 = ':' :: r2)
    (hv : parseVal f (skipWs r2) = some (v, r3)) :
    parseMember (f + 1) ('"' :: r0) = some ((String.ofList k, v), r3) := by
  rw [parseMember]; simp [hk, hc, hv]


theorem fuel_succ {f : Nat} (h : 1 ≤ f) : ∃ f', f = f' + 1 := ⟨f - 1, by omega⟩

mutual
/-- `parseVal` reads back exactly the value that was rendered and stops right behind it -/
theorem parseVal_render : ∀ (v : JVal) (f : Nat) (rest : List Char), v.wf = true → v.cost ≤ f → Delim rest →
    parseVal f (render v ++ rest) = some (v, rest)
  | .null, f, rest, _, hc, _ => by
    have hf1 : 1 ≤ f := by simpa [JVal.cost] using hc
    obtain ⟨f', rfl⟩ := fuel_succ hf1
    simp only [render, List.cons_append]
    rw [parseVal_atom _ _ _ (by decide) (by decide) (by decide)]
    exact parseAtom_null rest
  | .bool true, f, rest, _, hc, _ => by
    have hf1 : 1 ≤ f := by simpa [JVal.cost] using hc
    obtain ⟨f', rfl⟩ := fuel_succ hf1
    simp only [render, if_true, List.cons_append]
    rw [parseVal_atom _ _ _ (by decide) (by decide) (by decide)]
    exact parseAtom_true rest
  | .bool false, f, rest, _, hc, _ => by
    have hf1 : 1 ≤ f := by simpa [JVal.cost] using hc
    obtain ⟨f', rfl⟩ := fuel_succ hf1
    simp only [render, Bool.false_eq_true, if_false, List.cons_append]
    rw [parseVal_atom _ _ _ (by decide) (by decide) (by decide)]
    exact parseAtom_false rest
  | .int n, f, rest, _, hc, hd => by
    have hf1 : 1 ≤ f := by simpa [JVal.cost] using hc
    obtain ⟨f', rfl⟩ := fuel_succ hf1
    obtain ⟨c, t, h, hh⟩ := renderInt_head n
    have hp := numHead_props c (by rcases hh with hh | hh; exact Or.inl hh; exact Or.inr (Or.inl hh))
    have := parseAtom_int n rest hd
    simp only [render]
    rw [h] at this ⊢
    rw [List.cons_append, parseVal_atom _ _ _ hp.2.2.2.2.2.1 hp.2.2.2.2.2.2.1 hp.2.2.2.2.2.2.2.1]
    exact this
  | .num t, f, rest, hw, hc, hd => by
    have hf1 : 1 ≤ f := by simpa [JVal.cost] using hc
    obtain ⟨f', rfl⟩ := fuel_succ hf1
    have hw' : isFloatTok t = true := by simpa [JVal.wf] using hw
    have hs : startsNum t = true := by
      simp only [isFloatTok, Bool.and_eq_true] at hw'; exact hw'.1.2
    obtain ⟨c, r, h, hh⟩ := startsNum_head t hs
    have hp := numHead_props c hh
    have := parseAtom_float t rest hw' hd
    simp only [render]
    rw [h] at this ⊢
    rw [List.cons_append, parseVal_atom _ _ _ hp.2.2.2.2.2.1 hp.2.2.2.2.2.2.1 hp.2.2.2.2.2.2.2.1]
    exact this
  | .str s, f, rest, _, hc, _ => by
    have hf1 : 1 ≤ f := by simpa [JVal.cost] using hc
    obtain ⟨f', rfl⟩ := fuel_succ hf1
    simp only [render, renderStr, List.cons_append, List.append_assoc, List.nil_append]
    rw [parseVal_str _ _ _ _ (scanStr_escape s.toList rest), String.ofList_toList]
  | .arr [], f, rest, _, hc, _ => by
    have hf1 : 1 ≤ f := by simp [JVal.cost, costList] at hc; omega
    obtain ⟨f', rfl⟩ := fuel_succ hf1
    simp only [render, List.cons_append, List.nil_append]
    exact parseVal_arr_nil _ _ _ (skipWs_of_head _ _ (by decide))
  | .arr (v :: l), f, rest, hw, hc, hd => by
    simp only [JVal.wf, wfList, Bool.and_eq_true] at hw
    simp only [JVal.cost, costList] at hc
    have hf1 : 1 ≤ f := by omega
    obtain ⟨f', rfl⟩ := fuel_succ hf1
    obtain ⟨c, t, h, hws, h1, _, _, _⟩ := render_head v hw.1
    have hv := parseVal_render v f' (renderTail l ++ ']' :: rest) hw.1 (by omega) (by
      cases l with
      | nil => exact delim_cons _ _ (by decide)
      | cons a l => exact delim_cons _ _ (by decide))
    have ht := parseTail_render l f' rest hw.2 (by omega)
    simp only [render, List.cons_append, List.append_assoc, List.nil_append]
    rw [h] at hv ⊢
    exact parseVal_arr_cons _ _ _ _ _ _ _ _ (skipWs_of_head _ _ hws) h1 hv ht
  | .obj [], f, rest, _, hc, _ => by
    have hf1 : 1 ≤ f := by simp [JVal.cost, costMembers] at hc; omega
    obtain ⟨f', rfl⟩ := fuel_succ hf1
    simp only [render, List.cons_append, List.nil_append]
    exact parseVal_obj_nil _ _ _ (skipWs_of_head _ _ (by decide))
  | .obj ((k, v) :: l), f, rest, hw, hc, hd => by
    simp only [JVal.wf, wfMembers, Bool.and_eq_true] at hw
    simp only [JVal.cost, costMembers] at hc
    have hf1 : 1 ≤ f := by omega
    obtain ⟨f', rfl⟩ := fuel_succ hf1
    have hf2 : 1 ≤ f' := by omega
    obtain ⟨f'', rfl⟩ := fuel_succ hf2
    have hv := parseVal_render v f'' (renderMTail l ++ '}' :: rest) hw.1 (by omega) (by
      cases l with
      | nil => exact delim_cons _ _ (by decide)
      | cons a l => obtain ⟨k', v'⟩ := a; exact delim_cons _ _ (by decide))
    have ht := parseMTail_render l (f'' + 1) rest hw.2 (by omega)
    obtain ⟨c, t, h, hws, _⟩ := render_head v hw.1
    have hm : parseMember (f'' + 1) ('"' :: (escape k.toList ++ '"' :: ':' :: ' ' :: (render v ++ (renderMTail l ++ '}' :: rest)))) =
        some ((k, v), renderMTail l ++ '}' :: rest) := by
      have := parseMember_ok f'' _ _ _ _ _ v (scanStr_escape k.toList (':' :: ' ' :: (render v ++ (renderMTail l ++ '}' :: rest))))
        (skipWs_of_head _ _ (by decide))
        (by rw [skipWs_space, h, List.cons_append, skipWs_of_head _ _ hws, ← List.cons_append, ← h]; exact hv)
      rw [this, String.ofList_toList]
    simp only [render, renderStr, List.cons_append, List.append_assoc, List.nil_append]
    exact parseVal_obj_cons _ _ _ _ _ _ _ _ (skipWs_of_head _ _ (by decide)) (by decide) hm ht
/-- the elements after the first, up to and including the closing bracket -/
theorem parseTail_render : ∀ (l : List JVal) (f : Nat) (rest : List Char), wfList l = true → costList l ≤ f →
    parseTail f (renderTail l ++ ']' :: rest) = some (l, rest)
  | [], f, rest, _, hc => by
    have hf1 : 1 ≤ f := by simpa [costList] using hc
    obtain ⟨f', rfl⟩ := fuel_succ hf1
    simp only [renderTail, List.nil_append]
    exact parseTail_end _ _ _ (skipWs_of_head _ _ (by decide))
  | v :: l, f, rest, hw, hc => by
    simp only [wfList, Bool.and_eq_true] at hw
    simp only [costList] at hc
    have hf1 : 1 ≤ f := by omega
    obtain ⟨f', rfl⟩ := fuel_succ hf1
    obtain ⟨c, t, h, hws, _⟩ := render_head v hw.1
    have hv := parseVal_render v f' (renderTail l ++ ']' :: rest) hw.1 (by omega) (by
      cases l with
      | nil => exact delim_cons _ _ (by decide)
      | cons a l => exact delim_cons _ _ (by decide))
    have ht := parseTail_render l f' rest hw.2 (by omega)
    simp only [renderTail, List.cons_append, List.append_assoc]
    refine parseTail_more _ _ _ _ _ _ _ (skipWs_of_head _ _ (by decide)) ?_ ht
    rw [skipWs_space, h, List.cons_append, skipWs_of_head _ _ hws, ← List.cons_append, ← h]
    exact hv
/-- the members after the first, up to and including the closing brace -/
theorem parseMTail_render : ∀ (l : List (String × JVal)) (f : Nat) (rest : List Char), wfMembers l = true →
    costMembers l ≤ f → parseMTail f (renderMTail l ++ '}' :: rest) = some (l, rest)
  | [], f, rest, _, hc => by
    have hf1 : 1 ≤ f := by simpa [costMembers] using hc
    obtain ⟨f', rfl⟩ := fuel_succ hf1
    simp only [renderMTail, List.nil_append]
    exact parseMTail_end _ _ _ (skipWs_of_head _ _ (by decide))
  | (k, v) :: l, f, rest, hw, hc => by
    simp only [wfMembers, Bool.and_eq_true] at hw
    simp only [costMembers] at hc
    have hf1 : 1 ≤ f := by omega
    obtain ⟨f', rfl⟩ := fuel_succ hf1
    have hf2 : 1 ≤ f' := by omega
    obtain ⟨f'', rfl⟩ := fuel_succ hf2
    obtain ⟨c, t, h, hws, _⟩ := render_head v hw.1
    have hv := parseVal_render v f'' (renderMTail l ++ '}' :: rest) hw.1 (by omega) (by
      cases l with
      | nil => exact delim_cons _ _ (by decide)
      | cons a l => obtain ⟨k', v'⟩ := a; exact delim_cons _ _ (by decide))
    have ht := parseMTail_render l (f'' + 1) rest hw.2 (by omega)
    simp only [renderMTail, renderStr, List.cons_append, List.append_assoc, List.nil_append]
    refine parseMTail_more _ _ _ _ _ (k, v) _ (skipWs_of_head _ _ (by decide)) ?_ ht
    rw [skipWs_space, skipWs_of_head _ _ (by decide)]
    have := parseMember_ok f'' _ _ _ _ _ v (scanStr_escape k.toList (':' :: ' ' :: (render v ++ (renderMTail l ++ '}' :: rest))))
      (skipWs_of_head _ _ (by decide))
      (by rw [skipWs_space, h, List.cons_append, skipWs_of_head _ _ hws, ← List.cons_append, ← h]; exact hv)
    rw [this, String.ofList_toList]
end

end Acn.JsonText
