/-
  Helper lemmas for C17: `mapM` in `Except`, Python's `max` fold, Boolean → Prop bridges.
-/
import AcnModel.Tariff
import AcnProofs.Lemmas.TariffLookup
import Mathlib.Tactic

namespace Acn.C17
open Acn Acn.Tariff

theorem strict_of_strictTimesB {K : Type} (l : List (Rat × K)) (h : strictTimesB l = true) :
    StrictTimes l := by
  induction l with
  | nil => exact List.Pairwise.nil
  | cons a l ih =>
    simp only [strictTimesB, Bool.and_eq_true, List.all_eq_true, decide_eq_true_eq] at h
    exact List.pairwise_cons.mpr ⟨h.1, ih h.2⟩

theorem mapM_ok_iff {α β ε : Type} (f : α → Except ε β) (l : List α) (v : List β) :
    l.mapM f = .ok v ↔ List.Forall₂ (fun a b => f a = .ok b) l v := by
  induction l generalizing v with
  | nil =>
    simp only [List.mapM_nil]
    constructor
    · intro h; cases h; exact List.Forall₂.nil
    · intro h; cases h; rfl
  | cons a l ih =>
    rw [List.mapM_cons]
    cases hfa : f a with
    | error e =>
      constructor
      · intro h; cases h
      · intro h; cases h with | cons h1 _ => rw [hfa] at h1; cases h1
    | ok b =>
      cases hl : l.mapM f with
      | error e =>
        constructor
        · intro h; cases h
        · intro h
          cases h with
          | cons h1 h2 => have := (ih _).mpr h2; rw [hl] at this; cases this
      | ok bs =>
        constructor
        · intro h
          have : v = b :: bs := by cases h; rfl
          subst this
          exact List.Forall₂.cons hfa ((ih bs).mp hl)
        · intro h
          cases h with
          | cons h1 h2 =>
            rw [hfa] at h1; cases h1
            have := (ih _).mpr h2; rw [hl] at this; cases this
            rfl

section order
variable {K : Type} [LinearOrder K]

theorem foldl_pyMax_spec (as : List K) (a : K) :
    (as.foldl pyMax a ∈ a :: as) ∧ ∀ b ∈ a :: as, b ≤ as.foldl pyMax a := by
  induction as generalizing a with
  | nil => simp
  | cons x xs ih =>
    obtain ⟨hm, hle⟩ := ih (pyMax a x)
    simp only [List.foldl_cons]
    have hmax : pyMax a x = max a x := by
      unfold pyMax; split
      · rw [max_eq_right (le_of_lt ‹_›)]
      · rw [max_eq_left (not_lt.mp ‹_›)]
    constructor
    · rcases List.mem_cons.mp hm with h | h
      · rw [h, hmax]
        rcases max_choice a x with h' | h' <;> rw [h'] <;> simp
      · simp [h]
    · intro b hb
      have h1 := hle (pyMax a x) (List.mem_cons_self)
      rcases List.mem_cons.mp hb with rfl | hb
      · exact le_trans (by rw [hmax]; exact le_max_left _ _) h1
      · rcases List.mem_cons.mp hb with rfl | hb
        · exact le_trans (by rw [hmax]; exact le_max_right _ _) h1
        · exact hle b (List.mem_cons_of_mem _ hb)

end order

end Acn.C17
