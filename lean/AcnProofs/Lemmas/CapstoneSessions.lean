/-
  Capstone helper (2/3): from ACN-Data documents to a scenario that meets C01's hypothesis `Valid`.

  `DocsOk` is the exact condition on the DOCUMENTS (not on the converted sessions) under which the sessions that
  `get_evs` / `generate_events` (model: `Sessions.getEvs`, C15) produce, put on a network whose station ids are
  `stationIds`, satisfy `EventCore.Valid` (`Lemmas/EventCoreInv.lean`): distinct session ids, registered spaces,
  connection not before `start`, connection and disconnection in DIFFERENT periods (C15 `arrival_lt_departure_iff`:
  a same-period session is kept by the converter with `arrival = departure`, and the simulator then raises), a
  `max_len` of at least one period, and no two documents of one space overlapping in period indices.
-/
import AcnProofs.C15
import AcnProofs.Lemmas.EventCoreInv
import AcnModel.Sim

set_option linter.unusedSectionVars false

namespace Acn.Capstone
open Acn Acn.Sessions Acn.SessionsL Acn.Evse Acn.EventCore

variable {K : Type} [Field K] [LinearOrder K] [IsStrictOrderedRing K] [FloorRing K]

/-- period index of an instant `t` (epoch seconds) for periods of `period` minutes: `int(t / (60·period))` -/
def periodOf (period t : K) : Int := pyTrunc (t / (60 * period))

/-- the condition on the documents (see the header) -/
structure DocsOk (stationIds : List String) (start period : K) (maxLen : Option Int) (docs : List (Doc K)) : Prop where
  ids : (docs.map (·.session)).Nodup
  registered : ∀ d ∈ docs, d.space ∈ stationIds
  after_start : ∀ d ∈ docs, start ≤ d.connect
  periods_apart : ∀ d ∈ docs, periodOf period d.connect < periodOf period d.disconnect
  cap_pos : ∀ L, maxLen = some L → 0 < L
  disjoint : ∀ d ∈ docs, ∀ d' ∈ docs, d ≠ d' → d.space = d'.space →
    periodOf period d.disconnect ≤ periodOf period d'.connect ∨
    periodOf period d'.disconnect ≤ periodOf period d.connect

/-- the simulation the pipeline assembles: the network / simulator parameters `net` (stations, period, tolerances,
    `max_recompute`, extra recompute events, noise stream) with the converted sessions as its plug-in events -/
def pipelineCfg (net : Sim.Cfg K) (evs : List (Ev K)) : Sim.Cfg K := { net with evs := evs }

theorem forall₂_mem_right {α β : Type} {R : α → β → Prop} {l₁ : List α} {l₂ : List β} (h : List.Forall₂ R l₁ l₂)
    {b : β} (hb : b ∈ l₂) : ∃ a ∈ l₁, R a b := by
  induction h with
  | nil => cases hb
  | cons hab _ ih =>
    rcases List.mem_cons.mp hb with h' | h'
    · subst h'; exact ⟨_, List.mem_cons_self, hab⟩
    · obtain ⟨a, ha, hr⟩ := ih h'; exact ⟨a, List.mem_cons_of_mem _ ha, hr⟩

theorem forall₂_imp_mem {α β : Type} {R S : α → β → Prop} {l₁ : List α} {l₂ : List β} (h : List.Forall₂ R l₁ l₂)
    (himp : ∀ a ∈ l₁, ∀ b ∈ l₂, R a b → S a b) : List.Forall₂ S l₁ l₂ := by
  induction h with
  | nil => exact .nil
  | cons hab _ ih =>
    exact .cons (himp _ List.mem_cons_self _ List.mem_cons_self hab)
      (ih fun a ha b hb => himp a (List.mem_cons_of_mem _ ha) b (List.mem_cons_of_mem _ hb))

/-- the period index of an instant at or after the epoch, from the two inequalities that pin it down -/
theorem periodOf_eq {period t : K} (k : Int) (hp : 0 < period) (h0 : 0 ≤ t)
    (h1 : (k : K) * (60 * period) ≤ t) (h2 : t < ((k : K) + 1) * (60 * period)) : periodOf period t = k := by
  have h60 : (0 : K) < 60 * period := by positivity
  unfold periodOf
  rw [pyTrunc_nonneg (div_nonneg h0 h60.le), Int.floor_eq_iff]
  exact ⟨(le_div_iff₀ h60).2 h1, (div_lt_iff₀ h60).2 h2⟩

theorem capDeparture_le_dep (a dep : Int) (ml : Option Int) : capDeparture a dep ml ≤ dep := by
  cases ml with
  | none => simp [capDeparture]
  | some L => simp only [capDeparture]; split <;> omega

theorem connect_le_disconnect {period : K} (hp : 0 < period) {d : Doc K}
    (h : periodOf period d.connect < periodOf period d.disconnect) : d.connect ≤ d.disconnect := by
  by_contra hc
  have h60 : (0 : K) < 60 * period := by positivity
  have := pyTrunc_mono (div_le_div_of_nonneg_right (le_of_lt (not_le.mp hc)) h60.le)
  unfold periodOf at h
  omega

/-- **C15 → C01.**  Documents satisfying `DocsOk`, converted by `get_evs` with ANY battery parameters, `max_len` and
    `force_feasible` setting, on a network with distinct recompute tags at non-negative times: the resulting
    scenario is `Valid`; the session ids are the documents' ids in order; every EV starts fresh. -/
theorem pipeline_valid (net : Sim.Cfg K) (start V mp : K) (maxLen : Option Int) (bp : BattParams K) (ff : Bool)
    (docs : List (Doc K)) (evs : List (Ev K)) (hp : 0 < net.period)
    (hd : DocsOk (net.stations.map (·.id)) start net.period maxLen docs)
    (htags : (net.recomputes.map (·.2)).Nodup) (hrec : ∀ r ∈ net.recomputes, 0 ≤ r.1)
    (h : getEvs start docs net.period V mp maxLen bp ff = .ok evs) :
    Valid (pipelineCfg net evs).core ∧ evs.map (·.session) = docs.map (·.session) ∧
    (∀ e ∈ evs, e.delivered = 0 ∧ e.rate = 0 ∧ e.estDeparture = e.departure) := by
  have hf := getEvs_ok hp h
  have hL0 : ∀ L, maxLen = some L → 0 ≤ L := fun L hL => le_of_lt (hd.cap_pos L hL)
  obtain ⟨g1, g2, g3, _⟩ := C15.generate_events_vs_simulator_valid start docs net.period V mp maxLen bp ff evs hp hL0
    (fun d hdm => ⟨hd.after_start d hdm, connect_le_disconnect hp (hd.periods_apart d hdm)⟩) h
  have hsess : (pipelineCfg net evs).core.sessions = evs.map Sim.sessionOf := rfl
  have hmem : ∀ x ∈ (pipelineCfg net evs).core.sessions, ∃ e ∈ evs, x = Sim.sessionOf e ∧ ∃ d ∈ docs,
      convertDoc d (pyTrunc (start / (60 * net.period))) net.period V mp maxLen bp ff = .ok e := by
    intro x hx
    rw [hsess] at hx
    obtain ⟨e, he, rfl⟩ := List.mem_map.1 hx
    obtain ⟨d, hdm, hde⟩ := forall₂_mem_right hf he
    exact ⟨e, he, rfl, d, hdm, hde⟩
  refine ⟨⟨?_, htags, ?_, ?_, ?_, ?_, hrec⟩, g2, ?_⟩
  · rw [hsess, List.map_map]
    have : (fun x : Session => x.id) ∘ Sim.sessionOf = fun e : Ev K => e.session := rfl
    rw [this, g2]
    exact hd.ids
  · intro x hx
    obtain ⟨e, _, rfl, d, hdm, hde⟩ := hmem x hx
    obtain ⟨-, -, -, -, hs, -⟩ := convertDoc_ok hp hde
    show e.station ∈ net.stations.map (·.id)
    rw [hs]
    exact hd.registered d hdm
  · intro x hx
    obtain ⟨e, he, rfl, -⟩ := hmem x hx
    exact (g1 e he).1
  · intro x hx
    obtain ⟨e, _, rfl, d, hdm, hde⟩ := hmem x hx
    exact (C15.arrival_lt_departure_iff d _ net.period V mp maxLen bp ff e hp hde).2
      ⟨hd.periods_apart d hdm, hd.cap_pos⟩
  · intro x hx y hy hxy hst
    obtain ⟨e, _, rfl, d, hdm, hde⟩ := hmem x hx
    obtain ⟨e', _, rfl, d', hdm', hde'⟩ := hmem y hy
    have hne : d ≠ d' := by
      rintro rfl
      rw [hde] at hde'
      exact hxy (by injection hde' with h'; rw [h'])
    obtain ⟨ha, hdp, -, -, hs, -⟩ := convertDoc_ok hp hde
    obtain ⟨ha', hdp', -, -, hs', -⟩ := convertDoc_ok hp hde'
    have hsp : d.space = d'.space := by rw [← hs, ← hs']; exact hst
    have c1 := capDeparture_le_dep e.arrival (pyTrunc (d.disconnect / (60 * net.period)) -
      pyTrunc (start / (60 * net.period))) maxLen
    have c2 := capDeparture_le_dep e'.arrival (pyTrunc (d'.disconnect / (60 * net.period)) -
      pyTrunc (start / (60 * net.period))) maxLen
    rw [← hdp] at c1
    rw [← hdp'] at c2
    show e.departure ≤ e'.arrival ∨ e'.departure ≤ e.arrival
    rcases hd.disjoint d hdm d' hdm' hne hsp with h1 | h1
    · left; unfold periodOf at h1; omega
    · right; unfold periodOf at h1; omega
  · intro e he
    obtain ⟨d, _, hde⟩ := forall₂_mem_right hf he
    obtain ⟨-, -, h3, -, -, -, h7, h8, -⟩ := convertDoc_ok hp hde
    exact ⟨h7, h8, h3⟩

/-- default `battery_params` (`Battery`, capacity = requested energy, initially empty; also the two-stage class
    without `capacity_fn`): positive energies and a positive maximum battery power give batteries that satisfy
    C03's invariant, and nobody has been over-delivered at the start -/
theorem pipeline_batteries (start period V mp : K) (maxLen : Option Int) (bp : BattParams K) (ff : Bool)
    (docs : List (Doc K)) (evs : List (Ev K)) (hp : 0 < period) (hb : bp.capFn = none)
    (hts : bp.type = .twoStage → 0 ≤ bp.ts ∧ bp.ts < 1) (hm : 0 < mp)
    (hk : ∀ d ∈ docs, 0 < d.kWh) (hapart : ∀ d ∈ docs, periodOf period d.connect < periodOf period d.disconnect)
    (hL : ∀ L, maxLen = some L → 0 < L)
    (h : getEvs start docs period V mp maxLen bp ff = .ok evs) :
    ∀ e ∈ evs, (0 < e.batt.capacity ∧ e.batt.charge ≤ e.batt.capacity ∧ e.batt.init ≤ e.batt.capacity ∧
      0 ≤ e.batt.maxPower ∧ 0 ≤ e.batt.ts ∧ e.batt.ts < 1) ∧ e.delivered ≤ e.requested ∧ 0 < e.requested := by
  intro e he
  obtain ⟨d, hdm, hde⟩ := forall₂_mem_right (getEvs_ok hp h) he
  obtain ⟨-, -, -, -, -, hreq, hdel, -, hbat⟩ := convertDoc_ok hp hde
  have hlt := (C15.arrival_lt_departure_iff d _ period V mp maxLen bp ff e hp hde).2 ⟨hapart d hdm, hL⟩
  have hpos : 0 < e.requested := by
    rw [hreq]
    unfold docEnergy
    split
    · rw [pyMin_eq_min]
      apply lt_min (hk d hdm)
      have : (0 : K) < ((e.departure - e.arrival : Int) : K) := by
        exact_mod_cast (by omega : (0 : Int) < e.departure - e.arrival)
      have h60 : ((60 : Nat) : K) = 60 := by norm_num
      rw [h60]
      positivity
    · exact hk d hdm
  refine ⟨?_, by rw [hdel]; exact hpos.le, hpos⟩
  unfold mkBattery at hbat
  rw [hb] at hbat
  simp only at hbat
  cases ht : bp.type with
  | ideal =>
    rw [ht] at hbat
    simp only at hbat
    unfold Battery.mkIdeal at hbat
    split at hbat
    · simp [ofBatt] at hbat
    · simp only [ofBatt] at hbat
      injection hbat with hbat
      rw [← hbat]
      exact ⟨hpos, hpos.le, hpos.le, hm.le, le_refl _, by norm_num⟩
  | twoStage =>
    rw [ht] at hbat
    simp only at hbat
    obtain ⟨h1, h2, h3, h4, _, _, h7, _⟩ := ofBatt_mkTwoStage hbat
    obtain ⟨t0, t1⟩ := hts ht
    rw [h1, h2, h3, h4, h7]
    exact ⟨hpos, hpos.le, hpos.le, hm.le, t0, t1⟩

/-! ### the example scenario of the capstone files (two stations, three documents; see `AcnProofs/Capstone.lean`) -/

def exNet (K : Type) [Field K] : Sim.Cfg K :=
  { stations := [⟨"CA-1", .cont 0 (some 32), 208⟩, ⟨"CA-2", .finite [0, 8, 16, 24, 32], 208⟩], evs := [],
    recomputes := [], maxRecompute := some 1, period := 5, atolCont := 1 / 1000, atolDeadband := 1 / 1000,
    atolFinite := 1 / 1000, fullEps := 1 / 1000, noise := [] }

def exStart (K : Type) [Field K] : K := 1552204800

def exDocs (K : Type) [Field K] : List (Doc K) :=
  [⟨1552204810, 1552205450, 3, "a", "CA-1"⟩, ⟨1552205500, 1552206050, 1, "b", "CA-1"⟩,
   ⟨1552205110, 1552205800, 2, "c", "CA-2"⟩]

/-- the documents satisfy `DocsOk` — over every ordered field with a floor (ℚ for execution, ℝ for statements 2–3) -/
theorem exDocsOk (K : Type) [Field K] [LinearOrder K] [IsStrictOrderedRing K] [FloorRing K] :
    DocsOk ((exNet K).stations.map (·.id)) (exStart K) (exNet K).period (some 12) (exDocs K) := by
  have p1 : periodOf (5 : K) 1552204810 = 5174016 :=
    periodOf_eq _ (by norm_num) (by norm_num) (by norm_num) (by norm_num)
  have p2 : periodOf (5 : K) 1552205450 = 5174018 :=
    periodOf_eq _ (by norm_num) (by norm_num) (by norm_num) (by norm_num)
  have p3 : periodOf (5 : K) 1552205500 = 5174018 :=
    periodOf_eq _ (by norm_num) (by norm_num) (by norm_num) (by norm_num)
  have p4 : periodOf (5 : K) 1552206050 = 5174020 :=
    periodOf_eq _ (by norm_num) (by norm_num) (by norm_num) (by norm_num)
  have p5 : periodOf (5 : K) 1552205110 = 5174017 :=
    periodOf_eq _ (by norm_num) (by norm_num) (by norm_num) (by norm_num)
  have p6 : periodOf (5 : K) 1552205800 = 5174019 :=
    periodOf_eq _ (by norm_num) (by norm_num) (by norm_num) (by norm_num)
  refine ⟨by simp [exDocs], ?_, ?_, ?_, ?_, ?_⟩
  · intro d hd
    simp only [exDocs, List.mem_cons, List.not_mem_nil, or_false] at hd
    rcases hd with rfl | rfl | rfl <;> simp [exNet]
  · intro d hd
    simp only [exDocs, List.mem_cons, List.not_mem_nil, or_false] at hd
    rcases hd with rfl | rfl | rfl <;> norm_num [exStart]
  · intro d hd
    simp only [exDocs, List.mem_cons, List.not_mem_nil, or_false] at hd
    rcases hd with rfl | rfl | rfl <;> simp only [exNet, p1, p2, p3, p4, p5, p6] <;> decide
  · intro L hL
    injection hL with hL
    omega
  · intro d hd d' hd' hne hsp
    simp only [exDocs, List.mem_cons, List.not_mem_nil, or_false] at hd hd'
    rcases hd with rfl | rfl | rfl <;> rcases hd' with rfl | rfl | rfl <;>
      first
        | exact absurd rfl hne
        | (simp only [exNet, p1, p2, p3, p4, p5, p6]; decide)
        | (exfalso; simp at hsp)

end Acn.Capstone
