/-
  The normalised two-stage charging flow.

  With `u = κ·(1 − soc)/p` (remaining SoC measured in units of `p/κ = 1 − pts`) and
  `θ = κ·t`, the documented law `ds/dt = min p (κ (1 − s))` becomes `du/dθ = −min 1 u`.
  `W u θ` is its solution in closed form.  Everything the property files need about the
  closed form of `battery.py:255-270` (bounds, semigroup, monotonicity, derivative) is proved
  here once for `W`; `BatteryCont.lean` relates `contSoc` to `W`.
-/
import AcnModel.Battery
import AcnProofs.Lemmas.Basic
import Mathlib.Analysis.SpecialFunctions.Exp
import Mathlib.Analysis.SpecialFunctions.ExpDeriv
import Mathlib.Tactic

namespace Acn

/-- The ℝ carrier of the model: `HasExp.exp` is the real exponential. -/
noncomputable instance : HasExp ℝ := ⟨Real.exp⟩

namespace BattFlow
open Real Set Filter Topology

/-- closed-form solution of `u' = −min 1 u`, `u 0 = w` -/
noncomputable def W (w θ : ℝ) : ℝ :=
  if w ≤ 1 then w * exp (-θ) else if θ ≤ w - 1 then w - θ else exp (-(θ - (w - 1)))

theorem W_ramp {w : ℝ} (h : w ≤ 1) (θ : ℝ) : W w θ = w * exp (-θ) := by simp [W, h]

theorem W_lin {w θ : ℝ} (h : 1 < w) (h2 : θ ≤ w - 1) : W w θ = w - θ := by
  simp [W, not_le.mpr h, h2]

theorem W_cross {w θ : ℝ} (h : 1 < w) (h2 : w - 1 < θ) : W w θ = exp (-(θ - (w - 1))) := by
  simp [W, not_le.mpr h, not_le.mpr h2]

/-- at the crossing instant both formulas give 1 -/
theorem W_cross' {w θ : ℝ} (h : 1 < w) (h2 : w - 1 ≤ θ) : W w θ = exp (-(θ - (w - 1))) := by
  rcases eq_or_lt_of_le h2 with h3 | h3
  · rw [W_lin h (le_of_eq h3.symm), ← h3]; simp
  · exact W_cross h h3

theorem W_zero (w : ℝ) : W w 0 = w := by
  rcases le_or_gt w 1 with h | h
  · simp [W_ramp h]
  · rw [W_lin h (by linarith)]; ring

theorem exp_neg_le_one {θ : ℝ} (h : 0 ≤ θ) : exp (-θ) ≤ 1 := by
  rw [exp_le_one_iff]; linarith

theorem one_sub_le_exp_neg (θ : ℝ) : 1 - θ ≤ exp (-θ) := by
  have := add_one_le_exp (-θ); linarith

/-- `e^{-θ} (1 + θ) ≤ 1` -/
theorem exp_neg_mul_le (θ : ℝ) : exp (-θ) * (1 + θ) ≤ 1 := by
  have h1 := add_one_le_exp θ
  have h2 : exp (-θ) * exp θ = 1 := by rw [← exp_add]; simp
  have h3 := exp_pos (-θ)
  nlinarith

theorem W_pos {w θ : ℝ} (hw : 0 < w) : 0 < W w θ := by
  unfold W; split_ifs with h1 h2
  · exact mul_pos hw (exp_pos _)
  · linarith
  · exact exp_pos _

theorem W_ramp_le_one {w θ : ℝ} (h : w ≤ 1) (hθ : 0 ≤ θ) : w * exp (-θ) ≤ 1 := by
  have h1 := exp_neg_le_one hθ
  have h2 := exp_pos (-θ)
  rcases le_or_gt w 0 with h0 | h0
  · nlinarith
  · nlinarith

/-- the remaining SoC never grows -/
theorem W_le {w θ : ℝ} (hw : 0 ≤ w) (hθ : 0 ≤ θ) : W w θ ≤ w := by
  unfold W; split_ifs with h1 h2
  · have := exp_neg_le_one hθ; nlinarith
  · linarith
  · have : exp (-(θ - (w - 1))) ≤ 1 := by rw [exp_le_one_iff]; linarith
    linarith

/-- … and falls by at most `θ` (the pilot's share) -/
theorem W_ge {w θ : ℝ} (hw : 0 ≤ w) (hθ : 0 ≤ θ) : w - θ ≤ W w θ := by
  unfold W; split_ifs with h1 h2
  · have := one_sub_le_exp_neg θ; nlinarith
  · exact le_refl _
  · have := one_sub_le_exp_neg (θ - (w - 1)); linarith

theorem W_le_one_of_le {w θ : ℝ} (h : w ≤ 1) (hθ : 0 ≤ θ) : W w θ ≤ 1 := by
  rw [W_ramp h]; exact W_ramp_le_one h hθ

/-- semigroup property of the flow -/
theorem W_semigroup (w : ℝ) {a b : ℝ} (ha : 0 ≤ a) (hb : 0 ≤ b) : W (W w a) b = W w (a + b) := by
  rcases le_or_gt w 1 with h | h
  · rw [W_ramp h, W_ramp (W_ramp_le_one h ha), W_ramp h, mul_assoc, ← exp_add]
    congr 2; ring
  · rcases le_or_gt a (w - 1) with h2 | h2
    · rw [W_lin h h2]
      rcases le_or_gt (w - a) 1 with h3 | h3
      · have ha' : a = w - 1 := by linarith
        rw [W_ramp h3, W_cross' h (by linarith)]
        have : w - a = 1 := by linarith
        rw [this, one_mul]; congr 1; rw [ha']; ring
      · rcases le_or_gt b (w - a - 1) with h4 | h4
        · rw [W_lin h3 h4, W_lin h (by linarith)]; ring
        · rw [W_cross h3 h4, W_cross h (by linarith)]; congr 1; ring
    · rw [W_cross h h2, W_cross h (by linarith)]
      have : exp (-(a - (w - 1))) ≤ 1 := by rw [exp_le_one_iff]; linarith
      rw [W_ramp this, ← exp_add]; congr 1; ring

/-- `W w θ / w` is non-decreasing in `w` (cross-multiplied).  This is monotonicity of the
    delivered energy in the pilot. -/
theorem W_ratio_mono {w1 w2 θ : ℝ} (h1 : 0 < w1) (h12 : w1 ≤ w2) (hθ : 0 ≤ θ) :
    W w1 θ * w2 ≤ W w2 θ * w1 := by
  rcases le_or_gt w2 1 with hw2 | hw2
  · rw [W_ramp hw2, W_ramp (le_trans h12 hw2)]; apply le_of_eq; ring
  · rcases le_or_gt w1 1 with hw1 | hw1
    · -- ramp vs (linear | crossing)
      rw [W_ramp hw1]
      have key : w2 * exp (-θ) ≤ W w2 θ := by
        rcases le_or_gt θ (w2 - 1) with h2 | h2
        · rw [W_lin hw2 h2]
          have e1 := exp_neg_mul_le θ
          have e2 := exp_pos (-θ)
          have : w2 ≤ (w2 - θ) * (1 + θ) := by nlinarith
          have : w2 * exp (-θ) ≤ (w2 - θ) * (1 + θ) * exp (-θ) :=
            mul_le_mul_of_nonneg_right this e2.le
          have h3 : (w2 - θ) * (1 + θ) * exp (-θ) ≤ (w2 - θ) := by
            have : 0 ≤ w2 - θ := by linarith
            nlinarith
          linarith
        · rw [W_cross hw2 h2]
          have : -(θ - (w2 - 1)) = -θ + (w2 - 1) := by ring
          rw [this, exp_add]
          have e2 := exp_pos (-θ)
          have := add_one_le_exp (w2 - 1)
          nlinarith
      have e2 := exp_pos (-θ)
      nlinarith
    · rcases le_or_gt θ (w1 - 1) with h2 | h2
      · rw [W_lin hw1 h2, W_lin hw2 (by linarith)]; nlinarith
      · rcases le_or_gt θ (w2 - 1) with h3 | h3
        · rw [W_cross hw1 h2, W_lin hw2 h3]
          set x := θ - (w1 - 1) with hx
          have hxpos : 0 < x := by linarith
          have e1 := exp_neg_mul_le x
          have e2 := exp_pos (-x)
          -- w2 ≤ (1+x) (w2-θ) w1
          have hd : w2 ≤ (1 + x) * ((w2 - θ) * w1) := by
            have hθ' : θ = x + w1 - 1 := by rw [hx]; ring
            have h4 : 1 ≤ w2 - θ := by linarith
            have h5 : x ≤ w2 - w1 := by linarith
            rw [hθ']
            nlinarith [mul_nonneg hxpos.le (sub_nonneg.mpr h5), mul_nonneg (sub_nonneg.mpr h12) (sub_nonneg.mpr hw1.le)]
          have h6 : 0 ≤ (w2 - θ) * w1 := by
            apply mul_nonneg <;> linarith
          calc exp (-x) * w2 ≤ exp (-x) * ((1 + x) * ((w2 - θ) * w1)) :=
                mul_le_mul_of_nonneg_left hd e2.le
            _ = (exp (-x) * (1 + x)) * ((w2 - θ) * w1) := by ring
            _ ≤ 1 * ((w2 - θ) * w1) := mul_le_mul_of_nonneg_right e1 h6
            _ = (w2 - θ) * w1 := one_mul _
        · rw [W_cross hw1 h2, W_cross hw2 h3]
          have : -(θ - (w2 - 1)) = -(θ - (w1 - 1)) + (w2 - w1) := by ring
          rw [this, exp_add]
          have e2 := exp_pos (-(θ - (w1 - 1)))
          have e3 := add_one_le_exp (w2 - w1)
          have : w2 ≤ exp (w2 - w1) * w1 := by nlinarith
          calc exp (-(θ - (w1 - 1))) * w2 ≤ exp (-(θ - (w1 - 1))) * (exp (w2 - w1) * w1) :=
                mul_le_mul_of_nonneg_left this e2.le
            _ = _ := by ring

/-! ### the flow solves `u' = −min 1 u` -/

theorem W_hasDerivAt (w : ℝ) {θ : ℝ} (hθ : 0 ≤ θ) : HasDerivAt (W w) (-(min 1 (W w θ))) θ := by
  rcases le_or_gt w 1 with h | h
  · have hf : W w = fun x => w * exp (-x) := by funext x; exact W_ramp h x
    have hv : min 1 (W w θ) = w * exp (-θ) := by
      rw [W_ramp h]; exact min_eq_right (W_ramp_le_one h hθ)
    rw [hv, hf]
    have := ((hasDerivAt_id θ).neg.exp).const_mul w
    simpa using this
  · rcases lt_trichotomy θ (w - 1) with h2 | h2 | h2
    · have hv : min 1 (W w θ) = 1 := by
        rw [W_lin h h2.le]; exact min_eq_left (by linarith)
      rw [hv]
      have hd : HasDerivAt (fun x : ℝ => w - x) (-1) θ := by
        simpa using (hasDerivAt_id θ).const_sub w
      refine hd.congr_of_eventuallyEq ?_
      exact (eventually_lt_nhds h2).mono (fun x hx => W_lin h hx.le)
    · -- the crossing instant: one-sided derivatives agree
      have hv : min 1 (W w θ) = 1 := by
        rw [W_lin h h2.le, h2]; simp
      rw [hv]
      have hL : HasDerivWithinAt (W w) (-1) (Iic θ) θ := by
        have hd : HasDerivWithinAt (fun x : ℝ => w - x) (-1) (Iic θ) θ := by
          simpa using ((hasDerivAt_id θ).const_sub w).hasDerivWithinAt
        refine hd.congr (fun x hx => W_lin h (by rw [← h2]; exact hx)) (W_lin h h2.le)
      have hR : HasDerivWithinAt (W w) (-1) (Ici θ) θ := by
        have hd : HasDerivAt (fun x : ℝ => exp (-(x - (w - 1)))) (-1) θ := by
          have := (((hasDerivAt_id θ).sub_const (w - 1)).neg).exp
          simpa [h2] using this
        refine hd.hasDerivWithinAt.congr (fun x hx => W_cross' h (by rw [← h2]; exact hx))
          (W_cross' h h2.ge)
      have := hL.union hR
      rwa [Iic_union_Ici, hasDerivWithinAt_univ] at this
    · have hlt : exp (-(θ - (w - 1))) ≤ 1 := by rw [exp_le_one_iff]; linarith
      have hv : min 1 (W w θ) = exp (-(θ - (w - 1))) := by
        rw [W_cross h h2]; exact min_eq_right hlt
      rw [hv]
      have hd : HasDerivAt (fun x : ℝ => exp (-(x - (w - 1)))) (-(exp (-(θ - (w - 1))))) θ := by
        have := (((hasDerivAt_id θ).sub_const (w - 1)).neg).exp
        simpa using this
      refine hd.congr_of_eventuallyEq ?_
      exact (eventually_gt_nhds h2).mono (fun x hx => W_cross h hx)

end BattFlow
end Acn
