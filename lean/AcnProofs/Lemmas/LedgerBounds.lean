/-
  Helper lemmas for the simulator-level clause of C03 proved next to C02: in every period, for every
  station, 0 ≤ recorded rate ≤ applied pilot.  Carrier ℝ (`HasExp ℝ = Real.exp`, as in C03, because
  the closed-form two-stage law needs analysis); uses `C03.ev_rate_le_pilot`.
-/
import AcnProofs.Lemmas.LedgerStep
import AcnProofs.C03

set_option linter.unusedSectionVars false
set_option linter.unusedSimpArgs false
set_option linter.unusedVariables false

namespace Acn.Ledger
open Acn Acn.Sim Acn.EventCore Acn.Evse Finset

/-- as `setPilotAt_ok`, with the pilot that was applied -/
theorem setPilotAt_ok_pilot {cfg : Cfg ℝ} {s s' : State ℝ} {i : Nat} {st : Station ℝ}
    (h : setPilotAt cfg s i st = (s', none)) :
    ((occupantEv s st.id = none ∧ s'.evs = s.evs) ∨
     (∃ e e' ν, occupantEv s st.id = some e ∧
        e.charge (s.pilots.get i s.core.iter) st.voltage cfg.period ν = .ok e' ∧
        s'.evs = replaceEv s.evs e')) := by
  unfold setPilotAt at h
  simp only at h
  by_cases hv : validRate (atolOf cfg st.kind) cfg.atolFinite st.kind (s.pilots.get i s.core.iter) = true
  · cases hocc : occupantEv s st.id with
    | none =>
      simp only [hocc, Evse.setPilot, hv, if_true, Prod.mk.injEq, and_true] at h
      subst h
      exact Or.inl ⟨rfl, rfl⟩
    | some e =>
      cases hc : e.charge (s.pilots.get i s.core.iter) st.voltage cfg.period (noiseAt cfg s.noiseIdx) with
      | error x => simp [hocc, Evse.setPilot, hv, hc] at h
      | ok e' =>
        simp only [hocc, Evse.setPilot, hv, if_true, hc, Prod.mk.injEq, and_true] at h
        subst h
        exact Or.inr ⟨e, e', _, rfl, hc, rfl⟩
  · simp [Evse.setPilot, hv] at h

theorem mem_replaceEv {evs : List (Ev ℝ)} {e1 e : Ev ℝ} (h : e ∈ replaceEv evs e1) : e = e1 ∨ e ∈ evs := by
  unfold replaceEv at h
  obtain ⟨d, hd, rfl⟩ := List.mem_map.1 h
  split
  · exact Or.inl rfl
  · exact Or.inr hd

theorem evIn_none_of_ids {evs evs' : List (Ev ℝ)} (h : evs.map (·.session) = evs'.map (·.session))
    {id : String} (he : evIn evs id = none) : evIn evs' id = none := by
  cases h' : evIn evs' id with
  | none => rfl
  | some e' =>
    obtain ⟨e, he2⟩ := evIn_exists_of_ids h.symm h'
    rw [he] at he2; simp at he2

/-- the station loop: batteries keep their invariant, and the occupant of the `j`-th remaining
    station ends the period with `0 ≤ rate ≤ pilot[i + j]` -/
theorem updatePilotsFrom_bounds (cfg : Cfg ℝ) : ∀ (rest : List (Station ℝ)) (i : Nat) (s s' : State ℝ),
    updatePilotsFrom cfg i rest s = (s', none) → DistinctOcc s.core.occ rest →
    (∀ e ∈ s.evs, BattAlg.Inv e.batt) → (∀ j, 0 ≤ s.pilots.get j s.core.iter) →
    (∀ e ∈ s'.evs, BattAlg.Inv e.batt) ∧
    (∀ j st x e', rest[j]? = some st → s.core.occ st.id = some x → evIn s'.evs x.id = some e' →
      0 ≤ e'.rate ∧ e'.rate ≤ s.pilots.get (i + j) s.core.iter) := by
  intro rest
  induction rest with
  | nil =>
    intro i s s' h _ hb _
    simp only [updatePilotsFrom, Prod.mk.injEq, and_true] at h
    subst h
    exact ⟨hb, fun j st x e' hj => by simp at hj⟩
  | cons st rest ih =>
    intro i s s' h hd hb hp
    unfold updatePilotsFrom at h
    cases h1 : setPilotAt cfg s i st with
    | mk s1 err =>
      cases err with
      | some e => simp [h1] at h
      | none =>
        simp only [h1] at h
        obtain ⟨c1, _, _, _, q1, _⟩ := setPilotAt_ok h1
        have hev := setPilotAt_ok_pilot h1
        have hd' := List.pairwise_cons.1 hd
        obtain ⟨c2, _, _, _, _, m2, hB, _⟩ :=
          updatePilotsFrom_ok cfg rest (i + 1) s1 s' h (by rw [c1]; exact hd'.2)
        rw [c1] at hB
        -- batteries after the first station
        have hb1 : ∀ e ∈ s1.evs, BattAlg.Inv e.batt := by
          rcases hev with ⟨_, he⟩ | ⟨e, e', ν, ho, hc, he⟩
          · rw [he]; exact hb
          · rw [he]
            intro d hd2
            rcases mem_replaceEv hd2 with rfl | hd2
            · have hmem : e ∈ s.evs := by
                rw [occupantEv_eq] at ho
                cases hx : s.core.occ st.id with
                | none => simp [hx] at ho
                | some x => simp only [hx] at ho; exact List.mem_of_find?_eq_some ho
              exact (C03.ev_rate_le_pilot (hb e hmem) (hp i) hc).2.2.2.2
            · exact hb d hd2
        obtain ⟨hb', hcl⟩ := ih (i + 1) s1 s' h (by rw [c1]; exact hd'.2) hb1 (by rw [q1, c1]; exact hp)
        rw [q1, c1] at hcl
        refine ⟨hb', ?_⟩
        intro j st0 x e' hj hx he'
        cases j with
        | succ j' =>
          have := hcl j' st0 x e' (by simpa using hj) hx he'
          rw [show i + 1 + j' = i + (j' + 1) by omega] at this
          exact this
        | zero =>
          obtain rfl : st = st0 := by simpa using hj
          -- nobody later in the list touches this EV
          have hlater : ∀ st' ∈ rest, occId s.core.occ st' ≠ some x.id := by
            intro st' hst' hcon
            simp only [occId] at hcon
            cases hy : s.core.occ st'.id with
            | none => simp [hy] at hcon
            | some y =>
              simp only [hy, Option.map_some, Option.some.injEq] at hcon
              exact hd'.1 st' hst' x y hx hy hcon.symm
          rw [hB x.id hlater] at he'
          rcases hev with ⟨hn, hevs⟩ | ⟨e, e1, ν, ho, hc, hevs⟩
          · -- the occupant is not in the list of EVs: it cannot be there afterwards either
            rw [occupantEv_eq] at hn
            simp only [hx] at hn
            rw [hevs, hn] at he'; simp at he'
          · rw [occupantEv_eq] at ho
            simp only [hx] at ho
            have hs1 : e1.session = x.id := by rw [(ev_charge_ledger hc).2.2.1]; exact evIn_session ho
            rw [hevs, ← hs1, evIn_replace_same, hs1, ho] at he'
            obtain rfl : e1 = e' := by simpa using he'
            have hmem : e ∈ s.evs := List.mem_of_find?_eq_some ho
            obtain ⟨r0, r1, _⟩ := C03.ev_rate_le_pilot (hb e hmem) (hp i) hc
            exact ⟨r0, by simpa using r1⟩

theorem storeRates_pilots (cfg : Cfg ℝ) (w : Nat) (s : State ℝ) : (storeRates cfg w s).1.pilots = s.pilots := by
  unfold storeRates
  simp only
  split_ifs <;> rfl

/-- ONE PERIOD: pilots applied, rates stored.  Every station's recorded rate lies between 0 and the
    pilot that stood in the matrix for it; the batteries keep their invariant. -/
theorem applyStage_bounds {cfg : Cfg ℝ} (hn : StationsNodup cfg) {a s' : State ℝ}
    (hL : Inv cfg a) (hb : ∀ e ∈ a.evs, BattAlg.Inv e.batt) (hp : ∀ j, 0 ≤ a.pilots.get j a.core.iter)
    (h : applyStage cfg a = (s', none)) :
    (∀ e ∈ s'.evs, BattAlg.Inv e.batt) ∧
    (∀ i τ, s'.pilots.get i τ = a.pilots.get i τ) ∧
    (∀ i, 0 ≤ s'.rates.get i a.core.iter ∧ s'.rates.get i a.core.iter ≤ a.pilots.get i a.core.iter) ∧
    (∀ i τ, τ ≠ a.core.iter → s'.rates.get i τ = a.rates.get i τ) := by
  obtain ⟨w, s2, s3, h2, h3, rfl⟩ := applyStage_ok h
  unfold Inv at hL
  have hd : DistinctOcc a.core.occ cfg.stations := distinctOcc_of hn hL.occ_sound
  obtain ⟨c2, r2, _, _, q2, _⟩ := updatePilotsFrom_ok cfg cfg.stations 0 _ s2 h2 hd
  simp only at c2 r2 q2
  obtain ⟨hb2, hcl⟩ := updatePilotsFrom_bounds cfg cfg.stations 0 _ s2 h2 hd hb
    (by intro j; simp only; rw [Pilots.increaseWidth_get']; exact hp j)
  simp only at hcl
  have hwf2 : s2.rates.WF cfg.stations.length := by
    rw [r2]; exact Pilots.increaseWidth_wf hL.rates_wf w
  obtain ⟨c3, e3, _, _, _, g3⟩ := storeRates_ok h3 hwf2
  have hp3 : s3.pilots = s2.pilots := by
    have := storeRates_pilots cfg w s2; rw [h3] at this; exact this
  have hrate : ∀ i τ, s3.rates.get i τ =
      if τ = a.core.iter then (currentRates cfg s2).getD i 0 else a.rates.get i τ := by
    intro i τ
    rw [g3, c2, r2, Pilots.increaseWidth_get']
  refine ⟨by simp only [e3]; exact hb2, ?_, ?_, ?_⟩
  · intro i τ
    simp only [hp3, q2, Pilots.increaseWidth_get']
  · intro i
    simp only
    rw [hrate, if_pos rfl, currentRates_getD]
    cases hi : cfg.stations[i]? with
    | none => exact ⟨le_refl _, hp i⟩
    | some st =>
      simp only
      rw [occupantEv_eq, c2]
      cases hx : a.core.occ st.id with
      | none => exact ⟨le_refl _, hp i⟩
      | some x =>
        simp only
        cases he : evIn s2.evs x.id with
        | none => exact ⟨le_refl _, hp i⟩
        | some e' =>
          have := hcl i st x e' hi hx he
          rw [Nat.zero_add, Pilots.increaseWidth_get'] at this
          exact this
  · intro i τ hτ
    simp only
    rw [hrate, if_neg hτ]

end Acn.Ledger
