/-
  Helper lemmas for C15: the capacity ladder of `batt_cap_fn` stops at the FIRST capacity that can
  take the request (minimality for an increasing ladder).
-/
import AcnProofs.Lemmas.SessionsBisect
import AcnProofs.Lemmas.SessionsCharge
namespace Acn.SessionsFit
open Acn Acn.Sessions Real Acn.BattFlow

/-- where the ladder stopped: every capacity tried before was too small for the request or was
    answered by a negative initial charge -/
theorem battCapFn_prefix {K : Type} [Field K] [LinearOrder K] [IsStrictOrderedRing K] [HasExp K]
    {maxRate ts tol E T V P cap init : K} {fuel : Nat} :
    ∀ (caps : List K), battCapFn caps maxRate ts tol fuel E T V P = .ok (cap, init) →
      ∃ pre post, caps = pre ++ cap :: post ∧
        ∀ c ∈ pre, c < E ∨ ∃ i, getInitCap maxRate ts tol fuel E T V P c = .ok i ∧ i < 0 := by
  intro caps
  induction caps with
  | nil => intro h; simp [battCapFn] at h
  | cons c cs ih =>
    intro h
    rw [battCapFn] at h
    split at h
    · rename_i hc
      obtain ⟨pre, post, he, hall⟩ := ih h
      refine ⟨c :: pre, post, by rw [he]; rfl, ?_⟩
      intro c' hc'
      rcases List.mem_cons.mp hc' with h' | h'
      · subst h'; exact Or.inl hc
      · exact hall c' h'
    · split at h
      · exact absurd h (by simp)
      · rename_i i hi
        split at h
        · injection h with h
          injection h with h1 h2
          subst h1
          exact ⟨[], cs, rfl, by simp⟩
        · rename_i hneg
          obtain ⟨pre, post, he, hall⟩ := ih h
          refine ⟨c :: pre, post, by rw [he]; rfl, ?_⟩
          intro c' hc'
          rcases List.mem_cons.mp hc' with h' | h'
          · subst h'; exact Or.inr ⟨i, hi, not_le.mp hneg⟩
          · exact hall c' h'

/-- a negative answer of `_get_init_cap` means: even from empty, the battery of that capacity takes
    less than the request (plus the bisection tolerance) during the stay -/
theorem getInitCap_neg {mr ts tol E T V P cap i : ℝ} {fuel : Nat} (hmr : 0 < mr) (hV : 0 < V)
    (hP : 0 < P) (hc : 0 < cap) (hts0 : 0 < ts) (hts : ts < 1) (hT : 0 < T) (htol : 0 < tol)
    (h : getInitCap mr ts tol fuel E T V P cap = .ok i) (hi : i < 0) :
    flowSoc (fitM mr V P cap) (fitM mr V P cap / (1 - ts)) 0 T - 0 < E / cap + tol := by
  have hm := fitM_pos hmr hV hP hc
  rw [← delta_eq_flow hm hT hts hts0]
  unfold getInitCap at h
  rw [closed_eq] at h
  simp only at h
  split at h
  · rename_i hcl
    injection h with h
    have : 0 ≤ i := by rw [← h]; exact mul_nonneg (le_trans hts0.le hcl) hc.le
    linarith
  · split at h
    · rename_i hinf
      linarith
    · split at h
      · exact absurd h (by simp)
      · rename_i s hs
        injection h with h
        have hs0 : s < 0 := by
          by_contra hns
          have : 0 ≤ s * cap := mul_nonneg (not_lt.mp hns) hc.le
          linarith
        have hle : ts - fitM mr V P cap * T ≤ 1 := by
          have := mul_pos hm hT; linarith
        obtain ⟨-, -, habs⟩ := binsearch_spec _ _ _ _ _ _ _ hle hs
        rw [abs_lt] at habs
        have := (delta_lip (m := fitM mr V P cap) (T := T) hm hts hs0.le).1
        linarith

end Acn.SessionsFit
