/-
  T1c, group StochOps — facts about the association lists that stand for `_EVSEs` (dict) and `waiting_queue`
  (OrderedDict) in the translation of contrib/acnsim/network/stochastic_network.py, and the abstraction from the
  translated object `PyStNet K` to the state of the hand model `Stoch.Net` (AcnModel/Stochastic.lean).
  (The dict lemmas are proved here again, not imported from CodeTieNetOps: a lost NetOps tie must not take this one along.)
-/
import AcnModel.Gen.CodeStochOps
import AcnModel.Stochastic

set_option linter.unusedSectionVars false
set_option linter.unusedSimpArgs false

namespace Acn.CodeTie.St
open Acn Acn.Gen.Code Acn.Stoch

/-- the keys of a dict, in insertion order -/
def keys {β : Type} (d : List (String × β)) : List String := d.map (·.1)

theorem get_set {β : Type} (d : List (String × β)) (k : String) (v : β) (k' : String) :
    dictGet? (dictSet d k v) k' = if k = k' then some v else dictGet? d k' := by
  induction d with
  | nil => by_cases h : k = k' <;> simp [dictSet, dictGet?, h]
  | cons p r ih =>
    obtain ⟨k0, v0⟩ := p
    by_cases h0 : k0 = k
    · subst h0
      by_cases h : k0 = k' <;> simp [dictSet, dictGet?, h]
    · simp only [dictSet, h0, if_false, dictGet?]
      by_cases h1 : k0 = k'
      · subst h1; simp [Ne.symm h0]
      · simp [h1, ih]

theorem get_isSome_iff {β : Type} (d : List (String × β)) (k : String) :
    (dictGet? d k).isSome = true ↔ k ∈ keys d := by
  induction d with
  | nil => simp [dictGet?, keys]
  | cons p r ih =>
    obtain ⟨k0, v0⟩ := p
    by_cases h : k0 = k
    · subst h; simp [dictGet?, keys]
    · have h' : ¬ k = k0 := fun e => h e.symm
      simp only [dictGet?, h, if_false, ih]
      simp [keys, h']

theorem get_none_iff {β : Type} (d : List (String × β)) (k : String) :
    dictGet? d k = none ↔ k ∉ keys d := by
  rw [← get_isSome_iff]
  cases dictGet? d k <;> simp

/-- a known key keeps its place: the keys do not change -/
theorem set_keys {β : Type} (d : List (String × β)) (k : String) (v : β) (h : k ∈ keys d) :
    keys (dictSet d k v) = keys d := by
  induction d with
  | nil => simp [keys] at h
  | cons p r ih =>
    obtain ⟨k0, v0⟩ := p
    by_cases h0 : k0 = k
    · subst h0; simp [dictSet, keys]
    · have hr : k ∈ keys r := by
        simp only [keys, List.map_cons, List.mem_cons] at h
        rcases h with h | h
        · exact absurd h.symm h0
        · exact h
      have := ih hr
      simp only [keys] at this
      simp [dictSet, h0, keys, this]

theorem del_keys {β : Type} (d : List (String × β)) (k : String) : keys (dictDel d k) = (keys d).erase k := by
  induction d with
  | nil => rfl
  | cons p r ih =>
    obtain ⟨k0, v0⟩ := p
    by_cases h0 : k0 = k
    · subst h0; simp [dictDel, keys]
    · have hb : (k0 == k) = false := by simpa using h0
      simp only [keys] at ih
      simp [dictDel, h0, keys, List.erase_cons, hb, ih]

/-- `d[k] = v; d.move_to_end(k)` on the keys: `k` leaves its place (if it had one) and goes to the end -/
theorem set_move_keys {β : Type} (d : List (String × β)) (k : String) (v : β) :
    keys (dictMoveToEnd (dictSet d k v) k) = (keys d).erase k ++ [k] := by
  have hg : dictGet? (dictSet d k v) k = some v := by rw [get_set]; simp
  simp only [dictMoveToEnd, hg]
  have : keys (dictDel (dictSet d k v) k) = (keys d).erase k := by
    induction d with
    | nil => simp [dictSet, dictDel, keys]
    | cons p r ih =>
      obtain ⟨k0, v0⟩ := p
      by_cases h0 : k0 = k
      · subst h0; simp [dictSet, dictDel, keys]
      · have hb : (k0 == k) = false := by simpa using h0
        have hg' : dictGet? (dictSet r k v) k = some v := by rw [get_set]; simp
        have ih' := ih hg'
        simp only [keys] at ih'
        simp [dictSet, dictDel, h0, keys, List.erase_cons, hb, ih']
  simp only [keys, List.map_append] at this ⊢
  rw [this]; rfl

/-- an entry of a dict with distinct keys is what a lookup of its key returns -/
theorem get_of_mem {β : Type} (d : List (String × β)) (hn : (keys d).Nodup) (k : String) (v : β)
    (h : (k, v) ∈ d) : dictGet? d k = some v := by
  induction d with
  | nil => cases h
  | cons p r ih =>
    obtain ⟨k0, v0⟩ := p
    simp only [keys, List.map_cons, List.nodup_cons] at hn
    rcases List.mem_cons.1 h with h | h
    · cases h; simp [dictGet?]
    · have hk : k ∈ r.map (·.1) := List.mem_map.2 ⟨(k, v), h, rfl⟩
      have : ¬ k0 = k := fun e => hn.1 (e ▸ hk)
      simp only [dictGet?, this, if_false]
      exact ih hn.2 h

theorem mem_of_get {β : Type} (d : List (String × β)) (k : String) (v : β) (h : dictGet? d k = some v) :
    (k, v) ∈ d := by
  induction d with
  | nil => cases h
  | cons p r ih =>
    obtain ⟨k0, v0⟩ := p
    by_cases h0 : k0 = k
    · subst h0; simp only [dictGet?, if_true] at h; cases h; exact List.mem_cons_self
    · simp only [dictGet?, h0, if_false] at h
      exact List.mem_cons_of_mem _ (ih h)

theorem mem_del {β : Type} (d : List (String × β)) (k : String) (kv : String × β) (h : kv ∈ dictDel d k) : kv ∈ d := by
  induction d with
  | nil => cases h
  | cons p r ih =>
    obtain ⟨k0, v0⟩ := p
    by_cases h0 : k0 = k
    · simp only [dictDel, h0, if_true] at h; exact List.mem_cons_of_mem _ h
    · simp only [dictDel, h0, if_false] at h
      rcases List.mem_cons.1 h with h | h
      · rw [h]; exact List.mem_cons_self
      · exact List.mem_cons_of_mem _ (ih h)

theorem mem_set {β : Type} (d : List (String × β)) (k : String) (v : β) (kv : String × β)
    (h : kv ∈ dictSet d k v) : kv ∈ d ∨ kv = (k, v) := by
  induction d with
  | nil => simp only [dictSet, List.mem_singleton] at h; exact Or.inr h
  | cons p r ih =>
    obtain ⟨k0, v0⟩ := p
    by_cases h0 : k0 = k
    · simp only [dictSet, h0, if_true] at h
      rcases List.mem_cons.1 h with h | h
      · exact Or.inr h
      · exact Or.inl (List.mem_cons_of_mem _ h)
    · simp only [dictSet, h0, if_false] at h
      rcases List.mem_cons.1 h with h | h
      · rw [h]; exact Or.inl List.mem_cons_self
      · rcases ih h with h | h
        · exact Or.inl (List.mem_cons_of_mem _ h)
        · exact Or.inr h

theorem mem_move {β : Type} (d : List (String × β)) (k : String) (kv : String × β)
    (h : kv ∈ dictMoveToEnd d k) : kv ∈ d := by
  unfold dictMoveToEnd at h
  cases hg : dictGet? d k with
  | none => rw [hg] at h; exact h
  | some v =>
    rw [hg] at h
    rcases List.mem_append.1 h with h | h
    · exact mem_del d k kv h
    · rw [List.mem_singleton.1 h]; exact mem_of_get d k v hg

section
variable {K : Type}

/-! ### abstraction to the hand model -/

/-- `network.station_ids` -/
def stStations (p : PyStNet K) : List String := keys p.evses

/-- which session occupies a station: the session id of `_EVSEs[st].ev` -/
def occE (d : List (String × PyStEvse K)) : String → Option String :=
  fun st => (dictGet? d st).bind (fun e => e.ev.map (·.session))

def stOcc (p : PyStNet K) : String → Option String := occE p.evses

/-- the keys of `waiting_queue`, oldest first -/
def stWaiting (p : PyStNet K) : List String := keys p.waiting

/-- the translated object `p` and the hand model's state `s` agree on every REAL component of the model
    (`stations`, `earlyDeparture`, `occ`, `waiting`, the three counters).  The model's per-session store `s.ev` and
    its ghost fields (`arrivals`, `draws`, the flags) have no counterpart in the network object. -/
structure Abs (p : PyStNet K) (s : Net) : Prop where
  stations : s.stations = stStations p
  early : s.earlyDeparture = p.earlyDeparture
  occ : s.occ = stOcc p
  waiting : s.waiting = stWaiting p
  swaps : s.swaps = p.swaps
  never : s.neverCharged = p.neverCharged
  earlyU : s.earlyUnplug = p.earlyUnplug

/-- representation invariants of the translated object: `_EVSEs` is a dict (distinct keys), and every entry of
    `waiting_queue` is filed under its own session id (`self.waiting_queue[ev.session_id] = ev` is the only insertion) -/
structure PyWf (p : PyStNet K) : Prop where
  keys_nodup : (stStations p).Nodup
  wait_key : ∀ k e, (k, e) ∈ p.waiting → e.session = k

/-- `PyWf` only looks at the two dicts -/
theorem PyWf.of_eq {p q : PyStNet K} (h : PyWf p) (h1 : keys q.evses = keys p.evses)
    (h2 : ∀ kv, kv ∈ q.waiting → kv ∈ p.waiting) : PyWf q :=
  ⟨by show (keys q.evses).Nodup; rw [h1]; exact h.keys_nodup, fun k e hm => h.wait_key k e (h2 _ hm)⟩

/-- the model's error classes as the Python exceptions -/
def pyOfErr : Stoch.Err → PyErr
  | .keyError => .KeyError
  | .stationOccupied => .StationOccupiedError

/-- what a model operation reports, as the translated method reports it -/
def outcome : Except Stoch.Err Net → Except PyErr Unit
  | .ok _ => .ok ()
  | .error e => .error (pyOfErr e)

theorem occE_set (d : List (String × PyStEvse K)) (k : String) (v : PyStEvse K) :
    occE (dictSet d k v) = fun t => if t = k then v.ev.map (·.session) else occE d t := by
  funext t
  simp only [occE, get_set]
  by_cases h : k = t
  · subst h; simp
  · have : ¬ t = k := fun e => h e.symm
    simp [h, this]

theorem mem_stations_iff (p : PyStNet K) (st : String) :
    st ∈ stStations p ↔ (dictGet? p.evses st).isSome = true := (get_isSome_iff _ _).symm

end
end Acn.CodeTie.St
