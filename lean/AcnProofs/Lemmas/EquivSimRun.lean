/-
  Helper lemmas for C10 (Sim level, 3/3): scheduling stage, pilot application, one trip round the
  loop and the whole run under a permutation of the station table.
-/
import AcnProofs.Lemmas.EquivSimStations
import AcnProofs.Lemmas.EventCoreSim

set_option linter.unusedSectionVars false
set_option linter.unusedSimpArgs false

namespace Acn.SimEquiv
open Acn Acn.Sim Acn.EventCore Acn.Evse Acn.Ledger

variable {K : Type} [Field K] [LinearOrder K] [IsStrictOrderedRing K] [HasExp K]

/-- two views of the same situation, the per-station arrays read in the order `σ`.  The list of
    last applied pilots is NOT related: the relation is for schedulers that do not read it
    (scripted, uncontrolled, sorted without the rampdown estimator). -/
structure ViewRel (σ : List Nat) (v v' : View K) : Prop where
  iter : v'.iter = v.iter
  active : v'.active.Perm v.active
  peak : v'.peak = v.peak
  evsePilot : v'.evsePilot = reidx σ v.evsePilot 0
  connected : v'.connected = reidx σ v.connected none

/-- a pair of scheduler parameters (one per registration order) that answer related views with the
    same schedule dict / the same error -/
def SchedEquivariant (σ : List Nat) (sched sched' : View K → Except EventCore.Err (Schedule K)) : Prop :=
  ∀ v v', ViewRel σ v v' → sched' v' = sched v

section
variable {σ : List Nat} {d : Station K} {cfg : Cfg K}

theorem activeEvs_perm (h : PermOK σ cfg) {s s' : State K} (he : StEquiv σ s s') :
    (activeEvs (permCfg σ d cfg) s').Perm (activeEvs cfg s) := by
  have e : activeEvs (permCfg σ d cfg) s' = (permCfg σ d cfg).stations.filterMap (fun st =>
      match occupantEv s st.id with
      | some e => if isActive cfg e then some e else none
      | none => none) := by
    unfold activeEvs
    apply List.filterMap_congr
    intro st _
    rw [occupantEv_equiv he]
    rfl
  rw [e]
  unfold activeEvs
  exact (permCfg_stations_perm (d := d) h).filterMap _

theorem view_rel (h : PermOK σ cfg) {s s' : State K} (he : StEquiv σ s s') :
    ViewRel σ (view cfg s) (view (permCfg σ d cfg) s') := by
  refine ⟨?_, activeEvs_perm h he, he.peak, he.evsePilot, ?_⟩
  · simp only [view, he.core]
  · simp only [view, he.core]
    exact (reidx_map _ σ cfg.stations d none (perm_lt h.perm)).symm

theorem updateSchedules_rows {stations : List String} {m m' : Pilots.Mat K} {t : Nat} {l : Option Nat}
    {sch : Pilots.Sched K} (hm : m.rows.length = stations.length)
    (h : Pilots.updateSchedules stations m t l sch = .ok m') : m'.rows.length = stations.length := by
  cases sch with
  | nil => simp only [Pilots.updateSchedules, Except.ok.injEq] at h; subst h; exact hm
  | cons p rest =>
    obtain ⟨s0, r0⟩ := p
    simp only [Pilots.updateSchedules] at h
    split at h
    · simp at h
    · split at h
      · simp at h
      · simp only [Except.ok.injEq] at h
        subst h
        simp only [Pilots.writeBlock, List.length_zipWith, Pilots.densify, List.length_map]
        split
        · simp [hm]
        · rw [Pilots.increaseWidth_rows_length]; simp [hm]

theorem schedStage_equiv (h : PermOK σ cfg) {sched sched' : View K → Except EventCore.Err (Schedule K)}
    (hsch : SchedEquivariant σ sched sched') {s s' : State K} (he : StEquiv σ s s')
    (hs : Shape cfg.stations.length s) :
    schedStage (permCfg σ d cfg) sched' s' = (schedStage cfg sched s).map (Pilots.Mat.reidx σ) := by
  unfold schedStage
  rw [any_perm (activeEvs_perm (d := d) h he), hsch _ _ (view_rel (d := d) h he), permCfg_ids h, he.pilots, he.core]
  by_cases ha : (activeEvs cfg s).any (fun e => !sessionInfoOk e) = true
  · simp [ha, Except.map]
  · simp only [ha, Bool.false_eq_true, if_false]
    cases sched (view cfg s) with
    | error e => rfl
    | ok sch =>
      simp only
      have hσ' : σ.Perm (List.range (cfg.stations.map (·.id)).length) := by simpa using h.perm
      rw [Pilots.updateSchedules_reidx σ _ hσ' s.pilots (by simpa using hs.pilots)]
      cases Pilots.updateSchedules (cfg.stations.map (·.id)) s.pilots s.core.iter
          ((lastTs s.core.pending).map Int.toNat) sch with
      | error e => rfl
      | ok m => rfl

theorem schedStage_rows {sched : View K → Except EventCore.Err (Schedule K)} {s : State K} {m : Pilots.Mat K}
    (hs : Shape cfg.stations.length s) (h : schedStage cfg sched s = .ok m) : m.rows.length = cfg.stations.length := by
  unfold schedStage at h
  split at h
  · simp at h
  · split at h
    · simp at h
    · split at h
      · simp at h
      · rename_i m' hu
        simp only [Except.ok.injEq] at h
        subst h
        have := updateSchedules_rows (by simpa using hs.pilots) hu
        simpa using this

theorem applyStage_equiv (h : PermOK σ cfg) {s s' r : State K} (he : StEquiv σ s s')
    (hs : Shape cfg.stations.length s) (ho : OccSound cfg.core s.core.occ)
    (hr : applyStage cfg s = (r, none)) :
    ∃ r', applyStage (permCfg σ d cfg) s' = (r', none) ∧ StEquiv σ r r' ∧ Shape cfg.stations.length r ∧
      r.core.occ = s.core.occ := by
  have hlt := perm_lt h.perm
  have hwi : widthInc s' = widthInc s := by simp only [widthInc, he.core]
  have he1 : StEquiv σ (widen s) (widen s') := by
    refine ⟨he.core, ?_, ?_, he.peak, he.evs, he.evsePilot, he.noiseIdx, he.occLog⟩
    · simp only [widen, hwi, he.pilots]
      exact Pilots.increaseWidth_reidx σ s.pilots _ (fun i hi => hs.pilots ▸ hlt i hi)
    · simp only [widen, hwi, he.rates]
      exact Pilots.increaseWidth_reidx σ s.rates _ (fun i hi => hs.rates ▸ hlt i hi)
  have hs1 : Shape cfg.stations.length (widen s) :=
    ⟨by simp only [widen, Pilots.increaseWidth_rows_length]; exact hs.pilots,
     by simp only [widen, Pilots.increaseWidth_rows_length]; exact hs.rates, hs.evsePilot⟩
  have hw : (widen s').pilots.width = (widen s).pilots.width := by rw [he1.pilots]; rfl
  unfold applyStage at hr ⊢
  rw [hw, he.core, hwi]
  by_cases hwc : (widen s).pilots.width ≤ s.core.iter
  · simp [hwc] at hr
  · simp only [hwc, if_false] at hr ⊢
    obtain ⟨s2, e2, hup⟩ : ∃ s2 e2, updatePilots cfg (widen s) = (s2, e2) := ⟨_, _, rfl⟩
    rw [hup] at hr
    cases e2 with
    | some e => simp at hr
    | none =>
      simp only at hr
      obtain ⟨s2', hup', he2, hs2⟩ := updatePilots_equiv (d := d) h he1 hs1 ho hup
      have hc2 : s2.core = s.core := by
        have := Sim.updatePilotsFrom_core cfg cfg.stations 0 (widen s)
        unfold updatePilots at hup
        rw [hup] at this
        exact this
      rw [hup']
      simp only
      obtain ⟨h1, he3, hs3⟩ := storeRates_equiv (d := d) h (widthInc s) he2 hs2
      obtain ⟨s3, e3, hst⟩ : ∃ s3 e3, storeRates cfg (widthInc s) s2 = (s3, e3) := ⟨_, _, rfl⟩
      obtain ⟨s3', e3', hst'⟩ : ∃ s3' e3', storeRates (permCfg σ d cfg) (widthInc s) s2' = (s3', e3') := ⟨_, _, rfl⟩
      rw [hst] at hr h1 he3 hs3
      rw [hst'] at h1 he3 ⊢
      simp only at h1 he3 hs3
      subst h1
      cases e3' with
      | some e => simp at hr
      | none =>
        simp only [Prod.mk.injEq, and_true] at hr
        subst hr
        have hc3 : s3.core = s2.core := by
          have := Sim.storeRates_core cfg (widthInc s) s2
          rw [hst] at this
          exact this
        refine ⟨_, rfl, ⟨?_, he3.pilots, he3.rates, he3.peak, he3.evs, he3.evsePilot, he3.noiseIdx, ?_⟩,
          ⟨hs3.pilots, hs3.rates, hs3.evsePilot⟩, ?_⟩
        · simp only [he3.core]
        · simp only [he3.occLog, he3.core, List.map_append, List.map_cons, List.map_nil]
          congr 2
          exact (reidx_map _ σ cfg.stations d none hlt).symm
        · simp only [advance, hc3, hc2]

/-- one trip round the loop -/
theorem body_equiv_st (h : PermOK σ cfg) {sched sched' : View K → Except EventCore.Err (Schedule K)}
    (hsch : SchedEquivariant σ sched sched') {s s' r : State K} (he : StEquiv σ s s')
    (hs : Shape cfg.stations.length s) (ho : OccSound cfg.core s.core.occ)
    (hr : Sim.body cfg sched s = (r, none)) :
    ∃ r', Sim.body (permCfg σ d cfg) sched' s' = (r', none) ∧ StEquiv σ r r' ∧ Shape cfg.stations.length r ∧
      OccSound cfg.core r.core.occ := by
  obtain ⟨h1, he1, hs1⟩ := eventsStage_equiv_st (d := d) h he hs
  have ho1 := (eventsStage_frame cfg s ho).2.2.2.2.2
  unfold Sim.body at hr ⊢
  have hmr : (permCfg σ d cfg).maxRecompute = cfg.maxRecompute := rfl
  cases hev : Sim.eventsStage cfg s with
  | mk s1 e1 =>
    cases hev' : Sim.eventsStage (permCfg σ d cfg) s' with
    | mk s1' e1' =>
      rw [hev] at hr h1 he1 hs1 ho1
      rw [hev'] at h1 he1
      simp only at h1 he1 hs1 ho1
      subst h1
      cases e1' with
      | some e => simp at hr
      | none =>
        simp only [hmr, he1.core] at hr ⊢
        by_cases hn : needsSched cfg.maxRecompute s1.core = true
        · simp only [hn, if_true] at hr ⊢
          have he2 : StEquiv σ { s1 with core := markInvoked s1.core } { s1' with core := markInvoked s1.core } :=
            ⟨rfl, he1.pilots, he1.rates, he1.peak, he1.evs, he1.evsePilot, he1.noiseIdx, he1.occLog⟩
          have hs2 : Shape cfg.stations.length { s1 with core := markInvoked s1.core } :=
            ⟨hs1.pilots, hs1.rates, hs1.evsePilot⟩
          rw [schedStage_equiv (d := d) h hsch he2 hs2]
          cases hss : schedStage cfg sched { s1 with core := markInvoked s1.core } with
          | error e => rw [hss] at hr; simp at hr
          | ok m =>
            rw [hss] at hr
            simp only [Except.map] at hr ⊢
            have hm := schedStage_rows hs2 hss
            have he3 : StEquiv σ { s1 with core := markScheduled (markInvoked s1.core), pilots := m }
                { s1' with core := markScheduled (markInvoked s1.core), pilots := m.reidx σ } :=
              ⟨rfl, rfl, he1.rates, he1.peak, he1.evs, he1.evsePilot, he1.noiseIdx, he1.occLog⟩
            have hs3 : Shape cfg.stations.length { s1 with core := markScheduled (markInvoked s1.core), pilots := m } :=
              ⟨hm, hs1.rates, hs1.evsePilot⟩
            obtain ⟨r', hr', her, hsr, hocc⟩ := applyStage_equiv (d := d) h he3 hs3 ho1 hr
            exact ⟨r', hr', her, hsr, by rw [hocc]; exact ho1⟩
        · simp only [hn, Bool.false_eq_true, if_false] at hr ⊢
          have he2 : StEquiv σ s1 { s1' with core := s1.core } :=
            ⟨rfl, he1.pilots, he1.rates, he1.peak, he1.evs, he1.evsePilot, he1.noiseIdx, he1.occLog⟩
          obtain ⟨r', hr', her, hsr, hocc⟩ := applyStage_equiv (d := d) h he2 hs1 ho1 hr
          have hs' : ({ s1' with core := s1.core } : State K) = s1' := by rw [← he1.core]
          rw [hs'] at hr'
          exact ⟨r', hr', her, hsr, by rw [hocc]; exact ho1⟩

/-- the whole run, from any pair of related states -/
theorem run_equiv_st (h : PermOK σ cfg) {sched sched' : View K → Except EventCore.Err (Schedule K)}
    (hsch : SchedEquivariant σ sched sched') : ∀ (n : Nat) {s s' r : State K}, StEquiv σ s s' →
    Shape cfg.stations.length s → OccSound cfg.core s.core.occ → Sim.run cfg sched n s = (r, none) →
    ∃ r', Sim.run (permCfg σ d cfg) sched' n s' = (r', none) ∧ StEquiv σ r r' := by
  intro n
  induction n with
  | zero =>
    intro s s' r he _ _ hr
    simp only [Sim.run, Prod.mk.injEq, and_true] at hr
    subst hr
    exact ⟨s', rfl, he⟩
  | succ n ih =>
    intro s s' r he hs ho hr
    simp only [Sim.run] at hr ⊢
    rw [he.core]
    by_cases hg : guard s.core = true
    · simp only [hg, if_true] at hr ⊢
      cases hb : Sim.body cfg sched s with
      | mk s1 e1 =>
        rw [hb] at hr
        cases e1 with
        | some e => simp at hr
        | none =>
          simp only at hr
          obtain ⟨s1', hb', he1, hs1, ho1⟩ := body_equiv_st (d := d) h hsch he hs ho hb
          rw [hb']
          exact ih he1 hs1 ho1 hr
    · simp only [hg, Bool.false_eq_true, if_false, Prod.mk.injEq, and_true] at hr ⊢
      subst hr
      exact ⟨s', rfl, he⟩

theorem reidx_replicate {α : Type} (σ : List Nat) (n : Nat) (a d : α) (h : ∀ i ∈ σ, i < n) :
    reidx σ (List.replicate n a) d = List.replicate σ.length a := by
  unfold reidx
  rw [List.eq_replicate_iff]
  refine ⟨by simp, ?_⟩
  intro b hb
  obtain ⟨i, hi, rfl⟩ := List.mem_map.1 hb
  simp [List.getD_eq_getElem?_getD, h i hi]

theorem init_equiv (h : PermOK σ cfg) : StEquiv σ (Sim.init cfg) (Sim.init (permCfg σ d cfg)) ∧
    Shape cfg.stations.length (Sim.init cfg) ∧ OccSound cfg.core (Sim.init cfg).core.occ := by
  have hn := perm_length h.perm
  have hlt := perm_lt h.perm
  have hlen : (permCfg σ d cfg).stations.length = cfg.stations.length := by simp [permCfg, reidx, hn]
  have hcore : EventCore.init (permCfg σ d cfg).core = EventCore.init cfg.core := rfl
  refine ⟨⟨?_, ?_, ?_, rfl, rfl, ?_, rfl, rfl⟩, ⟨?_, ?_, ?_⟩, ?_⟩
  · simp only [Sim.init, hcore]
  · simp only [Sim.init, hcore, hlen, Pilots.Mat.zeros, Pilots.Mat.reidx]
    rw [reidx_replicate σ _ _ _ hlt, hn]
  · simp only [Sim.init, hcore, hlen, Pilots.Mat.zeros, Pilots.Mat.reidx]
    rw [reidx_replicate σ _ _ _ hlt, hn]
  · simp only [Sim.init, hlen]
    rw [reidx_replicate σ _ _ _ hlt, hn]
  · simp [Sim.init, Pilots.Mat.zeros]
  · simp [Sim.init, Pilots.Mat.zeros]
  · simp [Sim.init]
  · intro st x hx
    simp [Sim.init, EventCore.init] at hx

/-! ### schedulers that satisfy `SchedEquivariant` -/

theorem scripted_equivariant (σ : List Nat) (script : List (Nat × Option (Schedule K))) (dflt : Schedule K) :
    SchedEquivariant σ (scripted script dflt) (scripted script dflt) := by
  intro v v' hv
  simp only [scripted, hv.iter]

theorem emptySched_equivariant (σ : List Nat) : SchedEquivariant σ (emptySched (K := K)) emptySched :=
  fun _ _ _ => rfl

end
end Acn.SimEquiv
