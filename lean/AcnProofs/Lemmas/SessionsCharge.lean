/-
  Helper lemmas for C15: charging the fitted two-stage battery at the fit's full rate for `n`
  periods is the two-stage flow over time `n` (uses the semigroup law of `Lemmas/BatteryCont`).
-/
import AcnModel.Sessions
import AcnProofs.Lemmas.SessionsFit

set_option linter.unusedSectionVars false

namespace Acn.SessionsFit
open Acn Acn.Sessions Acn.Battery Acn.BattFlow

/-- the battery the fit is about: `Linear2StageBattery(cap, ·, mp, transition_soc = ts)`,
    no noise, continuous calculation -/
structure FitBatt (cap mp ts : ℝ) (b : Batt ℝ) : Prop where
  hcap : b.capacity = cap
  hmp : b.maxPower = mp
  htwo : b.twoStage = true
  hts : b.ts = ts
  hnoise : b.noiseLevel = 0
  hmode : b.cmode = .continuous

variable {cap mr V P ts : ℝ}

theorem charge_step {b : Batt ℝ} (hb : FitBatt cap (mr * V / 1000) ts b) (hmr : 0 < mr)
    (hV : 0 < V) (hP : 0 < P) (hc : 0 < cap) (hts : ts < 1) (hle : b.charge ≤ cap) :
    ∃ b' r, Battery.charge b mr V P 0 = .ok (b', r) ∧ FitBatt cap (mr * V / 1000) ts b' ∧
      b'.init = b.init ∧ b'.charge ≤ cap ∧
      b'.charge / cap = flowSoc (fitM mr V P cap) (fitM mr V P cap / (1 - ts)) (b.charge / cap) 1 := by
  have hm := fitM_pos hmr hV hP hc
  have hκ : 0 < fitM mr V P cap / (1 - ts) := div_pos hm (by linarith)
  have hs1 : b.charge / cap ≤ 1 := (div_le_one hc).2 hle
  have hfb := flowSoc_bounds (p := fitM mr V P cap) (κ := fitM mr V P cap / (1 - ts))
    (s := b.charge / cap) (t := 1) hm hκ hs1 (by norm_num)
  obtain ⟨hcap, hmp, htwo, hts', hnoise, hmode⟩ := hb
  have hz : ∀ x : ℝ, x ≠ 0 → Battery.isZero x = false := by
    intro x hx
    simp only [Battery.isZero, Bool.and_eq_false_iff, decide_eq_false_iff_not, not_le]
    rcases lt_or_gt_of_ne hx with h | h
    · exact Or.inl h
    · exact Or.inr h
  unfold Battery.charge
  rw [htwo, hmode]
  simp only [if_true]
  unfold contCharge
  rw [if_neg (not_le.mpr hV), if_neg (not_le.mpr hP), hz mr hmr.ne', hcap, hz cap hc.ne']
  simp only [Bool.false_eq_true, if_false, soc, hcap]
  rcases lt_or_eq_of_le hs1 with hlt | heq
  · -- below full: the closed form
    rw [if_neg (not_le.mpr hlt), hmp]
    have e1 : mr * V / ((1000 : Nat) : ℝ) / cap / (((60 : Nat) : ℝ) / P) = fitM mr V P cap := by
      simp [fitM]
    have e2 : mr * V / 1000 / cap / (((60 : Nat) : ℝ) / P) = fitM mr V P cap := by
      simp [fitM]
    simp only [e1, e2, hz _ hm.ne', hnoise, lt_irrefl, Bool.false_eq_true, if_false]
    have hval : contSoc (b.charge / cap) b.ts (fitM mr V P cap) (fitM mr V P cap) =
        flowSoc (fitM mr V P cap) (fitM mr V P cap / (1 - ts)) (b.charge / cap) 1 := by
      rw [hts', contSoc_eq_flow hm hm hts, min_self]
    refine ⟨_, _, rfl, ⟨rfl, rfl, htwo, hts', rfl, hmode⟩, rfl, ?_, ?_⟩
    · show contSoc (b.charge / cap) b.ts (fitM mr V P cap) (fitM mr V P cap) * cap ≤ cap
      rw [hval]; nlinarith [hfb.2.2]
    · show contSoc (b.charge / cap) b.ts (fitM mr V P cap) (fitM mr V P cap) * cap / cap = _
      rw [hval]; field_simp
  · -- full battery (fix F18): nothing is charged, and the flow from SoC 1 stays at 1
    rw [if_pos heq.ge]
    refine ⟨_, _, rfl, ⟨rfl, hmp, htwo, hts', hnoise, hmode⟩, rfl, hle, ?_⟩
    show b.charge / cap = _
    have : flowSoc (fitM mr V P cap) (fitM mr V P cap / (1 - ts)) (b.charge / cap) 1 = 1 := by
      rw [heq] at hfb ⊢; linarith [hfb.1, hfb.2.2]
    rw [this, heq]

/-- `n` periods at the fit's full rate: the flow over time `n` -/
theorem chargeN_flow (hmr : 0 < mr) (hV : 0 < V) (hP : 0 < P) (hc : 0 < cap) (hts : ts < 1) :
    ∀ (n : Nat) (b : Batt ℝ), FitBatt cap (mr * V / 1000) ts b → b.charge ≤ cap →
      ∃ b', chargeN b mr V P n = .ok b' ∧ FitBatt cap (mr * V / 1000) ts b' ∧ b'.init = b.init ∧
        b'.charge / cap =
          flowSoc (fitM mr V P cap) (fitM mr V P cap / (1 - ts)) (b.charge / cap) (n : ℝ) := by
  have hm := fitM_pos hmr hV hP hc
  have hκ : 0 < fitM mr V P cap / (1 - ts) := div_pos hm (by linarith)
  intro n
  induction n with
  | zero =>
    intro b hb _
    refine ⟨b, rfl, hb, rfl, ?_⟩
    rw [Nat.cast_zero, flowSoc_zero hm hκ]
  | succ n ih =>
    intro b hb hle
    obtain ⟨b1, r, h1, hb1, hi1, hle1, hs1⟩ := charge_step hb hmr hV hP hc hts hle
    obtain ⟨b2, h2, hb2, hi2, hs2⟩ := ih b1 hb1 hle1
    refine ⟨b2, ?_, hb2, by rw [hi2, hi1], ?_⟩
    · rw [chargeN, h1]; exact h2
    · rw [hs2, hs1, flowSoc_semigroup hm hκ (by norm_num) (Nat.cast_nonneg n)]
      congr 1
      push_cast; ring

/-! ### the fit's answer, both branches -/

/-- domain of `batt_cap_fn` (positive ladder, the constants' ranges, a non-negative request, a
    positive stay, voltage and period) -/
structure FitDomain (caps : List ℝ) (mr ts tol E T V P : ℝ) : Prop where
  caps_pos : ∀ c ∈ caps, 0 < c
  mr_pos : 0 < mr
  ts_nonneg : 0 ≤ ts
  ts_lt : ts < 1
  tol_pos : 0 < tol
  E_nonneg : 0 ≤ E
  T_pos : 0 < T
  V_pos : 0 < V
  P_pos : 0 < P

/-- Everything C15 needs about an answer `(cap, init)` of the ladder: `init = s·cap` with `s ≤ 1`,
    the battery model takes the request within `tol` (SoC) when charged from `s` for `T` periods,
    exactly in the closed-form branch, and the free SoC covers the request (within `tol`). -/
theorem fit_main {caps : List ℝ} {mr ts tol E T V P cap init : ℝ} {fuel : Nat}
    (hd : FitDomain caps mr ts tol E T V P)
    (h : battCapFn caps mr ts tol fuel E T V P = .ok (cap, init)) :
    cap ∈ caps ∧ 0 < cap ∧ E ≤ cap ∧ 0 ≤ init ∧ ∃ s, init = s * cap ∧ s ≤ 1 ∧
      |flowSoc (fitM mr V P cap) (fitM mr V P cap / (1 - ts)) s T - s - E / cap| < tol ∧
      E / cap - tol < 1 - s ∧
      (ts ≤ (closedInitSoc mr ts E T V P cap).2.2 →
        flowSoc (fitM mr V P cap) (fitM mr V P cap / (1 - ts)) s T - s = E / cap ∧ E / cap ≤ 1 - s) := by
  obtain ⟨hmem, hle, hget, h0⟩ := battCapFn_spec caps h
  have hc : 0 < cap := hd.caps_pos cap hmem
  have hm := fitM_pos hd.mr_pos hd.V_pos hd.P_pos hc
  have hδ : 0 ≤ E / cap := div_nonneg hd.E_nonneg hc.le
  have hmT : 0 ≤ (closedInitSoc mr ts E T V P cap).2.1 * T := by
    rw [closed_eq]; exact (mul_pos hm hd.T_pos).le
  have hspec := getInitCap_spec hmT hd.ts_lt.le hget h0
  refine ⟨hmem, hc, hle, h0, ?_⟩
  rw [closed_eq]
  simp only
  cases hspec with
  | closed hcl hi =>
    rw [closed_eq] at hcl hi
    simp only at hcl hi
    refine ⟨_, hi, closed_le_one hm hd.T_pos hd.ts_lt hδ, ?_, ?_, ?_⟩
    · rw [closed_flow hm hd.T_pos hd.ts_lt hδ hcl]; simpa using hd.tol_pos
    · have := closed_free (m := fitM mr V P cap) (T := T) (ts := ts) hm hd.T_pos hd.ts_lt hδ
      linarith [hd.tol_pos]
    · intro _
      exact ⟨closed_flow hm hd.T_pos hd.ts_lt hδ hcl, closed_free hm hd.T_pos hd.ts_lt hδ⟩
  | bisect s hncl hfeas hs1 _hlb htol hi =>
    rw [closed_eq] at hncl htol
    simp only at hncl htol
    obtain ⟨hg1, hg2⟩ := delta_le_free (m := fitM mr V P cap) (T := T) (ts := ts) (s := s) hm hd.T_pos hd.ts_lt hs1
    rw [abs_lt] at htol
    refine ⟨s, hi, hs1, ?_, by linarith, fun hcl => absurd hcl hncl⟩
    rw [abs_lt]
    refine ⟨by linarith, ?_⟩
    rcases lt_or_ge s ts with hlt | hge
    · rw [← delta_eq_flow hm hd.T_pos hd.ts_lt hlt]; linarith
    · have := flow_lt_target (δ := E / cap) hm hd.T_pos hd.ts_lt hncl hge hs1
      linarith [hd.tol_pos]

/-- value of a regenerated rational constant at ℝ -/
theorem ratK_cast (q : ℚ) : (ratK q : ℝ) = (q : ℝ) := by
  unfold ratK
  rw [Rat.cast_def, Nat.cast_natAbs]
  split
  · rename_i hneg
    rw [abs_of_neg hneg]; push_cast; ring
  · rename_i hnn
    rw [abs_of_nonneg (not_lt.mp hnn)]

end Acn.SessionsFit
