/-
  Helper lemmas for C15: charging the fitted two-stage battery at the fit's full rate for `n`
  periods is the two-stage flow over time `n` (uses the semigroup law of `Lemmas/BatteryCont`).
-/
import AcnModel.Sessions
import AcnProofs.Lemmas.SessionsFit

set_option linter.unusedSectionVars false

namespace Acn.SessionsFit
open Acn Acn.Sessions Acn.Battery Acn.BattFlow

/-- the battery the fit is about: `Linear2StageBattery(cap, ·, mp, transition_soc = ts)`,
    no noise, continuous calculation -/
structure FitBatt (cap mp ts : ℝ) (b : Batt ℝ) : Prop where
  hcap : b.capacity = cap
  hmp : b.maxPower = mp
  htwo : b.twoStage = true
  hts : b.ts = ts
  hnoise : b.noiseLevel = 0
  hmode : b.cmode = .continuous

variable {cap mr V P ts : ℝ}

theorem charge_step {b : Batt ℝ} (hb : FitBatt cap (mr * V / 1000) ts b) (hmr : 0 < mr)
    (hV : 0 < V) (hP : 0 < P) (hc : 0 < cap) (hts : ts < 1) :
    ∃ b' r, Battery.charge b mr V P 0 = .ok (b', r) ∧ FitBatt cap (mr * V / 1000) ts b' ∧
      b'.init = b.init ∧
      b'.charge / cap = flowSoc (fitM mr V P cap) (fitM mr V P cap / (1 - ts)) (b.charge / cap) 1 := by
  have hm := fitM_pos hmr hV hP hc
  obtain ⟨hcap, hmp, htwo, hts', hnoise, hmode⟩ := hb
  unfold Battery.charge
  rw [htwo, hmode]
  simp only [if_true]
  unfold contCharge
  rw [if_neg (not_le.mpr hV), if_neg (not_le.mpr hP)]
  rw [if_neg (by intro h; exact h.2 hmr)]
  simp only [hnoise, lt_irrefl, if_false]
  refine ⟨_, _, rfl, ⟨hcap, hmp, htwo, hts', hnoise, hmode⟩, rfl, ?_⟩
  simp only [soc, hcap, hmp, hts', Nat.cast_ofNat]
  have e1 : mr * V / 1000 / cap / (60 / P) = fitM mr V P cap := rfl
  rw [e1, contSoc_eq_flow hm hm hts, min_self]
  field_simp

/-- `n` periods at the fit's full rate: the flow over time `n` -/
theorem chargeN_flow (hmr : 0 < mr) (hV : 0 < V) (hP : 0 < P) (hc : 0 < cap) (hts : ts < 1) :
    ∀ (n : Nat) (b : Batt ℝ), FitBatt cap (mr * V / 1000) ts b →
      ∃ b', chargeN b mr V P n = .ok b' ∧ FitBatt cap (mr * V / 1000) ts b' ∧ b'.init = b.init ∧
        b'.charge / cap =
          flowSoc (fitM mr V P cap) (fitM mr V P cap / (1 - ts)) (b.charge / cap) (n : ℝ) := by
  have hm := fitM_pos hmr hV hP hc
  have hκ : 0 < fitM mr V P cap / (1 - ts) := div_pos hm (by linarith)
  intro n
  induction n with
  | zero =>
    intro b hb
    refine ⟨b, rfl, hb, rfl, ?_⟩
    rw [Nat.cast_zero, flowSoc_zero hm hκ]
  | succ n ih =>
    intro b hb
    obtain ⟨b1, r, h1, hb1, hi1, hs1⟩ := charge_step hb hmr hV hP hc hts
    obtain ⟨b2, h2, hb2, hi2, hs2⟩ := ih b1 hb1
    refine ⟨b2, ?_, hb2, by rw [hi2, hi1], ?_⟩
    · rw [chargeN, h1]; exact h2
    · rw [hs2, hs1, flowSoc_semigroup hm hκ (by norm_num) (Nat.cast_nonneg n)]
      congr 1
      push_cast; ring

end Acn.SessionsFit
