/-
  Helper lemmas for C04, part 2: schedules (validation, densify), the step lemma of
  `_update_schedules`, and the overlay induction.
-/
import AcnProofs.Lemmas.Pilots

set_option linter.unusedSimpArgs false
set_option linter.unusedSectionVars false

namespace Acn.Pilots
variable {K : Type} [OfNat K 0]

/-! ### association lists -/

theorem lookup_mem {sched : Sched K} {st : String} {row : List K}
    (h : sched.lookup st = some row) : (st, row) ∈ sched := by
  induction sched with
  | nil => simp at h
  | cons p rest ih =>
    obtain ⟨k, b⟩ := p
    rw [List.lookup_cons] at h
    by_cases hk : st = k
    · subst hk; simp at h; subst h; simp
    · have : (st == k) = false := by simpa using hk
      rw [this] at h
      exact List.mem_cons_of_mem _ (ih h)

theorem lookup_none_of_not_key {sched : Sched K} {st : String}
    (h : ∀ p ∈ sched, p.1 ≠ st) : sched.lookup st = none := by
  cases hl : sched.lookup st with
  | none => rfl
  | some row => exact absurd rfl (h _ (lookup_mem hl))

theorem lookup_of_mem_nodup {sched : Sched K} (hn : (sched.map Prod.fst).Nodup) {st : String}
    {row : List K} (h : (st, row) ∈ sched) : sched.lookup st = some row := by
  induction sched with
  | nil => simp at h
  | cons p rest ih =>
    obtain ⟨k, b⟩ := p
    simp only [List.map_cons, List.nodup_cons] at hn
    rw [List.lookup_cons]
    rcases List.mem_cons.1 h with h | h
    · cases h; simp
    · have hk : k ≠ st := by
        rintro rfl
        exact hn.1 (List.mem_map.2 ⟨(k, row), h, rfl⟩)
      have : (st == k) = false := by simpa using fun e => hk e.symm
      rw [this]
      exact ih hn.2 h

/-! ### validation -/

theorem ragged_false_iff (sched : Sched K) :
    ragged sched = false ↔ ∀ p ∈ sched, p.2.length = schedLen sched := by
  cases sched with
  | nil => simp [ragged]
  | cons p rest =>
    obtain ⟨k, r⟩ := p
    simp only [ragged, schedLen, List.any_eq_false, List.mem_cons, forall_eq_or_imp, true_and]
    constructor
    · intro h q hq; simpa using h q hq
    · intro h q hq; simpa using h q hq

theorem unknownStation_false_iff (stations : List String) (sched : Sched K) :
    unknownStation stations sched = false ↔ ∀ p ∈ sched, p.1 ∈ stations := by
  simp [unknownStation, List.any_eq_false]

theorem accepted_iff (stations : List String) (sched : Sched K) :
    accepted stations sched = true ↔
      sched ≠ [] ∧ (∀ p ∈ sched, p.1 ∈ stations) ∧ ∀ p ∈ sched, p.2.length = schedLen sched := by
  rw [← ragged_false_iff, ← unknownStation_false_iff]
  cases sched <;> simp [accepted]

/-- `_update_schedules` on a non-empty dict, with the row length named -/
theorem updateSchedules_cons (stations : List String) (m : Mat K) (t : Nat) (lastTs : Option Nat)
    (sched : Sched K) (hne : sched ≠ []) :
    updateSchedules stations m t lastTs sched =
      if unknownStation stations sched then .error .keyError
      else if ragged sched then .error .invalidSchedule
      else .ok (writeBlock
        (if t + schedLen sched ≤ m.width then m
         else increaseWidth m (growTarget t lastTs (schedLen sched)))
        t (densify stations sched (schedLen sched))) := by
  cases sched with
  | nil => exact absurd rfl hne
  | cons p rest => rfl

theorem updateSchedules_accepted (stations : List String) (m : Mat K) (t : Nat) (lastTs : Option Nat)
    (sched : Sched K) (h : accepted stations sched = true) :
    updateSchedules stations m t lastTs sched =
      .ok (writeBlock
        (if t + schedLen sched ≤ m.width then m
         else increaseWidth m (growTarget t lastTs (schedLen sched)))
        t (densify stations sched (schedLen sched))) := by
  have hne : sched ≠ [] := ((accepted_iff _ _).1 h).1
  rw [updateSchedules_cons _ _ _ _ _ hne]
  have h1 : unknownStation stations sched = false :=
    (unknownStation_false_iff _ _).2 ((accepted_iff _ _).1 h).2.1
  have h2 : ragged sched = false := (ragged_false_iff _).2 ((accepted_iff _ _).1 h).2.2
  simp [h1, h2]

/-- a schedule that is not accepted leaves the matrix as it is (no-op or exception) -/
theorem submit_not_accepted (stations : List String) (m : Mat K) (s : Submission K)
    (h : accepted stations s.sched = false) : submit stations m s = m := by
  unfold submit
  by_cases hne : s.sched = []
  · rw [hne]; rfl
  · rw [updateSchedules_cons _ _ _ _ _ hne]
    by_cases h1 : unknownStation stations s.sched = true
    · simp [h1]
    · by_cases h2 : ragged s.sched = true
      · simp [h1, h2]
      · exfalso
        have : accepted stations s.sched = true := by
          cases hs : s.sched with
          | nil => exact absurd hs hne
          | cons p rest => rw [hs] at h1 h2; simp [accepted, h1, h2]
        rw [this] at h; cases h

/-! ### densify -/

theorem le_growTarget (t : Nat) (lastTs : Option Nat) (len : Nat) :
    t + len ≤ growTarget t lastTs len := Nat.le_max_right _ _

theorem densify_length (stations : List String) (sched : Sched K) (len : Nat) :
    (densify stations sched len).length = stations.length := by
  simp [densify]

theorem densify_rows_len (stations : List String) (sched : Sched K)
    (h : ragged sched = false) :
    ∀ b ∈ densify stations sched (schedLen sched), b.length = schedLen sched := by
  intro b hb
  simp only [densify, List.mem_map] at hb
  obtain ⟨st, -, rfl⟩ := hb
  cases hl : sched.lookup st with
  | none => simp
  | some row => exact (ragged_false_iff sched).1 h _ (lookup_mem hl)

/-- row of station `st` in the dense matrix, read with a default: its entry, else zeros;
    nothing for an unregistered station -/
theorem densify_getD (stations : List String) (sched : Sched K) (len : Nat) (st : String) (k : Nat) :
    ((densify stations sched len).getD (stations.idxOf st) []).getD k 0 =
      if st ∈ stations then
        (match sched.lookup st with
         | some row => row.getD k 0
         | none => 0)
      else 0 := by
  by_cases hs : st ∈ stations
  · have hi : stations.idxOf st < stations.length := List.idxOf_lt_length_iff.2 hs
    have e : (densify stations sched len).getD (stations.idxOf st) [] =
        (match sched.lookup st with | some row => row | none => List.replicate len 0) := by
      simp only [densify, List.getD_eq_getElem?_getD, List.getElem?_map,
        List.getElem?_eq_getElem hi, List.getElem_idxOf hi, Option.map_some, Option.getD_some]
      rfl
    rw [e, if_pos hs]
    cases sched.lookup st with
    | none =>
      simp only [List.getD_eq_getElem?_getD, List.getElem?_replicate]
      by_cases hk : k < len <;> simp [hk]
    | some row => rfl
  · have hi : stations.idxOf st = stations.length := List.idxOf_eq_length_iff.2 hs
    have e : (densify stations sched len).getD (stations.idxOf st) [] = [] := by
      simp [densify, List.getD_eq_getElem?_getD, hi]
    rw [e, if_neg hs]
    simp

/-! ### the step lemma -/

theorem submit_wf {stations : List String} {m : Mat K} (h : m.WF stations.length)
    (s : Submission K) : (submit stations m s).WF stations.length := by
  by_cases ha : accepted stations s.sched = true
  · unfold submit
    rw [updateSchedules_accepted _ _ _ _ _ ha]
    have hr : ragged s.sched = false := (ragged_false_iff _).2 ((accepted_iff _ _).1 ha).2.2
    apply writeBlock_wf _ _ (schedLen s.sched) _ (densify_length _ _ _) (densify_rows_len _ _ hr)
    · split
      · assumption
      · rw [increaseWidth_width]
        exact le_trans (le_growTarget _ _ _) (le_max_right _ _)
    · split
      · exact h
      · exact increaseWidth_wf h _
  · rw [submit_not_accepted _ _ _ (by simpa using ha)]
    exact h

/-- **step lemma**: what one call of `_update_schedules` does to every cell of the matrix -/
theorem submit_get {stations : List String} {m : Mat K} (h : m.WF stations.length)
    (s : Submission K) (st : String) (τ : Nat) :
    (submit stations m s).get (stations.idxOf st) τ =
      if covers stations s τ then valueOf s st τ else m.get (stations.idxOf st) τ := by
  by_cases ha : accepted stations s.sched = true
  · have hacc := (accepted_iff _ _).1 ha
    have hr : ragged s.sched = false := (ragged_false_iff _).2 hacc.2.2
    unfold submit
    rw [updateSchedules_accepted _ _ _ _ _ ha]
    simp only
    have hw : ∀ m1 : Mat K, m1 = (if s.t + schedLen s.sched ≤ m.width then m
        else increaseWidth m (growTarget s.t s.lastTs (schedLen s.sched))) →
        m1.WF stations.length ∧ s.t + schedLen s.sched ≤ m1.width ∧
          ∀ i τ, m1.get i τ = m.get i τ := by
      intro m1 hm1
      subst hm1
      split
      · exact ⟨h, by assumption, fun _ _ => rfl⟩
      · refine ⟨increaseWidth_wf h _, ?_, fun i τ => increaseWidth_get' _ _ _ _⟩
        rw [increaseWidth_width]
        exact le_trans (le_growTarget _ _ _) (le_max_right _ _)
    obtain ⟨hwf, hwid, hget⟩ := hw _ rfl
    rw [writeBlock_get' hwf _ (schedLen s.sched) _ (densify_length _ _ _)
      (densify_rows_len _ _ hr) hwid, hget, densify_getD]
    have hc : covers stations s τ = (decide (s.t ≤ τ ∧ τ < s.t + schedLen s.sched)) := by
      simp [covers, ha, Bool.decide_and]
    rw [hc]
    by_cases hin : s.t ≤ τ ∧ τ < s.t + schedLen s.sched
    · simp only [hin, and_self, if_true, decide_true]
      unfold valueOf
      by_cases hs : st ∈ stations
      · rw [if_pos hs]; rfl
      · rw [if_neg hs, lookup_none_of_not_key]
        intro p hp e
        exact hs (e ▸ hacc.2.1 p hp)
    · simp [hin]
  · have ha' : accepted stations s.sched = false := by simpa using ha
    rw [submit_not_accepted _ _ _ ha']
    simp [covers, ha']

/-! ### the specification, one submission at a time -/

theorem pilotFrom_nil (stations : List String) (base : K) (st : String) (τ : Nat) :
    pilotFrom stations base [] st τ = base := rfl

theorem pilotFrom_cons (stations : List String) (base : K) (s : Submission K)
    (rest : List (Submission K)) (st : String) (τ : Nat) :
    pilotFrom stations base (s :: rest) st τ =
      pilotFrom stations (if covers stations s τ then valueOf s st τ else base) rest st τ := by
  unfold pilotFrom
  rw [List.reverse_cons, List.find?_append]
  cases rest.reverse.find? (fun s => covers stations s τ) with
  | some x => rfl
  | none =>
    by_cases hc : covers stations s τ = true
    · simp [hc]
    · simp [hc]

theorem pilotFrom_append_singleton (stations : List String) (base : K) (s : Submission K)
    (subs : List (Submission K)) (st : String) (τ : Nat) :
    pilotFrom stations base (subs ++ [s]) st τ =
      if covers stations s τ then valueOf s st τ else pilotFrom stations base subs st τ := by
  unfold pilotFrom
  rw [List.reverse_append, List.reverse_singleton, List.singleton_append, List.find?_cons]
  by_cases hc : covers stations s τ = true
  · simp [hc]
  · simp [hc]

/-- **overlay induction**, from any well-formed start matrix -/
theorem foldl_submit_wf {stations : List String} (subs : List (Submission K)) {m : Mat K}
    (h : m.WF stations.length) : (subs.foldl (submit stations) m).WF stations.length := by
  induction subs generalizing m with
  | nil => exact h
  | cons s rest ih => exact ih (submit_wf h s)

theorem foldl_submit_get {stations : List String} (subs : List (Submission K)) {m : Mat K}
    (h : m.WF stations.length) (st : String) (τ : Nat) :
    (subs.foldl (submit stations) m).get (stations.idxOf st) τ =
      pilotFrom stations (m.get (stations.idxOf st) τ) subs st τ := by
  induction subs generalizing m with
  | nil => rfl
  | cons s rest ih =>
    rw [List.foldl_cons, ih (submit_wf h s), pilotFrom_cons, submit_get h]

end Acn.Pilots
