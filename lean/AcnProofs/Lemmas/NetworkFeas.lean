/-
  Link C12 → C06: every network a user can build with register / add / remove / update — viewed
  as the object the feasibility checks read (`Feas.Net`) — satisfies the shape invariant
  `Feas.Net.WF` under which C06's agreement theorems are proved, PROVIDED no station id was
  registered twice (re-registration makes `_phase_angles` / `_voltages` longer than the station
  list: `reregistration_breaks_wf` in `AcnProofs/C12.lean`).
-/
import AcnModel.Network
import AcnModel.Feas
import AcnProofs.Lemmas.NetworkAlign
import AcnProofs.Lemmas.NetworkQuery
import AcnProofs.Lemmas.FeasAgree
import Mathlib.Tactic

set_option linter.unusedSectionVars false
set_option linter.unusedSimpArgs false

namespace Acn.Network

section proj
variable {K : Type} [Zero K]

/-- the `ChargingNetwork` attributes the feasibility checks read (charging_network.py:42-55);
    `constraint_matrix.shape[1]` is the number of stations (the matrix is built by
    `reindex(columns=station_ids)` and stations are frozen from then on) -/
def FullNet.toFeas (f : FullNet K) (vt rt : K) : Feas.Net K :=
  { stations := f.base.stations, c := f.c, s := f.s, voltages := f.voltages,
    matrix := f.base.matrix.map (fun rows => { cols := f.base.stations.length, rows := rows }),
    lims := f.base.magnitudes, cids := f.base.index, vt := vt, rt := rt }

theorem FullNet.step_base (f : FullNet K) (o : FOp K) :
    (f.step o).1.base = (f.base.step o.toOp).1 ∧ (f.step o).2 = (f.base.step o.toOp).2 := by
  cases o with
  | register id c s v =>
    simp only [FullNet.step, FullNet.register, FOp.toOp, Net.step, Net.register]
    split <;> exact ⟨rfl, rfl⟩
  | add c l nm => exact ⟨rfl, rfl⟩
  | remove nm => exact ⟨rfl, rfl⟩
  | update nm c l nn => exact ⟨rfl, rfl⟩

theorem FullNet.run_base (f : FullNet K) (ops : List (FOp K)) :
    (f.run ops).base = f.base.run (ops.map FOp.toOp) := by
  induction ops generalizing f with
  | nil => rfl
  | cons o os ih =>
    have h := ih (f.step o).1
    rw [(FullNet.step_base f o).1] at h
    simpa [FullNet.run, Net.run] using h

theorem FullNet.trace_base (f : FullNet K) (ops : List (FOp K)) :
    f.trace ops = f.base.trace (ops.map FOp.toOp) := by
  induction ops generalizing f with
  | nil => rfl
  | cons o os ih =>
    simp only [FullNet.trace, List.map_cons, Net.trace, ih, (FullNet.step_base f o).1,
      (FullNet.step_base f o).2]

/-! ### operations other than a registration leave the station list alone -/

theorem addConstraint_stations (n : Net K) (c : Current K) (l : K) (nm : Option String) :
    (n.addConstraint c l nm).1.stations = n.stations := by
  unfold Net.addConstraint
  by_cases hk : c.keys.all (fun k => decide (k ∈ n.stations)) = true
  · rw [if_pos hk]
    by_cases hl : (n.matrix.getD []).length ≠ n.index.length
    · rw [if_pos hl]
    · rw [if_neg hl]; split <;> rfl
  · rw [if_neg hk]

theorem removeConstraint_stations (n : Net K) (nm : String) :
    (n.removeConstraint nm).1.stations = n.stations := by
  unfold Net.removeConstraint
  by_cases hin : nm ∈ n.index
  · rw [if_pos hin]; cases n.matrix <;> rfl
  · rw [if_neg hin]

theorem updateConstraint_stations (n : Net K) (nm : String) (c : Current K) (l : K)
    (nn : Option String) : (n.updateConstraint nm c l nn).1.stations = n.stations := by
  unfold Net.updateConstraint
  by_cases hin : nm ∈ n.index
  · rw [if_pos hin]
    have h1 := removeConstraint_stations n nm
    rcases hr : n.removeConstraint nm with ⟨n1, e1⟩
    rw [hr] at h1
    cases e1 with
    | some e => exact h1
    | none => exact (addConstraint_stations n1 c l _).trans h1
  · rw [if_neg hin]

/-- one phasor and one voltage per station -/
structure VecInv (f : FullNet K) : Prop where
  hc : f.c.length = f.base.stations.length
  hs : f.s.length = f.base.stations.length
  hv : f.voltages.length = f.base.stations.length

theorem vecInv_init : VecInv (FullNet.init : FullNet K) := ⟨rfl, rfl, rfl⟩

theorem step_vecInv {f : FullNet K} (h : VecInv f) (o : FOp K) (hf : FullNet.FreshOp f o) :
    VecInv (f.step o).1 := by
  cases o with
  | register id c s v =>
    simp only [FullNet.step, FullNet.register]
    by_cases hm : f.base.matrix.isSome = true
    · rw [if_pos hm]; exact h
    · rw [if_neg hm]
      have hid : id ∉ f.base.stations := by
        rcases hf with hf | hf
        · exact hf
        · exact absurd hf hm
      have hst : (f.base.register id).1.stations = f.base.stations ++ [id] := by
        simp only [Net.register, hm]
        simp [hid]
      constructor <;> simp [hst, h.hc, h.hs, h.hv]
  | add c l nm =>
    exact ⟨by simp only [FullNet.step, addConstraint_stations]; exact h.hc,
      by simp only [FullNet.step, addConstraint_stations]; exact h.hs,
      by simp only [FullNet.step, addConstraint_stations]; exact h.hv⟩
  | remove nm =>
    exact ⟨by simp only [FullNet.step, removeConstraint_stations]; exact h.hc,
      by simp only [FullNet.step, removeConstraint_stations]; exact h.hs,
      by simp only [FullNet.step, removeConstraint_stations]; exact h.hv⟩
  | update nm c l nn =>
    exact ⟨by simp only [FullNet.step, updateConstraint_stations]; exact h.hc,
      by simp only [FullNet.step, updateConstraint_stations]; exact h.hs,
      by simp only [FullNet.step, updateConstraint_stations]; exact h.hv⟩

theorem run_vecInv {f : FullNet K} (h : VecInv f) (ops : List (FOp K))
    (hf : FullNet.FreshRun f ops) : VecInv (f.run ops) := by
  induction ops generalizing f with
  | nil => exact h
  | cons o os ih => exact ih (step_vecInv h o hf.1) hf.2

/-- the vectors never get SHORTER than the station list, whatever is registered -/
theorem step_vec_ge {f : FullNet K} (h : f.base.stations.length ≤ f.c.length) (o : FOp K) :
    (f.step o).1.base.stations.length ≤ (f.step o).1.c.length := by
  cases o with
  | register id c s v =>
    simp only [FullNet.step, FullNet.register]
    by_cases hm : f.base.matrix.isSome = true
    · rw [if_pos hm]; exact h
    · rw [if_neg hm]
      simp only [Net.register, hm]
      by_cases hid : id ∈ f.base.stations
      · simp [hid]; omega
      · simp [hid]; omega
  | add c l nm => simp only [FullNet.step, addConstraint_stations]; exact h
  | remove nm => simp only [FullNet.step, removeConstraint_stations]; exact h
  | update nm c l nn => simp only [FullNet.step, updateConstraint_stations]; exact h

end proj

section wf
variable {K : Type} [Field K] [LinearOrder K] [IsStrictOrderedRing K]

/-- aligned containers + one phasor/voltage per station ⇒ the shape invariant of C06 -/
theorem toFeas_wf {f : FullNet K} {sp : Spec K} (hr : Refines f.base sp) (hv : VecInv f)
    (vt rt : K) : (f.toFeas vt rt).WF := by
  refine ⟨hv.hc, hv.hs, hv.hv, ?_, ?_, ?_⟩
  · show f.base.index.length = f.base.magnitudes.length
    rw [hr.index, hr.mags]; simp
  · intro hm
    show f.base.magnitudes = []
    have hm' : f.base.matrix = none := by
      simpa [FullNet.toFeas] using hm
    have h2 := hr.rows
    rw [hm'] at h2
    have hc : sp.cons = [] := by simpa using h2.symm
    rw [hr.mags, hc]; rfl
  · intro M hM
    simp only [FullNet.toFeas, Option.map_eq_some_iff] at hM
    obtain ⟨rows, hrows, rfl⟩ := hM
    refine ⟨rfl, ?_⟩
    show rows.length = f.base.magnitudes.length
    have h2 := hr.rows
    rw [hrows] at h2
    simp only [Option.getD_some] at h2
    rw [h2, hr.mags]; simp

end wf
end Acn.Network
