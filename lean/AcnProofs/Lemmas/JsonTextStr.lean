/-
  Helper lemmas for C09 (JSON text layer, strings): `py_scanstring` undoes `py_encode_basestring_ascii`
  (`AcnModel/JsonText.lean`: `scanStr`, `escape`) for every string — quote, backslash, the named control
  escapes, `\u00XX` for the other control characters and DEL, `\uXXXX` for the BMP, surrogate pairs beyond.
-/
import AcnModel.JsonText
import Mathlib.Tactic
namespace Acn.JsonText

theorem char_range (c : Char) : c.toNat < 0xd800 ∨ (0xdfff < c.toNat ∧ c.toNat < 0x110000) := by
  have h := c.valid
  have e : c.toNat = c.val.toNat := rfl
  rw [e]
  unfold UInt32.isValidChar Nat.isValidChar at h
  omega

theorem hexVal_digitChar (d : Nat) (h : d < 16) : hexVal (Nat.digitChar d) = some d := by
  interval_cases d <;> decide

theorem hex4_u4 (n : Nat) (h : n < 0x10000) :
    hex4 (Nat.digitChar (n / 4096 % 16)) (Nat.digitChar (n / 256 % 16)) (Nat.digitChar (n / 16 % 16))
      (Nat.digitChar (n % 16)) = some n := by
  unfold hex4
  rw [hexVal_digitChar _ (Nat.mod_lt _ (by norm_num)), hexVal_digitChar _ (Nat.mod_lt _ (by norm_num)),
    hexVal_digitChar _ (Nat.mod_lt _ (by norm_num)), hexVal_digitChar _ (Nat.mod_lt _ (by norm_num))]
  simp only [Option.some.injEq]
  omega

theorem scanStr_cons (pend : Option Nat) (c : Char) (rest : List Char) :
    scanStr pend (c :: rest) =
    if c = '\\' then
      match rest with
      | [] => none
      | e :: rest1 =>
        if e = 'u' then
          match rest1 with
          | a :: b :: c' :: d :: rest2 =>
            match hex4 a b c' d with
            | none => none
            | some n =>
              match pend with
              | some hi =>
                if 0xdc00 ≤ n ∧ n ≤ 0xdfff then
                  consTo (Char.ofNat (0x10000 + (hi - 0xd800) * 1024 + (n - 0xdc00))) (scanStr none rest2)
                else none
              | none =>
                if 0xd800 ≤ n ∧ n ≤ 0xdbff then scanStr (some n) rest2
                else if 0xdc00 ≤ n ∧ n ≤ 0xdfff then none
                else consTo (Char.ofNat n) (scanStr none rest2)
          | _ => none
        else
          match pend, unescSimple e with
          | none, some ch => consTo ch (scanStr none rest1)
          | _, _ => none
    else if pend.isSome then none
    else if c = '"' then some ([], rest)
    else if c.toNat < 0x20 then none
    else consTo c (scanStr none rest) := by
  rw [scanStr.eq_def]; rfl

theorem scan_u4 (pend : Option Nat) (n : Nat) (h : n < 0x10000) (tail : List Char) :
    scanStr pend (u4 n ++ tail) =
      match pend with
      | some hi =>
        if 0xdc00 ≤ n ∧ n ≤ 0xdfff then
          consTo (Char.ofNat (0x10000 + (hi - 0xd800) * 1024 + (n - 0xdc00))) (scanStr none tail)
        else none
      | none =>
        if 0xd800 ≤ n ∧ n ≤ 0xdbff then scanStr (some n) tail
        else if 0xdc00 ≤ n ∧ n ≤ 0xdfff then none
        else consTo (Char.ofNat n) (scanStr none tail) := by
  simp only [u4, List.cons_append, List.nil_append, scanStr_cons, if_true, hex4_u4 n h]

theorem scan_escChar (c : Char) (tail : List Char) :
    scanStr none (escChar c ++ tail) = consTo c (scanStr none tail) := by
  unfold escChar
  split_ifs with h1 h2 h3 h4 h5 h6 h7 h8 h9
  · subst h1; simp only [List.cons_append, List.nil_append, scanStr_cons]; simp [unescSimple]
  · subst h2; simp only [List.cons_append, List.nil_append, scanStr_cons]; simp [unescSimple]
  · subst h3; simp only [List.cons_append, List.nil_append, scanStr_cons]; simp [unescSimple]
  · subst h4; simp only [List.cons_append, List.nil_append, scanStr_cons]; simp [unescSimple]
  · subst h5; simp only [List.cons_append, List.nil_append, scanStr_cons]; simp [unescSimple]
  · subst h6; simp only [List.cons_append, List.nil_append, scanStr_cons]; simp [unescSimple]
  · subst h7; simp only [List.cons_append, List.nil_append, scanStr_cons]; simp [unescSimple]
  · have : ¬ c.toNat < 0x20 := by omega
    simp only [List.cons_append, List.nil_append, scanStr_cons]; simp [h1, h2, this]
  · rw [scan_u4 none _ h9]
    have hr := char_range c
    have e1 : ¬ (0xd800 ≤ c.toNat ∧ c.toNat ≤ 0xdbff) := by omega
    have e2 : ¬ (0xdc00 ≤ c.toNat ∧ c.toNat ≤ 0xdfff) := by omega
    simp only [e1, e2, if_false, Char.ofNat_toNat]
  · have hr := char_range c
    rw [List.append_assoc, scan_u4 none _ (by omega)]
    have e1 : (0xd800 ≤ 0xd800 + (c.toNat - 0x10000) / 1024 ∧ 0xd800 + (c.toNat - 0x10000) / 1024 ≤ 0xdbff) := by omega
    simp only [e1, and_self, if_true]
    rw [scan_u4 _ _ (by omega)]
    have e2 : (0xdc00 ≤ 0xdc00 + (c.toNat - 0x10000) % 1024 ∧ 0xdc00 + (c.toNat - 0x10000) % 1024 ≤ 0xdfff) := by omega
    simp only [e2, and_self, if_true]
    have : 0x10000 + (0xd800 + (c.toNat - 0x10000) / 1024 - 0xd800) * 1024 + (0xdc00 + (c.toNat - 0x10000) % 1024 - 0xdc00) = c.toNat := by omega
    rw [this, Char.ofNat_toNat]

theorem consTo_some (c : Char) (s r : List Char) : consTo c (some (s, r)) = some (c :: s, r) := rfl

/-- `json.loads` of a JSON string literal undoes `py_encode_basestring_ascii`, for EVERY string: quote,
    backslash, control characters, DEL, non-ASCII (BMP and, through surrogate pairs, beyond) -/
theorem scanStr_escape (s rest : List Char) : scanStr none (escape s ++ '"' :: rest) = some (s, rest) := by
  induction s with
  | nil => simp [escape, scanStr_cons]
  | cons c s ih =>
    have : escape (c :: s) = escChar c ++ escape s := by simp [escape]
    rw [this, List.append_assoc, scan_escChar, ih, consTo_some]

theorem scanStr_renderStr (s rest : List Char) :
    ∃ t, renderStr s ++ rest = '"' :: t ∧ scanStr none t = some (s, rest) :=
  ⟨escape s ++ '"' :: rest, by simp [renderStr], scanStr_escape s rest⟩

end Acn.JsonText
