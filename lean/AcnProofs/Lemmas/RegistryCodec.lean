/-
  Helper lemmas for C09 (registry, 3/3): the concrete codec `RegistrySim.encode` (the store that
  `Simulator.to_json()` writes for a model state).  Every reference of every object points to an
  existing object of strictly smaller rank (Simulator 5 > network, queue 4 > EVSEs, events 3 > EVs 2 >
  batteries 1): the encoded store is acyclic and closed, for EVERY state (no well-formedness needed),
  so `roundtrip_store` / `sharing_preserved` apply to it.
-/
import AcnModel.RegistrySim
import AcnProofs.Lemmas.RegistryRoundtrip

namespace Acn.RegistrySim
open Acn Acn.EventCore Acn.Sim Acn.Registry
variable {K : Type}

theorem get_map_range (f : Nat → Obj) : ∀ (N i : Nat),
    Store.get ((List.range N).map fun i => (i, f i)) i = if i < N then some (f i) else none
  | 0, i => by simp [Store.get]
  | N + 1, i => by
    unfold Store.get at *
    rw [List.range_succ, List.map_append, List.lookup_append]
    have ih := get_map_range f N i
    unfold Store.get at ih
    rw [ih]
    by_cases h : i < N
    · simp [h, Nat.lt_succ_of_lt h]
    · simp only [h, if_false]
      by_cases h2 : i = N
      · subst h2; simp [List.lookup]
      · have : ¬ i < N + 1 := by omega
        have hne : (i == N) = false := by simpa using h2
        simp [this, List.lookup, hne]

@[simp] theorem refs_sI (n : Int) : (sI n).refs = [] := rfl
@[simp] theorem refs_sN (n : Nat) : (sN n).refs = [] := rfl
@[simp] theorem refs_sB (b : Bool) : (sB b).refs = [] := rfl
@[simp] theorem refs_sS (x : String) : (sS x).refs = [] := rfl
@[simp] theorem refs_sNull : sNull.refs = [] := rfl
@[simp] theorem refs_sStatic : sStatic.refs = [] := rfl
@[simp] theorem refs_sF (sh : Show K) (x : K) : (sF sh x).refs = [] := rfl
@[simp] theorem refs_sON (x : Option Nat) : (sON x).refs = [] := by cases x <;> rfl
@[simp] theorem refs_sOI (x : Option Int) : (sOI x).refs = [] := by cases x <;> rfl
@[simp] theorem refs_scalar (x : String) : (Val.scalar x).refs = [] := rfl
@[simp] theorem refs_ref (i : Nat) : (Val.ref i).refs = [i] := rfl
@[simp] theorem refs_list (l : List Item) : (Val.list l).refs = l.flatMap Item.refs := rfl

theorem evIdxFrom_bound : ∀ (es : List (Evse.Ev K)) (sid : String) (n j : Nat),
    evIdxFrom es sid n = some j → n ≤ j ∧ j < n + es.length
  | [], _, _, _, h => by simp [evIdxFrom] at h
  | e :: es, sid, n, j, h => by
    simp only [evIdxFrom] at h
    split at h
    · cases h; simp
    · have := evIdxFrom_bound es sid (n + 1) j h
      simp only [List.length_cons]; omega

theorem evRefVal_refs (l : Layout) (s : State K) (sid : String) {j : Nat} (h : j ∈ (evRefVal l s sid).refs) :
    ∃ k, k < s.evs.length ∧ j = l.evId k := by
  unfold evRefVal at h
  cases hk : evIdx s sid with
  | none => rw [hk] at h; simp at h
  | some k =>
    rw [hk] at h
    simp at h
    have := evIdxFrom_bound s.evs sid 0 k hk
    exact ⟨k, by omega, h⟩

theorem evRefItem_refs (l : Layout) (s : State K) (sid : String) {j : Nat} (h : j ∈ (evRefItem l s sid).refs) :
    ∃ k, k < s.evs.length ∧ j = l.evId k := by
  unfold evRefItem at h
  cases hk : evIdx s sid with
  | none => rw [hk] at h; simp [Item.refs] at h
  | some k =>
    rw [hk] at h
    simp [Item.refs] at h
    have := evIdxFrom_bound s.evs sid 0 k hk
    exact ⟨k, by omega, h⟩

theorem mem_refs_iff (o : Obj) (j : Nat) : j ∈ o.refs ↔ ∃ a ∈ o.attrs, j ∈ a.2.refs := by
  simp [Obj.refs, List.mem_flatMap]

theorem simObj_refs (sh : Show K) (cfg : Cfg K) (s : State K) {j : Nat} (h : j ∈ (simObj sh cfg s).refs) :
    j = 1 ∨ j = 2 ∨ (∃ k, k < s.evs.length ∧ j = (layout cfg s).evId k) ∨
      (∃ hh, hh < (layout cfg s).nH ∧ j = (layout cfg s).bH + hh) := by
  obtain ⟨a, ha, hj⟩ := (mem_refs_iff _ _).1 h
  simp only [simObj, List.mem_cons, List.not_mem_nil, or_false] at ha
  rcases ha with rfl | rfl | rfl | rfl | rfl | rfl | rfl | rfl | rfl | rfl | rfl | rfl | rfl | rfl | rfl | rfl | rfl <;>
    first | (simp at hj; done) | skip
  · left; simpa using hj
  · right; left; simpa using hj
  · right; right; left
    simp only [refs_list, List.mem_flatMap] at hj
    obtain ⟨it, ⟨sid, _, hit⟩, hj⟩ := hj
    simp only [List.mem_cons, List.not_mem_nil, or_false] at hit
    rcases hit with rfl | rfl
    · simp [Item.refs] at hj
    · exact evRefItem_refs _ s sid hj
  · right; right; right
    simp only [refs_list, List.mem_flatMap, List.mem_map, List.mem_range] at hj
    obtain ⟨it, ⟨hh, hlt, rfl⟩, hj⟩ := hj
    simp [Item.refs] at hj
    exact ⟨hh, hlt, hj⟩

theorem netObj_refs (cfg : Cfg K) {j : Nat} (h : j ∈ (netObj cfg).refs) : ∃ i, i < cfg.stations.length ∧ j = 3 + i := by
  obtain ⟨a, ha, hj⟩ := (mem_refs_iff _ _).1 h
  simp only [netObj, List.mem_cons, List.not_mem_nil, or_false] at ha
  rcases ha with rfl | rfl | rfl | rfl | rfl | rfl | rfl | rfl | rfl | rfl | rfl | rfl | rfl <;>
    first | (simp at hj; done) | skip
  simp only [refs_list, List.mem_flatMap, List.mem_range] at hj
  obtain ⟨it, ⟨i, hlt, hit⟩, hj⟩ := hj
  simp only [List.mem_cons, List.not_mem_nil, or_false] at hit
  rcases hit with rfl | rfl
  · simp [Item.refs] at hj
  · simp [Item.refs] at hj; exact ⟨i, hlt, hj⟩

theorem queueObj_refs (cfg : Cfg K) (s : State K) {j : Nat} (h : j ∈ (queueObj cfg s).refs) :
    ∃ p, p < (layout cfg s).nP ∧ j = (layout cfg s).bP + p := by
  obtain ⟨a, ha, hj⟩ := (mem_refs_iff _ _).1 h
  simp only [queueObj, List.mem_cons, List.not_mem_nil, or_false] at ha
  rcases ha with rfl | rfl <;> first | (simp at hj; done) | skip
  simp only [refs_list, List.mem_flatMap, List.mem_range] at hj
  obtain ⟨it, ⟨p, hlt, hit⟩, hj⟩ := hj
  simp only [List.mem_cons, List.not_mem_nil, or_false] at hit
  rcases hit with rfl | rfl
  · simp [Item.refs] at hj
  · simp [Item.refs] at hj; exact ⟨p, hlt, hj⟩

theorem evseObj_refs (sh : Show K) (cfg : Cfg K) (s : State K) (i : Nat) {j : Nat} (h : j ∈ (evseObj sh cfg s i).refs) :
    ∃ k, k < s.evs.length ∧ j = (layout cfg s).evId k := by
  obtain ⟨a, ha, hj⟩ := (mem_refs_iff _ _).1 h
  have key : ∀ (_ : Nat), j ∈ (match s.core.occ (cfg.stations.getD i ⟨"", .finite [], cfg.period⟩).id with
      | some x => evRefVal (layout cfg s) s x.id | none => sNull).refs → ∃ k, k < s.evs.length ∧ j = (layout cfg s).evId k := by
    intro _ hv
    cases ho : s.core.occ (cfg.stations.getD i ⟨"", .finite [], cfg.period⟩).id with
    | none => rw [ho] at hv; simp at hv
    | some x => rw [ho] at hv; exact evRefVal_refs _ s x.id hv
  unfold evseObj at ha
  simp only [] at ha
  split at ha <;> simp only [List.cons_append, List.nil_append, List.mem_cons, List.not_mem_nil, or_false] at ha <;>
    (rcases ha with rfl | rfl | rfl | rfl | ha <;> first | (simp at hj; done) | skip) <;>
    first | exact key 0 hj | (rcases ha with rfl | rfl <;> simp at hj) | (subst ha; simp at hj)

theorem evObj_refs (sh : Show K) (cfg : Cfg K) (s : State K) (k : Nat) {j : Nat} (h : j ∈ (evObj sh cfg s k).refs) :
    j = (layout cfg s).battId k := by
  obtain ⟨a, ha, hj⟩ := (mem_refs_iff _ _).1 h
  simp only [evObj, evObjOf, List.mem_cons, List.not_mem_nil, or_false] at ha
  rcases ha with rfl | rfl | rfl | rfl | rfl | rfl | rfl | rfl | rfl <;> first | (simp at hj; done) | skip
  simpa using hj

theorem battObj_refs (sh : Show K) (cfg : Cfg K) (s : State K) (k : Nat) {j : Nat} (h : j ∈ (battObj sh cfg s k).refs) :
    False := by
  obtain ⟨a, ha, hj⟩ := (mem_refs_iff _ _).1 h
  unfold battObj battObjOf at ha
  simp only [] at ha
  split at ha <;> simp only [List.cons_append, List.nil_append, List.mem_cons, List.not_mem_nil, or_false] at ha <;>
    rcases ha with rfl | rfl | rfl | rfl | rfl | rfl | rfl | rfl <;> simp at hj

theorem eventObj_refs (l : Layout) (s : State K) (e : Event) {j : Nat} (h : j ∈ (eventObj l s e).refs) :
    ∃ k, k < s.evs.length ∧ j = l.evId k := by
  obtain ⟨a, ha, hj⟩ := (mem_refs_iff _ _).1 h
  unfold eventObj at ha
  cases hk : e.kind <;> simp only [hk, List.mem_cons, List.not_mem_nil, or_false] at ha <;>
    rcases ha with rfl | rfl | rfl | rfl <;> first | (simp at hj; done) | skip
  · exact evRefVal_refs l s e.sess hj
  · exact evRefVal_refs l s e.sess hj
/-! ### the encoded store -/

def rank (l : Layout) (i : Nat) : Nat :=
  if i = 0 then 5 else if i ≤ 2 then 4 else if i < l.bE then 3
  else if i < l.bP then (if (i - l.bE) % 2 = 0 then 2 else 1) else 3

theorem get_encode (sh : Show K) (cfg : Cfg K) (s : State K) (i : Nat) :
    (encode sh cfg s).get i = if i < (layout cfg s).size then some (objAt sh cfg s i) else none :=
  get_map_range _ _ _

theorem rank_0 (l : Layout) : rank l 0 = 5 := by simp [rank]
theorem rank_1 (l : Layout) : rank l 1 = 4 := by simp [rank]
theorem rank_2 (l : Layout) : rank l 2 = 4 := by simp [rank]
theorem rank_evse (l : Layout) {i : Nat} (h1 : 3 ≤ i) (h2 : i < l.bE) : rank l i = 3 := by
  unfold rank; split_ifs <;> omega
theorem rank_ev (l : Layout) {k : Nat} (h : k < l.nEv) : rank l (l.evId k) = 2 := by
  unfold rank Layout.evId Layout.bP Layout.bE
  split_ifs <;> omega
theorem rank_batt (l : Layout) {k : Nat} (h : k < l.nEv) : rank l (l.battId k) = 1 := by
  have hm : (l.battId k - l.bE) % 2 = 1 := by unfold Layout.battId; omega
  have h1 : ¬ l.battId k = 0 := by unfold Layout.battId Layout.bE; omega
  have h2 : ¬ l.battId k ≤ 2 := by unfold Layout.battId Layout.bE; omega
  have h3 : ¬ l.battId k < l.bE := by unfold Layout.battId; omega
  have h4 : l.battId k < l.bP := by unfold Layout.battId Layout.bP; omega
  unfold rank
  rw [if_neg h1, if_neg h2, if_neg h3, if_pos h4, if_neg (by omega)]
theorem rank_event (l : Layout) {i : Nat} (h : l.bP ≤ i) : rank l i = 3 := by
  unfold rank Layout.bP Layout.bE at *
  split_ifs <;> omega
theorem evId_lt (l : Layout) {k : Nat} (h : k < l.nEv) : l.evId k < l.size := by
  unfold Layout.evId Layout.size Layout.bH Layout.bP; omega
theorem rank_evpart (l : Layout) {i : Nat} (h1 : l.bE ≤ i) (h2 : i < l.bP) : 1 ≤ rank l i ∧ rank l i ≤ 2 ∧
    ((i - l.bE) % 2 = 0 → rank l i = 2) := by
  unfold rank Layout.bP Layout.bE at *
  split_ifs <;> omega

/-- every reference stays inside the store and goes down in rank -/
theorem objAt_refs (sh : Show K) (cfg : Cfg K) (s : State K) {i j : Nat} (hi : i < (layout cfg s).size)
    (hj : j ∈ (objAt sh cfg s i).refs) :
    j < (layout cfg s).size ∧ rank (layout cfg s) j < rank (layout cfg s) i := by
  have hnEv : (layout cfg s).nEv = s.evs.length := rfl
  have hsz : (layout cfg s).size = (layout cfg s).bE + 2 * (layout cfg s).nEv + (layout cfg s).nP + (layout cfg s).nH := rfl
  have hbP : (layout cfg s).bP = (layout cfg s).bE + 2 * (layout cfg s).nEv := rfl
  have hbH : (layout cfg s).bH = (layout cfg s).bP + (layout cfg s).nP := rfl
  have hbE : (layout cfg s).bE = 3 + cfg.stations.length := rfl
  unfold objAt at hj
  simp only [] at hj
  split_ifs at hj with h0 h1 h2 h3 h4 h5 h6
  · subst h0
    rw [rank_0]
    rcases simObj_refs sh cfg s hj with rfl | rfl | ⟨k, hk, rfl⟩ | ⟨hh, hlt, rfl⟩
    · rw [rank_1]; exact ⟨by omega, by omega⟩
    · rw [rank_2]; exact ⟨by omega, by omega⟩
    · rw [rank_ev _ (by omega)]; exact ⟨evId_lt _ (by omega), by omega⟩
    · rw [rank_event _ (by omega)]; exact ⟨by omega, by omega⟩
  · subst h1
    obtain ⟨k, hk, rfl⟩ := netObj_refs cfg hj
    rw [rank_1, rank_evse _ (by omega) (by omega)]
    exact ⟨by omega, by omega⟩
  · subst h2
    obtain ⟨p, hp, rfl⟩ := queueObj_refs cfg s hj
    rw [rank_2, rank_event _ (by omega)]
    exact ⟨by omega, by omega⟩
  · obtain ⟨k, hk, rfl⟩ := evseObj_refs sh cfg s _ hj
    rw [rank_ev _ (by omega), rank_evse _ (by omega) h3]
    exact ⟨evId_lt _ (by omega), by omega⟩
  · have := evObj_refs sh cfg s _ hj
    subst this
    have hk : (i - (layout cfg s).bE) / 2 < (layout cfg s).nEv := by omega
    have hr := rank_evpart (layout cfg s) (i := i) (by omega) h4
    rw [rank_batt _ hk, hr.2.2 h5]
    refine ⟨?_, by omega⟩
    unfold Layout.battId
    omega
  · exact absurd hj (fun h => battObj_refs sh cfg s _ h)
  · obtain ⟨k, hk, rfl⟩ := eventObj_refs _ s _ hj
    rw [rank_ev _ (by omega), rank_event _ (by omega)]
    exact ⟨evId_lt _ (by omega), by omega⟩
  · obtain ⟨k, hk, rfl⟩ := eventObj_refs _ s _ hj
    rw [rank_ev _ (by omega), rank_event _ (by omega)]
    exact ⟨evId_lt _ (by omega), by omega⟩

theorem encode_acyclic (sh : Show K) (cfg : Cfg K) (s : State K) : Acyclic (encode sh cfg s) := by
  refine ⟨rank (layout cfg s), ?_⟩
  intro i o hg j hj
  rw [get_encode] at hg
  split_ifs at hg with hi
  cases hg
  exact (objAt_refs sh cfg s hi hj).2

theorem reach_lt (sh : Show K) (cfg : Cfg K) (s : State K) {a b : Nat} (ha : a < (layout cfg s).size)
    (h : Reach (encode sh cfg s) a b) : b < (layout cfg s).size := by
  induction h with
  | refl _ => exact ha
  | step hg hj _ ih =>
    rw [get_encode, if_pos ha] at hg
    cases hg
    exact ih (objAt_refs sh cfg s ha hj).1

theorem root_lt (cfg : Cfg K) (s : State K) : root < (layout cfg s).size := by
  simp only [root, Layout.size, Layout.bH, Layout.bP, Layout.bE]; omega

theorem encode_closed (sh : Show K) (cfg : Cfg K) (s : State K) : Closed (encode sh cfg s) root := by
  intro j hj
  rw [get_encode, if_pos (reach_lt sh cfg s (root_lt cfg s) hj)]
  rfl

end Acn.RegistrySim
