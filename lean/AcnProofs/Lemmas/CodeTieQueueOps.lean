/-
  T1c, stateful methods — the event queue IS the code, by proof (group QueueOps; properties C11 and C01).

  `AcnModel/Gen/CodeQueueOps.lean` is regenerated on every run from the Python ASTs of
  acnportal/acnsim/events/event_queue.py in /repo's working tree (harness/translate_code.py, second part): every
  method is a function of the record `Queue.State` (`_queue` ↦ the heap array, `_timestep`), `heapq.heappush` /
  `heapq.heappop` are the transcription of CPython's Lib/heapq.py in AcnModel/Queue.lean (`Heap.heappush` /
  `Heap.heappop` — that transcription stays trusted and is exercised by C11's array-layout correspondence), the entry
  `(event.timestamp, event)` is the model's event, partial operations (`self._queue[0]`, `max` of an empty list,
  `heappop` of an empty list) are `Except PyErr`, a method that changes the queue returns the queue AS IT IS WHEN IT
  RAISES together with the error, and the `while` loop of `get_current_events` is a recursion on `fuel`.

  Proved here, for EVERY queue state and argument:
    `__len__` = `Queue.len`, `empty` = `Queue.empty`, `add_event` = `Queue.addEvent`, `add_events` = `Queue.addEvents`,
    `get_event` = `Queue.getEvent` (IndexError on the empty queue), `get_last_timestamp` = `Queue.lastTimestamp`
    (never raises: the `max` is guarded), and `get_current_events(t)` = `Queue.getCurrent` for every fuel above
    `len(self._queue)` — the whole loop, including that it terminates within that fuel, never raises `IndexError`
    on `self._queue[0]`, sets `_timestep`, and returns the events in the order popped.
  These are the functions `C11.*` (`gets_sorted`, `run_refines_spec`, …) and `C01`'s `heapQ` instance are about.

  A changed comparison in the loop test, a reordered / dropped statement, `heappop(...)[0]`, `min` for `max`, a loop
  that pops before testing … change `Gen.Code.*` and the theorems below stop compiling.
-/
import AcnModel.Gen.CodeQueueOps
import AcnProofs.Lemmas.CodeTieHeapSize

set_option linter.unusedSimpArgs false

namespace Acn.CodeTie
open Acn Acn.Gen.Code

theorem queue_len_tie (s : Queue.State) : queue_len s = Queue.len s := rfl

theorem queue_empty_tie (s : Queue.State) : queue_empty s = Queue.empty s := by
  show decide (s.heap.size = 0) = (s.heap.size == 0)
  generalize s.heap.size = n
  cases n <;> rfl

theorem queue_add_event_tie (s : Queue.State) (e : Event) : queue_add_event s e = Queue.addEvent s e := rfl

theorem queue_add_events_loop_tie (p es : List Event) (s : Queue.State) :
    queue_add_events_loop p es s = es.foldl Queue.addEvent s := by
  induction es generalizing s with
  | nil => rfl
  | cons e es ih => simp only [queue_add_events_loop, List.foldl_cons, ih]; rfl

theorem queue_add_events_tie (s : Queue.State) (es : List Event) :
    queue_add_events s es = Queue.addEvents s es := by
  simp only [queue_add_events, queue_add_events_loop_tie, Queue.addEvents]

theorem queue_get_event_tie (s : Queue.State) :
    queue_get_event s =
      match Queue.getEvent s with
      | .ok (e, s') => (s', .ok e)
      | .error x => (s, .error (qErrToPy x)) := by
  unfold queue_get_event Queue.getEvent
  cases h : Heap.heappop Event.keyLt s.heap with
  | error x => rfl
  | ok p => rfl

theorem getEvent_size {s s' : Queue.State} {e : Event} (h : Queue.getEvent s = .ok (e, s')) :
    s'.heap.size + 1 = s.heap.size := by
  unfold Queue.getEvent at h
  cases hp : Heap.heappop Event.keyLt s.heap with
  | error x => rw [hp] at h; cases h
  | ok p =>
    rw [hp] at h
    obtain ⟨x, a'⟩ := p
    cases h
    exact HeapSize.heappop_size _ hp

theorem queue_get_current_events_loop_tie (t : Int) : ∀ (fuel : Nat) (s : Queue.State) (acc : List Event),
    s.timestep = t → s.heap.size < fuel →
    queue_get_current_events_loop t fuel s acc =
      ((Queue.getCurrentLoop t s.heap.size s acc).1, .ok (Queue.getCurrentLoop t s.heap.size s acc).2) := by
  intro fuel
  induction fuel with
  | zero => intro s acc _ h; omega
  | succ n ih =>
    intro s acc ht hsz
    unfold queue_get_current_events_loop
    cases h0 : s.heap[0]? with
    | none =>
      have hz : s.heap.size = 0 := by
        have := Array.getElem?_eq_none_iff.mp h0
        omega
      simp [queue_empty, hz, Queue.getCurrentLoop]
    | some top =>
      have hnz : s.heap.size ≠ 0 := by
        intro hz
        have : s.heap[0]? = none := Array.getElem?_eq_none_iff.mpr (by omega)
        rw [this] at h0; cases h0
      obtain ⟨m, hm⟩ : ∃ m, s.heap.size = m + 1 := ⟨s.heap.size - 1, by omega⟩
      rw [hm, Queue.getCurrentLoop, h0]
      simp only [queue_empty, hnz, decide_false, Bool.not_false, entryTs, ht]
      by_cases hle : top.ts ≤ t
      · simp only [hle, decide_true, if_true]
        rw [queue_get_event_tie]
        cases hg : Queue.getEvent s with
        | error x =>
          exfalso
          unfold Queue.getEvent at hg
          obtain ⟨p, hp⟩ := HeapSize.heappop_ok_of_pos Event.keyLt (a := s.heap) (by omega)
          rw [hp] at hg
          cases hg
        | ok p =>
          obtain ⟨e, s'⟩ := p
          have hs' := getEvent_size hg
          have ht' : s'.timestep = t := by
            unfold Queue.getEvent at hg
            cases hp : Heap.heappop Event.keyLt s.heap with
            | error x => rw [hp] at hg; cases hg
            | ok q => rw [hp] at hg; cases hg; exact ht
          have hm' : s'.heap.size = m := by omega
          simp only
          rw [ih s' (acc ++ [e]) ht' (by omega), hm']
      · simp [hle]

/-- `get_current_events(t)`: with any fuel above `len(self._queue)` the translated method returns what
    `Queue.getCurrent` returns — the new queue (with `_timestep = t`) and the events in the order popped;
    it never runs out of fuel and never raises -/
theorem queue_get_current_events_tie (s : Queue.State) (t : Int) (fuel : Nat) (h : s.heap.size < fuel) :
    queue_get_current_events fuel s t = ((Queue.getCurrent s t).1, .ok (Queue.getCurrent s t).2) := by
  unfold queue_get_current_events Queue.getCurrent
  simp only
  rw [queue_get_current_events_loop_tie t fuel { s with timestep := t } [] rfl h]

theorem pyMaxBy_ts : ∀ (l : List Event), (pyMaxBy (fun x => entryTs x) l).map entryTs = lastTsList l := by
  intro l
  cases l with
  | nil => rfl
  | cons x xs =>
    simp only [pyMaxBy, lastTsList, Option.map_some, Option.some.injEq]
    induction xs generalizing x with
    | nil => rfl
    | cons y ys ih =>
      simp only [List.foldl_cons]
      by_cases hlt : entryTs x < entryTs y
      · have : x.ts < y.ts := hlt
        simp only [hlt, this, if_true]
        exact ih y
      · have : ¬ x.ts < y.ts := hlt
        simp only [hlt, this, if_false]
        exact ih x

/-- `get_last_timestamp()` is `Queue.lastTimestamp`; it never raises -/
theorem queue_get_last_timestamp_tie (s : Queue.State) :
    queue_get_last_timestamp s = .ok (Queue.lastTimestamp s) := by
  unfold queue_get_last_timestamp Queue.lastTimestamp
  have hm := pyMaxBy_ts s.heap.toList
  cases hl : s.heap.toList with
  | nil =>
    have : s.heap.size = 0 := by
      have := congrArg List.length hl
      simpa using this
    simp [queue_empty, this, lastTsList]
  | cons x xs =>
    have : s.heap.size ≠ 0 := by
      intro h0
      have := congrArg List.length hl
      simp [h0] at this
    rw [hl] at hm
    simp only [queue_empty, this, decide_false, Bool.not_false, if_true]
    cases hp : pyMaxBy (fun x' => entryTs x') (x :: xs) with
    | none => simp [pyMaxBy] at hp
    | some v =>
      rw [hp] at hm
      simp only [Option.map_some] at hm
      simp only [← hm]

/-- every target of this group was translated in this run -/
theorem all_translated_queueops : translatedQueueOps =
    ["queue_len", "queue_empty", "queue_add_event", "queue_add_events", "queue_get_event",
     "queue_get_current_events", "queue_get_last_timestamp"] := by decide

end Acn.CodeTie
