/-
  Helper lemmas for C09 (registry, well-formedness 1/2): the event-core half of the invariant behind `WF` / `AllRef` —
  every occupant, EV event and `ev_history` key belongs to a session of the static table, and every session is
  still referenced (by `ev_history` or by an EV event in the queue or in `event_history`).  Preserved by every
  processed event (also a raising one), hence by a whole period whose events stage does not raise; what a raising
  events stage loses (the events popped after the raising one) is exactly what breaks `AllRef`.
-/
import AcnProofs.Lemmas.ResumeInv

namespace Acn.RegistrySim
open Acn Acn.EventCore

def EvOK (cfg : EventCore.Cfg) (e : Event) : Prop := e.kind ≠ .recompute → e.sess ∈ cfg.sessions.map (·.id)

structure CInv (cfg : EventCore.Cfg) (todo : List Event) (c : Core) : Prop where
  occ : ∀ st x, c.occ st = some x → st ∈ cfg.stations ∧ x ∈ cfg.sessions
  ev : ∀ e, (e ∈ todo ∨ e ∈ c.pending ∨ e ∈ c.eventHist) → EvOK cfg e
  evh : ∀ sid ∈ c.evHist, sid ∈ cfg.sessions.map (·.id)
  ref : ∀ x ∈ cfg.sessions, x.id ∈ c.evHist ∨
    ∃ e, (e ∈ todo ∨ e ∈ c.pending ∨ e ∈ c.eventHist) ∧ e.kind ≠ .recompute ∧ e.sess = x.id

variable {cfg : EventCore.Cfg}

theorem findSession_some {id : String} {x : Session} (h : findSession cfg id = some x) : x ∈ cfg.sessions ∧ x.id = id := by
  unfold findSession at h
  exact ⟨List.mem_of_find?_eq_some h, by simpa using List.find?_some h⟩

theorem CInv.congr {todo : List Event} {c c' : Core} (h : CInv cfg todo c) (h1 : c'.occ = c.occ) (h2 : c'.pending = c.pending)
    (h3 : c'.eventHist = c.eventHist) (h4 : c'.evHist = c.evHist) : CInv cfg todo c' :=
  ⟨by rw [h1]; exact h.occ, by rw [h2, h3]; exact h.ev, by rw [h4]; exact h.evh, by rw [h2, h3, h4]; exact h.ref⟩

/-- what one event does to the four fields the invariant talks about -/
theorem step_shape (cfg : EventCore.Cfg) (e : Event) (c : Core) :
    (step cfg e c).1.eventHist = c.eventHist ++ [e] ∧
    (((∀ st y, (step cfg e c).1.occ st = some y → c.occ st = some y) ∧ (step cfg e c).1.evHist = c.evHist ∧
        (step cfg e c).1.pending = c.pending) ∨
     (∃ x, x ∈ cfg.sessions ∧ x.station ∈ cfg.stations ∧ e.kind = .plugin ∧ x.id = e.sess ∧
        (step cfg e c).1.occ = setOcc c.occ x.station (some x) ∧ (step cfg e c).1.evHist = c.evHist ++ [x.id] ∧
        (step cfg e c).1.pending = c.pending ++ [unplugEv x])) := by
  unfold step process
  rcases hk : e.kind with _ | _ | _
  · -- unplug
    rcases hf : findSession cfg e.sess with _ | x
    · exact ⟨rfl, Or.inl ⟨fun _ _ h => h, rfl, rfl⟩⟩
    · simp only []
      by_cases hs : cfg.stations.contains x.station = true
      · rw [if_pos hs]
        refine ⟨rfl, Or.inl ⟨fun st y hy => ?_, rfl, rfl⟩⟩
        simp only [] at hy
        split at hy
        · unfold setOcc at hy
          split at hy
          · cases hy
          · exact hy
        · exact hy
      · rw [if_neg hs]
        exact ⟨rfl, Or.inl ⟨fun _ _ h => h, rfl, rfl⟩⟩
  · -- plugin
    rcases hf : findSession cfg e.sess with _ | x
    · exact ⟨rfl, Or.inl ⟨fun _ _ h => h, rfl, rfl⟩⟩
    · obtain ⟨hx, hid⟩ := findSession_some hf
      simp only []
      by_cases hs : cfg.stations.contains x.station = true
      · rw [if_pos hs]
        rcases ho : c.occ x.station with _ | y
        · exact ⟨rfl, Or.inr ⟨x, hx, by simpa using hs, trivial, hid, rfl, rfl, rfl⟩⟩
        · exact ⟨rfl, Or.inl ⟨fun _ _ h => h, rfl, rfl⟩⟩
      · rw [if_neg hs]
        exact ⟨rfl, Or.inl ⟨fun _ _ h => h, rfl, rfl⟩⟩
  · exact ⟨rfl, Or.inl ⟨fun _ _ h => h, rfl, rfl⟩⟩

/-- one event, raising or not -/
theorem step_cinv {e : Event} {todo : List Event} {c : Core} (h : CInv cfg (e :: todo) c) :
    CInv cfg todo (step cfg e c).1 := by
  obtain ⟨hh, hshape⟩ := step_shape cfg e c
  have hmem : ∀ d, (d ∈ e :: todo ∨ d ∈ c.pending ∨ d ∈ c.eventHist) →
      (d ∈ todo ∨ d ∈ c.pending ∨ d ∈ c.eventHist ++ [e]) := by
    intro d hd
    rcases hd with hd | hd | hd
    · rcases List.mem_cons.1 hd with rfl | hd
      · exact Or.inr (Or.inr (by simp))
      · exact Or.inl hd
    · exact Or.inr (Or.inl hd)
    · exact Or.inr (Or.inr (by simp [hd]))
  have hmem' : ∀ d, (d ∈ todo ∨ d ∈ c.pending ∨ d ∈ c.eventHist ++ [e]) →
      (d ∈ e :: todo ∨ d ∈ c.pending ∨ d ∈ c.eventHist) := by
    intro d hd
    rcases hd with hd | hd | hd
    · exact Or.inl (List.mem_cons_of_mem _ hd)
    · exact Or.inr (Or.inl hd)
    · rcases List.mem_append.1 hd with hd | hd
      · exact Or.inr (Or.inr hd)
      · exact Or.inl (by simp at hd; simp [hd])
  rcases hshape with ⟨ho, he, hp⟩ | ⟨x, hx, hs, hk, hid, ho, he, hp⟩
  · refine ⟨fun st y hy => h.occ st y (ho st y hy), ?_, by rw [he]; exact h.evh, ?_⟩
    · rw [hh, hp]; exact fun d hd => h.ev d (hmem' d hd)
    · rw [hh, hp, he]
      intro y hy
      rcases h.ref y hy with hr | ⟨d, hd, hr⟩
      · exact Or.inl hr
      · exact Or.inr ⟨d, hmem d hd, hr⟩
  · refine ⟨?_, ?_, ?_, ?_⟩
    · intro st y hy
      rw [ho] at hy
      unfold setOcc at hy
      split at hy
      · rename_i hst
        cases hy
        exact ⟨hst ▸ hs, hx⟩
      · exact h.occ st y hy
    · rw [hh, hp]
      intro d hd
      rcases hd with hd | hd | hd
      · exact h.ev d (Or.inl (List.mem_cons_of_mem _ hd))
      · rcases List.mem_append.1 hd with hd | hd
        · exact h.ev d (Or.inr (Or.inl hd))
        · simp only [List.mem_singleton] at hd
          subst hd
          exact fun _ => List.mem_map.2 ⟨x, hx, rfl⟩
      · exact h.ev d (hmem' d (Or.inr (Or.inr hd)))
    · rw [he]
      intro sid hsid
      rcases List.mem_append.1 hsid with hsid | hsid
      · exact h.evh sid hsid
      · simp only [List.mem_singleton] at hsid
        subst hsid
        exact List.mem_map.2 ⟨x, hx, rfl⟩
    · rw [hh, hp, he]
      intro y hy
      rcases h.ref y hy with hr | ⟨d, hd, hr⟩
      · exact Or.inl (List.mem_append_left _ hr)
      · refine Or.inr ⟨d, ?_, hr⟩
        rcases hmem d hd with h1 | h1 | h1
        · exact Or.inl h1
        · exact Or.inr (Or.inl (List.mem_append_left _ h1))
        · exact Or.inr (Or.inr h1)

theorem processAll_cinv : ∀ (todo : List Event) (c : Core), CInv cfg todo c → (processAll cfg todo c).2 = none →
    CInv cfg [] (processAll cfg todo c).1
  | [], _, h, _ => h
  | e :: es, c, h, hok => by
    simp only [processAll] at hok ⊢
    have hs := step_cinv h
    rcases hst : step cfg e c with ⟨c2, _ | err⟩
    · rw [hst] at hs hok
      exact processAll_cinv es c2 hs hok
    · rw [hst] at hok; simp at hok

theorem eventsStage_cinv {c : Core} (h : CInv cfg [] c) (hok : (eventsStage cfg c).2 = none) :
    CInv cfg [] (eventsStage cfg c).1 := by
  unfold eventsStage at hok ⊢
  refine processAll_cinv _ _ ?_ hok
  have hmem : ∀ d, (d ∈ (popCurrent c.iter c.pending).1 ∨ d ∈ (popCurrent c.iter c.pending).2 ∨ d ∈ c.eventHist) ↔
      (d ∈ ([] : List Event) ∨ d ∈ c.pending ∨ d ∈ c.eventHist) := by
    intro d
    rw [mem_popCurrent_fst, mem_popCurrent_snd]
    constructor
    · rintro (⟨h1, _⟩ | ⟨h1, _⟩ | h1)
      · exact Or.inr (Or.inl h1)
      · exact Or.inr (Or.inl h1)
      · exact Or.inr (Or.inr h1)
    · rintro (h1 | h1 | h1)
      · simp at h1
      · by_cases hd : d.ts ≤ (c.iter : Int)
        · exact Or.inl ⟨h1, hd⟩
        · exact Or.inr (Or.inl ⟨h1, by omega⟩)
      · exact Or.inr (Or.inr h1)
  refine ⟨h.occ, fun d hd => h.ev d ((hmem d).1 hd), h.evh, fun x hx => ?_⟩
  rcases h.ref x hx with hr | ⟨d, hd, hr⟩
  · exact Or.inl hr
  · exact Or.inr ⟨d, (hmem d).2 hd, hr⟩

/-- a whole period of the event core (any scheduler / pilot outcome, raising or not), provided the events stage
    itself does not raise -/
theorem body_cinv {c : Core} (sched apply : Core → Option Err) (h : CInv cfg [] c)
    (hok : (eventsStage cfg c).2 = none) : CInv cfg [] (EventCore.body cfg sched apply c).1 := by
  have h1 := eventsStage_cinv h hok
  unfold EventCore.body
  rcases hes : eventsStage cfg c with ⟨c1, _ | e⟩
  · rw [hes] at h1
    simp only
    split
    · split
      · exact h1.congr rfl rfl rfl rfl
      · unfold finish
        split
        · exact h1.congr rfl rfl rfl rfl
        · exact h1.congr rfl rfl rfl rfl
    · unfold finish
      split
      · exact h1
      · exact h1.congr rfl rfl rfl rfl
  · rw [hes] at hok; simp at hok

theorem init_cinv (cfg : EventCore.Cfg) : CInv cfg [] (EventCore.init cfg) := by
  refine ⟨fun st x h => by simp [EventCore.init] at h, ?_, fun sid h => by simp [EventCore.init] at h, ?_⟩
  · intro e he
    simp only [EventCore.init, initPending, List.not_mem_nil, List.mem_append, List.mem_map, false_or, or_false] at he
    rcases he with ⟨x, hx, rfl⟩ | ⟨r, _, rfl⟩
    · exact fun _ => List.mem_map.2 ⟨x, hx, rfl⟩
    · exact fun hk => absurd rfl hk
  · intro x hx
    refine Or.inr ⟨plugEv x, Or.inr (Or.inl ?_), by simp [plugEv], rfl⟩
    simp only [EventCore.init, initPending, List.mem_append, List.mem_map]
    exact Or.inl ⟨x, hx, rfl⟩

end Acn.RegistrySim
