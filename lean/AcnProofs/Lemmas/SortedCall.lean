/-
  Lemma-level versions of C07's whole-call theorems (`greedy_feasible`, `preprocess_lbOk`,
  `schedule_feasible`, `schedule_length`), so that the simulator-level induction
  (`Lemmas/SortedSimInd.lean`) can use them without importing the property file.
-/
import AcnProofs.Lemmas.SortedLink

set_option linter.unusedSectionVars false

namespace Acn.Sorted
open Acn

variable {K : Type} [Field K] [LinearOrder K] [IsStrictOrderedRing K]

/-- `greedy_feasible`: whatever `sorting_algorithm` returns passes the feasibility check
    (distinct stations; `LbOk` for every queued session). -/
theorem sortingAlgorithm_feasible (feas : List K → Bool) (fuel : Nat) (eps : K) (infra : Infra K) (period : K)
    (queue : List (Session K)) (sch : List K)
    (hnd : (queue.map (·.idx)).Nodup) (hok : ∀ s ∈ queue, LbOk infra period s)
    (h : sortingAlgorithm feas fuel eps infra period queue = .ok sch) : feas sch = true := by
  unfold sortingAlgorithm at h
  simp only at h
  split at h
  · cases h
  · rename_i hfe
    have hfe' : feas (initSchedule infra.ids.length queue) = true := by
      cases hx : feas (initSchedule infra.ids.length queue)
      · rw [hx] at hfe; exact absurd rfl hfe
      · rfl
    exact greedyLoop_inv feas fuel eps infra period queue _ sch hfe' hnd
      (initSchedule_lb _ queue hnd) hok h

/-- `lb_mem_allowable`: `run_preprocessing` establishes `LbOk` for every session that enters with
    `min_rates ≤ 0` (what `Interface.active_sessions` hands out), on an infrastructure whose
    finite-rate stations list their minimum pilot among their levels. -/
theorem preprocess_lbOk' (feas : List K → Bool) (cfg : Config K) (infra : Infra K) (period : K)
    (prev : String → Option (K × K)) (rd : Rampdown K) (l : List (Session K))
    (hinf : InfraOk infra) (hmin : ∀ s ∈ l, s.minRate ≤ 0) :
    ∀ s ∈ (preprocess feas cfg infra period prev rd l).1, LbOk infra period s := by
  have h1 : ∀ s ∈ enforcePilotLimit infra (removeFinished infra period l), s.minRate ≤ 0 := by
    intro s hs
    unfold enforcePilotLimit at hs
    obtain ⟨s0, h0, rfl⟩ := List.mem_map.mp hs
    unfold removeFinished at h0
    exact hmin s0 (List.mem_filter.mp h0).1
  have hzero : ∀ s : Session K, s.minRate ≤ 0 → LbOk infra period s := by
    intro s hs; right; left; unfold lbOf; simp [hs]
  unfold preprocess
  simp only
  intro s hs
  by_cases hest : cfg.estimate = true <;> by_cases hun : cfg.uninterrupted = true <;>
    simp only [hest, hun, if_true, if_false, Bool.false_eq_true] at hs
  · obtain ⟨s1, hs1, hrel⟩ := forall₂_mem_right (applyMinimumRate_rel feas infra period _) s hs
    rw [mem_sortBy] at hs1
    obtain ⟨s0, h0, hm, _⟩ := applyUpperBound_min _ _ s1 hs1
    exact minRel_lbOk infra period hinf s1 s hrel (by rw [hm]; exact h1 s0 h0)
  · obtain ⟨s0, h0, hm, _⟩ := applyUpperBound_min _ _ s hs
    exact hzero s (by rw [hm]; exact h1 s0 h0)
  · obtain ⟨s1, hs1, hrel⟩ := forall₂_mem_right (applyMinimumRate_rel feas infra period _) s hs
    rw [mem_sortBy] at hs1
    exact minRel_lbOk infra period hinf s1 s hrel (h1 s1 hs1)
  · exact hzero s (h1 s hs)

/-- `schedule_feasible`: the whole `schedule()` call (preprocessing, sort, allocation) of either
    algorithm, any sort order, any option combination, on resolved sessions `l`
    (`resolve infra raw = .ok l`, i.e. `get_station_index` succeeded for every session): if it
    returns a schedule, that schedule passes the feasibility check.  Hypotheses: sessions enter
    with `min_rates ≤ 0`, the infrastructure is well formed, and the queue has distinct, valid
    station indices. -/
theorem scheduleCall_feasible [HasCeilNat K] (feas : List K → Bool) (cfg : Config K) (infra : Infra K)
    (period : K) (time : Int) (prev : String → Option (K × K)) (rd : Rampdown K)
    (raw l : List (Session K)) (sch : List K)
    (hres : resolve infra raw = .ok l)
    (hinf : InfraOk infra) (hlen : infra.allow.length = infra.ids.length)
    (hmin : ∀ s ∈ l, s.minRate ≤ 0)
    (hnd : ((scheduleCall feas cfg infra period time prev rd raw).order.map (·.idx)).Nodup)
    (hidx : ∀ s ∈ (scheduleCall feas cfg infra period time prev rd raw).order, s.idx < infra.ids.length)
    (h : (scheduleCall feas cfg infra period time prev rd raw).result = .ok sch) :
    feas sch = true := by
  unfold scheduleCall at h hnd hidx
  simp only [hres] at h hnd hidx
  have hok : ∀ s ∈ sortSessions cfg.sort infra period time (preprocess feas cfg infra period prev rd l).1,
      LbOk infra period s := by
    intro s hs
    unfold sortSessions at hs
    rw [mem_sortBy] at hs
    exact preprocess_lbOk' feas cfg infra period prev rd l hinf hmin s hs
  cases hal : cfg.algo with
  | greedy =>
    simp only [hal] at h hnd hidx
    exact sortingAlgorithm_feasible feas cfg.fuel cfg.eps infra period _ sch hnd hok h
  | roundRobin =>
    simp only [hal] at h hnd hidx
    cases hrr : roundRobin feas (rrLevels infra period cfg.inc) infra
        (sortSessions cfg.sort infra period time (preprocess feas cfg infra period prev rd l).1) with
    | error e => simp only [hrr] at h; cases h
    | ok st =>
      simp only [hrr] at h hidx
      cases h
      exact (roundRobin_spec feas _ infra _ st hrr hidx hlen).1

theorem scheduleCall_length [HasCeilNat K] (feas : List K → Bool) (cfg : Config K) (infra : Infra K)
    (period : K) (time : Int) (prev : String → Option (K × K)) (rd : Rampdown K)
    (raw l : List (Session K)) (sch : List K)
    (hres : resolve infra raw = .ok l) (hlen : infra.allow.length = infra.ids.length)
    (hnd : ((scheduleCall feas cfg infra period time prev rd raw).order.map (·.idx)).Nodup)
    (hidx : ∀ s ∈ (scheduleCall feas cfg infra period time prev rd raw).order, s.idx < infra.ids.length)
    (h : (scheduleCall feas cfg infra period time prev rd raw).result = .ok sch) :
    sch.length = infra.ids.length := by
  unfold scheduleCall at h hnd hidx
  simp only [hres] at h hnd hidx
  cases hal : cfg.algo with
  | greedy =>
    simp only [hal] at h hnd hidx
    unfold sortingAlgorithm at h
    simp only at h
    split at h
    · cases h
    · obtain ⟨hl, _, _⟩ := greedyLoop_values feas cfg.fuel cfg.eps infra period _ _ sch hnd h
      rw [hl]; unfold initSchedule; rw [fold_lb_length]; simp
  | roundRobin =>
    simp only [hal] at h hnd hidx
    cases hrr : roundRobin feas (rrLevels infra period cfg.inc) infra
        (sortSessions cfg.sort infra period time (preprocess feas cfg infra period prev rd l).1) with
    | error e => simp only [hrr] at h; cases h
    | ok st =>
      simp only [hrr] at h hidx
      cases h
      exact (roundRobin_spec feas _ infra _ st hrr hidx hlen).2.1

end Acn.Sorted
