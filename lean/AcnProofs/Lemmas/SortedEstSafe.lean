/-
  `SchedSafe` for the modelled sorted algorithms with an ARBITRARY stateful upper-bound estimator
  (`SimSortedEst.sortedSchedEst`), frozen at ANY estimator state: whatever `get_maximum_rates`
  answers — bounds above the EVSE maximum, negative bounds, absent keys, keys of sessions that are
  not active — `enforce_pilot_limit` (applied first) and `reconcile_max_and_min` keep
  `0 ≤ min_rates ≤ max_rates ≤ max_pilot`, and the allocation loops never leave those bounds.
  (`scheduleCall_safe` of `Lemmas/SortedRdSafe.lean` with `scheduleCallEst` in place of `scheduleCall`.)
-/
import AcnProofs.Lemmas.SortedRdSafe
import AcnProofs.Lemmas.SortedEstCall

set_option linter.unusedSectionVars false

namespace Acn.Sorted
open Acn Acn.Evse Acn.EventCore

/-- the per-call guarantees of one modelled `schedule()` call on the sessions / infrastructure read
    off a simulator state — ANY configuration, ANY estimator answer -/
theorem scheduleCallEst_safe [HasCeilNat ℝ] (net : SimSorted.NetInfo ℝ) (inf : ℝ) (cfg : Sim.Cfg ℝ)
    (cfg' : Config ℝ) (hc : CfgOk cfg inf) (heps' : 0 ≤ cfg'.eps)
    (est : List (Session ℝ) → Session ℝ → Option ℝ)
    (a : Sim.State ℝ) (hocc : Ledger.OccSound cfg.core a.core.occ)
    (hev : ∀ e ∈ a.evs, LedgerOk e ∧ StaticIn cfg e) (arr : List ℝ)
    (hr : (scheduleCallEst (SimSorted.feasOf net) cfg' (SimSorted.infraOf inf cfg) cfg.period
        ((Sim.view cfg a).iter : Int) est
        ((Sim.view cfg a).active.map (SimSorted.sessionOfEv inf (Sim.view cfg a).iter))).result = .ok arr) :
    arr.length = cfg.stations.length ∧ SimSorted.feasOf net arr = true ∧
    (∀ k st, cfg.stations[k]? = some st → Accepts st.kind (arr.getD k 0)) ∧
    (∀ k st e, cfg.stations[k]? = some st → Sim.occupantEv a st.id = some e →
      0 ≤ arr.getD k 0 ∧ arr.getD k 0 ≤ rapEv cfg st e) := by
  have hst : ∀ e ∈ a.evs, StaticIn cfg e := fun e he => (hev e he).2
  have hlen : (SimSorted.infraOf inf cfg).allow.length = (SimSorted.infraOf inf cfg).ids.length := by
    simp [SimSorted.infraOf]
  have hn : (SimSorted.infraOf inf cfg).ids.length = cfg.stations.length := by simp [SimSorted.infraOf]
  generalize hraw : (Sim.view cfg a).active.map (SimSorted.sessionOfEv inf (Sim.view cfg a).iter) = raw at hr
  cases hres : resolve (SimSorted.infraOf inf cfg) raw with
  | error e =>
    rw [scheduleCallEst_resolve_error _ _ _ _ _ _ _ e hres] at hr
    cases hr
  | ok l =>
    have hF := resolve_spec (SimSorted.infraOf inf cfg) raw l hres
    have hactive : (Sim.view cfg a).active = Sim.activeEvs cfg a := rfl
    -- distinct station indices
    have hrs : raw.map (·.station) = (Sim.activeEvs cfg a).map (·.station) := by
      rw [← hraw, hactive, List.map_map]; rfl
    have hndl : (l.map (·.idx)).Nodup := by
      have h1 := resolve_map_station (SimSorted.infraOf inf cfg) raw l hF
      have h2 : ((l.map (·.idx)).map (fun i => (SimSorted.infraOf inf cfg).ids.getD i "")).Nodup := by
        rw [List.map_map]
        show (l.map (fun s => (SimSorted.infraOf inf cfg).ids.getD s.idx "")).Nodup
        rw [h1, hrs]
        exact active_stations_nodup cfg a hc.nod hocc hc.sess hst
      exact List.Nodup.of_map _ h2
    obtain ⟨hnd, hidx, hmemq⟩ := scheduleCallEst_queue (SimSorted.feasOf net) cfg'
      (SimSorted.infraOf inf cfg) cfg.period ((Sim.view cfg a).iter : Int) est raw l hres hndl
    have hmem_ord : ∀ s, s ∈ (scheduleCallEst (SimSorted.feasOf net) cfg' (SimSorted.infraOf inf cfg)
        cfg.period ((Sim.view cfg a).iter : Int) est raw).order →
        ∃ s0 ∈ l, DerivedW (SimSorted.infraOf inf cfg) cfg.period s0 s :=
      fun s hs => (hmemq s hs).2
    obtain ⟨hg, hz⟩ := scheduleCallEst_grants (SimSorted.feasOf net) cfg' heps'
      (SimSorted.infraOf inf cfg) cfg.period _ est raw l arr hres hlen hnd hidx hr
    have hal := scheduleCallEst_length (SimSorted.feasOf net) cfg' (SimSorted.infraOf inf cfg) cfg.period
      _ est raw l arr hres hlen hnd hidx hr
    -- the per-station statement
    have key : ∀ k st, cfg.stations[k]? = some st →
        Accepts st.kind (arr.getD k 0) ∧
        ∀ e, Sim.occupantEv a st.id = some e → 0 ≤ arr.getD k 0 ∧ arr.getD k 0 ≤ rapEv cfg st e := by
      intro k st hk
      have hklt : k < cfg.stations.length := (List.getElem?_eq_some_iff.mp hk).1
      have hstm : st ∈ cfg.stations := List.mem_of_getElem? hk
      obtain ⟨i1, i2, i3, i4, i5, i6⟩ := infraOf_at inf cfg k st hk
      have hocc_ok : ∀ e, Sim.occupantEv a st.id = some e → 0 ≤ rapEv cfg st e := by
        intro e he
        have hmem : e ∈ a.evs := by
          unfold Sim.occupantEv at he
          split at he
          · exact List.mem_of_find?_eq_some he
          · cases he
        exact rapEv_nonneg cfg st e (hc.volt st hstm) hc.per (hev e hmem).1.2
      by_cases hq : ∃ s ∈ (scheduleCallEst (SimSorted.feasOf net) cfg' (SimSorted.infraOf inf cfg)
          cfg.period ((Sim.view cfg a).iter : Int) est raw).order, s.idx = k
      · obtain ⟨s, hs, hsk⟩ := hq
        obtain ⟨r, hget, hG⟩ := hg s hs
        have hrk : arr.getD k 0 = r := by
          rw [List.getD_eq_getElem?_getD, ← hsk, hget]; rfl
        obtain ⟨s0, hs0, hd⟩ := hmem_ord s hs
        obtain ⟨sr, hsr, i, hi, hids, rfl⟩ := forall₂_mem_right hF s0 hs0
        rw [← hraw, hactive, List.mem_map] at hsr
        obtain ⟨e, he, rfl⟩ := hsr
        have hik : i = k := by rw [← hsk, hd.1]
        subst hik
        -- `e` is the occupant of station `st`
        obtain ⟨st', hst', ho'⟩ := active_is_occupant cfg a e he
        have hes := occupant_station cfg a hocc hc.sess hst st'.id e ho'
        have hsame : st' = st := by
          apply List.inj_on_of_nodup_map hc.nod hst' hstm
          show st'.id = st.id
          rw [← hes, ← i1]; exact hids.symm
        subst hsame
        have hrapEq : rap (SimSorted.infraOf inf cfg) cfg.period
            ({ SimSorted.sessionOfEv inf (Sim.view cfg a).iter e with idx := i } : Session ℝ) =
            rapEv cfg st' e := by
          unfold rap remainingDemand rapEv
          simp only [SimSorted.sessionOfEv]
          rw [i2]
          norm_num
        obtain ⟨c1, c2, c3⟩ := grant_to_station_w inf (SimSorted.infraOf inf cfg) cfg.period st'.kind
          (hc.kinds st' hstm)
          ({ SimSorted.sessionOfEv inf (Sim.view cfg a).iter e with idx := i } : Session ℝ) s r
          i3 i4 i5 i6 rfl rfl (by rw [hrapEq]; exact hocc_ok e ho') hd hG
        rw [hrk]
        refine ⟨c1, fun e' he' => ?_⟩
        rw [ho'] at he'
        cases he'
        rw [← hrapEq]
        exact ⟨c2, c3⟩
      · have hz' := hz k (by rw [hn]; exact hklt) (fun t ht htk => hq ⟨t, ht, htk⟩)
        have hrk : arr.getD k 0 = 0 := by
          rw [List.getD_eq_getElem?_getD, hz']; rfl
        rw [hrk]
        exact ⟨accepts_zero inf st.kind (hc.kinds st hstm), fun e he => ⟨le_refl _, hocc_ok e he⟩⟩
    have hfeas : SimSorted.feasOf net arr = true := by
      refine scheduleCallEst_feasible (SimSorted.feasOf net) cfg' (SimSorted.infraOf inf cfg) cfg.period
        _ est raw l arr hres (infraOf_ok inf cfg hc) hlen ?_ hnd hidx hr
      intro s0 hs0
      obtain ⟨sr, hsr, i, _, _, rfl⟩ := forall₂_mem_right hF s0 hs0
      rw [← hraw, List.mem_map] at hsr
      obtain ⟨e, _, rfl⟩ := hsr
      exact le_refl _
    exact ⟨by rw [hal, hn], hfeas, fun k st hk => (key k st hk).1,
      fun k st e hk he => (key k st hk).2 e he⟩

/-- **the modelled sorted algorithms with ANY stateful estimator, frozen at ANY of its states, have
    the per-call guarantees `SchedSafe`** -/
theorem sortedSchedEst_schedSafe [HasCeilNat ℝ] {σ : Type} (net : SimSorted.NetInfo ℝ) (inf : ℝ)
    (cfg : Sim.Cfg ℝ) (scfg : Config ℝ) (hc : CfgOk cfg inf) (heps : 0 ≤ scfg.eps)
    (E : SimSortedEst.Estimator σ ℝ) (st : σ) :
    SchedSafe (SimSorted.feasOf net) cfg inf
      (SimSortedRd.frozen (SimSortedEst.sortedSchedEst net inf cfg scfg E) st) := by
  constructor
  · intro v e h
    unfold SimSortedRd.frozen SimSortedEst.sortedSchedEst at h
    simp only at h
    split at h
    · rename_i e2 heq
      cases h
      split at heq
      · rename_i e' _
        cases heq
        cases e' <;> simp [SimSorted.errOf]
      · cases heq
    · cases h
  · intro a hocc hev sch hsch
    unfold SimSortedRd.frozen SimSortedEst.sortedSchedEst at hsch
    simp only at hsch
    cases hr : (scheduleCallEst (SimSorted.feasOf net) scfg (SimSorted.infraOf inf cfg) cfg.period
        ((Sim.view cfg a).iter : Int) (fun l1 => (E st (Sim.view cfg a) l1).1)
        ((Sim.view cfg a).active.map (SimSorted.sessionOfEv inf (Sim.view cfg a).iter))).result with
    | error e => rw [hr] at hsch; cases hsch
    | ok arr =>
      rw [hr] at hsch
      simp only [Except.ok.injEq] at hsch
      subst hsch
      obtain ⟨h1, h2, h3, h4⟩ := scheduleCallEst_safe net inf cfg scfg hc heps _ a hocc hev arr hr
      exact ⟨arr, rfl, h1, h2, h3, h4⟩

end Acn.Sorted
