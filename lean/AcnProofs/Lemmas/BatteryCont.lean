/-
  The closed form of `Linear2StageBattery._charge` (`Battery.contSoc`) in terms of the
  normalised flow `W` of `BatteryFlow.lean`, and the consequences at the level of SoC:
  bounds, semigroup (period splitting), monotonicity, the differential law.

  `flowSoc p κ s t` is the SoC after time `t` (in periods) from SoC `s`, for a pilot rate `p`
  (SoC per period, already clamped at the maximum rate) and `κ = max_rate / (1 − transition_soc)`.
-/
import AcnProofs.Lemmas.BatteryFlow

namespace Acn.BattFlow
open Real Set Filter Topology Acn.Battery

theorem W_nonneg {w θ : ℝ} (hw : 0 ≤ w) : 0 ≤ W w θ := by
  rcases eq_or_lt_of_le hw with h | h
  · rw [← h, W_ramp (by norm_num)]; simp
  · exact (W_pos h).le

noncomputable def flowSoc (p κ s t : ℝ) : ℝ := 1 - p / κ * W (κ * (1 - s) / p) (κ * t)

section flow
variable {p κ s t : ℝ}

theorem flowSoc_zero (hp : 0 < p) (hκ : 0 < κ) : flowSoc p κ s 0 = s := by
  unfold flowSoc; rw [mul_zero, W_zero]; field_simp; ring

/-- the normalised remaining SoC after `t` -/
theorem flowSoc_w (hp : 0 < p) (hκ : 0 < κ) :
    κ * (1 - flowSoc p κ s t) / p = W (κ * (1 - s) / p) (κ * t) := by
  unfold flowSoc; field_simp; ring

theorem flowSoc_semigroup (hp : 0 < p) (hκ : 0 < κ) {a b : ℝ} (ha : 0 ≤ a) (hb : 0 ≤ b) :
    flowSoc p κ (flowSoc p κ s a) b = flowSoc p κ s (a + b) := by
  have h := flowSoc_w (s := s) (t := a) hp hκ
  unfold flowSoc at h ⊢
  rw [h, W_semigroup _ (mul_nonneg hκ.le ha) (mul_nonneg hκ.le hb), mul_add]

/-- `0 ≤ gain ≤ p·t` and the SoC stays `≤ 1` -/
theorem flowSoc_bounds (hp : 0 < p) (hκ : 0 < κ) (hs : s ≤ 1) (ht : 0 ≤ t) :
    s ≤ flowSoc p κ s t ∧ flowSoc p κ s t - s ≤ p * t ∧ flowSoc p κ s t ≤ 1 := by
  have hw : 0 ≤ κ * (1 - s) / p := div_nonneg (mul_nonneg hκ.le (by linarith)) hp.le
  have hθ : 0 ≤ κ * t := mul_nonneg hκ.le ht
  have h1 := W_le hw hθ
  have h2 := W_ge hw hθ
  have h3 := W_nonneg (θ := κ * t) hw
  have hpk : 0 < p / κ := div_pos hp hκ
  have e : s = 1 - p / κ * (κ * (1 - s) / p) := by field_simp; ring
  have e2 : p * t = p / κ * (κ * t) := by field_simp
  unfold flowSoc
  refine ⟨?_, ?_, ?_⟩
  · nlinarith
  · rw [e2]; nlinarith
  · nlinarith

theorem flowSoc_mono_t (hp : 0 < p) (hκ : 0 < κ) (hs : s ≤ 1) {t1 t2 : ℝ} (h1 : 0 ≤ t1)
    (h12 : t1 ≤ t2) : flowSoc p κ s t1 ≤ flowSoc p κ s t2 := by
  have e : t2 = t1 + (t2 - t1) := by ring
  rw [e, ← flowSoc_semigroup hp hκ h1 (by linarith)]
  exact (flowSoc_bounds hp hκ (flowSoc_bounds hp hκ hs h1).2.2 (by linarith)).1

theorem flowSoc_mono_p {p1 p2 : ℝ} (hp1 : 0 < p1) (h12 : p1 ≤ p2) (hκ : 0 < κ) (ht : 0 ≤ t) :
    flowSoc p1 κ s t ≤ flowSoc p2 κ s t := by
  have hp2 : 0 < p2 := lt_of_lt_of_le hp1 h12
  have hθ : 0 ≤ κ * t := mul_nonneg hκ.le ht
  unfold flowSoc
  rcases le_or_gt (κ * (1 - s)) 0 with hc | hc
  · have w1 : κ * (1 - s) / p1 ≤ 1 := le_trans (div_nonpos_of_nonpos_of_nonneg hc hp1.le) zero_le_one
    have w2 : κ * (1 - s) / p2 ≤ 1 := le_trans (div_nonpos_of_nonpos_of_nonneg hc hp2.le) zero_le_one
    rw [W_ramp w1, W_ramp w2]
    apply le_of_eq; field_simp
  · have hw2 : 0 < κ * (1 - s) / p2 := div_pos hc hp2
    have hle : κ * (1 - s) / p2 ≤ κ * (1 - s) / p1 := div_le_div_of_nonneg_left hc.le hp1 h12
    have key := W_ratio_mono hw2 hle hθ
    -- multiply `key` by `p1 p2 / (c κ)`
    set c := κ * (1 - s) with hcdef
    set A := W (c / p1) (κ * t)
    set B := W (c / p2) (κ * t)
    have : p2 / κ * B ≤ p1 / κ * A := by
      have e1 : p2 / κ * B = (B * (c / p1)) * (p1 * p2 / (c * κ)) := by field_simp
      have e2 : p1 / κ * A = (A * (c / p2)) * (p1 * p2 / (c * κ)) := by field_simp
      rw [e1, e2]
      exact mul_le_mul_of_nonneg_right key (div_nonneg (mul_nonneg hp1.le hp2.le) (mul_nonneg hc.le hκ.le))
    linarith

/-- the closed form solves the documented law `ds/dt = min p (κ (1 − s))` -/
theorem flowSoc_hasDerivAt (hp : 0 < p) (hκ : 0 < κ) (ht : 0 ≤ t) :
    HasDerivAt (fun τ => flowSoc p κ s τ) (min p (κ * (1 - flowSoc p κ s t))) t := by
  have hW := W_hasDerivAt (κ * (1 - s) / p) (mul_nonneg hκ.le ht)
  have hk : HasDerivAt (fun τ : ℝ => κ * τ) κ t := by
    simpa using (hasDerivAt_id t).const_mul κ
  have hc := hW.comp t hk
  have h1 := (hc.const_mul (p / κ)).const_sub 1
  have hval : min p (κ * (1 - flowSoc p κ s t)) =
      -(p / κ * (-(min 1 (W (κ * (1 - s) / p) (κ * t))) * κ)) := by
    have : κ * (1 - flowSoc p κ s t) = p * W (κ * (1 - s) / p) (κ * t) := by
      unfold flowSoc; field_simp; ring
    rw [this]
    have : p = p * 1 := (mul_one p).symm
    conv_lhs => rw [this, mul_assoc, one_mul, ← mul_min_of_nonneg _ _ hp.le]
    field_simp
  rw [hval]
  exact h1

end flow

/-! ### `contSoc` is the flow -/

theorem contPd_eq (pd0 md : ℝ) : (if md < pd0 then md else pd0) = min pd0 md := by
  rw [← pyMin_eq_min]; rfl

/-- `battery.py:235-270` for one period: the three branches are the three regimes of the flow -/
theorem contSoc_eq_flow {s ts pd0 md : ℝ} (hmd : 0 < md) (hpd : 0 < pd0) (hts : ts < 1) :
    contSoc s ts pd0 md = flowSoc (min pd0 md) (md / (1 - ts)) s 1 := by
  have h1ts : 0 < 1 - ts := by linarith
  have hp : 0 < min pd0 md := lt_min hpd hmd
  have hκ : 0 < md / (1 - ts) := div_pos hmd h1ts
  unfold contSoc flowSoc
  simp only [contPd_eq, HasExp.exp]
  set p := min pd0 md with hp_def
  set κ := md / (1 - ts) with hκ_def
  set a := p / κ with ha_def
  have ha : 0 < a := div_pos hp hκ
  have hpa : p = a * κ := by rw [ha_def]; field_simp
  have ha0 : a ≠ 0 := ha.ne'
  have hκ0 : κ ≠ 0 := hκ.ne'
  have e0 : 1 - a - 1 = -a := by ring
  have hpts : ts + (p - md) / md * (ts - 1) = 1 - a := by
    rw [ha_def, hκ_def]; field_simp; ring
  have hw : κ * (1 - s) / p = (1 - s) / a := by rw [hpa]; field_simp
  rw [hpts, hw, mul_one]
  rcases lt_or_ge s (1 - a) with h | h
  · rw [if_pos h]
    have hw1 : 1 < (1 - s) / a := by rw [lt_div_iff₀ ha]; linarith
    rcases le_or_gt 1 ((1 - a - s) / p) with h2 | h2
    · rw [if_pos h2]
      have : κ ≤ (1 - s) / a - 1 := by
        rw [le_div_iff₀ hp] at h2
        rw [le_sub_iff_add_le, le_div_iff₀ ha]; nlinarith
      rw [W_lin hw1 this]; rw [hpa]; field_simp; ring
    · rw [if_neg (not_le.mpr h2)]
      have : (1 - s) / a - 1 < κ := by
        rw [div_lt_iff₀ hp] at h2
        rw [sub_lt_iff_lt_add, div_lt_iff₀ ha]; nlinarith
      rw [W_cross hw1 this]
      have e : (p + s - (1 - a)) / (1 - a - 1) = -(κ - ((1 - s) / a - 1)) := by
        rw [hpa, e0]; field_simp; ring
      rw [e]; ring
  · rw [if_neg (not_lt.mpr h)]
    have hw1 : (1 - s) / a ≤ 1 := by rw [div_le_iff₀ ha]; linarith
    rw [W_ramp hw1]
    have e : p / (1 - a - 1) = -κ := by rw [hpa, e0]; field_simp
    rw [e]; field_simp; ring

/-- … and for an elapsed time `t` (both SoC rates are proportional to the period length) -/
theorem contSoc_eq_flow_t {s ts p0 m t : ℝ} (hm : 0 < m) (hp0 : 0 < p0) (hts : ts < 1)
    (ht : 0 < t) : contSoc s ts (p0 * t) (m * t) = flowSoc (min p0 m) (m / (1 - ts)) s t := by
  have h1ts : 0 < 1 - ts := by linarith
  rw [contSoc_eq_flow (mul_pos hm ht) (mul_pos hp0 ht) hts]
  have hp : 0 < min p0 m := lt_min hp0 hm
  unfold flowSoc
  rw [← min_mul_of_nonneg _ _ ht.le]
  have e1 : min p0 m * t / (m * t / (1 - ts)) = min p0 m / (m / (1 - ts)) := by field_simp
  have e2 : m * t / (1 - ts) * (1 - s) / (min p0 m * t) = m / (1 - ts) * (1 - s) / min p0 m := by
    field_simp
  rw [e1, e2, mul_one]; congr 2; ring_nf

end Acn.BattFlow
