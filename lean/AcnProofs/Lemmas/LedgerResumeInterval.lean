/-
  Helper lemmas for C02 (resume, 2/2): under C01's `Valid`, the INTERVAL reading of the occupancy log —
  the snapshot of period `τ` shows session `x` at its station exactly when `arrival_x ≤ τ < departure_x` —
  survives aborted periods and resumed runs.

  A period aborted by the scheduler leaves the core in a MID-PERIOD state (`EventCore.Mid`, `Lemmas/EventCoreMid.lean`);
  `RInv` = ledger invariant + interval reading of the log + core at a loop head or mid-period.
-/
import AcnProofs.Lemmas.LedgerInterval
import AcnProofs.Lemmas.LedgerResume
import AcnProofs.Lemmas.EventCoreMid

set_option linter.unusedSectionVars false
set_option linter.unusedSimpArgs false
set_option linter.unusedVariables false
set_option linter.unusedTactic false
set_option linter.unreachableTactic false

namespace Acn.Ledger
open Acn Acn.Sim Acn.EventCore Acn.Evse Finset

variable {K : Type} [Field K] [LinearOrder K] [IsStrictOrderedRing K] [HasExp K]

/-- ledger invariant + interval reading of the log + the core at a loop head OR in the middle of a period -/
structure RInv (cfg : Cfg K) (s : State K) : Prop where
  led : Inv cfg s
  log : LogInterval cfg s
  core : EventCore.Inv cfg.core s.core.iter s.core ∨ EventCore.Mid cfg.core s.core.iter s.core

theorem init_rinv (cfg : Cfg K) (hv : Valid cfg.core) : RInv cfg (Sim.init cfg) :=
  ⟨(init_iinv cfg hv).led, (init_iinv cfg hv).log, Or.inl (init_iinv cfg hv).core⟩

/-- the events stage from a loop head or from a mid-period state: no error, mid-period state afterwards -/
theorem rinv_eventsStage {cfg : Cfg K} (hv : Valid cfg.core) {s : State K} (hR : RInv cfg s) :
    ∃ s1, Sim.eventsStage cfg s = (s1, none) ∧ EventCore.Mid cfg.core s.core.iter s1.core := by
  have he := Sim.eventsStage_core cfg s
  rcases hR.core with hI | hM
  · obtain ⟨c1, h1, hm⟩ := mid_of_inv hv hI
    rw [h1] at he
    rcases hes : Sim.eventsStage cfg s with ⟨s1, err⟩
    rw [hes] at he
    simp only [Prod.mk.injEq] at he
    obtain ⟨rfl, rfl⟩ := he
    exact ⟨s1, rfl, hm⟩
  · have h1 := mid_eventsStage hv hM
    rw [h1] at he
    rcases hes : Sim.eventsStage cfg s with ⟨s1, err⟩
    rw [hes] at he
    simp only [Prod.mk.injEq] at he
    obtain ⟨hc, rfl⟩ := he
    exact ⟨s1, rfl, hc ▸ hM⟩

/-- the interval reading after one more recorded period, given C01's invariant at `t + 1` for the new core -/
theorem logInterval_succ {cfg : Cfg K} (hv : Valid cfg.core) {s s' : State K}
    (hlen : s.occLog.length = s.core.iter) (hlogI : LogInterval cfg s)
    (hlog : s'.occLog = s.occLog ++ [cfg.stations.map fun st => (s'.core.occ st.id).map (·.id)])
    (hiter : s'.core.iter = s.core.iter + 1)
    (hInv' : EventCore.Inv cfg.core (s.core.iter + 1) s'.core) : LogInterval cfg s' := by
  intro τ i id
  rw [hlog, hiter]
  rcases Nat.lt_trichotomy τ s.core.iter with hlt | heq | hgt
  · rw [occAt_append_lt _ _ (by rw [hlen]; exact hlt), hlogI τ i id]
    constructor
    · rintro ⟨_, hp⟩; exact ⟨by omega, hp⟩
    · rintro ⟨_, hp⟩; exact ⟨hlt, hp⟩
  · subst heq
    have e1 := occAt_append_eq s.occLog (cfg.stations.map fun st => (s'.core.occ st.id).map (·.id)) i
    rw [hlen] at e1
    rw [e1, occRow_getD]
    cases hi : cfg.stations[i]? with
    | none =>
      simp only
      constructor
      · intro hc; simp at hc
      · rintro ⟨_, st, x, hst, _⟩; simp at hst
    | some st =>
      simp only [occId]
      constructor
      · intro hc
        cases hx : s'.core.occ st.id with
        | none => simp [hx] at hc
        | some x =>
          simp only [hx, Option.map_some, Option.some.injEq] at hc
          obtain ⟨m1, m2, m3, m4⟩ := (hInv'.occ st.id x).1 hx
          refine ⟨Nat.lt_succ_self _, st, x, rfl, m1, hc, m2, ?_, ?_⟩
          · push_cast at m3; omega
          · push_cast at m4; omega
      · rintro ⟨_, st', x, hst, m1, m2, m3, m4, m5⟩
        obtain rfl : st = st' := by simpa using hst
        have hx : s'.core.occ st.id = some x :=
          (hInv'.occ st.id x).2 ⟨m1, m3, by push_cast; omega, by push_cast; omega⟩
        simp [hx, m2]
  · rw [occAt_none_of_ge _ (by simp [hlen]; omega)]
    constructor
    · intro hc; simp at hc
    · rintro ⟨hc, _⟩; omega

/-- ONE PERIOD, completed or aborted (not by the pilots/rates half), from a loop head or from the state an aborted
    period left behind -/
theorem body_rinv {cfg : Cfg K} (hn : StationsNodup cfg) (hv : Valid cfg.core)
    (sched : View K → Except EventCore.Err (Schedule K)) {s s' : State K} {err : Option EventCore.Err}
    (hR : RInv cfg s) (h : Sim.body cfg sched s = (s', err)) (he : ∀ e, err = some e → ¬ ApplyErr e) :
    RInv cfg s' := by
  obtain ⟨s1, hes, hM⟩ := rinv_eventsStage hv hR
  obtain ⟨f1, f2, f3, f4, f5, f6⟩ := eventsStage_frame cfg s hR.led.occ_sound
  rw [hes] at f1 f2 f3 f4 f5 f6
  simp only at f1 f2 f3 f4 f5 f6
  have hL1 : Inv cfg s1 := hR.led.transfer f1 f2 f3 f4 f5 f6
  -- the successful tail of the period, from a state `a` that is `s1` up to pilots / call log / schedule marks
  have tail : ∀ a : State K, Inv cfg a → a.occLog = s.occLog → a.core.iter = s.core.iter →
      a.core.pending = s1.core.pending → a.core.occ = s1.core.occ → a.core.eventHist = s1.core.eventHist →
      a.core.evHist = s1.core.evHist → a.core.resolve = false →
      applyStage cfg a = (s', none) → RInv cfg s' := by
    intro a hLa g4 g5 gp go gh ge gr hap
    have hled := applyStage_ledger hn hLa hap
    obtain ⟨l1, l2, l3⟩ := applyStage_log hn hLa hap
    have hcore : s'.core = advance a.core := by
      have := Sim.applyStage_core cfg a (by rw [hap])
      rw [hap] at this; exact this
    have hInv' : EventCore.Inv cfg.core (s.core.iter + 1) s'.core := by
      apply mid_finish hv hM
      · rw [hcore]; show a.core.iter + 1 = _; rw [g5]
      · rw [hcore]; exact gp
      · rw [hcore]; exact go
      · rw [hcore]; exact gr
      · rw [hcore]; exact gh
      · rw [hcore]; exact ge
    have hiter : s'.core.iter = s.core.iter + 1 := by rw [l2, g5]
    refine ⟨hled, ?_, Or.inl (hiter ▸ hInv')⟩
    exact logInterval_succ hv hR.led.log_len hR.log (by rw [l1, g4]) hiter hInv'
  unfold Sim.body at h
  simp only [hes] at h
  split at h
  · rename_i hns
    split at h
    · -- the scheduler (or `_update_schedules`) raised
      simp only [Prod.mk.injEq] at h
      obtain ⟨rfl, _⟩ := h
      refine ⟨hL1.transfer rfl rfl rfl rfl rfl hL1.occ_sound, ?_, Or.inr ?_⟩
      · intro τ i id
        show occAt s1.occLog τ i = some id ↔ τ < s1.core.iter ∧ _
        rw [f4, f5]; exact hR.log τ i id
      · show EventCore.Mid cfg.core s1.core.iter (markInvoked s1.core)
        rw [f5]; exact hM.markInvoked
    · rename_i m hm
      rcases herr : err with _ | e
      · subst herr
        refine tail ({ s1 with core := markScheduled (markInvoked s1.core), pilots := m } : State K) ?_ f4 f5
          rfl rfl rfl rfl rfl h
        exact hL1.transfer rfl rfl rfl rfl rfl hL1.occ_sound
      · subst herr
        exact absurd (applyStage_err h) (he e rfl)
  · rename_i hns
    rcases herr : err with _ | e
    · subst herr
      refine tail s1 hL1 f4 f5 rfl rfl rfl rfl ?_ h
      simp only [needsSched, Bool.or_eq_true, not_or, Bool.not_eq_true] at hns
      exact hns.1
    · subst herr
      exact absurd (applyStage_err h) (he e rfl)

theorem run_rinv {cfg : Cfg K} (hn : StationsNodup cfg) (hv : Valid cfg.core)
    (sched : View K → Except EventCore.Err (Schedule K)) : ∀ (n : Nat) (s s' : State K) (err : Option EventCore.Err),
    RInv cfg s → Sim.run cfg sched n s = (s', err) → (∀ e, err = some e → ¬ ApplyErr e) → RInv cfg s' := by
  intro n
  induction n with
  | zero =>
    intro s s' err hR h _
    simp only [Sim.run, Prod.mk.injEq] at h
    exact h.1 ▸ hR
  | succ n ih =>
    intro s s' err hR h he
    unfold Sim.run at h
    split at h
    · rcases hb : Sim.body cfg sched s with ⟨s1, _ | e1⟩
      · simp only [hb] at h
        exact ih s1 s' err (body_rinv hn hv sched hR hb (fun e h' => by cases h')) h he
      · simp only [hb, Prod.mk.injEq] at h
        obtain ⟨rfl, rfl⟩ := h
        exact body_rinv hn hv sched hR hb he
    · simp only [Prod.mk.injEq] at h
      exact h.1 ▸ hR

theorem resumed_rinv {cfg : Cfg K} (hn : StationsNodup cfg) (hv : Valid cfg.core) {s : State K}
    (h : Resumed cfg s) : RInv cfg s := by
  induction h with
  | init => exact init_rinv cfg hv
  | call sched n _ hrun he ih => exact run_rinv hn hv sched n _ _ _ ih hrun he

/-- the snapshot at the session's own station number, read as the connection interval (from `LogInterval` alone) -/
theorem occAt_iff_interval_of_log {cfg : Cfg K} (hn : StationsNodup cfg) (hv : Valid cfg.core) {s : State K}
    (hlog : LogInterval cfg s) {id : String} {e0 : Ev K} (h0 : evIn cfg.evs id = some e0) (τ : Nat) :
    occAt s.occLog τ (stationIndex cfg e0.station) = some id ↔
      τ < s.core.iter ∧ e0.arrival ≤ (τ : Int) ∧ (τ : Int) < e0.departure := by
  have hmem : e0 ∈ cfg.evs := List.mem_of_find?_eq_some h0
  have hsid : e0.session = id := evIn_session h0
  have hx0 : sessionOf e0 ∈ cfg.core.sessions := List.mem_map.2 ⟨e0, hmem, rfl⟩
  rw [hlog]
  constructor
  · rintro ⟨hτ, st, x, _, m1, m2, _, m4, m5⟩
    have : x = sessionOf e0 := id_inj hv m1 hx0 (by rw [m2]; exact hsid.symm)
    subst this
    exact ⟨hτ, m4, m5⟩
  · rintro ⟨hτ, m4, m5⟩
    have hreg := hv.registered _ hx0
    simp only [Cfg.core, List.mem_map] at hreg
    obtain ⟨st, hst, hstid⟩ := hreg
    obtain ⟨k, hk⟩ := List.mem_iff_getElem?.1 hst
    have hidx := stationIndex_of hn hk
    rw [hstid] at hidx
    have hidx' : stationIndex cfg e0.station = k := hidx
    refine ⟨hτ, st, sessionOf e0, by rw [hidx']; exact hk, hx0, hsid, hstid.symm, m4, m5⟩

/-- an empty queue — at a loop head or in the state an aborted period left behind — means every session has departed -/
theorem RInv.dep_le_iter {cfg : Cfg K} (hv : Valid cfg.core) {s : State K} (hR : RInv cfg s)
    (hp : s.core.pending = []) : ∀ x ∈ cfg.core.sessions, x.departure ≤ (s.core.iter : Int) := by
  intro x hx
  have hnot : ∀ e, e ∉ s.core.pending := by rw [hp]; simp
  have had := hv.arr_lt_dep x hx
  rcases hR.core with hI | hM
  · by_contra hlt
    rw [not_le] at hlt
    by_cases ha : (s.core.iter : Int) ≤ x.arrival
    · exact hnot _ ((hI.pend_mem (plugEv x)).2 (Or.inl ⟨x, hx, rfl, ha⟩))
    · exact hnot _ ((hI.pend_mem (unplugEv x)).2 (Or.inr (Or.inl ⟨x, hx, rfl, by omega, by omega⟩)))
  · by_contra hlt
    rw [not_le] at hlt
    rcases lt_trichotomy (s.core.iter : Int) x.arrival with ha | ha | ha
    · exact hnot _ ((hM.pend.2 (plugEv x)).2 (Or.inl ⟨Or.inl ⟨x, hx, rfl, by omega⟩, ha⟩))
    · exact hnot _ ((hM.pend.2 (unplugEv x)).2 (Or.inr ⟨x, hx, rfl, ha.symm, by simp⟩))
    · exact hnot _ ((hM.pend.2 (unplugEv x)).2 (Or.inl ⟨Or.inr (Or.inl ⟨x, hx, rfl, ha, by omega⟩), hlt⟩))

end Acn.Ledger
