/-
  Helper lemmas for C10 (stations × the sorting-based algorithms, both preprocessing modes, errors
  included): the WHOLE `Sorted.scheduleCall` under a re-indexing of the stations answers with the
  re-indexed rate vector or with the SAME error (two-sided, unlike `scheduleCall_greedy_mv` /
  `scheduleCall_rr_mv`, which only follow a call that succeeds):
    * `uninterrupted_charging = False`: no two sessions of the call share the sort key;
    * `uninterrupted_charging = True` : no two sessions of the call share `remaining_time` (the order in
      which `apply_minimum_charging_rate` hands the sessions on is then fixed, and the main sort — stable —
      starts from the same list in both calls: ties of the main key do not matter).
-/
import AcnProofs.Lemmas.EquivSortedMinRate

set_option linter.unusedSectionVars false
set_option linter.unusedSimpArgs false
set_option linter.unusedVariables false

namespace Acn.Sorted
open Acn Acn.SimEquiv

variable {K : Type} [Field K] [LinearOrder K] [IsStrictOrderedRing K]

section
variable {σ : List Nat} {n : Nat} (hσ : σ.Perm (List.range n)) (infra : Infra K)
include hσ

/-- `remove_finished_sessions` + `enforce_pilot_limit` of the permuted call -/
theorem pre_perm_mv (period : K) {l l' : List (Session K)} (hp : l'.Perm (l.map (mv σ))) (hl : ∀ s ∈ l, s.idx < n) :
    (enforcePilotLimit (reInfra σ infra) (removeFinished (reInfra σ infra) period l')).Perm
      ((enforcePilotLimit infra (removeFinished infra period l)).map (mv σ)) ∧
    ∀ s ∈ enforcePilotLimit infra (removeFinished infra period l), s.idx < n := by
  have hrl : ∀ s ∈ removeFinished infra period l, s.idx < n := fun s hs => hl s (List.mem_of_mem_filter hs)
  refine ⟨?_, ?_⟩
  · rw [← enforcePilotLimit_mv hσ infra _ hrl, ← removeFinished_mv hσ infra period l hl]
    unfold enforcePilotLimit removeFinished
    exact (hp.filter _).map _
  · intro s hs
    unfold enforcePilotLimit at hs
    obtain ⟨s0, hs0, rfl⟩ := List.mem_map.1 hs
    exact hrl s0 hs0

/-- `resolve` of the permuted call fails iff the original one does -/
theorem resolve_reInfra_error (hn : infra.ids.length = n) {raw raw' : List (Session K)} (hp : raw'.Perm raw)
    {e : Err} (h : resolve infra raw = .error e) : resolve (reInfra σ infra) raw' = .error e := by
  rw [resolve_eq] at h ⊢
  have hall : raw'.all (known (reInfra σ infra)) = raw.all (known infra) := by
    rw [all_perm hp]
    have : known (reInfra σ infra) = known infra := funext (known_reInfra hσ infra hn)
    rw [this]
  rw [hall]
  by_cases hk : raw.all (known infra) = true
  · simp [hk] at h
  · simp only [hk, Bool.false_eq_true, if_false] at h ⊢
    exact h

end

section
variable {σ : List Nat} {n : Nat} (hσ : σ.Perm (List.range n)) (infra : Infra K)
  (feas feas' : List K → Bool) (hf : ∀ x : List K, x.length = n → feas' (reidx σ x 0) = feas x)
include hσ hf

/-- the whole call, given that the two QUEUES correspond (whatever the preprocessing was) -/
theorem scheduleCall_result_mv [HasCeilNat K] (hn : infra.ids.length = n) (hnd : infra.ids.Nodup)
    (hallow : infra.allow.length = n) (cfgS : Config K) (period : K) (time : Int)
    (prev prev' : String → Option (K × K)) (rd rd' : Rampdown K) {raw raw' : List (Session K)} (hp : raw'.Perm raw)
    (hQ : ∀ l l', l = raw.map (resF infra) → l'.Perm (l.map (mv σ)) → (∀ s ∈ l, s.idx < n) →
      sortSessions cfgS.sort (reInfra σ infra) period time
          (preprocess feas' cfgS (reInfra σ infra) period prev' rd' l').1 =
        (sortSessions cfgS.sort infra period time (preprocess feas cfgS infra period prev rd l).1).map (mv σ) ∧
      ∀ s ∈ (preprocess feas cfgS infra period prev rd l).1, s.idx < n) :
    (scheduleCall feas' cfgS (reInfra σ infra) period time prev' rd' raw').result =
      (scheduleCall feas cfgS infra period time prev rd raw).result.map (fun x => reidx σ x 0) ∧
    ∀ out, (scheduleCall feas cfgS infra period time prev rd raw).result = .ok out → out.length = n := by
  rw [scheduleCall_result, scheduleCall_result]
  cases hr : resolve infra raw with
  | error e =>
    rw [resolve_reInfra_error hσ infra hn hp hr]
    exact ⟨rfl, fun out ho => by cases ho⟩
  | ok l =>
    obtain ⟨l', hr', hpl, hl, hleq⟩ := resolve_reInfra hσ infra hn hnd hp hr
    rw [hr']
    simp only
    obtain ⟨hq, hqi⟩ := hQ l l' hleq hpl hl
    have hqi' : ∀ s ∈ sortSessions cfgS.sort infra period time (preprocess feas cfgS infra period prev rd l).1,
        s.idx < n := fun s hs => hqi s ((sortBy_perm _ _).mem_iff.1 hs)
    rw [hq]
    exact allocResult_mv hσ infra feas feas' hf hn hallow cfgS period _ hqi'

/-- interruptible, no estimator: tie-free in the sort key -/
theorem scheduleCall_mv_plain [HasCeilNat K] (hn : infra.ids.length = n) (hnd : infra.ids.Nodup)
    (hallow : infra.allow.length = n) (cfgS : Config K) (he : cfgS.estimate = false) (hu : cfgS.uninterrupted = false)
    (period : K) (time : Int) (prev prev' : String → Option (K × K)) (rd rd' : Rampdown K)
    {raw raw' : List (Session K)} (hp : raw'.Perm raw)
    (hd : ∀ a ∈ preOf infra period raw, ∀ b ∈ preOf infra period raw,
      Acn.C08.sameKey cfgS.sort infra period time a b = true → a = b) :
    (scheduleCall feas' cfgS (reInfra σ infra) period time prev' rd' raw').result =
      (scheduleCall feas cfgS infra period time prev rd raw).result.map (fun x => reidx σ x 0) ∧
    ∀ out, (scheduleCall feas cfgS infra period time prev rd raw).result = .ok out → out.length = n := by
  apply scheduleCall_result_mv hσ infra feas feas' hf hn hnd hallow cfgS period time prev prev' rd rd' hp
  intro l l' hleq hpl hl
  simp only [preprocess, he, hu, Bool.false_eq_true, if_false]
  have hd' : ∀ a ∈ enforcePilotLimit infra (removeFinished infra period l),
      ∀ b ∈ enforcePilotLimit infra (removeFinished infra period l),
      Acn.C08.sameKey cfgS.sort infra period time a b = true → a = b := by
    rw [hleq]; exact hd
  obtain ⟨hq, _⟩ := queue_mv hσ infra cfgS.sort period time hpl hl hd'
  exact ⟨hq, (pre_perm_mv hσ infra period hpl hl).2⟩

/-- `uninterrupted_charging = True`, no estimator: tie-free in `remaining_time` -/
theorem scheduleCall_mv_uninterrupted [HasCeilNat K] (hn : infra.ids.length = n) (hnd : infra.ids.Nodup)
    (hallow : infra.allow.length = n) (cfgS : Config K) (he : cfgS.estimate = false) (hu : cfgS.uninterrupted = true)
    (period : K) (time : Int) (prev prev' : String → Option (K × K)) (rd rd' : Rampdown K)
    {raw raw' : List (Session K)} (hp : raw'.Perm raw) (hd : DistinctRT (preOf infra period raw)) :
    (scheduleCall feas' cfgS (reInfra σ infra) period time prev' rd' raw').result =
      (scheduleCall feas cfgS infra period time prev rd raw).result.map (fun x => reidx σ x 0) ∧
    ∀ out, (scheduleCall feas cfgS infra period time prev rd raw).result = .ok out → out.length = n := by
  apply scheduleCall_result_mv hσ infra feas feas' hf hn hnd hallow cfgS period time prev prev' rd rd' hp
  intro l l' hleq hpl hl
  simp only [preprocess, he, hu, Bool.false_eq_true, if_false, if_true]
  obtain ⟨hpp, hpi⟩ := pre_perm_mv hσ infra period hpl hl
  have hd' : DistinctRT (enforcePilotLimit infra (removeFinished infra period l)) := by
    rw [hleq]; exact hd
  have hm := applyMinimumRate_mv hσ infra feas feas' hf hn period hpp hpi hd'
  have hmi := applyMinimumRate_idx infra feas period n _ hpi
  rw [hm]
  exact ⟨sortSessions_mv hσ infra cfgS.sort period time _ hmi, hmi⟩

end
end Acn.Sorted
