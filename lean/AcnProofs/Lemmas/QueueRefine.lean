/-
  Helper lemmas for C11: the array-heap queue (`Acn.Queue`) refines the specification
  (`Acn.QSpec.Step`) — simulation relation `Refines`, one step, whole runs.
-/
import AcnModel.Queue
import AcnProofs.Lemmas.QueueHeap
import AcnProofs.Lemmas.QueueSpec
import Mathlib.Tactic

namespace Acn
open QSpec

/-- simulation relation: the array is a heap and holds exactly the pending multiset -/
structure Refines (h : Queue.State) (s : QSpec.State) : Prop where
  inv : Heap.Inv Event.keyLt h.heap
  perm : h.heap.toList.Perm s.pending
  ts : h.timestep = s.timestep

theorem fromWire_toWire (l : List Event) : fromWire (toWire l) = l := by
  induction l with
  | nil => rfl
  | cons x xs ih =>
    simp only [fromWire, toWire, List.map_cons] at ih ⊢
    rw [ih]

theorem Refines.empty0 : Refines Queue.empty0 QSpec.empty0 :=
  ⟨Heap.Inv.empty, by simp [Queue.empty0, QSpec.empty0], rfl⟩

theorem Refines.add {h s} (r : Refines h s) (e : Event) :
    Refines (Queue.addEvent h e) { s with pending := s.pending ++ [e] } := by
  obtain ⟨i1, i2⟩ := Heap.heappush_spec keyLt_swo h.heap e r.inv
  refine ⟨i1, ?_, r.ts⟩
  have := Array.perm_iff_toList_perm.mp i2
  simp only [Queue.addEvent]
  refine this.trans ?_
  simp only [Array.toList_push]
  exact List.Perm.append_right _ r.perm

theorem Refines.addAll {h s} (r : Refines h s) (es : List Event) :
    Refines (Queue.addEvents h es) { s with pending := s.pending ++ es } := by
  induction es generalizing h s with
  | nil => simpa [Queue.addEvents] using r
  | cons e es ih =>
    have := ih (r.add e)
    simpa [Queue.addEvents, List.append_assoc] using this

theorem Refines.size {h s} (r : Refines h s) : h.heap.size = s.pending.length := by
  rw [← r.perm.length_eq]; simp

/-- `get_event` on a non-empty queue -/
theorem Refines.get {h s} (r : Refines h s) (hne : 0 < h.heap.size) :
    ∃ e h', Queue.getEvent h = .ok (e, h') ∧ h.heap[0]? = some e ∧ IsMin s.pending e ∧
      Refines h' { s with pending := s.pending.erase e } ∧ h'.heap.size + 1 = h.heap.size := by
  obtain ⟨e, a', hpop, hinv, hperm, hroot, hmin⟩ := Heap.heappop_spec keyLt_swo h.heap r.inv hne
  refine ⟨e, { h with heap := a' }, by simp [Queue.getEvent, hpop], hroot, ?_, ?_, ?_⟩
  · constructor
    · exact r.perm.subset (hperm.symm.subset (by simp))
    · intro x hx; exact hmin x (r.perm.symm.subset hx)
  · refine ⟨hinv, ?_, r.ts⟩
    have h1 : s.pending.Perm (e :: a'.toList) := r.perm.symm.trans hperm
    have := h1.erase e
    simp only [List.erase_cons_head] at this
    exact this.symm
  · have := hperm.length_eq; simp at this; simp; omega

theorem Refines.get_empty {h s} (r : Refines h s) (h0 : h.heap.size = 0) :
    Queue.getEvent h = .error .indexError ∧ s.pending = [] := by
  refine ⟨by simp [Queue.getEvent, Heap.heappop_empty h.heap h0], ?_⟩
  have := r.size; rw [h0] at this
  exact List.length_eq_zero_iff.mp this.symm

/-- the `while` loop of `get_current_events` -/
theorem Refines.curLoop (t : Int) : ∀ (fuel : Nat) (h : Queue.State) (s : QSpec.State)
    (acc : List Event), Refines h s → h.heap.size ≤ fuel →
    ∃ es q', Cur t s.pending es q' ∧ (Queue.getCurrentLoop t fuel h acc).2 = acc ++ es ∧
      Refines (Queue.getCurrentLoop t fuel h acc).1 { s with pending := q' } := by
  intro fuel
  induction fuel with
  | zero =>
    intro h s acc r hf
    have h0 : h.heap.size = 0 := by omega
    have hp := (r.get_empty h0).2
    refine ⟨[], [], by rw [hp]; exact Cur.stopEmpty, by simp [Queue.getCurrentLoop], ?_⟩
    simp only [Queue.getCurrentLoop]
    have : { s with pending := [] } = s := by cases s; simp_all
    rw [this]; exact r
  | succ fuel ih =>
    intro h s acc r hf
    unfold Queue.getCurrentLoop
    by_cases h0 : h.heap.size = 0
    · have hp := (r.get_empty h0).2
      have hn : h.heap[0]? = none := by simp [h0]
      simp only [hn]
      refine ⟨[], [], by rw [hp]; exact Cur.stopEmpty, by simp, ?_⟩
      have : { s with pending := [] } = s := by cases s; simp_all
      rw [this]; exact r
    · obtain ⟨e, h', hget, hroot, hmin, r', hsz⟩ := r.get (by omega)
      simp only [hroot]
      by_cases hle : e.ts ≤ t
      · simp only [if_pos hle, hget]
        obtain ⟨es, q', hcur, hacc, hr⟩ := ih h' _ (acc ++ [e]) r' (by omega)
        refine ⟨e :: es, q', Cur.pop hmin hle hcur, by rw [hacc]; simp, hr⟩
      · simp only [if_neg hle]
        refine ⟨[], s.pending, Cur.stopLater hmin (by omega), by simp, ?_⟩
        exact r

/-- one operation: the heap layer's result is a result the specification allows -/
theorem Refines.step {h s} (r : Refines h s) (op : QOp) :
    ∃ s', Step s op (Queue.step h op).2 s' ∧ Refines (Queue.step h op).1 s' := by
  cases op with
  | add e => exact ⟨_, Step.add s e, r.add e⟩
  | addAll es => exact ⟨_, Step.addAll s es, r.addAll es⟩
  | getEvent =>
    by_cases h0 : h.heap.size = 0
    · obtain ⟨h1, h2⟩ := r.get_empty h0
      simp only [Queue.step, h1]
      exact ⟨s, Step.getEmpty s h2, r⟩
    · obtain ⟨e, h', hget, _, hmin, r', _⟩ := r.get (by omega)
      simp only [Queue.step, hget]
      exact ⟨_, Step.get s e hmin, r'⟩
  | getCurrent t =>
    have r0 : Refines { h with timestep := t } { s with timestep := t } := ⟨r.inv, r.perm, rfl⟩
    obtain ⟨es, q', hcur, hacc, hr⟩ := Refines.curLoop t h.heap.size _ _ [] r0 le_rfl
    simp only [Queue.step, Queue.getCurrent]
    simp only [List.nil_append] at hacc
    rw [hacc]
    exact ⟨_, Step.cur s t es q' hcur, hr⟩
  | len =>
    simp only [Queue.step, Queue.len, r.size]
    exact ⟨s, Step.len s, r⟩
  | empty =>
    have : Queue.empty h = s.pending.isEmpty := by
      simp only [Queue.empty, r.size]
      cases s.pending <;> simp
    simp only [Queue.step, this]
    exact ⟨s, Step.empty s, r⟩
  | last =>
    simp only [Queue.step, Queue.lastTimestamp, lastTsList_perm r.perm]
    exact ⟨s, Step.last s, r⟩
  | roundtrip =>
    simp only [Queue.step, Queue.toJson, Queue.fromJson, fromWire_toWire, r.ts]
    refine ⟨s, Step.roundtrip s _ (by rw [fromWire_toWire]; exact r.perm) ?_, ?_⟩
    · intro p hp
      simp only [toWire, List.mem_map] at hp
      obtain ⟨e, _, rfl⟩ := hp; rfl
    · exact ⟨r.inv, r.perm, r.ts.symm ▸ rfl⟩

/-- whole runs -/
theorem Refines.run {h s} (r : Refines h s) (ops : List QOp) :
    ∃ s', Run s (Queue.run h ops).2 s' ∧ Refines (Queue.run h ops).1 s' := by
  induction ops generalizing h s with
  | nil => exact ⟨s, Run.nil s, r⟩
  | cons op ops ih =>
    obtain ⟨s1, hstep, r1⟩ := r.step op
    obtain ⟨s2, hrun, r2⟩ := ih r1
    exact ⟨s2, Run.cons hstep hrun, r2⟩

/-- the trace of a run lists the operations in order -/
theorem Queue.run_ops (h : Queue.State) (ops : List QOp) :
    (Queue.run h ops).2.map Prod.fst = ops := by
  induction ops generalizing h with
  | nil => rfl
  | cons op ops ih => simp [Queue.run, ih]

end Acn
