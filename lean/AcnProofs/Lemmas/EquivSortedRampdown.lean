/-
  Helper lemmas for C10 (stations × the sorting-based algorithms WITH the rampdown estimator,
  `estimate_max_rate = True`).  `SimpleRampdown.get_maximum_rates` walks the sessions of the call in order
  (station order!) and reads / writes ONE dict entry per session, keyed by session id
  (upper_bound_estimator.py:118-139).  So with pairwise different session ids the dict after the call is
  a function of the SET of sessions: entry `k` is `rampVal` of the old entry of `k` if a session `k` is in
  the call, the old entry otherwise (`rampdownCall_lookup`).  Two estimators are related (`RdEquiv`) when
  they have the same thresholds and the same entries — the listing order of the association list is the
  one thing that depends on the station order, and nothing reads it.
-/
import AcnProofs.Lemmas.EquivSortedStationsU

set_option linter.unusedSectionVars false
set_option linter.unusedSimpArgs false
set_option linter.unusedVariables false

namespace Acn.Sorted
open Acn Acn.SimEquiv

variable {K : Type} [Field K] [LinearOrder K] [IsStrictOrderedRing K]

/-! ### dict assignment -/

theorem lookup_dictSet {V : Type} (d : List (String × V)) (k k' : String) (v : V) :
    (dictSet d k v).lookup k' = if k' = k then some v else d.lookup k' := by
  induction d with
  | nil =>
    simp only [dictSet, List.lookup_cons, List.lookup_nil]
    by_cases h : k' = k
    · subst h; simp
    · have : (k' == k) = false := by simpa using h
      simp [h, this]
  | cons p r ih =>
    obtain ⟨k0, v0⟩ := p
    simp only [dictSet]
    by_cases h0 : k0 = k
    · subst h0
      simp only [beq_self_eq_true, if_true, List.lookup_cons]
      by_cases h : k' = k0
      · subst h; simp
      · have : (k' == k0) = false := by simpa using h
        simp [h, this]
    · have hb : (k0 == k) = false := by simpa using h0
      simp only [hb, Bool.false_eq_true, if_false, List.lookup_cons, ih]
      by_cases h : k' = k
      · subst h
        have : (k' == k0) = false := by simpa using fun e : k' = k0 => h0 e.symm
        simp [this]
      · simp [h]

/-! ### one step of the estimator, as a function of the old entry -/

/-- the new upper bound of a session from its old entry `b` (`none`: no entry yet) -/
def rampVal (upTh downTh upInc maxPilot : K) (prev : Option (K × K)) (b : Option K) : K :=
  let u0 := match b with
    | some u => u
    | none => maxPilot
  match prev with
  | none => u0
  | some (pp, pr) =>
    let ub := if downTh < pp - pr then pr + upInc else if u0 - pr < upTh then u0 + upInc else u0
    let ub := if ub < 0 then 0 else ub
    if maxPilot < ub then maxPilot else ub

theorem rampStep_th (maxPilot : K) (sid : String) (prev : Option (K × K)) (rd : Rampdown K) :
    (rampStep maxPilot sid prev rd).upTh = rd.upTh ∧ (rampStep maxPilot sid prev rd).downTh = rd.downTh ∧
    (rampStep maxPilot sid prev rd).upInc = rd.upInc := by
  unfold rampStep
  cases prev with
  | none => exact ⟨rfl, rfl, rfl⟩
  | some p => obtain ⟨pp, pr⟩ := p; exact ⟨rfl, rfl, rfl⟩

theorem rampStep_lookup (maxPilot : K) (sid : String) (prev : Option (K × K)) (rd : Rampdown K) (k : String) :
    (rampStep maxPilot sid prev rd).bounds.lookup k =
      if k = sid then some (rampVal rd.upTh rd.downTh rd.upInc maxPilot prev (rd.bounds.lookup sid))
      else rd.bounds.lookup k := by
  unfold rampStep rampVal
  by_cases h : k = sid
  · subst h
    cases hb : rd.bounds.lookup k with
    | none =>
      cases prev with
      | none => simp [lookup_dictSet]
      | some p => obtain ⟨pp, pr⟩ := p; simp [lookup_dictSet]
    | some u =>
      cases prev with
      | none => simp [hb]
      | some p => obtain ⟨pp, pr⟩ := p; simp [lookup_dictSet, hb]
  · cases hb : rd.bounds.lookup sid with
    | none =>
      cases prev with
      | none => simp [lookup_dictSet, h]
      | some p => obtain ⟨pp, pr⟩ := p; simp [lookup_dictSet, h]
    | some u =>
      cases prev with
      | none => simp [h]
      | some p => obtain ⟨pp, pr⟩ := p; simp [lookup_dictSet, h]

/-! ### the whole call -/

def rampF (infra : Infra K) (prev : String → Option (K × K)) (rd : Rampdown K) (s : Session K) : Rampdown K :=
  rampStep (infra.maxPilot.getD s.idx 0) s.session (prev s.session) rd

theorem rampdownCall_eq (infra : Infra K) (prev : String → Option (K × K)) (rd : Rampdown K) (l : List (Session K)) :
    rampdownCall infra prev rd l = l.foldl (rampF infra prev) rd := rfl

theorem rampdownCall_th (infra : Infra K) (prev : String → Option (K × K)) : ∀ (l : List (Session K)) (rd : Rampdown K),
    (rampdownCall infra prev rd l).upTh = rd.upTh ∧ (rampdownCall infra prev rd l).downTh = rd.downTh ∧
    (rampdownCall infra prev rd l).upInc = rd.upInc := by
  intro l
  induction l with
  | nil => intro rd; exact ⟨rfl, rfl, rfl⟩
  | cons a t ih =>
    intro rd
    rw [rampdownCall_eq, List.foldl_cons, ← rampdownCall_eq]
    obtain ⟨a1, a2, a3⟩ := ih (rampF infra prev rd a)
    obtain ⟨b1, b2, b3⟩ := rampStep_th (infra.maxPilot.getD a.idx 0) a.session (prev a.session) rd
    exact ⟨a1.trans b1, a2.trans b2, a3.trans b3⟩

/-- the dict after the call, entry by entry (session ids pairwise different) -/
theorem rampdownCall_lookup (infra : Infra K) (prev : String → Option (K × K)) :
    ∀ (l : List (Session K)) (rd : Rampdown K), (l.map (·.session)).Nodup → ∀ k : String,
      (rampdownCall infra prev rd l).bounds.lookup k =
        match l.find? (fun s => s.session == k) with
        | some s => some (rampVal rd.upTh rd.downTh rd.upInc (infra.maxPilot.getD s.idx 0) (prev k) (rd.bounds.lookup k))
        | none => rd.bounds.lookup k := by
  intro l
  induction l with
  | nil => intro rd _ k; rfl
  | cons a t ih =>
    intro rd hnd k
    simp only [List.map_cons, List.nodup_cons] at hnd
    rw [rampdownCall_eq, List.foldl_cons, ← rampdownCall_eq, ih _ hnd.2 k]
    obtain ⟨b1, b2, b3⟩ := rampStep_th (infra.maxPilot.getD a.idx 0) a.session (prev a.session) rd
    have hF : (rampF infra prev rd a).bounds.lookup k =
        if k = a.session then some (rampVal rd.upTh rd.downTh rd.upInc (infra.maxPilot.getD a.idx 0) (prev a.session)
          (rd.bounds.lookup a.session)) else rd.bounds.lookup k :=
      rampStep_lookup _ _ _ rd k
    by_cases hk : a.session = k
    · have hb : (a.session == k) = true := by simpa using hk
      have hnone : t.find? (fun s => s.session == k) = none := by
        rw [List.find?_eq_none]
        intro x hx
        simp only [beq_iff_eq]
        intro hxk
        exact hnd.1 (List.mem_map.2 ⟨x, hx, hxk.trans hk.symm⟩)
      rw [hnone]
      simp only [List.find?_cons, hb]
      rw [hF, if_pos hk.symm, hk]
    · have hb : (a.session == k) = false := by simpa using hk
      simp only [List.find?_cons, hb]
      have hk' : ¬ k = a.session := fun e => hk e.symm
      rw [hF, if_neg hk']
      show (match t.find? (fun s => s.session == k) with
        | some s => some (rampVal (rampF infra prev rd a).upTh (rampF infra prev rd a).downTh (rampF infra prev rd a).upInc
            (infra.maxPilot.getD s.idx 0) (prev k) (rd.bounds.lookup k))
        | none => rd.bounds.lookup k) = _
      have c1 : (rampF infra prev rd a).upTh = rd.upTh := b1
      have c2 : (rampF infra prev rd a).downTh = rd.downTh := b2
      have c3 : (rampF infra prev rd a).upInc = rd.upInc := b3
      rw [c1, c2, c3]

/-- two estimators with the same thresholds and the same entries -/
structure RdEquiv (rd rd' : Rampdown K) : Prop where
  upTh : rd'.upTh = rd.upTh
  downTh : rd'.downTh = rd.downTh
  upInc : rd'.upInc = rd.upInc
  lookup : ∀ k, rd'.bounds.lookup k = rd.bounds.lookup k

theorem RdEquiv.refl (rd : Rampdown K) : RdEquiv rd rd := ⟨rfl, rfl, rfl, fun _ => rfl⟩

/-- `find?` by a key that is pairwise different is the same in every listing order -/
theorem find_session_perm (σ : List Nat) {l l' : List (Session K)} (hp : l'.Perm (l.map (mv σ)))
    (hnd : (l.map (·.session)).Nodup) (k : String) :
    l'.find? (fun s => s.session == k) = (l.find? (fun s => s.session == k)).map (mv σ) := by
  cases h1 : l.find? (fun s => s.session == k) with
  | none =>
    rw [List.find?_eq_none] at h1
    simp only [Option.map_none]
    rw [List.find?_eq_none]
    intro x hx
    obtain ⟨s, hs, rfl⟩ := List.mem_map.1 (hp.mem_iff.1 hx)
    exact h1 s hs
  | some s =>
    have hs : s ∈ l := List.mem_of_find?_eq_some h1
    have hid : s.session = k := by simpa using List.find?_some h1
    simp only [Option.map_some]
    cases h2 : l'.find? (fun s => s.session == k) with
    | none =>
      rw [List.find?_eq_none] at h2
      have hm : mv σ s ∈ l' := hp.mem_iff.2 (List.mem_map.2 ⟨s, hs, rfl⟩)
      have := h2 _ hm
      simp only [beq_iff_eq] at this
      exact absurd hid this
    | some e2 =>
      obtain ⟨s2, hs2, rfl⟩ := List.mem_map.1 (hp.mem_iff.1 (List.mem_of_find?_eq_some h2))
      have hid2 : (mv σ s2).session = k := by simpa using List.find?_some h2
      have hid2' : s2.session = k := hid2
      rw [List.inj_on_of_nodup_map hnd hs2 hs (hid2'.trans hid.symm)]

section
variable {σ : List Nat} {n : Nat} (hσ : σ.Perm (List.range n)) (infra : Infra K)
include hσ

/-- the estimator after the permuted call is related to the estimator after the original call -/
theorem rampdownCall_mv (prev : String → Option (K × K)) {rd rd' : Rampdown K} (hR : RdEquiv rd rd')
    {l l' : List (Session K)} (hp : l'.Perm (l.map (mv σ))) (hl : ∀ s ∈ l, s.idx < n)
    (hnd : (l.map (·.session)).Nodup) :
    RdEquiv (rampdownCall infra prev rd l) (rampdownCall (reInfra σ infra) prev rd' l') := by
  obtain ⟨a1, a2, a3⟩ := rampdownCall_th infra prev l rd
  obtain ⟨b1, b2, b3⟩ := rampdownCall_th (reInfra σ infra) prev l' rd'
  refine ⟨by rw [b1, a1, hR.upTh], by rw [b2, a2, hR.downTh], by rw [b3, a3, hR.upInc], ?_⟩
  intro k
  have hnd' : (l'.map (·.session)).Nodup := by
    have : (l'.map (·.session)).Perm (l.map (·.session)) := by
      have := hp.map (·.session)
      rw [List.map_map] at this
      exact this
    exact this.nodup_iff.2 hnd
  rw [rampdownCall_lookup infra prev l rd hnd k, rampdownCall_lookup (reInfra σ infra) prev l' rd' hnd' k,
    find_session_perm σ hp hnd k]
  cases h1 : l.find? (fun s => s.session == k) with
  | none => simp only [Option.map_none]; exact hR.lookup k
  | some s =>
    simp only [Option.map_some]
    have hs : s ∈ l := List.mem_of_find?_eq_some h1
    rw [maxPilot_mv hσ infra (hl s hs), hR.upTh, hR.downTh, hR.upInc, hR.lookup k]

omit hσ in
theorem applyUpperBound_idx (b : List (String × K)) (l : List (Session K)) (m : Nat) (hl : ∀ s ∈ l, s.idx < m) :
    ∀ s ∈ applyUpperBound b l, s.idx < m := by
  intro s hs
  unfold applyUpperBound at hs
  obtain ⟨s0, hs0, rfl⟩ := List.mem_map.1 hs
  split
  · rw [reconcile_idx]; exact hl s0 hs0
  · rw [reconcile_idx]; exact hl s0 hs0

omit hσ in
/-- `apply_upper_bound_estimate` under two listings of the same dict -/
theorem applyUpperBound_mv {b b' : List (String × K)} (hb : ∀ k, b'.lookup k = b.lookup k)
    {l l' : List (Session K)} (hp : l'.Perm (l.map (mv σ))) :
    (applyUpperBound b' l').Perm ((applyUpperBound b l).map (mv σ)) := by
  unfold applyUpperBound
  refine (hp.map _).trans ?_
  rw [List.map_map, List.map_map]
  apply List.Perm.of_eq
  apply List.map_congr_left
  intro s _
  simp only [Function.comp]
  have hs : (mv σ s).session = s.session := rfl
  rw [hs, hb]
  cases b.lookup s.session with
  | none => simp only; exact reconcile_mv σ s
  | some u =>
    simp only
    rw [← reconcile_mv]
    rfl

/-- the sort of a permuted, tie-free list of re-indexed sessions -/
theorem sort_of_perm_mv (kind : SortKind) (period : K) (time : Int) {l l' : List (Session K)}
    (hp : l'.Perm (l.map (mv σ))) (hl : ∀ s ∈ l, s.idx < n)
    (hd : ∀ a ∈ l, ∀ b ∈ l, Acn.C08.sameKey kind infra period time a b = true → a = b) :
    sortSessions kind (reInfra σ infra) period time l' = (sortSessions kind infra period time l).map (mv σ) := by
  rw [sortSessions_perm_of_distinct (reInfra σ infra) kind period time _ _ hp, sortSessions_mv hσ infra kind period time _ hl]
  intro a' ha' b' hb' hk
  obtain ⟨a, ha, rfl⟩ := List.mem_map.1 ha'
  obtain ⟨b, hb, rfl⟩ := List.mem_map.1 hb'
  have : Acn.C08.sameKey kind infra period time a b = true := by
    unfold Acn.C08.sameKey at hk ⊢
    rw [sortLt_mv hσ infra kind period time (hl a ha) (hl b hb),
      sortLt_mv hσ infra kind period time (hl b hb) (hl a ha)] at hk
    exact hk
  rw [hd a ha b hb this]

end

/-! ### the whole call with the estimator -/

/-- the sessions of the call after `apply_upper_bound_estimate` (the estimator already updated) -/
def preOfE (infra : Infra K) (period : K) (prev : String → Option (K × K)) (rd : Rampdown K)
    (raw : List (Session K)) : List (Session K) :=
  applyUpperBound (rampdownCall infra prev rd (preOf infra period raw)).bounds (preOf infra period raw)

/-- tie-freeness for a call with the estimator: in the sort key (interruptible) resp. in `remaining_time`
    (`uninterrupted_charging`), on the sessions as `apply_upper_bound_estimate` leaves them -/
def TieOKE (cfgS : Config K) (infra : Infra K) (period : K) (time : Int) (prev : String → Option (K × K))
    (rd : Rampdown K) (raw : List (Session K)) : Prop :=
  if cfgS.uninterrupted then DistinctRT (preOfE infra period prev rd raw)
  else ∀ a ∈ preOfE infra period prev rd raw, ∀ b ∈ preOfE infra period prev rd raw,
    Acn.C08.sameKey cfgS.sort infra period time a b = true → a = b

theorem preOf_sessions_nodup (infra : Infra K) (period : K) (raw : List (Session K))
    (h : (raw.map (·.session)).Nodup) : ((preOf infra period raw).map (·.session)).Nodup := by
  unfold preOf enforcePilotLimit removeFinished
  rw [List.map_map]
  have e : ((fun s : Session K => s.session) ∘ fun s : Session K =>
      ({ s with maxRate := pyMin s.maxRate (infra.maxPilot.getD s.idx 0) } : Session K)) = fun s => s.session := rfl
  rw [e]
  refine List.Nodup.sublist (List.Sublist.map _ List.filter_sublist) ?_
  rw [List.map_map]
  exact h

section
variable {σ : List Nat} {n : Nat} (hσ : σ.Perm (List.range n)) (infra : Infra K)
  (feas feas' : List K → Bool) (hf : ∀ x : List K, x.length = n → feas' (reidx σ x 0) = feas x)
include hσ hf

/-- the whole call with `estimate_max_rate = True`: the re-indexed rate vector or the same error, and
    related estimators afterwards -/
theorem scheduleCall_mv_rampdown [HasCeilNat K] (hn : infra.ids.length = n) (hnd : infra.ids.Nodup)
    (hallow : infra.allow.length = n) (cfgS : Config K) (he : cfgS.estimate = true)
    (period : K) (time : Int) (prev : String → Option (K × K)) {rd rd' : Rampdown K} (hR : RdEquiv rd rd')
    {raw raw' : List (Session K)} (hp : raw'.Perm raw) (hsess : (raw.map (·.session)).Nodup)
    (hd : TieOKE cfgS infra period time prev rd raw) :
    ((scheduleCall feas' cfgS (reInfra σ infra) period time prev rd' raw').result =
      (scheduleCall feas cfgS infra period time prev rd raw).result.map (fun x => reidx σ x 0) ∧
    ∀ out, (scheduleCall feas cfgS infra period time prev rd raw).result = .ok out → out.length = n) ∧
    RdEquiv (scheduleCall feas cfgS infra period time prev rd raw).rd
      (scheduleCall feas' cfgS (reInfra σ infra) period time prev rd' raw').rd := by
  -- what the preprocessing does to a resolved, permuted list
  have key : ∀ l l', l = raw.map (resF infra) → l'.Perm (l.map (mv σ)) → (∀ s ∈ l, s.idx < n) →
      (sortSessions cfgS.sort (reInfra σ infra) period time
          (preprocess feas' cfgS (reInfra σ infra) period prev rd' l').1 =
        (sortSessions cfgS.sort infra period time (preprocess feas cfgS infra period prev rd l).1).map (mv σ) ∧
      ∀ s ∈ (preprocess feas cfgS infra period prev rd l).1, s.idx < n) ∧
      RdEquiv (preprocess feas cfgS infra period prev rd l).2 (preprocess feas' cfgS (reInfra σ infra) period prev rd' l').2 := by
    intro l l' hleq hpl hl
    obtain ⟨hpp, hpi⟩ := pre_perm_mv hσ infra period hpl hl
    have hpre : enforcePilotLimit infra (removeFinished infra period l) = preOf infra period raw := by
      rw [hleq]; rfl
    have hnd1 : ((enforcePilotLimit infra (removeFinished infra period l)).map (·.session)).Nodup := by
      rw [hpre]
      exact preOf_sessions_nodup infra period raw hsess
    have hR1 := rampdownCall_mv hσ infra prev hR hpp hpi hnd1
    have hub := applyUpperBound_mv (σ := σ) hR1.lookup hpp
    have hubi := applyUpperBound_idx (rampdownCall infra prev rd (enforcePilotLimit infra (removeFinished infra period l))).bounds
      _ n hpi
    simp only [preprocess, he, if_true]
    refine ⟨?_, hR1⟩
    unfold TieOKE preOfE at hd
    rw [← hpre] at hd
    by_cases hu : cfgS.uninterrupted = true
    · simp only [hu, if_true] at hd ⊢
      have hm := applyMinimumRate_mv hσ infra feas feas' hf hn period hub hubi hd
      have hmi := applyMinimumRate_idx infra feas period n _ hubi
      rw [hm]
      exact ⟨sortSessions_mv hσ infra cfgS.sort period time _ hmi, hmi⟩
    · simp only [hu, Bool.false_eq_true, if_false] at hd ⊢
      exact ⟨sort_of_perm_mv hσ infra cfgS.sort period time hub hubi hd, hubi⟩
  refine ⟨?_, ?_⟩
  · exact scheduleCall_result_mv hσ infra feas feas' hf hn hnd hallow cfgS period time prev prev rd rd' hp
      (fun l l' h1 h2 h3 => (key l l' h1 h2 h3).1)
  · rw [scheduleCall_rd, scheduleCall_rd]
    cases hr : resolve infra raw with
    | error e =>
      rw [resolve_reInfra_error hσ infra hn hp hr]
      exact hR
    | ok l =>
      obtain ⟨l', hr', hpl, hl, hleq⟩ := resolve_reInfra hσ infra hn hnd hp hr
      rw [hr']
      exact (key l l' hleq hpl hl).2

end
end Acn.Sorted
