/-
  Capstone helper (1/3): every run of the simulator loop with a STATEFUL scheduler (`SimSortedRd.runSt`: the
  scheduler object persists from call to call — the rampdown estimator, any estimator) IS a run of the stateless loop
  `Sim.run` under some pure scheduler, namely the one that answers, for a view of period `t`, what the stateful
  scheduler answered in period `t` of that run ("replay").  The loop consults the scheduler at most once per period and
  the period counter increases by one per trip, so the replay scheduler is well defined.

  Consequence: every theorem proved about `Sim.run` for ANY scheduler (C01, C02, C05, C18Sim) holds verbatim for the
  runs with a stateful scheduler (C07's rampdown / any-estimator runs) — `runSt_replay`.
-/
import AcnProofs.Lemmas.SimStRun

set_option linter.unusedSectionVars false

namespace Acn.Capstone
open Acn Acn.EventCore Acn.Sim Acn.SimSortedRd

/-! ### the period counter -/

theorem process_iter (cfg : EventCore.Cfg) (e : Event) (c : Core) :
    (EventCore.process cfg e c).1.iter = c.iter := by
  unfold EventCore.process
  repeat' split
  all_goals rfl

theorem processAll_iter (cfg : EventCore.Cfg) : ∀ (l : List Event) (c : Core),
    (EventCore.processAll cfg l c).1.iter = c.iter := by
  intro l
  induction l with
  | nil => intro c; rfl
  | cons e es ih =>
    intro c
    unfold EventCore.processAll
    have h := process_iter cfg e { c with eventHist := c.eventHist ++ [e] }
    rcases hs : EventCore.step cfg e c with ⟨c2, _ | err⟩
    · simp only
      rw [ih c2]
      unfold EventCore.step at hs
      rw [hs] at h
      exact h
    · simp only
      unfold EventCore.step at hs
      rw [hs] at h
      exact h

theorem eventsStage_iter (cfg : EventCore.Cfg) (c : Core) : (EventCore.eventsStage cfg c).1.iter = c.iter := by
  unfold EventCore.eventsStage
  rw [processAll_iter]

section sim
variable {K : Type} [Add K] [Sub K] [Mul K] [Div K] [Neg K] [LT K] [LE K]
  [DecidableLT K] [DecidableLE K] [OfNat K 0] [OfNat K 1] [NatCast K] [HasExp K]
variable {σ : Type}

theorem sim_eventsStage_iter (cfg : Cfg K) (s : State K) : (Sim.eventsStage cfg s).1.core.iter = s.core.iter := by
  have h := Sim.eventsStage_core cfg s
  have h1 : (Sim.eventsStage cfg s).1.core = (EventCore.eventsStage cfg.core s.core).1 := congrArg Prod.fst h
  rw [h1, eventsStage_iter]

/-- a trip round the loop that raises nothing advances the period counter by exactly one -/
theorem body_iter (cfg : Cfg K) (sched : View K → Except Err (Schedule K)) (s s' : State K)
    (h : Sim.body cfg sched s = (s', none)) : s'.core.iter = s.core.iter + 1 := by
  have hb := Sim.body_core cfg sched s (by rw [h])
  rw [h] at hb
  simp only at hb
  have he := eventsStage_iter cfg.core s.core
  unfold EventCore.body at hb
  rcases hes : EventCore.eventsStage cfg.core s.core with ⟨c1, _ | e⟩
  · rw [hes] at hb he
    simp only at hb he
    split at hb
    · simp only [noFail, finish] at hb
      have := congrArg (fun p => p.1.iter) hb
      simp only [advance, markScheduled, markInvoked] at this
      omega
    · simp only [noFail, finish] at hb
      have := congrArg (fun p => p.1.iter) hb
      simp only [advance] at this
      omega
  · rw [hes] at hb
    simp at hb

/-- one trip round the loop consults the scheduler only on a view of the current period -/
theorem body_congr (cfg : Cfg K) (f g : View K → Except Err (Schedule K)) (s : State K)
    (h : ∀ v, v.iter = s.core.iter → f v = g v) : Sim.body cfg f s = Sim.body cfg g s := by
  have hi := sim_eventsStage_iter cfg s
  unfold Sim.body
  rcases hes : Sim.eventsStage cfg s with ⟨s1, _ | e⟩
  · rw [hes] at hi
    simp only at hi ⊢
    have hst : Sim.schedStage cfg f { s1 with core := markInvoked s1.core } =
        Sim.schedStage cfg g { s1 with core := markInvoked s1.core } := by
      unfold Sim.schedStage
      rw [h (view cfg { s1 with core := markInvoked s1.core }) (by simpa [view, markInvoked] using hi)]
    rw [hst]
  · rfl

/-- the rest of a run depends on the scheduler only through the views of the periods still to come -/
theorem run_congr_ge (cfg : Cfg K) (f g : View K → Except Err (Schedule K)) : ∀ (n : Nat) (s : State K),
    (∀ v, s.core.iter ≤ v.iter → f v = g v) → Sim.run cfg f n s = Sim.run cfg g n s := by
  intro n
  induction n with
  | zero => intro s _; rfl
  | succ n ih =>
    intro s h
    unfold Sim.run
    split
    · rw [body_congr cfg f g s (fun v hv => h v (by omega))]
      rcases hb : Sim.body cfg g s with ⟨s', _ | e⟩
      · simp only
        have hi := body_iter cfg g s s' hb
        exact ih s' (fun v hv => h v (by omega))
      · rfl
    · rfl

/-- **Replay.**  For every stateful scheduler, fuel, scheduler state and simulator state there is a PURE scheduler
    `f` — pointwise an answer of the stateful scheduler in one of its states — such that the stateless run under `f`
    is the stateful run: same final simulator state, same error. -/
theorem runSt_replay (cfg : Cfg K) (sched : σ → View K → Except Err (Schedule K × σ)) :
    ∀ (n : Nat) (st : σ) (s : State K),
      ∃ f : View K → Except Err (Schedule K),
        Sim.run cfg f n s = (runSt cfg sched n st s).1 ∧ ∀ v, ∃ st', f v = frozen sched st' v := by
  intro n
  induction n with
  | zero => intro st s; exact ⟨frozen sched st, rfl, fun v => ⟨st, rfl⟩⟩
  | succ n ih =>
    intro st s
    by_cases hg : guard s.core = true
    · have hfst := bodySt_fst cfg sched st s
      rcases hb : bodySt cfg sched st s with ⟨⟨s', _ | e⟩, st'⟩
      · rw [hb] at hfst
        simp only at hfst
        obtain ⟨f', hf', hfr⟩ := ih st' s'
        refine ⟨fun v => if v.iter = s.core.iter then frozen sched st v else f' v, ?_, ?_⟩
        · unfold Sim.run runSt
          simp only [hg, if_true, hb]
          rw [body_congr cfg _ (frozen sched st) s (fun v hv => by simp only [hv, if_true]), ← hfst]
          simp only
          have hi := body_iter cfg (frozen sched st) s s' hfst.symm
          rw [run_congr_ge cfg _ f' n s' (fun v hv => by
            have : v.iter ≠ s.core.iter := by omega
            simp only [this, if_false])]
          exact hf'
        · intro v
          by_cases hv : v.iter = s.core.iter
          · exact ⟨st, by simp only [hv, if_true]⟩
          · obtain ⟨st2, h2⟩ := hfr v
            exact ⟨st2, by simp only [hv, if_false]; exact h2⟩
      · rw [hb] at hfst
        simp only at hfst
        refine ⟨frozen sched st, ?_, fun v => ⟨st, rfl⟩⟩
        unfold Sim.run runSt
        simp only [hg, if_true, hb, ← hfst]
    · refine ⟨frozen sched st, ?_, fun v => ⟨st, rfl⟩⟩
      unfold Sim.run runSt
      simp only [hg]
      rfl

end sim

/-- the per-call guarantees of C07 (`SchedSafe`) pass from the frozen states of a stateful scheduler to every pure
    scheduler that pointwise answers like one of them (in particular to the replay scheduler) -/
theorem schedSafe_of_pointwise {σ : Type} (feasP : List ℝ → Bool) (cfg : Sim.Cfg ℝ) (inf : ℝ)
    (sched : σ → Sim.View ℝ → Except Err (Sim.Schedule ℝ × σ))
    (hs : ∀ st, Sorted.SchedSafe feasP cfg inf (frozen sched st))
    (f : Sim.View ℝ → Except Err (Sim.Schedule ℝ)) (hf : ∀ v, ∃ st', f v = frozen sched st' v) :
    Sorted.SchedSafe feasP cfg inf f := by
  constructor
  · intro v e h
    obtain ⟨st', h'⟩ := hf v
    rw [h'] at h
    exact (hs st').err v e h
  · intro a ho hev sch h
    obtain ⟨st', h'⟩ := hf (Sim.view cfg a)
    rw [h'] at h
    exact (hs st').ok a ho hev sch h

end Acn.Capstone
