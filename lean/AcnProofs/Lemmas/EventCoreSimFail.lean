/-
  UNCONDITIONAL projection of the full simulator model onto the event core: also when a period
  raises (scheduler crash, rejected schedule, invalid pilot, StationOccupied, …) the core of the
  state the simulator is left in is what `EventCore.body` leaves, with the stage outcomes of the
  full model plugged in for the `sched` / `apply` parameters.  (For crash/resume reasoning, C09.)
-/
import AcnProofs.Lemmas.EventCoreSim

set_option linter.unusedSectionVars false

namespace Acn.Sim
open Acn Acn.EventCore

variable {K : Type} [Add K] [Sub K] [Mul K] [Div K] [Neg K] [LT K] [LE K]
  [DecidableLT K] [DecidableLE K] [OfNat K 0] [OfNat K 1] [NatCast K] [HasExp K]

/-- the core after the pilots/rates half of a period, whether or not it raised -/
theorem applyStage_core_any (cfg : Cfg K) (s : State K) :
    (applyStage cfg s).1.core =
      match (applyStage cfg s).2 with
      | none => advance s.core
      | some _ => s.core := by
  rcases h : (applyStage cfg s).2 with _ | e
  · exact applyStage_core cfg s h
  · simp only
    unfold applyStage at h ⊢
    have hc1 : (widen s).core = s.core := rfl
    generalize widen s = s1 at h hc1 ⊢
    by_cases hcond : s1.pilots.width ≤ s.core.iter
    · simp only [hcond, if_true]; exact hc1
    · simp only [hcond, if_false] at h ⊢
      have hu := updatePilotsFrom_core cfg cfg.stations 0 s1
      rcases hup : updatePilots cfg s1 with ⟨s2, _ | e2⟩
      · simp only [hup] at h ⊢
        have hr := storeRates_core cfg (widthInc s) s2
        unfold updatePilots at hup
        rw [hup] at hu
        rcases hst : storeRates cfg (widthInc s) s2 with ⟨s3, _ | e3⟩
        · simp [hst] at h
        · rw [hst] at hr
          simp only at hr hu ⊢
          rw [hr, hu, hc1]
      · unfold updatePilots at hup
        rw [hup] at hu
        simp only at hu ⊢
        rw [hu, hc1]

/-- what `scheduler.run()` + `_update_schedules` raised in the period started in `s` (if reached) -/
def schedOutcome (cfg : Cfg K) (sched : View K → Except Err (Schedule K)) (s : State K) : Option Err :=
  match schedStage cfg sched { (eventsStage cfg s).1 with core := markInvoked (eventsStage cfg s).1.core } with
  | .error e => some e
  | .ok _ => none

/-- what `update_pilots` / `_store_actual_charging_rates` raised in that period (if reached) -/
def applyOutcome (cfg : Cfg K) (sched : View K → Except Err (Schedule K)) (s : State K) : Option Err :=
  let s1 := (eventsStage cfg s).1
  if needsSched cfg.maxRecompute s1.core then
    match schedStage cfg sched { s1 with core := markInvoked s1.core } with
    | .ok m => (applyStage cfg { s1 with core := markScheduled (markInvoked s1.core), pilots := m }).2
    | .error _ => none
  else (applyStage cfg s1).2

/-- PROJECTION, unconditional: state AND error of a period of the full model project onto
    `EventCore.body` -/
theorem body_core_any (cfg : Cfg K) (sched : View K → Except Err (Schedule K)) (s : State K) :
    EventCore.body cfg.core (fun _ => schedOutcome cfg sched s) (fun _ => applyOutcome cfg sched s) s.core =
      ((body cfg sched s).1.core, (body cfg sched s).2) := by
  have he := eventsStage_core cfg s
  unfold schedOutcome applyOutcome
  unfold body EventCore.body
  rw [← he]
  rcases hes : eventsStage cfg s with ⟨s1, _ | e⟩
  · simp only
    by_cases hn : needsSched cfg.maxRecompute s1.core = true
    · have hn' : needsSched cfg.core.maxRecompute s1.core = true := hn
      simp only [hn, hn', if_true, finish]
      rcases hsch : schedStage cfg sched { s1 with core := markInvoked s1.core } with e | m
      · rfl
      · simp only
        have ha := applyStage_core_any cfg
          ({ s1 with core := markScheduled (markInvoked s1.core), pilots := m } : State K)
        rcases hap : (applyStage cfg
          ({ s1 with core := markScheduled (markInvoked s1.core), pilots := m } : State K)).2 with _ | e
        · rw [hap] at ha; simp only at ha ⊢
          exact Prod.ext ha.symm rfl
        · rw [hap] at ha; simp only at ha ⊢
          exact Prod.ext ha.symm rfl
    · have hn' : ¬ needsSched cfg.core.maxRecompute s1.core = true := hn
      simp only [hn, hn', finish]
      simp only [Bool.false_eq_true, if_false]
      have ha := applyStage_core_any cfg s1
      rcases hap : (applyStage cfg s1).2 with _ | e
      · rw [hap] at ha; simp only at ha ⊢
        exact Prod.ext ha.symm rfl
      · rw [hap] at ha; simp only at ha ⊢
        exact Prod.ext ha.symm rfl
  · rfl

end Acn.Sim
