/-
  Helper lemmas for C05 (3/3): the full simulator model and its scheduler parameter.
  * `Sim.body` consults the scheduler on `handedView` only (`body_congr`), hence at most once per
    period, after the period's events, and the next state is a function of (state, returned value);
  * the views recorded by `runViews` are in 1-1 correspondence with the invocations (`run_invoked_views`);
  * `run_congr`: two schedulers that answer alike on the views handed out produce the same run;
  * what the fields of a view are, in terms of the simulator state.
-/
import AcnModel.SchedView
import AcnProofs.Lemmas.EventCoreSim
import AcnProofs.Lemmas.SchedTrace

namespace Acn.Sim
open Acn Acn.EventCore

set_option linter.unusedSectionVars false

variable {K : Type} [Add K] [Sub K] [Mul K] [Div K] [Neg K] [LT K] [LE K]
  [DecidableLT K] [DecidableLE K] [OfNat K 0] [OfNat K 1] [NatCast K] [HasExp K]

/-! ### the scheduler is consulted on the handed view only -/

theorem body_congr (cfg : Cfg K) (sched sched' : View K → Except Err (Schedule K)) (s : State K)
    (h : ∀ v, handedView cfg s = some v → sched v = sched' v) : body cfg sched s = body cfg sched' s := by
  unfold body
  unfold handedView consulted at h
  rcases hes : eventsStage cfg s with ⟨s1, _ | e⟩
  · rw [hes] at h
    simp only at h ⊢
    by_cases hn : needsSched cfg.maxRecompute s1.core = true
    · rw [if_pos hn] at h
      simp only [if_pos hn]
      unfold schedStage
      by_cases hany : (activeEvs cfg { s1 with core := markInvoked s1.core }).any (fun e => !sessionInfoOk e) = true
      · simp only [if_pos hany]
      · simp only at h
        rw [if_neg hany] at h
        simp only [if_neg hany]
        rw [h _ rfl]
    · simp only [if_neg hn]
  · rfl

theorem handedView_eq_some (cfg : Cfg K) (s : State K) (v : View K) :
    handedView cfg s = some v ↔
      ∃ s1, consulted cfg s = some s1 ∧ (activeEvs cfg s1).any (fun e => !sessionInfoOk e) = false ∧
        v = view cfg s1 := by
  unfold handedView
  cases hc : consulted cfg s with
  | none => simp
  | some s1 =>
    simp only [Option.some.injEq, exists_eq_left']
    by_cases hany : (activeEvs cfg s1).any (fun e => !sessionInfoOk e) = true
    · rw [if_pos hany]; simp [hany]
    · rw [if_neg hany]
      have : (activeEvs cfg s1).any (fun e => !sessionInfoOk e) = false := by simpa using hany
      simp only [Option.some.injEq, this, true_and]
      exact eq_comm

/-- a period that raises nothing records the period number iff a view was handed out -/
theorem body_invoked (cfg : Cfg K) (sched : View K → Except Err (Schedule K)) (s s' : State K)
    (h : body cfg sched s = (s', none)) :
    s'.core.invoked = s.core.invoked ++ (handedView cfg s).toList.map (·.iter) := by
  unfold body at h
  unfold handedView consulted
  rcases hes : eventsStage cfg s with ⟨s1, _ | e⟩
  · rw [hes] at h
    simp only at h ⊢
    have hc := eventsStage_core cfg s
    rw [hes] at hc
    obtain ⟨f1, f2⟩ := eventsStage_any_facts hc.symm
    simp only at f1 f2
    by_cases hn : needsSched cfg.maxRecompute s1.core = true
    · rw [if_pos hn] at h
      rw [if_pos hn]
      simp only at h ⊢
      rcases hsch : schedStage cfg sched { s1 with core := markInvoked s1.core } with e | m
      · rw [hsch] at h; simp at h
      · rw [hsch] at h
        simp only at h
        have hany : ¬ (activeEvs cfg { s1 with core := markInvoked s1.core }).any (fun e => !sessionInfoOk e) = true := by
          intro hc'
          unfold schedStage at hsch
          rw [if_pos hc'] at hsch
          simp at hsch
        rw [if_neg hany]
        have hap : (applyStage cfg { s1 with core := markScheduled (markInvoked s1.core), pilots := m }).2 = none := by
          rw [h]
        have := applyStage_core cfg _ hap
        rw [h] at this
        simp only at this
        rw [this]
        simp [advance, markScheduled, markInvoked, view, f1, f2]
    · rw [if_neg hn] at h
      rw [if_neg hn]
      have hap : (applyStage cfg s1).2 = none := by rw [h]
      have := applyStage_core cfg _ hap
      rw [h] at this
      simp only at this
      rw [this]
      simp [advance, f2]
  · rw [hes] at h; simp at h

/-- THE RECORDING IS FAITHFUL: along a run that raises nothing, the views handed out are, in order,
    one per invocation, each carrying the invocation period as its current time -/
theorem run_invoked_views (cfg : Cfg K) (sched : View K → Except Err (Schedule K)) :
    ∀ (n : Nat) (s s' : State K), run cfg sched n s = (s', none) →
      s'.core.invoked = s.core.invoked ++ (runViews cfg sched n s).map (·.iter) := by
  intro n
  induction n with
  | zero =>
    intro s s' h
    simp only [run, Prod.mk.injEq, and_true] at h
    subst h
    simp [runViews]
  | succ n ih =>
    intro s s' h
    unfold run at h
    unfold runViews
    by_cases hg : guard s.core = true
    · rw [if_pos hg] at h
      rw [if_pos hg]
      rcases hb : body cfg sched s with ⟨s1, _ | e⟩
      · rw [hb] at h
        simp only at h ⊢
        rw [ih s1 s' h, body_invoked cfg sched s s1 hb]
        simp
      · rw [hb] at h; simp at h
    · rw [if_neg hg] at h
      rw [if_neg hg]
      simp only [Prod.mk.injEq, and_true] at h
      subst h
      simp

/-- two schedulers that answer alike on every view handed out produce the same run and are handed
    the same views -/
theorem run_congr (cfg : Cfg K) (sched sched' : View K → Except Err (Schedule K)) :
    ∀ (n : Nat) (s : State K), (∀ v ∈ runViews cfg sched n s, sched v = sched' v) →
      run cfg sched' n s = run cfg sched n s ∧ runViews cfg sched' n s = runViews cfg sched n s := by
  intro n
  induction n with
  | zero => intro s _; exact ⟨rfl, rfl⟩
  | succ n ih =>
    intro s h
    unfold run runViews
    unfold runViews at h
    by_cases hg : guard s.core = true
    · rw [if_pos hg] at h
      simp only [if_pos hg]
      have hb : body cfg sched s = body cfg sched' s := by
        apply body_congr
        intro v hv
        apply h
        rcases body cfg sched s with ⟨s1, _ | e⟩ <;> simp [hv]
      rw [← hb]
      rcases hbb : body cfg sched s with ⟨s1, _ | e⟩
      · rw [hbb] at h
        simp only at h ⊢
        have := ih s1 (fun v hv => h v (by simp [hv]))
        exact ⟨this.1, by rw [this.2]⟩
      · exact ⟨rfl, rfl⟩
    · simp [if_neg hg]

/-! ### what the fields of a view are -/

theorem occupantEv_eq_some (s : State K) (st : String) (e : Evse.Ev K) :
    occupantEv s st = some e ↔ ∃ x, s.core.occ st = some x ∧ evOf s x.id = some e := by
  unfold occupantEv
  cases h : s.core.occ st with
  | none => simp
  | some x => simp

/-- `active_sessions()` lists exactly the EVs attached to a station whose remaining demand exceeds
    the `fully_charged` threshold -/
theorem mem_activeEvs_iff (cfg : Cfg K) (s : State K) (e : Evse.Ev K) :
    e ∈ activeEvs cfg s ↔
      ∃ st ∈ cfg.stations, occupantEv s st.id = some e ∧ cfg.fullEps < e.requested - e.delivered := by
  unfold activeEvs
  simp only [List.mem_filterMap]
  constructor
  · rintro ⟨st, hst, h⟩
    cases ho : occupantEv s st.id with
    | none => rw [ho] at h; simp at h
    | some e' =>
      rw [ho] at h
      simp only at h
      split at h
      · rename_i hact
        simp only [Option.some.injEq] at h
        subst h
        exact ⟨st, hst, ho, by simpa [isActive] using hact⟩
      · simp at h
  · rintro ⟨st, hst, ho, hlt⟩
    exact ⟨st, hst, by rw [ho]; simp [isActive, hlt]⟩

/-- `last_applied_pilot_signals` is EMPTY while `iteration − 1 ≤ 0` (interface.py:359-360) -/
theorem lastApplied_early (cfg : Cfg K) (s : State K) (h : s.core.iter ≤ 1) : lastApplied cfg s = [] := by
  unfold lastApplied
  rw [if_neg (by omega)]

/-- from the third period on it maps every active session that had arrived by the previous period
    to the entry of `pilot_signals` of its station in the previous period -/
theorem mem_lastApplied_iff (cfg : Cfg K) (s : State K) (h : 2 ≤ s.core.iter) (id : String) (p : K) :
    (id, p) ∈ lastApplied cfg s ↔
      ∃ e ∈ activeEvs cfg s, e.session = id ∧ e.arrival ≤ ((s.core.iter - 1 : Nat) : Int) ∧
        p = s.pilots.get (stationIndex cfg e.station) (s.core.iter - 1) := by
  unfold lastApplied
  rw [if_pos h]
  simp only [List.mem_filterMap]
  constructor
  · rintro ⟨e, he, hh⟩
    split at hh
    · rename_i ha
      simp only [Option.some.injEq, Prod.mk.injEq] at hh
      exact ⟨e, he, hh.1, ha, hh.2.symm⟩
    · simp at hh
  · rintro ⟨e, he, h1, h2, h3⟩
    exact ⟨e, he, by rw [if_pos h2, h1, h3]⟩

/-! ### the events stage touches neither energies nor matrices -/

theorem stepEv_static (cfg : Cfg K) (e : Event) (s : State K) :
    (stepEv cfg e s).1.evs = s.evs ∧ (stepEv cfg e s).1.pilots = s.pilots ∧
      (stepEv cfg e s).1.rates = s.rates ∧ (stepEv cfg e s).1.peak = s.peak := ⟨rfl, rfl, rfl, rfl⟩

theorem processAll_static (cfg : Cfg K) : ∀ (l : List Event) (s : State K),
    (processAll cfg l s).1.evs = s.evs ∧ (processAll cfg l s).1.pilots = s.pilots ∧
      (processAll cfg l s).1.rates = s.rates ∧ (processAll cfg l s).1.peak = s.peak := by
  intro l
  induction l with
  | nil => intro s; exact ⟨rfl, rfl, rfl, rfl⟩
  | cons e es ih =>
    intro s
    simp only [processAll]
    have hst := stepEv_static cfg e s
    rcases hs : stepEv cfg e s with ⟨s2, _ | err⟩
    · rw [hs] at hst
      simp only at hst ⊢
      obtain ⟨i1, i2, i3, i4⟩ := ih s2
      exact ⟨i1.trans hst.1, i2.trans hst.2.1, i3.trans hst.2.2.1, i4.trans hst.2.2.2⟩
    · rw [hs] at hst
      exact hst

/-- the state in which the scheduler is consulted has the energies, pilot matrix, rate matrix and
    peak of the loop head (i.e. of the end of the previous period), the current period number, and
    the occupancy reached after THIS period's events -/
theorem consulted_spec (cfg : Cfg K) (s s1 : State K) (h : consulted cfg s = some s1) :
    s1.evs = s.evs ∧ s1.pilots = s.pilots ∧ s1.rates = s.rates ∧ s1.peak = s.peak ∧
      s1.core.iter = s.core.iter ∧ s1.core.invoked = s.core.invoked ++ [s.core.iter] ∧
      EventCore.eventsStage cfg.core s.core = ((EventCore.eventsStage cfg.core s.core).1, none) ∧
      s1.core.occ = (EventCore.eventsStage cfg.core s.core).1.occ ∧
      s1.core.pending = (EventCore.eventsStage cfg.core s.core).1.pending := by
  unfold consulted at h
  have hst := processAll_static cfg (popCurrent s.core.iter s.core.pending).1
    { s with core := { s.core with pending := (popCurrent s.core.iter s.core.pending).2 } }
  have hc := eventsStage_core cfg s
  rcases hes : eventsStage cfg s with ⟨s2, _ | e⟩
  · rw [hes] at h hc
    simp only at h hc
    obtain ⟨f1, f2⟩ := eventsStage_any_facts hc.symm
    unfold eventsStage at hes
    rw [hes] at hst
    simp only at hst
    split at h
    · simp only [Option.some.injEq] at h
      subst h
      rw [← hc]
      exact ⟨hst.1, hst.2.1, hst.2.2.1, hst.2.2.2, by simpa [markInvoked] using f1,
        by simp [markInvoked, f1, f2], rfl, rfl, rfl⟩
    · simp at h
  · rw [hes] at h; simp at h

theorem handedView_iter (cfg : Cfg K) (s : State K) {v : View K} (h : handedView cfg s = some v) :
    v.iter = s.core.iter := by
  obtain ⟨s1, hc, _, rfl⟩ := (handedView_eq_some cfg s v).1 h
  exact (consulted_spec cfg s s1 hc).2.2.2.2.1

/-- valid scenario, loop invariant of C01: the station is occupied at consultation time by exactly
    the session whose connection interval `[arrival, departure)` contains the current period -/
theorem consulted_occ_valid (cfg : Cfg K) (hv : Valid cfg.core) {t : Nat} {s s1 : State K}
    (hI : Inv cfg.core t s.core) (h : consulted cfg s = some s1) (st : String) (x : Session) :
    s1.core.occ st = some x ↔
      x ∈ cfg.core.sessions ∧ x.station = st ∧ x.arrival ≤ t ∧ (t : Int) < x.departure := by
  obtain ⟨_, _, _, _, _, _, _, hocc, _⟩ := consulted_spec cfg s s1 h
  obtain ⟨c1, h1, _, _, _, _, hO, _⟩ := eventsStage_ok hv hI
  rw [hocc, h1]
  exact occ_after_events hv hO st x

/-! ### order -/

/-- a `filterMap` whose results are values of `f` is a subsequence of the `f`-image, in order -/
theorem filterMap_some_sublist {α β : Type} (f g : α → Option β) (h : ∀ a b, g a = some b → f a = some b) :
    ∀ l : List α, ((l.filterMap g).map some).Sublist (l.map f) := by
  intro l
  induction l with
  | nil => simp
  | cons a l ih =>
    cases hg : g a with
    | none => rw [List.filterMap_cons_none hg, List.map_cons]; exact List.Sublist.cons _ ih
    | some b =>
      rw [List.filterMap_cons_some hg, List.map_cons, List.map_cons, h a b hg]
      exact List.Sublist.cons_cons _ ih

/-- `network.active_evs` walks `_EVSEs.values()`: the occupants, station by station in REGISTRATION
    order, filtered by "not fully charged" -/
theorem activeEvs_eq_filterMap (cfg : Cfg K) (s : State K) :
    activeEvs cfg s = (cfg.stations.map fun st => occupantEv s st.id).filterMap (fun o => o.filter (isActive cfg)) := by
  unfold activeEvs
  rw [List.filterMap_map]
  apply List.filterMap_congr
  intro st _
  simp only [Function.comp]
  cases occupantEv s st.id with
  | none => rfl
  | some e => simp [Option.filter]

theorem activeEvs_sublist (cfg : Cfg K) (s : State K) :
    ((activeEvs cfg s).map some).Sublist (cfg.stations.map fun st => occupantEv s st.id) := by
  unfold activeEvs
  apply filterMap_some_sublist
  intro st b hb
  cases ho : occupantEv s st.id with
  | none => rw [ho] at hb; simp at hb
  | some e =>
    rw [ho] at hb
    simp only at hb
    split at hb
    · simpa using hb
    · simp at hb

end Acn.Sim
