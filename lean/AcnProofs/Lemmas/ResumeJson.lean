/-
  Helper lemmas for C05 (interrupted / SAVED / resumed runs): what C05 needs of C09's results, re-derived from the
  lemma files so that `AcnProofs/C05Resume.lean` does not import `AcnProofs/C09.lean` (whose regenerated-data obligation
  `attrs_complete` — Gen/Serial.lean — belongs to C09's check alone):

  * `sim_resume_eq`         = `C09.resume_eq` (crash in period `k`, resume in place, against the uninterrupted run);
  * `crash_state_roundtrip` = the JSON half of `C09.crash_json_resume_eq`: every state `Simulator.run` can leave behind in a
                              `Valid` scenario can be written (`to_json`), loaded (`from_json`) and decoded, and the decoded
                              state IS that state.
-/
import AcnProofs.Lemmas.ResumeRun
import AcnProofs.Lemmas.RegistryRoundtrip
import AcnProofs.Lemmas.RegistryCodec
import AcnProofs.Lemmas.RegistryDecode
import AcnProofs.Lemmas.RegistryDecode5
import AcnProofs.Lemmas.RegistryDecode6
import AcnProofs.Lemmas.RegistryDecode7
import AcnProofs.Lemmas.RegistryWF2
import AcnProofs.Lemmas.RegistryLawful

set_option linter.unusedSectionVars false

namespace Acn.Sim
open Acn Acn.EventCore Acn.Registry

variable {K : Type} [Add K] [Sub K] [Mul K] [Div K] [Neg K] [LT K] [LE K]
  [DecidableLT K] [DecidableLE K] [OfNat K 0] [OfNat K 1] [NatCast K] [HasExp K]

theorem sim_resume_eq (cfg : Cfg K) (sched : View K → Except EventCore.Err (Schedule K)) (hS : SessionsOK cfg.core) (k n : Nat) :
    let r1 := run cfg (failAt k sched) n (Sim.init cfg)
    r1 = run cfg sched n (Sim.init cfg) ∨
    (r1.2 = some .schedulerFailed ∧ r1.1.core.iter = k ∧
     ObsEqR (run cfg sched (n - k) r1.1) (run cfg sched n (Sim.init cfg))) := by
  have h0 : NoOverdue cfg.core (Sim.init cfg).core := init_noOverdue hS
  rcases resume_run cfg sched k n h0 (Nat.zero_le k) with h | ⟨h1, h2, _, h4⟩
  · exact Or.inl h
  · exact Or.inr ⟨h1, h2, by simpa [Sim.init, EventCore.init] using h4⟩

theorem crash_state_roundtrip {sh : RegistrySim.Show K} {rd : RegistrySim.Read K} (hl : RegistrySim.Lawful sh rd)
    (cfg : Cfg K) (sched : View K → Except EventCore.Err (Schedule K)) (hv : Valid cfg.core) (n : Nat) :
    let s := (run cfg sched n (Sim.init cfg)).1
    ∃ ctx, dump (RegistrySim.encode sh cfg s) RegistrySim.root = .ok ctx ∧ load ctx RegistrySim.root = .ok ctx ∧
      RegistrySim.decode rd cfg (RegistrySim.ambOf s) ctx.get = some s := by
  intro s
  have hsinv := RegistrySim.run_sinv cfg sched hv n 0 (Sim.init cfg) (init_inv hv) (RegistrySim.init_sinv cfg)
  have hwf : RegistrySim.WF cfg s := hsinv.wf hv.ids_nodup
  have href : RegistrySim.AllRef cfg s := hsinv.allRef hv.ids_nodup
  have hac := RegistrySim.encode_acyclic sh cfg s
  have hcl := RegistrySim.encode_closed sh cfg s
  obtain ⟨ctx, h, hs⟩ := dump_spec hac hcl
  refine ⟨ctx, h, load_dump hac h hs, ?_⟩
  refine RegistrySim.decode_of hl hwf ctx.get (fun i hi => ?_)
  have hr := RegistrySim.reach_all sh cfg s href i hi
  rw [hs.same i hr, RegistrySim.get_encode, if_pos (RegistrySim.reach_lt sh cfg s (RegistrySim.root_lt cfg s) hr)]

end Acn.Sim
