/-
  T1c — the hand-written numeric kernels ARE the code, by proof (Battery group).

  `AcnModel/Gen/CodeBattery.lean` is regenerated on every run from the Python ASTs of /repo's working tree
  (harness/translate_code.py: a mechanical statement-by-statement translation).  This file proves,
  for EVERY input and at every carrier `K`, that each translated function equals the hand-written
  model function the property theorems are about.  A change of a comparison, clamp, operand order,
  tolerance or assignment in one of these Python functions changes `Gen.Code.*`, and the
  corresponding theorem below stops compiling — whether or not a generated test input happens to
  hit the affected edge.

  Not translated (recorded in the trusted base): Python's `ZeroDivisionError` on float division —
  the hand models return `zeroDivision` where the implementation raises; the ties are stated for the
  inputs on which the model does not report it.  NaN/inf comparison corner cases are IEEE matters.
-/
import AcnModel.Gen.CodeBattery

set_option linter.unusedSectionVars false

namespace Acn.CodeTie
open Acn Acn.Battery Acn.Evse

section
variable {K : Type} [Add K] [Sub K] [Mul K] [Div K] [Neg K] [LT K] [LE K]
  [DecidableLT K] [DecidableLE K] [OfNat K 0] [OfNat K 1] [NatCast K] [HasExp K]

/-- `Battery.charge` (battery.py) is `Battery.idealCharge`. -/
theorem battery_charge_tie (b : Batt K) (pilot V T : K) :
    Gen.Code.battery_charge b pilot V T = idealCharge b pilot V T := by
  unfold Gen.Code.battery_charge idealCharge
  split
  · rfl
  · split <;> rfl

/-- `Linear2StageBattery._charge_stepwise` is `Battery.stepCharge` (where Python's `self._soc`
    does not raise `ZeroDivisionError`). -/
theorem l2s_charge_stepwise_tie (b : Batt K) (pilot V T ν : K) (hz : isZero b.capacity = false) :
    Gen.Code.l2s_charge_stepwise b pilot V T ν = stepCharge b pilot V T ν := by
  unfold Gen.Code.l2s_charge_stepwise stepCharge
  split
  · rfl
  · split
    · rfl
    · simp only [hz, Bool.false_eq_true, if_false, soc]
      rfl

/-- `Linear2StageBattery._charge` is `Battery.contCharge` (where Python's divisions by the capacity
    and by `max_dsoc` do not raise). -/
theorem l2s_charge_tie (b : Batt K) (pilot V T ν : K) (hz : isZero b.capacity = false)
    (hm : isZero (b.maxPower / b.capacity / ((60 : Nat) / T)) = false) :
    Gen.Code.l2s_charge b pilot V T ν = contCharge b pilot V T ν := by
  unfold Gen.Code.l2s_charge contCharge
  split
  · rfl
  · split
    · rfl
    · split
      · next h =>
        have : isZero pilot = true := h
        simp only [this, if_true]
      · next h =>
        have : isZero pilot = false := by
          simpa [isZero] using h
        simp only [this, hz, hm, Bool.false_eq_true, if_false, soc, contSoc]
        rfl

/-- `Battery.reset` is `Battery.reset`. -/
theorem battery_reset_tie (b : Batt K) (i : Option K) :
    Gen.Code.battery_reset b i = Battery.reset b i := by
  unfold Gen.Code.battery_reset Battery.reset
  cases i <;> rfl

/-- `EV.charge` is `Evse.Ev.charge` (returned rate = the battery's). -/
theorem ev_charge_tie (e : Ev K) (pilot V T ν : K) :
    (Gen.Code.ev_charge e pilot V T ν).map Prod.fst = e.charge pilot V T ν := by
  unfold Gen.Code.ev_charge Ev.charge
  cases Battery.charge e.batt pilot V T ν with
  | error x => rfl
  | ok p => obtain ⟨b, r⟩ := p; rfl

end

/-- every target of this group was translated in this run -/
theorem all_translated_battery : Gen.Code.translatedBattery = ["battery_charge", "l2s_charge", "l2s_charge_stepwise", "battery_reset", "ev_charge"] := by decide

end Acn.CodeTie
