/-
  Documentation of the defects F4 and F5 (DESIGN §7) on the model of the code AS IT WAS: the
  negation of the C06 statements on concrete rational witnesses.  Not property theorems.
-/
import AcnModel.Feas
import Mathlib.Tactic

namespace Acn.C06.Findings
open Acn Acn.Feas

/-- the unrepaired network-side linear aggregate `|Σ a_j x_j|` is NOT conservative
    (finding F4, rational witness: `a = (1, −1)`, orthogonal phasors) — kept as documentation. -/
theorem linear_code_unfixed_counterexample :
    netFeasibleLinear linAggCode [[(1 : ℚ), -1]] [1] 0 0 [[1], [1]] = true ∧
    netFeasible [[(1 : ℚ), -1]] [1] [1, 0] [0, 1] 0 0 [[1], [1]] = false ∧
    netLinear [[(1 : ℚ), -1]] [1] 0 0 [[1], [1]] = false := by decide +kernel

/-- the unrepaired algorithm-side linear mode norms across time (finding F5): 4 periods of
    12 A under a 20 A limit are refused although each period is fine — kept as documentation. -/
theorem alg_linear_unfixed_counterexample :
    algLinearCode2 [[(1 : ℚ)]] [20] 0 0 [[12, 12, 12, 12]] = false ∧
    algLinear2 [[(1 : ℚ)]] [20] 0 0 [[12, 12, 12, 12]] = true ∧
    netLinear [[(1 : ℚ)]] [20] 0 0 [[12, 12, 12, 12]] = true := by decide +kernel

end Acn.C06.Findings
