/-
  Projection of the full simulator model onto the event core:
  `Sim.body` / `Sim.run` restricted to `.core` ARE `EventCore.body` / `EventCore.run`
  (whenever the full step raises nothing), for every carrier, scheduler, period length,
  battery, EVSE class and noise stream.  Core theorems therefore lift to the full model.
-/
import AcnModel.Sim
import Mathlib.Tactic

set_option linter.unusedSectionVars false

namespace Acn.Sim
open Acn Acn.EventCore

variable {K : Type} [Add K] [Sub K] [Mul K] [Div K] [Neg K] [LT K] [LE K]
  [DecidableLT K] [DecidableLE K] [OfNat K 0] [OfNat K 1] [NatCast K] [HasExp K]

theorem stepEv_core (cfg : Cfg K) (e : Event) (s : State K) :
    ((stepEv cfg e s).1.core, (stepEv cfg e s).2) = EventCore.step cfg.core e s.core := rfl

theorem processAll_core (cfg : Cfg K) : ∀ (l : List Event) (s : State K),
    ((processAll cfg l s).1.core, (processAll cfg l s).2) = EventCore.processAll cfg.core l s.core := by
  intro l
  induction l with
  | nil => intro s; rfl
  | cons e es ih =>
    intro s
    have h := stepEv_core cfg e s
    simp only [processAll, EventCore.processAll]
    rcases hs : stepEv cfg e s with ⟨s2, _ | err⟩
    · rw [hs] at h
      simp only at h
      rw [← h]
      exact ih s2
    · rw [hs] at h
      simp only at h
      rw [← h]

theorem eventsStage_core (cfg : Cfg K) (s : State K) :
    ((eventsStage cfg s).1.core, (eventsStage cfg s).2) = EventCore.eventsStage cfg.core s.core :=
  processAll_core cfg _ _

theorem setPilotAt_core (cfg : Cfg K) (s : State K) (i : Nat) (st : Station K) :
    (setPilotAt cfg s i st).1.core = s.core := by
  unfold setPilotAt
  simp only
  split <;> rfl

theorem updatePilotsFrom_core (cfg : Cfg K) : ∀ (l : List (Station K)) (i : Nat) (s : State K),
    (updatePilotsFrom cfg i l s).1.core = s.core := by
  intro l
  induction l with
  | nil => intro i s; rfl
  | cons st rest ih =>
    intro i s
    simp only [updatePilotsFrom]
    have h := setPilotAt_core cfg s i st
    rcases hs : setPilotAt cfg s i st with ⟨s', _ | e⟩
    · rw [hs] at h; simp only at h ⊢; rw [ih, h]
    · rw [hs] at h; exact h

theorem storeRates_core (cfg : Cfg K) (w : Nat) (s : State K) : (storeRates cfg w s).1.core = s.core := by
  unfold storeRates
  simp only
  split
  · rfl
  · split <;> rfl

/-- the pilots/rates/energy half of a period leaves the core alone except for `iteration += 1` -/
theorem applyStage_core (cfg : Cfg K) (s : State K) (h : (applyStage cfg s).2 = none) :
    (applyStage cfg s).1.core = advance s.core := by
  unfold applyStage at h ⊢
  have hc1 : (widen s).core = s.core := rfl
  generalize widen s = s1 at h hc1 ⊢
  by_cases hcond : s1.pilots.width ≤ s.core.iter
  · simp [hcond] at h
  · simp only [hcond, if_false] at h ⊢
    have hu := updatePilotsFrom_core cfg cfg.stations 0 s1
    rcases hup : updatePilots cfg s1 with ⟨s2, _ | e⟩
    · simp only [hup] at h ⊢
      have hr := storeRates_core cfg (widthInc s) s2
      unfold updatePilots at hup
      rw [hup] at hu
      rcases hst : storeRates cfg (widthInc s) s2 with ⟨s3, _ | e⟩
      · rw [hst] at hr
        simp only at hr hu ⊢
        rw [hr, hu, hc1]
      · simp [hst] at h
    · simp [hup] at h

/-- PROJECTION: a full-model period that raises nothing is a core period -/
theorem body_core (cfg : Cfg K) (sched : View K → Except Err (Schedule K)) (s : State K)
    (h : (body cfg sched s).2 = none) :
    EventCore.body cfg.core noFail noFail s.core = ((body cfg sched s).1.core, none) := by
  have he := eventsStage_core cfg s
  unfold body at h ⊢
  unfold EventCore.body
  rw [← he]
  rcases hes : eventsStage cfg s with ⟨s1, _ | e⟩
  · simp only [hes] at h ⊢
    show (if needsSched cfg.maxRecompute s1.core = true then _ else _) = _
    by_cases hn : needsSched cfg.maxRecompute s1.core = true
    · simp only [hn, if_true, noFail, finish] at h ⊢
      rcases hsch : schedStage cfg sched { s1 with core := markInvoked s1.core } with e | m
      · simp [hsch] at h
      · simp only [hsch] at h ⊢
        rw [applyStage_core cfg _ h]
    · simp only [hn, noFail, finish] at h ⊢
      simp only [Bool.false_eq_true, if_false] at h ⊢
      rw [applyStage_core cfg _ h]
  · simp [hes] at h

/-- PROJECTION for the whole run -/
theorem run_core (cfg : Cfg K) (sched : View K → Except Err (Schedule K)) : ∀ (n : Nat) (s : State K),
    (run cfg sched n s).2 = none →
    EventCore.run cfg.core noFail noFail n s.core = ((run cfg sched n s).1.core, none) := by
  intro n
  induction n with
  | zero => intro s _; rfl
  | succ n ih =>
    intro s h
    unfold run at h ⊢
    unfold EventCore.run
    by_cases hg : guard s.core = true
    · simp only [hg, if_true] at h ⊢
      rcases hb : body cfg sched s with ⟨s', _ | e⟩
      · have hb2 : (body cfg sched s).2 = none := by rw [hb]
        have := body_core cfg sched s hb2
        rw [hb] at this
        simp only [hb] at h ⊢
        rw [this]
        exact ih s' h
      · simp [hb] at h
    · simp only [hg] at h ⊢
      rfl

theorem init_core (cfg : Cfg K) : (init cfg).core = EventCore.init cfg.core := rfl

end Acn.Sim
