/-
  Helper lemmas for C10 (Sim level, shift 1/2): the whole simulator under a time shift of `k` periods,
  from any pair of related states.  `ShEquiv k V pre s s'`: the core of `s'` is the core of `s` with
  every timestamp moved by `k` (and a prefix `V` of earlier scheduler invocations), the pilot / rate
  matrices have `k` extra columns in front, the EV records carry shifted arrival / departure, the
  occupancy log has the `pre` rows of the idle prefix in front; everything else is equal.
-/
import AcnProofs.Lemmas.EquivSimPilots
import AcnProofs.Lemmas.EquivShift
import AcnProofs.Lemmas.EventCoreSim

set_option linter.unusedSectionVars false
set_option linter.unusedSimpArgs false

namespace Acn.SimShift
open Acn Acn.Sim Acn.EventCore Acn.Evse Acn.SimEquiv Acn.Ledger Acn.Pilots

/-! ### event core: `invoked` is write-only -/

/-- the same state with earlier scheduler invocations `V` on record -/
def addInv (V : List Nat) (c : Core) : Core := { c with invoked := V ++ c.invoked }

theorem step_addInv (cfg : EventCore.Cfg) (V : List Nat) (e : Event) (c : Core) :
    EventCore.step cfg e (addInv V c) = (addInv V (EventCore.step cfg e c).1, (EventCore.step cfg e c).2) := by
  unfold EventCore.step process addInv
  cases e.kind with
  | recompute => rfl
  | plugin =>
    simp only
    cases findSession cfg e.sess with
    | none => rfl
    | some x =>
      simp only
      by_cases hc : cfg.stations.contains x.station = true
      · simp only [hc, if_true]
        cases c.occ x.station <;> rfl
      · simp only [hc, Bool.false_eq_true, if_false]
  | unplug =>
    simp only
    cases findSession cfg e.sess with
    | none => rfl
    | some x =>
      simp only
      by_cases hc : cfg.stations.contains x.station = true
      · simp only [hc, if_true]
        rfl
      · simp only [hc, Bool.false_eq_true, if_false]

theorem processAll_addInv (cfg : EventCore.Cfg) (V : List Nat) (es : List Event) (c : Core) :
    EventCore.processAll cfg es (addInv V c) =
      (addInv V (EventCore.processAll cfg es c).1, (EventCore.processAll cfg es c).2) := by
  induction es generalizing c with
  | nil => rfl
  | cons e es ih =>
    simp only [EventCore.processAll, step_addInv]
    cases EventCore.step cfg e c with
    | mk c2 r =>
      cases r with
      | none => simp only [ih]
      | some err => rfl

/-- shifted by `k`, with the invocation prefix `V` -/
def sh (k : Nat) (V : List Nat) (c : Core) : Core := addInv V (shiftCore k c)

theorem sh_iter (k : Nat) (V : List Nat) (c : Core) : (sh k V c).iter = c.iter + k := rfl
theorem sh_pending (k : Nat) (V : List Nat) (c : Core) : (sh k V c).pending = c.pending.map (shiftEv k) := rfl

theorem step_sh (k : Nat) (V : List Nat) (cfg : EventCore.Cfg) (e : Event) (c : Core) :
    EventCore.step (shiftCfg k cfg) (shiftEv k e) (sh k V c) =
      (sh k V (EventCore.step cfg e c).1, (EventCore.step cfg e c).2) := by
  unfold sh
  rw [step_addInv, step_shift]

theorem needsSched_sh (k : Nat) (V : List Nat) (mr : Option Nat) (c : Core) :
    needsSched mr (sh k V c) = needsSched mr c := by
  rw [← needsSched_shift k mr c]
  rfl

theorem markInvoked_sh (k : Nat) (V : List Nat) (c : Core) : markInvoked (sh k V c) = sh k V (markInvoked c) := by
  simp [markInvoked, sh, addInv, shiftCore, List.append_assoc]

theorem markScheduled_sh (k : Nat) (V : List Nat) (c : Core) : markScheduled (sh k V c) = sh k V (markScheduled c) := by
  simp [markScheduled, sh, addInv, shiftCore]

theorem advance_sh (k : Nat) (V : List Nat) (c : Core) : advance (sh k V c) = sh k V (advance c) := by
  simp [advance, sh, addInv, shiftCore]; omega

theorem guard_sh (k : Nat) (V : List Nat) (c : Core) : guard (sh k V c) = guard c := by
  simp [EventCore.guard, sh, addInv, shiftCore]

theorem unplugHits_sh (k : Nat) (V : List Nat) (c : Core) (x : Session) :
    unplugHits (sh k V c) (shiftSession k x) = unplugHits c x := by
  rw [← unplugHits_shift k c x]
  rfl

/-! ### `get_last_timestamp` -/

theorem foldl_max_shift (k : Nat) (es : List Event) (a : Int) :
    (es.map (shiftEv k)).foldl (fun m d => max m d.ts) (a + k) = es.foldl (fun m d => max m d.ts) a + k := by
  induction es generalizing a with
  | nil => rfl
  | cons d ds ih =>
    simp only [List.map_cons, List.foldl_cons]
    have : max (a + (k : Int)) (shiftEv k d).ts = max a d.ts + k := by
      simp only [shiftEv]
      omega
    rw [this, ih]

theorem lastTs_shift (k : Nat) (p : List Event) : lastTs (p.map (shiftEv k)) = (lastTs p).map (· + (k : Int)) := by
  cases p with
  | nil => rfl
  | cons e es =>
    simp only [lastTs, List.map_cons, Option.map_some]
    exact congrArg some (foldl_max_shift k es e.ts)

theorem le_foldl_max (es : List Event) (a : Int) : a ≤ es.foldl (fun m d => max m d.ts) a := by
  induction es generalizing a with
  | nil => exact le_refl _
  | cons d ds ih => exact le_trans (le_max_left a d.ts) (ih _)

/-- no event in the queue has a negative timestamp -/
def PendNonneg (c : Core) : Prop := ∀ e ∈ c.pending, 0 ≤ e.ts

theorem lastTs_nonneg {p : List Event} (h : ∀ e ∈ p, 0 ≤ e.ts) {l : Int} (hl : lastTs p = some l) : 0 ≤ l := by
  cases p with
  | nil => simp [lastTs] at hl
  | cons e es =>
    simp only [lastTs, Option.some.injEq] at hl
    rw [← hl]
    exact le_trans (h e List.mem_cons_self) (le_foldl_max es e.ts)

theorem lastTsNat_shift (k : Nat) {p : List Event} (h : ∀ e ∈ p, 0 ≤ e.ts) :
    (lastTs (p.map (shiftEv k))).map Int.toNat = ((lastTs p).map Int.toNat).map (· + k) := by
  rw [lastTs_shift]
  cases hl : lastTs p with
  | none => rfl
  | some l =>
    have := lastTs_nonneg h hl
    simp only [Option.map_some]
    congr 1
    omega

/-! ### the shifted scenario and the state relation -/

variable {K : Type} [Field K] [LinearOrder K] [IsStrictOrderedRing K] [HasExp K]

def shiftEvK (k : Nat) (e : Ev K) : Ev K :=
  { e with arrival := e.arrival + k, departure := e.departure + k, estDeparture := e.estDeparture + k }

/-- every session (arrival, departure, estimated departure) and every recompute event `k` periods later -/
def shiftCfgS (k : Nat) (cfg : Cfg K) : Cfg K :=
  { cfg with evs := cfg.evs.map (shiftEvK k),
             recomputes := cfg.recomputes.map (fun r => (r.1 + (k : Int), r.2)) }

theorem shiftCfgS_core (k : Nat) (cfg : Cfg K) : (shiftCfgS k cfg).core = shiftCfg k cfg.core := by
  simp only [Cfg.core, shiftCfgS, shiftCfg, List.map_map]
  rfl

structure ShEquiv (k : Nat) (V : List Nat) (pre : List (List (Option String))) (s s' : State K) : Prop where
  core : s'.core = sh k V s.core
  pilots : s'.pilots = shiftMat k s.pilots
  rates : s'.rates = shiftMat k s.rates
  peak : s'.peak = s.peak
  evs : s'.evs = s.evs.map (shiftEvK k)
  evsePilot : s'.evsePilot = s.evsePilot
  noiseIdx : s'.noiseIdx = s.noiseIdx
  occLog : s'.occLog = pre ++ s.occLog

section
variable {k : Nat} {V : List Nat} {pre : List (List (Option String))} {cfg : Cfg K}

/-! ### events -/

theorem stepEv_shift (e : Event) {s s' : State K} (he : ShEquiv k V pre s s') :
    (stepEv (shiftCfgS k cfg) (shiftEv k e) s').2 = (stepEv cfg e s).2 ∧
    ShEquiv k V pre (stepEv cfg e s).1 (stepEv (shiftCfgS k cfg) (shiftEv k e) s').1 := by
  unfold stepEv
  simp only [shiftCfgS_core, he.core, step_sh, findSession_shift]
  refine ⟨trivial, ⟨rfl, he.pilots, he.rates, he.peak, he.evs, ?_, he.noiseIdx, he.occLog⟩⟩
  simp only
  have hk : (shiftEv k e).kind = e.kind := rfl
  have hs : (shiftEv k e).sess = e.sess := rfl
  rw [hk, hs, he.evsePilot]
  cases e.kind with
  | plugin => rfl
  | recompute => rfl
  | unplug =>
    cases (EventCore.step cfg.core e s.core).2 with
    | some err => rfl
    | none =>
      cases findSession cfg.core e.sess with
      | none => rfl
      | some x =>
        simp only [Option.map_some, unplugHits_sh]
        rfl

theorem processAll_shift_sim : ∀ (es : List Event) {s s' : State K}, ShEquiv k V pre s s' →
    (Sim.processAll (shiftCfgS k cfg) (es.map (shiftEv k)) s').2 = (Sim.processAll cfg es s).2 ∧
    ShEquiv k V pre (Sim.processAll cfg es s).1 (Sim.processAll (shiftCfgS k cfg) (es.map (shiftEv k)) s').1 := by
  intro es
  induction es with
  | nil => intro s s' he; exact ⟨rfl, he⟩
  | cons e es ih =>
    intro s s' he
    obtain ⟨h1, h2⟩ := stepEv_shift (cfg := cfg) e he
    simp only [List.map_cons, Sim.processAll]
    obtain ⟨s2, e2, hst⟩ : ∃ s2 e2, stepEv cfg e s = (s2, e2) := ⟨_, _, rfl⟩
    obtain ⟨s2', e2', hst'⟩ : ∃ s2' e2', stepEv (shiftCfgS k cfg) (shiftEv k e) s' = (s2', e2') := ⟨_, _, rfl⟩
    rw [hst, hst'] at h1 h2
    rw [hst, hst']
    simp only at h1 h2
    subst h1
    cases e2' with
    | some x => exact ⟨rfl, h2⟩
    | none => exact ih h2

theorem eventsStage_shift_sim {s s' : State K} (he : ShEquiv k V pre s s') :
    (Sim.eventsStage (shiftCfgS k cfg) s').2 = (Sim.eventsStage cfg s).2 ∧
    ShEquiv k V pre (Sim.eventsStage cfg s).1 (Sim.eventsStage (shiftCfgS k cfg) s').1 := by
  unfold Sim.eventsStage
  rw [he.core, sh_iter, sh_pending, popCurrent_shift]
  simp only
  exact processAll_shift_sim _
    ⟨rfl, he.pilots, he.rates, he.peak, he.evs, he.evsePilot, he.noiseIdx, he.occLog⟩

/-! ### what the scheduler sees -/

theorem occ_sh (c : Core) (st : String) : (sh k V c).occ st = (c.occ st).map (shiftSession k) := rfl

theorem evOf_shift {s s' : State K} (he : ShEquiv k V pre s s') (id : String) :
    evOf s' id = (evOf s id).map (shiftEvK k) := by
  unfold evOf
  rw [he.evs, List.find?_map]
  rfl

theorem occupantEv_shift {s s' : State K} (he : ShEquiv k V pre s s') (st : String) :
    occupantEv s' st = (occupantEv s st).map (shiftEvK k) := by
  unfold occupantEv
  rw [he.core, occ_sh]
  cases s.core.occ st with
  | none => rfl
  | some x => exact evOf_shift he x.id

theorem activeEvs_shift {s s' : State K} (he : ShEquiv k V pre s s') :
    activeEvs (shiftCfgS k cfg) s' = (activeEvs cfg s).map (shiftEvK k) := by
  unfold activeEvs
  rw [List.map_filterMap]
  apply List.filterMap_congr
  intro st _
  rw [occupantEv_shift he]
  cases occupantEv s st.id with
  | none => rfl
  | some e =>
    simp only [Option.map_some]
    have : isActive (shiftCfgS k cfg) (shiftEvK k e) = isActive cfg e := rfl
    rw [this]
    split <;> rfl

/-- two views of the same situation `k` periods apart.  `lastPilots` is NOT related: the interface
    hands out no applied pilots while `iteration - 1 ≤ 0` (DESIGN §8), so the relation is for
    schedulers that do not read `last_applied_pilot_signals`. -/
structure ViewShift (k : Nat) (v v' : View K) : Prop where
  iter : v'.iter = v.iter + k
  active : v'.active = v.active.map (shiftEvK k)
  peak : v'.peak = v.peak
  evsePilot : v'.evsePilot = v.evsePilot
  connected : v'.connected = v.connected

/-- a pair of scheduler parameters that depend on the view through RELATIVE time only -/
def SchedShiftInvariant (k : Nat) (sched sched' : View K → Except EventCore.Err (Schedule K)) : Prop :=
  ∀ v v', ViewShift k v v' → sched' v' = sched v

theorem view_shift {s s' : State K} (he : ShEquiv k V pre s s') :
    ViewShift k (view cfg s) (view (shiftCfgS k cfg) s') := by
  refine ⟨?_, activeEvs_shift he, he.peak, he.evsePilot, ?_⟩
  · simp only [view, he.core, sh_iter]
  · simp only [view, he.core, occ_sh, shiftCfgS]
    apply List.map_congr_left
    intro st _
    cases s.core.occ st.id <;> rfl

theorem schedStage_shift {sched sched' : View K → Except EventCore.Err (Schedule K)}
    (hsch : SchedShiftInvariant k sched sched') {s s' : State K} (he : ShEquiv k V pre s s')
    (hp : PendNonneg s.core) :
    schedStage (shiftCfgS k cfg) sched' s' = (schedStage cfg sched s).map (shiftMat k) := by
  unfold schedStage
  rw [activeEvs_shift he, hsch _ _ (view_shift (cfg := cfg) he), he.pilots, he.core, sh_iter, sh_pending,
    lastTsNat_shift k hp]
  have hany : ((activeEvs cfg s).map (shiftEvK k)).any (fun e => !sessionInfoOk e) =
      (activeEvs cfg s).any (fun e => !sessionInfoOk e) := by
    rw [List.any_map]
    congr 1
    funext e
    simp [sessionInfoOk, shiftEvK]
  rw [hany]
  have hst : (shiftCfgS k cfg).stations = cfg.stations := rfl
  rw [hst]
  by_cases ha : (activeEvs cfg s).any (fun e => !sessionInfoOk e) = true
  · simp [ha, Except.map]
  · simp only [ha, Bool.false_eq_true, if_false]
    cases sched (view cfg s) with
    | error e => rfl
    | ok sch =>
      simp only
      rw [updateSchedules_shift']
      cases updateSchedules (cfg.stations.map (·.id)) s.pilots s.core.iter ((lastTs s.core.pending).map Int.toNat) sch with
      | error e => rfl
      | ok m => rfl

/-! ### applying the pilots -/

theorem get_shiftMat (m : Mat K) (i t : Nat) : (shiftMat k m).get i (t + k) = m.get i t := by
  unfold Mat.get shiftMat
  simp only [List.getD_eq_getElem?_getD, List.getElem?_map]
  cases m.rows[i]? with
  | none => simp
  | some row =>
    simp only [Option.map_some, Option.getD_some]
    rw [List.getElem?_append_right (by simp)]
    simp

theorem charge_shift (e : Ev K) (p V' T ν : K) :
    (shiftEvK k e).charge p V' T ν = (e.charge p V' T ν).map (shiftEvK k) := by
  unfold Ev.charge
  have : (shiftEvK k e).batt = e.batt := rfl
  rw [this]
  cases Battery.charge e.batt p V' T ν with
  | error x => rfl
  | ok br => rfl

def shU (k : Nat) (u : Option (Ev K × Bool)) : Option (Ev K × Bool) := u.map (fun q => (shiftEvK k q.1, q.2))

theorem plan_shift (st : Station K) (p : K) (o : Option (Ev K)) (ν : K) :
    plan (shiftCfgS k cfg) st p (o.map (shiftEvK k)) ν = (plan cfg st p o ν).map (shU k) := by
  have hpl : ∀ o', plan (shiftCfgS k cfg) st p o' ν = plan cfg st p o' ν := fun _ => rfl
  rw [hpl]
  unfold plan
  split
  · cases o with
    | none => rfl
    | some e =>
      simp only [Option.map_some, charge_shift]
      cases e.charge p st.voltage cfg.period ν with
      | error x => rfl
      | ok e' => rfl
  · rfl

theorem replaceEv_shift (evs : List (Ev K)) (e : Ev K) :
    replaceEv (evs.map (shiftEvK k)) (shiftEvK k e) = (replaceEv evs e).map (shiftEvK k) := by
  unfold replaceEv
  rw [List.map_map, List.map_map]
  apply List.map_congr_left
  intro d _
  simp only [Function.comp]
  have h1 : (shiftEvK k d).session = d.session := rfl
  have h2 : (shiftEvK k e).session = e.session := rfl
  rw [h1, h2]
  split <;> rfl

theorem eff_shift {s s' : State K} (he : ShEquiv k V pre s s') (i : Nat) (p : K) (u : Option (Ev K × Bool)) :
    ShEquiv k V pre (eff s i p u) (eff s' i p (shU k u)) := by
  refine ⟨he.core, he.pilots, he.rates, he.peak, ?_, ?_, ?_, he.occLog⟩
  · simp only [eff, he.evs]
    cases u with
    | none => rfl
    | some q => obtain ⟨e', b⟩ := q; exact replaceEv_shift s.evs e'
  · simp only [eff, he.evsePilot]
  · simp only [eff, he.noiseIdx]
    cases u with
    | none => rfl
    | some q => obtain ⟨e', b⟩ := q; rfl

theorem setPilotAt_shift {s s' : State K} (he : ShEquiv k V pre s s') (i : Nat) (st : Station K) :
    (setPilotAt (shiftCfgS k cfg) s' i st).2 = (setPilotAt cfg s i st).2 ∧
    ShEquiv k V pre (setPilotAt cfg s i st).1 (setPilotAt (shiftCfgS k cfg) s' i st).1 := by
  rw [setPilotAt_plan, setPilotAt_plan]
  have hnz : ∀ j, noiseAt (shiftCfgS k cfg) j = noiseAt cfg j := fun _ => rfl
  rw [hnz, he.pilots, he.core, sh_iter, get_shiftMat, occupantEv_shift he, he.noiseIdx, plan_shift]
  cases plan cfg st (s.pilots.get i s.core.iter) (occupantEv s st.id) (noiseAt cfg s.noiseIdx) with
  | error e => exact ⟨rfl, he⟩
  | ok u =>
    simp only [Except.map]
    exact ⟨trivial, eff_shift he i _ u⟩

theorem updatePilotsFrom_shift : ∀ (sts : List (Station K)) (i : Nat) {s s' : State K}, ShEquiv k V pre s s' →
    (updatePilotsFrom (shiftCfgS k cfg) i sts s').2 = (updatePilotsFrom cfg i sts s).2 ∧
    ShEquiv k V pre (updatePilotsFrom cfg i sts s).1 (updatePilotsFrom (shiftCfgS k cfg) i sts s').1 := by
  intro sts
  induction sts with
  | nil => intro i s s' he; exact ⟨rfl, he⟩
  | cons st rest ih =>
    intro i s s' he
    obtain ⟨h1, h2⟩ := setPilotAt_shift (cfg := cfg) he i st
    simp only [updatePilotsFrom]
    obtain ⟨s2, e2, hst⟩ : ∃ s2 e2, setPilotAt cfg s i st = (s2, e2) := ⟨_, _, rfl⟩
    obtain ⟨s2', e2', hst'⟩ : ∃ s2' e2', setPilotAt (shiftCfgS k cfg) s' i st = (s2', e2') := ⟨_, _, rfl⟩
    rw [hst, hst'] at h1 h2
    rw [hst, hst']
    simp only at h1 h2
    subst h1
    cases e2' with
    | some x => exact ⟨rfl, h2⟩
    | none => exact ih (i + 1) h2

theorem writeCol_shift (m : Mat K) (t : Nat) (col : List K) :
    writeCol (shiftMat k m) (t + k) col = shiftMat k (writeCol m t col) := by
  unfold writeCol shiftMat
  simp only
  congr 1
  rw [List.zipWith_map_left, List.map_zipWith]
  congr 1
  funext row v
  exact writeRow_shift k row t [v]

theorem currentRates_shift {s s' : State K} (he : ShEquiv k V pre s s') :
    currentRates (shiftCfgS k cfg) s' = currentRates cfg s := by
  unfold currentRates
  apply List.map_congr_left
  intro st _
  rw [occupantEv_shift he]
  cases occupantEv s st.id <;> rfl

theorem storeRates_shift (w : Nat) {s s' : State K} (he : ShEquiv k V pre s s') :
    (storeRates (shiftCfgS k cfg) (w + k) s').2 = (storeRates cfg w s).2 ∧
    ShEquiv k V pre (storeRates cfg w s).1 (storeRates (shiftCfgS k cfg) (w + k) s').1 := by
  unfold storeRates
  simp only
  rw [currentRates_shift he, he.core, sh_iter, he.rates, he.peak, increaseWidth_shift]
  have hwid : ∀ m : Mat K, (shiftMat k m).width = m.width + k := fun _ => rfl
  by_cases h1 : s.core.iter < s.rates.width
  · have h1' : s.core.iter + k < s.rates.width + k := by omega
    simp only [hwid, h1, h1', if_true]
    exact ⟨trivial, ⟨rfl, he.pilots, writeCol_shift _ _ _, rfl, he.evs, he.evsePilot, he.noiseIdx, he.occLog⟩⟩
  · have h1' : ¬ s.core.iter + k < s.rates.width + k := by omega
    simp only [hwid, h1, h1', if_false]
    by_cases h2 : s.core.iter < (increaseWidth s.rates w).width
    · have h2' : s.core.iter + k < (increaseWidth s.rates w).width + k := by omega
      simp only [h2, h2', if_true]
      exact ⟨trivial, ⟨rfl, he.pilots, writeCol_shift _ _ _, rfl, he.evs, he.evsePilot, he.noiseIdx, he.occLog⟩⟩
    · have h2' : ¬ s.core.iter + k < (increaseWidth s.rates w).width + k := by omega
      simp only [h2, h2', if_false]
      exact ⟨trivial, ⟨rfl, he.pilots, rfl, rfl, he.evs, he.evsePilot, he.noiseIdx, he.occLog⟩⟩

theorem widthInc_shift {s s' : State K} (he : ShEquiv k V pre s s') (hp : PendNonneg s.core) :
    widthInc s' = widthInc s + k := by
  unfold widthInc
  rw [he.core, sh_pending, sh_iter, lastTs_shift]
  cases hl : lastTs s.core.pending with
  | none => simp only [Option.map_none]; omega
  | some l =>
    have := lastTs_nonneg hp hl
    simp only [Option.map_some]
    omega

theorem applyStage_shift {s s' : State K} (he : ShEquiv k V pre s s') (hp : PendNonneg s.core) :
    (applyStage (shiftCfgS k cfg) s').2 = (applyStage cfg s).2 ∧
    ShEquiv k V pre (applyStage cfg s).1 (applyStage (shiftCfgS k cfg) s').1 := by
  have hwi := widthInc_shift he hp
  have he1 : ShEquiv k V pre (widen s) (widen s') := by
    refine ⟨he.core, ?_, ?_, he.peak, he.evs, he.evsePilot, he.noiseIdx, he.occLog⟩
    · simp only [widen, hwi, he.pilots, increaseWidth_shift]
    · simp only [widen, hwi, he.rates, increaseWidth_shift]
  have hw : (widen s').pilots.width = (widen s).pilots.width + k := by rw [he1.pilots]; rfl
  unfold applyStage
  rw [hw, he.core, sh_iter, hwi]
  by_cases hwc : (widen s).pilots.width ≤ s.core.iter
  · have hwc' : (widen s).pilots.width + k ≤ s.core.iter + k := by omega
    simp only [hwc, hwc', if_true]
    exact ⟨trivial, he1⟩
  · have hwc' : ¬ (widen s).pilots.width + k ≤ s.core.iter + k := by omega
    simp only [hwc, hwc', if_false]
    obtain ⟨h1, h2⟩ := updatePilotsFrom_shift (cfg := cfg) cfg.stations 0 he1
    have hst : (shiftCfgS k cfg).stations = cfg.stations := rfl
    unfold updatePilots
    rw [hst]
    obtain ⟨s2, e2, hup⟩ : ∃ s2 e2, updatePilotsFrom cfg 0 cfg.stations (widen s) = (s2, e2) := ⟨_, _, rfl⟩
    obtain ⟨s2', e2', hup'⟩ : ∃ s2' e2', updatePilotsFrom (shiftCfgS k cfg) 0 cfg.stations (widen s') = (s2', e2') :=
      ⟨_, _, rfl⟩
    rw [hup, hup'] at h1 h2
    rw [hup, hup']
    simp only at h1 h2
    subst h1
    cases e2' with
    | some x => exact ⟨rfl, h2⟩
    | none =>
      simp only
      obtain ⟨h3, h4⟩ := storeRates_shift (cfg := cfg) (widthInc s) h2
      obtain ⟨s3, e3, hs3⟩ : ∃ s3 e3, storeRates cfg (widthInc s) s2 = (s3, e3) := ⟨_, _, rfl⟩
      obtain ⟨s3', e3', hs3'⟩ : ∃ s3' e3', storeRates (shiftCfgS k cfg) (widthInc s + k) s2' = (s3', e3') := ⟨_, _, rfl⟩
      rw [hs3, hs3'] at h3 h4
      rw [hs3, hs3']
      simp only at h3 h4
      subst h3
      cases e3' with
      | some x => exact ⟨rfl, h4⟩
      | none =>
        simp only
        refine ⟨trivial, ⟨?_, h4.pilots, h4.rates, h4.peak, h4.evs, h4.evsePilot, h4.noiseIdx, ?_⟩⟩
        · simp only [h4.core, advance_sh]
        · simp only [h4.occLog, h4.core, occ_sh, List.append_assoc, hst]
          congr 3
          apply List.map_congr_left
          intro st _
          cases s3.core.occ st.id <;> rfl

end
end Acn.SimShift
