/-
  Helper lemmas for C10 (Sim level, shift, `max_recompute ≠ None`, schedulers that do not answer `{}` while
  nothing is plugged in).  The sorting-based algorithms answer an idle network with ALL-ZERO ROWS
  (`{station: [0.0]}` for every station, `format_array_schedule` of `np.zeros`), not with `{}`: `SchedIdle`
  fails for them.  What the idle prefix of a shifted run needs is less: that the answer leaves the
  all-zero pilot matrix as it is (`ZeroSched`).  This file redoes the idle prefix for `SchedIdleZ`
  (`{}` and the zero rows are instances) and re-derives the anchored and the aligned capstone from the
  prefix alone.
-/
import AcnProofs.Lemmas.EquivSimShiftAligned
import AcnProofs.Lemmas.EquivSortedShiftU

set_option linter.unusedSectionVars false
set_option linter.unusedSimpArgs false
set_option linter.unusedVariables false

namespace Acn.SimShift
open Acn Acn.Sim Acn.EventCore Acn.Evse Acn.SimEquiv Acn.Ledger Acn.Pilots

variable {K : Type} [Field K] [LinearOrder K] [IsStrictOrderedRing K] [HasExp K]

/-- a schedule that, written at a column inside an all-zero pilot matrix, leaves it all-zero -/
def ZeroSched (cfg : Cfg K) (sch : Schedule K) : Prop :=
  ∀ (w t : Nat) (lt : Option Nat), t < w →
    updateSchedules (cfg.stations.map (·.id)) (Mat.zeros cfg.stations.length w : Mat K) t lt sch =
      .ok (Mat.zeros cfg.stations.length w)

/-- while no session is active before period `k`, the scheduler answers a `ZeroSched` -/
def SchedIdleZ (cfg : Cfg K) (k : Nat) (sched : View K → Except EventCore.Err (Schedule K)) : Prop :=
  ∀ v, v.active = [] → v.iter < k → ∃ sch, sched v = .ok sch ∧ ZeroSched cfg sch

theorem zeroSched_nil (cfg : Cfg K) : ZeroSched cfg [] := fun _ _ _ _ => rfl

theorem SchedIdle.toZ {k : Nat} {sched : View K → Except EventCore.Err (Schedule K)} (h : SchedIdle k sched)
    (cfg : Cfg K) : SchedIdleZ cfg k sched :=
  fun v ha hk => ⟨[], h v ha hk, zeroSched_nil cfg⟩

theorem lookup_zero_rows (l : List (Station K)) (st : String) (r : List K)
    (h : (l.map fun s => (s.id, [(0 : K)])).lookup st = some r) : r = [0] := by
  induction l with
  | nil => simp at h
  | cons a t ih =>
    simp only [List.map_cons, List.lookup_cons] at h
    split at h
    · simp only [Option.some.injEq] at h; exact h.symm
    · exact ih h

/-- `{station: [0]}` for every station -/
theorem zeroSched_rows (cfg : Cfg K) : ZeroSched cfg (cfg.stations.map fun st => (st.id, [(0 : K)])) := by
  intro w t lt htw
  cases hst : cfg.stations with
  | nil => rfl
  | cons a rest =>
    rw [← hst]
    have hsch : (cfg.stations.map fun st => (st.id, [(0 : K)])) =
        (a.id, [(0 : K)]) :: (rest.map fun st => (st.id, [(0 : K)])) := by rw [hst]; rfl
    have hu : unknownStation (cfg.stations.map (·.id)) (cfg.stations.map fun st => (st.id, [(0 : K)])) = false := by
      unfold unknownStation
      rw [List.any_eq_false]
      intro p hp
      obtain ⟨s0, hs0, rfl⟩ := List.mem_map.1 hp
      simp only [Bool.not_eq_true, Bool.not_eq_false', List.contains_iff_mem]
      simpa using List.mem_map.2 ⟨s0, hs0, rfl⟩
    have hr : ragged (cfg.stations.map fun st => (st.id, [(0 : K)])) = false := by
      rw [hsch]
      unfold ragged
      rw [List.any_eq_false]
      intro p hp
      obtain ⟨s0, _, rfl⟩ := List.mem_map.1 hp
      simp
    have hd : densify (cfg.stations.map (·.id)) (cfg.stations.map fun st => (st.id, [(0 : K)])) 1 =
        List.replicate cfg.stations.length [0] := by
      unfold densify
      rw [List.eq_replicate_iff]
      refine ⟨by simp, ?_⟩
      intro b hb
      obtain ⟨id, _, rfl⟩ := List.mem_map.1 hb
      cases hl : (cfg.stations.map fun st => (st.id, [(0 : K)])).lookup id with
      | none => rfl
      | some r => exact lookup_zero_rows cfg.stations id r hl
    have e1 : updateSchedules (cfg.stations.map (·.id)) (Mat.zeros cfg.stations.length w : Mat K) t lt
        (cfg.stations.map fun st => (st.id, [(0 : K)])) =
        (if unknownStation (cfg.stations.map (·.id)) (cfg.stations.map fun st => (st.id, [(0 : K)])) then .error .keyError
         else if ragged (cfg.stations.map fun st => (st.id, [(0 : K)])) then .error .invalidSchedule
         else .ok (writeBlock (if t + 1 ≤ (Mat.zeros cfg.stations.length w : Mat K).width then Mat.zeros cfg.stations.length w
            else increaseWidth (Mat.zeros cfg.stations.length w) (growTarget t lt 1)) t
            (densify (cfg.stations.map (·.id)) (cfg.stations.map fun st => (st.id, [(0 : K)])) 1))) := by
      rw [hsch]; rfl
    rw [e1, hu, hr, hd]
    have hw : (Mat.zeros cfg.stations.length w : Mat K).width = w := rfl
    have hle : t + 1 ≤ w := htw
    simp only [Bool.false_eq_true, if_false, hw, hle, if_true]
    congr 1
    unfold writeBlock Mat.zeros
    simp only [List.zipWith_replicate, Nat.min_self, writeRow_zero w t htw]

section
variable {cfg : Cfg K} {P : List Event} {w j : Nat}

/-- one idle period, for a scheduler that answers a `ZeroSched` -/
theorem body_idleZ (hok : IdleOK cfg) {k : Nat} {sched : View K → Except EventCore.Err (Schedule K)}
    (hsi : cfg.maxRecompute ≠ none → SchedIdleZ cfg k sched) {s : State K} (h : Idle cfg P w j s) (hjk : j < k)
    (hq : ∀ e ∈ P, (j : Int) < e.ts) (hw : ∀ j', widthOf P j' = w) (hjw : j < w) :
    ∃ s1, Sim.body cfg sched s = (s1, none) ∧ Idle cfg P w (j + 1) s1 ∧
      (cfg.maxRecompute = none → s1.core.lastUpd = s.core.lastUpd ∧ s1.core.invoked = s.core.invoked) := by
  unfold Sim.body
  rw [eventsStage_idle h hq]
  simp only
  by_cases hn : needsSched cfg.maxRecompute s.core = true
  · simp only [hn, if_true]
    have hI : Idle cfg P w j { s with core := markInvoked s.core } :=
      ⟨h.iter, h.pending, h.occ, h.resolve, h.eventHist, h.evHist, h.pilots, h.rates, h.peak, h.evs, h.evsePilot,
        h.noiseIdx, h.occLog⟩
    have hss : schedStage cfg sched { s with core := markInvoked s.core } = .ok s.pilots := by
      unfold schedStage
      rw [activeEvs_idle hI]
      have hmr : cfg.maxRecompute ≠ none := by
        intro hmr
        rw [hmr] at hn
        simp [needsSched, h.resolve] at hn
      obtain ⟨sch, hv, hz⟩ := hsi hmr (view cfg { s with core := markInvoked s.core }) (activeEvs_idle hI)
        (by show s.core.iter < k; rw [h.iter]; exact hjk)
      simp only [List.any_nil, Bool.false_eq_true, if_false, hv]
      have hit : (markInvoked s.core).iter = j := h.iter
      have hp : ({ s with core := markInvoked s.core } : State K).pilots = Mat.zeros cfg.stations.length w := h.pilots
      rw [hp, hit, hz w j _ hjw, ← h.pilots]
    rw [hss]
    simp only
    have hI2 : Idle cfg P w j { s with core := markScheduled (markInvoked s.core), pilots := s.pilots } :=
      ⟨h.iter, h.pending, h.occ, rfl, h.eventHist, h.evHist, h.pilots, h.rates, h.peak, h.evs, h.evsePilot,
        h.noiseIdx, h.occLog⟩
    rw [applyStage_idle hok hI2 (hw j) hjw]
    refine ⟨_, rfl, ?_, ?_⟩
    · refine ⟨by simp [advance, markScheduled, markInvoked, h.iter], h.pending, h.occ, rfl, h.eventHist, h.evHist,
        h.pilots, h.rates, h.peak, h.evs, h.evsePilot, h.noiseIdx, ?_⟩
      simp only [h.occLog, List.replicate_succ']
    · intro hmr
      rw [hmr] at hn
      simp [needsSched, h.resolve] at hn
  · simp only [hn, Bool.false_eq_true, if_false]
    rw [applyStage_idle hok h (hw j) hjw]
    refine ⟨_, rfl, ?_, fun _ => ⟨rfl, rfl⟩⟩
    refine ⟨by simp [advance, h.iter], h.pending, h.occ, h.resolve, h.eventHist, h.evHist,
      h.pilots, h.rates, h.peak, h.evs, h.evsePilot, h.noiseIdx, ?_⟩
    simp only [h.occLog, List.replicate_succ']

/-- `k` idle periods -/
theorem run_idleZ (hok : IdleOK cfg) {k : Nat} {sched : View K → Except EventCore.Err (Schedule K)}
    (hsi : cfg.maxRecompute ≠ none → SchedIdleZ cfg k sched) (hne : P ≠ []) (hq : ∀ e ∈ P, (k : Int) ≤ e.ts)
    (hw : ∀ j', widthOf P j' = w) (hkw : k < w + 1) : ∀ (m j : Nat) (s : State K), j + m = k → Idle cfg P w j s →
    ∃ sk, Idle cfg P w k sk ∧ (∀ n, Sim.run cfg sched (m + n) s = Sim.run cfg sched n sk) ∧
      (cfg.maxRecompute = none → sk.core.lastUpd = s.core.lastUpd ∧ sk.core.invoked = s.core.invoked) := by
  intro m
  induction m with
  | zero =>
    intro j s hjm h
    have : j = k := by omega
    subst this
    exact ⟨s, h, fun n => by simp, fun _ => ⟨rfl, rfl⟩⟩
  | succ m ih =>
    intro j s hjm h
    have hjk : j < k := by omega
    obtain ⟨s1, hb, hI1, hL1⟩ := body_idleZ hok hsi h hjk (fun e he => by have := hq e he; omega) hw (by omega)
    obtain ⟨sk, hIk, hrun, hLk⟩ := ih (j + 1) s1 (by omega) hI1
    refine ⟨sk, hIk, ?_, ?_⟩
    · intro n
      have hg : guard s.core = true := by
        unfold EventCore.guard
        rw [h.pending]
        cases hP : P with
        | nil => exact absurd hP hne
        | cons a l => simp
      rw [show m + 1 + n = (m + n) + 1 by omega]
      simp only [Sim.run, hg, if_true, hb]
      exact hrun n
    · intro hmr
      obtain ⟨a1, a2⟩ := hL1 hmr
      obtain ⟨b1, b2⟩ := hLk hmr
      exact ⟨b1.trans a1, b2.trans a2⟩

end

section
variable {k : Nat} {cfg : Cfg K}

/-- what the capstones need of the idle prefix: the state `sk` after `k` periods, and its relation to the
    original initial state -/
def IdlePrefix (k : Nat) (cfg : Cfg K) (sched' : View K → Except EventCore.Err (Schedule K)) : Prop :=
  ∃ sk : State K, (∀ n, Sim.run (shiftCfgS k cfg) sched' (k + n) (Sim.init (shiftCfgS k cfg)) =
      Sim.run (shiftCfgS k cfg) sched' n sk) ∧
    ShEquiv k sk.core.invoked (List.replicate k (noneRow cfg)) (Sim.init cfg) (setLU none sk)

/-- after the `k` idle periods (the proof of `idle_prefix` with `run_idleZ` for `run_idle`) -/
theorem idle_prefixZ (h : ShiftOK cfg) {sched' : View K → Except EventCore.Err (Schedule K)}
    (hsi : cfg.maxRecompute ≠ none → SchedIdleZ cfg k sched') : IdlePrefix k cfg sched' := by
  obtain ⟨l, hl, hl0, hpil, hrat⟩ := init_width h
  have hP := init_pending' k cfg
  have hl' : lastTs ((initPending cfg.core).map (shiftEv k)) = some (l + k) := by rw [lastTs_shift, hl]; rfl
  have hwtn : (l + (k : Int) + 1).toNat = (l + 1).toNat + k := by omega
  have hI0 : Idle (shiftCfgS k cfg) ((initPending cfg.core).map (shiftEv k)) ((l + 1).toNat + k) 0
      (Sim.init (shiftCfgS k cfg)) := by
    refine ⟨rfl, hP, rfl, rfl, rfl, rfl, ?_, ?_, rfl, rfl, rfl, rfl, rfl⟩
    · show Mat.zeros _ (match lastTs (Sim.init (shiftCfgS k cfg)).core.pending with | some l => (l + 1).toNat | none => 1) = _
      rw [hP, hl']
      simp only
      rw [hwtn]
    · show Mat.zeros _ (match lastTs (Sim.init (shiftCfgS k cfg)).core.pending with | some l => (l + 1).toNat | none => 1) = _
      rw [hP, hl']
      simp only
      rw [hwtn]
  have hne : (initPending cfg.core).map (shiftEv k) ≠ [] := by simpa using h.nonempty
  have hq : ∀ e ∈ (initPending cfg.core).map (shiftEv k), (k : Int) ≤ e.ts := by
    intro e he
    obtain ⟨d, hd, rfl⟩ := List.mem_map.1 he
    have := h.nonneg d hd
    simp only [shiftEv]
    omega
  have hw : ∀ j', widthOf ((initPending cfg.core).map (shiftEv k)) j' = (l + 1).toNat + k := by
    intro j'
    unfold widthOf
    rw [hl']
    simp only
    rw [hwtn]
  have hok' : IdleOK (shiftCfgS k cfg) := h.idle
  have hmr' : (shiftCfgS k cfg).maxRecompute = cfg.maxRecompute := rfl
  have hsi' : (shiftCfgS k cfg).maxRecompute ≠ none → SchedIdleZ (shiftCfgS k cfg) k sched' := by
    rw [hmr']; exact hsi
  obtain ⟨sk, hIk, hrun, _⟩ := run_idleZ (cfg := shiftCfgS k cfg) (sched := sched') hok'
    (k := k) hsi' hne hq hw (by omega) k 0 _ (by omega) hI0
  have hst : (shiftCfgS k cfg).stations = cfg.stations := rfl
  refine ⟨sk, hrun, ?_, ?_, ?_, ?_, ?_, ?_, ?_, ?_⟩
  · apply core_ext
    · show sk.core.iter = 0 + k
      rw [hIk.iter]; omega
    · exact hIk.pending
    · show sk.core.occ = _
      rw [hIk.occ]; rfl
    · exact hIk.resolve
    · rfl
    · exact hIk.eventHist
    · exact hIk.evHist
    · show sk.core.invoked = sk.core.invoked ++ _
      simp [Sim.init, EventCore.init, shiftCore]
  · show sk.pilots = _
    rw [hIk.pilots, hpil, shiftMat_zeros, hst]
  · show sk.rates = _
    rw [hIk.rates, hrat, shiftMat_zeros, hst]
  · exact hIk.peak
  · exact hIk.evs
  · show sk.evsePilot = _
    rw [hIk.evsePilot, hst]; rfl
  · exact hIk.noiseIdx
  · show sk.occLog = _
    rw [hIk.occLog]
    simp [Sim.init, noneRow, hst]

/-- the first period of an original run that completes does not raise -/
theorem body0_ok (h : ShiftOK cfg) {sched : View K → Except EventCore.Err (Schedule K)} {n : Nat} {r : State K}
    (hr : Sim.run cfg sched (n + 1) (Sim.init cfg) = (r, none)) :
    guard (Sim.init cfg).core = true ∧ (Sim.body cfg sched (Sim.init cfg)).2 = none := by
  have hg0 : guard (Sim.init cfg).core = true := by
    unfold EventCore.guard
    have : (Sim.init cfg).core.pending = EventCore.initPending cfg.core := rfl
    rw [this]
    cases hP : EventCore.initPending cfg.core with
    | nil => exact absurd hP h.nonempty
    | cons a l => simp
  refine ⟨hg0, ?_⟩
  have := hr
  simp only [Sim.run, hg0, if_true] at this
  obtain ⟨s1, e1', hb⟩ : ∃ s1 e1', Sim.body cfg sched (Sim.init cfg) = (s1, e1') := ⟨_, _, rfl⟩
  rw [hb] at this ⊢
  cases e1' with
  | none => rfl
  | some x => simp at this

/-- ANCHORED, from the idle prefix alone (the proof of `Acn.C10.run_shift_anchored`) -/
theorem run_shift_anchored_of_prefix (h : ShiftOK cfg)
    {sched sched' : View K → Except EventCore.Err (Schedule K)} (hs : SchedShiftInvariant k sched sched')
    (hpre : IdlePrefix k cfg sched')
    (hanchor : (Sim.eventsStage cfg (Sim.init cfg)).1.core.resolve = true)
    (n : Nat) (r : State K) (hr : Sim.run cfg sched (n + 1) (Sim.init cfg) = (r, none)) :
    ∃ r' V, Sim.run (shiftCfgS k cfg) sched' (k + (n + 1)) (Sim.init (shiftCfgS k cfg)) = (r', none) ∧
      ShEquiv k V (List.replicate k (noneRow cfg)) r r' := by
  obtain ⟨sk, hrun, he⟩ := hpre
  have hp0 : PendNonneg (Sim.init cfg).core := fun e he' => h.nonneg e he'
  obtain ⟨h1, h2⟩ := run_shift_sim (cfg := cfg) h.dep hs (n + 1) he hp0
  rw [hr] at h1 h2
  have hsk : setLU sk.core.lastUpd (setLU none sk) = sk := rfl
  obtain ⟨hg0, hbody0⟩ := body0_ok h hr
  have hgk : guard (setLU none sk).core = true := by rw [he.core, guard_sh]; exact hg0
  have hgk' : guard sk.core = true := hgk
  obtain ⟨b1, b2⟩ := body_shift_sim (cfg := cfg) h.dep hs he hp0
  obtain ⟨e1, e2⟩ := eventsStage_shift_sim (cfg := cfg) he
  have hres : (Sim.eventsStage (shiftCfgS k cfg) (setLU none sk)).1.core.resolve = true := by
    rw [e2.core]; exact hanchor
  rw [hbody0] at b1
  obtain ⟨r1', eb, hb'⟩ : ∃ r1' eb, Sim.body (shiftCfgS k cfg) sched' (setLU none sk) = (r1', eb) := ⟨_, _, rfl⟩
  rw [hb'] at b1
  simp only at b1
  subst b1
  have hbk : Sim.body (shiftCfgS k cfg) sched' sk = (r1', none) := by
    have := body_setLU (shiftCfgS k cfg) sched' sk.core.lastUpd hb' hres
    rw [hsk] at this
    exact this
  have hruneq : Sim.run (shiftCfgS k cfg) sched' (n + 1) sk =
      Sim.run (shiftCfgS k cfg) sched' (n + 1) (setLU none sk) := by
    simp only [Sim.run, hgk, hgk', if_true, hbk, hb']
  refine ⟨(Sim.run (shiftCfgS k cfg) sched' (n + 1) (setLU none sk)).1, sk.core.invoked, ?_, h2⟩
  rw [hrun (n + 1), hruneq]
  exact Prod.ext rfl h1

/-- ALIGNED (`max_recompute = m`, `m = 0 ∨ m ∣ k`), from the idle prefix alone (the proof of
    `run_shift_aligned'`) -/
theorem run_shift_aligned_of_prefix (h : ShiftOK cfg)
    {sched sched' : View K → Except EventCore.Err (Schedule K)} (hs : SchedShiftInvariant k sched sched')
    (hpre : IdlePrefix k cfg sched') {m : Nat} (hm : cfg.maxRecompute = some m) (hdiv : m = 0 ∨ m ∣ k)
    (n : Nat) (r : State K) (hr : Sim.run cfg sched (n + 1) (Sim.init cfg) = (r, none)) :
    ∃ r' V, Sim.run (shiftCfgS k cfg) sched' (k + (n + 1)) (Sim.init (shiftCfgS k cfg)) = (r', none) ∧
      ShEquiv k V (List.replicate k (noneRow cfg)) r r' := by
  obtain ⟨sk, hrun, he⟩ := hpre
  have hp0 : PendNonneg (Sim.init cfg).core := fun e he' => h.nonneg e he'
  obtain ⟨h1, h2⟩ := run_shift_sim (cfg := cfg) h.dep hs (n + 1) he hp0
  rw [hr] at h1 h2
  have hsk : setLU sk.core.lastUpd (setLU none sk) = sk := rfl
  obtain ⟨hg0, hbody0⟩ := body0_ok h hr
  have hgk : guard (setLU none sk).core = true := by rw [he.core, guard_sh]; exact hg0
  have hgk' : guard sk.core = true := hgk
  obtain ⟨b1, b2⟩ := body_shift_sim (cfg := cfg) h.dep hs he hp0
  rw [hbody0] at b1
  obtain ⟨r1', eb, hb'⟩ : ∃ r1' eb, Sim.body (shiftCfgS k cfg) sched' (setLU none sk) = (r1', eb) := ⟨_, _, rfl⟩
  rw [hb'] at b1
  simp only at b1
  subst b1
  have hmr' : (shiftCfgS k cfg).maxRecompute = some m := hm
  have hn1 : needsSched (shiftCfgS k cfg).maxRecompute (setLU none sk).core = true := by
    rw [hmr']
    simp [needsSched, setLU]
  have hn2 : needsSched (shiftCfgS k cfg).maxRecompute (setLU sk.core.lastUpd (setLU none sk)).core = true := by
    rw [hsk, hmr', idle_prefix_coreEq h hrun]
    have := (idleIter_LU' k cfg.core).2 m hm hdiv
    exact this
  have hbk : Sim.body (shiftCfgS k cfg) sched' sk = (r1', none) := by
    have := body_setLU_of_needs (shiftCfgS k cfg) sched' sk.core.lastUpd hb' hn1 hn2
    rw [hsk] at this
    exact this
  have hruneq : Sim.run (shiftCfgS k cfg) sched' (n + 1) sk =
      Sim.run (shiftCfgS k cfg) sched' (n + 1) (setLU none sk) := by
    simp only [Sim.run, hgk, hgk', if_true, hbk, hb']
  refine ⟨(Sim.run (shiftCfgS k cfg) sched' (n + 1) (setLU none sk)).1, sk.core.invoked, ?_, h2⟩
  rw [hrun (n + 1), hruneq]
  exact Prod.ext rfl h1

end
end Acn.SimShift

/-! ### the sorting-based algorithms on an idle network -/

namespace Acn.SimSorted
open Acn Acn.Sim Acn.Sorted Acn.SimShift

variable {K : Type} [Field K] [LinearOrder K] [IsStrictOrderedRing K] [HasExp K]

theorem rrLoop_nil (feas : List K → Bool) (levels : List (List K)) (fuel : Nat) (st : RRState K)
    (h : st.queue = []) : rrLoop feas levels fuel st = st := by
  cases fuel with
  | zero => rfl
  | succ f => unfold rrLoop; rw [h]

theorem zipWith_format_zeros (ids : List String) :
    List.zipWith (fun id (r : K) => (id, [r])) ids (List.replicate ids.length 0) = ids.map fun id => (id, [(0 : K)]) := by
  induction ids with
  | nil => rfl
  | cons a t ih => simp only [List.length_cons, List.replicate_succ, List.zipWith_cons_cons, List.map_cons, ih]

/-- with nothing plugged in, `SortedSchedulingAlgo` / `RoundRobin` (either preprocessing mode) answer
    `{station: [0]}` for every station — provided the all-zero schedule is feasible (else they raise) -/
theorem sortedSched_idle [HasCeilNat K] (net : NetInfo K) (inf : K) (cfg : Cfg K) (scfg : Config K)
    (hz : feasOf net (List.replicate cfg.stations.length 0) = true) (v : View K) (ha : v.active = []) :
    sortedSched net inf cfg scfg v = .ok (cfg.stations.map fun st => (st.id, [(0 : K)])) := by
  unfold sortedSched
  simp only
  have hn : (infraOf inf cfg).ids.length = cfg.stations.length := by simp [infraOf]
  have hres : (scheduleCall (feasOf net) { scfg with estimate := false } (infraOf inf cfg) cfg.period (v.iter : Int)
      (fun _ => none) { upTh := 0, downTh := 0, upInc := 0, bounds := [] } (v.active.map (sessionOfEv inf v.iter))).result =
      .ok (List.replicate cfg.stations.length 0) := by
    rw [scheduleCall_result, ha]
    have hr : resolve (infraOf inf cfg) (([] : List (Evse.Ev K)).map (sessionOfEv inf v.iter)) = .ok [] := rfl
    rw [hr]
    simp only
    have hpre : (preprocess (feasOf net) { scfg with estimate := false } (infraOf inf cfg) cfg.period (fun _ => none)
        { upTh := 0, downTh := 0, upInc := 0, bounds := [] } []).1 = [] := by
      simp only [preprocess, Bool.false_eq_true, if_false]
      split <;> rfl
    rw [hpre]
    have hq : sortSessions scfg.sort (infraOf inf cfg) cfg.period (v.iter : Int) [] = [] := rfl
    have hq' : sortSessions ({ scfg with estimate := false } : Config K).sort (infraOf inf cfg) cfg.period (v.iter : Int) [] = [] := rfl
    rw [hq']
    unfold allocResult
    cases hal : ({ scfg with estimate := false } : Config K).algo with
    | greedy =>
      simp only
      unfold sortingAlgorithm
      simp only [initSchedule, List.foldl_nil, hn, hz, Bool.not_true, Bool.false_eq_true, if_false, greedyLoop]
    | roundRobin =>
      simp only
      unfold roundRobin
      simp only [rrInit, List.foldl_nil, hn, hz, Bool.not_true, Bool.false_eq_true, if_false]
      rw [rrLoop_nil _ _ _ _ rfl]
      rfl
  rw [hres]
  simp only
  unfold formatArraySchedule
  rw [← hn, zipWith_format_zeros]
  simp [infraOf, List.map_map]

theorem sortedSched_idleZ [HasCeilNat K] (net : NetInfo K) (inf : K) (cfg : Cfg K) (scfg : Config K) (k : Nat)
    (hz : feasOf net (List.replicate cfg.stations.length 0) = true) :
    SchedIdleZ cfg k (sortedSched net inf (shiftCfgS k cfg) scfg) := by
  intro v ha _
  exact ⟨_, sortedSched_idle net inf (shiftCfgS k cfg) scfg hz v ha, zeroSched_rows cfg⟩

end Acn.SimSorted
