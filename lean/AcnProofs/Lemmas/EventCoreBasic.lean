/-
  Helper lemmas for C01 (1/3): the key order, the stable sort, sessions and their events.
-/
import AcnModel.EventCore
import Mathlib.Tactic

namespace Acn.EventCore
open Acn

/-! ### precedences (regenerated data) and the key order -/

theorem prec_unplug_lt_plugin : EvKind.unplug.prec < EvKind.plugin.prec := by
  simp only [EvKind.prec, Gen.precUnplug, Gen.precPlugin]; norm_num

theorem prec_plugin_lt_recompute : EvKind.plugin.prec < EvKind.recompute.prec := by
  simp only [EvKind.prec, Gen.precPlugin, Gen.precRecompute]; norm_num

theorem keyLt_iff (a b : Event) :
    a.keyLt b = true ↔ a.ts < b.ts ∨ (a.ts = b.ts ∧ a.kind.prec < b.kind.prec) := by
  simp [Event.keyLt]

theorem keyLe_iff (a b : Event) :
    a.keyLe b = true ↔ a.ts < b.ts ∨ (a.ts = b.ts ∧ a.kind.prec ≤ b.kind.prec) := by
  simp only [Event.keyLe, Bool.not_eq_true', ← Bool.not_eq_true, keyLt_iff]
  constructor
  · intro h
    rcases lt_trichotomy a.ts b.ts with h1 | h1 | h1
    · exact Or.inl h1
    · refine Or.inr ⟨h1, ?_⟩
      by_contra h2
      exact h (Or.inr ⟨h1.symm, lt_of_not_ge h2⟩)
    · exact absurd (Or.inl h1) h
  · rintro (h | ⟨h1, h2⟩) (h' | ⟨h1', h2'⟩)
    · omega
    · omega
    · omega
    · exact absurd h2 (not_le.mpr h2')

theorem keyLe_total (a b : Event) : a.keyLe b = true ∨ b.keyLe a = true := by
  rw [keyLe_iff, keyLe_iff]
  rcases lt_trichotomy a.ts b.ts with h | h | h
  · exact Or.inl (Or.inl h)
  · rcases le_total a.kind.prec b.kind.prec with h' | h'
    · exact Or.inl (Or.inr ⟨h, h'⟩)
    · exact Or.inr (Or.inr ⟨h.symm, h'⟩)
  · exact Or.inr (Or.inl h)

theorem keyLe_trans {a b c : Event} (h1 : a.keyLe b = true) (h2 : b.keyLe c = true) : a.keyLe c = true := by
  rw [keyLe_iff] at *
  rcases h1 with h1 | ⟨h1, h1'⟩ <;> rcases h2 with h2 | ⟨h2, h2'⟩
  · exact Or.inl (by omega)
  · exact Or.inl (by omega)
  · exact Or.inl (by omega)
  · exact Or.inr ⟨by omega, le_trans h1' h2'⟩

theorem keyLe_of_ts_lt {a b : Event} (h : a.ts < b.ts) : a.keyLe b = true := (keyLe_iff a b).2 (Or.inl h)

/-- at equal timestamps a plug-in is never `≤` an unplug -/
theorem not_keyLe_plugin_unplug {a b : Event} (hts : a.ts = b.ts) (ha : a.kind = .plugin) (hb : b.kind = .unplug) :
    ¬ a.keyLe b = true := by
  rw [keyLe_iff, ha, hb]
  rintro (h | ⟨_, h⟩)
  · omega
  · exact absurd h (not_le.mpr prec_unplug_lt_plugin)

/-! ### the stable insertion sort -/

theorem insertByKey_perm (e : Event) (l : List Event) : (insertByKey e l).Perm (e :: l) := by
  induction l with
  | nil => simp [insertByKey]
  | cons d ds ih =>
    simp only [insertByKey]
    split
    · exact List.Perm.refl _
    · exact (List.Perm.cons d ih).trans (List.Perm.swap e d ds)

theorem sortByKey_perm (l : List Event) : (sortByKey l).Perm l := by
  induction l with
  | nil => simp [sortByKey]
  | cons e es ih =>
    show (insertByKey e (sortByKey es)).Perm (e :: es)
    exact (insertByKey_perm e _).trans (List.Perm.cons e ih)

theorem insertByKey_sorted (e : Event) (l : List Event) (h : l.Pairwise (fun a b => a.keyLe b = true)) :
    (insertByKey e l).Pairwise (fun a b => a.keyLe b = true) := by
  induction l with
  | nil => simp [insertByKey]
  | cons d ds ih =>
    simp only [insertByKey]
    rw [List.pairwise_cons] at h
    split
    · rename_i hed
      refine List.pairwise_cons.2 ⟨?_, List.pairwise_cons.2 h⟩
      intro x hx
      rcases List.mem_cons.1 hx with rfl | hx
      · exact hed
      · exact keyLe_trans hed (h.1 x hx)
    · rename_i hed
      refine List.pairwise_cons.2 ⟨?_, ih h.2⟩
      intro x hx
      rcases List.mem_cons.1 ((insertByKey_perm e ds).mem_iff.1 hx) with rfl | hx
      · rcases keyLe_total x d with h' | h'
        · exact absurd h' hed
        · exact h'
      · exact h.1 x hx

theorem sortByKey_sorted (l : List Event) : (sortByKey l).Pairwise (fun a b => a.keyLe b = true) := by
  induction l with
  | nil => simp [sortByKey]
  | cons e es ih => exact insertByKey_sorted e _ ih

theorem mem_sortByKey {l : List Event} {e : Event} : e ∈ sortByKey l ↔ e ∈ l := (sortByKey_perm l).mem_iff

theorem nodup_sortByKey {l : List Event} : (sortByKey l).Nodup ↔ l.Nodup := (sortByKey_perm l).nodup_iff

/-- a duplicate-free list all of whose members equal `a` and that contains `a` is `[a]` -/
theorem eq_singleton_of_nodup {α : Type} {l : List α} {a : α} (hn : l.Nodup) (hall : ∀ x ∈ l, x = a) (ha : a ∈ l) :
    l = [a] := by
  match l, hn, hall, ha with
  | [x], _, hall, _ => rw [hall x (by simp)]
  | x :: y :: r, hn, hall, _ =>
    have hx := hall x (by simp)
    have hy := hall y (by simp)
    rw [List.nodup_cons] at hn
    exact absurd (by rw [hx, hy]; simp) hn.1

end Acn.EventCore
