/-
  Uniqueness of the solution of the documented two-stage law (Grönwall / `ODE_solution_unique`):
  the right-hand side `y ↦ min p (κ (1 − y))` is `κ`-Lipschitz, so every solution with the
  same initial SoC coincides with the closed-form flow.
-/
import AcnProofs.Lemmas.BatteryCont
import Mathlib.Analysis.ODE.ExistUnique

namespace Acn.BattFlow
open Real Set Filter Topology

theorem lawRate_lipschitz (p : ℝ) {κ : ℝ} (hκ : 0 ≤ κ) :
    LipschitzWith ⟨κ, hκ⟩ (fun y : ℝ => min p (κ * (1 - y))) := by
  refine LipschitzWith.of_dist_le_mul (fun x y => ?_)
  rw [Real.dist_eq, Real.dist_eq]
  have h := abs_min_sub_min_le_max p (κ * (1 - x)) p (κ * (1 - y))
  rw [sub_self, abs_zero, max_eq_right (abs_nonneg _)] at h
  refine le_trans h ?_
  have : κ * (1 - x) - κ * (1 - y) = κ * (y - x) := by ring
  rw [this, abs_mul, abs_of_nonneg hκ, abs_sub_comm y x]
  exact le_refl _

theorem flow_unique {p κ s T : ℝ} (hp : 0 < p) (hκ : 0 < κ) (z : ℝ → ℝ) (hz0 : z 0 = s)
    (hzc : ContinuousOn z (Icc 0 T))
    (hz : ∀ t ∈ Ico 0 T, HasDerivWithinAt z (min p (κ * (1 - z t))) (Ici t) t) :
    ∀ t ∈ Icc 0 T, z t = flowSoc p κ s t := by
  have hg : ContinuousOn (fun τ => flowSoc p κ s τ) (Icc 0 T) := fun t ht =>
    (flowSoc_hasDerivAt hp hκ ht.1).continuousAt.continuousWithinAt
  have hg' : ∀ t ∈ Ico 0 T, HasDerivWithinAt (fun τ => flowSoc p κ s τ)
      (min p (κ * (1 - flowSoc p κ s t))) (Ici t) t := fun t ht =>
    (flowSoc_hasDerivAt hp hκ ht.1).hasDerivWithinAt
  have := ODE_solution_unique (v := fun _ y => min p (κ * (1 - y))) (K := ⟨κ, hκ.le⟩)
    (fun _ => lawRate_lipschitz p hκ.le) hzc hz hg hg'
    (by rw [hz0]; exact (flowSoc_zero hp hκ).symm)
  exact fun t ht => this ht

end Acn.BattFlow
