/-
  Helper lemmas for C04, part 1: rows, growth, block write (no schedules yet).
  Everything holds for an arbitrary carrier with a zero.
-/
import Mathlib.Tactic
import AcnModel.Pilots

set_option linter.unusedSimpArgs false
set_option linter.unusedSectionVars false

namespace Acn.Pilots
variable {K : Type} [OfNat K 0]

/-! ### rows -/

theorem getD_append_replicate (r : List K) (k τ : Nat) :
    (r ++ List.replicate k 0).getD τ 0 = r.getD τ 0 := by
  simp only [List.getD_eq_getElem?_getD]
  by_cases h : τ < r.length
  · rw [List.getElem?_append_left h]
  · rw [List.getElem?_append_right (by omega), List.getElem?_eq_none (l := r) (by omega)]
    by_cases h2 : τ - r.length < k
    · simp [List.getElem?_replicate, h2]
    · simp [List.getElem?_replicate, h2]

theorem writeRow_length (row : List K) (t : Nat) (blk : List K) (h : t + blk.length ≤ row.length) :
    (writeRow row t blk).length = row.length := by
  simp only [writeRow, List.length_append, List.length_take, List.length_drop]
  omega

theorem writeRow_getD (row : List K) (t : Nat) (blk : List K) (h : t + blk.length ≤ row.length)
    (τ : Nat) :
    (writeRow row t blk).getD τ 0 =
      if t ≤ τ ∧ τ < t + blk.length then blk.getD (τ - t) 0 else row.getD τ 0 := by
  have hlt : (row.take t).length = t := by simp [List.length_take]; omega
  simp only [writeRow, List.getD_eq_getElem?_getD]
  by_cases h1 : τ < t
  · have : ¬ (t ≤ τ ∧ τ < t + blk.length) := by omega
    rw [if_neg this, List.append_assoc, List.getElem?_append_left (by omega), List.getElem?_take_of_lt h1]
  · by_cases h2 : τ < t + blk.length
    · rw [if_pos ⟨by omega, h2⟩, List.append_assoc, List.getElem?_append_right (by omega),
        List.getElem?_append_left (by omega), hlt]
    · have : ¬ (t ≤ τ ∧ τ < t + blk.length) := by omega
      rw [if_neg this, List.getElem?_append_right (by simp [hlt]; omega)]
      simp only [List.length_append, hlt, List.getElem?_drop]
      congr 2
      omega

/-! ### growth -/

theorem increaseWidth_width (m : Mat K) (target : Nat) :
    (increaseWidth m target).width = max m.width target := by
  unfold increaseWidth
  split <;> simp <;> omega

theorem increaseWidth_rows_length (m : Mat K) (target : Nat) :
    (increaseWidth m target).rows.length = m.rows.length := by
  unfold increaseWidth
  split <;> simp

theorem increaseWidth_wf {n : Nat} {m : Mat K} (h : m.WF n) (target : Nat) :
    (increaseWidth m target).WF n := by
  unfold increaseWidth
  split
  · exact h
  · refine ⟨by simpa using h.1, ?_⟩
    intro r hr
    simp only [List.mem_map] at hr
    obtain ⟨r0, hr0, rfl⟩ := hr
    have := h.2 r0 hr0
    simp only [List.length_append, List.length_replicate]
    omega

/-- growth is invisible to `get` (no well-formedness needed) -/
theorem increaseWidth_get' (m : Mat K) (target i τ : Nat) :
    (increaseWidth m target).get i τ = m.get i τ := by
  unfold increaseWidth
  split
  · rfl
  · simp only [Mat.get, List.getD_eq_getElem?_getD, List.getElem?_map]
    cases hr : m.rows[i]? with
    | none => simp
    | some r =>
      simp only [Option.map_some, Option.getD_some]
      have := getD_append_replicate r (target - r.length) τ
      simpa [List.getD_eq_getElem?_getD] using this

theorem zeros_wf (n w : Nat) : (Mat.zeros n w : Mat K).WF n := by
  refine ⟨by simp [Mat.zeros], ?_⟩
  intro r hr
  simp only [Mat.zeros, List.mem_replicate] at hr
  simp [hr.2, Mat.zeros]

theorem zeros_get (n w i τ : Nat) : (Mat.zeros n w : Mat K).get i τ = 0 := by
  simp only [Mat.get, Mat.zeros, List.getD_eq_getElem?_getD, List.getElem?_replicate]
  by_cases h : i < n
  · by_cases h2 : τ < w <;> simp [h, h2]
  · simp [h]

/-! ### block write -/

theorem writeBlock_wf {n : Nat} {m : Mat K} (h : m.WF n) (t len : Nat) (dense : List (List K))
    (hd : dense.length = n) (hl : ∀ b ∈ dense, b.length = len) (hw : t + len ≤ m.width) :
    (writeBlock m t dense).WF n := by
  refine ⟨by simp [writeBlock, h.1, hd], ?_⟩
  intro r hr
  simp only [writeBlock] at hr ⊢
  rw [List.mem_iff_getElem] at hr
  obtain ⟨k, hk, rfl⟩ := hr
  simp only [List.length_zipWith] at hk
  simp only [List.getElem_zipWith]
  have h1 := h.2 m.rows[k] (List.getElem_mem _)
  have h2 := hl dense[k] (List.getElem_mem _)
  rw [writeRow_length _ _ _ (by omega)]
  exact h1

/-- the block-write lemma of DESIGN §3.5 -/
theorem writeBlock_get' {n : Nat} {m : Mat K} (h : m.WF n) (t len : Nat) (dense : List (List K))
    (hd : dense.length = n) (hl : ∀ b ∈ dense, b.length = len) (hw : t + len ≤ m.width)
    (i τ : Nat) :
    (writeBlock m t dense).get i τ =
      if t ≤ τ ∧ τ < t + len then (dense.getD i []).getD (τ - t) 0 else m.get i τ := by
  simp only [Mat.get, writeBlock]
  by_cases hi : i < n
  · have hi1 : i < m.rows.length := by rw [h.1]; exact hi
    have hi2 : i < dense.length := by rw [hd]; exact hi
    have e1 : (List.zipWith (fun row blk => writeRow row t blk) m.rows dense).getD i [] =
        writeRow m.rows[i] t dense[i] := by
      simp [List.getD_eq_getElem?_getD, List.getElem?_zipWith, hi1, hi2]
    have e2 : m.rows.getD i [] = m.rows[i] := by simp [List.getD_eq_getElem?_getD, hi1]
    have e3 : dense.getD i [] = dense[i] := by simp [List.getD_eq_getElem?_getD, hi2]
    have h1 := h.2 m.rows[i] (List.getElem_mem _)
    have h2 := hl dense[i] (List.getElem_mem _)
    rw [e1, e2, e3, writeRow_getD _ _ _ (by omega), h2]
  · have e1 : (List.zipWith (fun row blk => writeRow row t blk) m.rows dense).getD i [] = [] := by
      simp [List.getD_eq_getElem?_getD, List.getElem?_zipWith, h.1, hd, hi]
    have e2 : m.rows.getD i [] = [] := by simp [List.getD_eq_getElem?_getD, h.1, hi]
    have e3 : dense.getD i [] = [] := by simp [List.getD_eq_getElem?_getD, hd, hi]
    rw [e1, e2, e3]
    simp

end Acn.Pilots
