/-
  Helper lemmas for C02: the configuration of a second simulation over the same EV objects
  (`AcnModel/Rerun.lean`) — what `EV.reset()` leaves of an EV, lookup through the reset list, and the
  numerics-free part of the configuration.
-/
import AcnModel.Rerun
import AcnProofs.Lemmas.LedgerInv

set_option linter.unusedSectionVars false

namespace Acn.Ledger
open Acn Acn.Sim Acn.EventCore Acn.Evse Acn.Rerun

variable {K : Type} [Field K] [LinearOrder K] [IsStrictOrderedRing K] [HasExp K]

theorem resetEv_sessionOf (e : Ev K) : sessionOf (resetEv e) = sessionOf e := rfl

theorem evIn_map_resetEv (evs : List (Ev K)) (id : String) :
    evIn (evs.map resetEv) id = (evIn evs id).map resetEv := by
  unfold evIn
  rw [List.find?_map]
  rfl

/-- an EV of the second configuration is the reset of the EV with the same id in the state the first
    simulation left -/
theorem evIn_rerunCfg {cfg : Cfg K} {s1 : State K} {id : String} {e0 : Ev K}
    (h0 : evIn (rerunCfg cfg s1).evs id = some e0) :
    ∃ e1, evIn s1.evs id = some e1 ∧ e0 = resetEv e1 := by
  have h : evIn (s1.evs.map resetEv) id = some e0 := h0
  rw [evIn_map_resetEv] at h
  cases h1 : evIn s1.evs id with
  | none => simp [h1] at h
  | some e1 =>
    refine ⟨e1, rfl, ?_⟩
    simpa [h1] using h.symm

/-- when the first simulation left identity, station and connection interval of every EV alone, the second
    simulation has the same events as the first -/
theorem rerunCfg_core {cfg : Cfg K} {s1 : State K} (hs : s1.evs.map sessionOf = cfg.evs.map sessionOf) :
    (rerunCfg cfg s1).core = cfg.core := by
  unfold Cfg.core rerunCfg
  simp only [List.map_map]
  have : (sessionOf ∘ resetEv : Ev K → Session) = sessionOf := by
    funext e
    rfl
  rw [this, hs]

end Acn.Ledger
