/-
  Helper lemmas for C09 (1/3): `invoked` (the list of periods in which the scheduler was called) is a
  ghost field — no stage of `Sim.body` reads it.  A failed scheduler call leaves exactly one extra
  entry there, so "the resumed run equals the uninterrupted run" is stated modulo that field:
  `ObsEq s t` = equal in everything except `core.invoked`.
-/
import AcnModel.Sim
import Mathlib.Tactic

namespace Acn.EventCore

def setInv (l : List Nat) (c : Core) : Core := { c with invoked := l }

theorem process_setInv (cfg : Cfg) (e : Event) (l : List Nat) (c : Core) :
    process cfg e (setInv l c) = (setInv l (process cfg e c).1, (process cfg e c).2) := by
  unfold process
  cases e.kind <;> simp only []
  · cases findSession cfg e.sess with
    | none => rfl
    | some x =>
      by_cases h : cfg.stations.contains x.station = true <;> simp only [h, if_true] <;> rfl
  · cases findSession cfg e.sess with
    | none => rfl
    | some x =>
      by_cases h : cfg.stations.contains x.station = true <;> simp only [h, if_true]
      · show (match c.occ x.station with | some _ => _ | none => _) = _
        cases h : c.occ x.station <;> rfl
      · rfl
  · rfl

theorem step_setInv (cfg : Cfg) (e : Event) (l : List Nat) (c : Core) :
    step cfg e (setInv l c) = (setInv l (step cfg e c).1, (step cfg e c).2) :=
  process_setInv cfg e l { c with eventHist := c.eventHist ++ [e] }

end Acn.EventCore

set_option linter.unusedSectionVars false

namespace Acn.Sim
open Acn Acn.EventCore

variable {K : Type} [Add K] [Sub K] [Mul K] [Div K] [Neg K] [LT K] [LE K]
  [DecidableLT K] [DecidableLE K] [OfNat K 0] [OfNat K 1] [NatCast K] [HasExp K]

/-- overwrite the ghost field -/
def withInv (l : List Nat) (s : State K) : State K := { s with core := setInv l s.core }

/-- equal in every field except `core.invoked` -/
def ObsEq (s t : State K) : Prop := withInv [] s = withInv [] t

theorem ObsEq.rfl' (s : State K) : ObsEq s s := rfl
theorem ObsEq.symm {s t : State K} (h : ObsEq s t) : ObsEq t s := Eq.symm h
theorem ObsEq.trans {s t u : State K} (h : ObsEq s t) (h' : ObsEq t u) : ObsEq s u := Eq.trans h h'

@[simp] theorem withInv_withInv (l l' : List Nat) (s : State K) : withInv l (withInv l' s) = withInv l s := rfl
@[simp] theorem withInv_self (s : State K) : withInv s.core.invoked s = s := rfl

theorem obsEq_withInv (l : List Nat) (s : State K) : ObsEq (withInv l s) s := rfl

theorem ObsEq.eq_withInv {s t : State K} (h : ObsEq s t) : t = withInv t.core.invoked s := by
  have : withInv t.core.invoked (withInv [] t) = withInv t.core.invoked (withInv [] s) := by rw [h]
  simpa using this

/-- the outcome of a stage: state and error -/
def ObsEqR (r r' : State K × Option Err) : Prop := ObsEq r.1 r'.1 ∧ r.2 = r'.2

theorem ObsEqR.trans {a b c : State K × Option Err} (h : ObsEqR a b) (h' : ObsEqR b c) : ObsEqR a c :=
  ⟨h.1.trans h'.1, h.2.trans h'.2⟩
theorem ObsEqR.symm {a b : State K × Option Err} (h : ObsEqR a b) : ObsEqR b a := ⟨h.1.symm, h.2.symm⟩

/-! ### every stage commutes with overwriting the ghost field -/

theorem stepEv_withInv (cfg : Cfg K) (e : Event) (l : List Nat) (s : State K) :
    stepEv cfg e (withInv l s) = (withInv l (stepEv cfg e s).1, (stepEv cfg e s).2) := by
  unfold stepEv
  show (_ : State K × Option Err) = _
  have h : EventCore.step cfg.core e (withInv l s).core
      = (setInv l (EventCore.step cfg.core e s.core).1, (EventCore.step cfg.core e s.core).2) :=
    step_setInv cfg.core e l s.core
  simp only [h]
  rfl

theorem processAll_withInv (cfg : Cfg K) (l : List Nat) : ∀ (es : List Event) (s : State K),
    processAll cfg es (withInv l s) = (withInv l (processAll cfg es s).1, (processAll cfg es s).2)
  | [], s => rfl
  | e :: es, s => by
    simp only [processAll, stepEv_withInv]
    rcases h : stepEv cfg e s with ⟨s2, _ | err⟩
    · simp only []; exact processAll_withInv cfg l es s2
    · rfl

theorem eventsStage_withInv (cfg : Cfg K) (l : List Nat) (s : State K) :
    eventsStage cfg (withInv l s) = (withInv l (eventsStage cfg s).1, (eventsStage cfg s).2) :=
  processAll_withInv cfg l (popCurrent s.core.iter s.core.pending).1
    { s with core := { s.core with pending := (popCurrent s.core.iter s.core.pending).2 } }

theorem schedStage_withInv (cfg : Cfg K) (sched : View K → Except Err (Schedule K)) (l : List Nat) (s : State K) :
    schedStage cfg sched (withInv l s) = schedStage cfg sched s := rfl

@[simp] theorem withInv_pilots (l : List Nat) (s : State K) : (withInv l s).pilots = s.pilots := rfl
@[simp] theorem withInv_rates (l : List Nat) (s : State K) : (withInv l s).rates = s.rates := rfl
@[simp] theorem withInv_peak (l : List Nat) (s : State K) : (withInv l s).peak = s.peak := rfl
@[simp] theorem withInv_evs (l : List Nat) (s : State K) : (withInv l s).evs = s.evs := rfl
@[simp] theorem withInv_evsePilot (l : List Nat) (s : State K) : (withInv l s).evsePilot = s.evsePilot := rfl
@[simp] theorem withInv_noiseIdx (l : List Nat) (s : State K) : (withInv l s).noiseIdx = s.noiseIdx := rfl
@[simp] theorem withInv_occLog (l : List Nat) (s : State K) : (withInv l s).occLog = s.occLog := rfl
@[simp] theorem withInv_iter (l : List Nat) (s : State K) : (withInv l s).core.iter = s.core.iter := rfl
@[simp] theorem withInv_pending (l : List Nat) (s : State K) : (withInv l s).core.pending = s.core.pending := rfl
@[simp] theorem withInv_occ (l : List Nat) (s : State K) : (withInv l s).core.occ = s.core.occ := rfl
@[simp] theorem withInv_occupantEv (l : List Nat) (s : State K) (st : String) :
    occupantEv (withInv l s) st = occupantEv s st := rfl

theorem setPilotAt_withInv (cfg : Cfg K) (l : List Nat) (s : State K) (i : Nat) (st : Station K) :
    setPilotAt cfg (withInv l s) i st = (withInv l (setPilotAt cfg s i st).1, (setPilotAt cfg s i st).2) := by
  unfold setPilotAt
  simp only [withInv_pilots, withInv_iter, withInv_evsePilot, withInv_noiseIdx, withInv_occupantEv]
  split
  · rfl
  · rfl
  · rfl

theorem updatePilotsFrom_withInv (cfg : Cfg K) (l : List Nat) : ∀ (i : Nat) (sts : List (Station K)) (s : State K),
    updatePilotsFrom cfg i sts (withInv l s)
      = (withInv l (updatePilotsFrom cfg i sts s).1, (updatePilotsFrom cfg i sts s).2)
  | _, [], _ => rfl
  | i, st :: rest, s => by
    simp only [updatePilotsFrom, setPilotAt_withInv]
    rcases h : setPilotAt cfg s i st with ⟨s2, _ | err⟩
    · simp only []; exact updatePilotsFrom_withInv cfg l (i + 1) rest s2
    · rfl

theorem storeRates_withInv (cfg : Cfg K) (l : List Nat) (w : Nat) (s : State K) :
    storeRates cfg w (withInv l s) = (withInv l (storeRates cfg w s).1, (storeRates cfg w s).2) := by
  unfold storeRates
  simp only [withInv_rates, withInv_iter]
  by_cases h1 : s.core.iter < s.rates.width
  · simp only [h1, if_true]; rfl
  · simp only [h1, if_false]
    by_cases h2 : s.core.iter < (Pilots.increaseWidth s.rates w).width
    · simp only [h2, if_true]; rfl
    · simp only [h2, if_false]; rfl

theorem widen_withInv (l : List Nat) (s : State K) : widen (withInv l s) = withInv l (widen s) := rfl
theorem widthInc_withInv (l : List Nat) (s : State K) : widthInc (withInv l s) = widthInc s := rfl

theorem applyStage_withInv (cfg : Cfg K) (l : List Nat) (s : State K) :
    applyStage cfg (withInv l s) = (withInv l (applyStage cfg s).1, (applyStage cfg s).2) := by
  unfold applyStage updatePilots
  simp only [widen_withInv, widthInc_withInv, withInv_pilots, withInv_iter, updatePilotsFrom_withInv]
  by_cases h : (widen s).pilots.width ≤ s.core.iter
  · simp only [h, if_true]
  · simp only [h, if_false]
    rcases updatePilotsFrom cfg 0 cfg.stations (widen s) with ⟨s2, _ | err⟩
    · simp only [storeRates_withInv]
      rcases storeRates cfg (widthInc s) s2 with ⟨s3, _ | err⟩
      · rfl
      · rfl
    · rfl

end Acn.Sim
