/-
  C17 — obligations on the REGENERATED data of tariff file `sce_tou_ev_4_march_2019_tou_periods_shifted.json`
  (`AcnModel/Gen/Tariffs.lean`, rewritten from the working tree on every run).
  One module per file: if this file's data breaks an obligation, only this module fails.
-/
import AcnModel.Gen.Tariffs
import AcnProofs.C17

namespace Acn.C17
open Acn.Tariff Acn.Gen.Tariffs

/-- the loader accepts the file (masks are legal, every breakpoint list starts at 0) -/
theorem loads_sce_tou_ev_4_march_2019_tou_periods_shifted : loadsOk sce_tou_ev_4_march_2019_tou_periods_shifted = true := by decide +kernel

/-- on every (month, day) of the complete 366-day table and every weekday exactly one schedule
    of the loaded file is valid — no gap, no ambiguity, for all 14 calendar types -/
theorem total_unambiguous_sce_tou_ev_4_march_2019_tou_periods_shifted :
    ∀ md ∈ days366, ∀ wd < 7, countValid (loadedOf sce_tou_ev_4_march_2019_tou_periods_shifted) md wd = 1 := by
  decide +kernel

/-- every breakpoint list is strictly increasing, starts at 0 and sits on half hours -/
theorem breakpoints_ok_sce_tou_ev_4_march_2019_tou_periods_shifted : ∀ sch ∈ loadedOf sce_tou_ev_4_march_2019_tou_periods_shifted, breakpointsOk sch = true := by
  decide +kernel

/-- `get_tariff` and `get_demand_charge` succeed at EVERY instant (any year, any second) -/
theorem tariff_total_sce_tou_ev_4_march_2019_tou_periods_shifted (t : Int) :
    (∃ r, getTariffAt (loadedOf sce_tou_ev_4_march_2019_tou_periods_shifted) t = .ok r) ∧ (∃ d, getDemandAt (loadedOf sce_tou_ev_4_march_2019_tou_periods_shifted) t = .ok d) :=
  tariff_total_of_table _ total_unambiguous_sce_tou_ev_4_march_2019_tou_periods_shifted breakpoints_ok_sce_tou_ev_4_march_2019_tou_periods_shifted t

/-- at EVERY instant the price is the rate of the unique valid schedule at the greatest breakpoint
    `k/2 h` with `1800·k ≤ seconds since midnight` -/
theorem tariff_spec_sce_tou_ev_4_march_2019_tou_periods_shifted (t : Int) :
    ∃ sch ∈ loadedOf sce_tou_ev_4_march_2019_tou_periods_shifted, selectSchedule (loadedOf sce_tou_ev_4_march_2019_tou_periods_shifted) (fieldsOf t).md (fieldsOf t).wd = .ok sch ∧
      ∃ p ∈ sch.tariffs, ∃ kp : Nat, getTariffAt (loadedOf sce_tou_ev_4_march_2019_tou_periods_shifted) t = .ok p.2 ∧ p.1 = (kp : ℚ) / 2 ∧
        1800 * kp ≤ secOfDay (fieldsOf t).h (fieldsOf t).m (fieldsOf t).s ∧
        ∀ q ∈ sch.tariffs, ∀ kq : Nat, q.1 = (kq : ℚ) / 2 →
          1800 * kq ≤ secOfDay (fieldsOf t).h (fieldsOf t).m (fieldsOf t).s → kq ≤ kp :=
  get_tariff_at_spec _ total_unambiguous_sce_tou_ev_4_march_2019_tou_periods_shifted breakpoints_ok_sce_tou_ev_4_march_2019_tou_periods_shifted t

example : 2 ≤ (loadedOf sce_tou_ev_4_march_2019_tou_periods_shifted).length := by decide +kernel

end Acn.C17
