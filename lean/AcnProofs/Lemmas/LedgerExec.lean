/-
  C02, executable form of the specification sums (NO Mathlib here: `drv_C02` links this module).
  Written once, carrier-polymorphic: executed at `Float` by the driver on every scenario of the
  correspondence, and proved equal to the `Finset` sums of the theorems in `LedgerExecEq.lean`.
-/
import AcnModel.Sim

namespace Acn.LedgerX
open Acn Acn.Sim

section
variable {K : Type} [Add K] [Mul K] [Div K] [OfNat K 0] [NatCast K] [LT K] [DecidableLT K]

/-- Σ_{i<n} f i, left to right from 0 -/
def sumRange (n : Nat) (f : Nat → K) : K := (List.range n).foldl (fun acc i => acc + f i) 0

/-- ev.py:142 -/
def energyX (r V T : K) : K := (r * V) / (1000 : Nat) * (T / (60 : Nat))

def voltX (cfg : Cfg K) (i : Nat) : K := (cfg.stations.map (·.voltage)).getD i 0

def occAtX (log : List (List (Option String))) (τ i : Nat) : Option String := (log.getD τ []).getD i none

/-- Σ over the periods so far and all stations, counted where the snapshot shows session `id` -/
def sessionEnergyX (cfg : Cfg K) (rates : Pilots.Mat K) (log : List (List (Option String)))
    (id : String) (t : Nat) : K :=
  sumRange t fun τ => sumRange cfg.stations.length fun i =>
    if occAtX log τ i = some id then energyX (rates.get i τ) (voltX cfg i) cfg.period else 0

/-- Σ over the periods so far inside `[arrival, departure)` of the row `k` -/
def intervalEnergyX (cfg : Cfg K) (rates : Pilots.Mat K) (k : Nat) (arrival departure : Int) (t : Nat) : K :=
  sumRange t fun τ =>
    if arrival ≤ (τ : Int) ∧ (τ : Int) < departure then energyX (rates.get k τ) (voltX cfg k) cfg.period else 0

def aggCurrentX (m : Pilots.Mat K) (n τ : Nat) : K := sumRange n fun i => m.get i τ

def peakX (m : Pilots.Mat K) (n t : Nat) : K :=
  (List.range t).foldl (fun acc τ => pyMax acc (aggCurrentX m n τ)) 0

/-- Σ_τ aggregate_power(τ) · period/60 -/
def integralX (cfg : Cfg K) (rates : Pilots.Mat K) (t : Nat) : K :=
  sumRange t fun τ =>
    (sumRange cfg.stations.length fun i => voltX cfg i * rates.get i τ / (1000 : Nat)) * (cfg.period / (60 : Nat))

end
end Acn.LedgerX
