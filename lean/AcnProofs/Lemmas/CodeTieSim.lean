/-
  T1c — the hand-written numeric kernels ARE the code, by proof (Sim group).

  `AcnModel/Gen/CodeSim.lean` is regenerated on every run from the Python ASTs of /repo's working tree
  (harness/translate_code.py: a mechanical statement-by-statement translation).  This file proves,
  for EVERY input and at every carrier `K`, that each translated function equals the hand-written
  model function the property theorems are about.  A change of a comparison, clamp, operand order,
  tolerance or assignment in one of these Python functions changes `Gen.Code.*`, and the
  corresponding theorem below stops compiling — whether or not a generated test input happens to
  hit the affected edge.

  Not translated (recorded in the trusted base): Python's `ZeroDivisionError` on float division —
  the hand models return `zeroDivision` where the implementation raises; the ties are stated for the
  inputs on which the model does not report it.  NaN/inf comparison corner cases are IEEE matters.
-/
import AcnModel.Gen.CodeSim
import AcnModel.Sim
import AcnModel.EventCore

set_option linter.unusedSectionVars false

namespace Acn.CodeTie
open Acn Acn.Battery Acn.Evse

section
variable {K : Type} [Add K] [Sub K] [Mul K] [Div K] [Neg K] [LT K] [LE K]
  [DecidableLT K] [DecidableLE K] [OfNat K 0] [OfNat K 1] [NatCast K] [HasExp K]

/-- `EV.fully_charged` is the negation of the simulator model's `isActive` at the literal threshold. -/
theorem ev_fully_charged_tie (cfg : Sim.Cfg K) (e : Ev K)
    (h : cfg.fullEps = ((1 : Nat) : K) / ((1000 : Nat) : K)) :
    Gen.Code.ev_fully_charged e = !Sim.isActive cfg e := by
  unfold Gen.Code.ev_fully_charged Sim.isActive
  rw [h]

end

/-- the recompute trigger of `Simulator.run` is `EventCore.needsSched` -/
theorem sim_needs_schedule_tie (mr : Option Nat) (c : EventCore.Core) :
    Gen.Code.sim_needs_schedule c.resolve mr c.lastUpd c.iter = EventCore.needsSched mr c := by
  unfold Gen.Code.sim_needs_schedule EventCore.needsSched
  cases mr <;> cases c.lastUpd <;> simp

/-- every target of this group was translated in this run -/
theorem all_translated_sim : Gen.Code.translatedSim = ["ev_fully_charged", "sim_needs_schedule"] := by decide

end Acn.CodeTie
