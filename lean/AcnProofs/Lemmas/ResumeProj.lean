/-
  Helper lemmas for C05 (interrupted / resumed runs, full simulator model): the event core of `Sim.run` — with the
  working scheduler and with the scheduler that raises in period `k` (`Sim.failAt`, AcnProofs/Lemmas/ResumeRun.lean) —
  IS `EventCore.run` with `noFail` resp. `failSchedAt k` (AcnProofs/Lemmas/ResumeTrigger.lean), whenever the
  uninterrupted run raises nothing.  So the event-core theorems about abort + resume speak about the full model.
  (Lemma family of C09: `ResumeRun.lean`; the family of `EventCoreSim.lean` declares the same projection names.)
-/
import AcnProofs.Lemmas.ResumeRun
import AcnProofs.Lemmas.ResumeTrigger

set_option linter.unusedSectionVars false

namespace Acn.Sim
open Acn Acn.EventCore

variable {K : Type} [Add K] [Sub K] [Mul K] [Div K] [Neg K] [LT K] [LE K]
  [DecidableLT K] [DecidableLE K] [OfNat K 0] [OfNat K 1] [NatCast K] [HasExp K]

theorem eventsStage_proj (cfg : Cfg K) (s : State K) :
    EventCore.eventsStage cfg.core s.core = ((eventsStage cfg s).1.core, (eventsStage cfg s).2) := by
  obtain ⟨h1, h2⟩ := eventsStage_core cfg s
  exact Prod.ext h1.symm h2.symm

/-- a period of the full model that raises nothing is a period of the event core -/
theorem body_proj {cfg : Cfg K} {sched : View K → Except Err (Schedule K)} {s s' : State K}
    (h : body cfg sched s = (s', none)) : EventCore.body cfg.core noFail noFail s.core = (s'.core, none) := by
  rw [body_eq] at h
  unfold EventCore.body
  rw [eventsStage_proj]
  rcases he : eventsStage cfg s with ⟨s1, _ | err⟩ <;> rw [he] at h <;> simp only [] at h ⊢
  · unfold afterEvents at h
    have hmr : cfg.core.maxRecompute = cfg.maxRecompute := rfl
    rw [hmr]
    by_cases hn : needsSched cfg.maxRecompute s1.core = true
    · rw [if_pos hn] at h
      simp only [hn, if_true, noFail, finish]
      rcases hs : schedStage cfg sched { s1 with core := markInvoked s1.core } with e | m <;> rw [hs] at h <;> simp only [] at h
      · cases h
      · have ha := applyStage_core cfg { s1 with pilots := m, core := markScheduled (markInvoked s1.core) }
        rw [h] at ha
        simp only [] at ha
        rw [ha]
    · rw [if_neg hn] at h
      simp only [hn, noFail, finish]
      have ha := applyStage_core cfg s1
      rw [h] at ha
      simp only [] at ha
      rw [ha]
      rfl
  · cases h

/-- whole runs -/
theorem run_proj (cfg : Cfg K) (sched : View K → Except Err (Schedule K)) : ∀ (n : Nat) (s : State K),
    (run cfg sched n s).2 = none →
    EventCore.run cfg.core noFail noFail n s.core = ((run cfg sched n s).1.core, none)
  | 0, _, _ => rfl
  | n + 1, s, h => by
    simp only [run, EventCore.run] at h ⊢
    by_cases hg : guard s.core = true
    · simp only [hg, if_true] at h ⊢
      rcases hb : body cfg sched s with ⟨s', _ | e⟩ <;> rw [hb] at h <;> simp only [] at h ⊢
      · rw [body_proj hb]
        exact run_proj cfg sched n s' h
      · cases h
    · simp only [hg] at h ⊢
      rfl

/-- in the failing period, when a schedule is needed, the full model aborts (by the injected failure, or — before the
    scheduler is entered — by a `SessionInfo` guard) -/
theorem body_failAt_fires (cfg : Cfg K) (sched : View K → Except Err (Schedule K)) {k : Nat} {s s1 : State K}
    (hk : s.core.iter = k) (he : eventsStage cfg s = (s1, none)) (hn : needsSched cfg.maxRecompute s1.core = true) :
    (body cfg (failAt k sched) s).2 ≠ none := by
  rw [body_eq, he]
  simp only []
  unfold afterEvents schedStage
  have hi : s1.core.iter = k := by
    have := eventsStage_iter' cfg s
    rw [he] at this
    rw [this, hk]
  have hv : failAt k sched (view cfg { s1 with core := markInvoked s1.core }) = .error .schedulerFailed := by
    unfold failAt
    have : (view cfg { s1 with core := markInvoked s1.core }).iter = s1.core.iter := rfl
    rw [this, if_pos hi]
  simp only [hn, if_true]
  by_cases hany : (activeEvs cfg { s1 with core := markInvoked s1.core }).any (fun e => !sessionInfoOk e) = true
  · simp [hany]
  · simp [hany, hv]

/-- the run whose scheduler raises in period `k`, projected: state AND outcome -/
theorem run_failAt_proj (cfg : Cfg K) (sched : View K → Except Err (Schedule K)) (k : Nat) : ∀ (n : Nat) (s : State K),
    (run cfg sched n s).2 = none →
    EventCore.run cfg.core (failSchedAt k) noFail n s.core =
      ((run cfg (failAt k sched) n s).1.core, (run cfg (failAt k sched) n s).2)
  | 0, _, _ => rfl
  | n + 1, s, h => by
    simp only [run, EventCore.run] at h ⊢
    by_cases hg : guard s.core = true
    · simp only [hg, if_true] at h ⊢
      rcases hb : body cfg sched s with ⟨s', _ | e⟩ <;> rw [hb] at h <;> simp only [] at h
      · have hcore := body_proj hb
        by_cases hk : s.core.iter = k
        · have hmr : cfg.core.maxRecompute = cfg.maxRecompute := rfl
          have hp := eventsStage_proj cfg s
          rcases he : eventsStage cfg s with ⟨s1, _ | err⟩ <;> rw [he] at hp <;> simp only [] at hp
          · have hi : s1.core.iter = k := by
              have := eventsStage_iter' cfg s
              rw [he] at this
              rw [this, hk]
            by_cases hn : needsSched cfg.maxRecompute s1.core = true
            · -- a schedule is needed in period `k`: both abort, in the same state
              rcases body_failAt_eq cfg sched hk with hs | ⟨s1', he', _, hs⟩
              · exfalso
                have := body_failAt_fires cfg sched hk he hn
                rw [hs, hb] at this
                exact this rfl
              · rw [he] at he'
                simp only [Prod.mk.injEq, and_true] at he'
                subst he'
                rw [hs]
                unfold EventCore.body
                rw [hp]
                simp only [hmr, hn, if_true]
                have : failSchedAt k (markInvoked s1.core) = some .schedulerFailed := by
                  simp [failSchedAt, markInvoked, hi]
                rw [this]
            · -- no schedule is needed: the scheduler is not entered
              have hcf : EventCore.body cfg.core (failSchedAt k) noFail s.core = EventCore.body cfg.core noFail noFail s.core := by
                unfold EventCore.body
                rw [hp]
                simp only [hmr, hn, Bool.false_eq_true, if_false]
              rcases body_failAt_eq cfg sched hk with hs | ⟨s1', he', hn', _⟩
              · rw [hs, hb, hcf, hcore]
                exact run_failAt_proj cfg sched k n s' h
              · rw [he] at he'
                simp only [Prod.mk.injEq, and_true] at he'
                subst he'
                exact absurd hn' hn
          · exfalso
            have := hb
            rw [body_eq, he] at this
            cases this
        · rw [body_failAt_ne cfg sched hk, hb, body_failSched_ne hk, hcore]
          exact run_failAt_proj cfg sched k n s' h
      · cases h
    · simp only [hg] at h ⊢
      rfl

end Acn.Sim
