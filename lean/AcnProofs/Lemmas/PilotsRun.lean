/-
  Helper lemmas for C04, part 3: independence of dict order, and the per-period step of `run()`
  (growth + the column handed to `update_pilots`).
-/
import AcnProofs.Lemmas.PilotsSched

set_option linter.unusedSimpArgs false
set_option linter.unusedSectionVars false

namespace Acn.Pilots
variable {K : Type} [OfNat K 0]

/-! ### order of the dict's entries -/

theorem lookup_perm {s s' : Sched K} (hp : s.Perm s') (hn : (s.map Prod.fst).Nodup) (st : String) :
    s.lookup st = s'.lookup st := by
  have hn' : (s'.map Prod.fst).Nodup := (hp.map _).nodup_iff.1 hn
  cases h : s.lookup st with
  | some row => exact (lookup_of_mem_nodup hn' (hp.mem_iff.1 (lookup_mem h))).symm
  | none =>
    cases h' : s'.lookup st with
    | none => rfl
    | some row =>
      have := lookup_of_mem_nodup hn (hp.mem_iff.2 (lookup_mem h'))
      rw [h] at this; cases this

theorem ragged_false_iff' (s : Sched K) :
    ragged s = false ↔ ∀ p ∈ s, ∀ q ∈ s, p.2.length = q.2.length := by
  rw [ragged_false_iff]
  constructor
  · intro h p hp q hq; rw [h p hp, h q hq]
  · intro h p hp
    cases s with
    | nil => simp at hp
    | cons x rest => exact h p hp x (List.mem_cons_self ..)

theorem ragged_perm {s s' : Sched K} (hp : s.Perm s') : ragged s = ragged s' := by
  have key : ∀ a b : Sched K, a.Perm b → ragged a = false → ragged b = false := by
    intro a b hab h
    rw [ragged_false_iff'] at h ⊢
    intro p hp' q hq
    exact h p (hab.mem_iff.2 hp') q (hab.mem_iff.2 hq)
  cases h : ragged s with
  | false => exact (key _ _ hp h).symm
  | true =>
    cases h' : ragged s' with
    | true => rfl
    | false => rw [key _ _ hp.symm h'] at h; cases h

theorem schedLen_perm {s s' : Sched K} (hp : s.Perm s') (hr : ragged s = false) :
    schedLen s = schedLen s' := by
  cases s' with
  | nil => rw [List.perm_nil.1 hp]
  | cons q rest =>
    have := (ragged_false_iff s).1 hr q (hp.mem_iff.2 (List.mem_cons_self ..))
    rw [← this]; rfl

theorem unknownStation_perm (stations : List String) {s s' : Sched K} (hp : s.Perm s') :
    unknownStation stations s = unknownStation stations s' := hp.any_eq

/-! ### the column handed to `update_pilots` -/

theorem mapM_getElem?_some (rows : List (List K)) (t : Nat) (col : List K)
    (h : rows.mapM (fun r => r[t]?) = some col) :
    col = rows.map (fun r => r.getD t 0) ∧ ∀ r ∈ rows, t < r.length := by
  induction rows generalizing col with
  | nil => simp at h; subst h; simp
  | cons r rest ih =>
    rw [List.mapM_cons] at h
    cases hr : r[t]? with
    | none => simp [hr] at h
    | some a =>
      cases hm : rest.mapM (fun r => r[t]?) with
      | none => simp [hr, hm] at h
      | some b =>
        simp [hr, hm] at h
        obtain ⟨e1, e2⟩ := ih b hm
        have ht : t < r.length := by
          by_contra hc
          rw [List.getElem?_eq_none (by omega)] at hr; cases hr
        subst h
        refine ⟨?_, ?_⟩
        · simp [List.getD_eq_getElem?_getD, hr, e1]
        · intro r' hr'
          rcases List.mem_cons.1 hr' with rfl | h'
          · exact ht
          · exact e2 r' h'

theorem mapM_getElem?_of_lt (rows : List (List K)) (t : Nat) (h : ∀ r ∈ rows, t < r.length) :
    ∃ col, rows.mapM (fun r => r[t]?) = some col := by
  induction rows with
  | nil => exact ⟨[], by simp⟩
  | cons r rest ih =>
    obtain ⟨b, hb⟩ := ih (fun r' hr' => h r' (List.mem_cons_of_mem _ hr'))
    have ht := h r (List.mem_cons_self ..)
    refine ⟨r[t] :: b, ?_⟩
    rw [List.mapM_cons, hb, List.getElem?_eq_getElem ht]
    rfl

theorem appliedColumn_spec {stations : List String} (hn : stations.Nodup) {m : Mat K}
    (h : m.WF stations.length) (t : Nat) (col : List K) (hc : appliedColumn m t = some col) :
    col = stations.map (fun st => m.get (stations.idxOf st) t) := by
  obtain ⟨e, -⟩ := mapM_getElem?_some _ _ _ hc
  subst e
  apply List.ext_getElem
  · simp [h.1]
  · intro k h1 h2
    simp only [List.length_map] at h1 h2
    simp only [List.getElem_map, Mat.get]
    rw [hn.idxOf_getElem k h2]
    simp [List.getD_eq_getElem?_getD, h1]

theorem appliedColumn_isSome {n : Nat} {m : Mat K} (h : m.WF n) (t : Nat) (ht : t < m.width) :
    ∃ col, appliedColumn m t = some col :=
  mapM_getElem?_of_lt _ _ (fun r hr => by rw [h.2 r hr]; exact ht)

/-! ### one period of `run()` -/

theorem pilotFrom_append (stations : List String) (base : K) (a b : List (Submission K))
    (st : String) (τ : Nat) :
    pilotFrom stations base (a ++ b) st τ = pilotFrom stations (pilotFrom stations base a st τ) b st τ := by
  induction a generalizing base with
  | nil => rfl
  | cons s rest ih => rw [List.cons_append, pilotFrom_cons, pilotFrom_cons, ih]

theorem subsOf_cons (p : Period K) (ps : List (Period K)) :
    subsOf (p :: ps) = subsOf [p] ++ subsOf ps := by
  simp only [subsOf]
  rw [← List.filterMap_append]
  rfl

theorem runGrow_wf {n : Nat} {m : Mat K} (h : m.WF n) (t : Nat) (l : Option Nat) :
    (runGrow m t l).WF n := increaseWidth_wf h _

theorem runGrow_get (m : Mat K) (t : Nat) (l : Option Nat) (i τ : Nat) :
    (runGrow m t l).get i τ = m.get i τ := increaseWidth_get' _ _ _ _

theorem runGrow_width (m : Mat K) (t : Nat) (l : Option Nat) :
    runWidth t l ≤ (runGrow m t l).width := by
  unfold runGrow; rw [increaseWidth_width]; exact le_max_right _ _

/-- matrix after one period, when the period does not raise -/
def afterPeriod (stations : List String) (m : Mat K) (p : Period K) : Mat K :=
  runGrow ((subsOf [p]).foldl (submit stations) m) p.t p.lastTs

theorem periodStep_ok {stations : List String} {m : Mat K} {p : Period K} {m' : Mat K} {col : List K}
    (h : periodStep stations m p = .ok (m', col)) :
    m' = afterPeriod stations m p ∧ appliedColumn m' p.t = some col := by
  obtain ⟨t, l, sch⟩ := p
  unfold periodStep at h
  cases sch with
  | none =>
    simp only at h
    cases hc : appliedColumn (runGrow m t l) t with
    | none => rw [hc] at h; cases h
    | some c =>
      rw [hc] at h
      injection h with h; injection h with h1 h2
      subst h1; subst h2
      exact ⟨rfl, hc⟩
  | some s =>
    simp only at h
    cases hu : updateSchedules stations m t l s with
    | error e => rw [hu] at h; cases h
    | ok m1 =>
      rw [hu] at h
      simp only at h
      cases hc : appliedColumn (runGrow m1 t l) t with
      | none => rw [hc] at h; cases h
      | some c =>
        rw [hc] at h
        injection h with h; injection h with h1 h2
        subst h1; subst h2
        refine ⟨?_, hc⟩
        simp only [afterPeriod, subsOf, List.filterMap_cons, Option.map_some, List.filterMap_nil,
          List.foldl_cons, List.foldl_nil, submit, hu]

theorem afterPeriod_wf {stations : List String} {m : Mat K} (h : m.WF stations.length) (p : Period K) :
    (afterPeriod stations m p).WF stations.length :=
  runGrow_wf (foldl_submit_wf _ h) _ _

theorem afterPeriod_get {stations : List String} {m : Mat K} (h : m.WF stations.length) (p : Period K)
    (st : String) (τ : Nat) :
    (afterPeriod stations m p).get (stations.idxOf st) τ =
      pilotFrom stations (m.get (stations.idxOf st) τ) (subsOf [p]) st τ := by
  unfold afterPeriod
  rw [runGrow_get, foldl_submit_get _ h]

/-- a period can only fail with an `IndexError` if the queue's last timestamp lies in the past -/
theorem periodStep_no_indexError {stations : List String} {m : Mat K} (h : m.WF stations.length)
    (p : Period K) (hl : ∀ l, p.lastTs = some l → p.t ≤ l) :
    periodStep stations m p ≠ .error .indexError := by
  obtain ⟨t, l, sch⟩ := p
  have hw : t < runWidth t l := by
    cases l with
    | none => simp [runWidth]
    | some l => have := hl l rfl; simp only [runWidth]; simp only at this; omega
  unfold periodStep
  cases sch with
  | none =>
    simp only
    obtain ⟨c, hc⟩ := appliedColumn_isSome (runGrow_wf h t l) t
      (lt_of_lt_of_le hw (runGrow_width _ _ _))
    rw [hc]; simp
  | some s =>
    simp only
    cases hu : updateSchedules stations m t l s with
    | error e => simp
    | ok m1 =>
      simp only
      have hm1 : m1.WF stations.length := by
        have := submit_wf h ⟨t, l, s⟩
        simpa [submit, hu] using this
      obtain ⟨c, hc⟩ := appliedColumn_isSome (runGrow_wf hm1 t l) t
        (lt_of_lt_of_le hw (runGrow_width _ _ _))
      rw [hc]; simp

end Acn.Pilots
