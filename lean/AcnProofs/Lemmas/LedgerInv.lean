/-
  Helper lemmas for C02 (3/4): the specification sums, the ledger invariant `LedgerP`, matrix
  and occupancy-log lemmas for one stored column, and preservation of the invariant by
  `applyStage` (pilots applied, rates stored, snapshot, `iteration += 1`).
-/
import AcnProofs.Lemmas.LedgerSim
import AcnProofs.Lemmas.Pilots

set_option linter.unusedSectionVars false
set_option linter.unusedSimpArgs false
set_option linter.unusedVariables false

namespace Acn.Ledger
open Acn Acn.Sim Acn.EventCore Acn.Evse Finset

variable {K : Type} [Field K] [LinearOrder K] [IsStrictOrderedRing K] [HasExp K]

/-! ### specification -/

/-- voltage of station number `i` (`network._voltages[i]`) -/
def volt (cfg : Cfg K) (i : Nat) : K := (cfg.stations.map (·.voltage)).getD i 0

/-- the occupant recorded by `post_charging_update` for station number `i` in period `τ` -/
def occAt (log : List (List (Option String))) (τ i : Nat) : Option String := (log.getD τ []).getD i none

/-- energy that the recorded rate of station `i` in period `τ` carries, counted for session `id`
    iff that session was connected there -/
def term (cfg : Cfg K) (rates : Pilots.Mat K) (log : List (List (Option String))) (id : String)
    (τ i : Nat) : K :=
  if occAt log τ i = some id then energy (rates.get i τ) (volt cfg i) cfg.period else 0

/-- Σ over the first `t` periods and all stations of the recorded energy attributed to `id` -/
def sessionEnergy (cfg : Cfg K) (rates : Pilots.Mat K) (log : List (List (Option String)))
    (id : String) (t : Nat) : K :=
  ∑ τ ∈ range t, ∑ i ∈ range cfg.stations.length, term cfg rates log id τ i

/-- `charging_rates[:, τ].sum()` -/
def aggCurrent (m : Pilots.Mat K) (n τ : Nat) : K := ∑ i ∈ range n, m.get i τ

/-- running maximum of the aggregate current, starting from 0 -/
def peakUpTo (m : Pilots.Mat K) (n : Nat) : Nat → K
  | 0 => 0
  | t + 1 => max (peakUpTo m n t) (aggCurrent m n t)

/-- an occupant is the session the static table lists under its id, at its own station -/
def OccSound (cfg : EventCore.Cfg) (occ : String → Option Session) : Prop :=
  ∀ st x, occ st = some x → findSession cfg x.id = some x ∧ x.station = st

/-- the ledger invariant at the head of period `t`, on the components of a `Sim.State` -/
structure LedgerP (cfg : Cfg K) (t : Nat) (occ : String → Option Session) (rates : Pilots.Mat K)
    (peak : K) (evs : List (Ev K)) (log : List (List (Option String))) : Prop where
  log_len : log.length = t
  rates_wf : rates.WF cfg.stations.length
  occ_sound : OccSound cfg.core occ
  log_sound : ∀ τ i id, occAt log τ i = some id →
    ∃ x st, findSession cfg.core id = some x ∧ cfg.stations[i]? = some st ∧ x.station = st.id
  ids : evs.map (·.session) = cfg.evs.map (·.session)
  gain : ∀ id e0 e, evIn cfg.evs id = some e0 → evIn evs id = some e →
    e.delivered - e0.delivered = e.batt.charge - e0.batt.charge
  sess : ∀ id e0 e, evIn cfg.evs id = some e0 → evIn evs id = some e →
    e.delivered - e0.delivered = sessionEnergy cfg rates log id t
  vacant : ∀ τ i, τ < t → i < cfg.stations.length → occAt log τ i = none → rates.get i τ = 0
  future : ∀ τ i, t ≤ τ → rates.get i τ = 0
  peak_eq : peak = peakUpTo rates cfg.stations.length t

/-- the invariant of a simulator state -/
def Inv (cfg : Cfg K) (s : State K) : Prop :=
  LedgerP cfg s.core.iter s.core.occ s.rates s.peak s.evs s.occLog

/-- station ids are pairwise distinct (the network keeps its EVSEs in a dict keyed by id) -/
def StationsNodup (cfg : Cfg K) : Prop := (cfg.stations.map (·.id)).Nodup

/-! ### small facts -/

theorem evIn_isSome_iff (evs : List (Ev K)) (id : String) :
    (evIn evs id).isSome = true ↔ id ∈ evs.map (·.session) := by
  unfold evIn
  rw [List.find?_isSome]
  simp only [List.mem_map, beq_iff_eq]

theorem evIn_exists_of_ids {evs evs' : List (Ev K)} (h : evs.map (·.session) = evs'.map (·.session))
    {id : String} {e : Ev K} (he : evIn evs id = some e) : ∃ e', evIn evs' id = some e' := by
  have h1 : (evIn evs id).isSome = true := by rw [he]; rfl
  rw [evIn_isSome_iff, h, ← evIn_isSome_iff] at h1
  exact Option.isSome_iff_exists.1 h1

theorem list_sum_eq_sum (l : List K) : l.sum = ∑ i ∈ range l.length, l.getD i 0 := by
  induction l with
  | nil => simp
  | cons a l ih =>
    rw [List.length_cons, Finset.sum_range_succ', List.sum_cons, ih]
    simp [add_comm]

theorem sumK_eq_sum (l : List K) : sumK l = ∑ i ∈ range l.length, l.getD i 0 := by
  rw [← list_sum_eq_sum]
  unfold sumK
  rw [List.sum_eq_foldl]

theorem peakUpTo_congr {m m' : Pilots.Mat K} (n : Nat) : ∀ t : Nat,
    (∀ i τ, τ < t → m'.get i τ = m.get i τ) → peakUpTo m' n t = peakUpTo m n t := by
  intro t
  induction t with
  | zero => intro _; rfl
  | succ t ih =>
    intro h
    simp only [peakUpTo]
    rw [ih (fun i τ hτ => h i τ (Nat.lt_succ_of_lt hτ))]
    congr 1
    unfold aggCurrent
    exact Finset.sum_congr rfl (fun i _ => h i t (Nat.lt_succ_self t))

/-! ### the stored column -/

theorem writeCol_eq (m : Pilots.Mat K) (t : Nat) (col : List K) :
    writeCol m t col = Pilots.writeBlock m t (col.map fun v => [v]) := by
  simp [writeCol, Pilots.writeBlock, List.zipWith_map_right]

theorem writeCol_wf {n : Nat} {m : Pilots.Mat K} (h : m.WF n) (t : Nat) (col : List K)
    (hc : col.length = n) (ht : t < m.width) : (writeCol m t col).WF n := by
  rw [writeCol_eq]
  exact Pilots.writeBlock_wf h t 1 _ (by simpa using hc) (by simp) (by omega)

theorem writeCol_get {n : Nat} {m : Pilots.Mat K} (h : m.WF n) (t : Nat) (col : List K)
    (hc : col.length = n) (ht : t < m.width) (i τ : Nat) :
    (writeCol m t col).get i τ = if τ = t then col.getD i 0 else m.get i τ := by
  rw [writeCol_eq, Pilots.writeBlock_get' h t 1 _ (by simpa using hc) (by simp) (by omega)]
  by_cases hτ : τ = t
  · subst hτ
    have : τ ≤ τ ∧ τ < τ + 1 := ⟨le_refl _, Nat.lt_succ_self _⟩
    rw [if_pos this, if_pos rfl]
    simp only [Nat.sub_self, List.getD_eq_getElem?_getD, List.getElem?_map]
    cases col[i]? <;> simp
  · have : ¬ (t ≤ τ ∧ τ < t + 1) := by omega
    rw [if_neg this, if_neg hτ]

/-- `_store_actual_charging_rates` (simulator.py:303-316) when it does not raise -/
theorem storeRates_ok {cfg : Cfg K} {w : Nat} {s s3 : State K} (h : storeRates cfg w s = (s3, none))
    (hwf : s.rates.WF cfg.stations.length) :
    s3.core = s.core ∧ s3.evs = s.evs ∧ s3.occLog = s.occLog ∧
    s3.peak = max s.peak (sumK (currentRates cfg s)) ∧
    s3.rates.WF cfg.stations.length ∧
    ∀ i τ, s3.rates.get i τ =
      if τ = s.core.iter then (currentRates cfg s).getD i 0 else s.rates.get i τ := by
  unfold storeRates at h
  simp only at h
  have hlen : (currentRates cfg s).length = cfg.stations.length := by simp [currentRates]
  generalize hm : (if s.core.iter < s.rates.width then s.rates else Pilots.increaseWidth s.rates w) = m at h
  have hwf' : m.WF cfg.stations.length := by
    rw [← hm]; split
    · exact hwf
    · exact Pilots.increaseWidth_wf hwf w
  have hget : ∀ i τ, m.get i τ = s.rates.get i τ := by
    intro i τ; rw [← hm]; split
    · rfl
    · exact Pilots.increaseWidth_get' _ _ _ _
  by_cases hw : s.core.iter < m.width
  · rw [if_pos hw] at h
    simp only [Prod.mk.injEq, and_true] at h
    subst h
    refine ⟨rfl, rfl, rfl, by simp, writeCol_wf hwf' _ _ hlen hw, ?_⟩
    intro i τ
    simp only
    rw [writeCol_get hwf' _ _ hlen hw, hget]
  · rw [if_neg hw] at h
    simp at h

/-! ### the occupancy snapshot -/

theorem occAt_append_lt (log : List (List (Option String))) (row : List (Option String)) {τ : Nat}
    (h : τ < log.length) (i : Nat) : occAt (log ++ [row]) τ i = occAt log τ i := by
  simp [occAt, List.getD_eq_getElem?_getD, List.getElem?_append_left h]

theorem occAt_append_eq (log : List (List (Option String))) (row : List (Option String)) (i : Nat) :
    occAt (log ++ [row]) log.length i = row.getD i none := by
  simp [occAt, List.getD_eq_getElem?_getD]

theorem occAt_none_of_ge (log : List (List (Option String))) {τ : Nat} (h : log.length ≤ τ) (i : Nat) :
    occAt log τ i = none := by
  simp [occAt, List.getD_eq_getElem?_getD, List.getElem?_eq_none h]

theorem occRow_getD (cfg : Cfg K) (occ : String → Option Session) (i : Nat) :
    (cfg.stations.map fun st => (occ st.id).map (·.id)).getD i none =
      match cfg.stations[i]? with
      | some st => occId occ st
      | none => none := by
  simp only [List.getD_eq_getElem?_getD, List.getElem?_map]
  cases cfg.stations[i]? <;> rfl

theorem currentRates_getD (cfg : Cfg K) (s : State K) (i : Nat) :
    (currentRates cfg s).getD i 0 =
      match cfg.stations[i]? with
      | some st => (match occupantEv s st.id with
                    | some e => e.rate
                    | none => 0)
      | none => 0 := by
  simp only [currentRates, List.getD_eq_getElem?_getD, List.getElem?_map]
  cases cfg.stations[i]? <;> rfl

theorem volt_of_getElem? {cfg : Cfg K} {i : Nat} {st : Station K} (h : cfg.stations[i]? = some st) :
    volt cfg i = st.voltage := by
  simp [volt, List.getD_eq_getElem?_getD, List.getElem?_map, h]

/-- distinct station ids + sound occupancy: no session sits at two stations -/
theorem distinctOcc_of {cfg : Cfg K} {occ : String → Option Session} (hn : StationsNodup cfg)
    (ho : OccSound cfg.core occ) : DistinctOcc occ cfg.stations := by
  unfold StationsNodup at hn
  rw [List.Nodup, List.pairwise_map] at hn
  refine hn.imp ?_
  intro a b hab x y hx hy hxy
  obtain ⟨f1, s1⟩ := ho _ _ hx
  obtain ⟨f2, s2⟩ := ho _ _ hy
  rw [hxy, f2] at f1
  have : y = x := by simpa using f1
  subst this
  exact hab (s1.symm.trans s2)

theorem distinctOcc_index {cfg : Cfg K} {occ : String → Option Session}
    (hd : DistinctOcc occ cfg.stations) {i j : Nat} {a b : Station K} {id : String}
    (ha : cfg.stations[i]? = some a) (hb : cfg.stations[j]? = some b)
    (hia : occId occ a = some id) (hib : occId occ b = some id) : i = j := by
  unfold DistinctOcc at hd
  rw [List.pairwise_iff_getElem] at hd
  obtain ⟨hi, rfl⟩ := List.getElem?_eq_some_iff.1 ha
  obtain ⟨hj, rfl⟩ := List.getElem?_eq_some_iff.1 hb
  simp only [occId] at hia hib
  cases hx : occ (cfg.stations[i]).id with
  | none => simp [hx] at hia
  | some x =>
    cases hy : occ (cfg.stations[j]).id with
    | none => simp [hy] at hib
    | some y =>
      simp only [hx, hy, Option.map_some, Option.some.injEq] at hia hib
      rcases Nat.lt_trichotomy i j with h | h | h
      · exact absurd (hia.trans hib.symm) (hd i j hi hj h x y hx hy)
      · exact h
      · exact absurd (hib.trans hia.symm) (hd j i hj hi h y x hy hx)

end Acn.Ledger
