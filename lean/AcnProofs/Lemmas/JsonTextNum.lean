/-
  Helper lemmas for C09 (JSON text layer, integers): `int(repr(n)) = n` for every Python int, negative ones
  included (`AcnModel/JsonText.lean`: `renderInt` = Lean's `toString : Int → String` = decimal digits with a
  leading `-`; `isIntTok`, `intOfTok`), and the lexical facts the document parser needs: the text of an int
  consists of number characters, is recognised as an int (never as a float) and starts with a digit or `-`.
-/
import AcnModel.JsonText
import Mathlib.Tactic
namespace Acn.JsonText

theorem natOfDigits_snoc (ds : List Char) (c : Char) :
    natOfDigits (ds ++ [c]) = 10 * natOfDigits ds + (c.toNat - 48) := by
  simp [natOfDigits, List.foldl_append]

theorem natOfDigits_toDigits (n : Nat) : natOfDigits (Nat.toDigits 10 n) = n := by
  induction n using Nat.strong_induction_on with
  | _ n ih =>
    by_cases h : n < 10
    · rw [Nat.toDigits_of_lt_base h]
      simp [natOfDigits, Nat.toNat_digitChar_sub_48_of_lt_ten h]
    · have h10 : 10 ≤ n := by omega
      rw [Nat.toDigits_of_base_le (by norm_num) h10, natOfDigits_snoc, ih (n / 10) (by omega),
        Nat.toNat_digitChar_sub_48_of_lt_ten (Nat.mod_lt _ (by norm_num))]
      omega

theorem toDigits_all_digit (n : Nat) : (Nat.toDigits 10 n).all Char.isDigit = true := by
  rw [List.all_eq_true]
  intro c hc
  exact Nat.isDigit_of_mem_toDigits (by norm_num) (by norm_num) hc

theorem toDigits_cons (n : Nat) : ∃ c t, Nat.toDigits 10 n = c :: t ∧ c.isDigit = true := by
  have hne := @Nat.toDigits_ne_nil n 10
  cases h : Nat.toDigits 10 n with
  | nil => exact absurd h hne
  | cons c t =>
    refine ⟨c, t, rfl, ?_⟩
    have := toDigits_all_digit n
    rw [h] at this
    simp at this
    exact this.1

theorem renderInt_eq (n : Int) :
    renderInt n = if 0 ≤ n then Nat.toDigits 10 n.toNat else '-' :: Nat.toDigits 10 (-n).toNat := by
  unfold renderInt
  rw [Int.toString_eq_repr, Int.repr_eq_if]
  split_ifs
  · exact Nat.toList_repr
  · rw [String.toList_append, Nat.toList_repr]; rfl

theorem isDigit_ne_minus (c : Char) (h : c.isDigit = true) : c ≠ '-' := by
  rintro rfl; revert h; decide

theorem isIntTok_renderInt (n : Int) : isIntTok (renderInt n) = true := by
  rw [renderInt_eq]
  split_ifs
  · obtain ⟨c, t, h, hc⟩ := toDigits_cons n.toNat
    have hall := toDigits_all_digit n.toNat
    rw [h] at hall ⊢
    simp only [isIntTok, isDigit_ne_minus c hc, if_false]
    exact hall
  · obtain ⟨c, t, h, _⟩ := toDigits_cons (-n).toNat
    have hall := toDigits_all_digit (-n).toNat
    simp only [isIntTok, if_true]
    rw [hall, h]; rfl

/-- `int(repr(n)) = n` -/
theorem intOfTok_renderInt (n : Int) : intOfTok (renderInt n) = n := by
  rw [renderInt_eq]
  split_ifs with h
  · obtain ⟨c, t, hd, hc⟩ := toDigits_cons n.toNat
    have := natOfDigits_toDigits n.toNat
    rw [hd] at this ⊢
    simp only [intOfTok, isDigit_ne_minus c hc, if_false, this]
    omega
  · simp only [intOfTok, if_true, natOfDigits_toDigits]
    omega

theorem isDigit_isNumChar (c : Char) (h : c.isDigit = true) : isNumChar c = true := by
  simp [isNumChar, h]

theorem renderInt_all_num (n : Int) : (renderInt n).all isNumChar = true := by
  rw [renderInt_eq]
  split_ifs
  · rw [List.all_eq_true]; intro c hc
    exact isDigit_isNumChar c (Nat.isDigit_of_mem_toDigits (by norm_num) (by norm_num) hc)
  · rw [List.all_cons]
    have : (Nat.toDigits 10 (-n).toNat).all isNumChar = true := by
      rw [List.all_eq_true]; intro c hc
      exact isDigit_isNumChar c (Nat.isDigit_of_mem_toDigits (by norm_num) (by norm_num) hc)
    rw [this]; rfl

/-- an int text starts with a digit or `-` -/
theorem renderInt_head (n : Int) : ∃ c t, renderInt n = c :: t ∧ (c.isDigit = true ∨ c = '-') := by
  rw [renderInt_eq]
  split_ifs
  · obtain ⟨c, t, h, hc⟩ := toDigits_cons n.toNat
    exact ⟨c, t, h, Or.inl hc⟩
  · exact ⟨'-', _, rfl, Or.inr rfl⟩

/-- an integer text is never a float text: `int` and `float` cannot be confused in a document -/
theorem not_isFloatTok_renderInt (n : Int) : isFloatTok (renderInt n) = false := by
  simp [isFloatTok, isIntTok_renderInt]

end Acn.JsonText
