/-
  Helper lemmas for C06, save/restore: a network whose matrix has the shape numpy gives it
  (as wide as the station list, all rows equally long) comes back from
  `ChargingNetwork.from_json(net.to_json())` as the same network — same station order, same
  arrays, same matrix shape (also when the matrix has no rows left), same tolerances.
-/
import AcnModel.FeasRestore
import AcnProofs.Lemmas.FeasAgree

namespace Acn.Feas
open Acn

variable {K : Type}

/-- numpy's part of the shape invariant: `constraint_matrix` is a 2-D array, so every row is as
    long as the array is wide (`add_constraint` appends rows built over `station_ids`,
    charging_network.py:219-283). -/
def Net.RowsWF (net : Net K) : Prop :=
  ∀ M, net.matrix = some M → M.cols = net.stations.length ∧ ∀ r ∈ M.rows, r.length = M.cols

theorem Net.restore_eq (net : Net K) (h : net.RowsWF) : net.restore = net := by
  obtain ⟨stations, c, s, voltages, matrix, lims, cids, vt, rt⟩ := net
  cases matrix with
  | none => rfl
  | some M =>
    obtain ⟨cols, rows⟩ := M
    obtain ⟨hc, hr⟩ := h ⟨cols, rows⟩ rfl
    cases rows with
    | nil =>
      simp only at hc
      simp [Net.restore, Net.toDoc, NetDoc.toNet, hc]
    | cons r rs =>
      have : r.length = cols := hr r (by simp)
      simp [Net.restore, Net.toDoc, NetDoc.toNet, this]

theorem Net.restoreN_eq (net : Net K) (h : net.RowsWF) (n : Nat) : net.restoreN n = net := by
  induction n with
  | zero => rfl
  | succ n ih => rw [Net.restoreN, Net.restore_eq net h, ih]

end Acn.Feas
