/-
  Helper lemmas for C09 (registry): the hypothesis `Lawful sh rd` ("the scalar parsers invert the renderings") is
  satisfiable — a rendering of ℚ and of rational matrices that is injective (through `Encodable`), the model's own
  fixed renderings of ints / nats / strings (`Int.repr`, `Nat.repr` are injective: Std), and their partial inverses.
-/
import AcnProofs.Lemmas.RegistryDecode
import Mathlib.Data.Rat.Encodable
import Std.Data.String.ToInt
namespace Acn.RegistrySim
open Acn

theorem prefix_cancel (p a b : String) (h : p ++ a = p ++ b) : a = b := by
  have := congrArg String.toList h
  simp only [String.toList_append, List.append_cancel_left_eq] at this
  exact String.toList_injective this

/-- a partial inverse of an injective rendering -/
noncomputable def invOf {α : Type} (f : α → String) (t : String) : Option α :=
  open Classical in if h : ∃ a, t = f a then some (Classical.choose h) else none

theorem invOf_apply {α : Type} (f : α → String) (hf : Function.Injective f) (a : α) : invOf f (f a) = some a := by
  unfold invOf
  have h : ∃ b, f a = f b := ⟨a, rfl⟩
  rw [dif_pos h]
  exact congrArg some (hf (Classical.choose_spec h).symm)

noncomputable def exShow : Show ℚ :=
  { num := fun x => Nat.repr (Encodable.encode x),
    mat := fun m => Nat.repr (Encodable.encode (m.rows, m.width)) }

noncomputable def exRead : Read ℚ :=
  { num := invOf fun x => "f:" ++ exShow.num x,
    mat := invOf fun m => "m:" ++ exShow.mat m,
    int := invOf fun n : Int => "i:" ++ toString n,
    nat := invOf fun n : Nat => "i:" ++ toString n,
    str := invOf fun x : String => "s:" ++ x }

theorem exLawful : Lawful exShow exRead := by
  refine ⟨fun x => invOf_apply (fun x => "f:" ++ exShow.num x) ?_ x,
    fun m => invOf_apply (fun m => "m:" ++ exShow.mat m) ?_ m,
    fun n => invOf_apply (fun n : Int => "i:" ++ toString n) ?_ n,
    fun n => invOf_apply (fun n : Nat => "i:" ++ toString n) ?_ n,
    fun x => invOf_apply (fun x : String => "s:" ++ x) ?_ x, ?_⟩
  · intro a b h
    exact Encodable.encode_injective (Nat.repr_injective (prefix_cancel _ _ _ h))
  · intro a b h
    have := Encodable.encode_injective (Nat.repr_injective (prefix_cancel _ _ _ h))
    cases a; cases b; simp only [Prod.mk.injEq] at this; obtain ⟨rfl, rfl⟩ := this; rfl
  · intro a b h
    exact Int.repr_injective (prefix_cancel _ _ _ h)
  · intro a b h
    exact Nat.repr_injective (prefix_cancel _ _ _ h)
  · intro a b h
    exact prefix_cancel _ _ _ h
  · show invOf (fun n : Int => "i:" ++ toString n) "null" = none
    unfold invOf
    rw [dif_neg]
    rintro ⟨n, hn⟩
    have := congrArg String.toList hn
    simp [String.toList_append] at this
end Acn.RegistrySim
