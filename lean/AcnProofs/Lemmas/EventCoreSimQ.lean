/-
  Projection of the full simulator model over an arbitrary queue (`Sim.bodyQ` / `Sim.runQ`,
  `AcnModel/SimQ.lean`) onto `EventCore.bodyQ` / `EventCore.runQ` — what the C01 driver executes
  with `"queue": "heap"`.
-/
import AcnModel.SimQ
import AcnProofs.Lemmas.EventCoreSim

set_option linter.unusedSectionVars false

namespace Acn.Sim
open Acn Acn.EventCore

variable {K : Type} [Add K] [Sub K] [Mul K] [Div K] [Neg K] [LT K] [LE K]
  [DecidableLT K] [DecidableLE K] [OfNat K 0] [OfNat K 1] [NatCast K] [HasExp K]

theorem stepEvQ_core (ops : QOps) (cfg : Cfg K) (e : Event) (s : State K) :
    ((stepEvQ ops cfg e s).1.core, (stepEvQ ops cfg e s).2) = EventCore.stepQ ops cfg.core e s.core := rfl

theorem processAllQ_core (ops : QOps) (cfg : Cfg K) : ∀ (l : List Event) (s : State K),
    ((processAllQ ops cfg l s).1.core, (processAllQ ops cfg l s).2) =
      EventCore.processAllQ ops cfg.core l s.core := by
  intro l
  induction l with
  | nil => intro s; rfl
  | cons e es ih =>
    intro s
    have h := stepEvQ_core ops cfg e s
    simp only [processAllQ, EventCore.processAllQ]
    rcases hs : stepEvQ ops cfg e s with ⟨s2, _ | err⟩
    · rw [hs] at h
      simp only at h
      rw [← h]
      exact ih s2
    · rw [hs] at h
      simp only at h
      rw [← h]

theorem eventsStageQ_core (ops : QOps) (cfg : Cfg K) (s : State K) :
    ((eventsStageQ ops cfg s).1.core, (eventsStageQ ops cfg s).2) = EventCore.eventsStageQ ops cfg.core s.core :=
  processAllQ_core ops cfg _ _

theorem bodyQ_core (ops : QOps) (cfg : Cfg K) (sched : View K → Except Err (Schedule K)) (s : State K)
    (h : (bodyQ ops cfg sched s).2 = none) :
    EventCore.bodyQ ops cfg.core noFail noFail s.core = ((bodyQ ops cfg sched s).1.core, none) := by
  have he := eventsStageQ_core ops cfg s
  unfold bodyQ at h ⊢
  unfold EventCore.bodyQ
  rw [← he]
  rcases hes : eventsStageQ ops cfg s with ⟨s1, _ | e⟩
  · simp only [hes] at h ⊢
    show (if needsSched cfg.maxRecompute s1.core = true then _ else _) = _
    by_cases hn : needsSched cfg.maxRecompute s1.core = true
    · simp only [hn, if_true, noFail, finish] at h ⊢
      rcases hsch : schedStage cfg sched { s1 with core := markInvoked s1.core } with e | m
      · simp [hsch] at h
      · simp only [hsch] at h ⊢
        rw [applyStage_core cfg _ h]
    · simp only [hn, noFail, finish] at h ⊢
      simp only [Bool.false_eq_true, if_false] at h ⊢
      rw [applyStage_core cfg _ h]
  · simp [hes] at h

theorem runQ_core (ops : QOps) (cfg : Cfg K) (sched : View K → Except Err (Schedule K)) :
    ∀ (n : Nat) (s : State K), (runQ ops cfg sched n s).2 = none →
    EventCore.runQ ops cfg.core noFail noFail n s.core = ((runQ ops cfg sched n s).1.core, none) := by
  intro n
  induction n with
  | zero => intro s _; rfl
  | succ n ih =>
    intro s h
    unfold runQ at h ⊢
    unfold EventCore.runQ
    by_cases hg : guard s.core = true
    · simp only [hg, if_true] at h ⊢
      rcases hb : bodyQ ops cfg sched s with ⟨s', _ | e⟩
      · have hb2 : (bodyQ ops cfg sched s).2 = none := by rw [hb]
        have := bodyQ_core ops cfg sched s hb2
        rw [hb] at this
        simp only [hb] at h ⊢
        rw [this]
        exact ih s' h
      · simp [hb] at h
    · simp only [hg] at h ⊢
      rfl

theorem initQ_core (ops : QOps) (cfg : Cfg K) : (initQ ops cfg).core = EventCore.initQ ops cfg.core := rfl

end Acn.Sim
