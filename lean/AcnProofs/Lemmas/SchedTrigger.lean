/-
  Helper lemmas for C05 (1/3): the recompute trigger of `Simulator.run` on the event core, for EVERY
  configuration (valid or not), every scheduler / pilot-application parameter (failing or not).

  * what one processed event / the events stage does to `resolve`, `lastUpd`, `iter`, `invoked`;
  * the loop-head invariant `Head`: `_resolve` is false and `_last_schedule_update` is the period of
    the last invocation (the timestamps written by `_process_event` never survive to a loop head,
    because an event also sets `_resolve`, which forces an invocation in the same period);
  * one trip round the loop (`body_head`), and traces of successful trips (`Trace`).
-/
import AcnModel.EventCore
import Mathlib.Tactic

namespace Acn.EventCore
open Acn

/-- the events popped (and processed) in the period that starts in the loop-head state `c` -/
def popsAt (c : Core) : List Event := (popCurrent c.iter c.pending).1

/-- what `_process_event` leaves in `_last_schedule_update` after a list of events: the timestamp of
    the LAST plug-in / unplug event (simulator.py:217,222), recompute events leave it alone (:225) -/
def lastEvTs (es : List Event) (u : Option Int) : Option Int :=
  es.foldl (fun u e => if e.kind = .recompute then u else some e.ts) u

/-- "`max_recompute` periods have elapsed since the last invocation, or it has never run" -/
def due (mr : Option Nat) (last : Option Nat) (t : Nat) : Bool :=
  match mr with
  | none => false
  | some m =>
    match last with
    | none => true
    | some u => decide (m + u ≤ t)

/-- the trigger in closed form -/
def trig (mr : Option Nat) (pops : List Event) (last : Option Nat) (t : Nat) : Bool :=
  !pops.isEmpty || due mr last t

section
variable {cfg : Cfg}

/-! ### one event -/

theorem step_ok_facts {e : Event} {c c2 : Core} (h : step cfg e c = (c2, none)) :
    c2.resolve = true ∧ c2.iter = c.iter ∧ c2.invoked = c.invoked ∧
      c2.lastUpd = (if e.kind = .recompute then c.lastUpd else some e.ts) := by
  unfold step process at h
  cases hk : e.kind <;> simp only [hk] at h
  · -- unplug
    split at h
    · simp at h
    · split at h
      · simp only [Prod.mk.injEq] at h; obtain ⟨rfl, _⟩ := h; simp
      · simp at h
  · -- plugin
    split at h
    · simp at h
    · split at h
      · split at h
        · simp at h
        · simp only [Prod.mk.injEq] at h; obtain ⟨rfl, _⟩ := h; simp
      · simp at h
  · simp only [Prod.mk.injEq] at h; obtain ⟨rfl, _⟩ := h; simp

theorem step_any_facts {e : Event} {c c2 : Core} {o : Option Err} (h : step cfg e c = (c2, o)) :
    c2.iter = c.iter ∧ c2.invoked = c.invoked := by
  unfold step process at h
  cases hk : e.kind <;> simp only [hk] at h
  · split at h
    · simp only [Prod.mk.injEq] at h; obtain ⟨rfl, _⟩ := h; simp
    · split at h <;> (simp only [Prod.mk.injEq] at h; obtain ⟨rfl, _⟩ := h; simp)
  · split at h
    · simp only [Prod.mk.injEq] at h; obtain ⟨rfl, _⟩ := h; simp
    · split at h
      · split at h <;> (simp only [Prod.mk.injEq] at h; obtain ⟨rfl, _⟩ := h; simp)
      · simp only [Prod.mk.injEq] at h; obtain ⟨rfl, _⟩ := h; simp
  · simp only [Prod.mk.injEq] at h; obtain ⟨rfl, _⟩ := h; simp

/-! ### the events of one period -/

theorem processAll_ok_facts : ∀ (es : List Event) (c c1 : Core), processAll cfg es c = (c1, none) →
    c1.iter = c.iter ∧ c1.invoked = c.invoked ∧ c1.resolve = (c.resolve || !es.isEmpty) ∧
      c1.lastUpd = lastEvTs es c.lastUpd := by
  intro es
  induction es with
  | nil =>
    intro c c1 h
    simp only [processAll, Prod.mk.injEq] at h
    obtain ⟨rfl, _⟩ := h
    simp [lastEvTs]
  | cons e es ih =>
    intro c c1 h
    simp only [processAll] at h
    rcases hs : step cfg e c with ⟨c2, _ | err⟩
    · rw [hs] at h
      simp only at h
      obtain ⟨r1, r2, r3, r4⟩ := step_ok_facts hs
      obtain ⟨i1, i2, i3, i4⟩ := ih c2 c1 h
      refine ⟨i1.trans r2, i2.trans r3, ?_, ?_⟩
      · rw [i3, r1]; simp
      · rw [i4, r4]; simp [lastEvTs]
    · rw [hs] at h; simp at h

theorem processAll_any_facts : ∀ (es : List Event) (c c1 : Core) (o : Option Err),
    processAll cfg es c = (c1, o) → c1.iter = c.iter ∧ c1.invoked = c.invoked := by
  intro es
  induction es with
  | nil =>
    intro c c1 o h
    simp only [processAll, Prod.mk.injEq] at h
    obtain ⟨rfl, _⟩ := h
    simp
  | cons e es ih =>
    intro c c1 o h
    simp only [processAll] at h
    rcases hs : step cfg e c with ⟨c2, _ | err⟩
    · rw [hs] at h
      simp only at h
      obtain ⟨r2, r3⟩ := step_any_facts hs
      obtain ⟨i1, i2⟩ := ih c2 c1 o h
      exact ⟨i1.trans r2, i2.trans r3⟩
    · rw [hs] at h
      simp only [Prod.mk.injEq] at h
      obtain ⟨rfl, _⟩ := h
      exact step_any_facts hs

/-- the events stage: `_resolve` is set iff something was popped; `_last_schedule_update` holds the
    timestamp of the last plug-in/unplug event popped — possibly EARLIER than the current period when
    an event is processed late (timestamp < iteration) -/
theorem eventsStage_ok_facts {c c1 : Core} (h : eventsStage cfg c = (c1, none)) :
    c1.iter = c.iter ∧ c1.invoked = c.invoked ∧ c1.resolve = (c.resolve || !(popsAt c).isEmpty) ∧
      c1.lastUpd = lastEvTs (popsAt c) c.lastUpd := by
  unfold eventsStage at h
  have := processAll_ok_facts _ _ _ h
  simpa [popsAt] using this

theorem eventsStage_any_facts {c c1 : Core} {o : Option Err} (h : eventsStage cfg c = (c1, o)) :
    c1.iter = c.iter ∧ c1.invoked = c.invoked := by
  unfold eventsStage at h
  have := processAll_any_facts _ _ _ _ h
  simpa using this

/-! ### the loop-head invariant -/

/-- at every loop head of `run()`: `_resolve` is false, `_last_schedule_update` is the period of the
    last invocation (`None` iff there was none), invocation periods are strictly increasing and lie
    in the past -/
structure Head (c : Core) : Prop where
  resolve : c.resolve = false
  lastUpd : c.lastUpd = c.invoked.getLast?.map (fun t => (t : Int))
  lt_iter : ∀ t ∈ c.invoked, t < c.iter
  sorted : c.invoked.Pairwise (· < ·)

theorem init_head (cfg : Cfg) : Head (init cfg) :=
  ⟨rfl, rfl, by simp [init], by simp [init]⟩

/-- the `if` of simulator.py:117-125 evaluated after the events of a period that started at a loop
    head, in closed form -/
theorem needsSched_after_events {c c1 : Core} (hc : Head c) (h : eventsStage cfg c = (c1, none)) :
    needsSched cfg.maxRecompute c1 = trig cfg.maxRecompute (popsAt c) c.invoked.getLast? c.iter := by
  obtain ⟨h1, _, h3, h4⟩ := eventsStage_ok_facts h
  unfold needsSched trig
  rw [h3, hc.resolve, Bool.false_or]
  cases hp : (popsAt c) with
  | cons e es => simp
  | nil =>
    rw [hp] at h4
    simp only [List.isEmpty_nil, Bool.not_true, Bool.false_or, due]
    rw [h4]
    simp only [lastEvTs, List.foldl_nil]
    rw [hc.lastUpd, h1]
    cases cfg.maxRecompute with
    | none => rfl
    | some m =>
      cases hl : c.invoked.getLast? with
      | none => rfl
      | some u =>
        dsimp only [Option.map]
        have hu : u < c.iter := hc.lt_iter u (List.mem_of_getLast? hl)
        apply decide_eq_decide.2
        omega

/-- the list by which `invoked` grows in one period -/
def delta (mr : Option Nat) (c : Core) : List Nat :=
  if trig mr (popsAt c) c.invoked.getLast? c.iter then [c.iter] else []

/-- ONE TRIP ROUND THE LOOP that raises nothing: the invariant is kept, the scheduler was invoked
    (once) iff the closed-form trigger holds -/
theorem body_head {sched apply : Core → Option Err} {c c' : Core} (hc : Head c)
    (h : body cfg sched apply c = (c', none)) :
    Head c' ∧ c'.iter = c.iter + 1 ∧ c'.invoked = c.invoked ++ delta cfg.maxRecompute c := by
  unfold body at h
  rcases hes : eventsStage cfg c with ⟨c1, _ | err⟩
  · rw [hes] at h
    simp only at h
    have hn := needsSched_after_events hc hes
    obtain ⟨h1, h2, h3, h4⟩ := eventsStage_ok_facts hes
    by_cases hneed : needsSched cfg.maxRecompute c1 = true
    · rw [if_pos hneed] at h
      have htr : trig cfg.maxRecompute (popsAt c) c.invoked.getLast? c.iter = true := hn ▸ hneed
      rcases hsch : sched (markInvoked c1) with _ | e
      · rw [hsch] at h
        simp only [finish] at h
        rcases hap : apply (markScheduled (markInvoked c1)) with _ | e
        · rw [hap] at h
          simp only [Prod.mk.injEq, and_true] at h
          subst h
          have hinv : (advance (markScheduled (markInvoked c1))).invoked = c.invoked ++ [c.iter] := by
            simp [advance, markScheduled, markInvoked, h1, h2]
          refine ⟨⟨rfl, ?_, ?_, ?_⟩, by simp [advance, markScheduled, markInvoked, h1], ?_⟩
          · rw [hinv]; simp [advance, markScheduled, markInvoked, h1]
          · rw [hinv]
            intro t ht
            rcases List.mem_append.1 ht with ht | ht
            · have := hc.lt_iter t ht
              simp [advance, markScheduled, markInvoked, h1]; omega
            · simp at ht; subst ht
              simp [advance, markScheduled, markInvoked, h1]
          · rw [hinv, List.pairwise_append]
            refine ⟨hc.sorted, by simp, ?_⟩
            intro a ha b hb
            simp at hb; subst hb
            exact hc.lt_iter a ha
          · rw [hinv]; simp [delta, htr]
        · rw [hap] at h; simp at h
      · rw [hsch] at h; simp at h
    · rw [if_neg hneed] at h
      have htr : trig cfg.maxRecompute (popsAt c) c.invoked.getLast? c.iter = false := by
        rw [← hn]; simpa using hneed
      simp only [finish] at h
      rcases hap : apply c1 with _ | e
      · rw [hap] at h
        simp only [Prod.mk.injEq, and_true] at h
        subst h
        have hpe : (popsAt c).isEmpty = true := by
          simp only [trig, Bool.or_eq_false_iff, Bool.not_eq_false'] at htr
          exact htr.1
        have hp : popsAt c = [] := List.isEmpty_iff.1 hpe
        refine ⟨⟨?_, ?_, ?_, ?_⟩, by simp [advance, h1], ?_⟩
        · simp only [advance]; rw [h3, hc.resolve, hpe]; rfl
        · simp only [advance]; rw [h4, h2, hp]; exact hc.lastUpd
        · intro t ht
          simp only [advance] at ht ⊢
          rw [h2] at ht
          have := hc.lt_iter t ht
          omega
        · simp only [advance]; rw [h2]; exact hc.sorted
        · simp [advance, h2, delta, htr]
      · rw [hap] at h; simp at h
  · rw [hes] at h; simp at h

/-- a trip that RAISES (event error, scheduler failure, invalid pilot): the period is recorded at
    most once even then -/
theorem body_err_invoked {sched apply : Core → Option Err} {c c' : Core} {e : Err}
    (h : body cfg sched apply c = (c', some e)) :
    c'.iter = c.iter ∧ (c'.invoked = c.invoked ∨ c'.invoked = c.invoked ++ [c.iter]) := by
  unfold body at h
  rcases hes : eventsStage cfg c with ⟨c1, _ | err⟩
  · rw [hes] at h
    simp only at h
    obtain ⟨h1, h2⟩ := eventsStage_any_facts hes
    by_cases hneed : needsSched cfg.maxRecompute c1 = true
    · rw [if_pos hneed] at h
      rcases hsch : sched (markInvoked c1) with _ | e2
      · rw [hsch] at h
        simp only [finish] at h
        rcases hap : apply (markScheduled (markInvoked c1)) with _ | e3
        · rw [hap] at h; simp at h
        · rw [hap] at h
          simp only [Prod.mk.injEq] at h
          obtain ⟨rfl, _⟩ := h
          exact ⟨by simp [markScheduled, markInvoked, h1], Or.inr (by simp [markScheduled, markInvoked, h1, h2])⟩
      · rw [hsch] at h
        simp only [Prod.mk.injEq] at h
        obtain ⟨rfl, _⟩ := h
        exact ⟨by simp [markInvoked, h1], Or.inr (by simp [markInvoked, h1, h2])⟩
    · rw [if_neg hneed] at h
      simp only [finish] at h
      rcases hap : apply c1 with _ | e3
      · rw [hap] at h; simp at h
      · rw [hap] at h
        simp only [Prod.mk.injEq] at h
        obtain ⟨rfl, _⟩ := h
        exact ⟨h1, Or.inl h2⟩
  · rw [hes] at h
    simp only [Prod.mk.injEq] at h
    obtain ⟨rfl, _⟩ := h
    exact ⟨(eventsStage_any_facts hes).1, Or.inl (eventsStage_any_facts hes).2⟩

/-- a successful trip does not depend on WHICH non-failing scheduler / pilot application was used -/
theorem body_noFail_of_ok {sched apply : Core → Option Err} {c c' : Core}
    (h : body cfg sched apply c = (c', none)) : body cfg noFail noFail c = (c', none) := by
  unfold body at h ⊢
  rcases hes : eventsStage cfg c with ⟨c1, _ | err⟩
  · rw [hes] at h
    simp only at h ⊢
    by_cases hneed : needsSched cfg.maxRecompute c1 = true
    · rw [if_pos hneed] at h ⊢
      rcases hsch : sched (markInvoked c1) with _ | e2
      · rw [hsch] at h
        simp only [finish, noFail] at h ⊢
        rcases hap : apply (markScheduled (markInvoked c1)) with _ | e3
        · rw [hap] at h; exact h
        · rw [hap] at h; simp at h
      · rw [hsch] at h; simp at h
    · rw [if_neg hneed] at h ⊢
      simp only [finish, noFail] at h ⊢
      rcases hap : apply c1 with _ | e3
      · rw [hap] at h; exact h
      · rw [hap] at h; simp at h
  · rw [hes] at h; simp at h

end
end Acn.EventCore
