/-
  The simulator loop with a stateful scheduler (`AcnModel/SimSortedRd.lean: runSt`):
    * one period of `runSt` IS one period of `Sim.run` under the scheduler frozen at the current
      state (`bodySt_fst`), and `runSt` coincides with `Sim.run` for a scheduler that ignores the
      state (`runSt_lift`);
    * hence the run-level induction of `SortedSimInd.lean` (`body_safe`) goes through with the state
      threaded, for any scheduler whose every reachable state has the per-call guarantees
      `SchedSafe` (`runSt_safe`);
    * `prevOf_total`: the `prev_rate[session_id]` lookup of `SimpleRampdown` cannot miss.
-/
import AcnModel.SimSortedRd
import AcnProofs.Lemmas.SortedSimInd

set_option linter.unusedSectionVars false

namespace Acn.SimSortedRd
open Acn Acn.EventCore Acn.Sim Acn.Sorted

section generic
variable {K : Type} [Add K] [Sub K] [Mul K] [Div K] [Neg K] [LT K] [LE K]
  [DecidableLT K] [DecidableLE K] [OfNat K 0] [OfNat K 1] [NatCast K] [HasExp K]
variable {σ : Type}

/-- the scheduling stage with state = the scheduling stage under the frozen scheduler -/
theorem schedStageSt_frozen (cfg : Cfg K) (sched : σ → View K → Except EventCore.Err (Schedule K × σ))
    (st : σ) (s : State K) :
    Sim.schedStage cfg (frozen sched st) s =
      match schedStageSt cfg sched st s with
      | .error e => .error e
      | .ok (m, _) => .ok m := by
  unfold Sim.schedStage schedStageSt frozen
  split
  · rfl
  · cases hs : sched st (view cfg s) with
    | error e => rfl
    | ok p =>
      obtain ⟨sch, st'⟩ := p
      simp only
      cases Pilots.updateSchedules (cfg.stations.map (·.id)) s.pilots s.core.iter
        ((lastTs s.core.pending).map Int.toNat) sch <;> rfl

/-- where the new scheduler state of the scheduling stage comes from -/
theorem schedStageSt_state (cfg : Cfg K) (sched : σ → View K → Except EventCore.Err (Schedule K × σ))
    (st : σ) (s : State K) (m : Pilots.Mat K) (st' : σ)
    (h : schedStageSt cfg sched st s = .ok (m, st')) :
    ∃ sch, sched st (view cfg s) = .ok (sch, st') := by
  unfold schedStageSt at h
  split at h
  · cases h
  · cases hs : sched st (view cfg s) with
    | error e => rw [hs] at h; cases h
    | ok p =>
      obtain ⟨sch, st2⟩ := p
      rw [hs] at h
      simp only at h
      split at h
      · cases h
      · cases h; exact ⟨sch, rfl⟩

/-- one period with state = one period of `Sim.body` under the scheduler frozen at the current state -/
theorem bodySt_fst (cfg : Cfg K) (sched : σ → View K → Except EventCore.Err (Schedule K × σ))
    (st : σ) (s : State K) :
    (bodySt cfg sched st s).1 = Sim.body cfg (frozen sched st) s := by
  unfold bodySt Sim.body
  cases he : eventsStage cfg s with
  | mk s1 err =>
    cases err with
    | some e => rfl
    | none =>
      simp only
      split
      · rw [schedStageSt_frozen]
        cases hs : schedStageSt cfg sched st { s1 with core := markInvoked s1.core } with
        | error e => rfl
        | ok p => obtain ⟨m, st'⟩ := p; rfl
      · rfl

/-- the scheduler state after one period: unchanged, or what the scheduler returned on this
    period's view -/
theorem bodySt_state (cfg : Cfg K) (sched : σ → View K → Except EventCore.Err (Schedule K × σ))
    (st : σ) (s : State K) :
    (bodySt cfg sched st s).2 = st ∨
    ∃ v sch, sched st v = .ok (sch, (bodySt cfg sched st s).2) := by
  unfold bodySt
  cases he : eventsStage cfg s with
  | mk s1 err =>
    cases err with
    | some e => left; rfl
    | none =>
      simp only
      split
      · cases hs : schedStageSt cfg sched st { s1 with core := markInvoked s1.core } with
        | error e => left; rfl
        | ok p =>
          obtain ⟨m, st'⟩ := p
          right
          obtain ⟨sch, h⟩ := schedStageSt_state cfg sched st _ m st' hs
          exact ⟨_, sch, h⟩
      · left; rfl

theorem frozen_lift (sched : View K → Except EventCore.Err (Schedule K)) (st : σ) :
    frozen (lift (σ := σ) sched) st = sched := by
  funext v
  unfold frozen lift
  cases sched v <;> rfl

theorem bodySt_lift (cfg : Cfg K) (sched : View K → Except EventCore.Err (Schedule K)) (st : σ)
    (s : State K) : bodySt cfg (lift sched) st s = (Sim.body cfg sched s, st) := by
  have h1 := bodySt_fst cfg (lift (σ := σ) sched) st s
  rw [frozen_lift] at h1
  have h2 : (bodySt cfg (lift sched) st s).2 = st := by
    rcases bodySt_state cfg (lift (σ := σ) sched) st s with h | ⟨v, sch, h⟩
    · exact h
    · unfold lift at h
      cases hv : sched v with
      | error e => rw [hv] at h; cases h
      | ok x =>
        rw [hv] at h
        simp only [Except.ok.injEq, Prod.mk.injEq] at h
        exact h.2.symm
  exact Prod.ext h1 h2

/-- **`runSt` coincides with `Sim.run` when the scheduler ignores the state** -/
theorem runSt_lift (cfg : Cfg K) (sched : View K → Except EventCore.Err (Schedule K)) :
    ∀ (n : Nat) (st : σ) (s : State K),
      runSt cfg (lift sched) n st s = (Sim.run cfg sched n s, st) := by
  intro n
  induction n with
  | zero => intro st s; rfl
  | succ n ih =>
    intro st s
    unfold runSt Sim.run
    split
    · rw [bodySt_lift]
      cases hb : Sim.body cfg sched s with
      | mk s' err =>
        cases err with
        | none => simp only; exact ih st s'
        | some e => rfl
    · rfl

/-- two stateful schedulers that agree pointwise give the same run -/
theorem runSt_congr (cfg : Cfg K) (f g : σ → View K → Except EventCore.Err (Schedule K × σ))
    (h : ∀ st v, f st v = g st v) (n : Nat) (st : σ) (s : State K) :
    runSt cfg f n st s = runSt cfg g n st s := by
  have : f = g := by funext st v; exact h st v
  rw [this]

end generic

/-! ### the run-level induction with the state threaded -/

/-- for ANY stateful scheduler: if every state satisfying an invariant `P` (kept by the scheduler)
    has the per-call guarantees `SchedSafe` when frozen, then from a loop head satisfying `SInv` no
    `InvalidRate` is ever raised and every loop head reached satisfies `SInv` again -/
theorem runSt_safe {σ : Type} (feasP : List ℝ → Bool) (cfg : Sim.Cfg ℝ) (inf : ℝ) (hc : CfgOk cfg inf)
    (sched : σ → Sim.View ℝ → Except EventCore.Err (Sim.Schedule ℝ × σ)) (P : σ → Prop)
    (hP : ∀ st v sch st', P st → sched st v = .ok (sch, st') → P st')
    (hs : ∀ st, P st → SchedSafe feasP cfg inf (frozen sched st)) :
    ∀ (n : Nat) (st : σ) (s : Sim.State ℝ), P st → SInv feasP cfg s →
      (runSt cfg sched n st s).1.2 ≠ some .invalidRate ∧
      ((runSt cfg sched n st s).1.2 = none → SInv feasP cfg (runSt cfg sched n st s).1.1) ∧
      P (runSt cfg sched n st s).2 := by
  intro n
  induction n with
  | zero => intro st s hp hJ; exact ⟨by simp [runSt], fun _ => by simpa [runSt] using hJ, hp⟩
  | succ n ih =>
    intro st s hp hJ
    unfold runSt
    split
    · obtain ⟨b1, b2⟩ := body_safe feasP cfg inf hc (frozen sched st) (hs st hp) s hJ
      have hfst := bodySt_fst cfg sched st s
      have hp' : P (bodySt cfg sched st s).2 := by
        rcases bodySt_state cfg sched st s with h | ⟨v, sch, h⟩
        · rw [h]; exact hp
        · exact hP st v sch _ hp h
      cases hb : bodySt cfg sched st s with
      | mk r st' =>
        rw [hb] at hfst hp'
        simp only at hfst hp'
        obtain ⟨s1, err⟩ := r
        rw [← hfst] at b1 b2
        cases err with
        | some e =>
          simp only
          exact ⟨b1, fun h => by simp at h, hp'⟩
        | none =>
          simp only
          exact ih st' s1 hp' (b2 s1 rfl)
    · exact ⟨by simp, fun _ => hJ, hp⟩

/-! ### `prev_rate[session_id]` cannot raise -/

theorem dictGet_isSome_iff {V : Type} (d : List (String × V)) (k : String) :
    (dictGet d k).isSome = true ↔ ∃ v, (k, v) ∈ d := by
  unfold dictGet
  constructor
  · intro h
    cases hl : d.reverse.lookup k with
    | none => rw [hl] at h; cases h
    | some v =>
      exact ⟨v, by simpa using lookup_mem d.reverse k v hl⟩
  · rintro ⟨v, hv⟩
    have : ∀ (l : List (String × V)), (k, v) ∈ l → (l.lookup k).isSome = true := by
      intro l
      induction l with
      | nil => intro h; simp at h
      | cons p t ih =>
        intro h
        obtain ⟨k', v'⟩ := p
        unfold List.lookup
        split
        · rfl
        · rename_i hne
          rcases List.mem_cons.mp h with h | h
          · cases h; simp at hne
          · exact ih h
    exact this d.reverse (by simpa using hv)

/-- both dicts `SimpleRampdown` reads are built from the same `_active_evs`: a session that has a
    previous pilot has a previous rate, so `prevOf`'s last branch is not reachable on a simulator view -/
theorem prevOf_total {K : Type} [Add K] [Sub K] [Mul K] [Div K] [Neg K] [LT K] [LE K]
    [DecidableLT K] [DecidableLE K] [OfNat K 0] [OfNat K 1] [NatCast K] [HasExp K]
    (cfg : Sim.Cfg K) (s : Sim.State K) (sid : String)
    (h : (dictGet (Sim.view cfg s).lastPilots sid).isSome = true) :
    (dictGet ((Sim.view cfg s).active.map fun e => (e.session, e.rate)) sid).isSome = true := by
  rw [dictGet_isSome_iff] at h ⊢
  obtain ⟨p, hp⟩ := h
  have hp' : (sid, p) ∈ Sim.lastApplied cfg s := hp
  unfold Sim.lastApplied at hp'
  split at hp'
  · rw [List.mem_filterMap] at hp'
    obtain ⟨e, he, hm⟩ := hp'
    split at hm
    · simp only [Option.some.injEq, Prod.mk.injEq] at hm
      refine ⟨e.rate, ?_⟩
      show (sid, e.rate) ∈ (Sim.activeEvs cfg s).map fun e => (e.session, e.rate)
      rw [List.mem_map]
      exact ⟨e, he, by rw [hm.1]⟩
    · cases hm
  · simp at hp'

end Acn.SimSortedRd
