/-
  T1c — the hand-written numeric kernels ARE the code, by proof (Evse group).

  `AcnModel/Gen/CodeEvse.lean` is regenerated on every run from the Python ASTs of /repo's working tree
  (harness/translate_code.py: a mechanical statement-by-statement translation).  This file proves,
  for EVERY input and at every carrier `K`, that each translated function equals the hand-written
  model function the property theorems are about.  A change of a comparison, clamp, operand order,
  tolerance or assignment in one of these Python functions changes `Gen.Code.*`, and the
  corresponding theorem below stops compiling — whether or not a generated test input happens to
  hit the affected edge.

  Not translated (recorded in the trusted base): Python's `ZeroDivisionError` on float division —
  the hand models return `zeroDivision` where the implementation raises; the ties are stated for the
  inputs on which the model does not report it.  NaN/inf comparison corner cases are IEEE matters.
-/
import AcnModel.Gen.CodeEvse

set_option linter.unusedSectionVars false

namespace Acn.CodeTie
open Acn Acn.Battery Acn.Evse

section
variable {K : Type} [Add K] [Sub K] [Mul K] [Div K] [Neg K] [LT K] [LE K]
  [DecidableLT K] [DecidableLE K] [OfNat K 0] [OfNat K 1] [NatCast K] [HasExp K]

/-- `EVSE._valid_rate` (finite maximum) is `validRate … (.cont …)`. -/
theorem evse_valid_rate_tie (atol fixedAtol mn mx p : K) :
    Gen.Code.evse_valid_rate mn mx p atol = validRate atol fixedAtol (.cont mn (some mx)) p := rfl

/-- `DeadbandEVSE._valid_rate` (finite maximum) is `validRate … (.deadband …)`. -/
theorem deadband_valid_rate_tie (atol fixedAtol db mx p : K) :
    Gen.Code.deadband_valid_rate db mx p atol = validRate atol fixedAtol (.deadband db (some mx)) p := rfl

/-- `FiniteRatesEVSE._valid_rate` is `validRate … (.finite …)` with the literal tolerance of the
    source (the caller's `atol` is ignored, as in the code). -/
theorem finite_valid_rate_tie (atol : K) (rates : List K) (p : K) :
    Gen.Code.finite_valid_rate rates p atol
      = validRate atol (((1 : Nat) : K) / ((1000 : Nat) : K)) (.finite rates) p := rfl

end

/-- every target of this group was translated in this run -/
theorem all_translated_evse : Gen.Code.translatedEvse = ["evse_valid_rate", "deadband_valid_rate", "finite_valid_rate"] := by decide

end Acn.CodeTie
