/-
  Helper lemmas for C09 (registry, 1/2): the memoised post-order walk `visit`
  (`_to_registry` / `_build_from_id`).  Invariant `CtxOK`: the context holds every object at most
  once, each entry is the store's, and the context is closed under references (children are entered
  before their parent).  Fuel: `size + 1` is enough for every acyclic store.
-/
import AcnModel.Registry
import Mathlib.Tactic
import Mathlib.Data.List.Dedup

namespace Acn.Registry

/-! ### association lists -/

theorem get_cons (k : Id) (o : Obj) (st : Store) (i : Id) :
    Store.get ((k, o) :: st) i = if i = k then some o else Store.get st i := by
  unfold Store.get
  rw [List.lookup_cons]
  by_cases h : i = k
  · subst h; simp
  · have : (i == k) = false := by simpa using h
    simp [this, h]

theorem mem_of_get {st : Store} {i : Id} {o : Obj} (h : st.get i = some o) : (i, o) ∈ st := by
  induction st with
  | nil => simp [Store.get] at h
  | cons p ps ih =>
    obtain ⟨k, q⟩ := p
    rw [get_cons] at h
    by_cases hk : i = k
    · rw [if_pos hk] at h
      cases h
      subst hk
      exact List.mem_cons_self
    · rw [if_neg hk] at h
      exact List.mem_cons_of_mem _ (ih h)

theorem key_of_get {st : Store} {i : Id} {o : Obj} (h : st.get i = some o) : i ∈ st.keys :=
  List.mem_map.2 ⟨(i, o), mem_of_get h, rfl⟩

theorem get_of_mem_nodup {st : Store} (hn : st.keys.Nodup) {i : Id} {o : Obj} (h : (i, o) ∈ st) :
    st.get i = some o := by
  induction st with
  | nil => cases h
  | cons p ps ih =>
    obtain ⟨k, q⟩ := p
    have hn' : k ∉ Store.keys ps ∧ (Store.keys ps).Nodup := by
      simpa [Store.keys] using hn
    rw [get_cons]
    rcases List.mem_cons.1 h with h1 | h2
    · cases h1
      simp
    · have hik : i ≠ k := by
        intro hik
        rw [← hik] at hn'
        exact hn'.1 (List.mem_map.2 ⟨(i, o), h2, rfl⟩)
      rw [if_neg hik]
      exact ih hn'.2 h2

theorem keys_append (a b : Store) : (a ++ b).keys = a.keys ++ b.keys := by simp [Store.keys]

theorem exists_of_key {st : Store} {i : Id} (h : i ∈ st.keys) : ∃ o, (i, o) ∈ st := by
  obtain ⟨p, hp, rfl⟩ := List.mem_map.1 h
  exact ⟨p.2, hp⟩

/-! ### reachability and acyclicity -/

theorem Reach.trans {st : Store} {a b c : Id} (h : Reach st a b) (h' : Reach st b c) : Reach st a c := by
  induction h with
  | refl _ => exact h'
  | step hg hj _ ih => exact Reach.step hg hj (ih h')

/-- acyclic: references strictly decrease a rank -/
def Acyclic (st : Store) : Prop :=
  ∃ rank : Id → Nat, ∀ i o, st.get i = some o → ∀ j ∈ o.refs, rank j < rank i

/-- no dangling reference below `root` (true of a live Python heap) -/
def Closed (st : Store) (root : Id) : Prop := ∀ j, Reach st root j → (st.get j).isSome = true

theorem Reach.rank_le {st : Store} {rank : Id → Nat}
    (hr : ∀ i o, st.get i = some o → ∀ j ∈ o.refs, rank j < rank i) {a b : Id} (h : Reach st a b) :
    rank b ≤ rank a := by
  induction h with
  | refl _ => exact le_rfl
  | step hg hj _ ih => exact le_trans ih (le_of_lt (hr _ _ hg _ hj))

theorem Acyclic.no_back {st : Store} (h : Acyclic st) {i j : Id} {o : Obj} (hg : st.get i = some o)
    (hj : j ∈ o.refs) : ¬ Reach st j i := by
  obtain ⟨rank, hr⟩ := h
  intro hre
  have := hre.rank_le hr
  have := hr i o hg j hj
  omega

/-! ### the invariant of a context -/

structure CtxOK (st ctx : Store) : Prop where
  nodup : ctx.keys.Nodup
  sub : ∀ i o, (i, o) ∈ ctx → st.get i = some o
  closed : ∀ i o, (i, o) ∈ ctx → ∀ j ∈ o.refs, j ∈ ctx.keys

theorem CtxOK.nil (st : Store) : CtxOK st [] := ⟨by simp [Store.keys], by simp, by simp⟩

/-! ### the walk -/

theorem visit_succ (st : Store) (f : Nat) (i : Id) (ctx : Store) :
    visit st (f + 1) i ctx =
      if ctx.keys.contains i then .ok ctx
      else match st.get i with
        | none => .error (.missing i)
        | some o =>
          match visitList (visit st f) o.refs ctx with
          | .error e => .error e
          | .ok ctx' => .ok (ctx' ++ [(i, o)]) := rfl

/-- the children of one object -/
theorem visitList_spec (st : Store) (v : Id → Store → Except Err Store) (Q : Id → Prop)
    (hv : ∀ j ctx, Q j → CtxOK st ctx → ∃ new, v j ctx = .ok (ctx ++ new) ∧ CtxOK st (ctx ++ new) ∧
      j ∈ (ctx ++ new).keys ∧ ∀ j' ∈ Store.keys new, Reach st j j') :
    ∀ (js : List Id) (ctx : Store), (∀ j ∈ js, Q j) → CtxOK st ctx →
      ∃ new, visitList v js ctx = .ok (ctx ++ new) ∧ CtxOK st (ctx ++ new) ∧
        (∀ j ∈ js, j ∈ (ctx ++ new).keys) ∧ ∀ j' ∈ Store.keys new, ∃ j ∈ js, Reach st j j'
  | [], ctx, _, hc => ⟨[], by simp [visitList], by simpa using hc, by simp, by simp [Store.keys]⟩
  | j :: js, ctx, hq, hc => by
    obtain ⟨n1, h1, hc1, hj1, hr1⟩ := hv j ctx (hq j List.mem_cons_self) hc
    obtain ⟨n2, h2, hc2, hj2, hr2⟩ := visitList_spec st v Q hv js (ctx ++ n1)
      (fun x hx => hq x (List.mem_cons_of_mem _ hx)) hc1
    refine ⟨n1 ++ n2, ?_, ?_, ?_, ?_⟩
    · simp only [visitList, h1, h2, List.append_assoc]
    · simpa [List.append_assoc] using hc2
    · intro x hx
      rcases List.mem_cons.1 hx with rfl | hx
      · rw [← List.append_assoc, keys_append]
        exact List.mem_append_left _ hj1
      · simpa [List.append_assoc] using hj2 x hx
    · intro j' hj'
      rw [keys_append, List.mem_append] at hj'
      rcases hj' with hj' | hj'
      · exact ⟨j, List.mem_cons_self, hr1 j' hj'⟩
      · obtain ⟨x, hx, hxr⟩ := hr2 j' hj'
        exact ⟨x, List.mem_cons_of_mem _ hx, hxr⟩

/-- MAIN LEMMA: with more fuel than there are objects below `i`, the walk succeeds, keeps the
    invariant, enters `i`, and enters only objects reachable from `i`. -/
theorem visit_spec (st : Store) (hac : Acyclic st) :
    ∀ (f : Nat) (i : Id) (ctx : Store) (S : List Id), CtxOK st ctx → S.Nodup → (∀ j, Reach st i j → j ∈ S) →
      S.length < f → (∀ j, Reach st i j → (st.get j).isSome = true) →
      ∃ new, visit st f i ctx = .ok (ctx ++ new) ∧ CtxOK st (ctx ++ new) ∧ i ∈ (ctx ++ new).keys ∧
        ∀ j' ∈ Store.keys new, Reach st i j'
  | 0, _, _, _, _, _, _, hf, _ => absurd hf (Nat.not_lt_zero _)
  | f + 1, i, ctx, S, hc, hS, hR, hf, hcl => by
    rw [visit_succ]
    by_cases hmem : i ∈ ctx.keys
    · refine ⟨[], ?_, by simpa using hc, by simpa using hmem, by simp [Store.keys]⟩
      simp [hmem]
    · have hcont : ctx.keys.contains i = false := by simpa using hmem
      rw [hcont]
      simp only [Bool.false_eq_true, if_false]
      have hsome := hcl i (Reach.refl i)
      obtain ⟨o, ho⟩ := Option.isSome_iff_exists.1 hsome
      rw [ho]
      simp only []
      have hiS : i ∈ S := hR i (Reach.refl i)
      -- children: the allowed set shrinks by `i`
      have hkids := visitList_spec st (visit st f) (fun j => j ∈ o.refs)
        (by
          intro j c hj hcj
          refine visit_spec st hac f j c (S.erase i) hcj (hS.erase i) ?_ ?_ ?_
          · intro j' hj'
            have h1 : j' ∈ S := hR j' (Reach.step ho hj hj')
            have h2 : j' ≠ i := by
              rintro rfl
              exact hac.no_back ho hj hj'
            exact (List.mem_erase_of_ne h2).2 h1
          · rw [List.length_erase_of_mem hiS]
            have : 0 < S.length := List.length_pos_of_mem hiS
            omega
          · intro j' hj'
            exact hcl j' (Reach.step ho hj hj'))
        o.refs ctx (fun j hj => hj) hc
      obtain ⟨new, h1, hc1, hj1, hr1⟩ := hkids
      rw [h1]
      simp only []
      have hinew : i ∉ Store.keys new := by
        intro hi
        obtain ⟨j, hj, hre⟩ := hr1 i hi
        exact hac.no_back ho hj hre
      have hictx' : i ∉ (ctx ++ new).keys := by
        rw [keys_append, List.mem_append]
        rintro (h | h)
        · exact hmem h
        · exact hinew h
      refine ⟨new ++ [(i, o)], by rw [List.append_assoc], ?_, ?_, ?_⟩
      · rw [← List.append_assoc]
        refine ⟨?_, ?_, ?_⟩
        · rw [keys_append]
          simp only [Store.keys, List.map_cons, List.map_nil]
          rw [List.nodup_append]
          refine ⟨hc1.nodup, by simp, ?_⟩
          intro a ha b hb
          rw [List.mem_singleton] at hb
          subst hb
          rintro rfl
          exact hictx' ha
        · intro a q hq
          rcases List.mem_append.1 hq with hq | hq
          · exact hc1.sub a q hq
          · rw [List.mem_singleton] at hq
            cases hq
            exact ho
        · intro a q hq x hx
          rw [keys_append]
          rcases List.mem_append.1 hq with hq | hq
          · exact List.mem_append_left _ (hc1.closed a q hq x hx)
          · rw [List.mem_singleton] at hq
            cases hq
            exact List.mem_append_left _ (hj1 x hx)
      · rw [← List.append_assoc, keys_append]
        exact List.mem_append_right _ (by simp [Store.keys])
      · intro j' hj'
        rw [keys_append, List.mem_append] at hj'
        rcases hj' with hj' | hj'
        · obtain ⟨j, hj, hre⟩ := hr1 j' hj'
          exact Reach.step ho hj hre
        · simp [Store.keys] at hj'
          subst hj'
          exact Reach.refl _

/-! ### the walk only looks at what is reachable; more fuel changes nothing -/

theorem visitList_congr {v v' : Id → Store → Except Err Store} :
    ∀ (js : List Id) (ctx : Store), (∀ j ∈ js, ∀ c, v j c = v' j c) → visitList v js ctx = visitList v' js ctx
  | [], _, _ => rfl
  | j :: js, ctx, h => by
    simp only [visitList]
    rw [h j List.mem_cons_self ctx]
    rcases v' j ctx with e | c
    · rfl
    · exact visitList_congr js c (fun x hx => h x (List.mem_cons_of_mem _ hx))

theorem visit_congr (st st' : Store) : ∀ (f : Nat) (i : Id) (ctx : Store),
    (∀ j, Reach st i j → st.get j = st'.get j) → visit st f i ctx = visit st' f i ctx
  | 0, _, _, _ => rfl
  | f + 1, i, ctx, h => by
    rw [visit_succ, visit_succ, ← h i (Reach.refl i)]
    rcases ho : st.get i with _ | o
    · rfl
    · simp only []
      rw [visitList_congr o.refs ctx (fun j hj c =>
        visit_congr st st' f j c (fun j' hj' => h j' (Reach.step ho hj hj')))]

theorem visitList_mono {v v' : Id → Store → Except Err Store}
    (h : ∀ j c r, v j c = .ok r → v' j c = .ok r) :
    ∀ (js : List Id) (ctx r : Store), visitList v js ctx = .ok r → visitList v' js ctx = .ok r
  | [], _, _, hr => hr
  | j :: js, ctx, r, hr => by
    simp only [visitList] at hr ⊢
    rcases hv : v j ctx with e | c
    · rw [hv] at hr; cases hr
    · rw [hv] at hr
      rw [h j ctx c hv]
      exact visitList_mono h js c r hr

theorem visit_mono (st : Store) : ∀ (f f' : Nat), f ≤ f' → ∀ (i : Id) (ctx r : Store),
    visit st f i ctx = .ok r → visit st f' i ctx = .ok r
  | 0, _, _, _, _, _, h => by cases h
  | f + 1, 0, hle, _, _, _, _ => absurd hle (by omega)
  | f + 1, f' + 1, hle, i, ctx, r, h => by
    rw [visit_succ] at h ⊢
    split at h
    · rename_i hc; rw [if_pos hc]; exact h
    · rename_i hc
      rw [if_neg hc]
      rcases ho : st.get i with _ | o
      · rw [ho] at h; cases h
      · rw [ho] at h
        simp only [] at h ⊢
        rcases hk : visitList (visit st f) o.refs ctx with e | c
        · rw [hk] at h; cases h
        · rw [hk] at h
          rw [visitList_mono (fun j c r hr => visit_mono st f f' (by omega) j c r hr) o.refs ctx c hk]
          exact h

end Acn.Registry
