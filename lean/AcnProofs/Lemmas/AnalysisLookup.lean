/-
  Helper lemmas for C18, part 2: the name ↦ row mechanics of `constraint_currents`.

  The code filters POSITIONS of `constraint_index` by membership in the request, filters the NAMES
  by the same predicate in a separate comprehension, and pairs the two results by position.
  `dict_named` shows that, for pairwise distinct names, the resulting dict binds every requested
  name to the value computed for ITS OWN position, whatever the order / multiplicity of the request.
-/
import AcnModel.Analysis
import Mathlib.Tactic

namespace Acn.Analysis

/-- position of the first occurrence of a name in `constraint_index` -/
def posOf : List String → String → Option Nat
  | [], _ => none
  | n :: ns, name => if n == name then some 0 else (posOf ns name).map (· + 1)

theorem posOf_none (names : List String) (name : String) (h : name ∉ names) : posOf names name = none := by
  induction names with
  | nil => rfl
  | cons n ns ih =>
    have h1 : n ≠ name := fun e => h (by simp [e])
    have h2 : name ∉ ns := fun e => h (by simp [e])
    simp [posOf, h1, ih h2]

theorem posOf_getElem (names : List String) (hn : names.Nodup) (k : Nat) (hk : k < names.length) :
    posOf names names[k] = some k := by
  induction names generalizing k with
  | nil => simp at hk
  | cons n ns ih =>
    rw [List.nodup_cons] at hn
    cases k with
    | zero => simp [posOf]
    | succ k =>
      have hk' : k < ns.length := by simpa using hk
      have hne : n ≠ ns[k] := fun e => hn.1 (e ▸ List.getElem_mem hk')
      simp [posOf, hne, ih hn.2 k hk']

/-- `rowNamed` is the matrix row at the name's position -/
theorem rowNamed_eq {K : Type} (names : List String) (M : Matrix K) (hM : M.length = names.length)
    (name : String) : rowNamed names M name = (posOf names name).map (fun k => M.getD k []) := by
  induction names generalizing M with
  | nil => cases M <;> simp [rowNamed, posOf]
  | cons n ns ih =>
    cases M with
    | nil => simp at hM
    | cons r rs =>
      have hM' : rs.length = ns.length := by simpa using hM
      by_cases h : n = name
      · simp [rowNamed, posOf, h]
      · simp only [rowNamed, posOf, h, beq_iff_eq, if_false]
        rw [ih rs hM']
        cases posOf ns name <;> simp

/-! ### the dict -/

theorem dictGet_none {α : Type} (l : List Nat) (g : Nat → String) (F : Nat → α) (name : String)
    (h : ∀ i ∈ l, g i ≠ name) : dictGet (l.map fun i => (g i, F i)) name = none := by
  induction l with
  | nil => rfl
  | cons a as ih =>
    have h1 : g a ≠ name := h a (by simp)
    have h2 := ih (fun i hi => h i (by simp [hi]))
    simp [dictGet, h2, h1]

theorem dictGet_some {α : Type} (l : List Nat) (g : Nat → String) (F : Nat → α) (name : String)
    (k : Nat) (hk : k ∈ l) (hg : g k = name) (huniq : ∀ i ∈ l, g i = name → i = k) :
    dictGet (l.map fun i => (g i, F i)) name = some (F k) := by
  induction l with
  | nil => simp at hk
  | cons a as ih =>
    by_cases hka : k ∈ as
    · have := ih hka (fun i hi => huniq i (by simp [hi]))
      simp [dictGet, this]
    · have hak : a = k := by
        rcases List.mem_cons.mp hk with h | h
        · exact h.symm
        · exact absurd h hka
      have hnone : dictGet (as.map fun i => (g i, F i)) name = none :=
        dictGet_none as g F name (fun i hi e => hka (huniq i (by simp [hi]) e ▸ hi))
      subst hak
      simp [dictGet, hnone, hg]

/-- the requested names in index order ARE the names at the filtered positions -/
theorem selectedNames_eq (names req : List String) :
    selectedNames names req =
      (constraintIndices names (some req)).map (fun i => names.getD i "") := by
  have hmap : names = (List.range names.length).map (fun i => names.getD i "") := by
    apply List.ext_getElem (by simp)
    intro i h₁ h₂
    simp [List.getD_eq_getElem?_getD, List.getElem?_eq_getElem h₁]
  unfold selectedNames constraintIndices
  conv_lhs => rw [hmap]
  rw [List.filter_map]
  rfl

theorem mem_constraintIndices (names req : List String) (i : Nat) :
    i ∈ constraintIndices names (some req) ↔ i < names.length ∧ names.getD i "" ∈ req := by
  simp [constraintIndices]

/-- THE lookup theorem: whatever is computed per position (`F`), the dict comprehension binds each
    requested known name to the value of its own position, and nothing else. -/
theorem dict_named {α : Type} (names : List String) (hn : names.Nodup) (req : List String)
    (F : Nat → α) :
    ∃ d, dictComp (selectedNames names req) ((constraintIndices names (some req)).map F) = .ok d ∧
      ∀ name, dictGet d name = if name ∈ req then (posOf names name).map F else none := by
  set idxs := constraintIndices names (some req) with hidxs
  refine ⟨idxs.map (fun i => (names.getD i "", F i)), ?_, ?_⟩
  · rw [selectedNames_eq, ← hidxs, dictComp]
    simp [List.zip_map']
  · intro name
    by_cases hreq : name ∈ req
    · rw [if_pos hreq]
      by_cases hmem : name ∈ names
      · obtain ⟨k, hk, rfl⟩ := List.getElem_of_mem hmem
        rw [posOf_getElem names hn k hk]
        have hgk : names.getD k "" = names[k] := by
          simp [List.getD_eq_getElem?_getD, List.getElem?_eq_getElem hk]
        apply dictGet_some idxs _ F names[k] k
        · rw [hidxs, mem_constraintIndices]; exact ⟨hk, by rw [hgk]; exact hreq⟩
        · exact hgk
        · intro i hi e
          rw [hidxs, mem_constraintIndices] at hi
          have hgi : names.getD i "" = names[i]'hi.1 := by
            simp [List.getD_eq_getElem?_getD, List.getElem?_eq_getElem hi.1]
          rw [hgi] at e
          exact (List.Nodup.getElem_inj_iff hn).mp e
      · rw [posOf_none names name hmem]
        apply dictGet_none
        intro i hi e
        rw [hidxs, mem_constraintIndices] at hi
        apply hmem
        rw [← e]
        simp only [List.getD_eq_getElem?_getD, List.getElem?_eq_getElem hi.1, Option.getD_some]
        exact List.getElem_mem hi.1
    · rw [if_neg hreq]
      apply dictGet_none
      intro i hi e
      rw [hidxs, mem_constraintIndices] at hi
      exact hreq (e ▸ hi.2)

end Acn.Analysis
