/-
  Run-level `sim_consequences`: the shared simulator model `Sim.run` with the modelled sorted
  algorithm (`SimSorted.sortedSched`, no estimator) as scheduler.  This file: which errors the
  stages can raise, static EV fields, the link station occupant ↔ queued session.
-/
import AcnProofs.Lemmas.SortedSimRun
import AcnProofs.Lemmas.SortedCall
import AcnProofs.Lemmas.EventCorePilots
import AcnProofs.Lemmas.LedgerStep
import AcnProofs.Lemmas.EventCoreSim

set_option linter.unusedSectionVars false

namespace Acn.Sorted
open Acn Acn.Evse Acn.EventCore

/-! ### errors of the event stage and of the scheduling stage are never `InvalidRate` -/

theorem process_not_invalidRate (cfg : EventCore.Cfg) (e : Event) (c : Core) :
    (EventCore.process cfg e c).2 ≠ some .invalidRate := by
  unfold EventCore.process
  split
  · split
    · simp
    · split
      · split <;> simp
      · simp
  · split
    · simp
    · split <;> simp
  · simp

theorem core_processAll_not_invalidRate (cfg : EventCore.Cfg) : ∀ (l : List Event) (c : Core),
    (EventCore.processAll cfg l c).2 ≠ some .invalidRate := by
  intro l
  induction l with
  | nil => intro c; simp [EventCore.processAll]
  | cons e es ih =>
    intro c
    unfold EventCore.processAll
    split
    · exact ih _
    · rename_i c2 err heq
      have := process_not_invalidRate cfg e { c with eventHist := c.eventHist ++ [e] }
      unfold EventCore.step at heq
      rw [heq] at this
      exact this

theorem eventsStage_not_invalidRate (cfg : Sim.Cfg ℝ) (s : Sim.State ℝ) :
    (Sim.eventsStage cfg s).2 ≠ some .invalidRate := by
  have h := Sim.eventsStage_core cfg s
  have h2 : (Sim.eventsStage cfg s).2 = (EventCore.eventsStage cfg.core s.core).2 := by rw [← h]
  rw [h2]
  unfold EventCore.eventsStage
  exact core_processAll_not_invalidRate _ _ _

/-! ### static fields of the EV records -/

/-- the record keeps the identity of one of the configured EVs -/
def StaticIn (cfg : Sim.Cfg ℝ) (e : Ev ℝ) : Prop :=
  ∃ e0 ∈ cfg.evs, e.session = e0.session ∧ e.station = e0.station

theorem charge_static {e e' : Ev ℝ} {pilot V T ν : ℝ} (h : e.charge pilot V T ν = .ok e') :
    e'.session = e.session ∧ e'.station = e.station := by
  unfold Ev.charge at h
  split at h
  · cases h
  · cases h; exact ⟨rfl, rfl⟩

theorem setPilotAt_static (cfg : Sim.Cfg ℝ) (s : Sim.State ℝ) (i : Nat) (st : Sim.Station ℝ)
    (h : ∀ e ∈ s.evs, StaticIn cfg e) : ∀ e ∈ (Sim.setPilotAt cfg s i st).1.evs, StaticIn cfg e := by
  unfold Sim.setPilotAt
  simp only
  split
  · exact h
  · exact h
  · rename_i evse' hset
    unfold Evse.setPilot at hset
    split at hset
    · cases hocc : Sim.occupantEv s st.id with
      | none =>
        rw [hocc] at hset
        simp only at hset
        cases hset
        simpa using h
      | some e =>
        rw [hocc] at hset
        simp only at hset
        split at hset
        · cases hset
        · rename_i e' hch
          cases hset
          have hmem : e ∈ s.evs := by
            unfold Sim.occupantEv at hocc
            split at hocc
            · exact List.mem_of_find?_eq_some hocc
            · cases hocc
          obtain ⟨e0, h0, h1, h2⟩ := h e hmem
          obtain ⟨c1, c2⟩ := charge_static hch
          intro d hd
          simp only at hd
          unfold Sim.replaceEv at hd
          obtain ⟨d0, hd0, rfl⟩ := List.mem_map.mp hd
          split
          · exact ⟨e0, h0, by rw [c1]; exact h1, by rw [c2]; exact h2⟩
          · exact h d0 hd0
    · cases hset

theorem updatePilotsFrom_static (cfg : Sim.Cfg ℝ) : ∀ (rest : List (Sim.Station ℝ)) (i : Nat)
    (s : Sim.State ℝ), (∀ e ∈ s.evs, StaticIn cfg e) →
      ∀ e ∈ (Sim.updatePilotsFrom cfg i rest s).1.evs, StaticIn cfg e := by
  intro rest
  induction rest with
  | nil => intro i s h; simpa [Sim.updatePilotsFrom] using h
  | cons st rest ih =>
    intro i s h
    have h1 := setPilotAt_static cfg s i st h
    unfold Sim.updatePilotsFrom
    split
    · rename_i s' heq
      have hs' : s' = (Sim.setPilotAt cfg s i st).1 := by rw [heq]
      exact ih (i + 1) s' (by rw [hs']; exact h1)
    · rename_i s' e heq
      have hs' : s' = (Sim.setPilotAt cfg s i st).1 := by rw [heq]
      rw [hs']; exact h1

/-- the occupant record of a station names that station (occupancy is sound, session ids of the
    configured EVs are distinct) -/
theorem occupant_station (cfg : Sim.Cfg ℝ) (s : Sim.State ℝ)
    (hocc : Ledger.OccSound cfg.core s.core.occ) (hsn : (cfg.evs.map (·.session)).Nodup)
    (hst : ∀ e ∈ s.evs, StaticIn cfg e) (st : String) (e : Ev ℝ)
    (h : Sim.occupantEv s st = some e) : e.station = st := by
  obtain ⟨x, hx, hex⟩ := occupant_session s st e h
  have hmem : e ∈ s.evs := by
    unfold Sim.occupantEv at h
    rw [hx] at h
    exact List.mem_of_find?_eq_some h
  obtain ⟨e0, h0, h1, h2⟩ := hst e hmem
  obtain ⟨hf, hxs⟩ := hocc st x hx
  unfold EventCore.findSession at hf
  have hxm := List.mem_of_find?_eq_some hf
  simp only [Sim.Cfg.core, List.mem_map] at hxm
  obtain ⟨e1, he1, rfl⟩ := hxm
  have : e1 = e0 := by
    apply List.inj_on_of_nodup_map hsn he1 h0
    show e1.session = e0.session
    rw [← h1, hex]; rfl
  rw [h2, ← this]
  exact hxs

/-- an EV the interface lists as active is the occupant of one of the stations -/
theorem active_is_occupant (cfg : Sim.Cfg ℝ) (s : Sim.State ℝ) (e : Ev ℝ)
    (h : e ∈ Sim.activeEvs cfg s) : ∃ st ∈ cfg.stations, Sim.occupantEv s st.id = some e := by
  unfold Sim.activeEvs at h
  rw [List.mem_filterMap] at h
  obtain ⟨st, hst, hm⟩ := h
  refine ⟨st, hst, ?_⟩
  cases ho : Sim.occupantEv s st.id with
  | none => rw [ho] at hm; cases hm
  | some e' =>
    rw [ho] at hm
    simp only at hm
    split at hm
    · cases hm; rfl
    · cases hm

/-! ### one `applyStage` under the per-station guarantees -/

/-- EVSE classes of C07's quantifier: continuous from zero with a finite maximum (at most the
    carrier value standing for `inf`), or finite-rate with a normalised (0-containing, non-negative)
    level list -/
def KindOk (inf : ℝ) : Evse.Kind ℝ → Prop
  | .cont mn (some mx) => mn = 0 ∧ 0 ≤ mx ∧ mx ≤ inf
  | .finite rates => (0 : ℝ) ∈ rates ∧ ∀ a ∈ rates, 0 ≤ a
  | _ => False

structure CfgOk (cfg : Sim.Cfg ℝ) (inf : ℝ) : Prop where
  nod : Ledger.StationsNodup cfg
  ne : cfg.stations ≠ []
  kinds : ∀ st ∈ cfg.stations, KindOk inf st.kind
  volt : ∀ st ∈ cfg.stations, 0 < st.voltage
  per : 0 < cfg.period
  tol : TolOk cfg
  sess : (cfg.evs.map (·.session)).Nodup

theorem accepts_zero (inf : ℝ) (k : Evse.Kind ℝ) (h : KindOk inf k) : Accepts k 0 := by
  cases k with
  | cont mn mx =>
    cases mx with
    | none => exact absurd h (by simp [KindOk])
    | some m =>
      obtain ⟨h1, h2, _⟩ := h
      exact ⟨le_of_eq h1, le_refl _, h2⟩
  | deadband db m => exact absurd h (by simp [KindOk])
  | finite l => exact h.1

theorem storeRates_evs (cfg : Sim.Cfg ℝ) (w : Nat) (s : Sim.State ℝ) :
    (Sim.storeRates cfg w s).1.evs = s.evs := by
  unfold Sim.storeRates
  simp only
  split
  · rfl
  · split <;> rfl

theorem rapEv_nonneg (cfg : Sim.Cfg ℝ) (st : Sim.Station ℝ) (e : Ev ℝ) (hV : 0 < st.voltage)
    (hT : 0 < cfg.period) (h : e.delivered ≤ e.requested) : 0 ≤ rapEv cfg st e := by
  unfold rapEv
  have : 0 ≤ e.requested - e.delivered := by linarith
  positivity

/-- column `τ` of the pilot matrix as the array over the stations -/
def colOf (m : Pilots.Mat ℝ) (n τ : Nat) : List ℝ := (List.range n).map fun k => m.get k τ

/-- an applied column passes the feasibility predicate, or it is all zero (a period in which the
    scheduler was not consulted applies zeros) -/
def ColOk (feasP : List ℝ → Bool) (m : Pilots.Mat ℝ) (n τ : Nat) : Prop :=
  feasP (colOf m n τ) = true ∨ ∀ k, m.get k τ = 0

theorem colOk_congr (feasP : List ℝ → Bool) (m m' : Pilots.Mat ℝ) (n τ : Nat)
    (h : ∀ k, k < n → m'.get k τ = m.get k τ) (hz : (∀ k, m.get k τ = 0) → ∀ k, m'.get k τ = 0)
    (hc : ColOk feasP m n τ) : ColOk feasP m' n τ := by
  have hcol : colOf m' n τ = colOf m n τ := by
    unfold colOf
    apply List.map_congr_left
    intro k hk
    exact h k (List.mem_range.mp hk)
  rcases hc with h1 | h1
  · left; rw [hcol]; exact h1
  · right; exact hz h1

theorem colOf_eq_arr (m : Pilots.Mat ℝ) (n τ : Nat) (arr : List ℝ) (hl : arr.length = n)
    (h : ∀ k, k < n → m.get k τ = arr.getD k 0) : colOf m n τ = arr := by
  unfold colOf
  apply List.ext_getElem
  · simp [hl]
  · intro i h1 h2
    simp only [List.getElem_map, List.getElem_range]
    rw [h i (by simpa using h1)]
    simp [List.getD_eq_getElem?_getD, h2]

/-- what a loop head needs besides the ledger invariant of C02 -/
structure SInv (feasP : List ℝ → Bool) (cfg : Sim.Cfg ℝ) (s : Sim.State ℝ) : Prop where
  led : Ledger.Inv cfg s
  cols : ∀ τ, τ < s.core.iter → ColOk feasP s.pilots cfg.stations.length τ
  pwf : s.pilots.WF cfg.stations.length
  evs : ∀ e ∈ s.evs, LedgerOk e ∧ StaticIn cfg e
  fut : ∀ k τ, s.core.iter ≤ τ → s.pilots.get k τ = 0

theorem applyStage_safe (feasP : List ℝ → Bool) (cfg : Sim.Cfg ℝ) (inf : ℝ) (hc : CfgOk cfg inf) (a : Sim.State ℝ)
    (hcols : ∀ τ, τ ≤ a.core.iter → ColOk feasP a.pilots cfg.stations.length τ)
    (hocc : Ledger.OccSound cfg.core a.core.occ) (hwf : a.pilots.WF cfg.stations.length)
    (hev : ∀ e ∈ a.evs, LedgerOk e ∧ StaticIn cfg e)
    (hG1 : ∀ k st, cfg.stations[k]? = some st → Accepts st.kind (a.pilots.get k a.core.iter))
    (hG2 : ∀ k st e, cfg.stations[k]? = some st → Sim.occupantEv a st.id = some e →
      0 ≤ a.pilots.get k a.core.iter ∧ a.pilots.get k a.core.iter ≤ rapEv cfg st e)
    (hfut : ∀ k τ, a.core.iter < τ → a.pilots.get k τ = 0) :
    (Sim.applyStage cfg a).2 ≠ some .invalidRate ∧
    ∀ s', Sim.applyStage cfg a = (s', none) →
      s'.pilots.WF cfg.stations.length ∧ (∀ e ∈ s'.evs, LedgerOk e ∧ StaticIn cfg e) ∧
      (∀ k τ, s'.core.iter ≤ τ → s'.pilots.get k τ = 0) ∧
      (∀ τ, τ < s'.core.iter → ColOk feasP s'.pilots cfg.stations.length τ) := by
  constructor
  · apply applyStage_not_invalidRate cfg hc.tol a
    intro k st hk
    show Accepts st.kind ((Pilots.increaseWidth a.pilots (Sim.widthInc a)).get k a.core.iter)
    rw [Pilots.increaseWidth_get']
    exact hG1 k st hk
  · intro s' h
    have h2n : (Sim.applyStage cfg a).2 = none := by rw [h]
    obtain ⟨hp, _⟩ := Sim.applyStage_pilots cfg a h2n
    have hcore := Sim.applyStage_core cfg a h2n
    rw [h] at hp hcore
    simp only at hp hcore
    obtain ⟨w, s2, s3, hu, hs3, rfl⟩ := Ledger.applyStage_ok h
    have hiter : (EventCore.advance s3.core).iter = a.core.iter + 1 := by
      simp only at hcore
      rw [hcore]; rfl
    refine ⟨?_, ?_, ?_, ?_⟩
    rotate_left 3
    · intro τ hτ
      have hτ' : τ < (EventCore.advance s3.core).iter := hτ
      simp only at hp
      show ColOk feasP s3.pilots cfg.stations.length τ
      rw [hp]
      exact colOk_congr feasP a.pilots _ _ τ (fun k _ => Pilots.increaseWidth_get' _ _ _ _)
        (fun hz k => by rw [Pilots.increaseWidth_get']; exact hz k) (hcols τ (by omega))
    · show (s3.pilots).WF _
      simp only at hp
      rw [hp]; exact Pilots.increaseWidth_wf hwf _
    · have he3 : s3.evs = s2.evs := by
        have := storeRates_evs cfg w s2; rw [hs3] at this; exact this
      show ∀ e ∈ s3.evs, LedgerOk e ∧ StaticIn cfg e
      rw [he3]
      unfold Sim.updatePilots at hu
      have hs2 : s2 = (Sim.updatePilotsFrom cfg 0 cfg.stations
          { a with pilots := Pilots.increaseWidth a.pilots w, rates := Pilots.increaseWidth a.rates w }).1 := by
        rw [hu]
      intro e he
      rw [hs2] at he
      constructor
      · refine updatePilotsFrom_ledger cfg hc.per cfg.stations 0
          { a with pilots := Pilots.increaseWidth a.pilots w, rates := Pilots.increaseWidth a.rates w }
          hc.volt (fun e he => (hev e he).1) (Ledger.distinctOcc_of hc.nod hocc) ?_ e he
        intro k st hk e' he'
        rw [Nat.zero_add]
        show 0 ≤ (Pilots.increaseWidth a.pilots w).get k a.core.iter ∧
          (Pilots.increaseWidth a.pilots w).get k a.core.iter ≤ rapEv cfg st e'
        rw [Pilots.increaseWidth_get']
        exact hG2 k st e' hk he'
      · exact updatePilotsFrom_static cfg cfg.stations 0
          { a with pilots := Pilots.increaseWidth a.pilots w, rates := Pilots.increaseWidth a.rates w }
          (fun e he => (hev e he).2) e he
    · intro k τ hτ
      simp only at hp
      show s3.pilots.get k τ = 0
      rw [hp, Pilots.increaseWidth_get']
      apply hfut
      have : (EventCore.advance s3.core).iter = a.core.iter + 1 := by
        simp only at hcore
        rw [hcore]; rfl
      have hτ' : (EventCore.advance s3.core).iter ≤ τ := hτ
      omega

/-! ### one period and the whole run, for a scheduler with per-station guarantees -/

/-- what the induction needs of a scheduler: it never raises `InvalidRate` itself, and on every
    state with sound occupancy and ledger-correct EV records its answer is the dict of an array
    with one accepted entry per station that stays within the occupant's remaining demand -/
structure SchedSafe (feasP : List ℝ → Bool) (cfg : Sim.Cfg ℝ) (inf : ℝ)
    (sched : Sim.View ℝ → Except EventCore.Err (Sim.Schedule ℝ)) : Prop where
  err : ∀ v e, sched v = .error e → e ≠ .invalidRate
  ok : ∀ a : Sim.State ℝ, Ledger.OccSound cfg.core a.core.occ →
    (∀ e ∈ a.evs, LedgerOk e ∧ StaticIn cfg e) →
    ∀ sch, sched (Sim.view cfg a) = .ok sch →
      ∃ arr : List ℝ, sch = formatArraySchedule (SimSorted.infraOf inf cfg) arr ∧
        arr.length = cfg.stations.length ∧ feasP arr = true ∧
        (∀ k st, cfg.stations[k]? = some st → Accepts st.kind (arr.getD k 0)) ∧
        (∀ k st e, cfg.stations[k]? = some st → Sim.occupantEv a st.id = some e →
          0 ≤ arr.getD k 0 ∧ arr.getD k 0 ≤ rapEv cfg st e)

theorem body_safe (feasP : List ℝ → Bool) (cfg : Sim.Cfg ℝ) (inf : ℝ) (hc : CfgOk cfg inf)
    (sched : Sim.View ℝ → Except EventCore.Err (Sim.Schedule ℝ)) (hs : SchedSafe feasP cfg inf sched)
    (s : Sim.State ℝ) (hJ : SInv feasP cfg s) :
    (Sim.body cfg sched s).2 ≠ some .invalidRate ∧
    ∀ s', Sim.body cfg sched s = (s', none) → SInv feasP cfg s' := by
  obtain ⟨f1, f2, f3, f4, f5, f6⟩ := Ledger.eventsStage_frame cfg s hJ.led.occ_sound
  have f7 := Sim.eventsStage_pilots cfg s
  have hne := eventsStage_not_invalidRate cfg s
  have hids : (SimSorted.infraOf inf cfg).ids = cfg.stations.map (·.id) := rfl
  have hlen : (SimSorted.infraOf inf cfg).ids.length = cfg.stations.length := by simp [SimSorted.infraOf]
  have hidne : (SimSorted.infraOf inf cfg).ids ≠ [] := by
    rw [hids]; intro h; exact hc.ne (List.map_eq_nil_iff.mp h)
  -- the state after a successful period satisfies the ledger invariant of C02 for free
  have hled : ∀ s', Sim.body cfg sched s = (s', none) → Ledger.Inv cfg s' :=
    fun s' h => Ledger.body_ledger hc.nod sched hJ.led h
  unfold Sim.body at hled ⊢
  cases hes : Sim.eventsStage cfg s with
  | mk s1 err =>
    rw [hes] at f1 f2 f3 f4 f5 f6 f7 hne
    simp only at f1 f2 f3 f4 f5 f6 f7 hne
    simp only [hes] at hled ⊢
    cases err with
    | some e =>
      simp only
      exact ⟨hne, fun s' h => by simp at h⟩
    | none =>
      simp only at hled ⊢
      have hev1 : ∀ e ∈ s1.evs, LedgerOk e ∧ StaticIn cfg e := by rw [f3]; exact hJ.evs
      by_cases hns : needsSched cfg.maxRecompute s1.core = true
      · simp only [hns, if_true] at hled ⊢
        cases hsch : Sim.schedStage cfg sched { s1 with core := markInvoked s1.core } with
        | error e =>
          simp only [hsch] at hled ⊢
          refine ⟨?_, fun s' h => by simp at h⟩
          unfold Sim.schedStage at hsch
          split at hsch
          · cases hsch; simp
          · split at hsch
            · rename_i e' he'
              cases hsch
              intro hcon
              exact hs.err _ _ he' (by simpa using hcon)
            · split at hsch
              · rename_i e' _
                cases hsch
                cases e' <;> simp [Sim.pilotsErr]
              · cases hsch
        | ok m =>
          simp only [hsch] at hled ⊢
          -- the scheduler's answer and what `_update_schedules` made of it
          unfold Sim.schedStage at hsch
          split at hsch
          · cases hsch
          · split at hsch
            · cases hsch
            · rename_i sch hsched
              split at hsch
              · cases hsch
              · rename_i m0 hup
                have hm : m0 = m := by injection hsch
                subst hm
                obtain ⟨arr, rfl, hal, hfe, hG1, hG2⟩ := hs.ok { s1 with core := markInvoked s1.core }
                  f6 hev1 sch hsched
                rw [← hids] at hup
                obtain ⟨u1, u2, u3⟩ := update_with_array (SimSorted.infraOf inf cfg)
                  (by rw [hids]; exact hc.nod) hidne arr (by rw [hal, hlen]) s1.pilots m0
                  (by rw [hlen, f7]; exact hJ.pwf) s1.core.iter _ hup
                rw [hlen] at u1 u2 u3
                have hklt : ∀ k st, cfg.stations[k]? = some st → k < cfg.stations.length := by
                  intro k st hk
                  exact (List.getElem?_eq_some_iff.mp hk).1
                obtain ⟨a1, a2⟩ := applyStage_safe feasP cfg inf hc
                  { s1 with core := markScheduled (markInvoked s1.core), pilots := m0 }
                  (by intro τ hτ
                      have hτ' : τ ≤ s1.core.iter := hτ
                      show ColOk feasP m0 cfg.stations.length τ
                      by_cases hcur : τ = s1.core.iter
                      · left
                        rw [hcur, colOf_eq_arr m0 _ _ arr hal (fun k hk => u2 k hk)]
                        exact hfe
                      · refine colOk_congr feasP s.pilots m0 _ τ
                          (fun k hk => by rw [u3 k τ hk hcur, f7]) ?_
                          (hJ.cols τ (by rw [← f5]; omega))
                        intro hz k
                        by_cases hk : k < cfg.stations.length
                        · rw [u3 k τ hk hcur, f7]; exact hz k
                        · unfold Pilots.Mat.get
                          have : m0.rows.getD k [] = [] := by
                            simp [List.getD_eq_getElem?_getD, u1.1, not_lt.mp hk]
                          rw [this]; rfl)
                  f6 u1 hev1
                  (by intro k st hk
                      show Accepts st.kind (m0.get k s1.core.iter)
                      rw [u2 k (hklt k st hk)]; exact hG1 k st hk)
                  (by intro k st e hk he
                      show 0 ≤ m0.get k s1.core.iter ∧ m0.get k s1.core.iter ≤ rapEv cfg st e
                      rw [u2 k (hklt k st hk)]; exact hG2 k st e hk he)
                  (by intro k τ hτ
                      show m0.get k τ = 0
                      have hτ' : s1.core.iter < τ := hτ
                      by_cases hk : k < cfg.stations.length
                      · rw [u3 k τ hk (by omega), f7]
                        exact hJ.fut k τ (by rw [← f5]; omega)
                      · -- row outside the matrix
                        unfold Pilots.Mat.get
                        have : m0.rows.getD k [] = [] := by
                          simp [List.getD_eq_getElem?_getD, u1.1, not_lt.mp hk]
                        rw [this]; rfl)
                refine ⟨a1, fun s' h => ?_⟩
                obtain ⟨b1, b2, b3, b4⟩ := a2 s' h
                exact ⟨hled s' h, b4, b1, b2, b3⟩
      · have hns' : needsSched cfg.maxRecompute s1.core = false := by simpa using hns
        simp only [hns', Bool.false_eq_true, if_false] at hled ⊢
        obtain ⟨a1, a2⟩ := applyStage_safe feasP cfg inf hc s1
          (by intro τ hτ
              rw [f7]
              by_cases hcur : τ = s1.core.iter
              · right; intro k; exact hJ.fut k τ (by rw [hcur, f5])
              · exact hJ.cols τ (by rw [← f5]; omega))
          f6 (by rw [f7]; exact hJ.pwf) hev1
          (by intro k st hk
              rw [f7, hJ.fut k _ (by rw [f5])]
              exact accepts_zero inf st.kind (hc.kinds st (List.mem_of_getElem? hk)))
          (by intro k st e hk he
              rw [f7, hJ.fut k _ (by rw [f5])]
              have hmem : e ∈ s1.evs := by
                unfold Sim.occupantEv at he
                split at he
                · exact List.mem_of_find?_eq_some he
                · cases he
              exact ⟨le_refl _, rapEv_nonneg cfg st e (hc.volt st (List.mem_of_getElem? hk)) hc.per
                (hev1 e hmem).1.2⟩)
          (by intro k τ hτ
              rw [f7]; exact hJ.fut k τ (by rw [← f5]; omega))
        refine ⟨a1, fun s' h => ?_⟩
        obtain ⟨b1, b2, b3, b4⟩ := a2 s' h
        exact ⟨hled s' h, b4, b1, b2, b3⟩

/-- the run: no `InvalidRate` is ever raised, and every loop head reached satisfies `SInv`
    (in particular `delivered ≤ requested` and the battery invariant for every EV record) -/
theorem run_safe (feasP : List ℝ → Bool) (cfg : Sim.Cfg ℝ) (inf : ℝ) (hc : CfgOk cfg inf)
    (sched : Sim.View ℝ → Except EventCore.Err (Sim.Schedule ℝ)) (hs : SchedSafe feasP cfg inf sched) :
    ∀ (n : Nat) (s : Sim.State ℝ), SInv feasP cfg s →
      (Sim.run cfg sched n s).2 ≠ some .invalidRate ∧
      ((Sim.run cfg sched n s).2 = none → SInv feasP cfg (Sim.run cfg sched n s).1) := by
  intro n
  induction n with
  | zero => intro s hJ; exact ⟨by simp [Sim.run], fun _ => by simpa [Sim.run] using hJ⟩
  | succ n ih =>
    intro s hJ
    unfold Sim.run
    split
    · obtain ⟨b1, b2⟩ := body_safe feasP cfg inf hc sched hs s hJ
      cases hb : Sim.body cfg sched s with
      | mk s1 err =>
        rw [hb] at b1
        cases err with
        | some e =>
          simp only
          exact ⟨b1, fun h => by simp at h⟩
        | none =>
          simp only
          exact ih s1 (b2 s1 hb)
    · exact ⟨by simp, fun _ => hJ⟩

theorem init_sinv (feasP : List ℝ → Bool) (cfg : Sim.Cfg ℝ)
    (hb : ∀ e ∈ cfg.evs, BattAlg.Inv e.batt ∧ e.delivered ≤ e.requested) :
    SInv feasP cfg (Sim.init cfg) := by
  refine ⟨Ledger.init_ledger cfg, ?_, Pilots.zeros_wf _ _, ?_, ?_⟩
  · intro τ hτ
    simp [Sim.init, EventCore.init] at hτ
  · intro e he
    have he' : e ∈ cfg.evs := he
    exact ⟨hb e he', e, he', rfl, rfl⟩
  · intro k τ _
    simp only [Sim.init]
    rw [Pilots.zeros_get]

end Acn.Sorted
