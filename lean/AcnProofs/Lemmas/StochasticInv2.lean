/-
  Preservation of the StochasticNetwork invariant (C19) by the plug-in event.
-/
import AcnProofs.Lemmas.StochasticInv

namespace Acn.Stoch

theorem free_nil_full {s : Net} (hf : s.free = []) : ∀ st ∈ s.stations, s.occ st ≠ none := by
  intro st hst h0
  have : st ∈ s.free := by simp [Net.free, hst, h0]
  rw [hf] at this; simp at this

theorem mem_free {s : Net} {st : Station} (h : st ∈ s.free) : st ∈ s.stations ∧ s.occ st = none := by
  simpa [Net.free] using h

/-- plug-in event of an EV that has not arrived yet -/
theorem Inv.pluginEvent {cs : Nat → Nat} {s s1 : Net} (h : Inv s) (x : Sess)
    (ha : (s.ev x).arrived = false) (hs : s.plugin cs x = .ok s1) :
    Inv { s1.modEv x (fun r => { r with arrived := true }) with
          arrivals := if x ∈ s1.arrivals then s1.arrivals else s1.arrivals ++ [x] } := by
  have hxa : x ∉ s.arrivals := by rw [h.arr_iff]; simp [ha]
  have hxw : x ∉ s.waiting := by rw [h.mem_waiting]; simp [ha]
  have hxd : (s.ev x).departed = false := by have := h.dep_arr x; grind
  have hxp : (s.ev x).plugged = false := by have := h.plugged_iff x; grind
  have hxe : (s.ev x).early = false := by have := h.early_imp x; grind
  have hxq : (s.ev x).queued = false := by have := h.queued_imp x; grind
  have hne : ∀ y ∈ s.arrivals, y ≠ x := fun y hy e => hxa (e ▸ hy)
  unfold Net.plugin at hs
  cases hf : s.free with
  | nil =>
    rw [hf] at hs; simp only at hs; cases hs
    have hfull := free_nil_full hf
    simp only [Net.modEv, hxa, if_false, List.erase_of_not_mem hxw]
    refine ⟨h.st_nodup, ?_, ?_, ?_, ?_, ?_, ?_, ?_, ?_, ?_, ?_, ?_, ?_, ?_, ?_, ?_⟩
    all_goals simp only []
    · intro t u; have := h.occ_iff t u
      by_cases h1 : u = x <;> simp only [h1, ↓reduceIte] <;> grind
    · rw [filter_append_new s.arrivals s.waits _ x, ← h.fifo]
      · simp [Net.waits, hxd]
      · intro y hy; simp [Net.waits, hne y hy]
    · simpa [List.nodup_append, h.arr_nodup] using hne
    · intro u; have := h.arr_iff u
      by_cases h1 : u = x <;> simp only [h1, ↓reduceIte, List.mem_append, List.mem_singleton] <;> grind
    · intro u; have := h.dep_arr u
      by_cases h1 : u = x <;> simp only [h1, ↓reduceIte] <;> grind
    · intro _ t ht; exact hfull t ht
    · intro u t; have := h.st_mem u t
      by_cases h1 : u = x <;> simp only [h1, ↓reduceIte] <;> grind
    · intro u; have := h.plugged_iff u
      by_cases h1 : u = x <;> simp only [h1, ↓reduceIte] <;> grind
    · intro u; have := h.early_imp u
      by_cases h1 : u = x <;> simp only [h1, ↓reduceIte] <;> grind
    · intro u; have := h.queued_imp u
      by_cases h1 : u = x <;> simp only [h1, ↓reduceIte] <;> grind
    · intro u; have := h.queued_none u
      by_cases h1 : u = x <;> simp only [h1, ↓reduceIte] <;> grind
    · rw [countP_append_new s.arrivals (fun u => (s.ev u).departed && !(s.ev u).plugged) _ x, ← h.never_eq]
      · simp [hxd]
      · intro y hy; simp [hne y hy]
    · rw [countP_append_new s.arrivals (fun u => (s.ev u).queued && (s.ev u).plugged) _ x, ← h.swaps_eq]
      · simp [hxp]
      · intro y hy; simp [hne y hy]
    · rw [countP_append_new s.arrivals (fun u => (s.ev u).early) _ x, ← h.early_eq]
      · simp [hxe]
      · intro y hy; simp [hne y hy]
    · rw [countP_append_new s.arrivals (fun u => !(s.ev u).queued) _ x, ← h.draws_eq]
      · simp
      · intro y hy; simp [hne y hy]
  | cons f fs =>
    rw [hf] at hs; simp only at hs
    have hmem := getD_mod_mem f fs (cs s.draws)
    generalize (f :: fs).getD (cs s.draws % (fs.length + 1)) f = st at hs hmem
    rw [← hf] at hmem
    obtain ⟨hst, ho⟩ := mem_free hmem
    rw [attach_eq ({ s.modEv x (fun r => { r with station := some st }) with draws := s.draws + 1 })
      x st (by simp [Net.modEv]) hst ho] at hs
    cases hs
    have hwe : s.waiting = [] := by
      by_contra hne'; exact h.no_wait_free hne' st hst ho
    simp only [Net.modEv, Net.setOcc, hxa, if_false]
    refine ⟨h.st_nodup, ?_, ?_, ?_, ?_, ?_, ?_, ?_, ?_, ?_, ?_, ?_, ?_, ?_, ?_, ?_⟩
    all_goals simp only []
    · intro t u; have := h.occ_iff t u; have := h.occ_iff st u
      by_cases h1 : u = x <;> by_cases h3 : t = st <;> simp only [h1, h3, ↓reduceIte] <;> grind
    · rw [filter_append_new s.arrivals s.waits _ x, ← h.fifo]
      · simp [Net.waits]
      · intro y hy; simp [Net.waits, hne y hy]
    · simpa [List.nodup_append, h.arr_nodup] using hne
    · intro u; have := h.arr_iff u
      by_cases h1 : u = x <;> simp only [h1, ↓reduceIte, List.mem_append, List.mem_singleton] <;> grind
    · intro u; have := h.dep_arr u
      by_cases h1 : u = x <;> simp only [h1, ↓reduceIte] <;> grind
    · intro hne'; exact absurd hwe hne'
    · intro u t; have := h.st_mem u t
      by_cases h1 : u = x <;> simp only [h1, ↓reduceIte] <;> grind
    · intro u; have := h.plugged_iff u
      by_cases h1 : u = x <;> simp only [h1, ↓reduceIte] <;> grind
    · intro u; have := h.early_imp u
      by_cases h1 : u = x <;> simp only [h1, ↓reduceIte] <;> grind
    · intro u; have := h.queued_imp u
      by_cases h1 : u = x <;> simp only [h1, ↓reduceIte] <;> grind
    · intro u; have := h.queued_none u
      by_cases h1 : u = x <;> simp only [h1, ↓reduceIte] <;> grind
    · rw [countP_append_new s.arrivals (fun u => (s.ev u).departed && !(s.ev u).plugged) _ x, ← h.never_eq]
      · simp
      · intro y hy; simp [hne y hy]
    · rw [countP_append_new s.arrivals (fun u => (s.ev u).queued && (s.ev u).plugged) _ x, ← h.swaps_eq]
      · simp [hxq]
      · intro y hy; simp [hne y hy]
    · rw [countP_append_new s.arrivals (fun u => (s.ev u).early) _ x, ← h.early_eq]
      · simp [hxe]
      · intro y hy; simp [hne y hy]
    · rw [countP_append_new s.arrivals (fun u => !(s.ev u).queued) _ x, ← h.draws_eq]
      · simp [hxq]
      · intro y hy; simp [hne y hy]

end Acn.Stoch
