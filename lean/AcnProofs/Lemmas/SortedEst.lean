/-
  `run_preprocessing` with an ARBITRARY upper-bound estimator (`AcnModel/SortedEst.lean`): what
  `apply_upper_bound_estimate` does to a session whatever the estimator answers, the facts about
  `preprocessEst` that the allocation theorems need, and the link to the rampdown instance
  `Sorted.preprocess` / `Sorted.scheduleCall`.
-/
import AcnModel.SortedEst
import AcnProofs.Lemmas.SortedRdLink

set_option linter.unusedSectionVars false

namespace Acn.Sorted
open Acn

section
variable {K : Type} [Field K] [LinearOrder K] [IsStrictOrderedRing K]

/-! ### `apply_upper_bound_estimate`, any answer -/

theorem applyUpperBoundFn_ubRel (est : Session K → Option K) (l : List (Session K)) :
    ∀ s ∈ applyUpperBoundFn est l, ∃ s1 ∈ l, UbRel s1 s := by
  intro s hs
  unfold applyUpperBoundFn at hs
  obtain ⟨s1, h1, rfl⟩ := List.mem_map.mp hs
  refine ⟨s1, h1, ?_⟩
  split
  · rename_i b _
    obtain ⟨g1, _, g3, g4, g5, g6⟩ := reconcile_fields ({ s1 with maxRate := pyMin s1.maxRate b } : Session K)
    refine ⟨g1, reconcile_station _, g4, g5, g3, ?_, Or.inr ?_⟩
    · rw [g6]
      simp only [pyMin_eq_min]
      exact max_le_max (min_le_left _ _) (le_refl _)
    · rw [g6, g3]; exact le_max_right _ _
  · obtain ⟨g1, _, g3, g4, g5, g6⟩ := reconcile_fields s1
    refine ⟨g1, reconcile_station _, g4, g5, g3, ?_, Or.inr ?_⟩
    · rw [g6]
    · rw [g6, g3]; exact le_max_right _ _

theorem applyUpperBoundFn_map_idx (est : Session K → Option K) (l : List (Session K)) :
    (applyUpperBoundFn est l).map (·.idx) = l.map (·.idx) := by
  unfold applyUpperBoundFn
  rw [List.map_map]
  apply List.map_congr_left
  intro s _
  simp only [Function.comp]
  split
  · exact (reconcile_fields _).1
  · exact (reconcile_fields _).1

/-- every session that leaves `apply_upper_bound_estimate` obeys the bound the estimator gave for the
    session it was derived from — unless its own minimum rate is larger; identity fields are kept -/
theorem applyUpperBoundFn_le (est : Session K → Option K) (l : List (Session K)) :
    ∀ s ∈ applyUpperBoundFn est l, ∃ s1 ∈ l, s.session = s1.session ∧ s.idx = s1.idx ∧
      s.minRate = s1.minRate ∧ s.requested = s1.requested ∧ s.delivered = s1.delivered ∧
      ∀ b, est s1 = some b → s.maxRate ≤ max b s.minRate := by
  intro s hs
  unfold applyUpperBoundFn at hs
  obtain ⟨s1, h1, rfl⟩ := List.mem_map.mp hs
  refine ⟨s1, h1, ?_⟩
  split
  · rename_i b0 hb0
    obtain ⟨g1, g2, g3, g4, g5, g6⟩ := reconcile_fields ({ s1 with maxRate := pyMin s1.maxRate b0 } : Session K)
    refine ⟨g2, g1, g3, g4, g5, ?_⟩
    intro b hb
    rw [hb0] at hb
    cases hb
    rw [g6, g3]
    simp only [pyMin_eq_min]
    exact max_le (le_trans (min_le_right _ _) (le_max_left _ _)) (le_max_right _ _)
  · rename_i hn
    obtain ⟨g1, g2, g3, g4, g5, _⟩ := reconcile_fields s1
    refine ⟨g2, g1, g3, g4, g5, ?_⟩
    intro b hb
    rw [hn] at hb
    cases hb

/-- a bound that is not below the session's current maximum rate is the same as no bound
    (in particular every bound ≥ the EVSE's maximum pilot after `enforce_pilot_limit`, and `inf`) -/
theorem applyUpperBoundFn_inert (est : Session K → Option K) (l : List (Session K))
    (h : ∀ s ∈ l, ∀ b, est s = some b → s.maxRate ≤ b) :
    applyUpperBoundFn est l = applyUpperBoundFn (fun _ => none) l := by
  unfold applyUpperBoundFn
  apply List.map_congr_left
  intro s hs
  cases hb : est s with
  | none => rfl
  | some b =>
    simp only
    have : pyMin s.maxRate b = s.maxRate := by
      simp only [pyMin_eq_min]; exact min_eq_left (h s hs b hb)
    rw [this]

/-! ### `run_preprocessing`, any estimator -/

theorem estInput_spec (infra : Infra K) (period : K) (l : List (Session K)) :
    ∀ s ∈ estInput infra period l, ∃ s0 ∈ l,
      s = { s0 with maxRate := pyMin s0.maxRate (infra.maxPilot.getD s0.idx 0) } := by
  intro s hs
  unfold estInput enforcePilotLimit at hs
  obtain ⟨s0, h0, rfl⟩ := List.mem_map.mp hs
  unfold removeFinished at h0
  exact ⟨s0, (List.mem_filter.mp h0).1, rfl⟩

/-- `enforce_pilot_limit` comes FIRST: every session the estimator is handed (and whose `max_rates`
    its bound is then `min`-ed into) already has `max_rates ≤ max_pilot` of its EVSE -/
theorem estInput_le_maxPilot (infra : Infra K) (period : K) (l : List (Session K)) :
    ∀ s ∈ estInput infra period l, s.maxRate ≤ infra.maxPilot.getD s.idx 0 := by
  intro s hs
  obtain ⟨s0, _, rfl⟩ := estInput_spec infra period l s hs
  simp only [pyMin_eq_min]
  exact min_le_right _ _

theorem estInput_idx_nodup (infra : Infra K) (period : K) (l : List (Session K))
    (hnd : (l.map (·.idx)).Nodup) : ((estInput infra period l).map (·.idx)).Nodup := by
  unfold estInput enforcePilotLimit
  rw [List.map_map]
  have : ((fun s : Session K => s.idx) ∘ fun s : Session K =>
      ({ s with maxRate := pyMin s.maxRate (infra.maxPilot.getD s.idx 0) } : Session K)) =
      fun s => s.idx := rfl
  rw [this]
  unfold removeFinished
  exact hnd.sublist (List.filter_sublist.map _)

/-- what preprocessing does to a session for ANY estimator: identity fields kept, bounds within
    those of the estimator-free preprocessing (`DerivedW`, `Lemmas/SortedRdLink.lean`) -/
theorem preprocessEst_derivedW (feas : List K → Bool) (cfg : Config K) (infra : Infra K) (period : K)
    (est : List (Session K) → Session K → Option K) (l : List (Session K)) :
    ∀ s ∈ preprocessEst feas cfg infra period est l, ∃ s0 ∈ l, DerivedW infra period s0 s := by
  have h1 := estInput_spec infra period l
  unfold preprocessEst
  simp only
  intro s hs
  by_cases hest : cfg.estimate = true <;> by_cases hun : cfg.uninterrupted = true <;>
    simp only [hest, hun, if_true, if_false, Bool.false_eq_true] at hs
  · obtain ⟨s2, hs2, hrel⟩ := forall₂_mem_right (applyMinimumRate_rel feas infra period _) s hs
    rw [mem_sortBy] at hs2
    obtain ⟨s1, hs1, hub⟩ := applyUpperBoundFn_ubRel _ _ s2 hs2
    obtain ⟨s0, h0, rfl⟩ := h1 s1 hs1
    exact ⟨s0, h0, derivedW_of_minRel infra period s0 s2 s hub hrel⟩
  · obtain ⟨s1, hs1, hub⟩ := applyUpperBoundFn_ubRel _ _ s hs
    obtain ⟨s0, h0, rfl⟩ := h1 s1 hs1
    exact ⟨s0, h0, derivedW_of_ubRel infra period s0 s hub⟩
  · obtain ⟨s1, hs1, hrel⟩ := forall₂_mem_right (applyMinimumRate_rel feas infra period _) s hs
    rw [mem_sortBy] at hs1
    obtain ⟨s0, h0, rfl⟩ := h1 s1 hs1
    exact ⟨s0, h0, derivedW_of_minRel infra period s0 _ s (ubRel_refl _) hrel⟩
  · obtain ⟨s0, h0, rfl⟩ := h1 s hs
    exact ⟨s0, h0, derivedW_of_ubRel infra period s0 _ (ubRel_refl _)⟩

/-- station indices stay pairwise distinct through preprocessing (ANY options, ANY estimator) -/
theorem preprocessEst_idx_nodup (feas : List K → Bool) (cfg : Config K) (infra : Infra K) (period : K)
    (est : List (Session K) → Session K → Option K) (l : List (Session K))
    (hnd : (l.map (·.idx)).Nodup) :
    ((preprocessEst feas cfg infra period est l).map (·.idx)).Nodup := by
  have h1 := estInput_idx_nodup infra period l hnd
  have hmin : ∀ l2 : List (Session K), (l2.map (·.idx)).Nodup →
      ((applyMinimumRate feas infra period l2).map (·.idx)).Nodup := by
    intro l2 h2
    rw [minRel_map_idx infra period _ _ (applyMinimumRate_rel feas infra period _)]
    have hp2 := (sortBy_perm (fun a b : Session K => decide (a.remainingTime < b.remainingTime))
      l2).map (fun s : Session K => s.idx)
    rw [hp2.nodup_iff]
    exact h2
  unfold preprocessEst
  simp only
  by_cases hest : cfg.estimate = true <;> by_cases hun : cfg.uninterrupted = true <;>
    simp only [hest, hun, if_true, if_false, Bool.false_eq_true]
  · exact hmin _ (by rw [applyUpperBoundFn_map_idx]; exact h1)
  · rw [applyUpperBoundFn_map_idx]; exact h1
  · exact hmin _ h1
  · exact h1

theorem order_idx_nodup_est (feas : List K → Bool) (cfg : Config K) (infra : Infra K) (period : K)
    (time : Int) (est : List (Session K) → Session K → Option K) (l : List (Session K))
    (hnd : (l.map (·.idx)).Nodup) :
    ((sortSessions cfg.sort infra period time
      (preprocessEst feas cfg infra period est l)).map (·.idx)).Nodup := by
  have hperm := (sortBy_perm (sortLt cfg.sort infra period time)
    (preprocessEst feas cfg infra period est l)).map (·.idx)
  unfold sortSessions
  rw [hperm.nodup_iff]
  exact preprocessEst_idx_nodup feas cfg infra period est l hnd

/-- `lb_mem_allowable` for ANY estimator: the estimator never touches `min_rates` -/
theorem preprocessEst_lbOk (feas : List K → Bool) (cfg : Config K) (infra : Infra K) (period : K)
    (est : List (Session K) → Session K → Option K) (l : List (Session K))
    (hinf : InfraOk infra) (hmin : ∀ s ∈ l, s.minRate ≤ 0) :
    ∀ s ∈ preprocessEst feas cfg infra period est l, LbOk infra period s := by
  have h1 : ∀ s ∈ estInput infra period l, s.minRate ≤ 0 := by
    intro s hs
    obtain ⟨s0, h0, rfl⟩ := estInput_spec infra period l s hs
    exact hmin s0 h0
  have hzero : ∀ s : Session K, s.minRate ≤ 0 → LbOk infra period s := by
    intro s hs; right; left; unfold lbOf; simp [hs]
  unfold preprocessEst
  simp only
  intro s hs
  by_cases hest : cfg.estimate = true <;> by_cases hun : cfg.uninterrupted = true <;>
    simp only [hest, hun, if_true, if_false, Bool.false_eq_true] at hs
  · obtain ⟨s1, hs1, hrel⟩ := forall₂_mem_right (applyMinimumRate_rel feas infra period _) s hs
    rw [mem_sortBy] at hs1
    obtain ⟨s0, h0, _, _, hm, _⟩ := applyUpperBoundFn_le _ _ s1 hs1
    exact minRel_lbOk infra period hinf s1 s hrel (by rw [hm]; exact h1 s0 h0)
  · obtain ⟨s0, h0, _, _, hm, _⟩ := applyUpperBoundFn_le _ _ s hs
    exact hzero s (by rw [hm]; exact h1 s0 h0)
  · obtain ⟨s1, hs1, hrel⟩ := forall₂_mem_right (applyMinimumRate_rel feas infra period _) s hs
    rw [mem_sortBy] at hs1
    exact minRel_lbOk infra period hinf s1 s hrel (h1 s1 hs1)
  · exact hzero s (h1 s hs)

/-- `MinRel` keeps the estimator inequality — for ANY bound (negative ones too: a refused session
    has both bounds 0) -/
theorem minRel_le_any (infra : Infra K) (period : K) (s s' : Session K) (b : K)
    (h : MinRel infra period s s') (hb : s.maxRate ≤ max b s.minRate) :
    s'.maxRate ≤ max b s'.minRate := by
  rcases h with rfl | ⟨_, rfl⟩
  · exact le_max_right _ _
  · obtain ⟨_, _, h3, _, _, h6⟩ :=
      reconcile_fields ({ s with minRate := pyMax (infra.minPilot.getD s.idx 0) s.minRate } : Session K)
    rw [h6, h3]
    simp only [pyMax_eq_max]
    refine max_le (le_trans hb (max_le (le_max_left _ _) ?_)) (le_max_right _ _)
    exact le_trans (le_max_right _ _) (le_max_right _ _)

theorem minRel_idx (infra : Infra K) (period : K) (s s' : Session K)
    (h : MinRel infra period s s') : s'.idx = s.idx := by
  rcases h with rfl | ⟨_, rfl⟩
  · rfl
  · exact (reconcile_fields _).1

/-- `le_estimator_bound` for ANY estimator: after `run_preprocessing` every session's max rate is at
    most the bound the estimator gave for the session it was handed (same session id, same station),
    unless the session's lower bound is larger.  No hypothesis on the bounds. -/
theorem preprocessEst_bound (feas : List K → Bool) (cfg : Config K) (infra : Infra K) (period : K)
    (est : List (Session K) → Session K → Option K) (l : List (Session K))
    (hest : cfg.estimate = true) :
    ∀ s ∈ preprocessEst feas cfg infra period est l, ∃ s1 ∈ estInput infra period l,
      s.session = s1.session ∧ s.idx = s1.idx ∧
      ∀ b, est (estInput infra period l) s1 = some b → s.maxRate ≤ max b (lbOf s) := by
  unfold preprocessEst
  simp only [hest, if_true]
  intro s hs
  have hlb : s.minRate ≤ lbOf s := by unfold lbOf; simp
  split at hs
  · obtain ⟨s2, hs2, hrel⟩ := forall₂_mem_right (applyMinimumRate_rel feas infra period _) s hs
    rw [mem_sortBy] at hs2
    obtain ⟨s1, hs1, e1, e2, _, _, _, hle⟩ := applyUpperBoundFn_le _ _ s2 hs2
    refine ⟨s1, hs1, (minRel_session infra period s2 s hrel).trans e1,
      (minRel_idx infra period s2 s hrel).trans e2, fun b hb => ?_⟩
    exact le_trans (minRel_le_any infra period s2 s b hrel (hle b hb)) (max_le_max (le_refl _) hlb)
  · obtain ⟨s1, hs1, e1, e2, _, _, _, hle⟩ := applyUpperBoundFn_le _ _ s hs
    exact ⟨s1, hs1, e1, e2, fun b hb => le_trans (hle b hb) (max_le_max (le_refl _) hlb)⟩

/-- the lower bound after preprocessing is 0, or — only with `uninterrupted_charging` — the EVSE's
    minimum pilot (sessions enter with `min_rates ≤ 0`, minimum pilots are non-negative) -/
theorem preprocessEst_lb (feas : List K → Bool) (cfg : Config K) (infra : Infra K) (period : K)
    (est : List (Session K) → Session K → Option K) (l : List (Session K))
    (hmp : ∀ i, 0 ≤ infra.minPilot.getD i 0) (hmin : ∀ s ∈ l, s.minRate ≤ 0) :
    ∀ s ∈ preprocessEst feas cfg infra period est l,
      lbOf s = 0 ∨ (cfg.uninterrupted = true ∧ lbOf s = infra.minPilot.getD s.idx 0) := by
  have h1 : ∀ s ∈ estInput infra period l, s.minRate ≤ 0 := by
    intro s hs
    obtain ⟨s0, h0, rfl⟩ := estInput_spec infra period l s hs
    exact hmin s0 h0
  have hzero : ∀ s : Session K, s.minRate ≤ 0 → lbOf s = 0 := by
    intro s hs; unfold lbOf; simp [hs]
  have hrel : ∀ s2 s : Session K, s2.minRate ≤ 0 → MinRel infra period s2 s →
      lbOf s = 0 ∨ lbOf s = infra.minPilot.getD s.idx 0 := by
    intro s2 s h2 hr
    rcases hr with rfl | ⟨_, rfl⟩
    · left; simp [lbOf]
    · right
      obtain ⟨g1, _, g3, _⟩ :=
        reconcile_fields ({ s2 with minRate := pyMax (infra.minPilot.getD s2.idx 0) s2.minRate } : Session K)
      unfold lbOf
      rw [g3, g1]
      simp only [pyMax_eq_max]
      rw [max_eq_left (le_trans h2 (hmp _)), max_eq_right (hmp _)]
  unfold preprocessEst
  simp only
  intro s hs
  by_cases hest : cfg.estimate = true <;> by_cases hun : cfg.uninterrupted = true <;>
    simp only [hest, hun, if_true, if_false, Bool.false_eq_true] at hs
  · obtain ⟨s2, hs2, hr⟩ := forall₂_mem_right (applyMinimumRate_rel feas infra period _) s hs
    rw [mem_sortBy] at hs2
    obtain ⟨s1, hs1, _, _, hm, _⟩ := applyUpperBoundFn_le _ _ s2 hs2
    rcases hrel s2 s (by rw [hm]; exact h1 s1 hs1) hr with h | h
    · exact Or.inl h
    · exact Or.inr ⟨hun, h⟩
  · obtain ⟨s1, hs1, _, _, hm, _⟩ := applyUpperBoundFn_le _ _ s hs
    exact Or.inl (hzero s (by rw [hm]; exact h1 s1 hs1))
  · obtain ⟨s2, hs2, hr⟩ := forall₂_mem_right (applyMinimumRate_rel feas infra period _) s hs
    rw [mem_sortBy] at hs2
    rcases hrel s2 s (h1 s2 hs2) hr with h | h
    · exact Or.inl h
    · exact Or.inr ⟨hun, h⟩
  · exact Or.inl (hzero s (h1 s hs))

/-- bounds at or above the EVSE's maximum pilot (and absent keys) are the same as no estimator
    answer at all -/
theorem preprocessEst_inert (feas : List K → Bool) (cfg : Config K) (infra : Infra K) (period : K)
    (est : List (Session K) → Session K → Option K) (l : List (Session K))
    (h : ∀ s ∈ estInput infra period l, ∀ b, est (estInput infra period l) s = some b →
      infra.maxPilot.getD s.idx 0 ≤ b) :
    preprocessEst feas cfg infra period est l =
      preprocessEst feas cfg infra period (fun _ _ => none) l := by
  unfold preprocessEst
  simp only
  rw [applyUpperBoundFn_inert (est (estInput infra period l)) (estInput infra period l)
    (fun s hs b hb => le_trans (estInput_le_maxPilot infra period l s hs) (h s hs b hb))]

/-! ### the rampdown model of `Sorted.lean` is an instance -/

/-- `Sorted.applyUpperBound` is `applyUpperBoundFn` with the dict looked up by session id -/
theorem applyUpperBound_eq_fn (bounds : List (String × K)) (l : List (Session K)) :
    applyUpperBound bounds l = applyUpperBoundFn (estOfDict bounds) l := rfl

/-- `Sorted.preprocess` (the `SimpleRampdown` model) IS `preprocessEst` with the estimator
    "the rampdown dict after its update on the sessions handed over" -/
theorem preprocess_eq_preprocessEst (feas : List K → Bool) (cfg : Config K) (infra : Infra K)
    (period : K) (prev : String → Option (K × K)) (rd : Rampdown K) (l : List (Session K)) :
    (preprocess feas cfg infra period prev rd l).1 =
      preprocessEst feas cfg infra period
        (fun l1 => estOfDict (rampdownCall infra prev rd l1).bounds) l := by
  unfold preprocess preprocessEst estInput
  simp only
  cases cfg.estimate <;> cases cfg.uninterrupted <;> simp [applyUpperBound_eq_fn]

theorem scheduleCall_eq_scheduleCallEst [HasCeilNat K] (feas : List K → Bool) (cfg : Config K)
    (infra : Infra K) (period : K) (time : Int) (prev : String → Option (K × K)) (rd : Rampdown K)
    (raw : List (Session K)) :
    (scheduleCall feas cfg infra period time prev rd raw).result =
      (scheduleCallEst feas cfg infra period time
        (fun l1 => estOfDict (rampdownCall infra prev rd l1).bounds) raw).result ∧
    (scheduleCall feas cfg infra period time prev rd raw).pre =
      (scheduleCallEst feas cfg infra period time
        (fun l1 => estOfDict (rampdownCall infra prev rd l1).bounds) raw).pre ∧
    (scheduleCall feas cfg infra period time prev rd raw).order =
      (scheduleCallEst feas cfg infra period time
        (fun l1 => estOfDict (rampdownCall infra prev rd l1).bounds) raw).order ∧
    (scheduleCall feas cfg infra period time prev rd raw).trace =
      (scheduleCallEst feas cfg infra period time
        (fun l1 => estOfDict (rampdownCall infra prev rd l1).bounds) raw).trace ∧
    (scheduleCall feas cfg infra period time prev rd raw).queueLeft =
      (scheduleCallEst feas cfg infra period time
        (fun l1 => estOfDict (rampdownCall infra prev rd l1).bounds) raw).queueLeft := by
  unfold scheduleCall scheduleCallEst
  cases hres : resolve infra raw with
  | error e => simp
  | ok l =>
    simp only
    have hp := preprocess_eq_preprocessEst feas cfg infra period prev rd l
    rw [← hp]
    cases cfg.algo with
    | greedy => simp
    | roundRobin =>
      simp only
      cases roundRobin feas (rrLevels infra period cfg.inc) infra
        (sortSessions cfg.sort infra period time (preprocess feas cfg infra period prev rd l).1) with
      | error e => simp
      | ok st => simp

end
end Acn.Sorted
