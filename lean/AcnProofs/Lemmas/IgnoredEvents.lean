/-
  Helper lemmas for C05 (4/4): `run()` over a queue that also holds events of ignored types
  (`AcnModel/Ignored.lean`).

  * the loop of `run()` under ANY continuation test `g` (`runG`): its core projection, its views, its
    insensitivity to what the scheduler does off the handed views — the proofs of `run_core`,
    `run_invoked_views`, `run_congr` never look at the test;
  * for a valid scenario and ignored events that are not late: the loop goes on exactly while
    `t < horizonI` (`guardI_iff`), every trip keeps sim-core's invariant, so the run is `horizonI` clean
    trips long (`runI_spec`).
-/
import AcnProofs.Lemmas.SchedView

namespace Acn.EventCore
open Acn

/-- one past the largest ignored timestamp (0 when there is none) -/
def ignoredHorizon (ign : List Int) : Nat := (ign.foldr max (-1) + 1).toNat

/-- the number of periods of a run over known and ignored events -/
def horizonI (cfg : Cfg) (ign : List Int) : Nat := max (horizon cfg) (ignoredHorizon ign)

section
variable {cfg : Cfg}

theorem ignoredPending_iff {ign : List Int} (h0 : ∀ ts ∈ ign, 0 ≤ ts) (t : Nat) :
    ignoredPending ign t = true ↔ t < ignoredHorizon ign := by
  unfold ignoredPending ignoredHorizon
  rw [List.any_eq_true]
  constructor
  · rintro ⟨ts, hts, h⟩
    have hle := le_foldr_max (b := -1) hts
    have h0' := h0 ts hts
    simp only [Bool.or_eq_true, beq_iff_eq, decide_eq_true_eq] at h
    rcases h with h | h
    · subst h; omega
    · omega
  · intro h
    rcases foldr_max_mem ign (-1) with hm | hm
    · rw [hm] at h; simp at h
    · exact ⟨_, hm, by simp only [Bool.or_eq_true, beq_iff_eq, decide_eq_true_eq]; right; omega⟩

/-- valid scenario, loop head of period `t`, ignored events not late: the loop goes on iff `t < horizonI` -/
theorem guardI_iff (hv : Valid cfg) {ign : List Int} (h0 : ∀ ts ∈ ign, 0 ≤ ts) {t : Nat} {c : Core}
    (hI : Inv cfg t c) : guardI ign c = true ↔ t < horizonI cfg ign := by
  unfold guardI horizonI
  rw [Bool.or_eq_true, hI.iter, ignoredPending_iff h0]
  have hg : guard c = true ↔ t < horizon cfg := by
    rw [← pending_ne_nil_iff hv hI]
    unfold guard
    rw [hI.resolve]
    cases c.pending <;> simp
  rw [hg]
  omega

/-- the whole run over known + ignored events, parameters that do not fail: `min (t+n) horizonI` clean
    trips, each keeping sim-core's invariant -/
theorem runI_spec (hv : Valid cfg) {ign : List Int} (h0 : ∀ ts ∈ ign, 0 ≤ ts) {sched apply : Core → Option Err}
    (hs : ∀ c, sched c = none) (ha : ∀ c, apply c = none) :
    ∀ (n t : Nat) (c : Core), Inv cfg t c → t ≤ horizonI cfg ign →
      ∃ c', runI cfg sched apply ign n c = (c', none) ∧ Inv cfg (min (t + n) (horizonI cfg ign)) c' := by
  intro n
  induction n with
  | zero =>
    intro t c hI ht
    exact ⟨c, rfl, by simpa [Nat.min_eq_left ht] using hI⟩
  | succ n ih =>
    intro t c hI ht
    rcases Nat.lt_or_ge t (horizonI cfg ign) with hlt | hge
    · have hg := (guardI_iff hv h0 hI).2 hlt
      obtain ⟨c1, hb, hI1⟩ := body_ok hv hs ha hI
      obtain ⟨c', hr, hI'⟩ := ih (t + 1) c1 hI1 hlt
      refine ⟨c', ?_, by rwa [show t + (n + 1) = t + 1 + n by omega]⟩
      unfold runI at hr ⊢
      simp only [runG, hg, if_true, hb]
      exact hr
    · have hte : t = horizonI cfg ign := le_antisymm ht hge
      have hg : guardI ign c = false := by
        rcases hgb : guardI ign c with _ | _
        · rfl
        · exact absurd ((guardI_iff hv h0 hI).1 hgb) (by omega)
      refine ⟨c, by simp [runI, runG, hg], ?_⟩
      rw [Nat.min_eq_right (by omega)]
      exact hte ▸ hI

theorem horizon_le_horizonI (cfg : Cfg) (ign : List Int) : horizon cfg ≤ horizonI cfg ign := Nat.le_max_left _ _

theorem horizonI_nil (cfg : Cfg) : horizonI cfg [] = horizon cfg := by
  simp [horizonI, ignoredHorizon]

/-- the fuel the compiled driver uses covers the run -/
theorem horizonI_le_fuelForI (cfg : Cfg) (ign : List Int) : horizonI cfg ign ≤ fuelForI cfg ign := by
  unfold horizonI fuelForI
  have h1 := horizon_le_fuelFor cfg
  have h2 : ignoredHorizon ign ≤ (ign.foldl max 0).toNat + 3 := by
    unfold ignoredHorizon
    rcases foldr_max_mem ign (-1) with hm | hm
    · rw [hm]; simp
    · have := le_foldl_max ign 0 _ (Or.inl hm)
      omega
  omega

end
end Acn.EventCore

namespace Acn.Sim
open Acn Acn.EventCore

set_option linter.unusedSectionVars false

variable {K : Type} [Add K] [Sub K] [Mul K] [Div K] [Neg K] [LT K] [LE K]
  [DecidableLT K] [DecidableLE K] [OfNat K 0] [OfNat K 1] [NatCast K] [HasExp K]

/-- PROJECTION for the whole run, any continuation test -/
theorem runG_core (g : Core → Bool) (cfg : Cfg K) (sched : View K → Except Err (Schedule K)) :
    ∀ (n : Nat) (s : State K), (runG g cfg sched n s).2 = none →
      EventCore.runG g cfg.core noFail noFail n s.core = ((runG g cfg sched n s).1.core, none) := by
  intro n
  induction n with
  | zero => intro s _; rfl
  | succ n ih =>
    intro s h
    unfold runG at h ⊢
    unfold EventCore.runG
    by_cases hg : g s.core = true
    · simp only [hg, if_true] at h ⊢
      rcases hb : body cfg sched s with ⟨s', _ | e⟩
      · have hb2 : (body cfg sched s).2 = none := by rw [hb]
        have := body_core cfg sched s hb2
        rw [hb] at this
        simp only [hb] at h ⊢
        rw [this]
        exact ih s' h
      · simp [hb] at h
    · simp only [hg] at h ⊢
      rfl

/-- along a run that raises nothing the recorded views are, in order, one per invocation -/
theorem runG_invoked_views (g : Core → Bool) (cfg : Cfg K) (sched : View K → Except Err (Schedule K)) :
    ∀ (n : Nat) (s s' : State K), runG g cfg sched n s = (s', none) →
      s'.core.invoked = s.core.invoked ++ (runViewsG g cfg sched n s).map (·.iter) := by
  intro n
  induction n with
  | zero =>
    intro s s' h
    simp only [runG, Prod.mk.injEq, and_true] at h
    subst h
    simp [runViewsG]
  | succ n ih =>
    intro s s' h
    unfold runG at h
    unfold runViewsG
    by_cases hg : g s.core = true
    · rw [if_pos hg] at h
      rw [if_pos hg]
      rcases hb : body cfg sched s with ⟨s1, _ | e⟩
      · rw [hb] at h
        simp only at h ⊢
        rw [ih s1 s' h, body_invoked cfg sched s s1 hb]
        simp
      · rw [hb] at h; simp at h
    · rw [if_neg hg] at h
      rw [if_neg hg]
      simp only [Prod.mk.injEq, and_true] at h
      subst h
      simp

/-- two schedulers that answer alike on every view handed out produce the same run and are handed
    the same views, whatever keeps the loop going -/
theorem runG_congr (g : Core → Bool) (cfg : Cfg K) (sched sched' : View K → Except Err (Schedule K)) :
    ∀ (n : Nat) (s : State K), (∀ v ∈ runViewsG g cfg sched n s, sched v = sched' v) →
      runG g cfg sched' n s = runG g cfg sched n s ∧ runViewsG g cfg sched' n s = runViewsG g cfg sched n s := by
  intro n
  induction n with
  | zero => intro s _; exact ⟨rfl, rfl⟩
  | succ n ih =>
    intro s h
    unfold runG runViewsG
    unfold runViewsG at h
    by_cases hg : g s.core = true
    · rw [if_pos hg] at h
      simp only [if_pos hg]
      have hb : body cfg sched s = body cfg sched' s := by
        apply body_congr
        intro v hv
        apply h
        rcases body cfg sched s with ⟨s1, _ | e⟩ <;> simp [hv]
      rw [← hb]
      rcases hbb : body cfg sched s with ⟨s1, _ | e⟩
      · rw [hbb] at h
        simp only at h ⊢
        have := ih s1 (fun v hv => h v (by simp [hv]))
        exact ⟨this.1, by rw [this.2]⟩
      · exact ⟨rfl, rfl⟩
    · simp [if_neg hg]

end Acn.Sim
