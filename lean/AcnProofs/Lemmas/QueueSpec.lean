/-
  Helper lemmas for C11, spec layer: what the relation `QSpec.Step` / `QSpec.Cur` implies.
-/
import AcnModel.Queue
import AcnProofs.Lemmas.QueueOrder
import Mathlib.Tactic

namespace Acn

/-- `a ≤ b` on keys -/
abbrev KeyLe (a b : Event) : Prop := b.keyLt a = false

namespace QSpec

theorem filter_erase_of_false (p : Event → Bool) (q : List Event) (e : Event) (hp : p e = false) :
    (q.erase e).filter p = q.filter p := by
  induction q with
  | nil => simp
  | cons x xs ih =>
    by_cases hx : x = e
    · subst hx; simp [hp]
    · rw [List.erase_cons_tail (by simpa using hx)]
      simp only [List.filter_cons, ih]

theorem IsMin.ts_le {q : List Event} {e : Event} (h : IsMin q e) : ∀ x ∈ q, e.ts ≤ x.ts :=
  fun x hx => ts_le_of_keyLe (h.2 x hx)

/-- `get_current_events(t)` returns exactly the pending events with `ts ≤ t`, sorted by key,
    and leaves exactly the others (in their insertion order) -/
theorem Cur.spec {t : Int} {q es q' : List Event} (h : Cur t q es q') :
    es.Perm (q.filter (fun e => decide (e.ts ≤ t))) ∧ es.Pairwise KeyLe ∧
    q' = q.filter (fun e => !decide (e.ts ≤ t)) := by
  induction h with
  | stopEmpty => simp
  | @stopLater q e hmin hlt =>
    have hall : ∀ x ∈ q, t < x.ts := fun x hx => lt_of_lt_of_le hlt (IsMin.ts_le hmin x hx)
    refine ⟨?_, List.Pairwise.nil, ?_⟩
    · rw [List.filter_eq_nil_iff.mpr]
      intro x hx; simp; exact hall x hx
    · symm; rw [List.filter_eq_self]
      intro x hx; simp; exact hall x hx
  | @pop q e es q' hmin hle _ ih =>
    obtain ⟨ih1, ih2, ih3⟩ := ih
    refine ⟨?_, ?_, ?_⟩
    · have hp : q.Perm (e :: q.erase e) := List.perm_cons_erase hmin.1
      have := hp.filter (fun e => decide (e.ts ≤ t))
      refine List.Perm.trans ?_ this.symm
      rw [List.filter_cons_of_pos (by simpa using hle)]
      exact List.Perm.cons _ ih1
    · rw [List.pairwise_cons]
      refine ⟨?_, ih2⟩
      intro x hx
      have : x ∈ q.erase e := by
        have := (ih1.subset hx); exact (List.mem_filter.mp this).1
      exact hmin.2 x (List.mem_of_mem_erase this)
    · rw [ih3]; exact filter_erase_of_false _ q e (by simpa using hle)

theorem Cur.subset_left {t : Int} {q es q' : List Event} (h : Cur t q es q') : ∀ x ∈ es, x ∈ q :=
  fun x hx => (List.mem_filter.mp (h.spec.1.subset hx)).1

theorem Cur.ts_le {t : Int} {q es q' : List Event} (h : Cur t q es q') : ∀ x ∈ es, x.ts ≤ t := by
  intro x hx; simpa using (List.mem_filter.mp (h.spec.1.subset hx)).2

theorem Cur.rest {t : Int} {q es q' : List Event} (h : Cur t q es q') :
    ∀ x ∈ q', x ∈ q ∧ t < x.ts := by
  intro x hx; rw [h.spec.2.2] at hx
  have := List.mem_filter.mp hx
  exact ⟨this.1, by simpa using this.2⟩

end QSpec

/-! ### `get_last_timestamp` -/

theorem lastTs_fold (xs : List Event) (init : Int) :
    (xs.foldl (fun best y => if best < y.ts then y.ts else best) init = init ∨
      ∃ x ∈ xs, xs.foldl (fun best y => if best < y.ts then y.ts else best) init = x.ts) ∧
    init ≤ xs.foldl (fun best y => if best < y.ts then y.ts else best) init ∧
    ∀ x ∈ xs, x.ts ≤ xs.foldl (fun best y => if best < y.ts then y.ts else best) init := by
  induction xs generalizing init with
  | nil => simp
  | cons y ys ih =>
    simp only [List.foldl_cons]
    obtain ⟨h1, h2, h3⟩ := ih (if init < y.ts then y.ts else init)
    refine ⟨?_, ?_, ?_⟩
    · rcases h1 with h1 | ⟨x, hx, h1⟩
      · by_cases hc : init < y.ts
        · right; exact ⟨y, by simp, by rw [h1, if_pos hc]⟩
        · left; rw [h1, if_neg hc]
      · right; exact ⟨x, List.mem_cons_of_mem _ hx, h1⟩
    · refine le_trans ?_ h2; split <;> omega
    · intro x hx
      rcases List.mem_cons.mp hx with rfl | hx
      · refine le_trans ?_ h2; split <;> omega
      · exact h3 x hx

/-- `get_last_timestamp()` is the maximum timestamp of the pending events, `None` iff empty -/
theorem lastTsList_spec (q : List Event) :
    (lastTsList q = none ↔ q = []) ∧
    ∀ m, lastTsList q = some m ↔ (∃ x ∈ q, x.ts = m) ∧ ∀ x ∈ q, x.ts ≤ m := by
  cases q with
  | nil => simp [lastTsList]
  | cons x xs =>
    obtain ⟨h1, h2, h3⟩ := lastTs_fold xs x.ts
    refine ⟨by simp [lastTsList], fun m => ?_⟩
    simp only [lastTsList, Option.some.injEq]
    constructor
    · rintro rfl
      refine ⟨?_, ?_⟩
      · rcases h1 with h1 | ⟨y, hy, h1⟩
        · exact ⟨x, by simp, h1.symm⟩
        · exact ⟨y, List.mem_cons_of_mem _ hy, h1.symm⟩
      · intro y hy
        rcases List.mem_cons.mp hy with rfl | hy
        · exact h2
        · exact h3 y hy
    · rintro ⟨⟨y, hy, rfl⟩, hmax⟩
      apply le_antisymm
      · rcases h1 with h1 | ⟨z, hz, h1⟩
        · rw [h1]; exact hmax x (by simp)
        · rw [h1]; exact hmax z (List.mem_cons_of_mem _ hz)
      · rcases List.mem_cons.mp hy with rfl | hy
        · exact h2
        · exact h3 y hy

theorem lastTsList_perm {q q' : List Event} (h : q.Perm q') : lastTsList q = lastTsList q' := by
  cases hq : lastTsList q with
  | none =>
    have := ((lastTsList_spec q).1.mp hq); subst this
    have := List.nil_perm.mp h; subst this; rfl
  | some m =>
    symm
    rw [(lastTsList_spec q').2 m]
    obtain ⟨⟨x, hx, hxm⟩, hmax⟩ := ((lastTsList_spec q).2 m).mp hq
    exact ⟨⟨x, h.subset hx, hxm⟩, fun y hy => hmax y (h.symm.subset hy)⟩

end Acn
