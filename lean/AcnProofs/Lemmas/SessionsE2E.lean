/-
  Helper lemmas for the end-to-end theorem of C15 (client of C20 ∘ converter of C15):
  * `collect` on a finite page chain that ended normally: one converted item per server item,
    in server order, for ANY conversion (no totality assumed);
  * reading fields off a document converted by `parse_dates` (`DocOk` of `Lemmas/DataClient`);
  * what a successful `convRaw` means.
-/
import AcnModel.SessionsE2E
import AcnProofs.Lemmas.DataClient
import AcnProofs.Lemmas.Sessions
import AcnProofs.C20

set_option linter.unusedSectionVars false

namespace Acn.SessionsE2E
open Acn Acn.HttpDate Acn.DataClient Acn.Sessions Acn.Evse Acn.SessionsL

section collect
variable {α β : Type}

theorem yieldAll_none (conv : α → Except DataClient.Err β) :
    ∀ (l : List α) (bs : List β), yieldAll conv l = (bs, none) →
      List.Forall₂ (fun a b => conv a = .ok b) l bs := by
  intro l
  induction l with
  | nil => intro bs h; simp [yieldAll] at h; subst h; exact .nil
  | cons a as ih =>
    intro bs h
    unfold yieldAll at h
    split at h
    · simp at h
    · rename_i b hb
      simp only [Prod.mk.injEq] at h
      obtain ⟨h1, h2⟩ := h
      subst h1
      exact .cons hb (ih _ (Prod.ext rfl h2))

/-- whenever the generator ran through a finite chain and ended normally, it requested exactly the
    chain's URLs and produced exactly one converted item per server item, in server order -/
theorem collect_ok_forall₂ {base : String} {fetch : String → Resp α}
    (conv : α → Except DataClient.Err β) {u : String} {ps : List (Page α)}
    (h : Chain base fetch u ps) :
    ∀ (fuel : Nat) (tr : Trace β), collect base fetch conv fuel u = tr → tr.stop = none →
      tr.urls = runUrls base u ps ∧
      List.Forall₂ (fun a b => conv a = .ok b) (ps.flatMap (·.items)) tr.items := by
  unfold Chain at h
  generalize he : (none : Option DataClient.Err) = e at h
  induction h with
  | @last u p hf hn =>
    intro fuel tr htr hstop
    cases fuel with
    | zero => subst htr; simp [collect] at hstop
    | succ n =>
      rw [collect, hf] at htr
      simp only at htr
      split at htr
      · subst htr; simp at hstop
      · rename_i bs hy
        rw [hn] at htr
        subst htr
        refine ⟨by simp [runUrls, hn], ?_⟩
        simpa using yieldAll_none conv _ _ hy
  | broken hf hn => cases he
  | fail hf => cases he
  | @cons u hr p ps e hf hn _ ih =>
    subst he
    intro fuel tr htr hstop
    cases fuel with
    | zero => subst htr; simp [collect] at hstop
    | succ n =>
      rw [collect, hf] at htr
      simp only at htr
      split at htr
      · subst htr; simp at hstop
      · rename_i bs hy
        rw [hn] at htr
        simp only at htr
        subst htr
        simp only at hstop
        obtain ⟨h1, h2⟩ := ih rfl n _ rfl hstop
        refine ⟨by simp [runUrls, hn, h1], ?_⟩
        simp only [List.flatMap_cons]
        exact List.rel_append (yieldAll_none conv _ _ hy) h2

end collect

/-! ### fields of a document converted by `parse_dates` -/

theorem findField_cons (f : String × PVal) (pd : PDoc) (k : String) :
    findField (f :: pd) k = if f.1 == k then some f.2 else findField pd k := by
  unfold findField
  simp only [List.find?_cons]
  cases h : (f.1 == k) <;> simp

theorem lookupStr_cons (f : String × Val) (d : DataClient.Doc) (k : String) :
    lookupStr (f :: d) k = if f.1 == k then some f.2 else lookupStr d k := by
  unfold lookupStr
  simp only [List.find?_cons]
  cases h : (f.1 == k) <;> simp

/-- a field that `parse_dates` delivered as a datetime was an RFC-1123 string in the JSON document,
    and the datetime is that instant in the document's zone -/
theorem findField_date {off : Instant → Int} {d : DataClient.Doc} {pd : PDoc} (h : DocOk off d pd)
    (k : String) (a : Aware) (hk : findField pd k = some (.date a)) :
    ∃ s t, lookupStr d k = some (.str s) ∧ parseRfc1123 s = some t ∧ a = toZone off t := by
  induction h with
  | nil => simp [findField] at hk
  | @cons f g d pd hfg _ ih =>
    rw [findField_cons] at hk
    rw [lookupStr_cons]
    cases hfg with
    | @date k' s t hp =>
      simp only at hk ⊢
      split at hk
      · rename_i hkk
        rw [if_pos hkk]
        injection hk with hk; injection hk with hk
        exact ⟨s, t, rfl, hp, hk.symm⟩
      · rename_i hkk; rw [if_neg hkk]; exact ih hk
    | @keep k' s hp =>
      simp only at hk ⊢
      split at hk
      · simp at hk
      · rename_i hkk; rw [if_neg hkk]; exact ih hk
    | @stamps k' l ts hl =>
      simp only at hk ⊢
      split at hk
      · simp at hk
      · rename_i hkk; rw [if_neg hkk]; exact ih hk
    | @other k' =>
      simp only at hk ⊢
      split at hk
      · simp at hk
      · rename_i hkk; rw [if_neg hkk]; exact ih hk

/-- a field delivered as a string is the JSON document's string, and it is not an RFC-1123 date -/
theorem findField_str {off : Instant → Int} {d : DataClient.Doc} {pd : PDoc} (h : DocOk off d pd)
    (k : String) (s : String) (hk : findField pd k = some (.str s)) :
    lookupStr d k = some (.str s) ∧ parseRfc1123 s = none := by
  induction h with
  | nil => simp [findField] at hk
  | @cons f g d pd hfg _ ih =>
    rw [findField_cons] at hk
    rw [lookupStr_cons]
    cases hfg with
    | @date k' s' t hp =>
      simp only at hk ⊢
      split at hk
      · simp at hk
      · rename_i hkk; rw [if_neg hkk]; exact ih hk
    | @keep k' s' hp =>
      simp only at hk ⊢
      split at hk
      · rename_i hkk
        rw [if_pos hkk]
        injection hk with hk; injection hk with hk
        subst hk
        exact ⟨rfl, hp⟩
      · rename_i hkk; rw [if_neg hkk]; exact ih hk
    | @stamps k' l ts hl =>
      simp only at hk ⊢
      split at hk
      · simp at hk
      · rename_i hkk; rw [if_neg hkk]; exact ih hk
    | @other k' =>
      simp only at hk ⊢
      split at hk
      · simp at hk
      · rename_i hkk; rw [if_neg hkk]; exact ih hk

theorem dateField_ok {pd : PDoc} {k : String} {a : Aware} (h : dateField pd k = .ok a) :
    findField pd k = some (.date a) := by
  unfold dateField at h
  split at h
  · simp at h
  · injection h with h; subst h; assumption
  · simp at h

theorem strField_ok {pd : PDoc} {k : String} {s : String} (h : strField pd k = .ok s) :
    findField pd k = some (.str s) := by
  unfold strField at h
  split at h
  · simp at h
  · injection h with h; subst h; assumption
  · simp at h

/-! ### a successful conversion of a raw session -/

variable {K : Type} [Field K] [LinearOrder K] [IsStrictOrderedRing K] [FloorRing K]

/-- what the JSON document of a session says, as far as the converter is concerned -/
structure Denotes (zones : String → Option Zone) (r : RawSession K)
    (zname : String) (z : Zone) (sc : String) (tc : Instant) (sd : String) (td : Instant)
    (sid sp : String) : Prop where
  tz : lookupStr r.fields "timezone" = some (.str zname)
  zone : zones zname = some z
  conn : lookupStr r.fields "connectionTime" = some (.str sc)
  connT : parseRfc1123 sc = some tc
  disc : lookupStr r.fields "disconnectTime" = some (.str sd)
  discT : parseRfc1123 sd = some td
  sess : lookupStr r.fields "sessionID" = some (.str sid)
  space : lookupStr r.fields "spaceID" = some (.str sp)

theorem convRaw_ok {zones : String → Option Zone} {offset : Int} {period V mp : K}
    {maxLen : Option Int} {bp : BattParams K} {ff : Bool} {r : RawSession K} {e : Ev K}
    (h : convRaw zones offset period V mp maxLen bp ff r = .ok e) :
    ∃ zname z sc tc sd td sid sp, Denotes zones r zname z sc tc sd td sid sp ∧
      convertDoc { connect := ((tc : Int) : K), disconnect := ((td : Int) : K), kWh := r.kWh,
                   session := sid, space := sp } offset period V mp maxLen bp ff = .ok e := by
  unfold convRaw at h
  split at h
  · simp at h
  · rename_i pd hpd
    split at h
    · simp at h
    · rename_i doc hdoc
      split at h
      · simp at h
      · rename_i ev hev
        injection h with h
        subst h
        obtain ⟨zname, z, htz, hz, hok⟩ := C20.parse_dates_faithful zones r.fields pd hpd
        unfold toDoc at hdoc
        split at hdoc
        · simp at hdoc
        · rename_i c hc
          split at hdoc
          · simp at hdoc
          · rename_i dd hd
            split at hdoc
            · simp at hdoc
            · rename_i sid hsid
              split at hdoc
              · simp at hdoc
              · rename_i sp hsp
                injection hdoc with hdoc
                obtain ⟨sc, tc, h1, h2, h3⟩ := findField_date hok _ _ (dateField_ok hc)
                obtain ⟨sd, td, h4, h5, h6⟩ := findField_date hok _ _ (dateField_ok hd)
                obtain ⟨h7, -⟩ := findField_str hok _ _ (strField_ok hsid)
                obtain ⟨h8, -⟩ := findField_str hok _ _ (strField_ok hsp)
                refine ⟨zname, z, sc, tc, sd, td, sid, sp, ⟨htz, hz, h1, h2, h4, h5, h7, h8⟩, ?_⟩
                have e1 : c.instant = tc := by rw [h3]; exact (C20.same_instant z.off tc).1
                have e2 : dd.instant = td := by rw [h6]; exact (C20.same_instant z.off td).1
                rw [← hdoc, e1, e2] at hev
                exact hev


/-! ### totality: well-formed documents on a finite chain are all converted -/

section total
variable {α β : Type}

theorem yieldAll_total (conv : α → Except DataClient.Err β) :
    ∀ l : List α, (∀ a ∈ l, ∃ b, conv a = .ok b) → ∃ bs, yieldAll conv l = (bs, none) := by
  intro l
  induction l with
  | nil => intro _; exact ⟨[], rfl⟩
  | cons a as ih =>
    intro h
    obtain ⟨b, hb⟩ := h a List.mem_cons_self
    obtain ⟨bs, hbs⟩ := ih (fun x hx => h x (List.mem_cons_of_mem _ hx))
    exact ⟨b :: bs, by simp [yieldAll, hb, hbs]⟩

theorem collect_total {base : String} {fetch : String → Resp α}
    (conv : α → Except DataClient.Err β) {u : String} {ps : List (Page α)}
    (h : Chain base fetch u ps) :
    ∀ fuel : Nat, ps.length ≤ fuel → (∀ p ∈ ps, ∀ a ∈ p.items, ∃ b, conv a = .ok b) →
      (collect base fetch conv fuel u).stop = none := by
  unfold Chain at h
  generalize he : (none : Option DataClient.Err) = e at h
  induction h with
  | @last u p hf hn =>
    intro fuel hfuel hc
    cases fuel with
    | zero => simp at hfuel
    | succ n =>
      obtain ⟨bs, hy⟩ := yieldAll_total conv p.items (hc p (List.mem_singleton.mpr rfl))
      simp [collect, hf, hy, hn]
  | broken hf hn => cases he
  | fail hf => cases he
  | @cons u hr p ps e hf hn _ ih =>
    subst he
    intro fuel hfuel hc
    cases fuel with
    | zero => simp at hfuel
    | succ n =>
      obtain ⟨bs, hy⟩ := yieldAll_total conv p.items (hc p List.mem_cons_self)
      have := ih rfl n (by simpa using hfuel) (fun q hq => hc q (List.mem_cons_of_mem _ hq))
      simp [collect, hf, hy, hn, this]

end total

theorem parseStamps_total (off : Instant → Int) :
    ∀ l : List String, (∀ s ∈ l, parseRfc1123 s ≠ none) → ∃ as, parseStamps off l = .ok as := by
  intro l
  induction l with
  | nil => intro _; exact ⟨[], rfl⟩
  | cons s ss ih =>
    intro h
    obtain ⟨as, has⟩ := ih (fun x hx => h x (List.mem_cons_of_mem _ hx))
    cases hp : parseRfc1123 s with
    | none => exact absurd hp (h s List.mem_cons_self)
    | some t => exact ⟨toZone off t :: as, by simp [parseStamps, parseHttpDate, hp, has]⟩

theorem parseFields_total (off : Instant → Int) :
    ∀ d : DataClient.Doc, (∀ k l, (k, Val.ts l) ∈ d → ∀ s ∈ l, parseRfc1123 s ≠ none) →
      ∃ pd, parseFields off d = .ok pd := by
  intro d
  induction d with
  | nil => intro _; exact ⟨[], rfl⟩
  | cons f rest ih =>
    intro h
    obtain ⟨pd, hpd⟩ := ih (fun k l hm => h k l (List.mem_cons_of_mem _ hm))
    obtain ⟨k, v⟩ := f
    cases v with
    | str s =>
      cases hp : parseHttpDate off s with
      | none => exact ⟨(k, .str s) :: pd, by simp [parseFields, hp, hpd]⟩
      | some a => exact ⟨(k, .date a) :: pd, by simp [parseFields, hp, hpd]⟩
    | ts l =>
      obtain ⟨as, has⟩ := parseStamps_total off l (h k l List.mem_cons_self)
      exact ⟨(k, .ts as) :: pd, by simp [parseFields, has, hpd]⟩
    | other => exact ⟨(k, .other) :: pd, by simp [parseFields, hpd]⟩

/-- forward reading of a converted document: an RFC-1123 string field is delivered as that instant
    in the document's zone … -/
theorem findField_of_date {off : Instant → Int} {d : DataClient.Doc} {pd : PDoc} (h : DocOk off d pd)
    (k s : String) (t : Instant) (hk : lookupStr d k = some (.str s)) (hp : parseRfc1123 s = some t) :
    findField pd k = some (.date (toZone off t)) := by
  induction h with
  | nil => simp [lookupStr] at hk
  | @cons f g d pd hfg _ ih =>
    rw [lookupStr_cons] at hk
    rw [findField_cons]
    cases hfg with
    | @date k' s' t' hp' =>
      simp only at hk ⊢
      split at hk
      · rename_i hkk
        rw [if_pos hkk]
        injection hk with hk; injection hk with hk
        subst hk
        rw [hp] at hp'; injection hp' with hp'; subst hp'; rfl
      · rename_i hkk; rw [if_neg hkk]; exact ih hk
    | @keep k' s' hp' =>
      simp only at hk ⊢
      split at hk
      · injection hk with hk; injection hk with hk
        subst hk; rw [hp] at hp'; cases hp'
      · rename_i hkk; rw [if_neg hkk]; exact ih hk
    | @stamps k' l ts hl =>
      simp only at hk ⊢
      split at hk
      · simp at hk
      · rename_i hkk; rw [if_neg hkk]; exact ih hk
    | @other k' =>
      simp only at hk ⊢
      split at hk
      · simp at hk
      · rename_i hkk; rw [if_neg hkk]; exact ih hk

/-- … and a string that is not a date stays that string -/
theorem findField_of_str {off : Instant → Int} {d : DataClient.Doc} {pd : PDoc} (h : DocOk off d pd)
    (k s : String) (hk : lookupStr d k = some (.str s)) (hp : parseRfc1123 s = none) :
    findField pd k = some (.str s) := by
  induction h with
  | nil => simp [lookupStr] at hk
  | @cons f g d pd hfg _ ih =>
    rw [lookupStr_cons] at hk
    rw [findField_cons]
    cases hfg with
    | @date k' s' t' hp' =>
      simp only at hk ⊢
      split at hk
      · injection hk with hk; injection hk with hk
        subst hk; rw [hp] at hp'; cases hp'
      · rename_i hkk; rw [if_neg hkk]; exact ih hk
    | @keep k' s' hp' =>
      simp only at hk ⊢
      split at hk
      · rename_i hkk
        rw [if_pos hkk]
        injection hk with hk; injection hk with hk
        subst hk; rfl
      · rename_i hkk; rw [if_neg hkk]; exact ih hk
    | @stamps k' l ts hl =>
      simp only at hk ⊢
      split at hk
      · simp at hk
      · rename_i hkk; rw [if_neg hkk]; exact ih hk
    | @other k' =>
      simp only at hk ⊢
      split at hk
      · simp at hk
      · rename_i hkk; rw [if_neg hkk]; exact ih hk

/-- a raw session whose JSON says what `Denotes` says, with ids that are not dates and well-formed
    time series, is converted exactly like the document `(tc, td, kWh, sid, sp)` -/
theorem convRaw_of_denotes {zones : String → Option Zone} {offset : Int} {period V mp : K}
    {maxLen : Option Int} {bp : BattParams K} {ff : Bool} {r : RawSession K}
    {zname : String} {z : Zone} {sc : String} {tc : Instant} {sd : String} {td : Instant}
    {sid sp : String} (hden : Denotes zones r zname z sc tc sd td sid sp)
    (hsid : parseRfc1123 sid = none) (hsp : parseRfc1123 sp = none)
    (hts : ∀ k l, (k, Val.ts l) ∈ r.fields → ∀ s ∈ l, parseRfc1123 s ≠ none) {e : Ev K}
    (hconv : convertDoc { connect := ((tc : Int) : K), disconnect := ((td : Int) : K), kWh := r.kWh,
                          session := sid, space := sp } offset period V mp maxLen bp ff = .ok e) :
    convRaw zones offset period V mp maxLen bp ff r = .ok e := by
  obtain ⟨pd, hpd⟩ := parseFields_total z.off r.fields hts
  have hparse : parseDates zones r.fields = .ok pd := by
    unfold parseDates; rw [hden.tz]; simp only; rw [hden.zone]; exact hpd
  have hok := parseFields_ok z.off r.fields pd hpd
  have h1 := findField_of_date hok _ _ _ hden.conn hden.connT
  have h2 := findField_of_date hok _ _ _ hden.disc hden.discT
  have h3 := findField_of_str hok _ _ hden.sess hsid
  have h4 := findField_of_str hok _ _ hden.space hsp
  unfold convRaw
  rw [hparse]
  simp only
  have hdoc : toDoc pd r.kWh =
      .ok (⟨((tc : Int) : K), ((td : Int) : K), r.kWh, sid, sp⟩ : Sessions.Doc K) := by
    unfold toDoc dateField strField
    rw [h1, h2, h3, h4]
    simp only
    rw [(C20.same_instant z.off tc).1, (C20.same_instant z.off td).1]
  rw [hdoc]
  simp only
  rw [hconv]

end Acn.SessionsE2E
