/-
  Helper lemmas for C05 (interrupted / resumed runs): the VIEWS handed to the scheduler (`Sim.runViews`,
  AcnModel/SchedView.lean) across an abort and the resumption.

  * a view does not read the ghost record (`handedView_withInv`), so `ObsEq` states hand out the same views
    (`runViews_obs`);
  * the state an abort in period `k` leaves hands out, when `run()` is called again, the view of the failed call
    (`handedView_retry`);
  * `resume_views`: the views of the aborted run are those of the uninterrupted run up to and including period `k`, the
    views of the second `run()` are those of the uninterrupted run from period `k` on.
  (Lemma family of C09: `ResumeRun.lean`.)
-/
import AcnProofs.Lemmas.ResumeRun
import AcnModel.SchedView

set_option linter.unusedSectionVars false

namespace Acn.Sim
open Acn Acn.EventCore

variable {K : Type} [Add K] [Sub K] [Mul K] [Div K] [Neg K] [LT K] [LE K]
  [DecidableLT K] [DecidableLE K] [OfNat K 0] [OfNat K 1] [NatCast K] [HasExp K]

theorem handedView_withInv (cfg : Cfg K) (l : List Nat) (s : State K) :
    handedView cfg (withInv l s) = handedView cfg s := by
  unfold handedView consulted
  rw [eventsStage_withInv]
  rcases eventsStage cfg s with ⟨s1, _ | err⟩ <;> simp only []
  have hn : needsSched cfg.maxRecompute (withInv l s1).core = needsSched cfg.maxRecompute s1.core := rfl
  rw [hn]
  by_cases h : needsSched cfg.maxRecompute s1.core = true
  · simp only [h, if_true]
    rfl
  · simp only [h, Bool.false_eq_true, if_false]

theorem handedView_obs (cfg : Cfg K) {s t : State K} (h : ObsEq s t) : handedView cfg t = handedView cfg s := by
  rw [h.eq_withInv, handedView_withInv]

theorem handedView_iter (cfg : Cfg K) {s : State K} {v : View K} (h : handedView cfg s = some v) :
    v.iter = s.core.iter := by
  unfold handedView consulted at h
  have hi := eventsStage_iter' cfg s
  rcases he : eventsStage cfg s with ⟨s1, _ | err⟩ <;> rw [he] at h hi <;> simp only [] at h hi
  · by_cases hn : needsSched cfg.maxRecompute s1.core = true
    · simp only [hn, if_true] at h
      split at h
      · cases h
      · simp only [Option.some.injEq] at h
        rw [← h]
        exact hi
    · simp [hn] at h
  · cases h

/-- `ObsEq` states hand out the same views along the whole run -/
theorem runViews_obs (cfg : Cfg K) (sched : View K → Except Err (Schedule K)) : ∀ (n : Nat) {s t : State K}, ObsEq s t →
    runViews cfg sched n t = runViews cfg sched n s
  | 0, _, _, _ => rfl
  | n + 1, s, t, h => by
    simp only [runViews, guard_obs h, handedView_obs cfg h]
    by_cases hg : guard s.core = true
    · simp only [hg, if_true]
      have hb := body_obs cfg sched h
      rcases hs : body cfg sched s with ⟨s', _ | e⟩ <;> rcases ht : body cfg sched t with ⟨t', _ | e'⟩ <;>
        rw [hs, ht] at hb <;> simp only []
      · rw [runViews_obs cfg sched n hb.1.symm]
      · exact absurd hb.2 (by simp)
      · exact absurd hb.2 (by simp)
    · simp only [hg, Bool.false_eq_true, if_false]

/-- the view handed out when `run()` is called again on the state an abort left is the view of the failed call -/
theorem handedView_retry (cfg : Cfg K) {s s1 : State K} (hI : NoOverdue cfg.core s.core)
    (he : eventsStage cfg s = (s1, none)) :
    handedView cfg ({ s1 with core := markInvoked s1.core } : State K) = handedView cfg s := by
  have hc := eventsStage_core cfg s
  rw [he] at hc
  simp only [] at hc
  have hf : Fresh s1.core := by rw [hc.1]; exact EventCore.eventsStage_fresh hI
  have hf' : Fresh ({ s1 with core := markInvoked s1.core } : State K).core := hf
  unfold handedView consulted
  rw [he, eventsStage_of_fresh cfg hf']
  simp only []
  have hn : needsSched cfg.maxRecompute (markInvoked s1.core) = needsSched cfg.maxRecompute s1.core := rfl
  rw [hn]
  by_cases h : needsSched cfg.maxRecompute s1.core = true
  · simp only [h, if_true]
    rfl
  · simp only [h, Bool.false_eq_true, if_false]

theorem runViews_failAt_gt (cfg : Cfg K) (sched : View K → Except Err (Schedule K)) {k : Nat} :
    ∀ (n : Nat) {s : State K}, k < s.core.iter → runViews cfg (failAt k sched) n s = runViews cfg sched n s
  | 0, _, _ => rfl
  | n + 1, s, h => by
    simp only [runViews]
    split
    · rw [body_failAt_ne cfg sched (by omega)]
      rcases hb : body cfg sched s with ⟨s', _ | e⟩ <;> simp only []
      rw [runViews_failAt_gt cfg sched n (by rw [(body_ok_core hb).1]; omega)]
    · rfl

/-- in period `k`: either the scheduler is not reached, or the run aborts after the view was handed out -/
theorem body_failAt_eq_view (cfg : Cfg K) (sched : View K → Except Err (Schedule K)) {k : Nat} {s : State K}
    (h : s.core.iter = k) :
    body cfg (failAt k sched) s = body cfg sched s ∨
    ∃ s1, eventsStage cfg s = (s1, none) ∧ needsSched cfg.maxRecompute s1.core = true ∧
      body cfg (failAt k sched) s = ({ s1 with core := markInvoked s1.core }, some .schedulerFailed) ∧
      handedView cfg s = some (view cfg { s1 with core := markInvoked s1.core }) := by
  rw [body_eq, body_eq]
  have hi := eventsStage_iter' cfg s
  unfold handedView consulted
  rcases he : eventsStage cfg s with ⟨s1, _ | err⟩ <;> rw [he] at hi <;> simp only [] at hi ⊢
  · by_cases hn : needsSched cfg.maxRecompute s1.core = true
    · by_cases hg : (activeEvs cfg { s1 with core := markInvoked s1.core }).any (fun e => !sessionInfoOk e) = true
      · left
        unfold afterEvents schedStage
        simp only [hn, if_true, hg]
      · right
        refine ⟨s1, rfl, hn, ?_, ?_⟩
        · unfold afterEvents schedStage
          have hv : failAt k sched (view cfg { s1 with core := markInvoked s1.core }) = .error .schedulerFailed := by
            unfold failAt
            have : (view cfg { s1 with core := markInvoked s1.core }).iter = s1.core.iter := rfl
            rw [this, hi, if_pos h]
          simp only [hn, if_true, hg, hv]
          rfl
        · simp only [hn, if_true, hg]
          rfl
    · left
      unfold afterEvents
      rw [if_neg hn, if_neg hn]
  · left; trivial

/-- **the views across abort + resume** — from any state satisfying `NoOverdue`, every period `k`, every fuel: either the
    failure never fires (same run, same views), or the aborted run handed out the views `A ++ [v]` and the second `run()`
    hands out `v :: B`, where the uninterrupted run hands out `A ++ v :: B` (`v` the view of period `k`) -/
theorem resume_views (cfg : Cfg K) (sched : View K → Except Err (Schedule K)) (k : Nat) :
    ∀ (n : Nat) {s : State K}, NoOverdue cfg.core s.core → s.core.iter ≤ k →
      (run cfg (failAt k sched) n s = run cfg sched n s ∧ runViews cfg (failAt k sched) n s = runViews cfg sched n s) ∨
      ((run cfg (failAt k sched) n s).2 = some .schedulerFailed ∧ (run cfg (failAt k sched) n s).1.core.iter = k ∧
        ∃ A v B, runViews cfg sched n s = A ++ v :: B ∧ runViews cfg (failAt k sched) n s = A ++ [v] ∧
          runViews cfg sched (n - (k - s.core.iter)) (run cfg (failAt k sched) n s).1 = v :: B ∧
          v.iter = k ∧ ∀ a ∈ A, a.iter < k)
  | 0, _, _, _ => Or.inl ⟨rfl, rfl⟩
  | n + 1, s, hI, hk => by
    by_cases hg : guard s.core = true
    · rcases Nat.lt_or_eq_of_le hk with hlt | heq
      · have hb := body_failAt_ne cfg sched (k := k) (s := s) (by omega)
        simp only [run, runViews, hg, if_true, hb]
        rcases hbs : body cfg sched s with ⟨s', _ | e⟩ <;> simp only []
        · have hc := body_ok_core hbs
          rcases resume_views cfg sched k n (body_noOverdue hI hbs) (by rw [hc.1]; omega) with ⟨h1, h2⟩ | ⟨h1, h2, A, v, B, h3, h4, h5, h6, h7⟩
          · exact Or.inl ⟨h1, by rw [h2]⟩
          · right
            refine ⟨h1, h2, (handedView cfg s).toList ++ A, v, B, by rw [h3, List.append_assoc], by rw [h4, List.append_assoc], ?_, h6, ?_⟩
            · have : n + 1 - (k - s.core.iter) = n - (k - s'.core.iter) := by rw [hc.1]; omega
              rw [this]; exact h5
            · intro a ha
              rcases List.mem_append.1 ha with ha | ha
              · have : handedView cfg s = some a := by
                  cases hv : handedView cfg s with
                  | none => rw [hv] at ha; simp at ha
                  | some b => rw [hv] at ha; simp at ha; rw [ha]
                rw [handedView_iter cfg this]; exact hlt
              · exact h7 a ha
        · exact Or.inl ⟨trivial, trivial⟩
      · rcases body_failAt_eq_view cfg sched heq with hb | ⟨s1, he, hn, hb, hv⟩
        · left
          simp only [run, runViews, hg, if_true, hb]
          rcases hbs : body cfg sched s with ⟨s', _ | e⟩ <;> simp only []
          · have hgt : k < s'.core.iter := by rw [(body_ok_core hbs).1]; omega
            exact ⟨run_failAt_gt cfg sched n hgt, by rw [runViews_failAt_gt cfg sched n hgt]⟩
          · exact ⟨trivial, trivial⟩
        · right
          obtain ⟨_, _, hg', hobs⟩ := body_retry cfg sched hI he
          have hc := eventsStage_core cfg s
          rw [he] at hc
          simp only [] at hc
          have hi1 : s1.core.iter = s.core.iter := by rw [hc.1, EventCore.eventsStage_iter]
          have hr : run cfg (failAt k sched) (n + 1) s = ({ s1 with core := markInvoked s1.core }, some .schedulerFailed) := by
            simp only [run, hg, if_true, hb]
          have hv1 : runViews cfg (failAt k sched) (n + 1) s = [view cfg { s1 with core := markInvoked s1.core }] := by
            simp only [runViews, hg, if_true, hb, hv]
            rfl
          rw [hr, hv1]
          have hsub : n + 1 - (k - s.core.iter) = n + 1 := by omega
          rw [hsub]
          have hvr := handedView_retry cfg hI he
          rw [hv] at hvr
          refine ⟨rfl, by show s1.core.iter = k; rw [hi1, heq], [], view cfg { s1 with core := markInvoked s1.core }, ?_⟩
          rcases h2 : body cfg sched s with ⟨b, _ | e'⟩
          · rcases h1 : body cfg sched { s1 with core := markInvoked s1.core } with ⟨a, _ | e⟩ <;> rw [h1, h2] at hobs
            · refine ⟨runViews cfg sched n b, ?_, rfl, ?_, ?_, by simp⟩
              · simp only [runViews, hg, if_true, h2, hv]; rfl
              · simp only [runViews, hg' hg, if_true, h1, hvr]
                rw [runViews_obs cfg sched n hobs.1.symm]; rfl
              · show s1.core.iter = k; rw [hi1, heq]
            · exact absurd hobs.2 (by simp)
          · rcases h1 : body cfg sched { s1 with core := markInvoked s1.core } with ⟨a, _ | e⟩ <;> rw [h1, h2] at hobs
            · exact absurd hobs.2 (by simp)
            · refine ⟨[], ?_, rfl, ?_, ?_, by simp⟩
              · simp only [runViews, hg, if_true, h2, hv]; rfl
              · simp only [runViews, hg' hg, if_true, h1, hvr]; rfl
              · show s1.core.iter = k; rw [hi1, heq]
    · left
      simp only [run, runViews, hg, Bool.false_eq_true, if_false]
      exact ⟨trivial, trivial⟩

end Acn.Sim
