/-
  Helper lemmas for C10 (Sim level, 1/2): `network.update_pilots` under a permutation of the station
  order.  `setPilotAt` is split into what it READS (`plan`: validity of the pilot, the charge of the
  occupant) and what it WRITES (`eff`: one cell of `evsePilot`, one EV record, the draw counter);
  two calls for different stations commute, hence the station loop over any permutation of the
  (number, station) pairs gives the same state whenever it succeeds.
-/
import AcnProofs.Lemmas.LedgerStep
import AcnProofs.Lemmas.EquivPilots

set_option linter.unusedSectionVars false
set_option linter.unusedSimpArgs false

namespace Acn.SimEquiv
open Acn Acn.Sim Acn.EventCore Acn.Evse Acn.Ledger

variable {K : Type} [Field K] [LinearOrder K] [IsStrictOrderedRing K] [HasExp K]

/-- what `EVSE.set_pilot` decides from the values it reads: error, or the charged occupant (if any)
    together with "a noise draw was consumed" -/
def plan (cfg : Cfg K) (st : Station K) (p : K) (occEv : Option (Ev K)) (ν : K) :
    Except EventCore.Err (Option (Ev K × Bool)) :=
  if validRate (atolOf cfg st.kind) cfg.atolFinite st.kind p then
    match occEv with
    | none => .ok none
    | some e =>
      match e.charge p st.voltage cfg.period ν with
      | .error _ => .error .valueError
      | .ok e' => .ok (some (e', drawsNoise e.batt p st.voltage cfg.period))
  else .error .invalidRate

/-- what a successful `set_pilot` on station number `i` writes -/
def eff (s : State K) (i : Nat) (p : K) (u : Option (Ev K × Bool)) : State K :=
  { s with evsePilot := s.evsePilot.set i p,
           evs := match u with
             | some (e', _) => replaceEv s.evs e'
             | none => s.evs,
           noiseIdx := if (match u with | some (_, b) => b | none => false) then s.noiseIdx + 1 else s.noiseIdx }

theorem setPilotAt_plan (cfg : Cfg K) (s : State K) (i : Nat) (st : Station K) :
    setPilotAt cfg s i st =
      match plan cfg st (s.pilots.get i s.core.iter) (occupantEv s st.id) (noiseAt cfg s.noiseIdx) with
      | .ok u => (eff s i (s.pilots.get i s.core.iter) u, none)
      | .error e => (s, some e) := by
  unfold setPilotAt plan Evse.setPilot eff
  simp only
  by_cases hv : validRate (atolOf cfg st.kind) cfg.atolFinite st.kind (s.pilots.get i s.core.iter) = true
  · simp only [hv, if_true]
    cases hocc : occupantEv s st.id with
    | none => simp
    | some e =>
      simp only
      cases hc : e.charge (s.pilots.get i s.core.iter) st.voltage cfg.period (noiseAt cfg s.noiseIdx) with
      | error x => simp
      | ok e' => simp
  · simp [hv]

theorem charge_session {e e' : Ev K} {p V T ν : K} (h : e.charge p V T ν = .ok e') : e'.session = e.session := by
  unfold Ev.charge at h
  split at h
  · simp at h
  · simp only [Except.ok.injEq] at h; subst h; rfl

/-- the record a plan writes belongs to the occupant the core holds for that station -/
theorem plan_session {cfg : Cfg K} {s : State K} {st : Station K} {p ν : K} {e' : Ev K} {b : Bool}
    (h : plan cfg st p (occupantEv s st.id) ν = .ok (some (e', b))) :
    ∃ x, s.core.occ st.id = some x ∧ e'.session = x.id := by
  unfold plan at h
  split at h
  · rw [occupantEv_eq] at h
    cases hx : s.core.occ st.id with
    | none => simp [hx] at h
    | some x =>
      simp only [hx] at h
      cases he : evIn s.evs x.id with
      | none => simp [he] at h
      | some e =>
        simp only [he] at h
        split at h
        · simp at h
        · rename_i e1 hc
          simp only [Except.ok.injEq, Option.some.injEq, Prod.mk.injEq] at h
          refine ⟨x, rfl, ?_⟩
          rw [← h.1, charge_session hc, evIn_session he]
  · simp at h

theorem occupantEv_eff (s : State K) (i : Nat) (p : K) (u : Option (Ev K × Bool)) (st' : String)
    (h : ∀ e' b y, u = some (e', b) → s.core.occ st' = some y → y.id ≠ e'.session) :
    occupantEv (eff s i p u) st' = occupantEv s st' := by
  rw [occupantEv_eq, occupantEv_eq]
  have hc : (eff s i p u).core = s.core := rfl
  rw [hc]
  cases hy : s.core.occ st' with
  | none => rfl
  | some y =>
    simp only
    cases u with
    | none => rfl
    | some q =>
      obtain ⟨e', b⟩ := q
      exact evIn_replace_other s.evs e' y.id (h e' b y rfl hy)

theorem replaceEv_comm (evs : List (Ev K)) (a b : Ev K) (h : a.session ≠ b.session) :
    replaceEv (replaceEv evs a) b = replaceEv (replaceEv evs b) a := by
  unfold replaceEv
  rw [List.map_map, List.map_map]
  apply List.map_congr_left
  intro d _
  simp only [Function.comp]
  by_cases h1 : d.session = a.session
  · have h2 : ¬ d.session = b.session := fun hb => h (h1.symm.trans hb)
    have h3 : ¬ a.session = b.session := h
    simp [h1, h2, h3]
  · by_cases h2 : d.session = b.session
    · have h3 : ¬ b.session = a.session := fun hb => h hb.symm
      simp [h1, h2, h3]
    · simp [h1, h2]

theorem eff_comm (s : State K) {i j : Nat} (hij : i ≠ j) (p q : K) (u v : Option (Ev K × Bool))
    (h : ∀ a ba b bb, u = some (a, ba) → v = some (b, bb) → a.session ≠ b.session) :
    eff (eff s i p u) j q v = eff (eff s j q v) i p u := by
  unfold eff
  simp only
  congr 1
  · cases u with
    | none => rfl
    | some a =>
      cases v with
      | none => rfl
      | some b =>
        obtain ⟨a, ba⟩ := a
        obtain ⟨b, bb⟩ := b
        exact replaceEv_comm s.evs a b (h a ba b bb rfl rfl)
  · exact List.set_comm p q hij
  · cases u with
    | none => cases v <;> rfl
    | some a =>
      cases v with
      | none => rfl
      | some b =>
        obtain ⟨a, ba⟩ := a
        obtain ⟨b, bb⟩ := b
        cases ba <;> cases bb <;> simp

/-- the random draws form a constant stream (the stream is consumed in station order, so only a
    constant one is independent of the registration order) -/
def ConstNoise (cfg : Cfg K) : Prop := ∀ i j, noiseAt cfg i = noiseAt cfg j

/-- two `set_pilot`s for different station numbers whose occupants are different sessions commute -/
theorem setPilotAt_comm (cfg : Cfg K) (hn : ConstNoise cfg) {s s1 s2 : State K} {i j : Nat} {a b : Station K}
    (hij : i ≠ j)
    (hocc : ∀ x y, s.core.occ a.id = some x → s.core.occ b.id = some y → x.id ≠ y.id)
    (h1 : setPilotAt cfg s i a = (s1, none)) (h2 : setPilotAt cfg s1 j b = (s2, none)) :
    ∃ s1', setPilotAt cfg s j b = (s1', none) ∧ setPilotAt cfg s1' i a = (s2, none) := by
  rw [setPilotAt_plan] at h1 h2
  cases hpa : plan cfg a (s.pilots.get i s.core.iter) (occupantEv s a.id) (noiseAt cfg s.noiseIdx) with
  | error e => simp [hpa] at h1
  | ok u =>
    simp only [hpa, Prod.mk.injEq, and_true] at h1
    subst h1
    -- what the second call reads is what it would have read first
    have hp1 : (eff s i (s.pilots.get i s.core.iter) u).pilots = s.pilots := rfl
    have hc1 : (eff s i (s.pilots.get i s.core.iter) u).core = s.core := rfl
    have hob : occupantEv (eff s i (s.pilots.get i s.core.iter) u) b.id = occupantEv s b.id := by
      apply occupantEv_eff
      intro e' bb y hu hy
      subst hu
      obtain ⟨x, hx, hs⟩ := plan_session hpa
      rw [hs]
      exact fun h => hocc x y hx hy h.symm
    rw [hp1, hc1, hob, hn (eff s i (s.pilots.get i s.core.iter) u).noiseIdx s.noiseIdx] at h2
    cases hpb : plan cfg b (s.pilots.get j s.core.iter) (occupantEv s b.id) (noiseAt cfg s.noiseIdx) with
    | error e => simp [hpb] at h2
    | ok v =>
      simp only [hpb, Prod.mk.injEq, and_true] at h2
      refine ⟨eff s j (s.pilots.get j s.core.iter) v, by rw [setPilotAt_plan, hpb], ?_⟩
      rw [setPilotAt_plan]
      have hp2 : (eff s j (s.pilots.get j s.core.iter) v).pilots = s.pilots := rfl
      have hc2 : (eff s j (s.pilots.get j s.core.iter) v).core = s.core := rfl
      have hoa : occupantEv (eff s j (s.pilots.get j s.core.iter) v) a.id = occupantEv s a.id := by
        apply occupantEv_eff
        intro e' bb x hv hx
        subst hv
        obtain ⟨y, hy, hs⟩ := plan_session hpb
        rw [hs]
        exact hocc x y hx hy
      rw [hp2, hc2, hoa, hn (eff s j (s.pilots.get j s.core.iter) v).noiseIdx s.noiseIdx, hpa]
      simp only [Prod.mk.injEq, and_true]
      rw [← h2]
      apply (eff_comm s hij _ _ u v _).symm
      intro ea ba eb bb hu hv
      subst hu hv
      obtain ⟨x, hx, hsx⟩ := plan_session hpa
      obtain ⟨y, hy, hsy⟩ := plan_session hpb
      rw [hsx, hsy]
      exact hocc x y hx hy

/-! ### the station loop over an arbitrary list of (station number, station) pairs -/

def updList (cfg : Cfg K) : List (Nat × Station K) → State K → State K × Option EventCore.Err
  | [], s => (s, none)
  | (i, st) :: rest, s =>
    match setPilotAt cfg s i st with
    | (s', none) => updList cfg rest s'
    | (s', some e) => (s', some e)

theorem updatePilotsFrom_eq (cfg : Cfg K) (d : Station K) : ∀ (sts : List (Station K)) (i : Nat) (s : State K),
    updatePilotsFrom cfg i sts s =
      updList cfg ((List.range sts.length).map fun k => (i + k, sts.getD k d)) s := by
  intro sts
  induction sts with
  | nil => intro i s; rfl
  | cons st rest ih =>
    intro i s
    rw [List.length_cons, List.range_succ_eq_map]
    simp only [List.map_cons, List.map_map, updatePilotsFrom, updList, Nat.add_zero, List.getD_cons_zero]
    have : ((fun k => (i + k, (st :: rest).getD k d)) ∘ Nat.succ) = fun k => (i + 1 + k, rest.getD k d) := by
      funext k
      simp only [Function.comp, List.getD_cons_succ, Prod.mk.injEq, and_true]
      omega
    rw [this]
    cases setPilotAt cfg s i st with
    | mk s' err =>
      cases err with
      | none => exact ih (i + 1) s'
      | some e => rfl

/-- entries refer to different station numbers and to stations whose occupants differ -/
def Apart (occ : String → Option Session) (a b : Nat × Station K) : Prop :=
  a.1 ≠ b.1 ∧ ∀ x y, occ a.2.id = some x → occ b.2.id = some y → x.id ≠ y.id

theorem Apart.symm {occ : String → Option Session} {a b : Nat × Station K} (h : Apart occ a b) : Apart occ b a :=
  ⟨fun e => h.1 e.symm, fun x y hx hy e => h.2 y x hy hx e.symm⟩

theorem setPilotAt_core (cfg : Cfg K) (s : State K) (i : Nat) (st : Station K) :
    (setPilotAt cfg s i st).1.core = s.core := by
  rw [setPilotAt_plan]
  split <;> rfl

theorem updList_core (cfg : Cfg K) : ∀ (l : List (Nat × Station K)) (s : State K), (updList cfg l s).1.core = s.core := by
  intro l
  induction l with
  | nil => intro s; rfl
  | cons a rest ih =>
    intro s
    obtain ⟨i, st⟩ := a
    simp only [updList]
    have h := setPilotAt_core cfg s i st
    rcases hs : setPilotAt cfg s i st with ⟨s', _ | e⟩
    · rw [hs] at h; simp only at h ⊢; rw [ih, h]
    · rw [hs] at h; exact h

/-- a successful station loop gives the same state in any order of the stations -/
theorem updList_perm (cfg : Cfg K) (hn : ConstNoise cfg) {l l' : List (Nat × Station K)} (hp : l.Perm l') :
    ∀ (s r : State K), l.Pairwise (Apart s.core.occ) → updList cfg l s = (r, none) → updList cfg l' s = (r, none) := by
  induction hp with
  | nil => intro s r _ h; exact h
  | cons a _ ih =>
    intro s r hpw h
    obtain ⟨i, st⟩ := a
    simp only [updList] at h ⊢
    rcases hs : setPilotAt cfg s i st with ⟨s1, _ | e⟩
    · rw [hs] at h
      simp only at h ⊢
      have hc : s1.core = s.core := by have := setPilotAt_core cfg s i st; rw [hs] at this; exact this
      exact ih s1 r (by rw [hc]; exact (List.pairwise_cons.1 hpw).2) h
    · rw [hs] at h; simp at h
  | swap a b l =>
    intro s r hpw h
    obtain ⟨i, sa⟩ := a
    obtain ⟨j, sb⟩ := b
    -- h : loop over (j,sb) :: (i,sa) :: l ; goal: loop over (i,sa) :: (j,sb) :: l
    simp only [updList] at h ⊢
    rcases h1 : setPilotAt cfg s j sb with ⟨s1, _ | e⟩
    · rw [h1] at h
      simp only at h
      rcases h2 : setPilotAt cfg s1 i sa with ⟨s2, _ | e⟩
      · rw [h2] at h
        simp only at h
        have hap : Apart s.core.occ (j, sb) (i, sa) := (List.pairwise_cons.1 hpw).1 _ List.mem_cons_self
        obtain ⟨s1', h1', h2'⟩ := setPilotAt_comm cfg hn hap.1 hap.2 h1 h2
        rw [h1']
        simp only
        rw [h2']
        exact h
      · rw [h2] at h; simp at h
    · rw [h1] at h; simp at h
  | trans hp1 _ ih1 ih2 =>
    intro s r hpw h
    exact ih2 s r ((hp1.pairwise_iff (fun {a b} (hab : Apart s.core.occ a b) => hab.symm)).1 hpw) (ih1 s r hpw h)

end Acn.SimEquiv
