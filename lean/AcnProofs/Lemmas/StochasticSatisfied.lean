/-
  C19, "nobody waits behind a satisfied EV": after `post_charging_update` (early departure on),
  if the queue is still non-empty, then every EV that holds a station and is fully charged was in
  the queue BEFORE the hook ran — it has just been swapped in.  (Every fully charged EV that held a
  station before the hook has been unplugged: the loop only stops unplugging when the queue is
  empty.)
-/
import AcnProofs.Lemmas.StochasticStarve

namespace Acn.Stoch

/-- the early-departure loop over `L` (EVs on stations): if somebody still waits afterwards, every
    occupant is a former queue member or an untouched occupant outside `L` -/
theorem fold_early_satisfied : ∀ (L : List Sess) (s s1 : Net), Inv s → L.Nodup →
    (∀ z ∈ L, ∃ st, s.occ st = some z) → L.foldlM Net.earlyStep s = .ok s1 →
    s1.waiting ≠ [] →
    ∀ t z, s1.occ t = some z → z ∈ s.waiting ∨ (s.occ t = some z ∧ z ∉ L) := by
  intro L
  induction L with
  | nil =>
    intro s s1 _ _ _ h _ t z hz
    cases h
    exact Or.inr ⟨hz, by simp⟩
  | cons x L ih =>
    intro s s1 h hn hocc hs hne t z hz
    have hwall := fold_early_waiting (x :: L) s s1 h hn hocc hs
    obtain ⟨st, ho⟩ := hocc x (List.mem_cons_self)
    rw [List.foldlM_cons] at hs
    cases h2 : s.earlyStep x with
    | error e => rw [h2] at hs; cases hs
    | ok s2 =>
      rw [h2] at hs
      obtain ⟨hi2, _, hk2, _, _⟩ := h.earlyStep x st ho h2
      rw [List.nodup_cons] at hn
      have hocc2 : ∀ z ∈ L, ∃ st, s2.occ st = some z := by
        intro z hz
        obtain ⟨t, ht⟩ := hocc z (List.mem_cons_of_mem _ hz)
        exact ⟨t, hk2 t z (fun e => hn.1 (e ▸ hz)) ht⟩
      have hih := ih s2 s1 hi2 hn.2 hocc2 hs hne t z hz
      cases hwq : s.waiting with
      | nil =>
        rw [hwq] at hwall
        simp at hwall
        exact absurd hwall hne
      | cons y w =>
        have hu := h.unplug_swap x y w st ho hwq
        simp only [Net.earlyStep, hwq, List.isEmpty_cons, hu, bind, Except.bind, pure, Except.pure,
          Bool.false_eq_true, ↓reduceIte] at h2
        cases h2
        simp only [Net.modEv] at hih
        rcases hih with hw | ⟨hoz, hzL⟩
        · exact Or.inl (List.mem_cons_of_mem _ hw)
        · by_cases hts : t = st
          · simp only [hts, ↓reduceIte] at hoz
            cases hoz
            exact Or.inl List.mem_cons_self
          · simp only [hts, ↓reduceIte] at hoz
            refine Or.inr ⟨hoz, ?_⟩
            intro hm
            rcases List.mem_cons.1 hm with e | hm
            · subst e
              have h1 := (h.occ_iff t z).1 hoz
              have h2 := (h.occ_iff st z).1 ho
              exact hts (Option.some.inj (h1.2.1.symm.trans h2.2.1))
            · exact hzL hm

theorem not_mem_fullyCharged {s : Net} {full : Sess → Bool} {t : Station} {z : Sess}
    (ht : t ∈ s.stations) (ho : s.occ t = some z) (hf : full z = true) : z ∈ s.fullyCharged full := by
  simp only [Net.fullyCharged, List.mem_filterMap]
  exact ⟨t, ht, by simp [ho, hf]⟩

/-- `post_charging_update` with early departure: if somebody still waits afterwards, a fully
    charged EV on a station was in the queue when the hook started -/
theorem Inv.post_satisfied {s s1 : Net} (h : Inv s) (full : Sess → Bool)
    (he : s.earlyDeparture = true) (hs : s.post full = .ok s1) :
    s1.waiting ≠ [] → ∀ t z, s1.occ t = some z → full z = true → z ∈ s.waiting := by
  intro hne t z hz hf
  unfold Net.post at hs
  rw [if_pos he] at hs
  rcases fold_early_satisfied _ s s1 h (h.fullyCharged_nodup full) (fun z hz => mem_fullyCharged hz) hs
    hne t z hz with hw | ⟨ho, hnot⟩
  · exact hw
  · exact absurd (not_mem_fullyCharged ((h.occ_iff t z).1 ho).1 ho hf) hnot

/-- the hook leaves the constructor flag alone -/
theorem fold_early_flag : ∀ (L : List Sess) (s s1 : Net), Inv s → L.Nodup →
    (∀ z ∈ L, ∃ st, s.occ st = some z) → L.foldlM Net.earlyStep s = .ok s1 →
    s1.earlyDeparture = s.earlyDeparture := by
  intro L
  induction L with
  | nil => intro s s1 _ _ _ h; cases h; rfl
  | cons x L ih =>
    intro s s1 h hn hocc hs
    obtain ⟨st, ho⟩ := hocc x (List.mem_cons_self)
    rw [List.foldlM_cons] at hs
    cases h2 : s.earlyStep x with
    | error e => rw [h2] at hs; cases hs
    | ok s2 =>
      rw [h2] at hs
      obtain ⟨hi2, _, hk2, _, hfl⟩ := h.earlyStep x st ho h2
      rw [List.nodup_cons] at hn
      rw [ih s2 s1 hi2 hn.2 (by
        intro z hz
        obtain ⟨t, ht⟩ := hocc z (List.mem_cons_of_mem _ hz)
        exact ⟨t, hk2 t z (fun e => hn.1 (e ▸ hz)) ht⟩) hs, hfl]

theorem Inv.post_earlyDeparture {s s1 : Net} (h : Inv s) (full : Sess → Bool)
    (hs : s.post full = .ok s1) : s1.earlyDeparture = s.earlyDeparture := by
  unfold Net.post at hs
  split at hs
  · exact fold_early_flag _ s s1 h (h.fullyCharged_nodup full) (fun z hz => mem_fullyCharged hz) hs
  · cases hs; rfl

/-! ### the constructor flag `early_departure` is never written -/

theorem attach_earlyDeparture {s s1 : Net} {x : Sess} (hs : s.attach x = .ok s1) :
    s1.earlyDeparture = s.earlyDeparture := by
  unfold Net.attach at hs
  split at hs
  · cases hs
  · split at hs
    · split at hs
      · cases hs; rfl
      · cases hs
    · cases hs

theorem admitNext_earlyDeparture {s s1 : Net} {st : Station} (hs : s.admitNext st = .ok s1) :
    s1.earlyDeparture = s.earlyDeparture := by
  unfold Net.admitNext at hs
  split at hs
  · cases hs; rfl
  · simp only [bind, Except.bind] at hs
    split at hs
    · cases hs
    · rename_i s3 h3
      cases hs
      have := attach_earlyDeparture h3
      simpa [Net.modEv] using this

theorem unplug_earlyDeparture {s s1 : Net} {st? : Option Station} {x : Sess}
    (hs : s.unplug st? x = .ok s1) : s1.earlyDeparture = s.earlyDeparture := by
  unfold Net.unplug at hs
  split at hs
  · cases hs; rfl
  · split at hs
    · cases hs
    · split at hs
      · split at hs
        · cases hs; rfl
        · split at hs
          · exact (admitNext_earlyDeparture hs).trans rfl
          · cases hs; rfl
      · cases hs

theorem plugin_earlyDeparture {cs : Nat → Nat} {s s1 : Net} {x : Sess} (hs : s.plugin cs x = .ok s1) :
    s1.earlyDeparture = s.earlyDeparture := by
  unfold Net.plugin at hs
  split at hs
  · cases hs; rfl
  · have := attach_earlyDeparture hs
    simpa [Net.modEv] using this

theorem processEvent_earlyDeparture {cs : Nat → Nat} {s s1 : Net} {e : Event}
    (hs : s.processEvent cs e = .ok s1) : s1.earlyDeparture = s.earlyDeparture := by
  simp only [Net.processEvent] at hs
  cases hk : e.kind with
  | recompute => simp only [hk, pure, Except.pure] at hs; cases hs; rfl
  | unplug =>
    simp only [hk, bind, Except.bind, pure, Except.pure] at hs
    cases h2 : s.unplug (s.ev e.sess).station e.sess with
    | error er => rw [h2] at hs; cases hs
    | ok s2 => rw [h2] at hs; cases hs; exact (unplug_earlyDeparture h2 : s2.earlyDeparture = s.earlyDeparture)
  | plugin =>
    simp only [hk, bind, Except.bind, pure, Except.pure] at hs
    cases h2 : s.plugin cs e.sess with
    | error er => rw [h2] at hs; cases hs
    | ok s2 => rw [h2] at hs; cases hs; exact (plugin_earlyDeparture h2 : s2.earlyDeparture = s.earlyDeparture)

end Acn.Stoch
