/-
  Helper lemmas for C10 (2/3): the pilot matrix under a permutation of the station order
  (`_update_schedules` densifies in station order and writes row `i` for station number `i`) and
  under a time shift (`k` zero columns in front).
-/
import AcnModel.Pilots
import AcnProofs.Lemmas.EquivPerm

namespace Acn.Pilots
open Acn

set_option linter.unusedSectionVars false

variable {K : Type} [OfNat K 0]

/-- the matrix whose row `j` is the old row `σ[j]` -/
def Mat.reidx (σ : List Nat) (m : Mat K) : Mat K := ⟨Acn.reidx σ m.rows [], m.width⟩

theorem map_getD_lt {α β : Type} (f : α → β) (l : List α) (i : Nat) (da : α) (db : β) (h : i < l.length) :
    (l.map f).getD i db = f (l.getD i da) := by
  simp [List.getD_eq_getElem?_getD, h]

theorem densify_reidx (σ : List Nat) (stations : List String) (sched : Sched K) (len : Nat)
    (h : ∀ i ∈ σ, i < stations.length) :
    densify (Acn.reidx σ stations "") sched len = Acn.reidx σ (densify stations sched len) [] := by
  unfold densify Acn.reidx
  rw [List.map_map]
  apply List.map_congr_left
  intro i hi
  rw [map_getD_lt _ stations i "" [] (h i hi)]
  rfl

theorem increaseWidth_reidx (σ : List Nat) (m : Mat K) (target : Nat) (h : ∀ i ∈ σ, i < m.rows.length) :
    increaseWidth (m.reidx σ) target = (increaseWidth m target).reidx σ := by
  unfold increaseWidth
  by_cases hw : target ≤ m.width
  · simp [Mat.reidx, hw]
  · simp only [Mat.reidx, hw, if_false]
    congr 1
    unfold Acn.reidx
    rw [List.map_map]
    apply List.map_congr_left
    intro i hi
    rw [map_getD_lt _ m.rows i [] [] (h i hi)]
    rfl

theorem zipWith_getD_lt {α β γ : Type} (f : α → β → γ) (a : List α) (b : List β) (i : Nat) (da : α) (db : β) (dc : γ)
    (ha : i < a.length) (hb : i < b.length) :
    (List.zipWith f a b).getD i dc = f (a.getD i da) (b.getD i db) := by
  simp [List.getD_eq_getElem?_getD, ha, hb]

theorem writeBlock_reidx (σ : List Nat) (m : Mat K) (t : Nat) (dense : List (List K))
    (h : ∀ i ∈ σ, i < m.rows.length) (hd : ∀ i ∈ σ, i < dense.length) :
    writeBlock (m.reidx σ) t (Acn.reidx σ dense []) = (writeBlock m t dense).reidx σ := by
  unfold writeBlock Mat.reidx
  simp only
  congr 1
  rw [zipWith_reidx]
  unfold Acn.reidx
  apply List.map_congr_left
  intro i hi
  rw [zipWith_getD_lt _ m.rows dense i [] [] [] (h i hi) (hd i hi)]

theorem unknownStation_perm {stations stations' : List String} (hp : stations'.Perm stations) (sched : Sched K) :
    unknownStation stations' sched = unknownStation stations sched := by
  unfold unknownStation
  congr 1
  funext p
  congr 1
  rw [Bool.eq_iff_iff]
  simp only [List.contains_iff_mem]
  exact hp.mem_iff

/-- `_update_schedules` commutes with a permutation of the station order -/
theorem updateSchedules_reidx (σ : List Nat) (stations : List String) (hσ : σ.Perm (List.range stations.length))
    (m : Mat K) (hm : m.rows.length = stations.length) (t : Nat) (lastTs : Option Nat) (sched : Sched K) :
    updateSchedules (Acn.reidx σ stations "") (m.reidx σ) t lastTs sched
      = (updateSchedules stations m t lastTs sched).map (Mat.reidx σ) := by
  have hlt : ∀ i ∈ σ, i < stations.length := fun i hi => List.mem_range.1 (hσ.mem_iff.1 hi)
  have hlt' : ∀ i ∈ σ, i < m.rows.length := fun i hi => hm ▸ hlt i hi
  cases sched with
  | nil => rfl
  | cons p rest =>
    obtain ⟨s0, r0⟩ := p
    simp only [updateSchedules]
    rw [unknownStation_perm (reidx_perm "" hσ)]
    by_cases hu : unknownStation stations ((s0, r0) :: rest) = true
    · simp [hu, Except.map]
    · simp only [hu, Bool.false_eq_true, if_false]
      by_cases hr : ragged ((s0, r0) :: rest) = true
      · simp [hr, Except.map]
      · simp only [hr, Bool.false_eq_true, if_false, Except.map]
        rw [densify_reidx σ stations _ _ hlt]
        have hwid : (m.reidx σ).width = m.width := rfl
        rw [hwid]
        by_cases hw : t + r0.length ≤ m.width
        · simp only [hw, if_true]
          rw [writeBlock_reidx σ m t _ hlt' (by intro i hi; simpa [densify] using hlt i hi)]
        · simp only [hw, if_false]
          rw [increaseWidth_reidx σ m _ hlt']
          rw [writeBlock_reidx σ _ t _ (by
                intro i hi
                have : (increaseWidth m (growTarget t lastTs r0.length)).rows.length = m.rows.length := by
                  unfold increaseWidth; split <;> simp
                rw [this]; exact hlt' i hi)
              (by intro i hi; simpa [densify] using hlt i hi)]

/-! ### time shift -/

/-- `k` zero columns in front of every row -/
def shiftMat (k : Nat) (m : Mat K) : Mat K := ⟨m.rows.map (fun r => List.replicate k 0 ++ r), m.width + k⟩

theorem writeRow_shift (k : Nat) (row : List K) (t : Nat) (blk : List K) :
    writeRow (List.replicate k 0 ++ row) (t + k) blk = List.replicate k 0 ++ writeRow row t blk := by
  unfold writeRow
  have h1 : List.take (t + k) (List.replicate k (0 : K) ++ row) = List.replicate k 0 ++ List.take t row := by
    rw [List.take_append]
    simp
  have h2 : List.drop (t + k + blk.length) (List.replicate k (0 : K) ++ row) = List.drop (t + blk.length) row := by
    rw [List.drop_append]
    have : t + k + blk.length - k = t + blk.length := by omega
    simp [this]
    omega
  rw [h1, h2]
  simp [List.append_assoc]

theorem increaseWidth_shift (k : Nat) (m : Mat K) (target : Nat) :
    increaseWidth (shiftMat k m) (target + k) = shiftMat k (increaseWidth m target) := by
  unfold increaseWidth shiftMat
  by_cases hw : target ≤ m.width
  · simp [hw]
  · have : ¬ target + k ≤ m.width + k := by omega
    simp only [hw, this, if_false, List.map_map]
    congr 1
    apply List.map_congr_left
    intro r _
    simp only [Function.comp, List.length_append, List.length_replicate, List.append_assoc]
    congr 2
    have : target + k - (k + r.length) = target - r.length := by omega
    rw [this]

theorem writeBlock_shift (k : Nat) (m : Mat K) (t : Nat) (dense : List (List K)) :
    writeBlock (shiftMat k m) (t + k) dense = shiftMat k (writeBlock m t dense) := by
  unfold writeBlock shiftMat
  simp only
  congr 1
  rw [List.zipWith_map_left, List.map_zipWith]
  congr 1
  funext row blk
  exact writeRow_shift k row t blk

theorem growTarget_shift (k t : Nat) (lastTs : Option Nat) (len : Nat) :
    growTarget (t + k) (lastTs.map (· + k)) len = growTarget t lastTs len + k := by
  unfold growTarget
  cases lastTs with
  | none => simp; omega
  | some l => simp only [Option.map_some, Nat.max_def]; split <;> split <;> omega

/-- `_update_schedules` commutes with a time shift: the same call `k` periods later, on the matrix
    with `k` zero columns in front, gives the shifted matrix -/
theorem updateSchedules_shift' (k : Nat) (stations : List String) (m : Mat K) (t : Nat) (lastTs : Option Nat)
    (sched : Sched K) :
    updateSchedules stations (shiftMat k m) (t + k) (lastTs.map (· + k)) sched
      = (updateSchedules stations m t lastTs sched).map (shiftMat k) := by
  cases sched with
  | nil => rfl
  | cons p rest =>
    obtain ⟨s0, r0⟩ := p
    simp only [updateSchedules]
    by_cases hu : unknownStation stations ((s0, r0) :: rest) = true
    · simp [hu, Except.map]
    · simp only [hu, Bool.false_eq_true, if_false]
      by_cases hr : ragged ((s0, r0) :: rest) = true
      · simp [hr, Except.map]
      · simp only [hr, Bool.false_eq_true, if_false, Except.map]
        have hwid : (shiftMat k m).width = m.width + k := rfl
        rw [hwid]
        by_cases hw : t + r0.length ≤ m.width
        · have : t + k + r0.length ≤ m.width + k := by omega
          simp only [hw, this, if_true]
          rw [writeBlock_shift]
        · have : ¬ t + k + r0.length ≤ m.width + k := by omega
          simp only [hw, this, if_false]
          rw [growTarget_shift, increaseWidth_shift, writeBlock_shift]

end Acn.Pilots
