/-
  Helper lemmas for C12: coefficients of the `Current` algebra.
-/
import AcnModel.Network
import Mathlib.Tactic

set_option linter.unusedSectionVars false
set_option linter.unusedSimpArgs false

namespace Acn.Network
namespace Current

section zero
variable {K : Type} [Zero K]

@[simp] theorem coeff_nil (s : String) : coeff ([] : Current K) s = 0 := rfl

@[simp] theorem coeff_cons (k : String) (v : K) (r : Current K) (s : String) :
    coeff ((k, v) :: r) s = if k = s then v else coeff r s := rfl

@[simp] theorem keys_nil : keys ([] : Current K) = [] := rfl

@[simp] theorem keys_cons (p : String × K) (r : Current K) : keys (p :: r) = p.1 :: keys r := rfl

theorem coeff_of_not_mem (c : Current K) (s : String) (h : s ∉ c.keys) : c.coeff s = 0 := by
  induction c with
  | nil => rfl
  | cons p r ih =>
    obtain ⟨k, v⟩ := p
    simp only [keys_cons, List.mem_cons, not_or] at h
    rw [coeff_cons, if_neg (fun e => h.1 e.symm)]
    exact ih h.2

/-- with distinct keys the coefficient is the value listed with the key -/
theorem coeff_of_mem (c : Current K) (hn : c.keys.Nodup) (s : String) (v : K) (h : (s, v) ∈ c) :
    c.coeff s = v := by
  induction c with
  | nil => cases h
  | cons p r ih =>
    obtain ⟨k, w⟩ := p
    simp only [keys_cons, List.nodup_cons] at hn
    rw [coeff_cons]
    rcases List.mem_cons.mp h with h | h
    · cases h; simp
    · have : s ∈ keys r := List.mem_map.mpr ⟨(s, v), h, rfl⟩
      rw [if_neg (fun e => hn.1 (by rw [e]; exact this))]
      exact ih hn.2 h

theorem coeff_append (a b : Current K) (s : String) :
    coeff (a ++ b) s = if s ∈ a.keys then coeff a s else coeff b s := by
  induction a with
  | nil => simp
  | cons p r ih =>
    obtain ⟨k, v⟩ := p
    simp only [List.cons_append, coeff_cons, keys_cons, List.mem_cons, ih]
    by_cases h : k = s
    · simp [h]
    · have : ¬ s = k := fun e => h e.symm
      simp [h, this]

theorem coeff_map (f : String → K → K) (a : Current K) (s : String) :
    coeff (a.map (fun p => (p.1, f p.1 p.2))) s = if s ∈ a.keys then f s (coeff a s) else 0 := by
  induction a with
  | nil => simp
  | cons p r ih =>
    obtain ⟨k, v⟩ := p
    simp only [List.map_cons, coeff_cons, keys_cons, List.mem_cons, ih]
    by_cases h : k = s
    · subst h; simp
    · have : ¬ s = k := fun e => h e.symm
      simp [h, this]

theorem keys_map (f : String → K → K) (a : Current K) :
    keys (a.map (fun p => (p.1, f p.1 p.2))) = keys a := by
  simp [keys, List.map_map, Function.comp_def]

theorem coeff_filter (q : String → Bool) (b : Current K) (s : String) :
    coeff (b.filter (fun p => q p.1)) s = if q s then coeff b s else 0 := by
  induction b with
  | nil => simp
  | cons p r ih =>
    obtain ⟨k, v⟩ := p
    by_cases hk : q k = true
    · rw [List.filter_cons_of_pos (by simpa using hk), coeff_cons, coeff_cons, ih]
      by_cases h : k = s
      · subst h; simp [hk]
      · simp [h]
    · rw [List.filter_cons_of_neg (by simpa using hk), coeff_cons, ih]
      by_cases h : k = s
      · subst h; simp [hk]
      · simp [h]

theorem keys_filter (q : String → Bool) (b : Current K) :
    keys (b.filter (fun p => q p.1)) = (keys b).filter q := by
  induction b with
  | nil => rfl
  | cons p r ih =>
    by_cases hk : q p.1 = true
    · rw [List.filter_cons_of_pos (by simpa using hk), keys_cons, keys_cons,
        List.filter_cons_of_pos hk, ih]
    · rw [List.filter_cons_of_neg (by simpa using hk), keys_cons, List.filter_cons_of_neg hk, ih]

theorem hasKey_iff (a : Current K) (s : String) : hasKey a s = true ↔ s ∈ a.keys := by
  simp [hasKey]

/-! #### dict construction -/

theorem keys_dictInsert (k : String) (v : K) (c : Current K) :
    keys (dictInsert k v c) = if k ∈ keys c then keys c else keys c ++ [k] := by
  induction c with
  | nil => simp [dictInsert]
  | cons p r ih =>
    obtain ⟨k', v'⟩ := p
    unfold dictInsert
    by_cases h : k' = k
    · simp [h]
    · have h' : ¬ k = k' := fun e => h e.symm
      simp only [h, if_false, keys_cons, ih, List.mem_cons, h', false_or]
      split <;> simp

theorem nodup_dictInsert (k : String) (v : K) (c : Current K) (h : (keys c).Nodup) :
    (keys (dictInsert k v c)).Nodup := by
  rw [keys_dictInsert]
  split
  · exact h
  · rename_i hk
    exact List.nodup_append.mpr ⟨h, by simp, by
      intro a ha b hb
      simp only [List.mem_singleton] at hb
      subst hb
      exact fun e => hk (e ▸ ha)⟩

theorem coeff_dictInsert (k : String) (v : K) (c : Current K) (s : String) :
    coeff (dictInsert k v c) s = if k = s then v else coeff c s := by
  induction c with
  | nil => simp [dictInsert]
  | cons p r ih =>
    obtain ⟨k', v'⟩ := p
    unfold dictInsert
    by_cases h : k' = k
    · subst h
      by_cases h2 : k' = s <;> simp [h2]
    · simp only [h, if_false, coeff_cons, ih]
      by_cases h2 : k' = s
      · subst h2; simp; intro e; exact absurd e.symm h
      · simp [h2]

theorem nodup_ofDict_aux (items : List (String × K)) (acc : Current K) (h : (keys acc).Nodup) :
    (keys (items.foldl (fun acc p => dictInsert p.1 p.2 acc) acc)).Nodup := by
  induction items generalizing acc with
  | nil => exact h
  | cons p r ih => exact ih _ (nodup_dictInsert _ _ _ h)

theorem nodup_ofDict (items : List (String × K)) : (keys (ofDict items)).Nodup :=
  nodup_ofDict_aux items [] List.nodup_nil

end zero

section ring
variable {K : Type} [Ring K]

theorem coeff_add' (a b : Current K) (s : String) :
    coeff (add a b) s = coeff a s + coeff b s := by
  unfold add
  rw [coeff_append]
  have hk : keys (a.map (fun p => (p.1, p.2 + coeff b p.1))) = keys a :=
    keys_map (fun k v => v + coeff b k) a
  rw [hk]
  by_cases h : s ∈ a.keys
  · rw [if_pos h, coeff_map (fun k v => v + coeff b k) a s, if_pos h]
  · rw [if_neg h, coeff_map (fun _ v => 0 + v), keys_filter (fun k => !hasKey a k),
      coeff_filter (fun k => !hasKey a k)]
    have hh : hasKey a s = false := by
      cases hq : hasKey a s
      · rfl
      · exact absurd ((hasKey_iff a s).mp hq) h
    rw [coeff_of_not_mem a s h]
    by_cases hb : s ∈ b.keys
    · have : s ∈ List.filter (fun k => !hasKey a k) (keys b) := by
        simp [List.mem_filter, hb, hh]
      rw [if_pos this]; simp [hh]
    · have : s ∉ List.filter (fun k => !hasKey a k) (keys b) := by
        simp [List.mem_filter, hb]
      rw [if_neg this, coeff_of_not_mem b s hb]; simp

theorem coeff_smulL' (k : K) (c : Current K) (s : String) :
    coeff (smulL k c) s = k * coeff c s := by
  unfold smulL
  rw [coeff_map (fun _ v => k * v)]
  split
  · rfl
  · rename_i h; rw [coeff_of_not_mem c s h]; simp

theorem coeff_smulR' (c : Current K) (k : K) (s : String) :
    coeff (smulR c k) s = coeff c s * k := by
  unfold smulR
  rw [coeff_map (fun _ v => v * k)]
  split
  · rfl
  · rename_i h; rw [coeff_of_not_mem c s h]; simp

theorem coeff_neg' (c : Current K) (s : String) : coeff (neg c) s = - coeff c s := by
  unfold neg; rw [coeff_smulL']; simp

theorem coeff_sub' (a b : Current K) (s : String) :
    coeff (sub a b) s = coeff a s - coeff b s := by
  unfold sub; rw [coeff_add', coeff_neg', sub_eq_add_neg]

theorem nodup_add (a b : Current K) (ha : (keys a).Nodup) (hb : (keys b).Nodup) :
    (keys (add a b)).Nodup := by
  unfold add
  have h1 : keys (a.map (fun p => (p.1, p.2 + coeff b p.1))) = keys a :=
    keys_map (fun k v => v + coeff b k) a
  have h2 : keys ((b.filter (fun p => !hasKey a p.1)).map (fun p => (p.1, 0 + p.2))) =
      (keys b).filter (fun k => !hasKey a k) := by
    rw [keys_map (fun _ v => 0 + v), keys_filter (fun k => !hasKey a k)]
  have : keys (a.map (fun p => (p.1, p.2 + coeff b p.1)) ++
      (b.filter (fun p => !hasKey a p.1)).map (fun p => (p.1, 0 + p.2))) =
      keys a ++ (keys b).filter (fun k => !hasKey a k) := by
    rw [← h1, ← h2]; simp [keys]
  rw [this]
  refine List.nodup_append.mpr ⟨ha, hb.filter _, ?_⟩
  intro x hx y hy e
  subst e
  simp only [List.mem_filter, Bool.not_eq_eq_eq_not, Bool.not_true] at hy
  have := (hasKey_iff a x).mpr hx
  rw [hy.2] at this; cases this

theorem nodup_smulL (k : K) (c : Current K) (h : (keys c).Nodup) : (keys (smulL k c)).Nodup := by
  unfold smulL; rw [keys_map (fun _ v => k * v)]; exact h

theorem nodup_smulR (c : Current K) (k : K) (h : (keys c).Nodup) : (keys (smulR c k)).Nodup := by
  unfold smulR; rw [keys_map (fun _ v => v * k)]; exact h

theorem nodup_sub (a b : Current K) (ha : (keys a).Nodup) (hb : (keys b).Nodup) :
    (keys (sub a b)).Nodup :=
  nodup_add a _ ha (nodup_smulL _ b hb)

end ring
end Current

/-- all `Current` literals of an expression have distinct keys -/
def LitsNodup {K : Type} : Expr K → Prop
  | .lit c => c.keys.Nodup
  | .add l r => LitsNodup l ∧ LitsNodup r
  | .sub l r => LitsNodup l ∧ LitsNodup r
  | .lmul _ e => LitsNodup e
  | .rmul e _ => LitsNodup e

end Acn.Network
