/-
  Primary-side rows: `I_pa = ¼(I_a − I_c)` etc. column by column (`primaryOk`), hence the primary
  aggregate phasor is a quarter of the difference of two secondary aggregates, and its magnitude
  is at most half the secondary bound.
-/
import AcnProofs.Lemmas.SitesXfmr

namespace Acn.SitesPrimary
open Acn Acn.Feas Acn.Sites Acn.Gen.Sites Acn.SitesFeas Acn.SitesTopo Acn.SitesMain Acn.SitesXfmr
variable {K : Type} [Field K] [LinearOrder K] [IsStrictOrderedRing K]
set_option linter.unusedSectionVars false

theorem primary_pt (p a c : Int × Nat) (hp : 0 < p.2) (ha : a.2 = 1) (hc : c.2 = 1)
    (h : turns * p.1 * (a.2 : Int) * (c.2 : Int) = (a.1 * (c.2 : Int) - c.1 * (a.2 : Int)) * (p.2 : Int)) :
    (ratK p.1 p.2 : K) = (ratK a.1 a.2 - ratK c.1 c.2) / 4 := by
  rw [ha, hc] at h
  simp only [turns, Nat.cast_one, mul_one] at h
  have hK : (4 : K) * (p.1 : K) = ((a.1 : K) - (c.1 : K)) * (p.2 : K) := by exact_mod_cast congrArg (Int.cast (R := K)) h
  have hp' : ((p.2 : Nat) : K) ≠ 0 := by exact_mod_cast (Nat.pos_iff_ne_zero.mp hp)
  rw [ratK_eq, ratK_eq, ratK_eq, ha, hc]
  field_simp
  simp only [Nat.cast_one, div_one]
  linear_combination hK

theorem primaryFacts_of (T : Topo) (pri xa xc : Nat) (h : primaryOk T pri xa xc = true) :
    pri < T.rows.length ∧ ∀ j, j < nStations T →
      0 < (coeff (rowOf T pri) j).2 ∧
      turns * (coeff (rowOf T pri) j).1 * ((coeff (rowOf T xa) j).2 : Int) * ((coeff (rowOf T xc) j).2 : Int)
        = ((coeff (rowOf T xa) j).1 * ((coeff (rowOf T xc) j).2 : Int)
            - (coeff (rowOf T xc) j).1 * ((coeff (rowOf T xa) j).2 : Int)) * ((coeff (rowOf T pri) j).2 : Int) := by
  unfold primaryOk at h
  simp only [Bool.and_eq_true, List.all_eq_true, decide_eq_true_eq, List.mem_range] at h
  exact ⟨h.1, fun j hj => h.2 j hj⟩

/-- a primary aggregate (real or imaginary part alike) is ¼ of the difference of two secondary ones -/
theorem primary_agg (T : Topo) (pri xa xc : Nat) (h : primaryOk T pri xa xc = true)
    (hden : ∀ j, j < nStations T → (coeff (rowOf T xa) j).2 = 1 ∧ (coeff (rowOf T xc) j).2 = 1)
    (x c : List K) (hx : x.length = nStations T) (hc : c.length = nStations T) :
    aggRe (denseRow (nStations T) (rowOf T pri)) x c
      = (aggRe (denseRow (nStations T) (rowOf T xa)) x c - aggRe (denseRow (nStations T) (rowOf T xc)) x c) / 4 := by
  obtain ⟨_, hf⟩ := primaryFacts_of T pri xa xc h
  rw [aggRe_eq _ _ _ _ hx hc, aggRe_eq _ _ _ _ hx hc, aggRe_eq _ _ _ _ hx hc, ← Finset.sum_sub_distrib,
    Finset.sum_div]
  apply Finset.sum_congr rfl
  intro j hj
  have hj := Finset.mem_range.mp hj
  rw [primary_pt _ _ _ (hf j hj).1 (hden j hj).1 (hden j hj).2 (hf j hj).2]
  ring

theorem quarter_diff_sq (ra ia rc ic m : K) (ha : ra * ra + ia * ia ≤ m * m) (hc : rc * rc + ic * ic ≤ m * m) :
    4 * (((ra - rc) / 4) * ((ra - rc) / 4) + ((ia - ic) / 4) * ((ia - ic) / 4)) ≤ m * m := by
  nlinarith [sq_nonneg (ra + rc), sq_nonneg (ia + ic)]

/-- the denominators of a checked line triple are 1 -/
theorem triple_den (T : Topo) (tr : Triple) (F : TripleFacts T tr) (j : Nat) (hj : j < nStations T) :
    (coeff (rowOf T tr.a) j).2 = 1 ∧ (coeff (rowOf T tr.b) j).2 = 1 ∧ (coeff (rowOf T tr.c) j).2 = 1 := by
  rw [F.ca j hj, F.cb j hj, F.cc j hj]; exact ⟨rfl, rfl, rfl⟩

/-- implied bound of one primary row: `pri = ¼(xa − xc)`, both secondary magnitudes ≤ m ⇒ |primary| ≤ m/2 -/
theorem primary_implied_row (T : Topo) (G : TopoFacts T) (pri xa xc : Nat)
    (h : primaryOk T pri xa xc = true) (hxa : xa < T.rows.length) (hxc : xc < T.rows.length)
    (hden : ∀ j, j < nStations T → (coeff (rowOf T xa) j).2 = 1 ∧ (coeff (rowOf T xc) j).2 = 1)
    (r : K) (caps x : List K) (hx : x.length = nStations T) (m : K)
    (ha : aggSq T r caps xa x ≤ m * m) (hc : aggSq T r caps xc x ≤ m * m) :
    4 * aggSq T r caps pri x ≤ m * m := by
  have hpri := (primaryFacts_of T pri xa xc h).1
  rw [aggSq_eq T r caps x _ hxa] at ha
  rw [aggSq_eq T r caps x _ hxc] at hc
  rw [aggSq_eq T r caps x _ hpri,
    primary_agg T pri xa xc h hden x _ hx (by simp [G.angLen]),
    show aggIm (denseRow (nStations T) (rowOf T pri)) x (T.angles.map sinK)
      = (aggIm (denseRow (nStations T) (rowOf T xa)) x (T.angles.map sinK)
          - aggIm (denseRow (nStations T) (rowOf T xc)) x (T.angles.map sinK)) / 4 from
      primary_agg T pri xa xc h hden x _ hx (by simp [G.angLen])]
  exact quarter_diff_sq _ _ _ _ m ha hc

theorem xfmr_primaryOk (T : Topo) (x : Xfmr) (h : xfmrOk T x = true) :
    primaryOk T x.pa x.sec.a x.sec.c = true ∧ primaryOk T x.pb x.sec.b x.sec.a = true ∧
    primaryOk T x.pc x.sec.c x.sec.b = true := by
  unfold xfmrOk at h
  simp only [Bool.and_eq_true] at h
  exact ⟨h.1.1.1.2, h.1.1.2, h.1.2⟩

end Acn.SitesPrimary
