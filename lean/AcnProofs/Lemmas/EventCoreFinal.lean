/-
  Helper lemmas for C01 across interruptions (AcnProofs/C01Resume.lean): every clause of C01 about a COMPLETED
  simulation, bundled as one predicate `Completed cfg c` on the event core, and derived from the loop invariant at the
  horizon.  (The same facts are the theorems `plugged_once` … `all_vacant_at_end` of AcnProofs/C01.lean; that module
  imports the `EventCoreSim` projection family, whose names clash with the `ResumeRun` family C01Resume builds on, so the
  bundle lives here, below both.)  `Completed` does not mention the ghost field `invoked`.
-/
import AcnProofs.Lemmas.EventCoreRun

namespace Acn.EventCore
open Acn

/-- what C01 says about the state in which `run()` returns -/
structure Completed (cfg : Cfg) (c : Core) : Prop where
  /-- the event queue is empty -/
  queue_empty : c.pending = []
  /-- no recompute request is left over -/
  resolve : c.resolve = false
  /-- one period after the last event -/
  final_iteration : c.iter = horizon cfg
  /-- every station is vacant -/
  vacant : ∀ st, c.occ st = none
  /-- exactly one plug-in entry per session, at its arrival -/
  plugged_once : ∀ x ∈ cfg.sessions,
    c.eventHist.filter (fun e => e.kind == .plugin && e.sess == x.id) = [plugEv x]
  /-- exactly one unplug entry per session, at its departure -/
  unplugged_once : ∀ x ∈ cfg.sessions,
    c.eventHist.filter (fun e => e.kind == .unplug && e.sess == x.id) = [unplugEv x]
  /-- `event_history` is ordered by (timestamp, precedence) -/
  sorted : c.eventHist.Pairwise (fun a b => a.keyLe b = true)
  /-- `event_history` holds every event of the scenario exactly once and nothing else -/
  complete : c.eventHist.Perm (cfg.sessions.map plugEv ++ cfg.sessions.map unplugEv ++ cfg.recomputes.map recEv)
  /-- the keys of `ev_history` are the plugged-in sessions in plug-in order -/
  evh : c.evHist = (c.eventHist.filter (fun e => e.kind == .plugin)).map (·.sess)
  /-- … every session once -/
  evh_perm : c.evHist.Perm (cfg.sessions.map (·.id))

theorem dep_lt_horizon {cfg : Cfg} {x : Session} (hx : x ∈ cfg.sessions) : x.departure < horizon cfg := by
  have := dep_le_maxTs hx
  have := neg_one_le_maxTs cfg
  unfold horizon; omega

theorem rec_lt_horizon {cfg : Cfg} {r : Int × String} (hr : r ∈ cfg.recomputes) : r.1 < horizon cfg := by
  have := rec_le_maxTs hr
  have := neg_one_le_maxTs cfg
  unfold horizon; omega

/-- the loop invariant at the horizon gives every clause -/
theorem completed_of_inv {cfg : Cfg} (hv : Valid cfg) {c : Core} (hI : Inv cfg (horizon cfg) c) : Completed cfg c := by
  have hp : c.pending = [] := by
    by_contra h
    exact absurd ((pending_ne_nil_iff hv hI).1 h) (lt_irrefl _)
  have hplug : ∀ x ∈ cfg.sessions,
      c.eventHist.filter (fun e => e.kind == .plugin && e.sess == x.id) = [plugEv x] := by
    intro x hx
    have hd := dep_lt_horizon hx
    have ha := hv.arr_lt_dep x hx
    apply eq_singleton_of_nodup (hI.hist_nodup.filter _)
    · intro e he
      obtain ⟨hm, hp⟩ := List.mem_filter.1 he
      simp only [Bool.and_eq_true, beq_iff_eq] at hp
      rcases (hI.hist_mem e).1 hm with ⟨y, hy, rfl, _⟩ | ⟨y, _, rfl, _⟩ | ⟨r, _, rfl, _⟩
      · rw [id_inj hv hy hx hp.2]
      · simp [unplugEv] at hp
      · simp [recEv] at hp
    · exact List.mem_filter.2 ⟨(hI.hist_mem _).2 (Or.inl ⟨x, hx, rfl, by omega⟩), by simp [plugEv]⟩
  have hunplug : ∀ x ∈ cfg.sessions,
      c.eventHist.filter (fun e => e.kind == .unplug && e.sess == x.id) = [unplugEv x] := by
    intro x hx
    have hd := dep_lt_horizon hx
    apply eq_singleton_of_nodup (hI.hist_nodup.filter _)
    · intro e he
      obtain ⟨hm, hp⟩ := List.mem_filter.1 he
      simp only [Bool.and_eq_true, beq_iff_eq] at hp
      rcases (hI.hist_mem e).1 hm with ⟨y, _, rfl, _⟩ | ⟨y, hy, rfl, _⟩ | ⟨r, _, rfl, _⟩
      · simp [plugEv] at hp
      · rw [id_inj hv hy hx hp.2]
      · simp [recEv] at hp
    · exact List.mem_filter.2 ⟨(hI.hist_mem _).2 (Or.inr (Or.inl ⟨x, hx, rfl, by omega⟩)), by simp [unplugEv]⟩
  have hcomplete : c.eventHist.Perm
      (cfg.sessions.map plugEv ++ cfg.sessions.map unplugEv ++ cfg.recomputes.map recEv) := by
    have hS := List.Nodup.of_map _ hv.ids_nodup
    have hR := List.Nodup.of_map _ hv.tags_nodup
    refine (List.perm_ext_iff_of_nodup hI.hist_nodup ?_).2 ?_
    · refine List.nodup_append.2 ⟨List.nodup_append.2 ⟨?_, ?_, ?_⟩, ?_, ?_⟩
      · exact (List.nodup_map_iff_inj_on hS).2 fun x hx y hy h => plugEv_inj hv hx hy h
      · exact (List.nodup_map_iff_inj_on hS).2 fun x hx y hy h => unplugEv_inj hv hx hy h
      · intro a ha b hb
        obtain ⟨x, _, rfl⟩ := List.mem_map.1 ha
        obtain ⟨y, _, rfl⟩ := List.mem_map.1 hb
        simp
      · exact (List.nodup_map_iff_inj_on hR).2 fun x hx y hy h => recEv_inj hv hx hy h
      · intro a ha b hb
        obtain ⟨r, _, rfl⟩ := List.mem_map.1 hb
        rcases List.mem_append.1 ha with ha | ha <;> obtain ⟨x, _, rfl⟩ := List.mem_map.1 ha <;> simp
    · intro e
      rw [hI.hist_mem e]
      simp only [List.mem_append, List.mem_map]
      constructor
      · rintro (⟨x, hx, rfl, _⟩ | ⟨x, hx, rfl, _⟩ | ⟨r, hr, rfl, _⟩)
        · exact Or.inl (Or.inl ⟨x, hx, rfl⟩)
        · exact Or.inl (Or.inr ⟨x, hx, rfl⟩)
        · exact Or.inr ⟨r, hr, rfl⟩
      · rintro ((⟨x, hx, rfl⟩ | ⟨x, hx, rfl⟩) | ⟨r, hr, rfl⟩)
        · have := dep_lt_horizon hx; have := hv.arr_lt_dep x hx
          exact Or.inl ⟨x, hx, rfl, by omega⟩
        · exact Or.inr (Or.inl ⟨x, hx, rfl, dep_lt_horizon hx⟩)
        · exact Or.inr (Or.inr ⟨r, hr, rfl, rec_lt_horizon hr⟩)
  have hevh : c.evHist.Perm (cfg.sessions.map (·.id)) := by
    rw [hI.evh]
    have hp := hcomplete.filter (fun e => e.kind == .plugin)
    have hf : (cfg.sessions.map plugEv ++ cfg.sessions.map unplugEv ++ cfg.recomputes.map recEv).filter
        (fun e => e.kind == .plugin) = cfg.sessions.map plugEv := by
      simp [List.filter_append, List.filter_map, Function.comp_def, plugEv, unplugEv, recEv]
    rw [hf] at hp
    have := hp.map (·.sess)
    simpa [List.map_map, Function.comp_def, plugEv] using this
  refine ⟨hp, hI.resolve, hI.iter, ?_, hplug, hunplug, hI.hist_sorted, hcomplete, hI.evh, hevh⟩
  intro st
  rcases h : c.occ st with _ | x
  · rfl
  · obtain ⟨hx, _, _, hd⟩ := (hI.occ st x).1 h
    have := dep_lt_horizon hx
    omega

/-- the uninterrupted run of the event core (no stage raises) ends `Completed`, for every fuel ≥ horizon -/
theorem run_completed {cfg : Cfg} (hv : Valid cfg) (n : Nat) (hn : horizon cfg ≤ n) :
    ∃ c, run cfg noFail noFail n (init cfg) = (c, none) ∧ Completed cfg c := by
  obtain ⟨c, hr, hI⟩ := run_spec hv (sched := noFail) (apply := noFail) (fun _ => rfl) (fun _ => rfl) n 0
    (init cfg) (init_inv hv) (Nat.zero_le _)
  rw [Nat.min_eq_right (by omega)] at hI
  exact ⟨c, hr, completed_of_inv hv hI⟩

/-- `Completed` does not read the invocation record -/
theorem completed_congr {cfg : Cfg} {c c' : Core} (h : Completed cfg c) (h1 : c'.pending = c.pending)
    (h2 : c'.resolve = c.resolve) (h3 : c'.iter = c.iter) (h4 : c'.occ = c.occ) (h5 : c'.eventHist = c.eventHist)
    (h6 : c'.evHist = c.evHist) : Completed cfg c' := by
  refine ⟨h1 ▸ h.queue_empty, h2 ▸ h.resolve, h3 ▸ h.final_iteration, ?_, ?_, ?_, h5 ▸ h.sorted, h5 ▸ h.complete, ?_,
    h6 ▸ h.evh_perm⟩
  · intro st; rw [h4]; exact h.vacant st
  · intro x hx; rw [h5]; exact h.plugged_once x hx
  · intro x hx; rw [h5]; exact h.unplugged_once x hx
  · rw [h6, h5]; exact h.evh

end Acn.EventCore
