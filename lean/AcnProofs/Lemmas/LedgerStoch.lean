/-
  C02's energy ledger without the static-table clauses: `LedgerQ` is `Acn.Ledger.LedgerP` minus
  `occ_sound` / `log_sound` (which say that an occupant sits at the station its session record names —
  false on a `StochasticNetwork`, where the network assigns the spaces).  `applyStage_ledgerQ` is
  `applyStage_ledger` (LedgerStep.lean; same proof) with the only consequence of `occ_sound` that
  the proof uses — no session on two stations (`DistinctOcc`) — as a hypothesis.
-/
import AcnProofs.Lemmas.LedgerStep

set_option linter.unusedSectionVars false
set_option linter.unusedSimpArgs false
set_option linter.unusedVariables false
set_option linter.unusedTactic false
set_option linter.unreachableTactic false

namespace Acn.Ledger
open Acn Acn.Sim Acn.EventCore Acn.Evse Finset

variable {K : Type} [Field K] [LinearOrder K] [IsStrictOrderedRing K] [HasExp K]

/-- the ledger invariant at the head of period `t`: every EV's delivered energy (and battery gain)
    is the sum, over the periods `τ < t` and the stations `i`, of the energy that the recorded rate
    `charging_rates[i, τ]` carries at that station's voltage, counted where the occupancy log says the
    EV sat there; vacant stations and future columns hold 0; `peak` is the running maximum of the
    aggregate current -/
structure LedgerQ (cfg : Cfg K) (t : Nat) (rates : Pilots.Mat K) (peak : K) (evs : List (Ev K))
    (log : List (List (Option String))) : Prop where
  log_len : log.length = t
  rates_wf : rates.WF cfg.stations.length
  ids : evs.map (·.session) = cfg.evs.map (·.session)
  gain : ∀ id e0 e, evIn cfg.evs id = some e0 → evIn evs id = some e →
    e.delivered - e0.delivered = e.batt.charge - e0.batt.charge
  sess : ∀ id e0 e, evIn cfg.evs id = some e0 → evIn evs id = some e →
    e.delivered - e0.delivered = sessionEnergy cfg rates log id t
  vacant : ∀ τ i, τ < t → i < cfg.stations.length → occAt log τ i = none → rates.get i τ = 0
  future : ∀ τ i, t ≤ τ → rates.get i τ = 0
  peak_eq : peak = peakUpTo rates cfg.stations.length t

theorem LedgerP.toQ {cfg : Cfg K} {t : Nat} {occ : String → Option Session} {rates : Pilots.Mat K} {peak : K}
    {evs : List (Ev K)} {log : List (List (Option String))} (h : LedgerP cfg t occ rates peak evs log) :
    LedgerQ cfg t rates peak evs log :=
  ⟨h.log_len, h.rates_wf, h.ids, h.gain, h.sess, h.vacant, h.future, h.peak_eq⟩

theorem applyStage_ledgerQ {cfg : Cfg K} {a s' : State K} (hd : DistinctOcc a.core.occ cfg.stations)
    (hL : LedgerQ cfg a.core.iter a.rates a.peak a.evs a.occLog) (h : applyStage cfg a = (s', none)) :
    LedgerQ cfg (a.core.iter + 1) s'.rates s'.peak s'.evs s'.occLog := by
  obtain ⟨w, s2, s3, h2, h3, rfl⟩ := applyStage_ok h
  obtain ⟨c2, r2, p2, l2, _, m2, hB, hC⟩ :=
    updatePilotsFrom_ok cfg cfg.stations 0 _ s2 h2 hd
  simp only at c2 r2 p2 l2 m2 hB hC
  have hwf2 : s2.rates.WF cfg.stations.length := by
    rw [r2]; exact Pilots.increaseWidth_wf hL.rates_wf w
  obtain ⟨c3, e3, l3, pk3, wf3, g3⟩ := storeRates_ok h3 hwf2
  have c3' : s3.core = a.core := c3.trans c2
  simp only [advance, c3', e3, l3, l2]
  -- notation
  have hlen := hL.log_len
  have hrate : ∀ i τ, s3.rates.get i τ =
      if τ = a.core.iter then (currentRates cfg s2).getD i 0 else a.rates.get i τ := by
    intro i τ
    rw [g3, c2, r2, Pilots.increaseWidth_get']
  have hocc_new : ∀ i, occAt (a.occLog ++ [cfg.stations.map fun st => (a.core.occ st.id).map (·.id)])
      a.core.iter i = match cfg.stations[i]? with
        | some st => occId a.core.occ st
        | none => none := by
    intro i
    have := occAt_append_eq a.occLog (cfg.stations.map fun st => (a.core.occ st.id).map (·.id)) i
    rw [hlen] at this
    exact this.trans (occRow_getD cfg a.core.occ i)
  have hocc_old : ∀ τ i, τ < a.core.iter →
      occAt (a.occLog ++ [cfg.stations.map fun st => (a.core.occ st.id).map (·.id)]) τ i =
        occAt a.occLog τ i := by
    intro τ i hτ
    exact occAt_append_lt _ _ (by rw [hlen]; exact hτ) i
  generalize hlog' : a.occLog ++ [cfg.stations.map fun st => (a.core.occ st.id).map (·.id)] = log' at *
  have hterm_old : ∀ id τ i, τ < a.core.iter →
      term cfg s3.rates log' id τ i = term cfg a.rates a.occLog id τ i := by
    intro id τ i hτ
    unfold term
    rw [hocc_old τ i hτ, hrate, if_neg (Nat.ne_of_lt hτ)]
  -- what the period does to one EV
  have hdelta : ∀ id e e', evIn a.evs id = some e → evIn s2.evs id = some e' →
      e'.delivered - e.delivered = ∑ i ∈ range cfg.stations.length, term cfg s3.rates log' id a.core.iter i ∧
      e'.batt.charge - e.batt.charge = e'.delivered - e.delivered := by
    intro id e e' he he'
    by_cases hex : ∃ st ∈ cfg.stations, occId a.core.occ st = some id
    · obtain ⟨st, hst, hid⟩ := hex
      have hid0 := hid
      simp only [occId] at hid
      cases hx : a.core.occ st.id with
      | none => simp [hx] at hid
      | some x =>
        simp only [hx, Option.map_some, Option.some.injEq] at hid
        subst hid
        obtain ⟨e'', he'', d1, d2⟩ := hC st hst x e hx he
        rw [he'] at he''
        obtain rfl : e' = e'' := by simpa using he''
        obtain ⟨k, hk⟩ := List.mem_iff_getElem?.1 hst
        have hkn : k < cfg.stations.length := (List.getElem?_eq_some_iff.1 hk).1
        refine ⟨?_, by rw [d1, d2]⟩
        rw [Finset.sum_eq_single k]
        · unfold term
          rw [hocc_new k, hk]
          simp only [hid0, if_true]
          rw [hrate, if_pos rfl, currentRates_getD, hk]
          simp only
          rw [occupantEv_eq, c2]
          simp only [hx, he']
          rw [volt_of_getElem? hk, d1]
        · intro j _ hjk
          unfold term
          rw [hocc_new j]
          cases hj : cfg.stations[j]? with
          | none => simp
          | some b =>
            simp only
            by_cases hb : occId a.core.occ b = some x.id
            · exact absurd (distinctOcc_index hd hj hk hb hid0) hjk
            · rw [if_neg hb]
        · intro hk'; exact absurd (Finset.mem_range.2 hkn) hk'
    · have hno : ∀ st ∈ cfg.stations, occId a.core.occ st ≠ some id := fun st hst hc => hex ⟨st, hst, hc⟩
      have := hB id hno
      rw [he', he] at this
      obtain rfl : e' = e := by simpa using this
      refine ⟨?_, by ring⟩
      rw [sub_self]
      symm
      apply Finset.sum_eq_zero
      intro i _
      unfold term
      rw [hocc_new i]
      cases hi : cfg.stations[i]? with
      | none => simp
      | some b =>
        simp only
        rw [if_neg (hno b (List.mem_of_getElem? hi))]
  have hids2 : s2.evs.map (·.session) = a.evs.map (·.session) := m2
  refine ⟨?_, wf3, hids2.trans hL.ids, ?_, ?_, ?_, ?_, ?_⟩
  · -- log_len
    rw [← hlog']; simp [hlen]
  · -- gain
    intro id e0 e' h0 he'
    obtain ⟨e, he⟩ := evIn_exists_of_ids hids2 he'
    have g := hL.gain id e0 e h0 he
    obtain ⟨_, d2⟩ := hdelta id e e' he he'
    linear_combination g - d2
  · -- sess
    intro id e0 e' h0 he'
    obtain ⟨e, he⟩ := evIn_exists_of_ids hids2 he'
    have g := hL.sess id e0 e h0 he
    obtain ⟨d1, _⟩ := hdelta id e e' he he'
    unfold sessionEnergy at g ⊢
    rw [Finset.sum_range_succ, ← d1]
    have : ∑ τ ∈ range a.core.iter, ∑ i ∈ range cfg.stations.length, term cfg s3.rates log' id τ i =
        ∑ τ ∈ range a.core.iter, ∑ i ∈ range cfg.stations.length, term cfg a.rates a.occLog id τ i := by
      apply Finset.sum_congr rfl
      intro τ hτ
      apply Finset.sum_congr rfl
      intro i _
      exact hterm_old id τ i (Finset.mem_range.1 hτ)
    rw [this, ← g]
    ring
  · -- vacant
    intro τ i hτ hi hv
    rw [hrate]
    by_cases hτt : τ = a.core.iter
    · subst hτt
      rw [if_pos rfl, currentRates_getD]
      rw [hocc_new i] at hv
      obtain ⟨st, hst⟩ : ∃ st, cfg.stations[i]? = some st :=
        ⟨cfg.stations[i], List.getElem?_eq_getElem hi⟩
      simp only [hst] at hv ⊢
      rw [occupantEv_eq, c2]
      simp only [occId] at hv
      cases hx : a.core.occ st.id with
      | none => rfl
      | some x => simp [hx] at hv
    · rw [if_neg hτt]
      have hlt : τ < a.core.iter := by omega
      rw [hocc_old τ i hlt] at hv
      exact hL.vacant τ i hlt hi hv
  · -- future
    intro τ i hτ
    rw [hrate, if_neg (by omega)]
    exact hL.future τ i (by omega)
  · -- peak
    rw [pk3, p2, hL.peak_eq]
    simp only [peakUpTo]
    rw [peakUpTo_congr (m := a.rates) (m' := s3.rates) _ _
      (fun i τ hτ => by rw [hrate, if_neg (Nat.ne_of_lt hτ)])]
    congr 1
    rw [sumK_eq_sum]
    have hcl : (currentRates cfg s2).length = cfg.stations.length := by simp [currentRates]
    rw [hcl]
    unfold aggCurrent
    apply Finset.sum_congr rfl
    intro i _
    rw [hrate, if_pos rfl]

end Acn.Ledger
