/-
  Helper lemmas for C05 (2/3): traces of `EventCore.run` (the loop-head states passed), the trigger
  characterisation at every head of a trace, and the instantiation for valid configurations
  (`popsAt h ≠ [] ↔ some event of the scenario carries timestamp h.iter`).
-/
import AcnProofs.Lemmas.SchedTrigger
import AcnProofs.Lemmas.EventCoreRun
import AcnModel.Ignored

namespace Acn.EventCore
open Acn

/-- `TraceG g cfg sched apply c hs c'`: starting at loop head `c`, a loop whose continuation test is `g`
    passes the heads `hs` (`c` first), each trip raising nothing, and arrives at loop head `c'`.
    Nothing below depends on WHAT keeps the loop going: `g = guard` is `Simulator.run` over plug-in /
    unplug / recompute events (`Trace`), `g = guardI ign` is the same loop over a queue that also holds
    events of ignored types (`AcnModel/Ignored.lean`). -/
inductive TraceG (g : Core → Bool) (cfg : Cfg) (sched apply : Core → Option Err) : Core → List Core → Core → Prop
  | nil (c : Core) : TraceG g cfg sched apply c [] c
  | cons {c c1 c' : Core} {hs : List Core} : g c = true → body cfg sched apply c = (c1, none) →
      TraceG g cfg sched apply c1 hs c' → TraceG g cfg sched apply c (c :: hs) c'

/-- the traces of `EventCore.run` -/
abbrev Trace (cfg : Cfg) (sched apply : Core → Option Err) : Core → List Core → Core → Prop :=
  TraceG guard cfg sched apply

section
variable {cfg : Cfg} {sched apply : Core → Option Err} {g : Core → Bool}

/-- every run of the loop (any continuation test) is a trace, followed (when it aborts) by one raising trip -/
theorem runG_trace : ∀ (n : Nat) (c c' : Core) (o : Option Err), runG g cfg sched apply n c = (c', o) →
    match o with
    | none => ∃ hs, TraceG g cfg sched apply c hs c' ∧ hs.length ≤ n ∧ (hs.length = n ∨ g c' = false)
    | some e => ∃ hs cl, TraceG g cfg sched apply c hs cl ∧ hs.length < n ∧ g cl = true ∧
        body cfg sched apply cl = (c', some e) := by
  intro n
  induction n with
  | zero =>
    intro c c' o h
    simp only [runG, Prod.mk.injEq] at h
    obtain ⟨rfl, rfl⟩ := h
    exact ⟨[], TraceG.nil _, by simp, Or.inl rfl⟩
  | succ n ih =>
    intro c c' o h
    unfold runG at h
    by_cases hg : g c = true
    · rw [if_pos hg] at h
      rcases hb : body cfg sched apply c with ⟨c1, _ | e⟩
      · rw [hb] at h
        simp only at h
        have := ih c1 c' o h
        cases o with
        | none =>
          obtain ⟨hs, ht, hl, hor⟩ := this
          refine ⟨c :: hs, TraceG.cons hg hb ht, by simp; omega, ?_⟩
          rcases hor with hor | hor
          · exact Or.inl (by simp [hor])
          · exact Or.inr hor
        | some e =>
          obtain ⟨hs, cl, ht, hl, hgl, hbl⟩ := this
          exact ⟨c :: hs, cl, TraceG.cons hg hb ht, by simp; omega, hgl, hbl⟩
      · rw [hb] at h
        simp only [Prod.mk.injEq] at h
        obtain ⟨rfl, rfl⟩ := h
        exact ⟨[], c, TraceG.nil _, by simp, hg, hb⟩
    · rw [if_neg hg] at h
      simp only [Prod.mk.injEq] at h
      obtain ⟨rfl, rfl⟩ := h
      exact ⟨[], TraceG.nil _, by simp, Or.inr (by simpa using hg)⟩

/-- `run` is the loop whose continuation test is `guard`; without ignored-type events `runI` is `run` -/
theorem runG_guard : ∀ (n : Nat) (c : Core), runG guard cfg sched apply n c = run cfg sched apply n c := by
  intro n
  induction n with
  | zero => intro c; rfl
  | succ n ih =>
    intro c
    unfold runG run
    split
    · rcases body cfg sched apply c with ⟨c1, _ | e⟩
      · exact ih c1
      · rfl
    · rfl

theorem guardI_nil : guardI [] = guard := by
  funext c
  simp [guardI, ignoredPending]

theorem runI_nil_eq (n : Nat) (c : Core) : runI cfg sched apply [] n c = run cfg sched apply n c := by
  unfold runI
  rw [guardI_nil]
  exact runG_guard n c

/-- every run is a trace, followed (when it aborts) by one raising trip -/
theorem run_trace : ∀ (n : Nat) (c c' : Core) (o : Option Err), run cfg sched apply n c = (c', o) →
    match o with
    | none => ∃ hs, Trace cfg sched apply c hs c' ∧ hs.length ≤ n ∧ (hs.length = n ∨ guard c' = false)
    | some e => ∃ hs cl, Trace cfg sched apply c hs cl ∧ hs.length < n ∧ guard cl = true ∧
        body cfg sched apply cl = (c', some e) :=
  fun n c c' o h => runG_trace (g := guard) n c c' o (by rw [runG_guard]; exact h)

/-- along a trace the invariant is kept and `invoked` only grows, by periods of the trace -/
theorem trace_head {c c' : Core} {hs : List Core} (ht : TraceG g cfg sched apply c hs c') (hc : Head c) :
    Head c' ∧ c'.iter = c.iter + hs.length ∧
      ∃ ext, c'.invoked = c.invoked ++ ext ∧ ∀ t ∈ ext, c.iter ≤ t ∧ t < c'.iter := by
  induction ht with
  | nil c => exact ⟨hc, by simp, [], by simp, by simp⟩
  | @cons c c1 c' hs hg hb _ ih =>
    obtain ⟨h1, h2, h3⟩ := body_head hc hb
    obtain ⟨i1, i2, ext, i3, i4⟩ := ih h1
    refine ⟨i1, by rw [i2, h2]; simp; omega, delta cfg.maxRecompute c ++ ext, by rw [i3, h3]; simp, ?_⟩
    intro t ht'
    rcases List.mem_append.1 ht' with ht' | ht'
    · unfold delta at ht'
      split at ht'
      · simp at ht'; subst ht'; exact ⟨le_refl _, by rw [i2, h2]; omega⟩
      · simp at ht'
    · have := i4 t ht'
      exact ⟨by omega, this.2⟩

/-- a trace can be cut at any of its heads -/
theorem trace_split {c c' : Core} {hs : List Core} (ht : TraceG g cfg sched apply c hs c') {h : Core} (hh : h ∈ hs) :
    ∃ hs1 hs2, hs = hs1 ++ h :: hs2 ∧ TraceG g cfg sched apply c hs1 h ∧ TraceG g cfg sched apply h (h :: hs2) c' := by
  induction ht with
  | nil c => simp at hh
  | @cons c c1 c' hs hg hb ht' ih =>
    rcases List.mem_cons.1 hh with rfl | hh
    · exact ⟨[], hs, rfl, TraceG.nil _, TraceG.cons hg hb ht'⟩
    · obtain ⟨hs1, hs2, e, t1, t2⟩ := ih hh
      exact ⟨c :: hs1, hs2, by rw [e]; rfl, TraceG.cons hg hb t1, t2⟩

/-- AT EVERY HEAD `h` OF A TRACE: `h` satisfies the invariant, the invocations recorded at the end
    that lie before `h.iter` are exactly those `h` had seen, and period `h.iter` is an invocation
    period iff the closed-form trigger holds in `h` -/
theorem trace_at {c c' : Core} {hs : List Core} (ht : TraceG g cfg sched apply c hs c') (hc : Head c)
    {h : Core} (hh : h ∈ hs) :
    Head h ∧ c.iter ≤ h.iter ∧ h.iter < c'.iter ∧ c'.invoked.filter (· < h.iter) = h.invoked ∧
      (h.iter ∈ c'.invoked ↔ trig cfg.maxRecompute (popsAt h) h.invoked.getLast? h.iter = true) := by
  obtain ⟨hs1, hs2, _, t1, t2⟩ := trace_split ht hh
  obtain ⟨hH, hit, _⟩ := trace_head t1 hc
  cases t2 with
  | @cons _ h1 _ _ hg hb t3 =>
    obtain ⟨b1, b2, b3⟩ := body_head hH hb
    obtain ⟨_, e2, ext, e3, e4⟩ := trace_head t3 b1
    have hinv : c'.invoked = h.invoked ++ (delta cfg.maxRecompute h ++ ext) := by rw [e3, b3]; simp
    have hext : ∀ t ∈ ext, h.iter < t := fun t ht' => by have := (e4 t ht').1; omega
    refine ⟨hH, by omega, by omega, ?_, ?_⟩
    · rw [hinv, List.filter_append]
      have hA : h.invoked.filter (· < h.iter) = h.invoked :=
        List.filter_eq_self.2 (fun t ht' => by simpa using hH.lt_iter t ht')
      have hB : (delta cfg.maxRecompute h ++ ext).filter (· < h.iter) = [] := by
        rw [List.filter_eq_nil_iff]
        intro t ht'
        rcases List.mem_append.1 ht' with ht' | ht'
        · unfold delta at ht'
          split at ht'
          · simp at ht'; subst ht'; simp
          · simp at ht'
        · have := hext t ht'; simp; omega
      rw [hA, hB, List.append_nil]
    · rw [hinv]
      constructor
      · intro hm
        rcases List.mem_append.1 hm with hm | hm
        · exact absurd (hH.lt_iter _ hm) (lt_irrefl _)
        · rcases List.mem_append.1 hm with hm | hm
          · unfold delta at hm
            split at hm
            · assumption
            · simp at hm
          · exact absurd (hext _ hm) (lt_irrefl _)
      · intro htr
        simp [delta, htr]

/-- nothing else is ever recorded: every invocation period is the period of a head of the trace -/
theorem trace_cover {c c' : Core} {hs : List Core} (ht : TraceG g cfg sched apply c hs c') (hc : Head c) :
    ∀ t ∈ c'.invoked, t ∈ c.invoked ∨ ∃ h ∈ hs, h.iter = t := by
  induction ht with
  | nil c => intro t ht'; exact Or.inl ht'
  | @cons c c1 c' hs hg hb _ ih =>
    obtain ⟨h1, _, h3⟩ := body_head hc hb
    intro t ht'
    rcases ih h1 t ht' with hm | ⟨h, hh, rfl⟩
    · rw [h3] at hm
      rcases List.mem_append.1 hm with hm | hm
      · exact Or.inl hm
      · unfold delta at hm
        split at hm
        · simp at hm; subst hm; exact Or.inr ⟨c, by simp, rfl⟩
        · simp at hm
    · exact Or.inr ⟨h, by simp [hh], rfl⟩

/-- the heads of a trace are the consecutive periods -/
theorem trace_iters {c c' : Core} {hs : List Core} (ht : TraceG g cfg sched apply c hs c') (hc : Head c) :
    hs.map (·.iter) = List.range' c.iter hs.length := by
  induction ht with
  | nil c => simp
  | @cons c c1 c' hs hg hb _ ih =>
    obtain ⟨h1, h2, _⟩ := body_head hc hb
    simp only [List.map_cons, List.length_cons, List.range'_succ]
    rw [ih h1, h2]

/-! ### valid configurations: what is popped in period `t` -/

/-- some event of the scenario carries timestamp `t` -/
def EventAt (cfg : Cfg) (t : Nat) : Prop :=
  (∃ x ∈ cfg.sessions, x.arrival = t ∨ x.departure = t) ∨ ∃ r ∈ cfg.recomputes, r.1 = t

theorem exists_cur_iff (hv : Valid cfg) (t : Nat) : (∃ e, Cur cfg (t : Int) e) ↔ EventAt cfg t := by
  unfold Cur EventAt
  constructor
  · rintro ⟨e, ⟨x, hx, _, h⟩ | ⟨x, hx, _, _, h⟩ | ⟨r, hr, _, h⟩⟩
    · exact Or.inl ⟨x, hx, Or.inl h⟩
    · exact Or.inl ⟨x, hx, Or.inr h⟩
    · exact Or.inr ⟨r, hr, h⟩
  · rintro (⟨x, hx, h | h⟩ | ⟨r, hr, h⟩)
    · exact ⟨plugEv x, Or.inl ⟨x, hx, rfl, h⟩⟩
    · have := hv.arr_lt_dep x hx
      exact ⟨unplugEv x, Or.inr (Or.inl ⟨x, hx, rfl, by omega, h⟩)⟩
    · exact ⟨recEv r, Or.inr (Or.inr ⟨r, hr, rfl, h⟩)⟩

theorem popsAt_ne_nil_iff (hv : Valid cfg) {t : Nat} {c : Core} (hI : Inv cfg t c) :
    popsAt c ≠ [] ↔ EventAt cfg t := by
  rw [← exists_cur_iff hv]
  have hmem : ∀ e, e ∈ popsAt c ↔ Cur cfg (t : Int) e := by
    intro e
    unfold popsAt popCurrent
    rw [mem_sortByKey, List.mem_filter, hI.pend_mem, cur_iff_expected_le, hI.iter]
    simp
  constructor
  · intro h
    obtain ⟨e, he⟩ := List.exists_mem_of_ne_nil _ h
    exact ⟨e, (hmem e).1 he⟩
  · rintro ⟨e, he⟩ hn
    have := (hmem e).2 he
    rw [hn] at this
    simp at this

/-- along a trace that starts in a state satisfying sim-core's loop invariant `Inv`, every head
    satisfies it for its own period -/
theorem trace_inv (hv : Valid cfg) {c c' : Core} {hs : List Core} (ht : TraceG g cfg sched apply c hs c')
    {t : Nat} (hI : Inv cfg t c) : Inv cfg (t + hs.length) c' ∧ ∀ h ∈ hs, Inv cfg h.iter h := by
  induction ht generalizing t with
  | nil c => exact ⟨by simpa using hI, by simp⟩
  | @cons c c1 c' hs hg hb _ ih =>
    obtain ⟨c2, hb2, hI2⟩ := body_ok (cfg := cfg) hv (sched := noFail) (apply := noFail) (fun _ => rfl) (fun _ => rfl) hI
    have := body_noFail_of_ok hb
    rw [hb2] at this
    simp only [Prod.mk.injEq, and_true] at this
    subst this
    obtain ⟨i1, i2⟩ := ih hI2
    refine ⟨by simpa [Nat.add_assoc, Nat.add_comm 1] using i1, ?_⟩
    intro h hh
    rcases List.mem_cons.1 hh with rfl | hh
    · rw [hI.iter]; exact hI
    · exact i2 h hh

end
end Acn.EventCore
