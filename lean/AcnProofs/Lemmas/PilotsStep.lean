/-
  Helper lemmas for C04, part 4: loop trips with an arbitrary growth target (`run()` and `step()`
  are instances), and `Interface.last_applied_pilot_signals`.
-/
import AcnProofs.Lemmas.PilotsRun

set_option linter.unusedSimpArgs false
set_option linter.unusedSectionVars false

namespace Acn.Pilots
variable {K : Type} [OfNat K 0]

theorem periodStep_eq_W (stations : List String) (m : Mat K) (p : Period K) :
    periodStep stations m p = periodStepW stations m p (runWidth p.t p.lastTs) := rfl

theorem runPeriods_eq_runTrips' (stations : List String) (m : Mat K) (ps : List (Period K)) :
    runPeriods stations m ps = runTrips stations m (tripsOfRun ps) := by
  induction ps generalizing m with
  | nil => rfl
  | cons p rest ih =>
    simp only [runPeriods, tripsOfRun, List.map_cons, runTrips, periodStep_eq_W]
    cases periodStepW stations m p (runWidth p.t p.lastTs) with
    | error e => rfl
    | ok r =>
      obtain ⟨m1, col⟩ := r
      simp only
      rw [ih m1]
      rfl

/-- matrix after one loop trip with growth target `w`, when the trip does not raise -/
def afterPeriodW (stations : List String) (m : Mat K) (p : Period K) (w : Nat) : Mat K :=
  increaseWidth ((subsOf [p]).foldl (submit stations) m) w

theorem periodStepW_ok {stations : List String} {m : Mat K} {p : Period K} {w : Nat} {m' : Mat K}
    {col : List K} (h : periodStepW stations m p w = .ok (m', col)) :
    m' = afterPeriodW stations m p w ∧ appliedColumn m' p.t = some col := by
  obtain ⟨t, l, sch⟩ := p
  unfold periodStepW at h
  cases sch with
  | none =>
    simp only at h
    cases hc : appliedColumn (increaseWidth m w) t with
    | none => rw [hc] at h; cases h
    | some c =>
      rw [hc] at h
      injection h with h; injection h with h1 h2
      subst h1; subst h2
      exact ⟨rfl, hc⟩
  | some s =>
    simp only at h
    cases hu : updateSchedules stations m t l s with
    | error e => rw [hu] at h; cases h
    | ok m1 =>
      rw [hu] at h
      simp only at h
      cases hc : appliedColumn (increaseWidth m1 w) t with
      | none => rw [hc] at h; cases h
      | some c =>
        rw [hc] at h
        injection h with h; injection h with h1 h2
        subst h1; subst h2
        refine ⟨?_, hc⟩
        simp only [afterPeriodW, subsOf, List.filterMap_cons, Option.map_some, List.filterMap_nil,
          List.foldl_cons, List.foldl_nil, submit, hu]

theorem afterPeriodW_wf {stations : List String} {m : Mat K} (h : m.WF stations.length) (p : Period K)
    (w : Nat) : (afterPeriodW stations m p w).WF stations.length :=
  increaseWidth_wf (foldl_submit_wf _ h) _

theorem afterPeriodW_get {stations : List String} {m : Mat K} (h : m.WF stations.length) (p : Period K)
    (w : Nat) (st : String) (τ : Nat) :
    (afterPeriodW stations m p w).get (stations.idxOf st) τ =
      pilotFrom stations (m.get (stations.idxOf st) τ) (subsOf [p]) st τ := by
  unfold afterPeriodW
  rw [increaseWidth_get', foldl_submit_get _ h]

/-- **generic run theorem**: any sequence of loop trips, any growth targets, any start matrix -/
theorem runTrips_spec {stations : List String} (hn : stations.Nodup) :
    ∀ (trips : List (Period K × Nat)) (m m' : Mat K) (cols : List (List K)),
      m.WF stations.length → runTrips stations m trips = .ok (m', cols) →
      m'.WF stations.length
      ∧ (∀ st τ, m'.get (stations.idxOf st) τ =
          pilotFrom stations (m.get (stations.idxOf st) τ) (subsOf (trips.map Prod.fst)) st τ)
      ∧ cols.length = trips.length
      ∧ ∀ k (hk : k < trips.length), cols[k]? =
          some (stations.map fun st =>
            pilotFrom stations (m.get (stations.idxOf st) trips[k].1.t)
              (subsOf ((trips.take (k + 1)).map Prod.fst)) st trips[k].1.t) := by
  intro trips
  induction trips with
  | nil =>
    intro m m' cols hm h
    simp only [runTrips] at h
    injection h with h; injection h with h1 h2
    subst h1; subst h2
    exact ⟨hm, fun _ _ => rfl, rfl, fun k hk => absurd hk (by simp)⟩
  | cons pw rest ih =>
    obtain ⟨p, w⟩ := pw
    intro m m' cols hm h
    simp only [runTrips] at h
    cases hp : periodStepW stations m p w with
    | error e => rw [hp] at h; cases h
    | ok r =>
      obtain ⟨m1, col⟩ := r
      rw [hp] at h
      simp only at h
      cases hr : runTrips stations m1 rest with
      | error e => rw [hr] at h; cases h
      | ok r2 =>
        obtain ⟨m2, cols2⟩ := r2
        rw [hr] at h
        simp only at h
        injection h with h; injection h with h1 h2
        subst h1; subst h2
        obtain ⟨e1, hcol⟩ := periodStepW_ok hp
        have hm1 : m1.WF stations.length := e1 ▸ afterPeriodW_wf hm p w
        have hget1 : ∀ st τ, m1.get (stations.idxOf st) τ =
            pilotFrom stations (m.get (stations.idxOf st) τ) (subsOf [p]) st τ := by
          intro st τ; rw [e1]; exact afterPeriodW_get hm p w st τ
        obtain ⟨i1, i2, i3, i4⟩ := ih m1 m2 cols2 hm1 hr
        refine ⟨i1, ?_, by simp [i3], ?_⟩
        · intro st τ
          rw [i2, hget1]
          conv_rhs => rw [List.map_cons, subsOf_cons, pilotFrom_append]
        · intro k hk
          cases k with
          | zero =>
            simp only [List.getElem?_cons_zero, List.take_succ_cons, List.take_zero,
              List.getElem_cons_zero, Option.some.injEq, List.map_cons, List.map_nil]
            rw [appliedColumn_spec hn hm1 _ _ hcol]
            apply List.map_congr_left
            intro st _
            exact hget1 st p.t
          | succ k =>
            have hk' : k < rest.length := by simpa using hk
            simp only [List.getElem?_cons_succ, List.take_succ_cons, List.getElem_cons_succ,
              List.map_cons]
            rw [i4 k hk']
            congr 1
            apply List.map_congr_left
            intro st _
            rw [subsOf_cons, pilotFrom_append, hget1]

theorem periodStepW_no_indexError {stations : List String} {m : Mat K} (h : m.WF stations.length)
    (p : Period K) (w : Nat) (hw : p.t < w) :
    periodStepW stations m p w ≠ .error .indexError := by
  obtain ⟨t, l, sch⟩ := p
  have hwid : ∀ m1 : Mat K, t < (increaseWidth m1 w).width := by
    intro m1; rw [increaseWidth_width]; exact lt_of_lt_of_le hw (le_max_right _ _)
  unfold periodStepW
  cases sch with
  | none =>
    simp only
    obtain ⟨c, hc⟩ := appliedColumn_isSome (increaseWidth_wf h w) t (hwid m)
    rw [hc]; simp
  | some s =>
    simp only
    cases hu : updateSchedules stations m t l s with
    | error e => simp
    | ok m1 =>
      simp only
      have hm1 : m1.WF stations.length := by
        have := submit_wf h ⟨t, l, s⟩
        simpa [submit, hu] using this
      obtain ⟨c, hc⟩ := appliedColumn_isSome (increaseWidth_wf hm1 w) t (hwid m1)
      rw [hc]; simp

theorem runTrips_no_indexError' {stations : List String} :
    ∀ (trips : List (Period K × Nat)) (m : Mat K), m.WF stations.length →
      (∀ pw ∈ trips, pw.1.t < pw.2) → runTrips stations m trips ≠ .error .indexError := by
  intro trips
  induction trips with
  | nil => intro m _ _; simp [runTrips]
  | cons pw rest ih =>
    obtain ⟨p, w⟩ := pw
    intro m hm hl
    simp only [runTrips]
    cases hp : periodStepW stations m p w with
    | error e =>
      simp only
      intro hc
      injection hc with hc
      subst hc
      exact periodStepW_no_indexError hm p w (hl (p, w) (List.mem_cons_self ..)) hp
    | ok r =>
      obtain ⟨m1, col⟩ := r
      simp only
      have hm1 : m1.WF stations.length := (periodStepW_ok hp).1 ▸ afterPeriodW_wf hm p w
      have := ih m1 hm1 (fun q hq => hl q (List.mem_cons_of_mem _ hq))
      cases hr : runTrips stations m1 rest with
      | error e =>
        simp only
        intro hc; injection hc with hc; subst hc; exact this hr
      | ok r2 => simp

theorem lt_stepWidth (t : Nat) (l : Option Nat) : t < stepWidth t l := by
  cases l with
  | none => simp [stepWidth]
  | some l =>
    simp only [stepWidth]
    exact lt_of_lt_of_le (Nat.lt_succ_self t) (Nat.le_max_right _ _)

/-- the submissions of a step-driven simulation: every loop trip submits the call's schedule -/
theorem subsOf_tripsOfSteps (calls : List (Sched K × List (Nat × Option Nat))) :
    subsOf ((tripsOfSteps calls).map Prod.fst) =
      calls.flatMap fun c => c.2.map fun it => (⟨it.1, it.2, c.1⟩ : Submission K) := by
  induction calls with
  | nil => rfl
  | cons c rest ih =>
    simp only [tripsOfSteps, List.flatMap_cons, List.map_append] at ih ⊢
    simp only [subsOf, List.filterMap_append] at ih ⊢
    rw [ih]
    congr 1
    simp only [tripsOfStep, List.map_map, List.filterMap_map]
    induction c.2 with
    | nil => rfl
    | cons it its ih2 => simp [List.filterMap_cons, ih2]

/-! ### `last_applied_pilot_signals` -/

theorem lastApplied_early (stations : List String) (m : Mat K) (iteration : Nat)
    (active : List (String × String × Nat)) (h : iteration ≤ 1) :
    lastApplied stations m iteration active = some [] := by
  simp [lastApplied, h]

theorem appliedColumn_getElem {stations : List String} {m : Mat K} (h : m.WF stations.length)
    (t : Nat) (col : List K) (hc : appliedColumn m t = some col) (i : Nat) (hi : i < stations.length) :
    ∃ r, m.rows[i]? = some r ∧ r[t]? = col[i]? ∧ ∃ x, r[t]? = some x := by
  obtain ⟨e, hlt⟩ := mapM_getElem?_some _ _ _ hc
  have hi' : i < m.rows.length := by rw [h.1]; exact hi
  refine ⟨m.rows[i], List.getElem?_eq_getElem hi', ?_, ?_⟩
  · subst e
    have ht := hlt m.rows[i] (List.getElem_mem _)
    simp [List.getElem?_map, hi', List.getD_eq_getElem?_getD, ht]
  · have ht := hlt m.rows[i] (List.getElem_mem _)
    exact ⟨_, List.getElem?_eq_getElem ht⟩

theorem lastApplied_mapM_aux {α β : Type} (f : α → Option β) (g : α → β) (l : List α)
    (h : ∀ a ∈ l, f a = some (g a)) : l.mapM f = some (l.map g) := by
  induction l with
  | nil => rfl
  | cons a rest ih =>
    rw [List.mapM_cons, h a (List.mem_cons_self ..), ih (fun b hb => h b (List.mem_cons_of_mem _ hb))]
    rfl

end Acn.Pilots
