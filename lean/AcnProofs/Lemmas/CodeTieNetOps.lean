/-
  T1c, stateful methods — `ChargingNetwork.plugin` / `unplug` / `get_ev` / `active_evs` refine the network of the
  run-loop model, by proof (group NetOps; properties C01, C13, C19).

  `AcnModel/Gen/CodeNetOps.lean` is regenerated on every run from acnportal/acnsim/network/charging_network.py:
  `self._EVSEs` is an insertion-ordered association list `station id ↦ Evse.Evse K` (`PyNet K`), `d[k]` is a lookup
  that raises `KeyError`, `d[k].plugin(ev)` calls the TRANSLATED `BaseEVSE.plugin` on the element and writes the
  element back, `x.ev.session_id` on an empty EVSE is `AttributeError`; `warnings.warn` is skipped.

  The hand model the C01 / C19 theorems are about keeps only the occupancy map (`EventCore.chargingNet` on
  `String → Option Session`), so the ties are REFINEMENTS through the abstraction `occOf` (who occupies a station)
  and `stationsOf` (the registered ids): same outcome (done / `KeyError` / `StationOccupiedError`), same occupancy
  afterwards — also at a raise —, stations unchanged.  In particular the session-id guard of `unplug`: the EVSE is vacated exactly when
  its occupant has the given session id; a stale unplug event changes nothing; none of the translated
  `AttributeError` / inner `KeyError` paths is reachable.  `active_evs` is the filter `Sim.isActive` over the
  occupants in `_EVSEs` order and never raises.
-/
import AcnModel.Gen.CodeNetOps
import AcnModel.EventCoreG
import AcnModel.Sim
import AcnProofs.Lemmas.CodeTieEvseOps

set_option linter.unusedSectionVars false
set_option linter.unusedSimpArgs false

namespace Acn.CodeTie
open Acn Acn.Battery Acn.Evse Acn.Gen.Code Acn.EventCore

/-! ### the association list standing for `_EVSEs` -/

theorem dictGet_dictSet {β : Type} (d : List (String × β)) (k : String) (v : β) (k' : String) :
    dictGet? (dictSet d k v) k' = if k = k' then some v else dictGet? d k' := by
  induction d with
  | nil =>
    by_cases h : k = k' <;> simp [dictSet, dictGet?, h]
  | cons p r ih =>
    obtain ⟨k0, v0⟩ := p
    by_cases h0 : k0 = k
    · subst h0
      by_cases h : k0 = k' <;> simp [dictSet, dictGet?, h]
    · simp only [dictSet, h0, if_false, dictGet?]
      by_cases h1 : k0 = k'
      · subst h1
        simp [Ne.symm h0] 
      · simp [h1, ih]

theorem dictGet_isSome_iff {β : Type} (d : List (String × β)) (k : String) :
    (dictGet? d k).isSome = (d.map (·.1)).contains k := by
  induction d with
  | nil => rfl
  | cons p r ih =>
    obtain ⟨k0, v0⟩ := p
    by_cases h : k0 = k
    · subst h; simp [dictGet?]
    · have h' : ¬ k = k0 := fun e => h e.symm
      simp [dictGet?, h, h', ih]

/-- a known key keeps its place: the keys do not change -/
theorem dictSet_keys {β : Type} (d : List (String × β)) (k : String) (v : β) (h : (dictGet? d k).isSome) :
    (dictSet d k v).map (·.1) = d.map (·.1) := by
  induction d with
  | nil => simp [dictGet?] at h
  | cons p r ih =>
    obtain ⟨k0, v0⟩ := p
    by_cases h0 : k0 = k
    · subst h0; simp [dictSet]
    · simp only [dictGet?, h0, if_false] at h
      simp [dictSet, h0, ih h]

section
variable {K : Type} [Add K] [Sub K] [Mul K] [Div K] [Neg K] [LT K] [LE K]
  [DecidableLT K] [DecidableLE K] [OfNat K 0] [OfNat K 1] [NatCast K] [HasExp K]

/-! ### abstraction to the occupancy map of `EventCore.chargingNet` (C01 / C19's network) -/

/-- `network.station_ids` -/
def stationsOf (n : PyNet K) : List String := n.evses.map (·.1)

/-- which session occupies a station: `_EVSEs[st].ev`, as the static record of its session -/
def occOf (n : PyNet K) : String → Option Session :=
  fun st => (dictGet? n.evses st).bind (fun s => s.ev.map Sim.sessionOf)

/-- the model's error classes as abstractions of the Python exceptions of `plugin` / `unplug` -/
def coreErrOfPy : PyErr → EventCore.Err
  | .StationOccupiedError => .stationOccupied
  | .KeyError => .keyError
  | .IndexError => .indexError
  | .InvalidRateError => .invalidRate
  | _ => .valueError

theorem occOf_set (n : PyNet K) (k : String) (v : Evse K) :
    occOf { n with evses := dictSet n.evses k v } = setOcc (occOf n) k (v.ev.map Sim.sessionOf) := by
  funext st
  simp only [occOf, setOcc, dictGet_dictSet]
  by_cases h : k = st
  · subst h; simp
  · have : ¬ st = k := fun e => h e.symm
    simp [h, this]

theorem contains_stations (n : PyNet K) (k : String) :
    (stationsOf n).contains k = (dictGet? n.evses k).isSome := (dictGet_isSome_iff n.evses k).symm

/-- what a translated method reports to the run loop: `none`, or the model's class of the exception -/
def coreOutcome : Except PyErr Unit → Option EventCore.Err
  | .ok _ => none
  | .error e => some (coreErrOfPy e)

/-- writing an EVSE back under its own key with the same occupant does not change who occupies what -/
theorem occOf_set_same (n : PyNet K) (k : String) (v v' : Evse K) (hg : dictGet? n.evses k = some v)
    (hev : v'.ev = v.ev) : occOf { n with evses := dictSet n.evses k v' } = occOf n := by
  rw [occOf_set]
  funext st
  simp only [setOcc, occOf]
  by_cases h : st = k
  · subst h; simp [hg, hev]
  · simp [h]

/-- `ChargingNetwork.plugin(ev)` refines `chargingNet.plugin` on the occupancy map: same outcome (plugged in /
    `KeyError` / `StationOccupiedError`) and the same occupancy afterwards — also when it raises -/
theorem net_plugin_tie (n : PyNet K) (ev : Ev K) (sid : Option String) :
    (chargingNet (stationsOf n)).plugin (occOf n) (Sim.sessionOf ev) =
      (occOf (net_plugin n ev sid).1, coreOutcome (net_plugin n ev sid).2) := by
  show (if (stationsOf n).contains ev.station = true then
          (match occOf n ev.station with
           | some _ => (occOf n, some EventCore.Err.stationOccupied)
           | none => (setOcc (occOf n) ev.station (some (Sim.sessionOf ev)), none))
        else (occOf n, some EventCore.Err.keyError)) = _
  unfold net_plugin
  rw [contains_stations]
  cases hg : dictGet? n.evses ev.station with
  | none => rfl
  | some v =>
    simp only [Option.isSome_some, if_true]
    simp only [occOf, hg, Option.bind_some]
    rw [evse_plugin_tie]
    unfold Evse.plugin
    cases hv : v.ev with
    | none =>
      simp only [Option.map_none]
      have := occOf_set n ev.station { v with ev := some ev }
      simp only [occOf, Option.map_some] at this
      rw [this]
      rfl
    | some e0 =>
      have := occOf_set_same n ev.station v v hg rfl
      show (occOf n, some EventCore.Err.stationOccupied) = (occOf { evses := dictSet n.evses ev.station v }, _)
      rw [this]
      rfl

/-- the registered stations never change -/
theorem net_plugin_stations (n : PyNet K) (ev : Ev K) (sid : Option String) :
    stationsOf (net_plugin n ev sid).1 = stationsOf n := by
  unfold net_plugin
  cases hg : dictGet? n.evses ev.station with
  | none => rfl
  | some v =>
    have hs : (dictGet? n.evses ev.station).isSome = true := by rw [hg]; rfl
    simp only [Option.isSome_some, if_true]
    cases hp : evse_plugin v ev with
    | mk s2 r =>
      cases r <;> exact dictSet_keys _ _ _ hs

/-- `ChargingNetwork.unplug(station_id, session_id)` with the session id the Simulator passes refines
    `chargingNet.unplug`: the EVSE is vacated exactly when its occupant has that session id -/
theorem net_unplug_tie (n : PyNet K) (x : Session) :
    (chargingNet (stationsOf n)).unplug (occOf n) x =
      (occOf (net_unplug n x.station (some x.id)).1, coreOutcome (net_unplug n x.station (some x.id)).2) := by
  show (if (stationsOf n).contains x.station = true then
          ((match occOf n x.station with
            | some y => if y.id == x.id then setOcc (occOf n) x.station none else occOf n
            | none => occOf n), none)
        else (occOf n, some EventCore.Err.keyError)) = _
  unfold net_unplug
  rw [contains_stations]
  cases hg : dictGet? n.evses x.station with
  | none => rfl
  | some v =>
    simp only [Option.isSome_some, if_true, Option.isNone_some, Bool.false_eq_true, if_false]
    simp only [occOf, hg, Option.bind_some]
    cases hv : v.ev with
    | none => rfl
    | some e0 =>
      simp only [Option.isNone_some, Bool.false_eq_true, if_false, Option.map_some, Sim.sessionOf]
      by_cases hid : e0.session = x.id
      · have h1 : (some x.id = some e0.session) := by rw [hid]
        simp only [h1, decide_true, if_true, hid, beq_self_eq_true]
        rw [occOf_set n x.station (evse_unplug v)]
        rfl
      · have h1 : ¬ (some x.id = some e0.session) := by
          intro h; injection h with h; exact hid h.symm
        have h2 : (e0.session == x.id) = false := by simpa using hid
        simp [h1, h2, coreOutcome]

theorem net_unplug_stations (n : PyNet K) (st : String) (sid : Option String) :
    stationsOf (net_unplug n st sid).1 = stationsOf n := by
  unfold net_unplug
  cases hg : dictGet? n.evses st with
  | none => rfl
  | some v =>
    have hs : (dictGet? n.evses st).isSome = true := by rw [hg]; rfl
    have hk := dictSet_keys n.evses st (evse_unplug v) hs
    simp only [Option.isSome_some, if_true]
    cases sid with
    | none => exact hk
    | some id =>
      simp only [Option.isNone_some, Bool.false_eq_true, if_false]
      cases hv : v.ev with
      | none => rfl
      | some e0 =>
        simp only [Option.isNone_some, Bool.false_eq_true, if_false]
        by_cases hid : (some id = some e0.session)
        · simp only [hid, decide_true, if_true]; exact hk
        · simp only [hid, decide_false, Bool.false_eq_true, if_false]

/-- without a session id (deprecated form) the EVSE is vacated unconditionally -/
theorem net_unplug_none (n : PyNet K) (st : String) (h : (stationsOf n).contains st = true) :
    (net_unplug n st none).2 = .ok () ∧ occOf (net_unplug n st none).1 = setOcc (occOf n) st none := by
  unfold net_unplug
  have hs : (dictGet? n.evses st).isSome = true := by rw [← contains_stations]; exact h
  cases hg : dictGet? n.evses st with
  | none => rw [hg] at hs; cases hs
  | some v =>
    simp only [Option.isSome_some, if_true, Option.isNone_none]
    refine ⟨by first | rfl | trivial, ?_⟩
    have := occOf_set n st (evse_unplug v)
    simpa [evse_unplug] using this

/-- `ChargingNetwork.get_ev`: `KeyError` exactly for an unregistered station, otherwise the occupant -/
theorem net_get_ev_tie (n : PyNet K) (st : String) :
    net_get_ev n st =
      if (stationsOf n).contains st then .ok ((dictGet? n.evses st).bind (·.ev)) else .error .KeyError := by
  unfold net_get_ev
  rw [contains_stations]
  cases hg : dictGet? n.evses st <;> rfl

theorem net_get_ev_occ (n : PyNet K) (st : String) (r : Option (Ev K)) (h : net_get_ev n st = .ok r) :
    occOf n st = r.map Sim.sessionOf := by
  rw [net_get_ev_tie] at h
  by_cases hc : (stationsOf n).contains st = true
  · rw [if_pos hc] at h
    cases h
    simp only [occOf]
    cases dictGet? n.evses st <;> rfl
  · rw [if_neg hc] at h
    cases h

theorem pyComp_total {α β : Type} (f : α → Except PyErr (Option β)) (g : α → Option β) (l : List α)
    (h : ∀ x, f x = .ok (g x)) : pyComp f l = .ok (l.filterMap g) := by
  induction l with
  | nil => rfl
  | cons x xs ih =>
    simp only [pyComp, h x, ih, List.filterMap_cons]
    cases g x <;> rfl

/-- `ChargingNetwork.active_evs`: the occupants, in `_EVSEs` order, that are not fully charged (`Sim.isActive`
    at the literal threshold of `EV.fully_charged`); the translated comprehension never raises -/
theorem net_active_evs_tie (cfg : Sim.Cfg K) (hε : cfg.fullEps = ((1 : Nat) : K) / ((1000 : Nat) : K)) (n : PyNet K) :
    net_active_evs n =
      .ok ((dictValues n.evses).filterMap fun s =>
        match s.ev with
        | some e => if Sim.isActive cfg e then some (some e) else none
        | none => none) := by
  unfold net_active_evs
  rw [pyComp_total _ (fun s => match s.ev with
        | some e => if Sim.isActive cfg e then some (some e) else none
        | none => none)]
  intro s
  cases hv : s.ev with
  | none => rfl
  | some e =>
    simp only [Option.isSome_some, Sim.isActive, hε, Bool.not_not]
    by_cases ha : ((1 : Nat) : K) / ((1000 : Nat) : K) < e.requested - e.delivered
    · simp [ha]
    · simp [ha]

end

/-- every target of this group was translated in this run -/
theorem all_translated_netops : translatedNetOps = ["net_plugin", "net_unplug", "net_get_ev", "net_active_evs"] := by
  decide

end Acn.CodeTie
