/-
  Helper lemmas for C10 (Sim level, sessions, RAISING runs).  On a `Valid` scenario the events of a period
  never raise (C01), so a run over a permuted listing of the sessions / recompute events can only be
  aborted by the scheduler (`BaseAlgorithm.run`, `_update_schedules`) or by the pilot application — and
  those stages read the listing order nowhere (`schedStage_mid`, `updatePilotsFrom_mid`, `storeRates_mid`
  are two-sided already): the same error, in the same period, in states related as at any other point in
  the middle of a period (`Mid` + `CoreEquiv`).
-/
import AcnProofs.Lemmas.EquivSimSessionsRun
import AcnProofs.Lemmas.EventCoreSimFail

set_option linter.unusedSectionVars false
set_option linter.unusedSimpArgs false
set_option linter.unusedVariables false

namespace Acn.SimPerm
open Acn Acn.Sim Acn.EventCore Acn.Evse Acn.SimEquiv Acn.Ledger Acn.Pilots

variable {K : Type} [Field K] [LinearOrder K] [IsStrictOrderedRing K] [HasExp K]

theorem coreEquiv_markInvoked {c c' : Core} (h : CoreEquiv c c') : CoreEquiv (markInvoked c) (markInvoked c') :=
  ⟨h.iter, h.pending, h.occ, h.resolve, h.lastUpd, h.eventHist, h.evHist, by
    simp only [EventCore.markInvoked, h.invoked, h.iter]⟩

theorem coreEquiv_markScheduled {c c' : Core} (h : CoreEquiv c c') : CoreEquiv (markScheduled c) (markScheduled c') :=
  ⟨h.iter, h.pending, h.occ, rfl, by simp only [EventCore.markScheduled, h.iter], h.eventHist, h.evHist, h.invoked⟩

section
variable {cfg : Cfg K}

/-- the pilot application stage, two-sided: same error (or none), `Mid` states -/
theorem applyStage_mid_any {s s' : State K} (h : Mid s s') :
    (applyStage cfg s').2 = (applyStage cfg s).2 ∧ Mid (applyStage cfg s).1 (applyStage cfg s').1 := by
  have hwi := widthInc_mid h
  have hm : Mid (widen s) (widen s') := by
    refine ⟨h.occ, h.iter, h.pend, ?_, ?_, h.peak, h.evs, h.evseLen, h.noiseIdx, h.occLog⟩
    · simp only [widen, hwi, h.pilots]
    · simp only [widen, hwi, h.rates]
  unfold applyStage
  rw [hm.pilots, h.iter, hwi]
  by_cases hwc : (widen s).pilots.width ≤ s.core.iter
  · simp only [hwc, if_true]
    exact ⟨trivial, hm⟩
  · simp only [hwc, if_false]
    obtain ⟨h1, h2⟩ := updatePilotsFrom_mid (cfg := cfg) cfg.stations 0 hm
    unfold updatePilots
    rcases hup : updatePilotsFrom cfg 0 cfg.stations (widen s) with ⟨s2, e2⟩
    rcases hup' : updatePilotsFrom cfg 0 cfg.stations (widen s') with ⟨s2', e2'⟩
    rw [hup, hup'] at h1 h2
    simp only at h1 h2
    subst h1
    cases e2' with
    | some x => exact ⟨rfl, h2⟩
    | none =>
      simp only
      obtain ⟨h3, h4⟩ := storeRates_mid (cfg := cfg) (widthInc s) h2
      rcases hs3 : storeRates cfg (widthInc s) s2 with ⟨s3, e3⟩
      rcases hs3' : storeRates cfg (widthInc s) s2' with ⟨s3', e3'⟩
      rw [hs3, hs3'] at h3 h4
      simp only at h3 h4
      subst h3
      cases e3' with
      | some x => exact ⟨rfl, h4⟩
      | none =>
        simp only
        refine ⟨trivial, ⟨h4.occ, ?_, h4.pend, h4.pilots, h4.rates, h4.peak, h4.evs, h4.evseLen, h4.noiseIdx, ?_⟩⟩
        · simp only [advance, h4.iter]
        · simp only [h4.occLog, h4.occ]

theorem applyStage_core_err {s r : State K} {e : EventCore.Err} (h : applyStage cfg s = (r, some e)) :
    r.core = s.core := by
  have := applyStage_core_any cfg s
  rw [h] at this
  exact this

/-- one trip round the loop that raises -/
theorem body_perm_sim_err (hv : Valid cfg.core) {sched : View K → Except EventCore.Err (Schedule K)}
    (hsch : SchedIgnoresEvsePilot sched) {t : Nat} {s s' r : State K} {e : EventCore.Err}
    (hrel : Rel cfg.core t s.core s'.core) (hnc : NC s s') (hb : Sim.body cfg sched s = (r, some e)) :
    ∃ r', Sim.body cfg sched s' = (r', some e) ∧ CoreEquiv r.core r'.core ∧ Mid r r' := by
  obtain ⟨c1, c1', hc, hc', hce, _, _⟩ := eventsStage_equiv hv hrel
  have hcs := Sim.eventsStage_core cfg s
  have hcs' := Sim.eventsStage_core cfg s'
  rw [hc] at hcs
  rw [hc'] at hcs'
  obtain ⟨f1, f2, f3, f4, f5, f6, f7⟩ := eventsStage_frame' (cfg := cfg) s
  obtain ⟨g1, g2, g3, g4, g5, g6, g7⟩ := eventsStage_frame' (cfg := cfg) s'
  obtain ⟨s1, e1, hev⟩ : ∃ s1 e1, Sim.eventsStage cfg s = (s1, e1) := ⟨_, _, rfl⟩
  obtain ⟨s1', e1', hev'⟩ : ∃ s1' e1', Sim.eventsStage cfg s' = (s1', e1') := ⟨_, _, rfl⟩
  rw [hev] at hcs f1 f2 f3 f4 f5 f6 f7
  rw [hev'] at hcs' g1 g2 g3 g4 g5 g6 g7
  simp only [Prod.mk.injEq] at hcs hcs' f1 f2 f3 f4 f5 f6 f7 g1 g2 g3 g4 g5 g6 g7
  obtain ⟨hk1, hk2⟩ := hcs
  obtain ⟨hk1', hk2'⟩ := hcs'
  subst hk2 hk2'
  have hmid : Mid s1 s1' :=
    ⟨by rw [hk1, hk1', hce.occ], by rw [hk1, hk1', hce.iter], by rw [hk1, hk1']; exact hce.pending.symm,
     by rw [f1, g1, hnc.pilots], by rw [f2, g2, hnc.rates], by rw [f3, g3, hnc.peak],
     by rw [f4, g4]; exact hnc.evs, by rw [f7, g7, hnc.evsePilot], by rw [f5, g5, hnc.noiseIdx],
     by rw [f6, g6, hnc.occLog]⟩
  have hce1 : CoreEquiv s1.core s1'.core := by rw [hk1, hk1']; exact hce
  have hns : needsSched cfg.maxRecompute s1'.core = needsSched cfg.maxRecompute s1.core := by
    rw [hk1, hk1']
    simp only [needsSched, hce.resolve, hce.lastUpd, hce.iter]
  unfold Sim.body at hb ⊢
  rw [hev] at hb
  rw [hev']
  simp only [hns] at hb ⊢
  by_cases hn : needsSched cfg.maxRecompute s1.core = true
  · simp only [hn, if_true] at hb ⊢
    have hm2 : Mid { s1 with core := markInvoked s1.core } { s1' with core := markInvoked s1'.core } :=
      ⟨hmid.occ, hmid.iter, hmid.pend, hmid.pilots, hmid.rates, hmid.peak, hmid.evs, hmid.evseLen, hmid.noiseIdx,
        hmid.occLog⟩
    rw [schedStage_mid (cfg := cfg) hsch hm2]
    cases hss : schedStage cfg sched { s1 with core := markInvoked s1.core } with
    | error e0 =>
      rw [hss] at hb
      simp only [Prod.mk.injEq, Option.some.injEq] at hb
      obtain ⟨rfl, rfl⟩ := hb
      exact ⟨_, rfl, coreEquiv_markInvoked hce1, hm2⟩
    | ok m =>
      rw [hss] at hb
      simp only at hb ⊢
      have hm3 : Mid { s1 with core := markScheduled (markInvoked s1.core), pilots := m }
          { s1' with core := markScheduled (markInvoked s1'.core), pilots := m } :=
        ⟨hmid.occ, hmid.iter, hmid.pend, rfl, hmid.rates, hmid.peak, hmid.evs, hmid.evseLen, hmid.noiseIdx,
          hmid.occLog⟩
      obtain ⟨a1, a2⟩ := applyStage_mid_any (cfg := cfg) hm3
      rcases hap' : applyStage cfg { s1' with core := markScheduled (markInvoked s1'.core), pilots := m } with ⟨r', e'⟩
      rw [hb, hap'] at a1 a2
      simp only at a1 a2
      subst a1
      refine ⟨r', rfl, ?_, a2⟩
      rw [applyStage_core_err hb, applyStage_core_err hap']
      exact coreEquiv_markScheduled (coreEquiv_markInvoked hce1)
  · simp only [hn, Bool.false_eq_true, if_false] at hb ⊢
    obtain ⟨a1, a2⟩ := applyStage_mid_any (cfg := cfg) hmid
    rcases hap' : applyStage cfg s1' with ⟨r', e'⟩
    rw [hb, hap'] at a1 a2
    simp only at a1 a2
    subst a1
    refine ⟨r', rfl, ?_, a2⟩
    rw [applyStage_core_err hb, applyStage_core_err hap']
    exact hce1

/-- a run that raises, from two states that differ by the listing order -/
theorem run_perm_sim_err (hv : Valid cfg.core) {sched : View K → Except EventCore.Err (Schedule K)}
    (hsch : SchedIgnoresEvsePilot sched) : ∀ (n t : Nat) {s s' r : State K} {e : EventCore.Err},
    Rel cfg.core t s.core s'.core → NC s s' → s.evsePilot.length = cfg.stations.length →
    Sim.run cfg sched n s = (r, some e) →
    ∃ r', Sim.run cfg sched n s' = (r', some e) ∧ CoreEquiv r.core r'.core ∧ Mid r r' := by
  intro n
  induction n with
  | zero => intro t s s' r e _ _ _ hr; simp [Sim.run] at hr
  | succ n ih =>
    intro t s s' r e hrel hnc hl hr
    have hg := guard_equiv hrel.equiv
    simp only [Sim.run] at hr ⊢
    rw [← hg]
    by_cases hgc : guard s.core = true
    · simp only [hgc, if_true] at hr ⊢
      rcases hb : Sim.body cfg sched s with ⟨s1, _ | e1⟩
      · rw [hb] at hr
        simp only at hr
        obtain ⟨s1', hb', hrel1, hnc1, hl1⟩ := body_perm_sim hv hsch hrel hnc hl hb
        rw [hb']
        exact ih (t + 1) hrel1 hnc1 hl1 hr
      · rw [hb] at hr
        simp only [Prod.mk.injEq, Option.some.injEq] at hr
        obtain ⟨rfl, rfl⟩ := hr
        obtain ⟨r', hb', h1, h2⟩ := body_perm_sim_err hv hsch hrel hnc hb
        rw [hb']
        exact ⟨r', rfl, h1, h2⟩
    · simp [hgc] at hr

end
end Acn.SimPerm
