/-
  T1c helper (used by CodeTieQueueOps): CPython's `heappop` as transcribed in AcnModel/Queue.lean removes exactly
  one entry from ANY array (no heap invariant needed), and succeeds on every non-empty one.  This is what makes
  `len(self._queue)` a sufficient fuel for the translated `while` loop of `get_current_events`.
-/
import AcnModel.Queue

namespace Acn.CodeTie
open Acn

/-! ### sizes: `heappop` removes exactly one entry, whatever the heap looks like -/
namespace HeapSize
variable {α : Type} (lt : α → α → Bool)

theorem siftdownLoop_size (x : α) (sp : Nat) : ∀ (fuel : Nat) (a : Array α) (pos : Nat),
    (Heap.siftdownLoop lt x sp fuel a pos).1.size = a.size := by
  intro fuel
  induction fuel with
  | zero => intro a pos; rfl
  | succ n ih =>
    intro a pos
    unfold Heap.siftdownLoop
    split
    · simp only
      split
      · split
        · rw [ih]; simp
        · rfl
      · rfl
    · rfl

theorem siftdown_size (a : Array α) (sp pos : Nat) : (Heap.siftdown lt a sp pos).size = a.size := by
  unfold Heap.siftdown
  split
  · simp [siftdownLoop_size]
  · rfl

theorem siftupLoop_size (ep : Nat) : ∀ (fuel : Nat) (a : Array α) (pos : Nat),
    (Heap.siftupLoop lt ep fuel a pos).1.size = a.size := by
  intro fuel
  induction fuel with
  | zero => intro a pos; rfl
  | succ n ih =>
    intro a pos
    unfold Heap.siftupLoop
    simp only
    split
    · split
      · rw [ih]; simp
      · rfl
    · rfl

theorem siftup_size (a : Array α) (pos : Nat) : (Heap.siftup lt a pos).size = a.size := by
  unfold Heap.siftup
  split
  · simp [siftdown_size, siftupLoop_size]
  · rfl

theorem heappop_size {a : Array α} {x : α} {a' : Array α} (h : Heap.heappop lt a = .ok (x, a')) :
    a'.size + 1 = a.size := by
  unfold Heap.heappop at h
  split at h
  · cases h
  · rename_i last hb
    have hne : 0 < a.size := by
      cases ha : a.size with
      | zero => simp [Array.back?, ha] at hb
      | succ n => omega
    simp only at h
    split at h
    · cases h
      simp [siftup_size]; omega
    · cases h
      simp; omega

theorem heappop_ok_of_pos {a : Array α} (h : 0 < a.size) : ∃ p, Heap.heappop lt a = .ok p := by
  unfold Heap.heappop
  cases hb : a.back? with
  | none =>
    exfalso
    cases ha : a.size with
    | zero => omega
    | succ n => simp [Array.back?, ha] at hb
  | some last =>
    simp only
    split <;> exact ⟨_, rfl⟩

end HeapSize
end Acn.CodeTie
